package c15

// Document-level correspondence, part 4: the direct stream — arbitrary reader contents through the
// VerifNewReader hooks (see docmodel.go). Texts carry ASCII white space only (the model's TrimSpace is
// the ASCII one); everything else is free: levels outside every range, empty texts, Markdown look-alikes.

import (
	"fmt"

	"github.com/tsawler/tabula/docx"
	"github.com/tsawler/tabula/htmldoc"
	"github.com/tsawler/tabula/odt"
	"github.com/tsawler/tabula/pptx"
	"github.com/tsawler/tabula/xlsx"

	"verifharness/hx"
)

var dmTexts = []string{"", "", "Intro", "Overview", "Intro", "Total | net", "a|b|c", "# hash start", "- dash start", "1. one", "  indented",
	"x y z", "Ünï cödé ÄÖ", "日本語 見出し", "MiXeD Case", "tab\there", "line1\nline2", "\nlead nl", "trail nl\n", "---", "## Table of Contents",
	"> quote", "*p. 3*", "a  b", " ", "cr\rhere", "Page 1", "| a | b |", "back\\slash", "😀 emoji"}

var dmMetaStrings = []string{"", "", "Title", "He said \"hi\"", "back\\slash", "ünï 日本", "line\nbreak", "tab\there", "ctl\x00\x1f", "it's 'q'", "bad\xffutf8", "Two Words", "a: b #c"}

var dmKeywordStrings = []string{"", "", "one", "a, b ,,c", " , ", "k\"q\", x\\y", "日本, ünï"}

func genHF(r *hx.Rng) []string {
	var out []string
	for k := hx.Pick(r, []int{0, 0, 1, 1, 2}); k > 0; k-- {
		s := hx.Pick(r, dmTexts)
		if r.Bool() {
			s = " " + s + "\t\n" + hx.Pick(r, dmTexts)
		}
		out = append(out, s)
	}
	return out
}

func genLevel(r *hx.Rng) int { return hx.Pick(r, []int{-2, -1, 0, 1, 1, 2, 2, 3, 4, 5, 6, 7, 9, 12}) }

func genListLevel(r *hx.Rng) int { return hx.Pick(r, []int{-1, 0, 0, 0, 1, 1, 2, 3, 5}) }

// ---------- DOCX ----------

var dmNumIDs = []string{"", "0", "1", "1", "7", "2"}

func genDocxDirect(r *hx.Rng) (els []docx.VerifElem, fmts []docx.VerifNumFmt, nParas int) {
	n := hx.Pick(r, []int{0, 1, 2, 4, 6, 9, 12})
	if !r.Chance(1, 8) {
		fmts = []docx.VerifNumFmt{}
		for _, id := range []string{"1", "7", "2", "0", ""} {
			for lvl := -1; lvl <= 5; lvl++ {
				if r.Chance(1, 2) {
					fmts = append(fmts, docx.VerifNumFmt{NumID: id, Level: lvl, Ordered: r.Chance(2, 3), Start: hx.Pick(r, []string{"", "1", "1", "3", "0", "-2", "x", "10"})})
				}
			}
		}
	}
	numID := hx.Pick(r, dmNumIDs)
	for len(els) < n {
		switch r.Intn(10) {
		case 0, 1:
			els = append(els, docx.VerifElem{Kind: "p", Text: hx.Pick(r, dmTexts), IsHeading: true, Level: genLevel(r)})
		case 2, 3:
			els = append(els, docx.VerifElem{Kind: "p", Text: hx.Pick(r, dmTexts)})
		case 4, 5, 6: // a run of list items, mostly of one list
			for k := r.Range(1, 4); k > 0; k-- {
				if r.Chance(1, 4) {
					numID = hx.Pick(r, dmNumIDs)
				}
				els = append(els, docx.VerifElem{Kind: "p", Text: hx.Pick(r, dmTexts), IsListItem: true, NumID: numID, ListLevel: genListLevel(r)})
			}
		case 7:
			e := docx.VerifElem{Kind: "tbl"}
			if !r.Chance(1, 6) {
				for _, row := range genSpanTable(r) {
					var cells []docx.VerifCell
					for _, cell := range row {
						cells = append(cells, docx.VerifCell{Text: cell.Text, ColSpan: cell.ColSpan, RowSpan: 1, Cont: cell.VCont})
					}
					e.Rows = append(e.Rows, cells)
				}
			}
			els = append(els, e)
		case 8: // flag combinations the parser does not make: heading and list item at once, a list item flag without a list
			els = append(els, docx.VerifElem{Kind: "p", Text: hx.Pick(r, dmTexts), IsHeading: r.Bool(), Level: genLevel(r), IsListItem: r.Bool(), NumID: hx.Pick(r, dmNumIDs), ListLevel: genListLevel(r)})
		default:
			els = append(els, docx.VerifElem{Kind: "p", Text: hx.Pick(r, dmTexts), NumID: hx.Pick(r, dmNumIDs), ListLevel: genListLevel(r)})
		}
	}
	nParas = r.Range(0, len(els))
	if len(els) == 0 {
		nParas = hx.Pick(r, []int{0, 0, 3})
	}
	return
}

func genOfficeMeta(r *hx.Rng) (hasCore bool, title, creator, subject, keywords string, hasApp bool, app string) {
	return !r.Chance(1, 8), hx.Pick(r, dmMetaStrings), hx.Pick(r, dmMetaStrings), hx.Pick(r, dmMetaStrings), hx.Pick(r, dmKeywordStrings),
		!r.Chance(1, 6), hx.Pick(r, dmMetaStrings)
}

// ---------- ODT ----------

var dmStyles = []string{"", "L1", "L1", "LB", "0", "List 2"}

func genOdtDirect(r *hx.Rng) (els []odt.VerifElem, levels []odt.VerifListLevel, nParas int) {
	n := hx.Pick(r, []int{0, 1, 2, 4, 6, 9, 12})
	if !r.Chance(1, 8) {
		levels = []odt.VerifListLevel{}
		for _, st := range []string{"L1", "LB", "0", "List 2", ""} {
			for lvl := -1; lvl <= 5; lvl++ {
				if r.Chance(1, 2) {
					levels = append(levels, odt.VerifListLevel{StyleName: st, Level: lvl, Ordered: r.Chance(2, 3)})
				}
			}
		}
	}
	style := hx.Pick(r, dmStyles)
	for len(els) < n {
		switch r.Intn(10) {
		case 0, 1:
			els = append(els, odt.VerifElem{Kind: "p", Text: hx.Pick(r, dmTexts), IsHeading: true, Level: genLevel(r)})
		case 2, 3:
			els = append(els, odt.VerifElem{Kind: "p", Text: hx.Pick(r, dmTexts), StyleName: hx.Pick(r, dmStyles)})
		case 4, 5, 6:
			for k := r.Range(1, 4); k > 0; k-- {
				if r.Chance(1, 4) {
					style = hx.Pick(r, dmStyles)
				}
				els = append(els, odt.VerifElem{Kind: "p", Text: hx.Pick(r, dmTexts), IsListItem: true, StyleName: style, ListLevel: genListLevel(r)})
			}
		case 7:
			e := odt.VerifElem{Kind: "tbl"}
			if !r.Chance(1, 6) {
				for _, row := range genSpanTable(r) {
					var cells []odt.VerifCell
					for _, cell := range row {
						cells = append(cells, odt.VerifCell{Text: cell.Text, ColSpan: cell.ColSpan, RowSpan: 1, Covered: cell.VCont})
					}
					e.Rows = append(e.Rows, cells)
				}
			}
			els = append(els, e)
		default:
			els = append(els, odt.VerifElem{Kind: "p", Text: hx.Pick(r, dmTexts), IsHeading: r.Chance(1, 3), Level: genLevel(r), IsListItem: r.Bool(), StyleName: hx.Pick(r, dmStyles), ListLevel: genListLevel(r)})
		}
	}
	nParas = r.Range(0, len(els))
	if len(els) == 0 {
		nParas = hx.Pick(r, []int{0, 0, 3})
	}
	return
}

// ---------- HTML ----------

func genHTMLTable(r *hx.Rng) *htmldoc.ParsedTable {
	switch r.Intn(6) {
	case 0:
		return nil
	case 1:
		return &htmldoc.ParsedTable{}
	}
	t := &htmldoc.ParsedTable{HasHeader: r.Bool()}
	for i := r.Range(1, 4); i > 0; i-- {
		cells := []htmldoc.TableCell{}
		for j := r.Range(0, 4); j > 0; j-- {
			cells = append(cells, htmldoc.TableCell{Text: genCell(r), IsHeader: r.Bool(), RowSpan: hx.Pick(r, []int{-1, 0, 1, 1, 1, 2, 2, 3, 1025}), ColSpan: hx.Pick(r, []int{-1, 0, 1, 1, 1, 2, 3, 4, 1025})})
		}
		t.Rows = append(t.Rows, cells)
	}
	if len(t.Rows) == 1 && len(t.Rows[0]) == 1 && t.Rows[0][0].Text == "" {
		t.Rows[0][0].Text = "x" // the protocol cannot spell the table of one empty cell
	}
	return t
}

func genHTMLElems(r *hx.Rng) []htmldoc.VerifElement {
	var els []htmldoc.VerifElement
	for n := hx.Pick(r, []int{0, 1, 2, 4, 6, 9}); n > 0; n-- {
		switch r.Intn(8) {
		case 0, 1:
			els = append(els, htmldoc.VerifElement{Type: htmldoc.ElementHeading, Text: hx.Pick(r, dmTexts), Level: genLevel(r)})
		case 2:
			els = append(els, htmldoc.VerifElement{Type: htmldoc.ElementParagraph, Text: hx.Pick(r, dmTexts)})
		case 3, 4:
			e := htmldoc.VerifElement{Type: htmldoc.ElementList, Ordered: r.Bool()}
			for k := r.Range(0, 5); k > 0; k-- {
				e.Items = append(e.Items, htmldoc.VerifItem{Text: hx.Pick(r, dmTexts), Level: genListLevel(r), Ordered: r.Bool()})
			}
			els = append(els, e)
		case 5:
			els = append(els, htmldoc.VerifElement{Type: htmldoc.ElementTable, Table: genHTMLTable(r)})
		case 6:
			els = append(els, htmldoc.VerifElement{Type: htmldoc.ElementCode, Text: hx.Pick(r, []string{"", "x := 1", "a\nb\n", "```", "| p |", "# c"})})
		default:
			els = append(els, htmldoc.VerifElement{Type: htmldoc.ElementBlockquote, Text: hx.Pick(r, []string{"", "quoted", "two\nlines", "\n", "a\n\nb\n", "> nested"})})
		}
	}
	return els
}

// ---------- PPTX ----------

func genSlides(r *hx.Rng) []*pptx.Slide {
	var slides []*pptx.Slide
	for n := r.Range(0, 4); n > 0; n-- {
		s := &pptx.Slide{Index: len(slides), Title: hx.Pick(r, dmTexts), Notes: hx.Pick(r, []string{"", "", "a note", "two\nlines", "\nlead", "trail\n", "> q"})}
		if r.Chance(1, 4) {
			s.Title = ""
		}
		for b := r.Range(0, 3); b > 0; b-- {
			blk := pptx.TextBlock{IsTitle: r.Chance(1, 5), IsSubtitle: r.Chance(1, 6), Placeholder: hx.Pick(r, []string{"", "", "body", "ftr", "dt", "sldNum", "hdr", "title", "FTR"})}
			for p := r.Range(0, 4); p > 0; p-- {
				blk.Paragraphs = append(blk.Paragraphs, pptx.Paragraph{Text: hx.Pick(r, dmTexts), Level: hx.Pick(r, []int{-1, 0, 0, 1, 2, 4}), IsBullet: r.Bool(), IsNumbered: r.Chance(1, 3)})
			}
			s.Content = append(s.Content, blk)
		}
		for t := hx.Pick(r, []int{0, 0, 1, 2}); t > 0; t-- {
			tbl := pptx.Table{}
			for i := r.Range(0, 3); i > 0; i-- {
				cells := []pptx.TableCell{}
				for j := r.Range(0, 3); j > 0; j-- {
					cells = append(cells, pptx.TableCell{Text: genCell(r), RowSpan: 1, ColSpan: r.Range(1, 2), IsMerged: r.Chance(1, 5)})
				}
				tbl.Rows = append(tbl.Rows, cells)
			}
			if len(tbl.Rows) == 1 && len(tbl.Rows[0]) == 1 && tbl.Rows[0][0].Text == "" {
				tbl.Rows[0][0].Text = "x" // not spellable in the protocol
			}
			s.Tables = append(s.Tables, tbl)
		}
		if len(s.Tables) == 1 && len(s.Tables[0].Rows) == 0 {
			s.Tables = append(s.Tables, pptx.Table{}) // one table without rows is not spellable; two are
		}
		slides = append(slides, s)
	}
	return slides
}

// ---------- XLSX ----------

func genSheets(r *hx.Rng) []*xlsx.Sheet {
	var sheets []*xlsx.Sheet
	for n := r.Range(0, 3); n > 0; n-- {
		s := &xlsx.Sheet{Index: len(sheets), Name: hx.Pick(r, []string{"Sheet1", "Data 2024", "two  spaces", "", "Übersicht Q3", "a|b", "# x", "MiXed"}), MaxCol: r.Range(-1, 7)}
		for i := hx.Pick(r, []int{0, 1, 2, 3, 5}); i > 0; i-- {
			row := []xlsx.Cell{}
			for j := hx.Pick(r, []int{0, 1, 2, 3, 3, 5}); j > 0; j-- {
				cell := xlsx.Cell{Value: genCell(r), Type: hx.Pick(r, []xlsx.CellType{xlsx.CellTypeString, xlsx.CellTypeString, xlsx.CellTypeNumber, xlsx.CellTypeEmpty, xlsx.CellTypeFormula})}
				if r.Chance(1, 3) {
					cell.Value = ""
				}
				if r.Chance(1, 4) {
					cell.IsMerged, cell.IsMergeRoot = true, r.Bool()
				} else if r.Chance(1, 10) {
					cell.IsMergeRoot = true // root flag without the merged flag
				}
				row = append(row, cell)
			}
			s.Rows = append(s.Rows, row)
		}
		s.MaxRow = len(s.Rows) - 1
		sheets = append(sheets, s)
	}
	return sheets
}

// ---------- the stream ----------

var directFormats = []string{"docx", "odt", "html", "pptx", "xlsx"}

func docModelDirect(c *hx.Ctx) {
	n := c.N(150, 2500)
	for _, f := range directFormats {
		for i := 0; i < n; i++ {
			runDocModelDirect(c, f, i)
		}
	}
}

func runDocModelDirect(c *hx.Ctx, format string, i int) {
	fi := 0
	for k, f := range directFormats {
		if f == format {
			fi = k
		}
	}
	r := c.Rng.Fork(uint64(80+fi)<<40 | uint64(i))
	kase := map[string]interface{}{"kind": "docmodel", "format": format, "index": i, "seed": c.Seed}
	o := genModelOptions(r)
	before := c.Rep.Ops
	if p := hx.Safe(func() {
		switch format {
		case "docx":
			els, fmts, nParas := genDocxDirect(r)
			var m docx.VerifMeta
			m.HasCore, m.Title, m.Creator, m.Subject, m.Keywords, m.HasApp, m.Application = genOfficeMeta(r)
			docxOps(c, docx.VerifNewReader(els, genHF(r), genHF(r), m, nParas, fmts), r, o, kase, "")
		case "odt":
			els, levels, nParas := genOdtDirect(r)
			m := odt.VerifMeta{HasMeta: !r.Chance(1, 8), Title: hx.Pick(r, dmMetaStrings), Creator: hx.Pick(r, dmMetaStrings),
				InitialCreator: hx.Pick(r, dmMetaStrings), Subject: hx.Pick(r, dmMetaStrings), Generator: hx.Pick(r, dmMetaStrings)}
			odtOps(c, odt.VerifNewReader(els, genHF(r), genHF(r), m, nParas, levels), r, o, kase, "")
		case "html":
			byMode := map[htmldoc.NavigationExclusionMode][]htmldoc.VerifElement{}
			base := genHTMLElems(r)
			byMode[htmldoc.NavigationExclusionNone] = base
			for _, m := range htmlModes[1:] {
				switch r.Intn(3) {
				case 0: // what a filter does: a sub-sequence
					var sub []htmldoc.VerifElement
					for _, e := range base {
						if r.Chance(2, 3) {
							sub = append(sub, e)
						}
					}
					byMode[m] = sub
				case 1:
					byMode[m] = base
				default:
					byMode[m] = genHTMLElems(r)
				}
			}
			title := hx.Pick(r, dmMetaStrings)
			meta := map[string]string{}
			for _, k := range []string{"author", "description", "keywords", "viewport"} {
				if r.Bool() {
					meta[k] = hx.Pick(r, dmMetaStrings)
				}
			}
			htmlOps(c, func() *htmldoc.Reader { return htmldoc.VerifNewReader(byMode, title, meta) }, r, o, kase, "")
		case "pptx":
			var m pptx.VerifMeta
			m.HasCore, m.Title, m.Creator, m.Subject, m.Keywords, m.HasApp, m.Application = genOfficeMeta(r)
			pptxOps(c, pptx.VerifNewReader(genSlides(r), m), r, o, kase, "")
		case "xlsx":
			var m xlsx.VerifMeta
			m.HasCore, m.Title, m.Creator, m.Subject, m.Keywords, m.HasApp, m.Application = genOfficeMeta(r)
			xlsxOps(c, xlsx.VerifNewReader(genSheets(r), m), r, o, kase, "")
		}
	}); p != "" {
		c.Check("C15/panic-docmodel", false, kase, func() string { return format + " direct document model: " + p })
	}
	c.Count("docmodel direct " + format)
	c.Count(fmt.Sprintf("docmodel direct opts offset=%d", o.HeadingLevelOffset))
	c.Count(fmt.Sprintf("docmodel direct opts max=%d", o.MaxHeadingLevel))
	c.Count("docmodel direct opts meta=" + b01(o.IncludeMetadata) + " toc=" + b01(o.IncludeTableOfContents))
	c.Case(fmt.Sprint("docmodel direct ", format, " ", i, " ", c.Seed), c.Rep.Ops > before)
}
