package c15

// The harness's own reader for GFM pipe tables, written from the GitHub Flavored Markdown
// spec 0.29 section 4.10 "Tables (extension)" (and cmark-gfm's behaviour for escapes):
//   - a table is a header row, a delimiter row and zero or more data rows;
//   - cells are separated by pipes; a leading and a trailing pipe are optional; spaces between
//     pipes and cell content are trimmed; a pipe inside a cell is written `\|` ("It is possible to
//     include a pipe in a cell's content by escaping it, including inside other inline spans"):
//     the escape is a pass of its own in front of inline parsing — a pipe that directly follows a
//     backslash never separates cells and the pair stands for the pipe (cmark-gfm unescape_pipes,
//     markdown-it escapedSplit); no other backslash means anything at this level: `\\|` is a
//     backslash followed by a literal pipe, `a\` at the end of a cell is the text `a\`. Inline
//     Markdown inside a cell is not interpreted (the read-back is the raw cell source);
//   - "the header row must match the delimiter row in the number of cells. If not, a table will
//     not be recognized";
//   - the delimiter row's cells consist of hyphens with an optional leading/trailing colon;
//   - data rows may vary in the number of cells: missing cells are empty, excess is ignored;
//   - "the table is broken at the first empty line, or beginning of another block-level structure".
// Independent of the Lean model (Model/Markdown.lean); the two are compared by the c15.gfm and
// c15.splitrow ops.

import "strings"

func isASCIISpace(b byte) bool { return b == ' ' || (b >= 9 && b <= 13) }

func trimASCII(s string) string {
	i, j := 0, len(s)
	for i < j && isASCIISpace(s[i]) {
		i++
	}
	for j > i && isASCIISpace(s[j-1]) {
		j--
	}
	return s[i:j]
}

// GFMSplitRow gives the cells of one row line.
func GFMSplitRow(line string) []string {
	s := trimASCII(line)
	if strings.HasPrefix(s, "|") {
		s = s[1:]
	}
	var cells []string
	var cur []byte
	for i := 0; i < len(s); i++ {
		switch {
		case s[i] == '\\' && i+1 < len(s) && s[i+1] == '|':
			cur = append(cur, '|') // escaped pipe: part of the cell
			i++
		case s[i] == '|':
			cells = append(cells, trimASCII(string(cur)))
			cur = cur[:0]
		default:
			cur = append(cur, s[i]) // any other byte, a backslash too, is cell text
		}
	}
	// what follows the last pipe is a cell unless it is empty (the trailing pipe was the optional one)
	if len(cur) > 0 {
		cells = append(cells, trimASCII(string(cur)))
	}
	return cells
}

func isDelimCell(s string) bool {
	s = strings.TrimPrefix(s, ":")
	s = strings.TrimSuffix(s, ":")
	if s == "" {
		return false
	}
	for i := 0; i < len(s); i++ {
		if s[i] != '-' {
			return false
		}
	}
	return true
}

func isBlankLine(s string) bool { return trimASCII(s) == "" }

// GFMTable reads a table starting at lines[0]: ok=false when lines[0], lines[1] are not a
// header row and a matching delimiter row.
func GFMTable(lines []string) (rows [][]string, ok bool) {
	if len(lines) < 2 {
		return nil, false
	}
	hdr := GFMSplitRow(lines[0])
	del := GFMSplitRow(lines[1])
	if len(hdr) == 0 || len(del) != len(hdr) {
		return nil, false
	}
	for _, d := range del {
		if !isDelimCell(d) {
			return nil, false
		}
	}
	rows = append(rows, hdr)
	for _, l := range lines[2:] {
		if isBlankLine(l) {
			break
		}
		cells := GFMSplitRow(l)
		row := make([]string, len(hdr))
		copy(row, cells)
		rows = append(rows, row)
	}
	return rows, true
}
