package c15

import (
	"fmt"
	"strings"

	"github.com/tsawler/tabula/rag"

	"verifharness/hx"
)

// clampLevel is the property's formula: source level shifted by the offset, capped at the
// configured maximum, never below 1 or above 6.
func clampLevel(level, off, max int) int {
	l := level + off
	hi := 6
	if max >= 1 && max < hi {
		hi = max
	}
	if l > hi {
		l = hi
	}
	if l < 1 {
		l = 1
	}
	return l
}

func inQuantifier(level, off, max int) bool {
	return level >= 1 && level <= 6 && off >= -2 && off <= 7 && max >= 1 && max <= 6
}

func levels(c *hx.Ctx) {
	for level := -1; level <= 10; level++ {
		for off := -3; off <= 8; off++ {
			for max := 0; max <= 7; max++ {
				kase := map[string]interface{}{"kind": "level", "level": level, "offset": off, "max": max}
				opts := rag.MarkdownOptions{HeadingLevelOffset: off, MaxHeadingLevel: max}
				// the RAG chunk writer (PDF path of ToMarkdownWithOptions)
				ch := rag.Chunk{Text: "T", Metadata: rag.ChunkMetadata{SectionTitle: "T", HeadingLevel: level}}
				var md string
				if p := hx.Safe(func() { md = ch.ToMarkdownWithOptions(opts) }); p != "" {
					c.Check("C15/panic", false, kase, func() string { return "Chunk.ToMarkdownWithOptions: " + p })
					continue
				}
				n := len(md) - len(strings.TrimLeft(md, "#"))
				c.Op(fmt.Sprintf("c15.hlvlrag %d %d %d", level, off, max), fmt.Sprint(n))
				if inQuantifier(level, off, max) {
					c.Check("C15/heading-level-rag", n == clampLevel(level, off, max) && strings.HasPrefix(md[n:], " T"), kase, func() string {
						return fmt.Sprintf("chunk heading level %d offset %d max %d: %q, want level %d", level, off, max, md, clampLevel(level, off, max))
					})
					c.Check("C15/heading-range", n >= 1 && n <= 6, kase, func() string { return fmt.Sprintf("%q", md) })
				}
				// since the fix that gave the chunk writer its own cap at 6: a valid ATX level for every
				// value of the box, and the clamp also without a configured maximum and for one above 6
				c.Check("C15/heading-range-rag", n >= 1 && n <= 6, kase, func() string { return fmt.Sprintf("%q", md) })
				if level >= 1 && level <= 6 && off >= -2 && off <= 7 {
					c.Check("C15/heading-level-rag-anymax", n == clampLevel(level, off, max), kase, func() string {
						return fmt.Sprintf("chunk heading level %d offset %d max %d: %q, want level %d", level, off, max, md, clampLevel(level, off, max))
					})
				}
				levelsDirect(c, level, off, max, kase)
				c.Case(fmt.Sprint(level, off, max), inQuantifier(level, off, max))
			}
		}
	}
	c.Count("level-box 12x12x8")
}
