package c15

// Document-level correspondence (Model/MarkdownDoc.lean, ops of Handlers/C15.lean "Document level").
//
// The Lean model starts at what a <format>.Reader holds after parsing (element list, slides, sheets,
// chunks, metadata, header/footer texts, list formats) and gives the Markdown of every public entry
// point. This file dumps exactly that input from a Reader (exported API + verif hooks) and emits one op
// per real call: Markdown(), MarkdownWithOptions, MarkdownWithRAGOptions, tabula.Open().ToMarkdownWithOptions.
//
//   A. file-based (docModelFile, from runDocument): the generated file of every format;
//   B. direct (docModelDirect): arbitrary reader contents through the VerifNewReader hooks —
//      out-of-range levels, empty texts, texts that look like Markdown, nil/empty tables, ragged rows,
//      selections with invalid indices, every option flag, metadata strings that need %q;
//   C. rag (ragModelOps from runRagDoc, ragModelDirect): chunk collections;
//   D. readmd (readmdOp): the harness's Markdown reader against the Lean reading spec on every Markdown
//      string seen, plus a malformed stream of line soup (readmdFuzz).
//
// The impl side of an op is always what the real tabula function returned.

import (
	"crypto/sha256"
	"fmt"
	"strconv"
	"strings"

	"github.com/tsawler/tabula"
	"github.com/tsawler/tabula/docx"
	"github.com/tsawler/tabula/model"
	"github.com/tsawler/tabula/odt"
	"github.com/tsawler/tabula/rag"

	"verifharness/hx"
)

// ---------- common encoders ----------

func b01(b bool) string {
	if b {
		return "1"
	}
	return "0"
}

func encOptsSep(o rag.MarkdownOptions, sep string) string {
	return strings.Join([]string{b01(o.IncludeMetadata), b01(o.IncludeTableOfContents), b01(o.IncludeChunkSeparators),
		b01(o.IncludePageNumbers), b01(o.IncludeChunkIDs), strconv.Itoa(o.HeadingLevelOffset), strconv.Itoa(o.MaxHeadingLevel),
		hx.HexS(o.SectionSeparator)}, sep)
}

func encOpts(o rag.MarkdownOptions) string { return encOptsSep(o, ":") }

// extSet collects the results of the external library calls the model takes as parameters:
// fmt.Sprintf("%q", s) and strings.ToLower(t).
type extSet struct {
	seen  map[string]bool
	parts []string
}

func newExt() *extSet { return &extSet{seen: map[string]bool{}} }

func (e *extSet) add(k, raw, res string) {
	key := k + ":" + hx.HexS(raw)
	if e.seen[key] {
		return
	}
	e.seen[key] = true
	e.parts = append(e.parts, key+":"+hx.HexS(res))
}

func (e *extSet) q(s string) { e.add("q", s, fmt.Sprintf("%q", s)) }

func (e *extSet) l(t string) {
	e.add("l", t, strings.ToLower(t))
	t2 := strings.ReplaceAll(t, " ", "-")
	e.add("l", t2, strings.ToLower(t2))
}

func (e *extSet) meta(m model.Metadata) {
	e.q(m.Title)
	e.q(m.Author)
	e.q(m.Subject)
	for _, k := range m.Keywords {
		e.q(k)
	}
	e.q(m.Creator)
}

func (e *extSet) String() string {
	if len(e.parts) == 0 {
		return "-"
	}
	return strings.Join(e.parts, ",")
}

func encMeta(m model.Metadata) string {
	kw := "_"
	if len(m.Keywords) > 0 {
		ks := make([]string, len(m.Keywords))
		for i, k := range m.Keywords {
			ks[i] = hx.HexS(k)
		}
		kw = strings.Join(ks, "+")
	}
	return strings.Join([]string{hx.HexS(m.Title), hx.HexS(m.Author), hx.HexS(m.Subject), kw, hx.HexS(m.Creator)}, ":")
}

func hexListOr(xs []string) string {
	if len(xs) == 0 {
		return "-"
	}
	return hx.HexList(xs)
}

func encHF(h, f []string) string { return hexListOr(h) + ";" + hexListOr(f) }

func joinOr(xs []string, sep string) string {
	if len(xs) == 0 {
		return "-"
	}
	return strings.Join(xs, sep)
}

// encRows: rows of plain cell texts, "_" = a row without cells, "-" = no rows. ok=false for the one
// table the protocol cannot spell (a single row of a single empty cell would read as "no rows").
func encRows(rows [][]string) (string, bool) {
	if len(rows) == 0 {
		return "-", true
	}
	rs := make([]string, len(rows))
	for i, row := range rows {
		if len(row) == 0 {
			rs[i] = "_"
		} else {
			rs[i] = hx.HexList(row)
		}
	}
	s := strings.Join(rs, ";")
	return s, s != "-"
}

func encSel(sel []int) string {
	if len(sel) == 0 {
		return "-"
	}
	xs := make([]string, len(sel))
	for i, v := range sel {
		xs[i] = strconv.Itoa(v)
	}
	return strings.Join(xs, ",")
}

// ---------- op emission ----------

var seenModelOps = map[[16]byte]struct{}{}

func opKey(parts ...string) [16]byte {
	h := sha256.New()
	for _, p := range parts {
		h.Write([]byte(p))
		h.Write([]byte{0})
	}
	var k [16]byte
	copy(k[:], h.Sum(nil)[:16])
	return k
}

// modelOp emits a correspondence pair once (an identical pair cannot change the diff).
func modelOp(c *hx.Ctx, line, out string) {
	k := opKey(line, out)
	if _, ok := seenModelOps[k]; ok {
		return
	}
	seenModelOps[k] = struct{}{}
	c.Op(line, out)
	c.Count("docmodel op " + line[:strings.IndexByte(line, ' ')])
}

// mdOp emits a Markdown-valued op and hands the Markdown to the reading-spec stream.
func mdOp(c *hx.Ctx, line, md string) {
	modelOp(c, line, hx.HexS(md))
	readmdOp(c, md)
}

// dmCall runs one implementation call; a panic or an error is an oracle failure.
func dmCall(c *hx.Ctx, what string, kase interface{}, f func() (string, error)) (string, bool) {
	var md string
	var err error
	if p := hx.Safe(func() { md, err = f() }); p != "" {
		c.Check("C15/panic-docmodel", false, kase, func() string { return what + ": " + p })
		return "", false
	}
	if !c.Check("C15/docmodel-error", err == nil, kase, func() string { return fmt.Sprint(what, ": ", err) }) {
		return "", false
	}
	return md, true
}

func entryOf(kind string, flags ...bool) string {
	s := kind + ":"
	for _, f := range flags {
		s += b01(f)
	}
	return s
}

var defaultOptsEnc = encOpts(rag.DefaultMarkdownOptions())

// ---------- DOCX ----------

func docxSpanRows(rows [][]docx.VerifCell) ([][]Cell, bool) {
	out := make([][]Cell, len(rows))
	for i, row := range rows {
		if len(row) == 0 {
			return nil, false // the protocol has no spelling for a row without cells
		}
		for _, cell := range row {
			out[i] = append(out[i], Cell{Text: cell.Text, ColSpan: cell.ColSpan, VCont: cell.Cont})
		}
	}
	return out, true
}

func encSpanOr(t [][]Cell) string {
	if len(t) == 0 {
		return "-"
	}
	return encSpanTable(t)
}

// docxOps dumps the reader's Markdown input and emits one op per entry point. extPath != "": the file
// the reader was opened from (the Extractor entry is called on it).
func docxOps(c *hx.Ctx, rd *docx.Reader, r *hx.Rng, o rag.MarkdownOptions, kase interface{}, extPath string) {
	els := rd.VerifElements()
	meta := rd.Metadata()
	hdrs, ftrs := rd.HeaderTexts(), rd.FooterTexts()
	ext := newExt()
	ext.meta(meta)
	var es, fs []string
	seenFmt := map[string]bool{}
	for _, e := range els {
		if e.Kind == "tbl" {
			t, ok := docxSpanRows(e.Rows)
			if !ok {
				c.Count("docmodel docx input not encodable")
				return
			}
			es = append(es, "t="+encSpanOr(t))
			c.Count("docmodel docx element table")
			continue
		}
		es = append(es, fmt.Sprintf("p=%s:%s:%d:%s:%s:%d", hx.HexS(e.Text), b01(e.IsHeading), e.Level, b01(e.IsListItem), hx.HexS(e.NumID), e.ListLevel))
		if docx.VerifShouldExcludeParagraph(e.Text, hdrs, ftrs, docx.ExtractOptions{ExcludeHeaders: true, ExcludeFooters: true}) {
			c.Count("docmodel docx paragraph equal to a header/footer line")
		}
		switch {
		case e.IsHeading:
			ext.l(e.Text)
			c.Count("docmodel docx element heading")
		case e.IsListItem:
			c.Count("docmodel docx element list item")
		default:
			c.Count("docmodel docx element paragraph")
		}
		if k := fmt.Sprintf("%s:%d", hx.HexS(e.NumID), e.ListLevel); e.IsListItem && !seenFmt[k] {
			seenFmt[k] = true
			ordered, start := rd.VerifListFormat(e.NumID, e.ListLevel)
			kind := "u"
			if ordered {
				kind = "o"
				c.Count("docmodel docx list format ordered")
			}
			fs = append(fs, fmt.Sprintf("%s:%s:%d", k, kind, start))
		}
	}
	tail := fmt.Sprintf("%s %s %s %d %s", encMeta(meta), encHF(hdrs, ftrs), joinOr(fs, ","), rd.VerifParagraphCount(), joinOr(es, "|"))
	emit := func(entry string, oe, xe, md string) {
		mdOp(c, fmt.Sprintf("c15.docxmd %s %s %s %s", entry, oe, xe, tail), md)
		c.Count("docmodel docx entry " + strings.SplitN(entry, ":", 2)[0])
	}
	if md, ok := dmCall(c, "docx Markdown()", kase, rd.Markdown); ok {
		emit("md", defaultOptsEnc, "-", md)
	}
	exH, exF := r.Bool(), r.Bool()
	if md, ok := dmCall(c, "docx MarkdownWithOptions", kase, func() (string, error) {
		return rd.MarkdownWithOptions(docx.ExtractOptions{ExcludeHeaders: exH, ExcludeFooters: exF})
	}); ok {
		emit(entryOf("mdo", exH, exF), defaultOptsEnc, "-", md)
	}
	exH, exF = r.Bool(), r.Bool()
	if md, ok := dmCall(c, "docx MarkdownWithRAGOptions", kase, func() (string, error) {
		return rd.MarkdownWithRAGOptions(docx.ExtractOptions{ExcludeHeaders: exH, ExcludeFooters: exF}, o)
	}); ok {
		emit(entryOf("rag", exH, exF), encOpts(o), ext.String(), md)
	}
	if extPath != "" {
		exH, exF = r.Bool(), r.Bool()
		if md, ok := dmCall(c, "docx tabula.Open.ToMarkdownWithOptions", kase, func() (string, error) { return extractorMarkdown(extPath, exH, exF, o) }); ok {
			emit(entryOf("ext", exH, exF), encOpts(o), ext.String(), md)
		}
	}
}

// extractorMarkdown: tabula.Open(path)[.ExcludeHeaders()][.ExcludeFooters()].ToMarkdownWithOptions(o).
func extractorMarkdown(path string, exH, exF bool, o rag.MarkdownOptions) (string, error) {
	e := tabula.Open(path)
	if exH {
		e = e.ExcludeHeaders()
	}
	if exF {
		e = e.ExcludeFooters()
	}
	md, _, err := e.ToMarkdownWithOptions(o)
	return md, err
}

// ---------- ODT ----------

func odtOps(c *hx.Ctx, rd *odt.Reader, r *hx.Rng, o rag.MarkdownOptions, kase interface{}, extPath string) {
	els := rd.VerifElements()
	meta := rd.Metadata()
	hdrs, ftrs := rd.HeaderTexts(), rd.FooterTexts()
	ext := newExt()
	ext.meta(meta)
	var es, fs []string
	seenOrd := map[string]bool{}
	for _, e := range els {
		if e.Kind == "tbl" {
			t := make([][]Cell, len(e.Rows))
			for i, row := range e.Rows {
				if len(row) == 0 {
					c.Count("docmodel odt input not encodable")
					return
				}
				for _, cell := range row {
					t[i] = append(t[i], Cell{Text: cell.Text, ColSpan: cell.ColSpan, VCont: cell.Covered})
				}
			}
			es = append(es, "t="+encSpanOr(t))
			c.Count("docmodel odt element table")
			continue
		}
		es = append(es, fmt.Sprintf("p=%s:%s:%d:%s:%s:%d", hx.HexS(e.Text), b01(e.IsHeading), e.Level, b01(e.IsListItem), hx.HexS(e.StyleName), e.ListLevel))
		if odt.VerifShouldExcludeParagraph(e.Text, hdrs, ftrs, odt.ExtractOptions{ExcludeHeaders: true, ExcludeFooters: true}) {
			c.Count("docmodel odt paragraph equal to a header/footer line")
		}
		switch {
		case e.IsHeading:
			ext.l(e.Text)
			c.Count("docmodel odt element heading")
		case e.IsListItem:
			c.Count("docmodel odt element list item")
		default:
			c.Count("docmodel odt element paragraph")
		}
		if k := fmt.Sprintf("%s:%d", hx.HexS(e.StyleName), e.ListLevel); e.IsListItem && !seenOrd[k] {
			seenOrd[k] = true
			ord := rd.VerifListOrdered(e.StyleName, e.ListLevel)
			if ord {
				c.Count("docmodel odt list level ordered")
			}
			fs = append(fs, k+":"+b01(ord))
		}
	}
	tail := fmt.Sprintf("%s %s %s %d %s", encMeta(meta), encHF(hdrs, ftrs), joinOr(fs, ","), rd.VerifParagraphCount(), joinOr(es, "|"))
	emit := func(entry string, oe, xe, md string) {
		mdOp(c, fmt.Sprintf("c15.odtmd %s %s %s %s", entry, oe, xe, tail), md)
		c.Count("docmodel odt entry " + strings.SplitN(entry, ":", 2)[0])
	}
	if md, ok := dmCall(c, "odt Markdown()", kase, rd.Markdown); ok {
		emit("md", defaultOptsEnc, "-", md)
	}
	exH, exF := r.Bool(), r.Bool()
	if md, ok := dmCall(c, "odt MarkdownWithOptions", kase, func() (string, error) {
		return rd.MarkdownWithOptions(odt.ExtractOptions{ExcludeHeaders: exH, ExcludeFooters: exF})
	}); ok {
		emit(entryOf("mdo", exH, exF), defaultOptsEnc, "-", md)
	}
	exH, exF = r.Bool(), r.Bool()
	if md, ok := dmCall(c, "odt MarkdownWithRAGOptions", kase, func() (string, error) {
		return rd.MarkdownWithRAGOptions(odt.ExtractOptions{ExcludeHeaders: exH, ExcludeFooters: exF}, o)
	}); ok {
		emit(entryOf("rag", exH, exF), encOpts(o), ext.String(), md)
	}
	if extPath != "" {
		exH, exF = r.Bool(), r.Bool()
		if md, ok := dmCall(c, "odt tabula.Open.ToMarkdownWithOptions", kase, func() (string, error) { return extractorMarkdown(extPath, exH, exF, o) }); ok {
			emit(entryOf("ext", exH, exF), encOpts(o), ext.String(), md)
		}
	}
}
