package c15

// Stream 5, the Markdown writer of the PDF pipeline. tabula.Open("x.pdf").ToMarkdownWithOptions(o) is
// Extractor.Document() -> rag.ChunkDocument(doc) -> ChunkCollection.ToMarkdownWithOptions(o). A PDF
// has no heading, list or table markup of its own (the layout heuristics that guess them are the
// subject of C09/C12), so the logical document is authored where it first exists, as a
// model.Document, and goes through the rest of the pipeline unchanged:
//
//   - headings of level 1..6 in both spellings the extractor has: a model.Heading element (Via 0) or
//     a model.Paragraph whose text is listed in page.Layout.Headings (Via 1, "heading-like paragraph",
//     found through Document.TableOfContents); Layout.Headings lists every heading of the page, as
//     Extractor.Document fills it;
//   - heading texts: unique ones and, in most documents, texts from a pool of two or three titles, so
//     that the same title recurs at the same level and at other levels, directly after itself, after
//     body text, with other headings in between, on the same and on later pages;
//   - paragraphs, lists (model.List: one kind per list, items of depth 0..3; a third of the lists start
//     with a nested item, depth 1..3, as a list does that continues from the page before), tables (model.Table,
//     any cell content of the direct stream, header cells marked in any pattern), page breaks anywhere;
//   - Markdown options: offset -2..+7 x max 1..6 enumerated by the case index (the chunk writer is
//     claimed for max 1..6 only, see props/C15.json), metadata, TOC, chunk separators, page numbers,
//     chunk ids and the document title on and off.
//
// Expected: what checkDocument expects of every format — the authored headings in order as ATX headings
// of level clamp(level+offset, 1, min(max, 6)), the authored list items with depth and kind, the authored
// tables as pipe tables with the same cells, every authored text present.

import (
	"fmt"
	"strings"

	"github.com/tsawler/tabula/model"
	"github.com/tsawler/tabula/rag"

	"verifharness/hx"
)

const ragFormat = "ragdoc"

func genRagDoc(r *hx.Rng) Doc {
	d := Doc{Author: "A. Writer"}
	if r.Bool() {
		d.Title = "Doc " + hx.Pick(r, docWords)
	}
	pool := append([]string(nil), recurTitles...)
	hx.Shuffle(r, pool)
	pool = pool[:r.Range(2, 3)]
	recur := r.Chance(3, 4)
	n := 0
	lastLevel := 1
	heading := func() {
		n++
		lvl := r.Range(1, 6)
		if r.Bool() { // an outline: same level, one deeper, or back up
			lvl = min(max(lastLevel+r.Range(-1, 1), 1), 6)
		}
		lastLevel = lvl
		text := genText(r, "Head", n)
		if recur && r.Chance(2, 3) {
			text = hx.Pick(r, pool)
		}
		d.Blocks = append(d.Blocks, Block{Kind: "heading", Level: lvl, Via: r.Intn(2), Text: text})
	}
	para := func() {
		n++
		d.Blocks = append(d.Blocks, Block{Kind: "para", Text: genText(r, "Para", n)})
	}
	list := func() {
		ordered := r.Bool()
		var items []Item
		depth := 0
		if r.Chance(1, 3) { // the list starts with a nested item (a list that continues from the page before)
			depth = r.Range(1, 3)
		}
		for k := r.Range(1, 6); k > 0; k-- {
			n++
			items = append(items, Item{Depth: depth, Ordered: ordered, Text: genText(r, "Item", n)})
			depth = r.Range(0, min(depth+1, 3))
		}
		d.Blocks = append(d.Blocks, Block{Kind: "list", Items: items})
	}
	table := func() {
		rows := genDocTable(r, false)
		d.Blocks = append(d.Blocks, Block{Kind: "table", Rows: rows, Head: genHead(r, len(rows))})
	}
	if r.Chance(4, 5) {
		heading()
	}
	for k := r.Range(3, 10); k > 0; k-- {
		if len(d.Blocks) > 0 && r.Chance(1, 5) {
			d.Breaks = append(d.Breaks, len(d.Blocks))
		}
		switch r.Intn(8) {
		case 0, 1, 2:
			heading()
		case 3, 4:
			para()
		case 5:
			list()
			para()
		case 6:
			table()
		default:
			heading()
			para()
		}
	}
	return d
}

// ragModelDoc builds the model.Document of an authored document.
func ragModelDoc(d Doc) *model.Document {
	doc := model.NewDocument()
	doc.Metadata.Title = d.Title
	doc.Metadata.Author = d.Author
	breaks := map[int]bool{}
	for _, b := range d.Breaks {
		breaks[b] = true
	}
	var page *model.Page
	y := 0.0
	flush := func() {
		if page != nil {
			doc.AddPage(page)
		}
		page = model.NewPage(612, 792)
		y = 750
	}
	flush()
	box := func(h float64) model.BBox {
		y -= h + 6
		return model.BBox{X: 72, Y: y, Width: 400, Height: h}
	}
	for i, b := range d.Blocks {
		if breaks[i] {
			flush()
		}
		switch b.Kind {
		case "heading":
			bb := box(20)
			if page.Layout == nil {
				page.Layout = &model.PageLayout{}
			}
			page.Layout.Headings = append(page.Layout.Headings, model.HeadingInfo{Level: b.Level, Text: b.Text, BBox: bb, FontSize: 24 - 2*float64(b.Level), Confidence: 1})
			page.Layout.Stats.HeadingCount++
			if b.Via == 1 {
				page.AddElement(&model.Paragraph{Text: b.Text, BBox: bb, FontSize: 24 - 2*float64(b.Level)})
			} else {
				page.AddElement(&model.Heading{Text: b.Text, Level: b.Level, BBox: bb, FontSize: 24 - 2*float64(b.Level)})
			}
		case "para":
			page.AddElement(&model.Paragraph{Text: b.Text, BBox: box(12), FontSize: 11})
		case "list":
			l := &model.List{Ordered: b.Items[0].Ordered}
			for k, it := range b.Items {
				bullet := "•"
				if it.Ordered {
					bullet = fmt.Sprintf("%d.", k+1)
				}
				l.Items = append(l.Items, model.ListItem{Text: it.Text, Level: it.Depth, Bullet: bullet, BBox: box(12)})
			}
			l.BBox = model.BBox{X: 72, Y: y, Width: 400, Height: 18 * float64(len(b.Items))}
			page.AddElement(l)
		case "table":
			t := &model.Table{HasGrid: true, Confidence: 1}
			for ri, row := range b.Rows {
				var cells []model.Cell
				for ci, c := range row {
					cells = append(cells, model.Cell{Text: c.Text, RowSpan: 1, ColSpan: 1, IsHeader: isHeadCell(b.Head, ri, ci)})
				}
				t.Rows = append(t.Rows, cells)
			}
			t.BBox = box(14 * float64(len(b.Rows)))
			page.AddElement(t)
		}
	}
	doc.AddPage(page)
	return doc
}

// ragOptions: every heading configuration offset -2..+7 x max 1..6 within 60 consecutive indices; the
// five document flags cycle with co-prime periods.
func ragOptions(idx int) rag.MarkdownOptions {
	o := rag.DefaultMarkdownOptions()
	o.HeadingLevelOffset = -2 + idx%10
	o.MaxHeadingLevel = 1 + (idx/10)%6
	o.IncludeMetadata = idx%2 == 1
	o.IncludeTableOfContents = idx%3 == 1
	o.IncludeChunkSeparators = idx%5 == 2
	o.IncludePageNumbers = idx%7 == 3
	o.IncludeChunkIDs = idx%11 == 4
	return o
}

// outline: the authored block sequence in one line, for failure details.
func outline(d Doc) string {
	breaks := map[int]bool{}
	for _, b := range d.Breaks {
		breaks[b] = true
	}
	var parts []string
	for i, b := range d.Blocks {
		if breaks[i] {
			parts = append(parts, "<page break>")
		}
		switch b.Kind {
		case "heading":
			parts = append(parts, fmt.Sprintf("H%d(via %d) %q", b.Level, b.Via, b.Text))
		case "para":
			parts = append(parts, "P")
		case "list":
			parts = append(parts, fmt.Sprintf("list(%d)", len(b.Items)))
		case "table":
			parts = append(parts, fmt.Sprintf("table(%dx%d, header rows %d)", len(b.Rows), gridCols(b.Rows), b.Head.Rows))
		}
	}
	return strings.Join(parts, " / ")
}

func runRagDoc(c *hx.Ctx, idx int) {
	r := c.Rng.Fork(uint64(48)<<40 | uint64(idx))
	d := genRagDoc(r)
	kase := docCase{Kind: "ragdoc", Seed: c.Seed, Index: idx, Format: ragFormat}
	// the default options on every fifth document (tabula.Open(pdf).ToMarkdown()), else enumerated
	opts := []rag.MarkdownOptions{ragOptions(idx)}
	if idx%5 == 0 {
		opts = append(opts, rag.DefaultMarkdownOptions())
	}
	for _, o := range opts {
		k := kase
		k.Opt = fmt.Sprintf("offset=%d max=%d meta=%v toc=%v sep=%v pages=%v ids=%v", o.HeadingLevelOffset, o.MaxHeadingLevel, o.IncludeMetadata, o.IncludeTableOfContents, o.IncludeChunkSeparators, o.IncludePageNumbers, o.IncludeChunkIDs)
		var md string
		if p := hx.Safe(func() { md = rag.ChunkDocument(ragModelDoc(d)).ToMarkdownWithOptions(o) }); p != "" {
			c.Check("C15/panic", false, k, func() string { return "ChunkDocument.ToMarkdownWithOptions: " + p })
			continue
		}
		checkDocument(c, ragFormat, d, o, md, k, "rag.ChunkDocument(doc).ToMarkdownWithOptions")
		ragModelOps(c, d, nil, o, md, k) // the collection, its chunks and its lists against the Lean model (docmodel_streams.go)
		c.Count(fmt.Sprintf("ragdoc opts offset=%d", o.HeadingLevelOffset))
		c.Count(fmt.Sprintf("ragdoc opts max=%d", o.MaxHeadingLevel))
	}
	if idx%2 == 0 { // one ChunkCollection rendered several times (history.go)
		runRagHistory(c, idx, d, kase)
	}
	// distribution: how heading texts recur
	var hs []Block
	for _, b := range d.Blocks {
		if b.Kind == "heading" {
			hs = append(hs, b)
		}
		c.Count("ragdoc block " + b.Kind)
		if b.Kind == "list" && b.Items[0].Depth > 0 {
			c.Count("ragdoc list first item nested")
		}
	}
	adjacent, apart := false, false
	for i := range hs {
		for j := i + 1; j < len(hs); j++ {
			if hs[i].Text == hs[j].Text {
				if j == i+1 {
					adjacent = true
				} else {
					apart = true
				}
			}
		}
	}
	switch {
	case adjacent && apart:
		c.Count("ragdoc title recurs: next heading and later")
	case adjacent:
		c.Count("ragdoc title recurs: next heading only")
	case apart:
		c.Count("ragdoc title recurs: with other headings in between")
	default:
		c.Count("ragdoc titles all distinct")
	}
	c.Case(ragFormat+fmt.Sprint(d, opts[0]), len(hs) > 0)
}

func ragDocuments(c *hx.Ctx) {
	n := c.N(240, 3000)
	for i := 0; i < n; i++ {
		runRagDoc(c, i)
	}
}
