package c08

import (
	"math/big"

	"verifharness/hx"
)

func nums(xs ...int64) []*big.Rat {
	out := make([]*big.Rat, len(xs))
	for i, x := range xs {
		out[i] = ri(x)
	}
	return out
}

func o(k string, xs ...int64) op { return op{K: k, N: nums(xs...)} }
func tj(sid int) op              { return op{K: "Tj", Sid: sid} }

// ---- the property's own witnesses and a few fixed programs -----------------------------

func witnesses(c *hx.Ctx) {
	// '1 0 0 1 100 100 cm 2 0 0 2 0 0 cm' then '10 10 Td' must report (120,120)
	checkText(c, "witness", []op{o("cm", 1, 0, 0, 1, 100, 100), o("cm", 2, 0, 0, 2, 0, 0), o("BT"), o("Tf", 12), o("Td", 10, 10), tj(0), o("ET")}, true)
	// '0 -1.2 Td' under a 12x text matrix moves 14.4 units: dyadic stand-in 0 -1.25 → 15
	checkText(c, "witness", []op{o("BT"), o("Tf", 1), o("Tm", 12, 0, 0, 12, 100, 700), tj(0),
		{K: "Td", N: []*big.Rat{ri(0), rf(-5, 4)}}, tj(1), o("ET")}, true)
	// text rotated by 90°: font size must not collapse to 0
	checkText(c, "witness", []op{o("BT"), o("Tf", 10), o("Tm", 0, 1, -1, 0, 100, 700), tj(0), o("ET")}, true)
	checkText(c, "witness", []op{o("cm", 2, 0, 0, -2, 0, 700), o("BT"), o("Tf", 10), o("Tm", 0, 3, -3, 0, 5, 5), tj(0), o("ET")}, true)
	// leading relative to the line matrix
	checkText(c, "witness", []op{o("BT"), o("Tf", 1), o("TL", 2), o("Tm", 10, 0, 0, 10, 50, 500), tj(0), o("T*"), tj(1),
		{K: "'", Sid: 2}, {K: "\"", N: nums(3, 4), Sid: 3}, o("TD", 1, -3), tj(4), o("T*"), tj(5), o("ET")}, true)
	// q/Q restores text state and CTM; BT resets
	checkText(c, "witness", []op{o("cm", 2, 0, 0, 2, 10, 10), o("BT"), o("Tf", 8), o("Tm", 1, 0, 0, 1, 5, 5), o("q"), o("cm", 0, 1, -1, 0, 0, 0),
		o("Tm", 3, 0, 0, 3, 1, 1), o("TL", 9), tj(0), o("Q"), tj(1), o("T*"), tj(2), o("ET"), o("BT"), tj(3), o("ET")}, true)
	// unmatched Q at top level: extraction error
	checkText(c, "witness", []op{o("BT"), tj(0), o("Q"), tj(1)}, true)
	// form with /Matrix, nested, and without
	inner := &form{M: &mat{ri(2), ri(0), ri(0), ri(2), ri(1), ri(1)}, Body: []op{o("BT"), o("Td", 1, 1), tj(1), o("ET")}}
	m2 := mi(0, 1, -1, 0, 30, 40)
	outer := &form{M: &m2, Body: []op{o("BT"), o("Tf", 6), o("Td", 3, 4), tj(0), o("ET"), {K: "Do", Form: inner}, o("q"), o("cm", 1, 0, 0, 1, 7, 7), o("Q")}}
	checkText(c, "witness", []op{o("cm", 1, 0, 0, 1, 100, 100), {K: "Do", Form: outer}, o("BT"), tj(2), o("ET"), {K: "Do", Form: &form{Body: []op{o("BT"), tj(3), o("ET")}}}}, true)
	// sibling forms, each with its own child: under per-scope resources both children are
	// /Fm0 (layout local-index); the page invokes the first sibling twice
	tb := func(sid int, x, y int64) []op { return []op{o("BT"), o("Tf", 10), o("Td", x, y), tj(sid), o("ET")} }
	kidL := &form{M: &mat{ri(2), ri(0), ri(0), ri(2), ri(0), ri(300)}, Body: tb(0, 5, 5)}
	kidR := &form{M: &mat{ri(0), ri(1), ri(-1), ri(0), ri(50), ri(60)}, Body: tb(1, 5, 5)}
	mL, mR := mi(1, 0, 0, 1, 100, 0), mi(1, 0, 0, 1, 300, 0)
	sibL := &form{M: &mL, Body: []op{{K: "Do", Form: kidL}}}
	sibR := &form{M: &mR, Body: append(tb(2, 1, 2), op{K: "Do", Form: kidR})}
	checkText(c, "witness-scopes", []op{o("q"), o("cm", 1, 0, 0, 1, 10, 10), {K: "Do", Form: sibL}, o("Q"), {K: "Do", Form: sibR},
		o("cm", 3, 0, 0, 3, 0, 0), {K: "Do", Form: sibL}}, true)
	// the page's first form and that form's first child are both /Fm0 (re-bound between
	// page scope and form scope), and the child is also invoked from the page afterwards
	par := &form{M: &mL, Body: append([]op{{K: "Do", Form: kidL}}, tb(3, 7, 8)...)}
	checkText(c, "witness-scopes", []op{{K: "Do", Form: par}, {K: "Do", Form: kidR}, {K: "Do", Form: kidL}, {K: "Do", Form: par}}, true)
	// form contents that close more (or less) than they open: outside ISO 32000, tabula
	// ignores the failing Q inside the form and restores what is on top afterwards
	checkText(c, "random-unbalanced-form", []op{o("q"), o("cm", 2, 0, 0, 2, 3, 4), {K: "Do", Form: &form{M: &m2, Body: []op{o("BT"), o("Td", 1, 1), tj(0), o("Q"), o("Q"), o("Q"), tj(1)}}}, o("BT"), tj(2), o("q"), o("Q")}, false)
	checkText(c, "random-unbalanced-form", []op{o("cm", 2, 0, 0, 2, 3, 4), {K: "Do", Form: &form{Body: []op{o("q"), o("cm", 3, 0, 0, 3, 0, 0), o("q"), o("BT"), tj(0)}}}, o("BT"), tj(1), o("Q"), tj(2), o("Q"), tj(3)}, false)
	// a form that invokes itself: tabula stops at nesting depth 10 (model comparison only)
	var rec func(level int) *form
	rec = func(level int) *form {
		m := mi(1, 0, 0, 1, 10, 0)
		f := &form{M: &m, Body: []op{o("BT"), tj(level), o("ET")}}
		if level < 12 {
			f.Body = append(f.Body, op{K: "Do", Form: rec(level + 1)})
		}
		return f
	}
	checkTextRecursive(c, rec(0))
	// graphics extractor, same two cm's
	checkGfx(c, "gfx-witness", []op{o("cm", 1, 0, 0, 1, 100, 100), o("cm", 2, 0, 0, 2, 0, 0), o("L", 10, 10, 20, 30)})
	checkGfx(c, "gfx-witness", []op{o("q"), o("cm", 0, 1, -1, 0, 5, 5), o("L", 1, 2, 3, 4), o("Q"), o("L", 1, 2, 3, 4), o("Q")})
}

// checkTextRecursive renders a self-referencing form (/Fm0 Do inside /Fm0) for the
// implementation and its 13-level unfolding for the model.
func checkTextRecursive(c *hx.Ctx, unfolded *form) {
	// implementation side: every level shows the same string id sequence, so render the
	// unfolding (13 distinct forms, each invoking the next); only the first 10 levels run.
	checkText(c, "recursive-form", []op{{K: "Do", Form: unfolded}}, false)
}

// ---- exhaustive: all ordered pairs of positioning operators over a 5-matrix alphabet -----

var alphabet = []mat{
	mi(1, 0, 0, 1, 100, 50), // translation
	mi(2, 0, 0, 3, 0, 0),    // non-uniform scale
	mi(0, 1, -1, 0, 40, 20), // rotation by 90° + translation
	mi(1, 1, 0, 1, 0, 0),    // shear
	mk(rf(1, 2), ri(0), ri(0), rf(-1, 2), ri(10), rf(1401, 2)), // dyadic scale with reflection
}

func positioningOps() []op {
	var ps []op
	for _, m := range alphabet {
		ps = append(ps, op{K: "cm", N: m[:]})
	}
	for _, m := range alphabet {
		ps = append(ps, op{K: "Tm", N: m[:]})
	}
	for i, m := range alphabet {
		t := []*big.Rat{m[4], m[5]}
		if i == 1 || i == 3 {
			t = []*big.Rat{ri(int64(7 * i)), ri(int64(-3 * i))}
		}
		ps = append(ps, op{K: "Td", N: t}, op{K: "TD", N: t})
	}
	ps = append(ps, o("T*"), o("BT"), o("q"), o("Q"), op{K: "'"}, op{K: "\"", N: nums(2, 1)}, o("TL", 11), o("ET"))
	return ps
}

func exhaustivePairs(c *hx.Ctx) {
	ps := positioningOps()
	ctx := []op{o("cm", 3, 0, 0, 2, 7, 9), o("q"), o("cm", 1, 0, 0, 1, 5, 5), o("BT"), o("Tf", 10), o("TL", 5), o("Tm", 2, 0, 0, 2, 30, 40)}
	for _, a := range ps {
		for _, b := range ps {
			for layout := 0; layout < 2; layout++ {
				p := append([]op{}, ctx...)
				sid := 0
				add := func(x op) {
					if isShow(x.K) {
						x.Sid = sid
						sid++
					}
					p = append(p, x)
				}
				add(a)
				if layout == 0 {
					add(tj(0))
				}
				add(b)
				add(tj(0))
				add(o("T*"))
				add(tj(0))
				fam := "pairs-show-between"
				if layout == 1 {
					fam = "pairs-adjacent"
				}
				checkText(c, fam, p, true)
			}
		}
	}
	c.Note("exhaustive part: %d positioning operators, %d ordered pairs × 2 layouts", len(ps), len(ps)*len(ps))
}

// ---- random programs ---------------------------------------------------------------------

func small(r *hx.Rng) *big.Rat {
	switch r.Intn(8) {
	case 0:
		return rf(int64(r.Range(-40, 40)), 2)
	case 1:
		return rf(int64(r.Range(-40, 40)), 4)
	default:
		return ri(int64(r.Range(-60, 60)))
	}
}

// genMatrix: translations, non-uniform scales, rotations by multiples of 90°, reflections,
// integer shears, dyadic scales, and products of two of them.
func genMatrix(r *hx.Rng) mat {
	base := func() mat {
		switch r.Intn(8) {
		case 0:
			return mk(ri(1), ri(0), ri(0), ri(1), small(r), small(r))
		case 1:
			return mi(int64(r.Range(1, 3)), 0, 0, int64(r.Range(1, 3)), 0, 0)
		case 2:
			k := int64(r.Range(1, 3))
			rot := [][4]int64{{0, 1, -1, 0}, {-1, 0, 0, -1}, {0, -1, 1, 0}, {1, 0, 0, 1}}[r.Intn(4)]
			return mk(ri(rot[0]*k), ri(rot[1]*k), ri(rot[2]*k), ri(rot[3]*k), small(r), small(r))
		case 3:
			if r.Bool() {
				return mi(1, int64(r.Range(-2, 2)), 0, 1, 0, 0)
			}
			return mi(1, 0, int64(r.Range(-2, 2)), 1, 0, 0)
		case 4:
			d := []int64{2, 4}[r.Intn(2)]
			return mk(rf(int64(r.Range(1, 6)), d), ri(0), ri(0), rf(int64(r.Range(1, 6)), d), small(r), small(r))
		case 5:
			return mk(ri(1), ri(0), ri(0), ri(-1), ri(0), ri(int64(r.Range(100, 800)))) // y flip
		case 6:
			k := int64(r.Range(1, 12))
			return mk(ri(k), ri(0), ri(0), ri(k), small(r), small(r)) // uniform (font-size style)
		default:
			return mk(ri(int64(r.Range(-2, 3))), ri(int64(r.Range(-2, 2))), ri(int64(r.Range(-2, 2))), ri(int64(r.Range(-2, 3))), small(r), small(r))
		}
	}
	m := base()
	if r.Chance(1, 4) {
		g := &refRun{exact: true}
		m = g.mmul(m, base())
	}
	return m
}

type genState struct {
	r       *hx.Rng
	sid     int
	qdepth  int
	budget  int
	balance bool
	made    []madeForm // forms generated so far in this program (candidates for re-invocation)
}

// madeForm: a form and the nesting of forms below it (0 = invokes no form).
type madeForm struct {
	f      *form
	height int
}

func height(p []op) int {
	h := 0
	for _, x := range p {
		if x.K == "Do" {
			if k := 1 + height(x.Form.Body); k > h {
				h = k
			}
		}
	}
	return h
}

// reuse picks an earlier form of this program that still fits under the nesting bound
// when invoked at formDepth (nil if none): one form object invoked from several places,
// under different CTMs and possibly from different scopes.
func (g *genState) reuse(formDepth int) *form {
	var fit []*form
	for _, m := range g.made {
		if formDepth+1+m.height <= 3 {
			fit = append(fit, m.f)
		}
	}
	if len(fit) == 0 {
		return nil
	}
	return fit[g.r.Intn(len(fit))]
}

// tjItems: a TJ array of 1-3 strings with numbers before, between or after them
// (integers and reals, negative = kerning closer … as producers write them).
func (g *genState) tjItems() []item {
	r := g.r
	var items []item
	n := r.Range(1, 3)
	for i := 0; i < n; i++ {
		if r.Chance(1, 2) {
			items = append(items, item{Num: []*big.Rat{ri(int64(r.Range(-400, 400))), rf(int64(r.Range(-900, 900)), 4)}[r.Intn(2)]})
		}
		items = append(items, item{Sid: g.sid})
		g.sid++
	}
	if r.Chance(1, 3) {
		items = append(items, item{Num: ri(int64(r.Range(-300, 300)))})
	}
	return items
}

func (g *genState) show() op {
	if g.r.Chance(1, 7) {
		return op{K: "TJ", Items: g.tjItems()}
	}
	g.sid++
	switch {
	case g.r.Chance(1, 6):
		return op{K: "'", Sid: g.sid - 1}
	case g.r.Chance(1, 8):
		return op{K: "\"", N: []*big.Rat{small(g.r), small(g.r)}, Sid: g.sid - 1}
	}
	return op{K: "Tj", Sid: g.sid - 1}
}

func (g *genState) ops(n int, formDepth int, inForm bool) []op {
	var p []op
	open := 0
	r := g.r
	for i := 0; i < n && g.budget > 0; i++ {
		g.budget--
		switch x := r.Intn(100); {
		case x < 8:
			if g.qdepth < 8 {
				p = append(p, o("q"))
				g.qdepth++
				open++
			}
		case x < 15:
			if open > 0 {
				p = append(p, o("Q"))
				g.qdepth--
				open--
			} else if !g.balance && r.Chance(1, 6) {
				p = append(p, o("Q")) // unmatched
			}
		case x < 25:
			m := genMatrix(r)
			p = append(p, op{K: "cm", N: m[:]})
		case x < 31:
			p = append(p, o("BT"))
		case x < 34:
			p = append(p, o("ET"))
		case x < 39:
			sz := []*big.Rat{ri(1), ri(8), ri(10), ri(12), ri(24), rf(21, 2), rf(1, 2), ri(125)}[r.Intn(8)]
			p = append(p, op{K: "Tf", N: []*big.Rat{sz}})
		case x < 47:
			m := genMatrix(r)
			p = append(p, op{K: "Tm", N: m[:]})
		case x < 56:
			p = append(p, op{K: "Td", N: []*big.Rat{small(r), small(r)}})
		case x < 61:
			p = append(p, op{K: "TD", N: []*big.Rat{small(r), small(r)}})
		case x < 67:
			p = append(p, o("T*"))
		case x < 71:
			p = append(p, op{K: "TL", N: []*big.Rat{small(r)}})
		case x < 73:
			p = append(p, op{K: "Tc", N: []*big.Rat{small(r)}})
		case x < 75:
			p = append(p, op{K: "Tw", N: []*big.Rat{small(r)}})
		case x < 77:
			p = append(p, op{K: "Tz", N: []*big.Rat{[]*big.Rat{ri(100), ri(50), ri(200)}[r.Intn(3)]}})
		case x < 94:
			sh := g.show()
			if inForm && !quoteParses && (sh.K == "'" || sh.K == "\"") {
				sh = op{K: "Tj", Sid: sh.Sid}
			}
			p = append(p, sh)
		case x < 98:
			if formDepth < 3 {
				if r.Chance(1, 5) {
					if f := g.reuse(formDepth); f != nil {
						p = append(p, op{K: "Do", Form: f})
						break
					}
				}
				f := &form{}
				if r.Chance(4, 5) {
					m := genMatrix(r)
					f.M = &m
				}
				saveQ, saveBal := g.qdepth, g.balance
				if r.Chance(9, 10) {
					g.balance = true
				}
				f.Body = g.ops(r.Range(1, 8), formDepth+1, true)
				g.qdepth, g.balance = saveQ, saveBal
				g.made = append(g.made, madeForm{f, height(f.Body)})
				p = append(p, op{K: "Do", Form: f})
			}
		default:
			p = append(p, op{K: "L", N: []*big.Rat{small(r), small(r), small(r), small(r)}})
		}
	}
	// close what this level opened (always inside forms that must be balanced; mostly at top level)
	if inForm && g.balance || !inForm && r.Chance(9, 10) {
		for ; open > 0; open-- {
			p = append(p, o("Q"))
			g.qdepth--
		}
	}
	return p
}

// formsBalanced: every form's content closes exactly what it opens (ISO 32000 8.10.1).
func formsBalanced(p []op, top bool) bool {
	d := 0
	for _, x := range p {
		switch x.K {
		case "q":
			d++
		case "Q":
			d--
			if d < 0 && !top {
				return false
			}
			if d < 0 {
				d = 0 // top level: an error, the reference reports it
			}
		case "Do":
			if !formsBalanced(x.Form.Body, false) {
				return false
			}
		}
	}
	return top || d == 0
}

// genProgram returns a program and whether ISO 32000 defines its meaning (oracle on).
func genProgram(r *hx.Rng) ([]op, bool) {
	g := &genState{r: r, budget: 40, balance: r.Chance(19, 20)}
	n := r.Range(2, 40)
	p := g.ops(n, 0, false)
	return p, formsBalanced(p, true)
}

// ---- form scopes --------------------------------------------------------------------------

// textBlock: BT, font size, one positioning step, a show, sometimes a second line.
func (g *genState) textBlock() []op {
	r := g.r
	p := []op{o("BT")}
	if r.Chance(2, 3) {
		p = append(p, op{K: "Tf", N: []*big.Rat{[]*big.Rat{ri(1), ri(8), ri(10), ri(12), ri(24), rf(21, 2)}[r.Intn(6)]}})
	}
	switch r.Intn(4) {
	case 0:
		m := genMatrix(r)
		p = append(p, op{K: "Tm", N: m[:]})
	case 1: // nothing: shown at the form's origin
	default:
		p = append(p, op{K: "Td", N: []*big.Rat{small(r), small(r)}})
	}
	p = append(p, g.show())
	if r.Chance(1, 3) {
		if r.Bool() {
			p = append(p, op{K: "TL", N: []*big.Rat{small(r)}}, o("T*"))
		} else {
			p = append(p, op{K: "TD", N: []*big.Rat{small(r), small(r)}})
		}
		p = append(p, g.show())
	}
	return append(p, o("ET"))
}

// invoke: Do, sometimes under its own q cm … Q.
func (g *genState) invoke(f *form) []op {
	if g.r.Chance(1, 3) {
		m := genMatrix(g.r)
		return []op{o("q"), {K: "cm", N: m[:]}, {K: "Do", Form: f}, o("Q")}
	}
	return []op{{K: "Do", Form: f}}
}

// scopeForm: a form at nesting depth (1 = invoked from the page) with /Matrix, text of its
// own and, below the bound, one or two child forms — new ones or forms made earlier in the
// program (so that one object is reachable from several scopes).
func (g *genState) scopeForm(depth int) *form {
	r := g.r
	f := &form{}
	if r.Chance(5, 6) {
		m := genMatrix(r)
		f.M = &m
	}
	if r.Chance(1, 2) {
		f.Body = append(f.Body, g.textBlock()...)
	}
	if depth < 3 {
		kids := r.Range(1, 2)
		if depth == 2 {
			kids = r.Range(0, 1)
		}
		for i := 0; i < kids; i++ {
			var child *form
			if r.Chance(1, 6) {
				child = g.reuse(depth)
			}
			if child == nil {
				child = g.scopeForm(depth + 1)
			}
			f.Body = append(f.Body, g.invoke(child)...)
			if r.Chance(1, 3) {
				f.Body = append(f.Body, g.textBlock()...)
			}
		}
	}
	if len(f.Body) == 0 || r.Chance(1, 4) {
		f.Body = append(f.Body, g.textBlock()...)
	}
	g.made = append(g.made, madeForm{f, height(f.Body)})
	return f
}

// genScopes: a page that invokes two to four sibling forms one after the other (new ones,
// or one invoked again under a different CTM), each with children of its own, with text
// on the page in between.  Written per scope (scope.go), siblings bind the same local
// names to different children and forms re-bind names of the page.
func genScopes(r *hx.Rng) []op {
	g := &genState{r: r, budget: 1 << 20, balance: true}
	var p []op
	if r.Chance(1, 2) {
		m := genMatrix(r)
		p = append(p, op{K: "cm", N: m[:]})
	}
	var outer []*form
	n := r.Range(2, 4)
	for i := 0; i < n; i++ {
		var f *form
		if len(outer) > 0 && r.Chance(1, 5) {
			f = outer[r.Intn(len(outer))]
		} else {
			f = g.scopeForm(1)
			outer = append(outer, f)
		}
		p = append(p, g.invoke(f)...)
		if r.Chance(1, 4) {
			p = append(p, g.textBlock()...)
		}
		if r.Chance(1, 6) {
			m := genMatrix(r)
			p = append(p, op{K: "cm", N: m[:]})
		}
	}
	return p
}

func genGfx(r *hx.Rng) []op {
	var p []op
	d := 0
	n := r.Range(1, 14)
	for i := 0; i < n; i++ {
		switch x := r.Intn(10); {
		case x < 2:
			if d < 8 {
				p = append(p, o("q"))
				d++
			}
		case x < 4:
			if d > 0 {
				p = append(p, o("Q"))
				d--
			} else if r.Chance(1, 10) {
				p = append(p, o("Q"))
			}
		case x < 7:
			m := genMatrix(r)
			p = append(p, op{K: "cm", N: m[:]})
		default:
			p = append(p, op{K: "L", N: []*big.Rat{small(r), small(r), small(r), small(r)}})
		}
	}
	return p
}
