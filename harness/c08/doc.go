package c08

import (
	"encoding/hex"
	"fmt"
	"math/big"
	"sort"
	"strconv"
	"strings"

	"github.com/tsawler/tabula/contentstream"
	"github.com/tsawler/tabula/core"
	"github.com/tsawler/tabula/text"

	"verifharness/hx"
)

// Documents: the public entry points of text.Extractor around the operator semantics.
//
// A document here is what SetResourceContext + ExtractFromBytes see: the page's resource
// dictionary, a table of indirect objects behind a resolver, and one or more page content
// streams run one after the other on ONE extractor.  Forms are objects reached through
// resource names, so form graphs share objects and may be cyclic; resources are direct or
// indirect, present, missing or of a wrong type; /Matrix may be malformed; content may be
// empty, huge or unparsable; operations may have the wrong number or type of operands.
//
// The Lean model (Model/XDoc.lean) receives the same document as a token line (op c08.doc):
// the objects as a reader of ISO 32000 classifies them, and every content stream as the
// operation list tabula's content-stream parser delivered (the parser is external to C08).
// describe() below derives that line from the tabula objects themselves, not from the
// generator's intentions.
//
// All programs of op c08.doc start with `0 Tz`: with zero horizontal scaling every glyph
// advance is exactly 0, so the origin of EVERY show (not only the first after a
// positioning step) is determined and compared, as is the effect of deduplication.

type docCase struct {
	res   core.Dict // nil: SetResourceContext is not called
	objs  map[int]core.Object
	progs [][]byte
	// lens of the forms whose content starts with the marker show 10000+object number
	markerLen map[int]int
	gen       *docGen
}

func (d *docCase) resolve(r core.IndirectRef) (core.Object, error) {
	if o, ok := d.objs[r.Number]; ok {
		return o, nil
	}
	return nil, fmt.Errorf("no object %d", r.Number)
}

// ---- description for the model ------------------------------------------------------

type describer struct {
	objs    map[int]core.Object
	direct  map[int]core.Object // values met directly inside dictionaries, given numbers
	nextID  int
	strIDs  map[string]int
	unmodel bool // an operator outside the model (Ts, TJ, inline images) occurred
}

func (d *describer) directID(o core.Object) int {
	if st, ok := o.(*core.Stream); ok {
		for n, x := range d.direct {
			if x == core.Object(st) {
				return n
			}
		}
	}
	d.nextID++
	d.direct[d.nextID] = o
	return d.nextID
}

func sidOfText(t string, intern map[string]int) int {
	if strings.HasPrefix(t, "s") && strings.HasSuffix(t, " x") {
		if n, err := strconv.Atoi(t[1 : len(t)-2]); err == nil && n >= 0 && strconv.Itoa(n) == t[1:len(t)-2] {
			return n
		}
	}
	if id, ok := intern[t]; ok {
		return id
	}
	id := 500000 + len(intern)
	intern[t] = id
	return id
}

func hexName(s string) string { return hex.EncodeToString([]byte(s)) }

var modelledOperators = map[string]bool{"q": true, "Q": true, "cm": true, "BT": true, "ET": true, "Tf": true, "Tc": true, "Tw": true,
	"Tz": true, "TL": true, "Ts": true, "Tm": true, "Td": true, "TD": true, "T*": true, "Tj": true, "TJ": true, "'": true, "\"": true, "Do": true}

// operators that the parser treats specially: outside the model, never generated
var unmodelledOperators = map[string]bool{"BI": true, "ID": true, "EI": true}

func (d *describer) operand(o core.Object) string {
	switch v := o.(type) {
	case core.Int:
		return strconv.FormatInt(int64(v), 10)
	case core.Real:
		return wnum(new(big.Rat).SetFloat64(float64(v)))
	case core.Name:
		return "/" + hexName(string(v))
	case core.String:
		return fmt.Sprintf("s%d", sidOfText(string(v), d.strIDs))
	case core.Array:
		// as showTextArray reads it: strings and numbers; an element of any other type is `?`
		parts := make([]string, len(v))
		for i, e := range v {
			switch x := e.(type) {
			case core.Int:
				parts[i] = "n" + strconv.FormatInt(int64(x), 10)
			case core.Real:
				parts[i] = "n" + wnum(new(big.Rat).SetFloat64(float64(x)))
			case core.String:
				parts[i] = fmt.Sprintf("s%d", sidOfText(string(x), d.strIDs))
			default:
				parts[i] = "?"
			}
		}
		return "[" + strings.Join(parts, ";") + "]"
	}
	return "?"
}

func (d *describer) rawOps(ops []contentstream.Operation) []string {
	out := make([]string, 0, len(ops))
	for _, op := range ops {
		name := op.Operator
		if unmodelledOperators[name] || strings.ContainsAny(name, ":,|[] ") {
			d.unmodel = true
		}
		if !modelledOperators[name] {
			name = "o." + name // any operator without a case of interest
		}
		if len(op.Operands) == 0 {
			out = append(out, name)
			continue
		}
		parts := make([]string, len(op.Operands))
		for i, x := range op.Operands {
			parts[i] = d.operand(x)
		}
		out = append(out, name+":"+strings.Join(parts, ","))
	}
	return out
}

// xslot: the value of an /XObject entry
func (d *describer) xslot(v core.Object) string {
	switch x := v.(type) {
	case nil:
		return "-"
	case core.IndirectRef:
		return fmt.Sprintf("@%d", x.Number)
	case core.Dict:
		var parts []string
		for _, k := range hx.SortedKeys(map[string]core.Object(x)) {
			switch t := x[k].(type) {
			case nil:
			case core.IndirectRef:
				parts = append(parts, fmt.Sprintf("%s=%d", hexName(k), t.Number))
			default:
				parts = append(parts, fmt.Sprintf("%s=%d", hexName(k), d.directID(t)))
			}
		}
		return "{" + strings.Join(parts, ";") + "}"
	}
	return "?"
}

func (d *describer) object(n int, o core.Object) []string {
	switch x := o.(type) {
	case *core.Stream:
		sub, _ := x.Dict.Get("Subtype").(core.Name)
		data, err := x.Decode()
		if string(sub) != "Form" || err != nil {
			return []string{fmt.Sprintf("O:%d:?", n)}
		}
		m := "-"
		if arr, ok := x.Dict.Get("Matrix").(core.Array); ok {
			if len(arr) == 0 {
				m = "e"
			} else {
				parts := make([]string, len(arr))
				for i, e := range arr {
					switch v := e.(type) {
					case core.Int:
						parts[i] = strconv.FormatInt(int64(v), 10)
					case core.Real:
						parts[i] = wnum(new(big.Rat).SetFloat64(float64(v)))
					default:
						parts[i] = "x"
					}
				}
				m = strings.Join(parts, ",")
			}
		}
		res := "-"
		switch r := x.Dict.Get("Resources").(type) {
		case nil:
		case core.IndirectRef:
			res = fmt.Sprintf("@%d", r.Number)
		case core.Dict:
			res = "D" + d.xslot(r.Get("XObject"))
		default:
			res = "?"
		}
		flushParser()
		ops, perr := contentstream.NewParser(data).Parse()
		flushParser()
		ok := "1"
		if perr != nil {
			ok, ops = "0", nil
		}
		out := []string{fmt.Sprintf("O:%d:F:%s:%s:%d:%s", n, m, res, len(data), ok), "["}
		out = append(out, d.rawOps(ops)...)
		return append(out, "]")
	case core.Dict:
		if _, has := x["XObject"]; has {
			return []string{fmt.Sprintf("O:%d:R:%s", n, d.xslot(x["XObject"]))}
		}
		return []string{fmt.Sprintf("O:%d:X:%s", n, d.xslot(x))}
	}
	return []string{fmt.Sprintf("O:%d:?", n)}
}

// describe renders the document; ok=false when a page content stream does not parse
// (ExtractFromBytes then fails before Extract is reached) or uses an unmodelled operator.
func describe(dc *docCase) (string, bool) {
	d := &describer{objs: dc.objs, direct: map[int]core.Object{}, nextID: 1000000, strIDs: map[string]int{}}
	var toks []string
	if dc.res == nil {
		toks = append(toks, "R:nil")
	} else {
		toks = append(toks, "R:"+d.xslot(dc.res.Get("XObject")))
	}
	nums := make([]int, 0, len(dc.objs))
	for n := range dc.objs {
		nums = append(nums, n)
	}
	sort.Ints(nums)
	for _, n := range nums {
		toks = append(toks, d.object(n, dc.objs[n])...)
	}
	for done := 1000000; done < d.nextID; {
		done++
		toks = append(toks, d.object(done, d.direct[done])...)
	}
	toks = append(toks, "P")
	for i, p := range dc.progs {
		flushParser()
		ops, err := contentstream.NewParser(p).Parse()
		flushParser()
		if err != nil {
			return "", false
		}
		if i > 0 {
			toks = append(toks, "|")
		}
		toks = append(toks, d.rawOps(ops)...)
	}
	return strings.Join(toks, " "), !d.unmodel
}

// ---- running the implementation --------------------------------------------------------

type callResult struct {
	frags               []text.TextFragment // what ExtractFromBytes returned
	raw                 []text.TextFragment // GetFragmentsRaw
	err                 error
	bytes, depth, saved int
}

type docResult struct {
	calls    []callResult
	panicked string
}

func runDoc(dc *docCase) docResult {
	var res docResult
	res.panicked = hx.Safe(func() {
		e := text.NewExtractor()
		if dc.res != nil {
			e.SetResourceContext(dc.res, dc.resolve)
		}
		for _, p := range dc.progs {
			flushParser()
			var cr callResult
			cr.frags, cr.err = e.ExtractFromBytes(p)
			cr.raw = append([]text.TextFragment{}, e.GetFragmentsRaw()...)
			cr.bytes, cr.depth, cr.saved = text.VerifXObjectState(e)
			res.calls = append(res.calls, cr)
		}
	})
	return res
}

func polyHash(s string) uint64 {
	h := uint64(7)
	for i := 0; i < len(s); i++ {
		h = (h*131 + uint64(s[i])) % 1000000007
	}
	return h
}

func summarise(xs []string) string {
	if len(xs) == 0 {
		return "-"
	}
	if len(xs) <= 24 {
		return strings.Join(xs, ";")
	}
	h := polyHash(strings.Join(xs, ";"))
	return strings.Join(xs[:12], ";") + fmt.Sprintf(";..%d:%d..;", len(xs), h) + strings.Join(xs[len(xs)-12:], ";")
}

const dedupLimit = 2000

func fragStrs(fs []text.TextFragment, intern map[string]int) []string {
	out := make([]string, len(fs))
	for i, f := range fs {
		out[i] = fmt.Sprintf("%d@%s,%s,%s", sidOfText(f.Text, intern), ff(f.X), ff(f.Y), ff(f.FontSize*f.FontSize))
	}
	return out
}

// docReply: the implementation's canonical reply for c08.doc; exact=false when a value is
// too large for the float evaluation to be certainly exact (the case is then dropped).
func docReply(res docResult) (string, bool) {
	if res.panicked != "" {
		return "panic", true
	}
	intern := map[string]int{}
	exact := true
	const lim = float64(1 << 40)
	var parts []string
	for _, cr := range res.calls {
		for _, f := range cr.raw {
			if f.X >= lim || f.X <= -lim || f.Y >= lim || f.Y <= -lim || f.FontSize >= 1<<26 || f.FontSize != f.FontSize {
				exact = false
			}
		}
		main := "err"
		if cr.err == nil {
			if len(cr.raw) > dedupLimit {
				main = "dedup-skipped"
			} else {
				main = summarise(fragStrs(cr.frags, intern))
			}
		}
		raw := fragStrs(cr.raw, intern)
		parts = append(parts, fmt.Sprintf("%s;raw=%d:%d;b=%d;d=%d;st=%d", main, len(raw), polyHash(strings.Join(raw, ";")), cr.bytes, cr.depth, cr.saved))
	}
	return strings.Join(parts, "|"), exact
}

// docpReply: the reply for c08.docp (property mode): every fragment, the origin only where
// the reference run says the property determines it, the size only where it is exact.
func docpReply(res implResult, r *refRun) string {
	if res.panicked != "" {
		return "panic"
	}
	tail := fmt.Sprintf(";b=%d;d=%d;st=%d", res.bytes, res.depth, res.saved)
	if res.err != nil {
		return "err" + tail
	}
	if len(res.frags) != len(r.shows) {
		return fmt.Sprintf("count:%d", len(res.frags))
	}
	if len(res.frags) == 0 {
		return "-" + tail
	}
	intern := map[string]int{}
	parts := make([]string, len(res.frags))
	for i, f := range res.frags {
		sh := r.shows[i]
		pos := "~,~"
		if sh.known {
			pos = ff(f.X) + "," + ff(f.Y)
		}
		sz := "~"
		if sh.sizeExact {
			sz = ff(f.FontSize * f.FontSize)
		}
		parts[i] = fmt.Sprintf("%d@%s,%s", sidOfText(f.Text, intern), pos, sz)
	}
	return strings.Join(parts, ";") + tail
}

// docxReply: the reply for c08.docx (the unfolded tree under the operator model): as
// docpReply without string identities; zero=true prints every origin (c08.docx0).
func docxReply(frags []text.TextFragment, err error, r *refRun, bytes, depth, saved int) string {
	if err != nil {
		return "err"
	}
	parts := make([]string, len(frags))
	for i, f := range frags {
		pos, sz := ff(f.X)+","+ff(f.Y), ff(f.FontSize*f.FontSize)
		if r != nil {
			if i >= len(r.shows) {
				return fmt.Sprintf("count:%d", len(frags))
			}
			if !r.shows[i].known {
				pos = "~,~"
			}
			if !r.shows[i].sizeExact {
				sz = "~"
			}
		}
		parts[i] = pos + "," + sz
	}
	main := summarise(parts)
	if len(parts) > dedupLimit {
		main = fmt.Sprintf("n=%d", len(parts))
	}
	return fmt.Sprintf("%s;b=%d;d=%d;st=%d", main, bytes, depth, saved)
}

type docKase struct {
	Family string   `json:"family"`
	Seed   uint64   `json:"seed"`
	Index  int      `json:"index"`
	Doc    string   `json:"document"`
	Progs  []string `json:"content_streams,omitempty"`
}

const (
	budgetBytes = 64 << 20
	budgetCall  = 1 << 10
)

// checkDoc: one document through SetResourceContext/ExtractFromBytes (a history when it
// has several programs): correspondence op + oracles that need no model.
func checkDoc(c *hx.Ctx, family string, index int, dc *docCase, twice bool) {
	line, ok := describe(dc)
	if !ok {
		c.Count("doc-dropped:page-stream-does-not-parse-or-unmodelled-operator")
		return
	}
	res := runDoc(dc)
	reply, exact := docReply(res)
	if !exact {
		c.Count("doc-dropped:inexact")
		return
	}
	k := docKase{Family: family, Seed: c.Seed, Index: index, Doc: line}
	if len(line) > 4000 {
		k.Doc = line[:4000] + "…"
	}
	for _, p := range dc.progs {
		s := string(p)
		if len(s) > 600 {
			s = s[:600] + "…"
		}
		k.Progs = append(k.Progs, s)
	}
	c.Count("family:" + family)
	c.Check("C08/doc-panic", res.panicked == "", k, func() string { return res.panicked })
	c.Op("c08.doc "+line, reply)
	if res.panicked == "" && len(res.calls) > 0 {
		// the first call again, through the unfolding into a form tree
		cr := res.calls[0]
		c.Op("c08.docx0 "+line, docxReply(cr.raw, cr.err, nil, cr.bytes, cr.depth, cr.saved))
	}
	if res.panicked != "" {
		c.Case("doc "+line, false)
		return
	}
	nontrivial := false
	for ci, cr := range res.calls {
		// every form execution is charged at least xobjectCallCost+1, so one content stream
		// executes at most 64 MiB / 1025 forms, and the content executed is at most 64 MiB:
		// counted on the marker shows (first operation of a form's content)
		execs, charged := 0, 0
		for _, f := range cr.raw {
			if sid := sidOfText(f.Text, map[string]int{}); sid >= 10000 && sid < 20000 {
				if l, ok := dc.markerLen[sid-10000]; ok {
					execs++
					charged += l + budgetCall
				}
			}
		}
		if execs > 0 {
			nontrivial = true
		}
		switch {
		case execs == 0:
			c.Count("doc-executions:0")
		case execs <= 10:
			c.Count("doc-executions:1-10")
		case execs <= 1000:
			c.Count("doc-executions:11-1000")
		default:
			c.Count("doc-executions:>1000")
		}
		if cr.bytes > budgetBytes {
			c.Count("doc-budget-exhausted")
		}
		if cr.err != nil {
			c.Count("doc-result:error")
		}
		c.Check("C08/doc-budget-executions", execs <= budgetBytes/(budgetCall+1) && charged <= budgetBytes, k, func() string {
			return fmt.Sprintf("call %d executed %d forms charging %d bytes; the bound is %d bytes per content stream", ci, execs, charged, budgetBytes)
		})
		c.Check("C08/doc-depth-restored", cr.depth == 0, k, func() string {
			return fmt.Sprintf("call %d left xobjectDepth=%d", ci, cr.depth)
		})
	}
	if twice && len(res.calls) == 2 && !dc.gen.unbalanced {
		c.Count("doc-twice:balanced-compared")
		// the same balanced program run twice on one extractor: the budget is per content
		// stream, and q…Q restores the state, so both calls report the same fragments
		a, b := res.calls[0], res.calls[1]
		same := (a.err == nil) == (b.err == nil) && len(a.raw) == len(b.raw)
		if same {
			for i := range a.raw {
				if a.raw[i].Text != b.raw[i].Text || a.raw[i].X != b.raw[i].X || a.raw[i].Y != b.raw[i].Y || a.raw[i].FontSize != b.raw[i].FontSize {
					same = false
				}
			}
		}
		c.Check("C08/doc-history-second-call-differs", same, k, func() string {
			return fmt.Sprintf("first call: %d fragments (bytes %d), second call of the same q…Q program: %d fragments (bytes %d)", len(a.raw), a.bytes, len(b.raw), b.bytes)
		})
	}
	c.Case("doc "+strconv.FormatUint(polyHash(line), 10)+" "+family+" "+strconv.Itoa(index), nontrivial)
}

// ---- generators -----------------------------------------------------------------------

var docNames = []string{"Fm0", "Fm1", "Fm2", "X", "Im0", "S"}

// monomial integer matrices (products stay monomial, so every scale factor is the root of
// a perfect square and FontSize is an exact integer): rotations by multiples of 90°,
// reflections, scale 1 or 2, integer translation
func docMatrix(r *hx.Rng) [6]int64 {
	k1, k2 := int64(1), int64(1)
	if r.Chance(1, 8) {
		k1 = 2
	}
	if r.Chance(1, 8) {
		k2 = 2
	}
	if r.Chance(1, 6) {
		k1 = -k1
	}
	if r.Chance(1, 6) {
		k2 = -k2
	}
	t := func() int64 {
		if r.Chance(1, 3) {
			return 0
		}
		return int64(r.Range(-50, 50))
	}
	if r.Chance(1, 4) {
		return [6]int64{0, k1, k2, 0, t(), t()}
	}
	return [6]int64{k1, 0, 0, k2, t(), t()}
}

func nums6(m [6]int64) string {
	return fmt.Sprintf("%d %d %d %d %d %d", m[0], m[1], m[2], m[3], m[4], m[5])
}

type docGen struct {
	r          *hx.Rng
	sid        int
	unbalanced bool // some content closes more, or less, than it opens
}

func (g *docGen) str() string {
	g.sid++
	return fmt.Sprintf("(s%d x)", g.sid)
}

// malformed: operations with the wrong number or type of operands, and operators the
// extractor has no case for
func (g *docGen) malformed() string {
	r := g.r
	n := func() string { return strconv.Itoa(r.Range(-9, 30)) }
	opts := []func() string{
		func() string { return n() + " " + n() + " " + n() + " cm" },
		func() string { return "1 0 0 1 " + n() + " cm" },
		func() string { return "1 0 0 1 " + g.str() + " " + n() + " cm" },
		func() string { return "1 0 /N 1 " + n() + " " + n() + " cm" },
		func() string { return "2 0 0 2 1 1 7 cm" },
		func() string { return "/F1 Tf" },
		func() string { return n() + " /F1 Tf" },
		func() string { return g.str() + " 12 Tf" },
		func() string { return "/F1 /F2 Tf" },
		func() string { return n() + " Td" },
		func() string { return n() + " /X Td" },
		func() string { return g.str() + " " + n() + " Td" },
		func() string { return "1 2 3 Td" },
		func() string { return n() + " TD" },
		func() string { return "true " + n() + " TD" },
		func() string { return "Tj" },
		func() string { return n() + " Tj" },
		func() string { return g.str() + " " + g.str() + " Tj" },
		func() string { return "/Name Tj" },
		func() string { return "'" },
		func() string { return n() + " '" },
		func() string { return g.str() + " " + n() + " '" },
		func() string { return n() + " " + n() + " \"" },
		func() string { return "/A " + n() + " " + g.str() + " \"" },
		func() string { return n() + " " + g.str() + " " + g.str() + " \"" },
		func() string { return n() + " " + n() + " " + n() + " \"" },
		func() string { return "null [1 2] " + g.str() + " \"" },
		func() string { return n() + " " + n() + " " + n() + " " + g.str() + " \"" },
		func() string { return "Do" },
		func() string { return n() + " Do" },
		func() string { return "/Fm0 /Fm1 Do" },
		func() string { return "(Fm0) Do" },
		func() string { return "TL" },
		func() string { return g.str() + " TL" },
		func() string { return n() + " " + n() + " TL" },
		func() string { return "[1 2] TL" },
		func() string { return "true Tc" },
		func() string { return n() + " " + n() + " Tw" },
		func() string { return "1 0 0 1 0 Tm" },
		func() string { return "1 0 0 1 (a) 5 Tm" },
		func() string { return n() + " q Q" },
		func() string { return "5 BT" },
		func() string { return n() + " T*" },
		func() string { return "3 ET" },
		func() string { return n() + " " + n() + " 10 10 re f" },
		func() string { return "/GS1 gs" },
		func() string { return "0.5 w 1 0 0 RG 0 1 0 rg" },
		func() string { return "2 Tr" },
		func() string { return "W* n" },
		func() string { return "/P <</MCID 1>> BDC EMC" },
		func() string { return "TJ" },
		func() string { return g.str() + " TJ" },
		func() string { return "[" + g.str() + "] " + n() + " TJ" },
		func() string { return "[" + g.str() + " /N " + n() + " [1] null " + g.str() + " true] TJ" },
		func() string { return "[] TJ" },
		func() string { return "[" + n() + " " + n() + "] TJ" },
		func() string { return "Ts" },
		func() string { return g.str() + " Ts" },
		func() string { return n() + " " + n() + " Ts" },
	}
	return opts[r.Intn(len(opts))]()
}

// textBlock: BT, maybe a font size, a positioning step, a show, maybe a second line
func (g *docGen) textBlock() string {
	r := g.r
	var sb strings.Builder
	sb.WriteString("BT ")
	if r.Chance(2, 3) {
		sb.WriteString(fmt.Sprintf("/F1 %d Tf ", []int{1, 8, 10, 12}[r.Intn(4)]))
	}
	switch r.Intn(4) {
	case 0:
		sb.WriteString(nums6(docMatrix(r)) + " Tm ")
	case 1:
	default:
		sb.WriteString(fmt.Sprintf("%d %d Td ", r.Range(-40, 40), r.Range(-40, 40)))
	}
	if r.Chance(1, 8) {
		sb.WriteString(fmt.Sprintf("%d Ts ", r.Range(-6, 9)))
	}
	if r.Chance(1, 4) {
		// a TJ array: strings with numbers in between (under 0 Tz nothing moves)
		sb.WriteString(fmt.Sprintf("[%s %d %s %d] TJ ", g.str(), r.Range(-500, 500), g.str(), r.Range(-90, 90)))
	} else {
		sb.WriteString(g.str() + " Tj ")
	}
	switch r.Intn(6) {
	case 0:
		sb.WriteString(fmt.Sprintf("%d TL T* %s Tj ", r.Range(-5, 20), g.str()))
	case 1:
		sb.WriteString(fmt.Sprintf("%d %d TD %s Tj T* %s Tj ", r.Range(-9, 9), r.Range(-20, 5), g.str(), g.str()))
	case 2:
		sb.WriteString(fmt.Sprintf("%d TL %s ' %d %d %s \" ", r.Range(1, 15), g.str(), r.Range(0, 3), r.Range(0, 3), g.str()))
	case 3:
		sb.WriteString(g.str() + " Tj ") // a second show where the first ended (advance 0)
	}
	sb.WriteString("ET")
	return sb.String()
}

// body: the content of a page (isPage) or of form object id
func (g *docGen) body(id int, isPage bool, maxDo int, visible []string) string {
	r := g.r
	var parts []string
	if isPage {
		parts = append(parts, "0 Tz")
	} else if r.Chance(9, 10) {
		parts = append(parts, fmt.Sprintf("BT /F1 %d Tf %d %d Td (s%d x) Tj ET", r.Range(1, 12), r.Range(-9, 9), r.Range(-9, 9), 10000+id))
	}
	open, dos := 0, 0
	n := r.Range(0, 6)
	if isPage {
		n = r.Range(1, 9)
	}
	for i := 0; i < n; i++ {
		switch x := r.Intn(100); {
		case x < 34:
			if dos >= maxDo {
				continue
			}
			dos++
			name := docNames[r.Intn(len(docNames))]
			if len(visible) > 0 && r.Chance(4, 5) {
				name = visible[r.Intn(len(visible))]
			}
			if name == "S" {
				name = "#2FS" // the name "/S": found through the TrimPrefix retry
			}
			if r.Chance(1, 4) {
				parts = append(parts, "q "+nums6(docMatrix(r))+" cm /"+name+" Do Q")
			} else {
				parts = append(parts, "/"+name+" Do")
			}
		case x < 58:
			parts = append(parts, g.textBlock())
		case x < 68:
			parts = append(parts, nums6(docMatrix(r))+" cm")
		case x < 76:
			parts = append(parts, "q")
			open++
		case x < 84:
			if open > 0 {
				parts = append(parts, "Q")
				open--
			} else if r.Chance(1, 5) {
				parts = append(parts, "Q") // unmatched
				g.unbalanced = true
			}
		default:
			parts = append(parts, g.malformed())
		}
	}
	if r.Chance(9, 10) {
		for ; open > 0; open-- {
			parts = append(parts, "Q")
		}
	}
	if open > 0 {
		g.unbalanced = true
	}
	return strings.Join(parts, "\n")
}

func refTo(n int) core.Object { return core.IndirectRef{Number: n} }

// matrixEntry: /Matrix well-formed, or of the wrong length, with a non-number, or not an
// array
func (g *docGen) matrixEntry(d core.Dict) {
	r := g.r
	m := docMatrix(r)
	arr := core.Array{}
	for i, v := range m {
		if i%2 == 0 {
			arr = append(arr, core.Int(v))
		} else {
			arr = append(arr, core.Real(float64(v)))
		}
	}
	switch x := r.Intn(20); {
	case x < 4: // none
	case x < 15:
		d["Matrix"] = arr
	case x == 15:
		d["Matrix"] = arr[:5]
	case x == 16:
		d["Matrix"] = append(arr, core.Int(1))
	case x == 17:
		arr[r.Intn(6)] = core.Name("N")
		d["Matrix"] = arr
	case x == 18:
		d["Matrix"] = core.Array{}
	default:
		d["Matrix"] = core.Int(2)
	}
}

// genGraphDoc: 1-5 form objects bound to names in the page's and the forms' resource
// dictionaries at random — shared, cyclic, missing, of wrong types.
func genGraphDoc(r *hx.Rng, nProgs int) *docCase {
	g := &docGen{r: r}
	dc := &docCase{gen: g, objs: map[int]core.Object{}, markerLen: map[int]int{}}
	nF := r.Range(1, 5)
	cyclic := r.Chance(1, 3)
	// non-form targets
	dc.objs[20] = &core.Stream{Dict: core.Dict{"Type": core.Name("XObject"), "Subtype": core.Name("Image"), "Width": core.Int(1), "Height": core.Int(1)}, Data: []byte{0}}
	dc.objs[21] = core.Int(7)
	dc.objs[22] = &core.Stream{Dict: core.Dict{"Subtype": core.Name("Form"), "Filter": core.Name("NoSuchDecode")}, Data: []byte("BT (s1 x) Tj ET")}
	dc.objs[23] = &core.Stream{Dict: core.Dict{"Subtype": core.Name("Form")}, Data: []byte{}}
	dc.objs[24] = &core.Stream{Dict: core.Dict{"Subtype": core.Name("Form")}, Data: []byte("BT (s20024 x) Tj ET (unterminated")}
	dc.objs[25] = &core.Stream{Dict: core.Dict{}, Data: []byte("BT (s2 x) Tj ET")} // no /Subtype
	target := func(self int) core.Object {
		switch x := r.Intn(20); {
		case x < 16:
			t := r.Range(1, nF)
			if !cyclic && self > 0 && t <= self { // acyclic: only forms with larger numbers
				if self == nF {
					return refTo(20 + r.Intn(6))
				}
				t = r.Range(self+1, nF)
			}
			return refTo(t)
		case x < 19:
			return refTo(20 + r.Intn(6))
		default:
			return refTo(99) // resolves to nothing
		}
	}
	bindings := func(self int) core.Dict {
		xo := core.Dict{}
		for i, n := 0, r.Range(1, 4); i < n; i++ {
			xo[docNames[r.Intn(len(docNames))]] = target(self)
		}
		return xo
	}
	next := 30
	alloc := func(o core.Object) core.Object {
		next++
		dc.objs[next] = o
		return refTo(next)
	}
	keys := func(ds ...core.Dict) []string {
		var out []string
		for _, d := range ds {
			out = append(out, hx.SortedKeys(map[string]core.Object(d))...)
		}
		return out
	}
	pageBind := bindings(0)
	for id := 1; id <= nF; id++ {
		d := core.Dict{"Type": core.Name("XObject"), "Subtype": core.Name("Form")}
		g.matrixEntry(d)
		own := bindings(id)
		visible := keys(pageBind)
		switch r.Intn(12) {
		case 0, 1: // no /Resources: names resolve in the invoking scope
		case 2, 3, 4:
			d["Resources"] = core.Dict{"XObject": own}
			visible = keys(own, pageBind)
		case 5:
			d["Resources"] = core.Dict{"XObject": alloc(own)}
			visible = keys(own, pageBind)
		case 6:
			d["Resources"] = alloc(core.Dict{"XObject": own})
			visible = keys(own, pageBind)
		case 7:
			d["Resources"] = alloc(core.Dict{"XObject": alloc(own)})
			visible = keys(own, pageBind)
		case 8:
			d["Resources"] = core.Int(3)
		case 9:
			d["Resources"] = refTo(99)
		case 10:
			d["Resources"] = core.Dict{}
		default:
			if r.Bool() {
				d["Resources"] = core.Dict{"XObject": core.Int(1)}
			} else {
				d["Resources"] = core.Dict{"XObject": refTo(21)}
			}
		}
		maxDo := 2
		if r.Chance(1, 12) {
			maxDo = 3
		}
		data := []byte(g.body(id, false, maxDo, visible))
		if r.Chance(1, 25) {
			data = []byte{}
		} else if r.Chance(1, 25) {
			data = append(data, []byte(" (unterminated")...)
		}
		st := &core.Stream{Dict: d, Data: data}
		dc.objs[id] = st
		dc.markerLen[id] = len(data)
	}
	// one form is sometimes also bound as a direct value (possible only in memory)
	switch x := r.Intn(12); {
	case x == 0: // no resource context at all
	case x == 1:
		dc.res = core.Dict{}
	case x == 2:
		dc.res = core.Dict{"XObject": alloc(pageBind)}
	case x == 3:
		pageBind["Fm0"] = dc.objs[1]
		dc.res = core.Dict{"XObject": pageBind}
	default:
		dc.res = core.Dict{"XObject": pageBind}
	}
	for i := 0; i < nProgs; i++ {
		dc.progs = append(dc.progs, []byte(g.body(0, true, 4, keys(pageBind))))
	}
	return dc
}

// genRawDoc: a page without forms, made mostly of malformed operations between valid
// positioning steps and shows
func genRawDoc(r *hx.Rng) *docCase {
	g := &docGen{r: r}
	parts := []string{"0 Tz", "BT /F1 10 Tf"}
	for i, n := 0, r.Range(2, 12); i < n; i++ {
		switch r.Intn(5) {
		case 0:
			parts = append(parts, fmt.Sprintf("%d %d Td %s Tj", r.Range(-30, 30), r.Range(-30, 30), g.str()))
		case 1:
			parts = append(parts, nums6(docMatrix(r))+" Tm "+g.str()+" Tj")
		default:
			parts = append(parts, g.malformed())
			if r.Bool() {
				parts = append(parts, g.str()+" Tj")
			}
		}
	}
	dc := &docCase{objs: map[int]core.Object{}, markerLen: map[int]int{}}
	if r.Bool() {
		dc.res = core.Dict{"XObject": core.Dict{"Fm0": refTo(1)}}
		dc.objs[1] = &core.Stream{Dict: core.Dict{"Subtype": core.Name("Form")}, Data: []byte("BT (s10001 x) Tj ET")}
		dc.markerLen[1] = len("BT (s10001 x) Tj ET")
	}
	dc.progs = [][]byte{[]byte(strings.Join(parts, "\n"))}
	return dc
}

func formStream(content string, res core.Object, pad int) *core.Stream {
	d := core.Dict{"Type": core.Name("XObject"), "Subtype": core.Name("Form")}
	if res != nil {
		d["Resources"] = res
	}
	data := []byte(content)
	if pad > len(data) {
		data = append(data, []byte(strings.Repeat(" ", pad-len(data)))...)
	}
	return &core.Stream{Dict: d, Data: data}
}

// heavyDocs: form graphs whose unbounded execution would be k^depth forms, and forms large
// enough for the byte budget to stop them
func heavyDoc(r *hx.Rng, kind int) *docCase {
	dc := &docCase{objs: map[int]core.Object{}, markerLen: map[int]int{}}
	marker := func(id int) string { return fmt.Sprintf("BT (s%d x) Tj ET ", 10000+id) }
	add := func(id int, st *core.Stream) {
		dc.objs[id] = st
		dc.markerLen[id] = len(st.Data)
	}
	page := "0 Tz /Fm0 Do BT (s1 x) Tj ET"
	switch kind {
	case 0: // one form draws itself k times
		k := r.Range(4, 8)
		add(1, formStream(marker(1)+strings.Repeat("/Fm0 Do ", k), nil, 0))
		dc.res = core.Dict{"XObject": core.Dict{"Fm0": refTo(1)}}
	case 1: // a chain of 10 forms, each drawing the next k times
		k := r.Range(3, 10)
		for id := 1; id <= 10; id++ {
			c := marker(id)
			if id < 10 {
				c += strings.Repeat("/N Do ", k)
			}
			add(id, formStream(c, core.Dict{"XObject": core.Dict{"N": refTo(id + 1)}}, 0))
		}
		dc.res = core.Dict{"XObject": core.Dict{"Fm0": refTo(1)}}
	case 2: // two forms drawing each other
		k := r.Range(3, 5)
		add(1, formStream(marker(1)+strings.Repeat("/B Do ", k), nil, 0))
		add(2, formStream(marker(2)+strings.Repeat("/A Do ", k), nil, 0))
		dc.res = core.Dict{"XObject": core.Dict{"Fm0": refTo(1), "A": refTo(1), "B": refTo(2)}}
	case 3: // a large form drawn several times: the byte budget stops it
		mib := r.Range(5, 30)
		add(1, formStream(marker(1), nil, mib<<20+r.Range(0, 4096)))
		dc.res = core.Dict{"XObject": core.Dict{"Fm0": refTo(1)}}
		page = "0 Tz" + strings.Repeat(" /Fm0 Do", r.Range(2, 16)) + " BT (s1 x) Tj ET"
	default: // the boundary: content of exactly 64 MiB - 1 KiB is executed once (kind 4), one byte more never (kind 5)
		extra := kind - 4
		add(1, formStream(marker(1), nil, budgetBytes-budgetCall+extra))
		dc.res = core.Dict{"XObject": core.Dict{"Fm0": refTo(1)}}
		page = "0 Tz /Fm0 Do /Fm0 Do BT (s1 x) Tj ET"
	}
	dc.progs = [][]byte{[]byte(page)}
	if kind < 4 && r.Bool() {
		dc.progs = append(dc.progs, []byte(page))
	}
	return dc
}

// twiceDoc: one q…Q program run twice on one extractor (history): same fragments, same
// number of executed forms both times.
func twiceDoc(r *hx.Rng) *docCase {
	dc := genGraphDoc(r, 1)
	p := []byte("0 Tz\nq\n" + string(dc.progs[0]) + "\nQ")
	dc.progs = [][]byte{p, p}
	return dc
}

func runDocs(c *hx.Ctx) {
	n := c.N(1500, 40000)
	for i := 0; i < n; i++ {
		r := c.Rng.Fork(uint64(5<<32 + i))
		np := 1
		if r.Chance(1, 4) {
			np = r.Range(2, 4)
		}
		fam := "doc-graph"
		if np > 1 {
			fam = "doc-history"
		}
		checkDoc(c, fam, i, genGraphDoc(r, np), false)
	}
	for i := 0; i < c.N(600, 15000); i++ {
		checkDoc(c, "doc-rawops", i, genRawDoc(c.Rng.Fork(uint64(6<<32+i))), false)
	}
	for i := 0; i < c.N(150, 4000); i++ {
		checkDoc(c, "doc-twice", i, twiceDoc(c.Rng.Fork(uint64(7<<32+i))), true)
	}
	for i := 0; i < c.N(6, 60); i++ {
		r := c.Rng.Fork(uint64(8<<32 + i))
		checkDoc(c, fmt.Sprintf("doc-heavy-%d", i%6), i, heavyDoc(r, i%6), false)
	}
}

func replayDoc(c *hx.Ctx, fam string, index int) {
	switch {
	case fam == "doc-graph" || fam == "doc-history":
		r := c.Rng.Fork(uint64(5<<32 + index))
		np := 1
		if r.Chance(1, 4) {
			np = r.Range(2, 4)
		}
		checkDoc(c, fam, index, genGraphDoc(r, np), false)
	case fam == "doc-rawops":
		checkDoc(c, fam, index, genRawDoc(c.Rng.Fork(uint64(6<<32+index))), false)
	case fam == "doc-twice":
		checkDoc(c, fam, index, twiceDoc(c.Rng.Fork(uint64(7<<32+index))), true)
	case strings.HasPrefix(fam, "doc-heavy"):
		checkDoc(c, fam, index, heavyDoc(c.Rng.Fork(uint64(8<<32+index)), index%6), false)
	}
}
