package c08

import (
	"fmt"
	"math/big"
)

// Reference of the ISO 32000-1 semantics of the operator set (8.3.4, 8.4.2, 9.4.2,
// 9.4.3, 8.10.1), over exact rationals.  Written from the specification:
//
//	cm:  CTM' = M × CTM                       q/Q: push / pop the whole state
//	BT:  Tm = Tlm = I                         Tm:  Tm = Tlm = M
//	Td:  Tlm' = T(tx,ty) × Tlm, Tm' = Tlm'    TD:  TL = -ty, then Td
//	T*:  0 -TL Td      ':  T* then show       ":  Tw, Tc, then '
//	Do:  q, CTM' = Matrix × CTM, content, Q
//	a string is shown at (0,0) × Tm × CTM; afterwards Tm has moved by the glyph advance,
//	which this reference does not know: `known` is cleared until Tm is assigned again.
//	TJ: every string of the array is shown; a number moves Tm (not Tlm).
//	Ts: sets the rise; the property makes no statement about text shown with a rise.
//
// With glyph widths supplied (withAdv, the programs of op c08.tx) the reference also follows
// 9.4.4: after each glyph Tm = T(tx,0) × Tm with tx = (w0·Tfs + Tc + Tw)·Th (Tw for the
// single-byte code 32), a TJ number v gives tx = −v/1000·Tfs·Th; `known` then stays set.
//
// It doubles as the exactness guard of DESIGN 3.3: every product and partial sum that the
// float64 evaluation forms is checked to be a dyadic rational with < 2^52 numerator.

type rframe struct {
	ctm, tm, tlm     mat
	tl, fs           *big.Rat
	tc, tw, th, rise *big.Rat
	font             bool // Tf has selected a font (part of the text state, saved by q)
	known            bool
	event            string // last geometry event, names the oracle key of the next show
	afterTJNum       bool   // a TJ number has moved Tm since Tm was last assigned
}

// glyph: width in 1/1000 of the font size and whether the code is 32
type glyph struct {
	w     int64
	space bool
}

// strInfo: a string as the font package reports it
type strInfo struct {
	glyphs []glyph // per decoded character (simple font: per byte)
	n, sp  int64   // bytes, space bytes
	decLen int64   // len(decodedText): what the width estimate without a font uses
}

type rshow struct {
	known     bool
	x, y      *big.Rat
	similar   bool     // Tm and CTM are non-degenerate similarities
	size2     *big.Rat // fs²·|det Tm|·|det CTM| (when similar) / fs²·kT·kC
	sizeExact bool     // both scale factors are squares of rationals: FontSize is exact
	event     string
	tm, ctm   string
}

type refRun struct {
	cur   rframe
	stack []rframe
	shows []rshow
	segs  [][4]*big.Rat
	err   bool
	exact bool
	depth int
	// withAdv: follow the glyph advances (info supplies the widths)
	withAdv bool
	info    func(sid int) strInfo
	fontAt  map[int]bool // withAdv: whether a font was selected when string sid was shown
}

var lim = new(big.Int).Lsh(big.NewInt(1), 52)

func (r *refRun) chk(x *big.Rat) *big.Rat {
	d := x.Denom()
	if new(big.Int).And(d, new(big.Int).Sub(d, big.NewInt(1))).Sign() != 0 || d.BitLen() > 30 {
		r.exact = false
	}
	if new(big.Int).Abs(x.Num()).Cmp(lim) >= 0 {
		r.exact = false
	}
	return x
}

func (r *refRun) mul(a, b *big.Rat) *big.Rat { return r.chk(new(big.Rat).Mul(a, b)) }
func (r *refRun) add(a, b *big.Rat) *big.Rat { return r.chk(new(big.Rat).Add(a, b)) }

func ident() mat { return mi(1, 0, 0, 1, 0, 0) }

// mmul is the 3×3 product a × b of two affine matrices in the row-vector convention.
func (r *refRun) mmul(a, b mat) mat {
	return mat{
		r.add(r.mul(a[0], b[0]), r.mul(a[1], b[2])),
		r.add(r.mul(a[0], b[1]), r.mul(a[1], b[3])),
		r.add(r.mul(a[2], b[0]), r.mul(a[3], b[2])),
		r.add(r.mul(a[2], b[1]), r.mul(a[3], b[3])),
		r.add(r.add(r.mul(a[4], b[0]), r.mul(a[5], b[2])), b[4]),
		r.add(r.add(r.mul(a[4], b[1]), r.mul(a[5], b[3])), b[5]),
	}
}

func (r *refRun) apply(m mat, x, y *big.Rat) (*big.Rat, *big.Rat) {
	return r.add(r.add(r.mul(m[0], x), r.mul(m[2], y)), m[4]),
		r.add(r.add(r.mul(m[1], x), r.mul(m[3], y)), m[5])
}

func mstr(m mat) string {
	return fmt.Sprintf("[%s %s %s %s %s %s]", pnum(m[0]), pnum(m[1]), pnum(m[2]), pnum(m[3]), pnum(m[4]), pnum(m[5]))
}

func isSquare(x *big.Rat) bool {
	if x.Sign() < 0 {
		return false
	}
	n, d := new(big.Int).Sqrt(x.Num()), new(big.Int).Sqrt(x.Denom())
	return new(big.Int).Mul(n, n).Cmp(x.Num()) == 0 && new(big.Int).Mul(d, d).Cmp(x.Denom()) == 0
}

// similarity: rows of the linear part orthogonal and of equal non-zero length k²;
// then |det| = k².
func (r *refRun) scale2(m mat) (h2, v2 *big.Rat, similar bool) {
	h2 = r.add(r.mul(m[0], m[0]), r.mul(m[1], m[1]))
	v2 = r.add(r.mul(m[2], m[2]), r.mul(m[3], m[3]))
	dot := new(big.Rat).Add(new(big.Rat).Mul(m[0], m[2]), new(big.Rat).Mul(m[1], m[3]))
	return h2, v2, h2.Cmp(v2) == 0 && dot.Sign() == 0 && h2.Sign() != 0
}

func (r *refRun) td(tx, ty *big.Rat, ev string) {
	r.cur.tlm = r.mmul(mat{ri(1), ri(0), ri(0), ri(1), tx, ty}, r.cur.tlm)
	r.cur.tm = r.cur.tlm
	r.cur.known = true
	r.cur.event = ev
}

// advance: Tm = T(tx,0) × Tm.  tx is given twice: iso, the exact value of ISO 32000-1
// 9.4.4, and code, the same number formed in the order of tabula's float operations (the
// exactness guard); they must agree.
func (r *refRun) advance(iso, code *big.Rat) {
	if iso != nil && iso.Cmp(code) != 0 {
		panic(fmt.Sprintf("harness: displacement %s (ISO) vs %s (order of the code)", iso, code))
	}
	tm := r.cur.tm
	tm[4] = r.add(tm[4], r.mul(code, tm[0]))
	tm[5] = r.add(tm[5], r.mul(code, tm[1]))
	r.cur.tm = tm
}

func (r *refRun) quo(a *big.Rat, d int64) *big.Rat { return r.chk(new(big.Rat).Quo(a, ri(d))) }

// afterShow: what showing string sid does to Tm.
func (r *refRun) afterShow(sid int) {
	if !r.withAdv {
		r.cur.known = false
		return
	}
	inf := r.info(sid)
	if r.fontAt == nil {
		r.fontAt = map[int]bool{}
	}
	r.fontAt[sid] = r.cur.font
	hs := r.quo(r.cur.th, 100)
	var W int64
	for _, g := range inf.glyphs {
		W += g.w
	}
	var iso *big.Rat
	if r.cur.font {
		iso = new(big.Rat)
		for _, g := range inf.glyphs {
			t := new(big.Rat).Mul(rf(g.w, 1000), r.cur.fs)
			t.Add(t, r.cur.tc)
			if g.space {
				t.Add(t, r.cur.tw)
			}
			iso.Add(iso, t.Mul(t, new(big.Rat).Quo(r.cur.th, ri(100))))
		}
	} else {
		// no font selected: tabula estimates len(decodedText)·fontSize·0.5; nothing to demand
		W = 500 * inf.decLen
		r.cur.known = false
	}
	a := r.mul(r.quo(r.mul(ri(W), r.cur.fs), 1000), hs)
	b := r.mul(r.mul(ri(inf.sp), r.cur.tw), hs)
	c := r.mul(r.mul(ri(inf.n), r.cur.tc), hs)
	r.advance(iso, r.add(r.add(a, b), c))
	r.cur.event = "advance-origin"
}

// tjNumber: a number of a TJ array.
func (r *refRun) tjNumber(v *big.Rat) {
	r.cur.afterTJNum = true
	if !r.withAdv {
		r.cur.known = false
		return
	}
	hs := r.quo(r.cur.th, 100)
	iso := new(big.Rat).Mul(new(big.Rat).Neg(new(big.Rat).Quo(v, ri(1000))), r.cur.fs)
	iso.Mul(iso, new(big.Rat).Quo(r.cur.th, ri(100)))
	code := r.quo(r.mul(r.mul(new(big.Rat).Neg(v), r.cur.fs), hs), 1000)
	r.advance(iso, code)
	r.cur.event = "tj-array-origin"
}

// lineEvent: the oracle key of the next show after an operator that moves relative to the
// text line matrix.
func (r *refRun) lineEvent(ev string) string {
	if r.cur.afterTJNum {
		return "tj-keeps-line-matrix"
	}
	return ev
}

func (r *refRun) show() {
	sh := rshow{known: r.cur.known && r.cur.rise.Sign() == 0, event: r.cur.event, tm: mstr(r.cur.tm), ctm: mstr(r.cur.ctm)}
	if r.cur.rise.Sign() == 0 {
		full := r.mmul(r.cur.tm, r.cur.ctm)
		sh.x, sh.y = full[4], full[5]
	} else {
		// reported by GetTextPosition: (Tm.e, Tm.f + rise) through the CTM; no oracle
		sh.x, sh.y = r.apply(r.cur.ctm, r.cur.tm[4], r.add(r.cur.tm[5], r.cur.rise))
	}
	th2, tv2, tsim := r.scale2(r.cur.tm)
	_, cv2, csim := r.scale2(r.cur.ctm)
	sh.similar = tsim && csim
	// what a size "reflecting the combined scaling" is for similarities: fs·kT·kC.
	// For other matrices the larger of the two text scale factors is what is tracked for
	// the exactness of the compared value only (no oracle demand).
	kt := tv2
	if th2.Cmp(tv2) > 0 {
		kt = th2
	}
	kc := cv2
	if kc.Sign() == 0 {
		kc = ri(1)
	}
	sh.sizeExact = isSquare(kt) && isSquare(kc)
	sh.size2 = r.mul(r.mul(r.mul(r.cur.fs, r.cur.fs), kt), kc)
	r.shows = append(r.shows, sh)
}

func (r *refRun) run(p []op, inForm bool) {
	for _, o := range p {
		if r.err {
			return
		}
		switch o.K {
		case "q":
			r.stack = append(r.stack, r.cur)
		case "Q":
			if len(r.stack) == 0 {
				if !inForm {
					r.err = true
				}
				// inside a form's content an unmatched Q is outside ISO 32000; such
				// programs are generated for the model comparison only
				continue
			}
			r.cur = r.stack[len(r.stack)-1]
			r.stack = r.stack[:len(r.stack)-1]
			r.cur.event = "qQ-restore"
		case "cm":
			r.cur.ctm = r.mmul(mat{o.N[0], o.N[1], o.N[2], o.N[3], o.N[4], o.N[5]}, r.cur.ctm)
			r.cur.event = "origin-cm"
		case "BT":
			r.cur.tm, r.cur.tlm, r.cur.known, r.cur.event = ident(), ident(), true, "origin-bt"
			r.cur.afterTJNum = false
		case "Tm":
			m := mat{o.N[0], o.N[1], o.N[2], o.N[3], o.N[4], o.N[5]}
			r.cur.tm, r.cur.tlm, r.cur.known, r.cur.event = m, m, true, "origin-tm"
			r.cur.afterTJNum = false
		case "Td":
			r.td(o.N[0], o.N[1], r.lineEvent("origin-td"))
			r.cur.afterTJNum = false
		case "TD":
			r.cur.tl = new(big.Rat).Neg(o.N[1])
			r.td(o.N[0], o.N[1], r.lineEvent("origin-td"))
			r.cur.afterTJNum = false
		case "T*":
			r.td(ri(0), new(big.Rat).Neg(r.cur.tl), r.lineEvent("origin-leading"))
			r.cur.afterTJNum = false
		case "TL":
			r.cur.tl = o.N[0]
		case "Tf":
			r.cur.fs = o.N[0]
			r.cur.font = true
		case "Tc":
			r.cur.tc = o.N[0]
		case "Tw":
			r.cur.tw = o.N[0]
		case "Tz":
			r.cur.th = o.N[0]
		case "Ts":
			r.cur.rise = o.N[0]
		case "Tj":
			r.show()
			r.afterShow(o.Sid)
		case "TJ":
			for _, it := range o.Items {
				if it.Num == nil {
					r.show()
					r.afterShow(it.Sid)
					if r.withAdv {
						r.cur.event = "tj-array-origin"
					}
				} else {
					r.tjNumber(it.Num)
				}
			}
		case "'", "\"":
			if o.K == "\"" {
				r.cur.tw, r.cur.tc = o.N[0], o.N[1]
			}
			r.td(ri(0), new(big.Rat).Neg(r.cur.tl), r.lineEvent("origin-leading"))
			r.cur.afterTJNum = false
			r.show()
			r.afterShow(o.Sid)
		case "Do":
			if r.depth >= 10 {
				continue // tabula's nesting limit; reached only by the recursive-form case
			}
			r.stack = append(r.stack, r.cur)
			r.depth++
			if o.Form.M != nil {
				r.cur.ctm = r.mmul(*o.Form.M, r.cur.ctm)
			}
			r.cur.event = "xobject-matrix"
			r.run(o.Form.Body, true)
			r.depth--
			if len(r.stack) > 0 {
				r.cur = r.stack[len(r.stack)-1]
				r.stack = r.stack[:len(r.stack)-1]
				r.cur.event = "qQ-restore"
			}
		case "L":
			x0, y0 := r.apply(r.cur.ctm, o.N[0], o.N[1])
			x1, y1 := r.apply(r.cur.ctm, o.N[2], o.N[3])
			r.segs = append(r.segs, [4]*big.Rat{x0, y0, x1, y1})
		}
	}
}

func newRef() *refRun {
	r := &refRun{exact: true}
	r.cur = rframe{ctm: ident(), tm: ident(), tlm: ident(), tl: ri(0), fs: ri(12), tc: ri(0), tw: ri(0), th: ri(100), rise: ri(0),
		known: true, event: "origin-initial"}
	return r
}

func runRef(p []op) *refRun {
	r := newRef()
	r.run(p, false)
	return r
}

// runRefAdv: the reference with glyph advances.
func runRefAdv(p []op, info func(sid int) strInfo) *refRun {
	r := newRef()
	r.withAdv, r.info = true, info
	r.run(p, false)
	return r
}
