package c08

import (
	"fmt"
	"math/big"
)

// Reference of the ISO 32000-1 semantics of the operator set (8.3.4, 8.4.2, 9.4.2,
// 9.4.3, 8.10.1), over exact rationals.  Written from the specification:
//
//	cm:  CTM' = M × CTM                       q/Q: push / pop the whole state
//	BT:  Tm = Tlm = I                         Tm:  Tm = Tlm = M
//	Td:  Tlm' = T(tx,ty) × Tlm, Tm' = Tlm'    TD:  TL = -ty, then Td
//	T*:  0 -TL Td      ':  T* then show       ":  Tw, Tc, then '
//	Do:  q, CTM' = Matrix × CTM, content, Q
//	a string is shown at (0,0) × Tm × CTM; afterwards Tm has moved by the glyph advance,
//	which this reference does not know: `known` is cleared until Tm is assigned again.
//
// It doubles as the exactness guard of DESIGN 3.3: every product and partial sum that the
// float64 evaluation forms is checked to be a dyadic rational with < 2^52 numerator.

type rframe struct {
	ctm, tm, tlm mat
	tl, fs       *big.Rat
	known        bool
	event        string // last geometry event, names the oracle key of the next show
}

type rshow struct {
	known     bool
	x, y      *big.Rat
	similar   bool     // Tm and CTM are non-degenerate similarities
	size2     *big.Rat // fs²·|det Tm|·|det CTM| (when similar) / fs²·kT·kC
	sizeExact bool     // both scale factors are squares of rationals: FontSize is exact
	event     string
	tm, ctm   string
}

type refRun struct {
	cur   rframe
	stack []rframe
	shows []rshow
	segs  [][4]*big.Rat
	err   bool
	exact bool
	depth int
}

var lim = new(big.Int).Lsh(big.NewInt(1), 52)

func (r *refRun) chk(x *big.Rat) *big.Rat {
	d := x.Denom()
	if new(big.Int).And(d, new(big.Int).Sub(d, big.NewInt(1))).Sign() != 0 || d.BitLen() > 30 {
		r.exact = false
	}
	if new(big.Int).Abs(x.Num()).Cmp(lim) >= 0 {
		r.exact = false
	}
	return x
}

func (r *refRun) mul(a, b *big.Rat) *big.Rat { return r.chk(new(big.Rat).Mul(a, b)) }
func (r *refRun) add(a, b *big.Rat) *big.Rat { return r.chk(new(big.Rat).Add(a, b)) }

func ident() mat { return mi(1, 0, 0, 1, 0, 0) }

// mmul is the 3×3 product a × b of two affine matrices in the row-vector convention.
func (r *refRun) mmul(a, b mat) mat {
	return mat{
		r.add(r.mul(a[0], b[0]), r.mul(a[1], b[2])),
		r.add(r.mul(a[0], b[1]), r.mul(a[1], b[3])),
		r.add(r.mul(a[2], b[0]), r.mul(a[3], b[2])),
		r.add(r.mul(a[2], b[1]), r.mul(a[3], b[3])),
		r.add(r.add(r.mul(a[4], b[0]), r.mul(a[5], b[2])), b[4]),
		r.add(r.add(r.mul(a[4], b[1]), r.mul(a[5], b[3])), b[5]),
	}
}

func (r *refRun) apply(m mat, x, y *big.Rat) (*big.Rat, *big.Rat) {
	return r.add(r.add(r.mul(m[0], x), r.mul(m[2], y)), m[4]),
		r.add(r.add(r.mul(m[1], x), r.mul(m[3], y)), m[5])
}

func mstr(m mat) string {
	return fmt.Sprintf("[%s %s %s %s %s %s]", pnum(m[0]), pnum(m[1]), pnum(m[2]), pnum(m[3]), pnum(m[4]), pnum(m[5]))
}

func isSquare(x *big.Rat) bool {
	if x.Sign() < 0 {
		return false
	}
	n, d := new(big.Int).Sqrt(x.Num()), new(big.Int).Sqrt(x.Denom())
	return new(big.Int).Mul(n, n).Cmp(x.Num()) == 0 && new(big.Int).Mul(d, d).Cmp(x.Denom()) == 0
}

// similarity: rows of the linear part orthogonal and of equal non-zero length k²;
// then |det| = k².
func (r *refRun) scale2(m mat) (h2, v2 *big.Rat, similar bool) {
	h2 = r.add(r.mul(m[0], m[0]), r.mul(m[1], m[1]))
	v2 = r.add(r.mul(m[2], m[2]), r.mul(m[3], m[3]))
	dot := new(big.Rat).Add(new(big.Rat).Mul(m[0], m[2]), new(big.Rat).Mul(m[1], m[3]))
	return h2, v2, h2.Cmp(v2) == 0 && dot.Sign() == 0 && h2.Sign() != 0
}

func (r *refRun) td(tx, ty *big.Rat, ev string) {
	r.cur.tlm = r.mmul(mat{ri(1), ri(0), ri(0), ri(1), tx, ty}, r.cur.tlm)
	r.cur.tm = r.cur.tlm
	r.cur.known = true
	r.cur.event = ev
}

func (r *refRun) show() {
	sh := rshow{known: r.cur.known, event: r.cur.event, tm: mstr(r.cur.tm), ctm: mstr(r.cur.ctm)}
	full := r.mmul(r.cur.tm, r.cur.ctm)
	sh.x, sh.y = full[4], full[5]
	th2, tv2, tsim := r.scale2(r.cur.tm)
	_, cv2, csim := r.scale2(r.cur.ctm)
	sh.similar = tsim && csim
	// what a size "reflecting the combined scaling" is for similarities: fs·kT·kC.
	// For other matrices the larger of the two text scale factors is what is tracked for
	// the exactness of the compared value only (no oracle demand).
	kt := tv2
	if th2.Cmp(tv2) > 0 {
		kt = th2
	}
	kc := cv2
	if kc.Sign() == 0 {
		kc = ri(1)
	}
	sh.sizeExact = isSquare(kt) && isSquare(kc)
	sh.size2 = r.mul(r.mul(r.mul(r.cur.fs, r.cur.fs), kt), kc)
	r.shows = append(r.shows, sh)
	r.cur.known = false
}

func (r *refRun) run(p []op, inForm bool) {
	for _, o := range p {
		if r.err {
			return
		}
		switch o.K {
		case "q":
			r.stack = append(r.stack, r.cur)
		case "Q":
			if len(r.stack) == 0 {
				if !inForm {
					r.err = true
				}
				// inside a form's content an unmatched Q is outside ISO 32000; such
				// programs are generated for the model comparison only
				continue
			}
			r.cur = r.stack[len(r.stack)-1]
			r.stack = r.stack[:len(r.stack)-1]
			r.cur.event = "qQ-restore"
		case "cm":
			r.cur.ctm = r.mmul(mat{o.N[0], o.N[1], o.N[2], o.N[3], o.N[4], o.N[5]}, r.cur.ctm)
			r.cur.event = "origin-cm"
		case "BT":
			r.cur.tm, r.cur.tlm, r.cur.known, r.cur.event = ident(), ident(), true, "origin-bt"
		case "Tm":
			m := mat{o.N[0], o.N[1], o.N[2], o.N[3], o.N[4], o.N[5]}
			r.cur.tm, r.cur.tlm, r.cur.known, r.cur.event = m, m, true, "origin-tm"
		case "Td":
			r.td(o.N[0], o.N[1], "origin-td")
		case "TD":
			r.cur.tl = new(big.Rat).Neg(o.N[1])
			r.td(o.N[0], o.N[1], "origin-td")
		case "T*":
			r.td(ri(0), new(big.Rat).Neg(r.cur.tl), "origin-leading")
		case "TL":
			r.cur.tl = o.N[0]
		case "Tf":
			r.cur.fs = o.N[0]
		case "Tj":
			r.show()
		case "'", "\"":
			r.td(ri(0), new(big.Rat).Neg(r.cur.tl), "origin-leading")
			r.show()
		case "Do":
			if r.depth >= 10 {
				continue // tabula's nesting limit; reached only by the recursive-form case
			}
			r.stack = append(r.stack, r.cur)
			r.depth++
			if o.Form.M != nil {
				r.cur.ctm = r.mmul(*o.Form.M, r.cur.ctm)
			}
			r.cur.event = "xobject-matrix"
			r.run(o.Form.Body, true)
			r.depth--
			if len(r.stack) > 0 {
				r.cur = r.stack[len(r.stack)-1]
				r.stack = r.stack[:len(r.stack)-1]
				r.cur.event = "qQ-restore"
			}
		case "L":
			x0, y0 := r.apply(r.cur.ctm, o.N[0], o.N[1])
			x1, y1 := r.apply(r.cur.ctm, o.N[2], o.N[3])
			r.segs = append(r.segs, [4]*big.Rat{x0, y0, x1, y1})
		}
	}
}

func runRef(p []op) *refRun {
	r := &refRun{exact: true}
	r.cur = rframe{ctm: ident(), tm: ident(), tlm: ident(), tl: ri(0), fs: ri(12), known: true, event: "origin-initial"}
	r.run(p, false)
	return r
}
