package c08

import (
	"fmt"
	"sort"
	"strings"

	"github.com/tsawler/tabula/core"
	"github.com/tsawler/tabula/text"

	"verifharness/hx"
)

// Scoped resource layouts.
//
// ISO 32000-1 7.8.3 / 8.10.1: the operand of Do is a name in the /XObject subdictionary of
// the *current* resource dictionary; while a form's content stream is being interpreted
// the current resource dictionary is the form's own /Resources.  Resource names are
// therefore local to a scope: the page and every form may bind the same name to different
// XObjects, and producers that assemble pages from imported parts routinely do (every
// form calls its children /Fm0, /Fm1 …).
//
// The flat layout of render() gives every form of a program a document-wide unique name
// in the page's dictionary.  The layouts below write the SAME logical program (same
// tree of forms, same matrices, same content) with one resource dictionary per scope:
//
//	local-index  every scope numbers the distinct forms it invokes Fm0, Fm1, … in order of
//	             first use: sibling forms bind the same names to different children, and a
//	             form re-binds names of the page (and of its parent)
//	local-pool   names from a small pool, rotated by scope, so that one name means the 1st
//	             child in one scope and the 2nd in another; /Resources and /XObject are
//	             indirect objects; leaf forms carry an empty /Resources
//	own-unique   document-wide unique names, but every form lists its children in its own
//	             /Resources (no name is bound twice; resources are switched and restored)
//
// In all of them form streams are indirect objects reached through the resolver, and a
// form that occurs several times in the program (same /Matrix, same content: the
// generators invoke one form repeatedly) is ONE object, whatever names lead to it.
// Everything is a deterministic function of the program, so a case replays from its
// token line.

var scopedLayouts = []string{"local-index", "local-pool", "own-unique"}

var namePool = []string{"Fm0", "Fm1", "Inner", "X", "Im0", "F1"}

type scopedDoc struct {
	layout string
	objs   map[int]core.Object
	byKey  map[string]int // form (as tokens) → object number of its stream
	next   int
	scopes int
	page   []byte
	res    core.Dict
}

func formKey(f *form) string { return strings.Join(tokens([]op{{K: "Do", Form: f}}), " ") }

func (s *scopedDoc) alloc() int {
	s.next++
	return s.next
}

func (s *scopedDoc) localName(ord, j, objnum int) string {
	switch s.layout {
	case "local-pool":
		if j < len(namePool) {
			return namePool[(j+ord)%len(namePool)]
		}
		return fmt.Sprintf("Fm%d", j)
	case "own-unique":
		return fmt.Sprintf("Fm%d", objnum)
	}
	return fmt.Sprintf("Fm%d", j)
}

// scope renders one content stream and the /XObject dictionary of its scope.
func (s *scopedDoc) scope(p []op) ([]byte, core.Dict) {
	ord := s.scopes
	s.scopes++
	names := map[string]string{}
	xo := core.Dict{}
	data := renderWith(p, func(f *form) string {
		key := formKey(f)
		if n, ok := names[key]; ok {
			return n
		}
		obj := s.formObj(f, key)
		n := s.localName(ord, len(names), obj)
		names[key] = n
		xo[n] = core.IndirectRef{Number: obj}
		return n
	})
	return data, xo
}

// resources wraps the /XObject dictionary of a scope; nil when the layout gives the scope
// no /Resources entry.
func (s *scopedDoc) resources(xo core.Dict, leafToo bool) core.Object {
	if len(xo) == 0 {
		if leafToo && s.layout == "local-pool" {
			return core.Dict{}
		}
		return nil
	}
	if s.layout == "local-pool" {
		x := s.alloc()
		s.objs[x] = xo
		r := s.alloc()
		s.objs[r] = core.Dict{"XObject": core.IndirectRef{Number: x}}
		return core.IndirectRef{Number: r}
	}
	return core.Dict{"XObject": xo}
}

func (s *scopedDoc) formObj(f *form, key string) int {
	if n, ok := s.byKey[key]; ok {
		return n
	}
	n := s.alloc()
	s.byKey[key] = n
	big := core.Int(1 << 24)
	d := core.Dict{"Type": core.Name("XObject"), "Subtype": core.Name("Form"),
		"BBox": core.Array{-big, -big, big, big}}
	if f.M != nil {
		d["Matrix"] = matrixArray(f.M)
	}
	data, xo := s.scope(f.Body)
	if len(data) == 0 {
		data = []byte(" ")
	}
	if res := s.resources(xo, true); res != nil {
		d["Resources"] = res
	}
	s.objs[n] = &core.Stream{Dict: d, Data: data}
	return n
}

func buildScoped(p []op, layout string) *scopedDoc {
	s := &scopedDoc{layout: layout, objs: map[int]core.Object{}, byKey: map[string]int{}}
	data, xo := s.scope(p)
	s.page = data
	s.res = core.Dict{}
	if len(xo) > 0 {
		// the page's /Resources is a direct dictionary here (SetResourceContext takes a
		// core.Dict); its /XObject entry follows the layout
		if s.layout == "local-pool" {
			x := s.alloc()
			s.objs[x] = xo
			s.res["XObject"] = core.IndirectRef{Number: x}
		} else {
			s.res["XObject"] = xo
		}
	}
	return s
}

func (s *scopedDoc) resolve(r core.IndirectRef) (core.Object, error) {
	if o, ok := s.objs[r.Number]; ok {
		return o, nil
	}
	return nil, fmt.Errorf("no object %d", r.Number)
}

// dump is the document in PDF syntax, for the failing-input record.
func (s *scopedDoc) dump() string {
	var sb strings.Builder
	sb.WriteString("page /Resources " + dumpObj(s.res) + "\npage content:\n" + string(s.page))
	nums := make([]int, 0, len(s.objs))
	for n := range s.objs {
		nums = append(nums, n)
	}
	sort.Ints(nums)
	for _, n := range nums {
		sb.WriteString(fmt.Sprintf("%d 0 obj ", n))
		if st, ok := s.objs[n].(*core.Stream); ok {
			sb.WriteString(dumpObj(st.Dict) + " stream\n" + string(st.Data) + "endstream\n")
		} else {
			sb.WriteString(dumpObj(s.objs[n]) + "\n")
		}
	}
	return sb.String()
}

func dumpObj(o core.Object) string {
	switch v := o.(type) {
	case core.Dict:
		var parts []string
		for _, k := range hx.SortedKeys(map[string]core.Object(v)) {
			parts = append(parts, "/"+k+" "+dumpObj(v[k]))
		}
		return "<< " + strings.Join(parts, " ") + " >>"
	case core.Array:
		parts := make([]string, len(v))
		for i, x := range v {
			parts[i] = dumpObj(x)
		}
		return "[" + strings.Join(parts, " ") + "]"
	case core.IndirectRef:
		return fmt.Sprintf("%d 0 R", v.Number)
	case core.Name:
		return "/" + string(v)
	case core.Int:
		return fmt.Sprintf("%d", int64(v))
	case core.Real:
		return ff(float64(v))
	}
	return fmt.Sprintf("%v", o)
}

// runTextScoped: the same program through the same public entry points, resources laid
// out per scope.
func runTextScoped(p []op, s *scopedDoc) implResult {
	var res implResult
	raw := repeatsShow(p)
	res.panicked = hx.Safe(func() {
		e := text.NewExtractor()
		e.SetResourceContext(s.res, s.resolve)
		flushParser()
		res.frags, res.err = e.ExtractFromBytes(s.page)
		observe(e, &res, raw)
		res.bytes, res.depth, res.saved = text.VerifXObjectState(e)
	})
	return res
}

// hasFormDeep / countForms: forms anywhere in the tree.
func countForms(p []op) int {
	n := 0
	for _, o := range p {
		if o.K == "Do" {
			n += 1 + countForms(o.Form.Body)
		}
	}
	return n
}

// reboundNames reports whether the layout binds one resource name to two different
// forms in two scopes of the document (the situation the scoped layouts exist for).
func (s *scopedDoc) reboundNames() bool {
	seen := map[string]int{}
	clash := false
	visit := func(xo core.Dict) {
		for n, v := range xo {
			if r, ok := v.(core.IndirectRef); ok {
				if prev, ok := seen[n]; ok && prev != r.Number {
					clash = true
				}
				seen[n] = r.Number
			}
		}
	}
	var xoOf func(res core.Object) core.Dict
	xoOf = func(res core.Object) core.Dict {
		for {
			r, ok := res.(core.IndirectRef)
			if !ok {
				break
			}
			res = s.objs[r.Number]
		}
		d, ok := res.(core.Dict)
		if !ok {
			return nil
		}
		if x, ok := d["XObject"]; ok {
			for {
				r, ok := x.(core.IndirectRef)
				if !ok {
					break
				}
				x = s.objs[r.Number]
			}
			if xd, ok := x.(core.Dict); ok {
				return xd
			}
		}
		return nil
	}
	visit(xoOf(s.res))
	for _, o := range s.objs {
		if st, ok := o.(*core.Stream); ok {
			if r, ok := st.Dict["Resources"]; ok {
				visit(xoOf(r))
			}
		}
	}
	return clash
}
