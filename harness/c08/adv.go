package c08

// Op c08.tx: the origin of EVERY fragment, with the displacement of the text matrix by
// shown strings and TJ numbers (Tc, Tw, Tz, Tf), and the text rise (Ts).
//
// The strings of these programs have ids from 1000 on (showString: texts of different
// lengths with 0 to 4 spaces); every string is shown once, so an id also identifies the
// occurrence.  What the font package answers for a string — the sum of the glyph widths of
// the decoded text, or, when no font is selected, tabula's estimate of 500 per character —
// goes to the model as its `StrInfo` (I: table of the op line); the model computes the
// displacement from it (Model/TextAdv.lean).  The reference (ref.go, withAdv) follows
// ISO 32000-1 9.4.4 glyph by glyph with the per-glyph widths of the same font and is the
// oracle: keys C08/advance-origin (a string shown after another string), C08/tj-array-origin
// (a string of a TJ array after the first), C08/tj-keeps-line-matrix (the first show after
// Td, TD, T*, ' or " that follows a TJ number) beside the keys of c08.gs.
//
// Exactness: font sizes are multiples of 125, Tz multiples of 25, Tc, Tw, Ts and TJ numbers
// multiples of 1/4, matrices as in c08.gs; the reference re-forms every displacement in the
// order of tabula's float operations and drops the case when an intermediate is not a
// dyadic rational below 2^52.

import (
	"fmt"
	"math"
	"math/big"
	"sort"
	"strings"

	"github.com/tsawler/tabula/core"
	"github.com/tsawler/tabula/font"

	"verifharness/hx"
)

// helv: the font text.Extractor registers for a resource name it does not know.
var helv = font.NewFont("/F1", "Helvetica", "Type1")

func advInfo(sid int) strInfo {
	data := []byte(showString(sid))
	dec := helv.DecodeString(data)
	inf := strInfo{n: int64(len(data)), decLen: int64(len(dec))}
	for _, b := range data {
		if b == ' ' {
			inf.sp++
		}
	}
	for _, rn := range dec {
		w := helv.GetWidth(rn)
		if w != math.Trunc(w) {
			panic(fmt.Sprintf("harness: width %v of %q is not an integer", w, rn))
		}
		inf.glyphs = append(inf.glyphs, glyph{w: int64(w), space: rn == ' '})
	}
	return inf
}

// infoLine: the I: table for the model, from what the reference saw at each show.
func infoLine(r *refRun) string {
	if len(r.fontAt) == 0 {
		return "I:-"
	}
	var sids []int
	for sid := range r.fontAt {
		sids = append(sids, sid)
	}
	sort.Ints(sids)
	parts := make([]string, len(sids))
	for i, sid := range sids {
		inf := advInfo(sid)
		var w int64
		if r.fontAt[sid] {
			// f.GetStringWidth(decodedText): also what the font package adds up
			if got := helv.GetStringWidth(helv.DecodeString([]byte(showString(sid)))); got != math.Trunc(got) {
				panic("harness: string width is not an integer")
			} else {
				w = int64(got)
			}
		} else {
			w = 500 * inf.decLen
		}
		parts[i] = fmt.Sprintf("%d=%d,%d,%d", sid, w, inf.n, inf.sp)
	}
	return "I:" + strings.Join(parts, ";")
}

func implLineAll(res implResult, r *refRun) string {
	if res.panicked != "" {
		return "panic"
	}
	if res.err != nil {
		return "err"
	}
	if len(res.frags) != len(r.shows) {
		return fmt.Sprintf("count:%d", len(res.frags))
	}
	if len(res.frags) == 0 {
		return "-"
	}
	parts := make([]string, len(res.frags))
	for i, f := range res.frags {
		sz := "~"
		if r.shows[i].sizeExact {
			sz = ff(f.FontSize * f.FontSize)
		}
		parts[i] = ff(f.X) + "," + ff(f.Y) + "," + sz
	}
	return strings.Join(parts, ";")
}

func checkAdv(c *hx.Ctx, family string, p []op) {
	toks := strings.Join(tokens(p), " ")
	r := runRefAdv(p, advInfo)
	if !r.exact {
		c.Count("adv-dropped-inexact")
		return
	}
	res := runText(p)
	k := kase{Family: family, Prog: toks, PDF: string(render(p, map[string]*core.Stream{}))}
	c.Count("family:" + family)
	c.Check("C08/panic", res.panicked == "", k, func() string { return res.panicked })
	c.Op("c08.tx "+infoLine(r)+" "+toks, implLineAll(res, r))
	nontrivial := false
	if res.panicked == "" {
		nontrivial = textOracles(c, "C08/", res, r, k)
		if r.err {
			c.Count("result:error")
		}
	}
	for _, o := range p {
		switch o.K {
		case "TJ":
			c.Count("adv-op:TJ")
		case "Ts", "Tc", "Tw", "Tz":
			c.Count("adv-op:" + o.K)
		}
	}
	c.Case("tx "+toks, nontrivial)
}

type advGen struct {
	r      *hx.Rng
	sid    int
	nofont bool // the font size stays 12: TJ numbers are multiples of 125/2 (−v·12/1000 dyadic)
}

func (g *advGen) tjNum() *big.Rat {
	r := g.r
	if g.nofont {
		return rf(int64(125*r.Range(-12, 12)), 2)
	}
	return []*big.Rat{ri(int64(r.Range(-600, 600))), quarter(r, -300, 300)}[r.Intn(2)]
}

func (g *advGen) next() int { g.sid++; return 999 + g.sid }

func quarter(r *hx.Rng, lo, hi int) *big.Rat { return rf(int64(r.Range(4*lo, 4*hi)), 4) }

func (g *advGen) items() []item {
	r := g.r
	var items []item
	n := r.Range(1, 4)
	for i := 0; i < n; i++ {
		if r.Chance(2, 3) {
			items = append(items, item{Num: g.tjNum()})
		}
		if r.Chance(5, 6) {
			items = append(items, item{Sid: g.next()})
		}
	}
	if r.Chance(1, 3) {
		items = append(items, item{Num: g.tjNum()})
	}
	return items
}

func (g *advGen) show() op {
	r := g.r
	switch x := r.Intn(10); {
	case x < 4:
		return op{K: "Tj", Sid: g.next()}
	case x < 8:
		return op{K: "TJ", Items: g.items()}
	case x < 9 || !quoteParses:
		if quoteParses {
			return op{K: "'", Sid: g.next()}
		}
		return op{K: "Tj", Sid: g.next()}
	default:
		return op{K: "\"", N: []*big.Rat{quarter(r, -2, 6), quarter(r, -2, 4)}, Sid: g.next()}
	}
}

var advSizes = []int64{125, 250, 375, 500, 1000}
var advTz = []int64{0, 25, 50, 75, 100, 100, 125, 150, 200}

// genAdv: a text object with several lines; within a line strings follow one another
// (Tj, TJ) with Tc/Tw/Tz/Tf/Ts changes in between.
func genAdv(r *hx.Rng, family string) []op {
	g := &advGen{r: r, nofont: family == "adv-nofont"}
	var p []op
	if r.Chance(1, 2) {
		m := genMatrix(r)
		p = append(p, op{K: "cm", N: m[:]})
	}
	p = append(p, o("BT"))
	font := family != "adv-nofont"
	if font && r.Chance(9, 10) {
		p = append(p, o("Tf", advSizes[r.Intn(len(advSizes))]))
	}
	p = append(p, op{K: "TL", N: []*big.Rat{quarter(r, 0, 30)}})
	switch family {
	case "adv-rotated":
		m := genMatrix(r)
		p = append(p, op{K: "Tm", N: m[:]})
	default:
		if r.Chance(1, 2) {
			k := int64(r.Range(1, 4))
			p = append(p, op{K: "Tm", N: []*big.Rat{ri(k), ri(0), ri(0), ri(k), small(r), small(r)}})
		} else {
			p = append(p, op{K: "Td", N: []*big.Rat{small(r), small(r)}})
		}
	}
	depth := 0
	n := r.Range(3, 14)
	for i := 0; i < n; i++ {
		switch x := r.Intn(100); {
		case x < 45:
			p = append(p, g.show())
		case x < 52:
			p = append(p, op{K: "Tc", N: []*big.Rat{quarter(r, -2, 4)}})
		case x < 59:
			p = append(p, op{K: "Tw", N: []*big.Rat{quarter(r, -2, 8)}})
		case x < 65:
			p = append(p, o("Tz", advTz[r.Intn(len(advTz))]))
		case x < 69:
			if font {
				p = append(p, o("Tf", advSizes[r.Intn(len(advSizes))]))
			}
		case x < 74:
			if family == "adv-rise" || r.Chance(1, 6) {
				p = append(p, op{K: "Ts", N: []*big.Rat{quarter(r, -5, 8)}})
			}
		case x < 80:
			p = append(p, o("T*"))
		case x < 85:
			p = append(p, op{K: "Td", N: []*big.Rat{small(r), small(r)}})
		case x < 88:
			p = append(p, op{K: "TD", N: []*big.Rat{small(r), small(r)}})
		case x < 91:
			m := genMatrix(r)
			p = append(p, op{K: "Tm", N: m[:]})
		case x < 94:
			if depth < 3 {
				p = append(p, o("q"))
				depth++
			}
		case x < 97:
			if depth > 0 {
				p = append(p, o("Q"))
				depth--
			}
		default:
			m := genMatrix(r)
			p = append(p, op{K: "cm", N: m[:]})
		}
	}
	if family == "adv-rise" {
		p = append(p, op{K: "Ts", N: []*big.Rat{quarter(r, -5, 8)}}, g.show(), g.show())
	}
	p = append(p, g.show())
	for ; depth > 0; depth-- {
		p = append(p, o("Q"))
	}
	return append(p, o("ET"))
}

func runAdv(c *hx.Ctx) {
	s := func(id int) op { return op{K: "Tj", Sid: id} }
	// the witnesses of the two repairs (9b7ee04, 6121d81), on exactly representable numbers
	checkAdv(c, "adv-witness", []op{o("BT"), o("Tf", 125), o("Td", 100, 700), o("TL", 14),
		{K: "TJ", Items: []item{{Sid: 1000}, {Num: ri(-250)}, {Sid: 1001}}}, o("T*"), s(1002), o("ET")})
	checkAdv(c, "adv-witness", []op{o("BT"), o("Tf", 125), o("Tm", 0, 1, -1, 0, 100, 100), s(1000), s(1001), o("ET")})
	checkAdv(c, "adv-witness", []op{o("BT"), o("Tf", 125), o("Tm", 2, 0, 0, 2, 100, 100),
		{K: "TJ", Items: []item{{Sid: 1001}, {Num: ri(-1000)}, {Sid: 1002}}}, {K: "Tc", N: []*big.Rat{ri(1)}}, s(1003), s(1004), o("ET")})
	checkAdv(c, "adv-witness", []op{o("BT"), o("Tf", 250), o("Tm", 3, 0, 0, 3, 10, 10), {K: "Ts", N: []*big.Rat{rf(5, 2)}}, s(1000),
		{K: "Ts", N: []*big.Rat{ri(0)}}, s(1001), o("ET")})
	checkAdv(c, "adv-witness", []op{o("BT"), o("Td", 5, 5), s(1001), s(1002), o("Tf", 500), s(1003), s(1004), o("ET")})
	checkAdv(c, "adv-witness", []op{o("BT"), o("Tf", 125), o("Tz", 0), o("Tc", 3), s(1001), {K: "TJ", Items: []item{{Num: ri(500)}, {Sid: 1002}}}, o("ET")})
	fams := []string{"adv-line", "adv-rotated", "adv-nofont", "adv-rise"}
	n := c.N(3000, 60000)
	for i := 0; i < n; i++ {
		fam := fams[i%len(fams)]
		checkAdv(c, fam, genAdv(c.Rng.Fork(uint64(5<<32+i)), fam))
	}
}
