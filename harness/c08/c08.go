// Package c08: fragment positions follow the PDF imaging model.
//
// Programs over {q,Q,cm,BT,ET,Tf,Tm,Td,TD,T*,TL,Tc,Tw,Tz,Tj,',"} plus Form XObjects
// with /Matrix are generated as trees, rendered (a) to content-stream bytes for
// text.NewExtractor().ExtractFromBytes and graphicsstate.NewGraphicsExtractor(), (b) to
// the token line of the Lean driver (op c08.gs / c08.gfx).  A small reference of the
// ISO 32000 semantics over big.Rat (ref.go) is the statement-level oracle and the
// exactness guard; it shares nothing with the Lean model.
package c08

import (
	"fmt"
	"math"
	"math/big"
	"strconv"
	"strings"

	"github.com/tsawler/tabula/contentstream"
	"github.com/tsawler/tabula/core"
	"github.com/tsawler/tabula/graphicsstate"
	"github.com/tsawler/tabula/text"

	"verifharness/hx"
)

func init() { hx.Register("C08", Run, Replay) }

// ---- programs ---------------------------------------------------------------------

type mat [6]*big.Rat

type op struct {
	K     string     // q Q cm BT ET Tf Tm Td TD T* TL Tc Tw Tz Ts Tj TJ ' " Do L
	N     []*big.Rat // numeric operands
	Sid   int        // string id of a show
	Form  *form      // Do
	Items []item     // TJ
}

// item: one element of a TJ array — a string (Num == nil) or a number.
type item struct {
	Sid int
	Num *big.Rat
}

func (it item) token() string {
	if it.Num == nil {
		return fmt.Sprintf("s%d", it.Sid)
	}
	return "n" + wnum(it.Num)
}

type form struct {
	M    *mat // nil: no /Matrix
	Body []op
}

func ri(n int64) *big.Rat    { return big.NewRat(n, 1) }
func rf(n, d int64) *big.Rat { return big.NewRat(n, d) }

func mk(a, b, c, d, e, f *big.Rat) mat { return mat{a, b, c, d, e, f} }
func mi(a, b, c, d, e, f int64) mat    { return mk(ri(a), ri(b), ri(c), ri(d), ri(e), ri(f)) }

func isShow(k string) bool { return k == "Tj" || k == "'" || k == "\"" }

// wire number: integer or n/d
func wnum(r *big.Rat) string {
	if r.IsInt() {
		return r.Num().String()
	}
	return r.Num().String() + "/" + r.Denom().String()
}

func wnums(rs []*big.Rat) string {
	s := make([]string, len(rs))
	for i, r := range rs {
		s[i] = wnum(r)
	}
	return strings.Join(s, ",")
}

// tokens renders the program for the Lean driver.
func tokens(p []op) []string {
	var out []string
	for _, o := range p {
		switch o.K {
		case "q", "Q", "BT", "ET", "T*":
			out = append(out, o.K)
		case "Tj", "'":
			out = append(out, fmt.Sprintf("%s:%d", o.K, o.Sid))
		case "\"":
			out = append(out, fmt.Sprintf("\":%s,%d", wnums(o.N), o.Sid))
		case "TJ":
			if len(o.Items) == 0 {
				out = append(out, "TJ:e")
				break
			}
			parts := make([]string, len(o.Items))
			for i, it := range o.Items {
				parts[i] = it.token()
			}
			out = append(out, "TJ:"+strings.Join(parts, ","))
		case "Do":
			if o.Form.M != nil {
				out = append(out, "Do:"+wnums(o.Form.M[:])+"[")
			} else {
				out = append(out, "Do[")
			}
			out = append(out, tokens(o.Form.Body)...)
			out = append(out, "]")
		default:
			out = append(out, o.K+":"+wnums(o.N))
		}
	}
	return out
}

// parseTokens is the inverse of tokens (used by Replay).
func parseTokens(ts []string) ([]op, []string, error) {
	var out []op
	for len(ts) > 0 {
		t := ts[0]
		ts = ts[1:]
		if t == "]" {
			return out, ts, nil
		}
		if strings.HasPrefix(t, "Do") && strings.HasSuffix(t, "[") {
			f := &form{}
			if t != "Do[" {
				ns, err := parseNums(t[3 : len(t)-1])
				if err != nil || len(ns) != 6 {
					return nil, nil, fmt.Errorf("bad token %q", t)
				}
				m := mat{ns[0], ns[1], ns[2], ns[3], ns[4], ns[5]}
				f.M = &m
			}
			body, rest, err := parseTokens(ts)
			if err != nil {
				return nil, nil, err
			}
			f.Body, ts = body, rest
			out = append(out, op{K: "Do", Form: f})
			continue
		}
		k, v, has := strings.Cut(t, ":")
		o := op{K: k}
		if k == "TJ" {
			if v != "e" && v != "" {
				for _, f := range strings.Split(v, ",") {
					if strings.HasPrefix(f, "s") {
						n, err := strconv.Atoi(f[1:])
						if err != nil {
							return nil, nil, fmt.Errorf("bad token %q", t)
						}
						o.Items = append(o.Items, item{Sid: n})
					} else if r, ok := new(big.Rat).SetString(strings.TrimPrefix(f, "n")); ok && strings.HasPrefix(f, "n") {
						o.Items = append(o.Items, item{Num: r})
					} else {
						return nil, nil, fmt.Errorf("bad token %q", t)
					}
				}
			}
			out = append(out, o)
			continue
		}
		if has {
			ns, err := parseNums(v)
			if err != nil {
				return nil, nil, fmt.Errorf("bad token %q", t)
			}
			if isShow(k) {
				o.Sid = int(ns[len(ns)-1].Num().Int64())
				ns = ns[:len(ns)-1]
			}
			o.N = ns
		}
		out = append(out, o)
	}
	return out, nil, nil
}

func parseNums(s string) ([]*big.Rat, error) {
	var out []*big.Rat
	for _, f := range strings.Split(s, ",") {
		r, ok := new(big.Rat).SetString(f)
		if !ok {
			return nil, fmt.Errorf("bad number %q", f)
		}
		out = append(out, r)
	}
	return out, nil
}

// exactDec is the exact decimal expansion of a dyadic rational (denominator 2^k needs at
// most k fractional digits). strconv.FormatFloat(x,'f',-1,64) is NOT used for comparison:
// it prints the shortest string that round-trips, which for values needing more than 17
// significant digits is not the exact value.
func exactDec(r *big.Rat) string {
	if r.IsInt() {
		return r.Num().String()
	}
	k := r.Denom().BitLen() - 1
	s := strings.TrimRight(r.FloatString(k), "0")
	return strings.TrimSuffix(s, ".")
}

// pdf number / expected value: exact decimal
func pnum(r *big.Rat) string { return exactDec(r) }

// showString: the text of string id sid.  Ids below 1000 are "s<id> x" (one space); the
// programs of op c08.tx use ids from 1000 on, whose texts differ in length and in the
// number of spaces (0 to 4), so that Tc and Tw act differently on them.
func showString(sid int) string {
	if sid >= 1000 {
		switch sid % 5 {
		case 0:
			return fmt.Sprintf("w%d", sid)
		case 1:
			return fmt.Sprintf("a b%d", sid)
		case 2:
			return fmt.Sprintf(" %d  i ", sid)
		case 3:
			return fmt.Sprintf("Wide MW %d", sid)
		default:
			return fmt.Sprintf("l.i %d i.l", sid)
		}
	}
	return fmt.Sprintf("s%d x", sid)
}

func tjArray(items []item) string {
	var sb strings.Builder
	sb.WriteString("[")
	for i, it := range items {
		if i > 0 {
			sb.WriteString(" ")
		}
		if it.Num == nil {
			sb.WriteString("(" + showString(it.Sid) + ")")
		} else {
			sb.WriteString(pnum(it.Num))
		}
	}
	sb.WriteString("]")
	return sb.String()
}

// matrixArray is the /Matrix entry of a form dictionary (integers and reals mixed, as
// producers write them).
func matrixArray(m *mat) core.Array {
	arr := core.Array{}
	for i, r := range m {
		if r.IsInt() && i%2 == 0 {
			arr = append(arr, core.Int(r.Num().Int64()))
		} else {
			f, _ := r.Float64()
			arr = append(arr, core.Real(f))
		}
	}
	return arr
}

// renderWith writes the content stream an independent PDF producer would write; do
// supplies the resource name under which a form is invoked in the current scope (and
// is where the form itself gets written).
func renderWith(p []op, do func(f *form) string) []byte {
	var sb strings.Builder
	for _, o := range p {
		switch o.K {
		case "q", "Q", "BT", "ET", "T*":
			sb.WriteString(o.K)
		case "Tf":
			sb.WriteString("/F1 " + pnum(o.N[0]) + " Tf")
		case "Tj", "'":
			sb.WriteString("(" + showString(o.Sid) + ") " + o.K)
		case "\"":
			sb.WriteString(pnum(o.N[0]) + " " + pnum(o.N[1]) + " (" + showString(o.Sid) + ") \"")
		case "TJ":
			sb.WriteString(tjArray(o.Items) + " TJ")
		case "Do":
			sb.WriteString("/" + do(o.Form) + " Do")
		case "L":
			sb.WriteString(pnum(o.N[0]) + " " + pnum(o.N[1]) + " m " + pnum(o.N[2]) + " " + pnum(o.N[3]) + " l S")
		default:
			for _, r := range o.N {
				sb.WriteString(pnum(r) + " ")
			}
			sb.WriteString(o.K)
		}
		sb.WriteString("\n")
	}
	return []byte(sb.String())
}

// render is the flat layout: every form of the program gets a document-wide unique name
// in the page's /XObject dictionary (one stream per Do); forms have no /Resources.
func render(p []op, forms map[string]*core.Stream) []byte {
	return renderWith(p, func(f *form) string {
		name := fmt.Sprintf("Fm%d", len(forms))
		d := core.Dict{"Type": core.Name("XObject"), "Subtype": core.Name("Form")}
		if f.M != nil {
			d["Matrix"] = matrixArray(f.M)
		}
		st := &core.Stream{Dict: d}
		forms[name] = st
		st.Data = render(f.Body, forms)
		if len(st.Data) == 0 {
			st.Data = []byte(" ")
		}
		return name
	})
}

func num(r *big.Rat) core.Object {
	if r.IsInt() {
		return core.Int(r.Num().Int64())
	}
	f, _ := r.Float64()
	return core.Real(f)
}

// operations builds the parsed form directly (used while the pinned content-stream parser
// rejects the ' and " operators; forms are referenced by name as in render).
func operations(p []op, forms map[string]*core.Stream) []contentstream.Operation {
	var out []contentstream.Operation
	for _, o := range p {
		var ops []core.Object
		switch o.K {
		case "Tf":
			ops = []core.Object{core.Name("F1"), num(o.N[0])}
		case "Tj", "'":
			ops = []core.Object{core.String(showString(o.Sid))}
		case "\"":
			ops = []core.Object{num(o.N[0]), num(o.N[1]), core.String(showString(o.Sid))}
		case "TJ":
			arr := core.Array{}
			for _, it := range o.Items {
				if it.Num == nil {
					arr = append(arr, core.String(showString(it.Sid)))
				} else {
					arr = append(arr, num(it.Num))
				}
			}
			ops = []core.Object{arr}
		case "Do":
			before := len(forms)
			render([]op{o}, forms)
			ops = []core.Object{core.Name(fmt.Sprintf("Fm%d", before))}
		case "L":
			out = append(out,
				contentstream.Operation{Operator: "m", Operands: []core.Object{num(o.N[0]), num(o.N[1])}},
				contentstream.Operation{Operator: "l", Operands: []core.Object{num(o.N[2]), num(o.N[3])}},
				contentstream.Operation{Operator: "S"})
			continue
		default:
			for _, r := range o.N {
				ops = append(ops, num(r))
			}
		}
		out = append(out, contentstream.Operation{Operator: o.K, Operands: ops})
	}
	return out
}

func hasQuote(p []op) bool {
	for _, o := range p {
		if o.K == "'" || o.K == "\"" {
			return true
		}
		if o.K == "Do" && hasQuote(o.Form.Body) {
			return true
		}
	}
	return false
}

func hasForm(p []op) bool {
	for _, o := range p {
		if o.K == "Do" {
			return true
		}
	}
	return false
}

// ---- adapter ------------------------------------------------------------------------

// flushParser empties the content-stream parser's package-level operand stack, which a
// failed parse leaves dirty (defect B2 of DESIGN section 7, owned by C03).
func flushParser() { contentstream.NewParser([]byte("ET")).Parse() }

// quoteParses: does the content-stream parser accept the ' and " operators? (set by
// detectQuote at the start of Run/Replay; false on the pinned tree, DESIGN §7 B3)
var quoteParses bool

func detectQuote() {
	_, err := contentstream.NewParser([]byte("(a) ' 1 2 (b) \"")).Parse()
	flushParser()
	quoteParses = err == nil
}

type implResult struct {
	frags    []text.TextFragment
	err      error
	panicked string
	viaOps   bool
	raw      bool
	// Form XObject accounting after the call (scoped runs only)
	bytes, depth, saved int
}

// repeatsShow: does the program show one string id more than once (a form invoked
// repeatedly)?  ExtractFromBytes returns the fragments after tabula's documented removal
// of duplicates (same text at the same integer-rounded position, "multiple content
// layers"), which is not what C08 is about; for such programs every show is observed
// through the documented accessor GetFragmentsRaw instead.  Decided from the program the
// harness wrote, never from what tabula returned.
func repeatsShow(p []op) bool {
	seen := map[int]bool{}
	var walk func(p []op) bool
	walk = func(p []op) bool {
		for _, x := range p {
			if isShow(x.K) {
				if seen[x.Sid] {
					return true
				}
				seen[x.Sid] = true
			}
			for _, it := range x.Items {
				if it.Num == nil {
					if seen[it.Sid] {
						return true
					}
					seen[it.Sid] = true
				}
			}
			if x.K == "Do" && walk(x.Form.Body) {
				return true
			}
		}
		return false
	}
	return walk(p)
}

// observe: the fragments of one extraction (see repeatsShow).
func observe(e *text.Extractor, res *implResult, raw bool) {
	if raw && res.err == nil {
		res.raw = true
		res.frags = e.GetFragmentsRaw()
	}
}

func runText(p []op) implResult {
	var res implResult
	raw := repeatsShow(p)
	forms := map[string]*core.Stream{}
	data := render(p, forms)
	res.panicked = hx.Safe(func() {
		e := text.NewExtractor()
		if len(forms) > 0 {
			xo := core.Dict{}
			for k, v := range forms {
				xo[k] = v
			}
			e.SetResourceContext(core.Dict{"XObject": xo}, func(r core.IndirectRef) (core.Object, error) {
				return nil, fmt.Errorf("no indirect objects")
			})
		}
		flushParser()
		if hasQuote(p) && !quoteParses {
			res.viaOps = true
			forms2 := map[string]*core.Stream{}
			res.frags, res.err = e.Extract(operations(p, forms2))
		} else {
			res.frags, res.err = e.ExtractFromBytes(data)
		}
		observe(e, &res, raw)
	})
	return res
}

// ff prints a float64 exactly (every finite float64 is a dyadic rational).
func ff(x float64) string {
	if math.IsInf(x, 0) || math.IsNaN(x) {
		return strconv.FormatFloat(x, 'g', -1, 64)
	}
	r := new(big.Rat).SetFloat64(x)
	return exactDec(r)
}

// implLine is the implementation's canonical reply for c08.gs; which positions and sizes
// are exactly comparable is decided by the reference run (exactness guard).
func implLine(res implResult, r *refRun) string {
	if res.panicked != "" {
		return "panic"
	}
	if res.err != nil {
		return "err"
	}
	if len(res.frags) != len(r.shows) {
		return fmt.Sprintf("count:%d", len(res.frags))
	}
	if len(res.frags) == 0 {
		return "-"
	}
	parts := make([]string, len(res.frags))
	for i, f := range res.frags {
		sh := r.shows[i]
		pos := "~,~"
		if sh.known {
			pos = ff(f.X) + "," + ff(f.Y)
		}
		sz := "~"
		if sh.sizeExact {
			sz = ff(f.FontSize * f.FontSize)
		}
		parts[i] = pos + "," + sz
	}
	return strings.Join(parts, ";")
}

// ---- one case ---------------------------------------------------------------------------

type kase struct {
	Family string `json:"family"`
	Prog   string `json:"prog"`
	PDF    string `json:"content_stream,omitempty"`
	Layout string `json:"resource_layout,omitempty"` // scoped layouts: how names are bound (scope.go)
}

// checkText runs one text program: correspondence op + statement-level oracles.
// oracle=false: the program is outside what ISO 32000 defines (unbalanced form content,
// self-recursive forms); only the model is compared.
//
// A program that invokes forms is run once per resource layout (flat, then the scoped
// layouts of scope.go): the logical program, hence the model's answer and the
// reference's, is the same in all of them.
func checkText(c *hx.Ctx, family string, p []op, oracle bool) {
	toks := strings.Join(tokens(p), " ")
	r := runRef(p)
	if !r.exact {
		c.Count("dropped-inexact")
		return
	}
	res := runText(p)
	k := kase{Family: family, Prog: toks, PDF: string(render(p, map[string]*core.Stream{}))}
	c.Count("family:" + family)
	if res.viaOps {
		c.Count("via-Extract(ops)-because-parser-rejects-quote-operators")
	}
	if res.raw {
		c.Count("observed-via-GetFragmentsRaw-because-a-form-is-invoked-repeatedly")
	}
	c.Check("C08/panic", res.panicked == "", k, func() string { return res.panicked })
	c.Op("c08.gs "+toks, implLine(res, r))
	nontrivial := false
	if oracle && res.panicked == "" {
		nontrivial = textOracles(c, "C08/", res, r, k)
		if r.err {
			c.Count("result:error")
		}
	}
	c.Case(toks, nontrivial)

	if nf := countForms(p); nf > 0 && (quoteParses || !hasQuote(p)) {
		for _, layout := range scopedLayouts {
			doc := buildScoped(p, layout)
			sres := runTextScoped(p, doc)
			sk := kase{Family: family, Prog: toks, Layout: layout, PDF: doc.dump()}
			c.Count("layout:" + layout)
			if doc.reboundNames() {
				c.Count("layout:" + layout + ":a-name-bound-to-different-forms-in-two-scopes")
			}
			c.Check("C08/scoped-panic", sres.panicked == "", sk, func() string { return sres.panicked })
			c.Op("c08.gs "+toks, implLine(sres, r))
			// the same document through the model of names, resources and scopes
			if line, ok := describe(&docCase{res: doc.res, objs: doc.objs, progs: [][]byte{doc.page}}); ok {
				c.Op("c08.docp "+line, docpReply(sres, r))
				if sres.panicked == "" && (sres.err != nil || len(sres.frags) == len(r.shows)) {
					c.Op("c08.docx "+line, docxReply(sres.frags, sres.err, r, sres.bytes, sres.depth, sres.saved))
				}
			} else {
				c.Count("docp-dropped")
			}
			nt := false
			if oracle && sres.panicked == "" {
				nt = textOracles(c, "C08/scoped-", sres, r, sk)
			}
			c.Case(toks+" @"+layout, nt)
		}
	}
}

// textOracles: the statement-level oracles on one extraction of a program whose
// reference run is r.  Keys are prefix+{error-class, fragment-count, <event>, fontsize}.
// Returns whether a fragment whose origin the property determines was compared.
func textOracles(c *hx.Ctx, prefix string, res implResult, r *refRun, k kase) bool {
	nontrivial := false
	if !c.Check(prefix+"error-class", (res.err != nil) == r.err, k, func() string {
		return fmt.Sprintf("extraction error=%v, expected error=%v (unmatched Q)", res.err, r.err)
	}) {
		return false
	}
	if r.err {
		return false
	}
	if !c.Check(prefix+"fragment-count", len(res.frags) == len(r.shows), k, func() string {
		return fmt.Sprintf("%d fragments for %d shows: %s", len(res.frags), len(r.shows), fragTexts(res))
	}) {
		return false
	}
	for i, f := range res.frags {
		sh := r.shows[i]
		if sh.known {
			nontrivial = true
			ok := ff(f.X) == pnum(sh.x) && ff(f.Y) == pnum(sh.y)
			c.Count("show-after:" + sh.event)
			c.Check(prefix+sh.event, ok, k, func() string {
				return fmt.Sprintf("show #%d %q: reported origin (%s,%s), ISO 32000 origin (0,0)·Tm·CTM = (%s,%s); Tm=%s CTM=%s",
					i, f.Text, ff(f.X), ff(f.Y), pnum(sh.x), pnum(sh.y), sh.tm, sh.ctm)
			})
		}
		if sh.similar {
			// size² = fs²·|det Tm|·|det CTM|; exact when both scale factors are squares
			want, _ := sh.size2.Float64()
			got := f.FontSize * f.FontSize
			ok := false
			if sh.sizeExact {
				ok = ff(got) == pnum(sh.size2)
			} else {
				d := got - want
				if d < 0 {
					d = -d
				}
				ok = d <= want/(1<<40)
			}
			c.Count("size-checked")
			c.Check(prefix+"fontsize", ok, k, func() string {
				return fmt.Sprintf("show #%d %q: FontSize=%s, expected sqrt(fs²·|det Tm|·|det CTM|)=sqrt(%s); Tm=%s CTM=%s",
					i, f.Text, ff(f.FontSize), pnum(sh.size2), sh.tm, sh.ctm)
			})
		}
	}
	return nontrivial
}

func fragTexts(r implResult) string {
	var s []string
	for _, f := range r.frags {
		s = append(s, fmt.Sprintf("%q@(%s,%s)", f.Text, ff(f.X), ff(f.Y)))
	}
	return strings.Join(s, " ")
}

// checkGfx: line end points of the graphics extractor for q/Q/cm programs.
func checkGfx(c *hx.Ctx, family string, p []op) {
	toks := strings.Join(tokens(p), " ")
	r := runRef(p)
	if !r.exact {
		c.Count("dropped-inexact")
		return
	}
	data := render(p, map[string]*core.Stream{})
	k := kase{Family: family, Prog: toks, PDF: string(data)}
	var lines []graphicsstate.ExtractedLine
	var err error
	pan := hx.Safe(func() {
		flushParser()
		ge := graphicsstate.NewGraphicsExtractor()
		err = ge.ExtractFromBytes(data)
		lines = ge.GetLines()
	})
	c.Count("family:" + family)
	c.Check("C08/panic", pan == "", k, func() string { return pan })
	out := "-"
	if err != nil {
		out = "err"
	} else if len(lines) > 0 {
		parts := make([]string, len(lines))
		for i, l := range lines {
			parts[i] = ff(l.Start.X) + "," + ff(l.Start.Y) + "," + ff(l.End.X) + "," + ff(l.End.Y)
		}
		out = strings.Join(parts, ";")
	}
	c.Op("c08.gfx "+toks, out)
	if pan != "" {
		return
	}
	if !c.Check("C08/error-class", (err != nil) == r.err, k, func() string {
		return fmt.Sprintf("graphics extraction error=%v, expected error=%v", err, r.err)
	}) || r.err {
		c.Case("g "+toks, false)
		return
	}
	if c.Check("C08/fragment-count", len(lines) == len(r.segs), k, func() string {
		return fmt.Sprintf("%d lines for %d stroked segments", len(lines), len(r.segs))
	}) {
		for i, l := range lines {
			s := r.segs[i]
			ok := ff(l.Start.X) == pnum(s[0]) && ff(l.Start.Y) == pnum(s[1]) && ff(l.End.X) == pnum(s[2]) && ff(l.End.Y) == pnum(s[3])
			c.Check("C08/gfx-line-cm", ok, k, func() string {
				return fmt.Sprintf("line #%d reported (%s,%s)-(%s,%s), end points through the CTM are (%s,%s)-(%s,%s)",
					i, ff(l.Start.X), ff(l.Start.Y), ff(l.End.X), ff(l.End.Y), pnum(s[0]), pnum(s[1]), pnum(s[2]), pnum(s[3]))
			})
		}
	}
	c.Case("g "+toks, len(lines) > 0)
}

// checkDquote: `aw ac (s) "` must behave exactly as `aw Tw ac Tc (s) '` — observed on the
// position of a following show, which moves by the spacing-dependent advance. Both runs
// take the same floating-point path, so the comparison is exact.
func checkDquote(c *hx.Ctx, aw, ac *big.Rat, ctx []op) {
	a := append(append([]op{}, ctx...), op{K: "\"", N: []*big.Rat{aw, ac}, Sid: 1}, op{K: "Tj", Sid: 2})
	b := append(append([]op{}, ctx...), op{K: "Tw", N: []*big.Rat{aw}}, op{K: "Tc", N: []*big.Rat{ac}}, op{K: "'", Sid: 1}, op{K: "Tj", Sid: 2})
	ra, rb := runText(a), runText(b)
	k := kase{Family: "dquote", Prog: strings.Join(tokens(a), " ")}
	c.Count("family:dquote")
	ok := ra.panicked == "" && rb.panicked == "" && ra.err == nil && rb.err == nil && len(ra.frags) == 2 && len(rb.frags) == 2
	if ok {
		for i := range ra.frags {
			if ra.frags[i].X != rb.frags[i].X || ra.frags[i].Y != rb.frags[i].Y || ra.frags[i].FontSize != rb.frags[i].FontSize {
				ok = false
			}
		}
	}
	c.Check("C08/dquote-is-Tw-Tc-quote", ok, k, func() string {
		return fmt.Sprintf("%s\" gives %s ; %s Tw %s Tc ' gives %s", pnum(aw)+" "+pnum(ac)+" (s) ", fragStr(ra), pnum(aw), pnum(ac), fragStr(rb))
	})
	c.Case("dq "+k.Prog, ok)
}

// checkAdvance: the origin is mapped through the *text* matrix, which a show advances —
// not through the line matrix.  Only the direction is demanded (the amount depends on font
// widths and is not claimed): under an upright, positively scaled Tm and CTM with
// Tc = Tw = 0 a second consecutive show of a non-empty string lies strictly to the right
// of the first, on the same baseline.
func checkAdvance(c *hx.Ctx, r *hx.Rng) {
	k1, k2 := int64(r.Range(1, 4)), int64(r.Range(1, 3))
	p := []op{{K: "cm", N: []*big.Rat{ri(k2), ri(0), ri(0), ri(k2), small(r), small(r)}}, {K: "BT"}, {K: "Tf", N: []*big.Rat{ri(int64(r.Range(1, 24)))}},
		{K: "Tm", N: []*big.Rat{ri(k1), ri(0), ri(0), ri(k1), small(r), small(r)}}}
	if r.Bool() {
		p = append(p, op{K: "Td", N: []*big.Rat{small(r), small(r)}})
	}
	p = append(p, op{K: "Tj", Sid: 0}, op{K: "Tj", Sid: 1})
	checkAdvanceProg(c, p)
}

func checkAdvanceProg(c *hx.Ctx, p []op) {
	res := runText(p)
	k := kase{Family: "advance", Prog: strings.Join(tokens(p), " ")}
	c.Count("family:advance")
	ok := res.panicked == "" && res.err == nil && len(res.frags) == 2 &&
		res.frags[1].X > res.frags[0].X && res.frags[1].Y == res.frags[0].Y
	c.Check("C08/second-show-not-advanced", ok, k, func() string { return "fragments " + fragStr(res) })
	c.Case("adv "+k.Prog, ok)
}

func fragStr(r implResult) string {
	if r.panicked != "" {
		return "panic " + r.panicked
	}
	if r.err != nil {
		return "error " + r.err.Error()
	}
	var s []string
	for _, f := range r.frags {
		s = append(s, fmt.Sprintf("(%s,%s)", ff(f.X), ff(f.Y)))
	}
	return strings.Join(s, " ")
}

// ---- driver -----------------------------------------------------------------------------

func Run(c *hx.Ctx) {
	detectQuote()
	c.Rep.Rule = "operator programs (length ≤ 40, q/Q depth ≤ 8, Form XObjects with /Matrix nested ≤ 3) over integer and dyadic " +
		"matrices (translations, non-uniform scales, 90° rotations, reflections, integer shears); every program that invokes forms is written " +
		"in 4 resource layouts (flat page dictionary; per-scope /Resources with local names Fm0.. / pooled names / unique names, forms as " +
		"indirect objects, a repeated form being one object); pages of 2-4 sibling forms with children of their own and re-invocations; exhaustive over all ordered pairs of 28 " +
		"positioning operators on a 5-matrix alphabet in 2 layouts; the property's quoted witnesses; q/Q/cm/line programs for the graphics " +
		"extractor. Cases whose float evaluation could round are dropped by a big.Rat exactness guard. Non-trivial = at least one fragment " +
		"whose origin the property determines was compared. DOCUMENTS (ops c08.doc, c08.docx0; every scoped layout also as c08.docp, c08.docx): " +
		"object tables of 1-5 form objects plus images, non-streams, undecodable, empty and unparsable forms, bound at random to names in the " +
		"page's and the forms' resource dictionaries (shared, cyclic or acyclic, unbound names, the /-prefixed retry), resources direct, indirect, " +
		"missing or of a wrong type at both levels, /Matrix well-formed or malformed, contents of positioned shows, cm, q/Q (mostly balanced), Do and " +
		"malformed operations (wrong arity, wrong operand types, unknown operators), 1-4 Extract calls on one extractor, one q…Q program run twice, " +
		"and heavy graphs (self-drawing forms with fan-out 4-8, chains of 10 with fan-out 3-10, mutual recursion, forms of 5-30 MiB, the byte-exact " +
		"budget boundary); integer monomial matrices under 0 Tz, so every origin and size is exact; non-trivial there = at least one form executed. " +
		"The random programs and the documents also show text with TJ arrays (strings and numbers), the documents also set the text rise (Ts). " +
		"ADVANCES (op c08.tx): text objects of several lines in which strings follow one another through Tj, TJ (numbers before, between and after " +
		"the strings), ' and \" with Tc, Tw, Tz, Tf, Ts, Td, TD, T*, Tm, cm and q/Q in between, under upright, scaled, rotated and sheared text " +
		"matrices, with a font (Helvetica widths) and without (tabula's width estimate); font sizes multiples of 125, Tz multiples of 25, the " +
		"other numbers multiples of 1/4; EVERY origin is compared. PATHS (op c08.path): content streams of q Q cm w, m l c v y h re and " +
		"S s f F f* B B* b b* n for graphicsstate.GraphicsExtractor: rectangles by re and by m l l l (closed by h, by a line, left open; a corner " +
		"moved, sheared, turned by 45°), free paths with curves, several subpaths, operators without a current point, graphics state operators " +
		"inside a path, malformed operations (arity, operand types), colour and unknown operators, unmatched Q; coordinates multiples of 1/4; " +
		"every line, rectangle, flag, box, filter count, the error and the stack depth are compared. Non-trivial there = something was reported."
	if !quoteParses {
		c.Note("the pinned content-stream parser rejects the ' and \" operators (DESIGN §7 B3, owned by C06): programs containing them are fed to text.Extractor.Extract as parsed operations")
	}
	witnesses(c)
	exhaustivePairs(c)
	n := c.N(8000, 200000)
	for i := 0; i < n; i++ {
		r := c.Rng.Fork(uint64(i))
		p, oracle := genProgram(r)
		fam := "random"
		if !oracle {
			fam = "random-unbalanced-form"
		}
		checkText(c, fam, p, oracle)
	}
	ns := c.N(1200, 30000)
	for i := 0; i < ns; i++ {
		checkText(c, "form-scopes", genScopes(c.Rng.Fork(uint64(4<<32+i))), true)
	}
	ng := c.N(1500, 20000)
	for i := 0; i < ng; i++ {
		r := c.Rng.Fork(uint64(1<<32 + i))
		checkGfx(c, "gfx-random", genGfx(r))
	}
	nd := c.N(60, 1000)
	for i := 0; i < nd; i++ {
		r := c.Rng.Fork(uint64(2<<32 + i))
		tm := genMatrix(r)
		ctx := []op{{K: "BT"}, {K: "Tf", N: []*big.Rat{ri(int64(r.Range(1, 4) * 125))}}, {K: "TL", N: []*big.Rat{ri(int64(r.Range(0, 30)))}},
			{K: "Tm", N: tm[:]}}
		aw, ac := ri(int64(r.Range(-9, 40))), ri(int64(r.Range(-9, 40)))
		if aw.Cmp(ac) == 0 {
			ac = new(big.Rat).Add(ac, ri(7))
		}
		checkDquote(c, aw, ac, ctx)
	}
	for i := 0; i < c.N(40, 400); i++ {
		checkAdvance(c, c.Rng.Fork(uint64(3<<32+i)))
	}
	runAdv(c)
	runPaths(c)
	runDocs(c)
	c.Rep.Exhaustive = false
}

func Replay(c *hx.Ctx, k map[string]interface{}) {
	detectQuote()
	prog, _ := k["prog"].(string)
	fam, _ := k["family"].(string)
	if strings.HasPrefix(fam, "doc-") {
		idx, _ := k["index"].(float64)
		replayDoc(c, fam, int(idx))
		fmt.Printf("replayed %s document #%d\n", fam, int(idx))
		return
	}
	if strings.HasPrefix(fam, "path") {
		cs, _ := k["content_stream"].(string)
		checkPath(c, fam, cs, nil)
		fmt.Printf("replayed %s content stream: %q\n", fam, cs)
		return
	}
	p, _, err := parseTokens(strings.Fields(prog))
	if err != nil {
		fmt.Println("replay: cannot parse program:", err)
		return
	}
	switch {
	case strings.HasPrefix(fam, "adv-"):
		checkAdv(c, fam, p)
	case fam == "dquote":
		// ctx … ":aw,ac,1 Tj:2
		n := len(p)
		checkDquote(c, p[n-2].N[0], p[n-2].N[1], p[:n-2])
	case fam == "advance":
		checkAdvanceProg(c, p)
	case strings.HasPrefix(fam, "gfx"):
		checkGfx(c, fam, p)
	default:
		checkText(c, fam, p, fam != "random-unbalanced-form" && fam != "recursive-form")
	}
	fmt.Printf("replayed %s program: %s\n", fam, prog)
}
