// Package c08 is the correspondence/oracle harness for property C08.
package c08

import "verifharness/hx"

func init() { hx.Register("C08", Run, Replay) }

// Run is not built yet for this property.
func Run(c *hx.Ctx) { c.Note("C08: harness not built") }

func Replay(c *hx.Ctx, kase map[string]interface{}) {}
