package c08

// Op c08.path: graphicsstate.GraphicsExtractor on content streams of path construction and
// painting operators under q/Q/cm/w, against Model/GPath.lean.
//
// The content stream is written as a PDF producer writes it, parsed by tabula's own
// content-stream parser inside ExtractFromBytes, and described to the model from the
// operations that parser delivers (operator, operands: numbers, `?` for anything else).
// Compared: every line (end points, width, orientation flags, box), every rectangle (box,
// stroke width, filled, stroked), the counts after GetFilteredLines / GetFilteredRectangles,
// the error, the number of saved states and of segments of the path left under construction.
//
// Exactness (DESIGN 3.3): coordinates are multiples of 1/4 in a small range, matrices as
// in c08.gs; a tracker over big.Rat (below) re-forms every CTM product and every point
// image and drops the case when an intermediate is not a dyadic rational below 2^52, and
// drops the case when a corner of a rectangle candidate lies exactly on the threshold of
// isRectangle (|cos| = 0.1) — everywhere else the float comparisons of path.go (tolerances
// 0.1 and 0.5, sqrt, the quotient) decide as the exact ones do, with a margin far above
// 2^-20.
//
// Oracles independent of the model (family path-iso: only `re` rectangles and open
// polylines of at most two segments, no cm inside a path — content for which ISO 32000-1
// 8.5 fixes the geometry): C08/gfx-rect-bbox (the box of a painted `re` is the bounding box
// of the CTM images of its corners), C08/gfx-line-cm (end points of a stroked segment are
// the CTM images), C08/gfx-count, C08/gfx-panic.

import (
	"fmt"
	"math/big"
	"strconv"
	"strings"

	"github.com/tsawler/tabula/contentstream"
	"github.com/tsawler/tabula/core"
	"github.com/tsawler/tabula/graphicsstate"

	"verifharness/hx"
)

var gfxOperators = map[string]bool{"q": true, "Q": true, "cm": true, "w": true, "m": true, "l": true, "c": true, "v": true, "y": true,
	"h": true, "re": true, "S": true, "s": true, "f": true, "F": true, "f*": true, "B": true, "B*": true, "b": true, "b*": true, "n": true}

func gfxOperand(o core.Object) string {
	switch v := o.(type) {
	case core.Int:
		return strconv.FormatInt(int64(v), 10)
	case core.Real:
		return wnum(new(big.Rat).SetFloat64(float64(v)))
	}
	return "?"
}

func gfxTokens(ops []contentstream.Operation) ([]string, bool) {
	out := make([]string, 0, len(ops))
	for _, op := range ops {
		name := op.Operator
		if strings.ContainsAny(name, ":,|[] ") {
			return nil, false
		}
		if !gfxOperators[name] {
			name = "o." + name
		}
		if len(op.Operands) == 0 {
			out = append(out, name)
			continue
		}
		parts := make([]string, len(op.Operands))
		for i, x := range op.Operands {
			parts[i] = gfxOperand(x)
		}
		out = append(out, name+":"+strings.Join(parts, ","))
	}
	return out, true
}

// ---- exactness tracker ---------------------------------------------------------------

type gpt [2]*big.Rat

type gseg struct {
	kind byte // m l c h
	p    gpt  // end point (m, l, c)
}

type gtrack struct {
	r         *refRun // chk, mmul, apply
	ctm       mat
	stack     []mat
	segs      []gseg
	cur       gpt
	start     gpt
	has       bool
	ambiguous bool
	stopped   bool
}

func ratOf(o core.Object) *big.Rat {
	switch v := o.(type) {
	case core.Int:
		return ri(int64(v))
	case core.Real:
		return new(big.Rat).SetFloat64(float64(v))
	}
	return ri(0)
}

func (t *gtrack) moveTo(p gpt) {
	t.segs = append(t.segs, gseg{'m', p})
	t.cur, t.start, t.has = p, p, true
}

func (t *gtrack) lineTo(p gpt) {
	if !t.has {
		t.moveTo(p)
		return
	}
	t.segs = append(t.segs, gseg{'l', p})
	t.cur = p
}

func (t *gtrack) curveTo(p1, p3 gpt) {
	if !t.has {
		t.moveTo(p1)
	}
	t.segs = append(t.segs, gseg{'c', p3})
	t.cur = p3
}

func (t *gtrack) closePath() {
	if !t.has {
		return
	}
	t.segs = append(t.segs, gseg{'h', gpt{}})
	t.cur = t.start
}

// cornerAmbiguous: 100·dot² = l1·l2 with both sides at least 0.5 long — |cos| is exactly 0.1
func cornerAmbiguous(p0, p1, p2 gpt) bool {
	sub := func(a, b *big.Rat) *big.Rat { return new(big.Rat).Sub(a, b) }
	mul := func(a, b *big.Rat) *big.Rat { return new(big.Rat).Mul(a, b) }
	v1x, v1y := sub(p1[0], p0[0]), sub(p1[1], p0[1])
	v2x, v2y := sub(p2[0], p1[0]), sub(p2[1], p1[1])
	dot := new(big.Rat).Add(mul(v1x, v2x), mul(v1y, v2y))
	l1 := new(big.Rat).Add(mul(v1x, v1x), mul(v1y, v1y))
	l2 := new(big.Rat).Add(mul(v2x, v2x), mul(v2y, v2y))
	return mul(ri(100), mul(dot, dot)).Cmp(mul(l1, l2)) == 0 && dot.Sign() != 0
}

// paint: every point of the path goes through the CTM now; rectangle candidates are
// checked for threshold corners.
func (t *gtrack) paint() {
	var corners []gpt
	simple := len(t.segs) >= 4 && t.segs[0].kind == 'm'
	for i, s := range t.segs {
		if s.kind == 'h' {
			continue
		}
		t.r.apply(t.ctm, s.p[0], s.p[1])
		switch {
		case i == 0 || s.kind == 'l':
			corners = append(corners, s.p)
		default:
			simple = false
		}
	}
	if simple && (len(corners) == 4 || len(corners) == 5) {
		c := corners[:4]
		for i := 0; i < 4; i++ {
			if cornerAmbiguous(c[i], c[(i+1)%4], c[(i+2)%4]) {
				t.ambiguous = true
			}
		}
	}
	t.segs, t.has = nil, false
}

func (t *gtrack) run(ops []contentstream.Operation) {
	num := func(op contentstream.Operation, i int) *big.Rat { return t.r.chk(ratOf(op.Operands[i])) }
	for _, op := range ops {
		if t.stopped {
			return
		}
		n := len(op.Operands)
		switch op.Operator {
		case "q":
			t.stack = append(t.stack, t.ctm)
		case "Q":
			if len(t.stack) == 0 {
				t.stopped = true
				return
			}
			t.ctm = t.stack[len(t.stack)-1]
			t.stack = t.stack[:len(t.stack)-1]
		case "cm":
			if n == 6 {
				t.ctm = t.r.mmul(mat{num(op, 0), num(op, 1), num(op, 2), num(op, 3), num(op, 4), num(op, 5)}, t.ctm)
			}
		case "m":
			if n == 2 {
				t.moveTo(gpt{num(op, 0), num(op, 1)})
			}
		case "l":
			if n == 2 {
				t.lineTo(gpt{num(op, 0), num(op, 1)})
			}
		case "c":
			if n == 6 {
				t.curveTo(gpt{num(op, 0), num(op, 1)}, gpt{num(op, 4), num(op, 5)})
			}
		case "v":
			if n == 4 && t.has {
				t.curveTo(t.cur, gpt{num(op, 2), num(op, 3)})
			}
		case "y":
			if n == 4 && t.has {
				t.curveTo(gpt{num(op, 0), num(op, 1)}, gpt{num(op, 2), num(op, 3)})
			}
		case "h":
			t.closePath()
		case "re":
			if n == 4 {
				x, y, w, h := num(op, 0), num(op, 1), num(op, 2), num(op, 3)
				xw, yh := t.r.add(x, w), t.r.add(y, h)
				t.moveTo(gpt{x, y})
				t.lineTo(gpt{xw, y})
				t.lineTo(gpt{xw, yh})
				t.lineTo(gpt{x, yh})
				t.closePath()
			}
		case "S", "f", "F", "f*", "B", "B*":
			t.paint()
		case "s", "b", "b*":
			t.closePath()
			t.paint()
		case "n":
			t.segs, t.has = nil, false
		}
	}
}

// ---- one case --------------------------------------------------------------------------

type pathKase struct {
	Family string `json:"family"`
	Prog   string `json:"prog"`
	PDF    string `json:"content_stream"`
}

// expected: what ISO 32000 fixes for the content of family path-iso
type pathExpect struct {
	rects [][4]*big.Rat // x, y, w, h of the bounding box
	lines [][4]*big.Rat
}

func flagStr(l graphicsstate.ExtractedLine) string {
	s := ""
	if l.IsHorizontal {
		s += "h"
	}
	if l.IsVertical {
		s += "v"
	}
	if s == "" {
		return "-"
	}
	return s
}

func b01(b bool) string {
	if b {
		return "1"
	}
	return "0"
}

func checkPath(c *hx.Ctx, family string, content string, want *pathExpect) {
	data := []byte(content)
	flushParser()
	ops, perr := contentstream.NewParser(data).Parse()
	flushParser()
	if perr != nil {
		c.Count("path-dropped:does-not-parse")
		return
	}
	toks, ok := gfxTokens(ops)
	if !ok {
		c.Count("path-dropped:operator-name")
		return
	}
	tr := &gtrack{r: &refRun{exact: true}, ctm: ident()}
	tr.run(ops)
	if !tr.r.exact {
		c.Count("path-dropped-inexact")
		return
	}
	if tr.ambiguous {
		c.Count("path-dropped:corner-on-the-threshold")
		return
	}
	prog := strings.Join(toks, " ")
	k := pathKase{Family: family, Prog: prog, PDF: content}
	var lines []graphicsstate.ExtractedLine
	var rects []graphicsstate.ExtractedRectangle
	var fl, fr, saved, plen int
	var err error
	pan := hx.Safe(func() {
		flushParser()
		ge := graphicsstate.NewGraphicsExtractor()
		err = ge.ExtractFromBytes(data)
		lines, rects = ge.GetLines(), ge.GetRectangles()
		fl, fr = len(ge.GetFilteredLines()), len(ge.GetFilteredRectangles())
		saved = graphicsstate.VerifStackLen(ge.GetGraphicsState())
		plen = graphicsstate.VerifPathLen(ge)
	})
	c.Count("family:" + family)
	c.Check("C08/gfx-panic", pan == "", k, func() string { return pan })
	if pan != "" {
		c.Op("c08.path "+prog, "panic")
		c.Case("p "+prog, false)
		return
	}
	ls := make([]string, len(lines))
	for i, l := range lines {
		ls[i] = strings.Join([]string{ff(l.Start.X), ff(l.Start.Y), ff(l.End.X), ff(l.End.Y), ff(l.Width), flagStr(l),
			ff(l.BBox.X), ff(l.BBox.Y), ff(l.BBox.Width), ff(l.BBox.Height)}, ",")
	}
	rs := make([]string, len(rects))
	for i, r := range rects {
		rs[i] = strings.Join([]string{ff(r.BBox.X), ff(r.BBox.Y), ff(r.BBox.Width), ff(r.BBox.Height), ff(r.StrokeWidth), b01(r.IsFilled), b01(r.IsStroked)}, ",")
	}
	bar := func(xs []string) string {
		if len(xs) == 0 {
			return "-"
		}
		return strings.Join(xs, "|")
	}
	status := "ok"
	if err != nil {
		status = "err"
		c.Count("path-result:error")
	}
	c.Op("c08.path "+prog, fmt.Sprintf("%s;L=%s;R=%s;fl=%d;fr=%d;st=%d;p=%d", status, bar(ls), bar(rs), fl, fr, saved, plen))
	c.Count(fmt.Sprintf("path-lines:%s", bucket(len(lines))))
	c.Count(fmt.Sprintf("path-rects:%s", bucket(len(rects))))
	if want != nil {
		okc := c.Check("C08/gfx-count", len(rects) == len(want.rects) && len(lines) == len(want.lines) && err == nil, k, func() string {
			return fmt.Sprintf("%d rectangles and %d lines (error %v), expected %d and %d", len(rects), len(lines), err, len(want.rects), len(want.lines))
		})
		if okc {
			for i, r := range rects {
				w := want.rects[i]
				ok := ff(r.BBox.X) == pnum(w[0]) && ff(r.BBox.Y) == pnum(w[1]) && ff(r.BBox.Width) == pnum(w[2]) && ff(r.BBox.Height) == pnum(w[3])
				c.Check("C08/gfx-rect-bbox", ok, k, func() string {
					return fmt.Sprintf("rectangle #%d box (%s,%s,%s,%s), bounding box of the corners through the CTM (%s,%s,%s,%s)", i,
						ff(r.BBox.X), ff(r.BBox.Y), ff(r.BBox.Width), ff(r.BBox.Height), pnum(w[0]), pnum(w[1]), pnum(w[2]), pnum(w[3]))
				})
			}
			for i, l := range lines {
				w := want.lines[i]
				ok := ff(l.Start.X) == pnum(w[0]) && ff(l.Start.Y) == pnum(w[1]) && ff(l.End.X) == pnum(w[2]) && ff(l.End.Y) == pnum(w[3])
				c.Check("C08/gfx-line-cm", ok, k, func() string {
					return fmt.Sprintf("line #%d (%s,%s)-(%s,%s), end points through the CTM (%s,%s)-(%s,%s)", i,
						ff(l.Start.X), ff(l.Start.Y), ff(l.End.X), ff(l.End.Y), pnum(w[0]), pnum(w[1]), pnum(w[2]), pnum(w[3]))
				})
			}
		}
	}
	c.Case("p "+prog, len(lines)+len(rects) > 0)
}

func bucket(n int) string {
	switch {
	case n == 0:
		return "0"
	case n <= 2:
		return "1-2"
	case n <= 6:
		return "3-6"
	}
	return "7+"
}

// ---- generators --------------------------------------------------------------------------

func q4(r *hx.Rng) *big.Rat {
	if r.Chance(1, 4) {
		return rf(int64(r.Range(-160, 160)), 4)
	}
	return ri(int64(r.Range(-40, 40)))
}

func pt(r *hx.Rng) string { return pnum(q4(r)) + " " + pnum(q4(r)) }

var paintOps = []string{"S", "S", "s", "f", "F", "f*", "B", "B*", "b", "b*", "n"}

type pathGen struct {
	r   *hx.Rng
	sb  strings.Builder
	ctm mat
	stk []mat
	ref *refRun
	exp *pathExpect // nil: not the iso family
}

func (g *pathGen) w(s string) { g.sb.WriteString(s + "\n") }

func (g *pathGen) gsOp() {
	r := g.r
	switch x := r.Intn(10); {
	case x < 3:
		if len(g.stk) < 6 {
			g.w("q")
			g.stk = append(g.stk, g.ctm)
		}
	case x < 5:
		if len(g.stk) > 0 {
			g.w("Q")
			g.ctm = g.stk[len(g.stk)-1]
			g.stk = g.stk[:len(g.stk)-1]
		} else if g.exp == nil && r.Chance(1, 8) {
			g.w("Q") // unmatched: Extract stops here
		}
	case x < 8:
		m := genMatrix(r)
		g.w(pnum(m[0]) + " " + pnum(m[1]) + " " + pnum(m[2]) + " " + pnum(m[3]) + " " + pnum(m[4]) + " " + pnum(m[5]) + " cm")
		g.ctm = g.ref.mmul(m, g.ctm)
	default:
		g.w(pnum(rf(int64(r.Range(0, 24)), 4)) + " w")
	}
}

func (g *pathGen) image(p gpt) gpt {
	x, y := g.ref.apply(g.ctm, p[0], p[1])
	return gpt{x, y}
}

func bboxOf(ps []gpt) [4]*big.Rat {
	minX, maxX, minY, maxY := ps[0][0], ps[0][0], ps[0][1], ps[0][1]
	for _, p := range ps[1:] {
		if p[0].Cmp(minX) < 0 {
			minX = p[0]
		}
		if p[0].Cmp(maxX) > 0 {
			maxX = p[0]
		}
		if p[1].Cmp(minY) < 0 {
			minY = p[1]
		}
		if p[1].Cmp(maxY) > 0 {
			maxY = p[1]
		}
	}
	return [4]*big.Rat{minX, minY, new(big.Rat).Sub(maxX, minX), new(big.Rat).Sub(maxY, minY)}
}

// isoObject: a painted `re`, or an open polyline of one or two segments, stroked
func (g *pathGen) isoObject() {
	r := g.r
	if r.Chance(3, 5) {
		x, y, w, h := q4(r), q4(r), q4(r), q4(r)
		if r.Chance(1, 10) {
			w = ri(0)
		}
		op := paintOps[r.Intn(len(paintOps)-1)]
		g.w(pnum(x) + " " + pnum(y) + " " + pnum(w) + " " + pnum(h) + " re " + op)
		xw, yh := new(big.Rat).Add(x, w), new(big.Rat).Add(y, h)
		g.exp.rects = append(g.exp.rects, bboxOf([]gpt{g.image(gpt{x, y}), g.image(gpt{xw, y}), g.image(gpt{xw, yh}), g.image(gpt{x, yh})}))
		return
	}
	pts := []gpt{{q4(r), q4(r)}, {q4(r), q4(r)}}
	if r.Bool() {
		pts = append(pts, gpt{q4(r), q4(r)})
	}
	g.w(pnum(pts[0][0]) + " " + pnum(pts[0][1]) + " m")
	for _, p := range pts[1:] {
		g.w(pnum(p[0]) + " " + pnum(p[1]) + " l")
	}
	op := []string{"S", "S", "B", "f", "n"}[r.Intn(5)]
	g.w(op)
	if op == "S" || op == "B" {
		for i := 1; i < len(pts); i++ {
			a, b := g.image(pts[i-1]), g.image(pts[i])
			g.exp.lines = append(g.exp.lines, [4]*big.Rat{a[0], a[1], b[0], b[1]})
		}
	}
}

func (g *pathGen) polygon() {
	r := g.r
	x, y, w, h := q4(r), q4(r), q4(r), q4(r)
	xw, yh := new(big.Rat).Add(x, w), new(big.Rat).Add(y, h)
	c := []gpt{{x, y}, {xw, y}, {xw, yh}, {x, yh}}
	switch r.Intn(5) {
	case 0: // a corner moved: sheared or off by a little
		i := r.Intn(4)
		c[i] = gpt{new(big.Rat).Add(c[i][0], rf(int64(r.Range(-12, 12)), 4)), new(big.Rat).Add(c[i][1], rf(int64(r.Range(-12, 12)), 4))}
	case 1: // rotated by 45°: still a rectangle
		c = []gpt{{x, y}, {new(big.Rat).Add(x, w), new(big.Rat).Add(y, w)}, {new(big.Rat).Add(new(big.Rat).Add(x, w), new(big.Rat).Neg(h)), new(big.Rat).Add(new(big.Rat).Add(y, w), h)},
			{new(big.Rat).Sub(x, h), new(big.Rat).Add(y, h)}}
	case 2: // parallelogram
		c[2] = gpt{new(big.Rat).Add(c[2][0], h), c[2][1]}
		c[3] = gpt{new(big.Rat).Add(c[3][0], h), c[3][1]}
	}
	g.w(pnum(c[0][0]) + " " + pnum(c[0][1]) + " m")
	for _, p := range c[1:] {
		g.w(pnum(p[0]) + " " + pnum(p[1]) + " l")
	}
	switch r.Intn(5) {
	case 0: // back to the start with a line (five corners), exactly or nearly
		d := []*big.Rat{ri(0), rf(1, 16), rf(1, 8), rf(1, 4)}[r.Intn(4)]
		g.w(pnum(new(big.Rat).Add(c[0][0], d)) + " " + pnum(c[0][1]) + " l")
	case 1:
		g.w("h")
	case 2:
		g.w("h")
		if r.Bool() {
			g.w(pt(r) + " l") // a sixth corner after the close
		}
	}
	g.w(paintOps[r.Intn(len(paintOps))])
}

func (g *pathGen) freePath() {
	r := g.r
	n := r.Range(1, 7)
	for i := 0; i < n; i++ {
		switch x := r.Intn(20); {
		case x < 4:
			g.w(pt(r) + " m")
		case x < 11:
			g.w(pt(r) + " l")
		case x < 13:
			g.w(pt(r) + " " + pt(r) + " " + pt(r) + " c")
		case x < 14:
			g.w(pt(r) + " " + pt(r) + " v")
		case x < 15:
			g.w(pt(r) + " " + pt(r) + " y")
		case x < 17:
			g.w("h")
		case x < 18:
			g.w(pt(r) + " " + pt(r) + " re")
		case x < 19:
			if r.Chance(1, 2) {
				g.gsOp() // graphics state operator inside a path: not ISO, tabula has no objection
			}
		default:
			g.malformed()
		}
	}
	if r.Chance(9, 10) {
		g.w(paintOps[r.Intn(len(paintOps))])
	}
}

func (g *pathGen) malformed() {
	r := g.r
	n := func() string { return pnum(q4(r)) }
	opts := []string{
		n() + " m", n() + " " + n() + " " + n() + " m", "/N " + n() + " m", n() + " (s) l", "l",
		n() + " " + n() + " " + n() + " re", n() + " " + n() + " /W " + n() + " re", n() + " " + n() + " " + n() + " " + n() + " " + n() + " re",
		n() + " " + n() + " " + n() + " " + n() + " " + n() + " c", n() + " " + n() + " true " + n() + " " + n() + " " + n() + " c",
		n() + " " + n() + " v", n() + " " + n() + " " + n() + " y",
		"1 0 0 1 " + n() + " cm", "1 0 /X 2 " + n() + " " + n() + " cm", "(a) w", n() + " " + n() + " w",
		n() + " h", n() + " S", "W n", "W* n", "1 0 0 RG", "0.5 g", "0 0 0 1 k", "/GS0 gs", "1 j 2 J [3 1] 0 d", "/Im0 Do", "BT (t) Tj ET",
	}
	g.w(opts[r.Intn(len(opts))])
}

func genPath(r *hx.Rng, family string) (string, *pathExpect) {
	g := &pathGen{r: r, ctm: ident(), ref: &refRun{exact: true}}
	if family == "path-iso" {
		g.exp = &pathExpect{}
	}
	n := r.Range(2, 12)
	for i := 0; i < n; i++ {
		if r.Chance(2, 5) {
			g.gsOp()
			continue
		}
		switch {
		case g.exp != nil:
			g.isoObject()
		case family == "path-polygons":
			g.polygon()
		default:
			switch r.Intn(4) {
			case 0:
				g.polygon()
			case 1:
				g.w(pt(r) + " " + pt(r) + " re " + paintOps[r.Intn(len(paintOps))])
			default:
				g.freePath()
			}
		}
	}
	for r.Chance(2, 3) && len(g.stk) > 0 {
		g.w("Q")
		g.stk = g.stk[:len(g.stk)-1]
	}
	return g.sb.String(), g.exp
}

func runPaths(c *hx.Ctx) {
	// a table cell under a scaled CTM, the same as m l l l h, an open three-sided path (also a
	// rectangle for detectRectangle), a triangle, cm between construction and painting
	for _, w := range []string{
		"2 0 0 2 10 10 cm 5 10 50 20 re S",
		"2 0 0 2 10 10 cm 5 10 m 55 10 l 55 30 l 5 30 l h B",
		"5 10 m 55 10 l 55 30 l 5 30 l S",
		"0 0 m 10 0 l 20 10 l 0 30 l s",
		"0 0 m 10 0 l 2 0 0 2 0 0 cm S",
		"q 0 1 -1 0 100 0 cm 0 0 m 30 0 l S Q 0 0 m 30 0 l S Q 0 0 m 1 1 l S",
		"10 10 l 20 10 l S h 5 5 5 5 v 1 2 3 4 y 0 0 m 1 1 2 2 v 3 3 4 4 y 5 5 6 6 7 7 c s",
		"0 0 10 10 re 20 20 5 5 re B 3 w 0 0 0.25 0.25 re b*",
	} {
		checkPath(c, "path-witness", w, nil)
	}
	fams := []string{"path-iso", "path-polygons", "path-random", "path-random"}
	n := c.N(3000, 60000)
	for i := 0; i < n; i++ {
		fam := fams[i%len(fams)]
		content, want := genPath(c.Rng.Fork(uint64(6<<32+i)), fam)
		checkPath(c, fam, content, want)
	}
}
