package c14

import (
	"bytes"
	"errors"
)

// readRFC4180 is the harness's own reader for RFC 4180 text with a one-byte
// delimiter, written from the RFC (section 2) and independent of encoding/csv and of the
// Lean model: records end with LF or CRLF (the last one may end at EOF), a field is either
// quoted ("" = one quote; delimiter, CR and LF inside quotes are data and are kept verbatim —
// in particular CRLF inside a quoted field is NOT turned into LF, unlike csv.Reader) or
// unquoted (no quote, CR or LF inside). An empty line is a record with one empty field.
func readRFC4180(data []byte, delim byte) ([][]string, error) {
	return readRFC4180D(data, []byte{delim})
}

// readRFC4180D: the same reader for a delimiter that is a byte string (the UTF-8 encoding of a
// rune of any length): outside quotes the delimiter is recognised wherever its bytes start.
func readRFC4180D(data []byte, delim []byte) ([][]string, error) {
	if len(delim) == 0 {
		return nil, errors.New("empty delimiter")
	}
	atDelim := func(i int) bool { return bytes.HasPrefix(data[i:], delim) }
	var records [][]string
	i, n := 0, len(data)
	for i < n {
		var rec []string
		for {
			var field []byte
			if i < n && data[i] == '"' {
				i++
				for {
					if i >= n {
						return nil, errors.New("unterminated quoted field")
					}
					if data[i] == '"' {
						if i+1 < n && data[i+1] == '"' {
							field = append(field, '"')
							i += 2
							continue
						}
						i++
						break
					}
					field = append(field, data[i])
					i++
				}
			} else {
				for i < n && !atDelim(i) && data[i] != '\n' && data[i] != '\r' {
					if data[i] == '"' {
						return nil, errors.New("bare quote in unquoted field")
					}
					field = append(field, data[i])
					i++
				}
			}
			rec = append(rec, string(field))
			if i >= n {
				break
			}
			if atDelim(i) {
				i += len(delim)
				continue
			}
			if data[i] == '\n' {
				i++
				break
			}
			if data[i] == '\r' {
				if i+1 < n && data[i+1] == '\n' {
					i += 2
					break
				}
				return nil, errors.New("bare CR outside quotes")
			}
			return nil, errors.New("data after closing quote")
		}
		records = append(records, rec)
	}
	return records, nil
}
