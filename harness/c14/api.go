package c14

import (
	"bytes"
	"encoding/json"
	"errors"
	"fmt"
	"strconv"
	"strings"

	"github.com/tsawler/tabula/rag"

	"verifharness/hx"
)

// ---- the library's configurations (op c14.cfg) ------------------------------------------------

// checkConfigs: the six configurations the library builds itself, against the model's constants.
// The one inside ToJSON is not visible from outside: it is the documented one (Default + JSON +
// PrettyPrint), and RunCase checks that ToJSON's text is the export under exactly that one.
func checkConfigs(c *hx.Ctx) {
	jcfg := rag.DefaultExportConfig()
	jcfg.Format, jcfg.PrettyPrint = rag.ExportFormatJSON, true
	for _, e := range []struct {
		name string
		cfg  rag.ExportConfig
	}{{"default", rag.DefaultExportConfig()}, {"jsonl", rag.JSONLExportConfig()}, {"csv", rag.CSVExportConfig()},
		{"tsv", rag.TSVExportConfig()}, {"tojson", jcfg}, {"vectordb", rag.VectorDBExportConfig()}} {
		c.Op("c14.cfg "+e.name, wireConfig(e.cfg))
	}
}

// genConfigWild: a drawn configuration, sometimes outside what the exporter supports (an
// unknown Format value, a delimiter encoding/csv rejects).
func genConfigWild(r *hx.Rng) rag.ExportConfig {
	cfg := genConfig(r, hx.Pick(r, allFormats))
	switch r.Intn(8) {
	case 0:
		cfg.Format = rag.ExportFormat(hx.Pick(r, []int{4, 99, -1}))
	case 1:
		if cfg.Format == rag.ExportFormatCSV {
			cfg.CSVDelimiter = hx.Pick(r, []rune{'"', '\n', '\r'})
		}
	}
	return cfg
}

// ---- BatchExporter: control flow over every outcome (op c14.batchrun) --------------------------

func checkBatchRun(c *hx.Ctx, kase caseID, r *hx.Rng, chunks []*rag.Chunk) {
	kase.What = "batchrun"
	n := len(chunks)
	cfg := genConfigWild(r)
	size := r.Range(1, n+2)
	if rw := r.Fork(0xB8); rw.Chance(1, 3) {
		// any positive int is a batch size (see genWideBatchSize)
		size, _ = genWideBatchSize(rw, n)
		c.Count("batchrun-wide-size")
	}
	fail := -1
	if r.Chance(1, 2) {
		fail = r.Intn(n/size + 2)
	}
	var got []rag.ExportBatch
	var err error
	p := hx.Safe(func() {
		err = rag.NewBatchExporterWithConfig(size, cfg).Export(chunks, func(b rag.ExportBatch) error {
			got = append(got, b)
			if len(got)-1 == fail {
				return errors.New("callback refuses")
			}
			return nil
		})
	})
	if !chk(c, "C14/panic-batch", p == "", kase, func() string { return p }) {
		return
	}
	res := "ok"
	if err != nil {
		var k int
		msg := err.Error()
		switch {
		case strings.HasPrefix(msg, "processing batch "):
			fmt.Sscanf(msg, "processing batch %d:", &k)
			res = "cberr:" + strconv.Itoa(k)
		case strings.HasPrefix(msg, "exporting batch starting at "):
			fmt.Sscanf(msg, "exporting batch starting at %d:", &k)
			res = "experr:" + strconv.Itoa(k)
		default:
			res = "err"
		}
	}
	parts := make([]string, len(got))
	prefixOK, dataOK := true, true
	next := 0
	for k, b := range got {
		parts[k] = fmt.Sprintf("%d:%d:%d:%d", b.BatchNumber, b.StartIndex, b.EndIndex, b.ChunkCount)
		if b.BatchNumber != k || b.StartIndex != next || b.EndIndex > n || b.EndIndex <= b.StartIndex {
			prefixOK = false
			continue
		}
		next = b.EndIndex
		alone, aerr := rag.NewExporterWithConfig(cfg).ExportToString(chunks[b.StartIndex:b.EndIndex])
		if aerr != nil || alone != b.Data {
			dataOK = false
		}
	}
	// whatever happens, what the callback saw is an initial part of the partition, each batch
	// carrying the export of exactly its chunks; on success it is the whole partition
	chk(c, "C14/batch-prefix-on-error", prefixOK && (err != nil || next == n), kase, func() string {
		return fmt.Sprintf("size %d, %d chunks, callback fails at %d: delivered %v, result %s", size, n, fail, parts, res)
	})
	chk(c, "C14/batch-data-is-slice-export", dataOK, kase, func() string {
		return fmt.Sprintf("size %d: the Data of a delivered batch differs from the export of its slice", size)
	})
	out := "none"
	if len(parts) > 0 {
		out = strings.Join(parts, ",")
	}
	c.Op(fmt.Sprintf("c14.batchrun %s %d %d %s", wireConfig(cfg), size, fail, wireChunks(chunks)), res+"|"+out)
	c.Count("batchrun-" + strings.SplitN(res, ":", 2)[0])
}

// ---- StreamExporter under arbitrary call sequences (op c14.calls) -----------------------------

func checkStreamCalls(c *hx.Ctx, kase caseID, r *hx.Rng, chunks []*rag.Chunk) {
	kase.What = "stream-calls"
	cfg := genConfigWild(r)
	var buf bytes.Buffer
	se := rag.NewStreamExporterWithConfig(&buf, cfg)
	ncalls := r.Range(0, 8)
	var wire []string
	var results strings.Builder
	var written []*rag.Chunk
	allOK := true
	for k := 0; k < ncalls; k++ {
		if len(chunks) == 0 || r.Chance(1, 5) {
			err := se.Close()
			wire = append(wire, "x")
			results.WriteString(b01(err == nil))
			continue
		}
		i := r.Intn(len(chunks))
		idx := hx.Pick(r, []int{i, 0, -1, 1 << 40, k, r.Intn(100)})
		var err error
		if p := hx.Safe(func() { err = se.WriteChunk(chunks[i], idx) }); p != "" {
			err = errors.New("panic: " + p)
		}
		wire = append(wire, fmt.Sprintf("w%d:%d", i, idx))
		results.WriteString(b01(err == nil))
		if err == nil {
			written = append(written, chunks[i])
		} else {
			allOK = false
		}
	}
	dump := "err"
	jsonFmt := cfg.Format == rag.ExportFormatJSON || cfg.Format == rag.ExportFormatJSONL
	if jsonFmt {
		chk(c, "C14/stream-once", allOK, kase, func() string { return "a WriteChunk call on a JSON stream failed: " + results.String() })
		recs, perr := parseJSONLines(buf.String())
		if chk(c, "C14/stream-wellformed", perr == nil, kase, func() string { return fmt.Sprintf("%v in %q", perr, clip(buf.String())) }) {
			// one record per successful call, in call order, whatever the index arguments were
			checkJSONRecords(c, "stream", kase, recs, written, cfg)
			dump = dumpJSONRecords(recs)
		}
	} else {
		chk(c, "C14/stream-once", len(written) == 0 && buf.Len() == 0, kase, func() string {
			return fmt.Sprintf("stream of format %d: %d writes succeeded, %d bytes written", cfg.Format, len(written), buf.Len())
		})
		if buf.Len() == 0 {
			dump = "none"
		}
	}
	c.Op("c14.calls "+wireConfig(cfg)+" k="+strings.Join(wire, ",")+" "+wireChunks(chunks), results.String()+"|"+dump)
	c.Op("c14.streamtext "+wireConfig(cfg)+" k="+strings.Join(wire, ",")+" "+wireChunks(chunks), hx.Hex(buf.Bytes()))
	if jsonFmt && buf.Len() > 0 {
		caseLines = append(caseLines, append([]byte(nil), buf.Bytes()...))
	}
	c.Count(fmt.Sprintf("stream-calls=%d", min(ncalls, 4)))
}

// ---- vector-database records (op c14.vdb) ---------------------------------------------------------

func floatTok(f float64) string {
	b, _ := json.Marshal(f)
	return string(b)
}

func wireEmbs(emb [][]float64) string {
	parts := make([]string, len(emb))
	for i, v := range emb {
		if v == nil {
			parts[i] = "n"
			continue
		}
		ts := make([]string, len(v))
		for j, f := range v {
			ts[j] = floatTok(f)
		}
		parts[i] = "v" + strings.Join(ts, ",")
	}
	return "e=" + strings.Join(parts, "/")
}

func dumpJSONMap(m map[string]interface{}) string {
	if len(m) == 0 {
		return "~"
	}
	var parts []string
	for _, k := range hx.SortedKeys(m) {
		parts = append(parts, hx.HexS(k)+":"+dumpJSONVal(m[k]))
	}
	return strings.Join(parts, ",")
}

func numToks(v interface{}, sep string) string {
	a, _ := v.([]interface{})
	if len(a) == 0 {
		return "~"
	}
	ts := make([]string, len(a))
	for i, e := range a {
		if n, ok := e.(json.Number); ok {
			ts[i] = n.String()
		} else {
			ts[i] = "?"
		}
	}
	return strings.Join(ts, sep)
}

func hexStrings(v interface{}) string {
	a, _ := v.([]interface{})
	if len(a) == 0 {
		return "~"
	}
	hs := make([]string, len(a))
	for i, e := range a {
		hs[i] = hx.HexS(str(e))
	}
	return strings.Join(hs, ",")
}

func joinOrNone(parts []string) string {
	if len(parts) == 0 {
		return "none"
	}
	return strings.Join(parts, ";")
}

// genEmbeddingsWild: like genEmbeddings, plus empty non-nil vectors and more vectors than chunks.
func genEmbeddingsWild(r *hx.Rng, n int) [][]float64 {
	emb := genEmbeddings(r, n)
	if emb == nil {
		if r.Chance(1, 3) {
			return [][]float64{}
		}
		return nil
	}
	for i := range emb {
		if emb[i] == nil && r.Chance(1, 3) {
			emb[i] = []float64{}
		}
	}
	if r.Chance(1, 6) {
		emb = append(emb, []float64{0.5})
	}
	return emb
}

func checkVDBRecords(c *hx.Ctx, kase caseID, r *hx.Rng, chunks []*rag.Chunk) {
	kase.What = "vdb-records"
	emb := genEmbeddingsWild(r, len(chunks))
	class := hx.Pick(r, []string{"Chunk", "Doc \"x\"", "日本", ""})
	ee := rag.NewEmbeddingExporter()
	var pb, cb, wb bytes.Buffer
	var e1, e2, e3 error
	var prep []rag.EmbeddingRecord
	p := hx.Safe(func() {
		e1 = ee.ExportForPinecone(chunks, emb, &pb)
		e2 = ee.ExportForChroma(chunks, emb, &cb)
		e3 = ee.ExportForWeaviate(chunks, emb, class, &wb)
		prep = ee.PrepareForVectorDB(chunks)
	})
	if !chk(c, "C14/panic-vectordb", p == "", kase, func() string { return p }) {
		return
	}
	out := "err"
	var pdoc, cdoc map[string]interface{}
	wrecs, werr := parseJSONLines(wb.String())
	if chk(c, "C14/pinecone-wellformed", e1 == nil && decodeOne(pb.Bytes(), &pdoc) == nil, kase, func() string { return clip(pb.String()) }) &&
		chk(c, "C14/chroma-wellformed", e2 == nil && decodeOne(cb.Bytes(), &cdoc) == nil, kase, func() string { return clip(cb.String()) }) &&
		chk(c, "C14/weaviate-wellformed", e3 == nil && werr == nil, kase, func() string { return clip(wb.String()) }) {
		var ps, ms, ws, rs []string
		vecs, _ := pdoc["vectors"].([]interface{})
		for _, v := range vecs {
			rec := asObj(v)
			ps = append(ps, hx.HexS(str(rec["id"]))+"|"+numToks(rec["values"], "+")+"|"+dumpJSONMap(asObj(rec["metadata"])))
		}
		embs := "~"
		if raw, ok := cdoc["embeddings"].([]interface{}); ok {
			es := make([]string, len(raw))
			for i, e := range raw {
				if e == nil {
					es[i] = "n"
				} else if a, _ := e.([]interface{}); len(a) == 0 {
					es[i] = "v"
				} else {
					es[i] = "v" + numToks(e, ",")
				}
			}
			embs = strings.Join(es, "/")
		}
		mds, _ := cdoc["metadatas"].([]interface{})
		for _, m := range mds {
			ms = append(ms, dumpJSONMap(asObj(m)))
		}
		for _, rec := range wrecs {
			ws = append(ws, hx.HexS(str(rec["class"]))+"|"+hx.HexS(str(rec["id"]))+"|"+dumpJSONMap(asObj(rec["properties"]))+"|"+numToks(rec["vector"], "+"))
		}
		for _, rec := range prep {
			rs = append(rs, hx.HexS(rec.ID)+"|"+hx.HexS(rec.Text)+"|"+dumpTypedMap(rec.Metadata))
		}
		// PrepareForVectorDB: one record per chunk, in order, same id and text
		okPrep := len(prep) == len(chunks)
		for i := 0; okPrep && i < len(chunks); i++ {
			okPrep = prep[i].ID == chunks[i].ID && prep[i].Text == chunks[i].Text
		}
		chk(c, "C14/prepare-record-per-chunk", okPrep, kase, func() string {
			return fmt.Sprintf("PrepareForVectorDB returned %d records for %d chunks or changed an id/text", len(prep), len(chunks))
		})
		out = "P " + joinOrNone(ps) + " C " + hexStrings(cdoc["ids"]) + "|" + hexStrings(cdoc["documents"]) + "|" + embs + "|" + joinOrNone(ms) +
			" W " + joinOrNone(ws) + " R " + joinOrNone(rs)
	}
	c.Op("c14.vdb "+wireEmbs(emb)+" "+hx.HexS(class)+" "+wireChunks(chunks), out)
	if e1 == nil && e2 == nil && e3 == nil {
		c.Op("c14.vdbtext "+wireEmbs(emb)+" "+hx.HexS(class)+" "+wireChunks(chunks),
			"P "+hx.Hex(pb.Bytes())+" C "+hx.Hex(cb.Bytes())+" W "+hx.Hex(wb.Bytes()))
		caseTexts = append(caseTexts, append([]byte(nil), pb.Bytes()...), append([]byte(nil), cb.Bytes()...))
		if wb.Len() > 0 {
			caseLines = append(caseLines, append([]byte(nil), wb.Bytes()...))
		}
	}
	switch {
	case emb == nil:
		c.Count("vdb-embeddings-nil")
	case len(emb) == 0:
		c.Count("vdb-embeddings-empty")
	case len(emb) < len(chunks):
		c.Count("vdb-embeddings-fewer-than-chunks")
	case len(emb) > len(chunks):
		c.Count("vdb-embeddings-more-than-chunks")
	default:
		c.Count("vdb-embeddings-one-per-chunk")
	}
}

// checkAPI: the per-case part of the ops added with Model/ExportApi.lean.
func checkAPI(c *hx.Ctx, kase caseID, r *hx.Rng, chunks []*rag.Chunk) {
	checkBatchRun(c, kase, r.Fork(0xA1), chunks)
	checkStreamCalls(c, kase, r.Fork(0xA2), chunks)
	checkVDBRecords(c, kase, r.Fork(0xA3), chunks)
	checkCollection(c, kase, r.Fork(0xA5), chunks)
}
