package c14

import (
	"fmt"
	"strconv"
	"strings"

	"github.com/tsawler/tabula/rag"

	"verifharness/hx"
)

// fragments the adversarial strings are assembled from (all valid UTF-8)
var frags = []string{
	",", "\t", "\"", "\"\"", "\r\n", "\n", "\r", "\x00", "\x01", "\x7f", "😀", "é", "É", "日本語", "ß", "Ω",
	"{\"a\":1}", "[1,2", "\"}]", "\\", "\\.", "\\n", " ", "  ", "'", ";", "|", "<b>&amp;</b>", " ", "\u0085", "\u00a0",
	"\ufeff", "meta_", "null", "true", "-1", "1e5", "=cmd()", "a", "B", "word", "Section", "Chapter 1", "x,y", "[", "]", ".", "#",
}

func advString(r *hx.Rng, maxParts int) string {
	if r.Chance(1, 10) {
		return ""
	}
	n := r.Range(1, maxParts)
	var sb strings.Builder
	for i := 0; i < n; i++ {
		sb.WriteString(hx.Pick(r, frags))
	}
	return sb.String()
}

func tameOrAdv(r *hx.Rng, tame []string, maxParts int) string {
	if r.Chance(1, 3) {
		return hx.Pick(r, tame)
	}
	return advString(r, maxParts)
}

var elementTypes = []string{"paragraph", "Table", "LIST", "heading", "image", "code,block", "List", "table"}
var tameTitles = []string{"Report", "Annual Report 2024", "Q3, \"final\"", ""}
var tameSections = []string{"Introduction", "Data", "Summary", "Intro, part 2", "A\tB"}

func genChunks(r *hx.Rng) []*rag.Chunk {
	n := r.Range(0, 7)
	if r.Chance(1, 12) {
		n = r.Range(8, 20)
	}
	title := tameOrAdv(r, tameTitles, 4)
	chunks := make([]*rag.Chunk, n)
	for i := range chunks {
		id := fmt.Sprintf("chunk-%d", i)
		if r.Chance(1, 5) {
			id = advString(r, 3) + "#" + strconv.Itoa(i)
		}
		var path []string
		for k := r.Intn(4); k > 0; k-- {
			path = append(path, tameOrAdv(r, tameSections, 3))
		}
		sect := ""
		if len(path) > 0 && r.Chance(3, 4) {
			sect = path[len(path)-1]
		} else if r.Chance(1, 2) {
			sect = tameOrAdv(r, tameSections, 3)
		}
		var et, children []string
		for k := r.Intn(4); k > 0; k-- {
			et = append(et, hx.Pick(r, elementTypes))
		}
		for k := r.Intn(3); k > 0; k-- {
			children = append(children, tameOrAdv(r, []string{"chunk-9", "c,1"}, 2))
		}
		text := advString(r, 8)
		ps := r.Intn(6)
		pe := ps + r.Intn(3)
		if r.Chance(1, 10) {
			pe = 0
		}
		ci := i
		if r.Chance(1, 8) {
			ci = hx.Pick(r, []int{-1, 0, 1 << 40, -(1 << 53) - 1, 7})
		}
		m := rag.ChunkMetadata{
			DocumentTitle: title, SectionPath: path, SectionTitle: sect, HeadingLevel: r.Intn(7),
			PageStart: ps, PageEnd: pe, ChunkIndex: ci, TotalChunks: hx.Pick(r, []int{0, n, n, 1 << 33}),
			Level: rag.ChunkLevel(r.Intn(4)), ElementTypes: et, ChildIDs: children,
			HasTable: r.Chance(1, 3), HasList: r.Chance(1, 3), HasImage: r.Chance(1, 4),
			CharCount: len(text), WordCount: len(strings.Fields(text)), EstimatedTokens: len(text) / 4,
		}
		if r.Chance(1, 4) {
			m.ParentID = tameOrAdv(r, []string{"chunk-0", "p\"1"}, 2)
		}
		if r.Chance(1, 6) {
			m.CharCount, m.WordCount, m.EstimatedTokens = 0, 0, r.Intn(50)
		}
		chunks[i] = &rag.Chunk{ID: id, Text: text, Metadata: m}
	}
	return chunks
}

var metaFieldNames = []string{"document_title", "section_path", "section_title", "heading_level", "page_start", "page_end",
	"chunk_index", "total_chunks", "level", "parent_id", "child_ids", "element_types", "has_table", "has_list", "has_image",
	"char_count", "word_count", "estimated_tokens"}

// genConfig draws an export configuration for the given format: one of the library's own
// constructors, then toggles on every switch the property's quantifier lists.
func genConfig(r *hx.Rng, format rag.ExportFormat) rag.ExportConfig {
	var cfg rag.ExportConfig
	switch r.Intn(6) {
	case 0:
		cfg = rag.DefaultExportConfig()
	case 1:
		cfg = rag.VectorDBExportConfig()
		cfg.CSVDelimiter = ','
	default:
		switch format {
		case rag.ExportFormatCSV:
			cfg = rag.CSVExportConfig()
		case rag.ExportFormatTSV:
			cfg = rag.TSVExportConfig()
		case rag.ExportFormatJSON:
			cfg = rag.DefaultExportConfig()
		default:
			cfg = rag.JSONLExportConfig()
		}
	}
	cfg.Format = format // the library's own idiom (see ToJSON): take a config, set Format
	if r.Chance(1, 3) {
		cfg.IncludeMetadata = !cfg.IncludeMetadata
	}
	switch r.Intn(5) {
	case 0:
		cfg.MetadataFields = nil
	case 1:
		cfg.MetadataFields = []string{}
	case 2, 3:
		var fs []string
		for k := r.Range(1, 8); k > 0; k-- {
			fs = append(fs, hx.Pick(r, metaFieldNames))
		}
		if r.Chance(1, 3) {
			fs = append(fs, hx.Pick(r, []string{"bbox", "nonexistent", "meta_level", ""}))
		}
		cfg.MetadataFields = fs
	}
	if r.Chance(1, 4) {
		cfg.IncludeText = !cfg.IncludeText
	}
	if r.Chance(1, 4) {
		cfg.IncludeEmbeddings = !cfg.IncludeEmbeddings
	}
	if r.Chance(1, 2) {
		cfg.FlattenMetadata = !cfg.FlattenMetadata
	}
	if r.Chance(1, 3) {
		cfg.IncludeHeader = !cfg.IncludeHeader
	}
	if r.Chance(1, 3) {
		cfg.PrettyPrint = !cfg.PrettyPrint
	}
	if r.Chance(1, 3) {
		cfg.ChunkIDColumnName = hx.Pick(r, []string{"chunk_id", "id", "ID", "doc id"})
		cfg.TextColumnName = hx.Pick(r, []string{"text", "content", "body, \"quoted\""})
	}
	if format == rag.ExportFormatCSV && r.Chance(1, 4) {
		cfg.CSVDelimiter = hx.Pick(r, []rune{';', '|', 0, ','})
	}
	return cfg
}

// ---- wire encoding -------------------------------------------------------------

func wireList(xs []string) string {
	if len(xs) == 0 {
		return "~"
	}
	return hx.HexList(xs)
}

func b01(b bool) string {
	if b {
		return "1"
	}
	return "0"
}

func wireChunk(c *rag.Chunk) string {
	m := c.Metadata
	return strings.Join([]string{hx.HexS(c.ID), hx.HexS(c.Text), hx.HexS(m.DocumentTitle), hx.HexS(m.SectionTitle),
		wireList(m.SectionPath), hx.HexS(m.ParentID), wireList(m.ChildIDs), wireList(m.ElementTypes),
		strconv.Itoa(m.HeadingLevel), strconv.Itoa(m.PageStart), strconv.Itoa(m.PageEnd), strconv.Itoa(m.ChunkIndex),
		strconv.Itoa(m.TotalChunks), strconv.Itoa(int(m.Level)), strconv.Itoa(m.CharCount), strconv.Itoa(m.WordCount),
		strconv.Itoa(m.EstimatedTokens), b01(m.HasTable) + b01(m.HasList) + b01(m.HasImage)}, ".")
}

func wireChunks(cs []*rag.Chunk) string {
	parts := make([]string, len(cs))
	for i, c := range cs {
		parts[i] = wireChunk(c)
	}
	return "c=" + strings.Join(parts, "/")
}

func formatName(f rag.ExportFormat) string {
	switch f {
	case rag.ExportFormatJSONL:
		return "jsonl"
	case rag.ExportFormatJSON:
		return "json"
	case rag.ExportFormatCSV:
		return "csv"
	case rag.ExportFormatTSV:
		return "tsv"
	}
	return "other"
}

func wireConfig(cfg rag.ExportConfig) string {
	fields := "~"
	if cfg.MetadataFields != nil {
		fields = "=" + hx.HexList(cfg.MetadataFields)
	}
	return "g=" + strings.Join([]string{formatName(cfg.Format), b01(cfg.IncludeMetadata), fields, b01(cfg.IncludeText),
		b01(cfg.IncludeEmbeddings), b01(cfg.FlattenMetadata), strconv.Itoa(int(cfg.CSVDelimiter)), b01(cfg.IncludeHeader),
		b01(cfg.PrettyPrint), hx.HexS(cfg.TextColumnName), hx.HexS(cfg.ChunkIDColumnName)}, ";")
}

func wireRow(r []string) string {
	if len(r) == 0 {
		return "~"
	}
	return hx.HexList(r)
}

func wireRows(rs [][]string) string {
	if len(rs) == 0 {
		return "none"
	}
	parts := make([]string, len(rs))
	for i, r := range rs {
		parts[i] = wireRow(r)
	}
	return strings.Join(parts, ";")
}
