package c14

import (
	"bytes"
	"encoding/csv"
	"encoding/json"
	"errors"
	"fmt"
	"io"
	"math"
	"math/big"
	"os"
	"path/filepath"
	"regexp"
	"sort"
	"strconv"
	"strings"
	"unicode/utf8"

	"github.com/tsawler/tabula/rag"

	"verifharness/hx"
)

// Second deepening of C14: the INVERSE READER (export text -> chunks), every delimiter rune,
// every int batch size, the file-writing entry points, and which configuration fields an
// export looks at. Ops: c14.decode, c14.project, c14.csvr, c14.csvreadr, c14.batchint,
// c14.tofile, c14.tofiles (Handlers/C14.lean part 5).

// ---- a JSON text as a tree, members in text order (encoding/json token walk) --------------------

type jnode struct {
	kind  byte // z null, t, f, n number, s string, a array, o object
	s     string
	items []*jnode
	keys  []string
}

func walkTree(dec *json.Decoder) (*jnode, error) {
	tok, err := dec.Token()
	if err != nil {
		return nil, err
	}
	switch t := tok.(type) {
	case json.Delim:
		switch t {
		case '[':
			n := &jnode{kind: 'a'}
			for dec.More() {
				x, err := walkTree(dec)
				if err != nil {
					return nil, err
				}
				n.items = append(n.items, x)
			}
			_, err := dec.Token()
			return n, err
		case '{':
			n := &jnode{kind: 'o'}
			for dec.More() {
				ktok, err := dec.Token()
				if err != nil {
					return nil, err
				}
				k, ok := ktok.(string)
				if !ok {
					return nil, errors.New("object key is not a string")
				}
				x, err := walkTree(dec)
				if err != nil {
					return nil, err
				}
				n.keys = append(n.keys, k)
				n.items = append(n.items, x)
			}
			_, err := dec.Token()
			return n, err
		}
		return nil, errors.New("unexpected delimiter")
	case string:
		return &jnode{kind: 's', s: t}, nil
	case json.Number:
		return &jnode{kind: 'n', s: t.String()}, nil
	case bool:
		if t {
			return &jnode{kind: 't'}, nil
		}
		return &jnode{kind: 'f'}, nil
	case nil:
		return &jnode{kind: 'z'}, nil
	}
	return nil, errors.New("unexpected token")
}

// parseTree: exactly one JSON value for encoding/json.
func parseTree(data []byte) (*jnode, error) {
	if !json.Valid(data) {
		return nil, errors.New("not a JSON text")
	}
	dec := json.NewDecoder(bytes.NewReader(data))
	dec.UseNumber()
	n, err := walkTree(dec)
	if err != nil {
		return nil, err
	}
	if _, err := dec.Token(); err != io.EOF {
		return nil, errors.New("trailing data")
	}
	return n, nil
}

// get: the first member of that name.
func (n *jnode) get(k string) *jnode {
	for i, key := range n.keys {
		if key == k {
			return n.items[i]
		}
	}
	return nil
}

// ---- the harness's own decoder of the export conventions (independent of the Lean model) ------

var errUndecodable = errors.New("undecodable")
var intText = regexp.MustCompile(`^-?[0-9]+$`)

func decInt(s string) (string, error) {
	if !intText.MatchString(s) {
		return "", errUndecodable
	}
	v, _ := new(big.Int).SetString(s, 10)
	return v.String(), nil
}

var levelNumbers = map[string]string{"document": "0", "section": "1", "paragraph": "2", "sentence": "3"}

type decoded struct {
	id, text, title, sect, parent             string
	path, children, etypes                    []string
	hl, ps, pe, ci, tc, lvl, cc, wc, et       string
	table, list, image                        bool
}

func (d *decoded) wire() string {
	return strings.Join([]string{hx.HexS(d.id), hx.HexS(d.text), hx.HexS(d.title), hx.HexS(d.sect), wireList(d.path),
		hx.HexS(d.parent), wireList(d.children), wireList(d.etypes), d.hl, d.ps, d.pe, d.ci, d.tc, d.lvl, d.cc, d.wc, d.et,
		b01(d.table) + b01(d.list) + b01(d.image)}, ".")
}

func wireDecoded(ds []*decoded) string {
	parts := make([]string, len(ds))
	for i, d := range ds {
		parts[i] = d.wire()
	}
	return "c=" + strings.Join(parts, "/")
}

func decodeJSONRecord(n *jnode) (*decoded, error) {
	if n.kind != 'o' {
		return nil, errUndecodable
	}
	mm := &jnode{kind: 'o'}
	if md := n.get("metadata"); md != nil {
		if md.kind != 'o' {
			return nil, errUndecodable
		}
		mm = md
	}
	var bad bool
	str := func(x *jnode) string {
		if x == nil {
			return ""
		}
		if x.kind != 's' {
			bad = true
		}
		return x.s
	}
	num := func(x *jnode) string {
		if x == nil {
			return "0"
		}
		if x.kind != 'n' {
			bad = true
			return ""
		}
		v, err := decInt(x.s)
		if err != nil {
			bad = true
		}
		return v
	}
	flag := func(x *jnode) bool {
		if x == nil {
			return false
		}
		if x.kind != 't' && x.kind != 'f' {
			bad = true
		}
		return x.kind == 't'
	}
	list := func(x *jnode) []string {
		if x == nil {
			return nil
		}
		if x.kind != 'a' {
			bad = true
			return nil
		}
		var out []string
		for _, it := range x.items {
			if it.kind != 's' {
				bad = true
			}
			out = append(out, it.s)
		}
		return out
	}
	level := func(x *jnode) string {
		if x == nil {
			return "0"
		}
		v, ok := levelNumbers[x.s]
		if x.kind != 's' || !ok {
			bad = true
		}
		return v
	}
	d := &decoded{
		id: str(n.get("id")), text: str(n.get("text")), title: str(n.get("document_title")), sect: str(n.get("section_title")),
		path: list(n.get("section_path")), ps: num(n.get("page_start")), pe: num(n.get("page_end")), ci: num(n.get("chunk_index")),
		table: flag(n.get("has_table")), list: flag(n.get("has_list")), image: flag(n.get("has_image")),
		hl: num(mm.get("heading_level")), tc: num(mm.get("total_chunks")), lvl: level(mm.get("level")), parent: str(mm.get("parent_id")),
		children: list(mm.get("child_ids")), etypes: list(mm.get("element_types")), cc: num(mm.get("char_count")),
		wc: num(mm.get("word_count")), et: num(mm.get("estimated_tokens")),
	}
	if bad {
		return nil, errUndecodable
	}
	return d, nil
}

func delimBytes(cfg rag.ExportConfig) []byte { return expectedDelim(cfg) }

// decodeExportText: standard parser of the configured format, then the decoder.
func decodeExportText(cfg rag.ExportConfig, text []byte) ([]*decoded, error) {
	switch cfg.Format {
	case rag.ExportFormatJSON:
		root, err := parseTree(text)
		if err != nil || root.kind != 'a' {
			return nil, errUndecodable
		}
		out := make([]*decoded, 0, len(root.items))
		for _, it := range root.items {
			d, err := decodeJSONRecord(it)
			if err != nil {
				return nil, err
			}
			out = append(out, d)
		}
		return out, nil
	case rag.ExportFormatJSONL:
		lines := bytes.Split(text, []byte("\n"))
		if len(lines) > 0 && len(lines[len(lines)-1]) == 0 {
			lines = lines[:len(lines)-1]
		}
		out := make([]*decoded, 0, len(lines))
		for _, ln := range lines {
			root, err := parseTree(ln)
			if err != nil {
				return nil, errUndecodable
			}
			d, err := decodeJSONRecord(root)
			if err != nil {
				return nil, err
			}
			out = append(out, d)
		}
		return out, nil
	case rag.ExportFormatCSV, rag.ExportFormatTSV:
		if !cfg.IncludeHeader {
			return nil, errUndecodable // the columns are not known from the text
		}
		recs, err := readRFC4180D(text, delimBytes(cfg))
		if err != nil || len(recs) == 0 {
			return nil, errUndecodable
		}
		header := recs[0]
		out := make([]*decoded, 0, len(recs)-1)
		for _, row := range recs[1:] {
			d, err := decodeCSVRow(cfg, header, row)
			if err != nil {
				return nil, err
			}
			out = append(out, d)
		}
		return out, nil
	}
	return nil, errUndecodable
}

func decodeCSVRow(cfg rag.ExportConfig, header, row []string) (*decoded, error) {
	if len(header) != len(row) {
		return nil, errUndecodable
	}
	cell := func(name string) string {
		for j, h := range header {
			if h == name {
				return row[j]
			}
		}
		return ""
	}
	var bad bool
	num := func(s string) string {
		if s == "" {
			return "0"
		}
		v, err := decInt(s)
		if err != nil {
			bad = true
		}
		return v
	}
	flag := func(s string) bool {
		if s != "true" && s != "false" {
			bad = true
		}
		return s == "true"
	}
	list := func(s string) []string {
		if s == "" {
			return nil
		}
		if len(s) < 2 || s[0] != '[' || s[len(s)-1] != ']' {
			bad = true
			return nil
		}
		return strings.Split(s[1:len(s)-1], ",")
	}
	level := func(s string) string {
		if s == "" {
			return "0"
		}
		v, ok := levelNumbers[s]
		if !ok {
			bad = true
		}
		return v
	}
	d := &decoded{
		id: cell(cfg.ChunkIDColumnName), title: cell("document_title"), sect: cell("section_title"),
		path: list(cell("meta_section_path")), hl: num(cell("meta_heading_level")), ps: num(cell("page_start")), pe: num(cell("page_end")),
		ci: num(cell("chunk_index")), tc: num(cell("meta_total_chunks")), lvl: level(cell("meta_level")), parent: cell("meta_parent_id"),
		children: list(cell("meta_child_ids")), etypes: list(cell("meta_element_types")),
		table: flag(cell("has_table")), list: flag(cell("has_list")), image: flag(cell("has_image")),
		cc: num(cell("meta_char_count")), wc: num(cell("meta_word_count")), et: num(cell("meta_estimated_tokens")),
	}
	if cfg.IncludeText {
		d.text = cell(cfg.TextColumnName)
	}
	if bad {
		return nil, errUndecodable
	}
	return d, nil
}

// projectChunkGo: what an export under cfg can carry of a chunk (written from the property text:
// id, text when included, the positional fields always, every other field when the configuration
// exports it; JSON records carry section_path at top level).
func projectChunkGo(cfg rag.ExportConfig, ch *rag.Chunk, pathAlways bool) *decoded {
	m := ch.Metadata
	keep := func(f string) bool { return fieldAllowed(cfg, f) }
	it := func(v int, f string) string {
		if keep(f) {
			return strconv.Itoa(v)
		}
		return "0"
	}
	st := func(v string, f string) string {
		if keep(f) {
			return v
		}
		return ""
	}
	ls := func(v []string, f string) []string {
		if keep(f) {
			return v
		}
		return nil
	}
	d := &decoded{id: ch.ID, title: m.DocumentTitle, sect: m.SectionTitle, ps: strconv.Itoa(m.PageStart), pe: strconv.Itoa(m.PageEnd),
		ci: strconv.Itoa(m.ChunkIndex), table: m.HasTable, list: m.HasList, image: m.HasImage,
		hl: it(m.HeadingLevel, "heading_level"), tc: it(m.TotalChunks, "total_chunks"), lvl: it(int(m.Level), "level"),
		parent: st(m.ParentID, "parent_id"), children: ls(m.ChildIDs, "child_ids"), etypes: ls(m.ElementTypes, "element_types"),
		cc: it(m.CharCount, "char_count"), wc: it(m.WordCount, "word_count"), et: it(m.EstimatedTokens, "estimated_tokens")}
	if cfg.IncludeText {
		d.text = ch.Text
	}
	if pathAlways || keep("section_path") {
		d.path = m.SectionPath
	}
	return d
}

func chunkNormalGo(ch *rag.Chunk) bool {
	m := ch.Metadata
	return m.HeadingLevel >= 0 && m.TotalChunks >= 0 && m.CharCount >= 0 && m.WordCount >= 0 && m.EstimatedTokens >= 0 &&
		m.Level >= 0 && m.Level <= 3
}

func listHasComma(cfg rag.ExportConfig, chunks []*rag.Chunk) bool {
	for _, ch := range chunks {
		for f, l := range map[string][]string{"section_path": ch.Metadata.SectionPath, "child_ids": ch.Metadata.ChildIDs, "element_types": ch.Metadata.ElementTypes} {
			if !fieldAllowed(cfg, f) {
				continue
			}
			for _, s := range l {
				if strings.Contains(s, ",") {
					return true
				}
			}
		}
	}
	return false
}

func isJSONFormat(f rag.ExportFormat) bool {
	return f == rag.ExportFormatJSON || f == rag.ExportFormatJSONL
}

// emitDecode: op c14.decode on one text (skipped for JSON texts the model's reader states nothing about).
func emitDecode(c *hx.Ctx, cfg rag.ExportConfig, text []byte, bucket string) {
	if len(text) > 6000 {
		return
	}
	if isJSONFormat(cfg.Format) && !comparable(text) {
		c.Count("decode-skipped-not-comparable")
		return
	}
	out := "err"
	if ds, err := decodeExportText(cfg, text); err == nil {
		out = wireDecoded(ds)
	}
	c.Op("c14.decode "+wireConfig(cfg)+" "+hx.Hex(text), out)
	if out == "err" {
		c.Count("decode-" + bucket + "-rejected")
	} else {
		c.Count("decode-" + bucket + "-accepted")
	}
}

var handJSONRecords = []string{
	`{"id":"a"}`, `{"id":1}`, `{"metadata":[]}`, `{"metadata":null}`, `{"metadata":{"level":"unknown"}}`, `{"text":null}`,
	`{"metadata":{"level":"section","heading_level":2,"child_ids":["x",""],"parent_id":"p"},"id":"z","has_list":true}`,
	`{"page_start":1e2}`, `{"page_start":-0}`, `{"page_start":1.0}`, `{"page_start":-12,"page_end":"3"}`, `{"has_table":false}`,
	`{"has_table":"true"}`, `{"section_path":["a",1]}`, `{"section_path":[]}`, `{"section_path":"a"}`, `{"id":"a","id":"b"}`,
	`{"metadata":{"char_count":123456789012345678901234567890,"word_count":-5}}`, `{"metadata":{"level":3}}`,
	`{"metadata":{"element_types":["paragraph"],"total_chunks":0,"estimated_tokens":7}}`, `{}`, `1`, `[]`, `"x"`, `null`,
	`{"metadata":{"metadata":{"level":"unknown"}},"chunk_index":-9223372036854775808}`,
}

var handCSVTexts = []string{
	"chunk_id,text,chunk_index,document_title,page_start,page_end,section_title,has_table,has_list,has_image\nx,y,1,t,2,3,s,true,false,true\n",
	"chunk_id,text,chunk_index,document_title,page_start,page_end,section_title,has_table,has_list\nx,y,1,t,2,3,s,true,false\n",
	"chunk_id,chunk_index,has_table,has_list,has_image,meta_level,meta_child_ids\nx,,true,true,false,section,\"[a,,b]\"\n",
	"chunk_id,chunk_index,has_table,has_list,has_image,meta_level\nx,+1,true,true,false,unknown\n",
	"chunk_id,chunk_index,has_table,has_list,has_image,meta_child_ids,meta_element_types,meta_section_path\nx,-,true,true,false,[,[],x\n",
	"chunk_id,chunk_index,has_table,has_list,has_image,meta_child_ids,meta_element_types\nx,-0,false,false,false,[],[ ]\n",
	"chunk_id,chunk_id,chunk_index,has_table,has_list,has_image\nfirst,second,7,false,false,false\n",
	"chunk_id,chunk_index,has_table,has_list,has_image\nx,1,false,false\n",
	"chunk_id,chunk_index,has_table,has_list,has_image\nx,1 ,false,false,false\n",
	"chunk_id,chunk_index,has_table,has_list,has_image,meta_char_count\r\nx,12,false,false,True,4\r\n",
	"chunk_id,chunk_index,has_table,has_list,has_image,meta_char_count,meta_parent_id\n\"x\"\"y\",99999999999999999999,false,false,false,007,\"p,q\"\n",
	"", "\n", "chunk_id\n",
}

// checkDecode: the inverse reader on every kind of export text of the case, on damaged copies and
// on hand-made records; the statement-level oracle "parses back to the same chunks".
func checkDecode(c *hx.Ctx, kase caseID, r *hx.Rng, chunks []*rag.Chunk) {
	kase.What = "decode"
	// the projection itself (spec function of the theorems) against the harness's own
	for _, pa := range []bool{true, false} {
		cfg := genConfig(r, hx.Pick(r, allFormats))
		cs := chunks
		if r.Chance(1, 5) && len(chunks) > 0 {
			// a copy with fields outside the "absent = zero" convention
			cp := *chunks[0]
			cp.Metadata.CharCount = -r.Range(1, 9)
			cp.Metadata.Level = rag.ChunkLevel(hx.Pick(r, []int{-1, 4, 7}))
			cp.Metadata.HeadingLevel = -1
			cs = append([]*rag.Chunk{&cp}, chunks[1:]...)
			c.Count("project-with-abnormal-chunk")
		}
		ds := make([]*decoded, len(cs))
		var flags strings.Builder
		for i, ch := range cs {
			ds[i] = projectChunkGo(cfg, ch, pa)
			flags.WriteString(b01(chunkNormalGo(ch)))
		}
		c.Op("c14.project "+wireConfig(cfg)+" "+b01(pa)+" "+wireChunks(cs), flags.String()+"|"+wireDecoded(ds))
	}
	for _, f := range allFormats {
		cfg := genConfig(r, f)
		if r.Chance(1, 3) {
			// the library's full configurations: nothing may be lost
			cfg.IncludeText, cfg.IncludeMetadata, cfg.MetadataFields = true, true, nil
		}
		out, err := export(cfg, chunks)
		if err != nil {
			continue // reported by checkExport under its own key
		}
		kind := kindOf(cfg.Format)
		text := []byte(out)
		if isJSONFormat(f) || cfg.IncludeHeader {
			ds, derr := decodeExportText(cfg, text)
			want := make([]*decoded, len(chunks))
			for i, ch := range chunks {
				want[i] = projectChunkGo(cfg, ch, isJSONFormat(f))
			}
			same := derr == nil && wireDecoded(ds) == wireDecoded(want)
			key := "C14/" + kind + "-decode-same-chunks"
			if !same && !isJSONFormat(f) && listHasComma(cfg, chunks) {
				key = "C14/" + kind + "-field-meta-list" // the known finding, seen at collection level
			}
			chk(c, key, same, kase, func() string {
				got := "err"
				if derr == nil {
					got = wireDecoded(ds)
				}
				return fmt.Sprintf("%s under %s decodes to %s, want %s", kind, wireConfig(cfg), clip(got), clip(wireDecoded(want)))
			})
			if cfg.IncludeText && cfg.IncludeMetadata && cfg.MetadataFields == nil {
				c.Count("decode-full-config")
			}
		}
		emitDecode(c, cfg, text, kind)
		emitDecode(c, cfg, damage(r, text), kind+"-damaged")
	}
	// hand-made records
	for k := 0; k < 2; k++ {
		recs := []string{hx.Pick(r, handJSONRecords)}
		if r.Bool() {
			recs = append(recs, hx.Pick(r, handJSONRecords))
		}
		jcfg := rag.DefaultExportConfig()
		if r.Bool() {
			jcfg.Format = rag.ExportFormatJSON
			emitDecode(c, jcfg, []byte("["+strings.Join(recs, ",")+"]"), "hand-json")
		} else {
			emitDecode(c, jcfg, []byte(strings.Join(recs, "\n")+"\n"), "hand-jsonl")
		}
	}
	ccfg := rag.CSVExportConfig()
	if r.Chance(1, 4) {
		ccfg.IncludeText = false
	}
	emitDecode(c, ccfg, []byte(hx.Pick(r, handCSVTexts)), "hand-csv")
}

// ---- every delimiter rune --------------------------------------------------------------------------

func validDelimGo(r rune) bool { // encoding/csv's rule, restated
	return r != 0 && r != '"' && r != '\r' && r != '\n' && utf8.ValidRune(r) && r != utf8.RuneError
}

var validRunes = []rune{0x80, 0xA7, 0xFF, 0x7FF, 0x800, 0x2502, 0xD7FF, 0xE000, 0xFFFC, 0xFFFE, 0xFFFF, 0x10000, 0x1F600, 0x10FFFF,
	1, 0x7F, ' ', 'a', '0', '-', '[', ';', '\t', '\\', '.'}
var invalidRunes = []rune{0xFFFD, 0xD800, 0xDBFF, 0xDFFF, 0x110000, -1, math.MinInt32, math.MaxInt32, '"', '\n', '\r'}

func genRune(r *hx.Rng) rune {
	switch r.Intn(5) {
	case 0:
		return hx.Pick(r, invalidRunes)
	case 1:
		return rune(r.Range(1, 0x10FFFF)) // mostly 3- and 4-byte encodings, some surrogates
	default:
		return hx.Pick(r, validRunes)
	}
}

// runePieces: the delimiter itself, every proper prefix and suffix of its encoding, its bytes doubled.
func runePieces(d rune) []string {
	if !utf8.ValidRune(d) {
		return []string{"\xef\xbf\xbd", "\xef\xbf", "\xbd"}
	}
	enc := string(d)
	out := []string{enc, enc + enc}
	for i := 1; i < len(enc); i++ {
		out = append(out, enc[:i], enc[i:], enc[i:]+enc[:i])
	}
	return out
}

func checkRune(c *hx.Ctx, kase caseID, r *hx.Rng, chunks []*rag.Chunk) {
	kase.What = "rune-delimiter"
	d := genRune(r)
	pieces := append(runePieces(d), "\"", "\n", "\r\n", ",", "x", " lead", "")
	// (1) the assumed encoding/csv contract for that rune, on records made of the delimiter's own bytes
	nrows := r.Range(0, 3)
	rows := make([][]string, nrows)
	for i := range rows {
		rows[i] = make([]string, r.Range(1, 4))
		for j := range rows[i] {
			var sb strings.Builder
			for k := r.Range(0, 3); k > 0; k-- {
				sb.WriteString(hx.Pick(r, pieces))
			}
			rows[i][j] = sb.String()
		}
	}
	var buf bytes.Buffer
	w := csv.NewWriter(&buf)
	w.Comma = d
	var werr error
	for _, row := range rows {
		if err := w.Write(row); err != nil {
			werr = err
		}
	}
	w.Flush()
	var rw []string
	for _, row := range rows {
		rw = append(rw, wireRow(row))
	}
	out := hx.Hex(buf.Bytes())
	if werr != nil {
		out = "invalid"
	}
	c.Op(fmt.Sprintf("c14.csvr %d r=%s", d, strings.Join(rw, ";")), out)
	if validDelimGo(d) {
		delim := []byte(string(d))
		back, err := readRFC4180D(buf.Bytes(), delim)
		chk(c, "C14/csv-contract-roundtrip-rune", werr == nil && err == nil && fmt.Sprintf("%q", back) == fmt.Sprintf("%q", rows) && len(back) == len(rows), kase, func() string {
			return fmt.Sprintf("delimiter %U: rows %q written as %q read back as %q (%v, %v)", d, rows, buf.String(), back, werr, err)
		})
		data := append([]byte(nil), buf.Bytes()...)
		if r.Bool() && len(data) > 0 {
			for k := r.Range(1, 3); k > 0 && len(data) > 0; k-- {
				pos := r.Intn(len(data))
				piece := []byte(hx.Pick(r, append(runePieces(d), "\"", "\r", "\n", "x")))
				switch r.Intn(3) {
				case 0:
					data[pos] = piece[0]
				case 1:
					data = append(data[:pos], data[pos+1:]...)
				default:
					data = append(data[:pos], append(piece, data[pos:]...)...)
				}
			}
		}
		recs, rerr := readRFC4180D(data, delim)
		rout := "err"
		if rerr == nil {
			rout = wireRows(recs)
		}
		c.Op(fmt.Sprintf("c14.csvreadr %d %s", d, hx.Hex(data)), rout)
		c.Count(fmt.Sprintf("rune-delimiter-valid-%d-byte", len(delim)))
	} else {
		c.Count("rune-delimiter-invalid")
	}
	// (2) the exporter under that delimiter, on the case's collection plus chunks holding the delimiter's bytes
	cs := append([]*rag.Chunk(nil), chunks...)
	for k := r.Range(0, 2); k > 0; k-- {
		var sb strings.Builder
		for j := r.Range(1, 4); j > 0; j-- {
			sb.WriteString(hx.Pick(r, pieces))
		}
		cs = append(cs, &rag.Chunk{ID: fmt.Sprintf("r%d", k) + hx.Pick(r, pieces), Text: sb.String(),
			Metadata: rag.ChunkMetadata{DocumentTitle: hx.Pick(r, pieces), SectionPath: []string{hx.Pick(r, pieces)}, ChunkIndex: k, Level: rag.ChunkLevel(r.Intn(4))}})
	}
	cfg := genConfig(r, rag.ExportFormatCSV)
	cfg.CSVDelimiter = d
	if r.Chance(1, 6) {
		cfg.Format = rag.ExportFormatTSV // must not look at the delimiter at all
	}
	text, err := export(cfg, cs)
	somethingToWrite := cfg.IncludeHeader || len(cs) > 0
	switch {
	case cfg.Format == rag.ExportFormatTSV || validDelimGo(d) || d == 0:
		checkExport(c, kase, fmt.Sprintf("delimiter %d", d), cfg, cs, text, err, true)
		if err == nil {
			// the records do not depend on the delimiter: the same export with a comma parses to the same records
			cfg2 := cfg
			cfg2.Format, cfg2.CSVDelimiter = rag.ExportFormatCSV, ','
			text2, err2 := export(cfg2, cs)
			a, e1 := readRFC4180D([]byte(text), delimBytes(cfg))
			b, e2 := readRFC4180D([]byte(text2), []byte{','})
			chk(c, "C14/csv-records-independent-of-delimiter", err2 == nil && e1 == nil && e2 == nil && fmt.Sprintf("%q", a) == fmt.Sprintf("%q", b), kase, func() string {
				return fmt.Sprintf("delimiter %U: records %q, with a comma %q (%v %v %v)", d, clip(fmt.Sprint(a)), clip(fmt.Sprint(b)), err2, e1, e2)
			})
			emitDecode(c, cfg, []byte(text), "rune")
		}
	default:
		chk(c, "C14/csv-invalid-delimiter-accepted", (err != nil) == somethingToWrite && (err != nil || text == ""), kase, func() string {
			return fmt.Sprintf("delimiter %d (rejected by encoding/csv): err=%v, %d bytes written", d, err, len(text))
		})
	}
	c.Op("c14.tostring "+wireConfig(cfg)+" "+wireChunks(cs), okHex(text, err))
}

// ---- every int batch size --------------------------------------------------------------------------

func checkBatchInt(c *hx.Ctx, kase caseID, r *hx.Rng, chunks []*rag.Chunk) {
	kase.What = "batch-int"
	n := len(chunks)
	size := hx.Pick(r, []int{0, 0, -1, -n, -n - 1, math.MinInt, math.MinInt32, -r.Range(1, 1000), 1, n, n + 1, math.MaxInt, r.Range(1, n+2)})
	cfg := genConfigWild(r)
	fail := -1
	if r.Chance(1, 3) {
		fail = r.Intn(n + 2)
	}
	var got []rag.ExportBatch
	var err error
	p := hx.Safe(func() {
		err = rag.NewBatchExporterWithConfig(size, cfg).Export(chunks, func(b rag.ExportBatch) error {
			got = append(got, b)
			if len(got)-1 == fail {
				return errors.New("callback refuses")
			}
			return nil
		})
	})
	if size <= 0 {
		// a batch size that is no size: an error, not a panic, and nothing delivered
		chk(c, "C14/batch-size-nonpositive", p == "" && err != nil && len(got) == 0, kase, func() string {
			return fmt.Sprintf("batch size %d, %d chunks: panic=%q err=%v, callback invoked %d times", size, n, p, err, len(got))
		})
		c.Count("batchint-nonpositive")
	} else {
		c.Count("batchint-positive")
	}
	if p != "" {
		c.Op(fmt.Sprintf("c14.batchint %s %d %d %s", wireConfig(cfg), size, fail, wireChunks(chunks)), "panic")
		return
	}
	parts := make([]string, len(got))
	for k, b := range got {
		parts[k] = fmt.Sprintf("%d:%d:%d:%d", b.BatchNumber, b.StartIndex, b.EndIndex, b.ChunkCount)
	}
	out := "none"
	if len(parts) > 0 {
		out = strings.Join(parts, ",")
	}
	c.Op(fmt.Sprintf("c14.batchint %s %d %d %s", wireConfig(cfg), size, fail, wireChunks(chunks)), batchResult(err)+"|"+out)
}

func batchResult(err error) string {
	if err == nil {
		return "ok"
	}
	var k int
	msg := err.Error()
	switch {
	case strings.HasPrefix(msg, "batch size must be positive"):
		return "sizeerr"
	case strings.HasPrefix(msg, "processing batch "):
		fmt.Sscanf(msg, "processing batch %d:", &k)
		return "cberr:" + strconv.Itoa(k)
	case strings.HasPrefix(msg, "exporting batch starting at "):
		fmt.Sscanf(msg, "exporting batch starting at %d:", &k)
		return "experr:" + strconv.Itoa(k)
	}
	return "err"
}

// ---- files -------------------------------------------------------------------------------------------

func dumpDir(dir string) string {
	ents, _ := os.ReadDir(dir)
	var names []string
	for _, e := range ents {
		if e.Type().IsRegular() {
			names = append(names, e.Name())
		}
	}
	sort.Strings(names)
	if len(names) == 0 {
		return "none"
	}
	parts := make([]string, len(names))
	for i, nm := range names {
		data, _ := os.ReadFile(filepath.Join(dir, nm))
		parts[i] = hx.HexS(nm) + ":" + hx.Hex(data)
	}
	return strings.Join(parts, ",")
}

var filePatterns = []string{"b%d.out", "b%03d.out", "%x.bin", "part-%d", "same%[2]d.out", "z%v"}

func checkFiles(c *hx.Ctx, kase caseID, r *hx.Rng, chunks []*rag.Chunk) {
	kase.What = "files"
	dir, err := os.MkdirTemp("", "c14-*")
	if err != nil {
		c.Note("C14 files: no temp dir: %v", err)
		return
	}
	defer os.RemoveAll(dir)
	cc := rag.NewChunkCollection(chunks)

	// ExportToFile / ChunkCollection.ExportToFile
	cfg := genConfigWild(r)
	if r.Chance(1, 4) {
		cfg.Format, cfg.CSVDelimiter = rag.ExportFormatCSV, genRune(r)
	}
	d1 := filepath.Join(dir, "one")
	os.Mkdir(d1, 0o755)
	path := filepath.Join(d1, "out.dat")
	creatable := !r.Chance(1, 5)
	pre := "-"
	if !creatable {
		os.Mkdir(path, 0o755) // a directory of that name: os.Create fails
	} else if r.Chance(1, 3) {
		os.WriteFile(path, []byte("OLD"), 0o644)
		pre = hx.HexS("out.dat")
	}
	var ferr error
	p := hx.Safe(func() {
		if r.Bool() {
			ferr = cc.ExportToFile(path, cfg)
		} else {
			ferr = rag.NewExporterWithConfig(cfg).ExportToFile(chunks, path)
		}
	})
	if chk(c, "C14/panic-export-to-file", p == "", kase, func() string { return p }) {
		res := "ok"
		if ferr != nil {
			res = "experr"
			if strings.HasPrefix(ferr.Error(), "creating export file") {
				res = "createerr"
			}
		}
		content := "nofile"
		if st, e := os.Stat(path); e == nil && st.Mode().IsRegular() {
			data, _ := os.ReadFile(path)
			content = hx.Hex(data)
			// the file holds what ExportToString returns (or nothing, when the export is refused)
			want, werr := export(cfg, chunks)
			chk(c, "C14/file-content-is-export", (ferr == nil) == (werr == nil) && string(data) == want, kase, func() string {
				return fmt.Sprintf("ExportToFile under %s: err=%v, file holds %q, ExportToString gives %q (%v)", wireConfig(cfg), ferr, clip(string(data)), clip(want), werr)
			})
		}
		c.Op("c14.tofile "+wireConfig(cfg)+" "+b01(creatable)+" p="+pre+" "+wireChunks(chunks), res+"|"+content)
		c.Count("tofile-" + res)
	}

	// ExportToFiles
	d2 := filepath.Join(dir, "many")
	os.Mkdir(d2, 0o755)
	n := len(chunks)
	size := r.Range(1, n+2)
	if r.Chance(1, 8) {
		size = hx.Pick(r, []int{0, -1, math.MaxInt})
	}
	fcfg := genConfigWild(r)
	pattern := hx.Pick(r, filePatterns)
	names := make([]string, n+2)
	for k := range names {
		names[k] = fmt.Sprintf(pattern, k)
	}
	var mask []string
	if r.Chance(1, 4) {
		j := r.Intn(n/max(size, 1) + 2)
		if j < len(names) {
			os.Mkdir(filepath.Join(d2, names[j]), 0o755) // WriteFile onto a directory fails
			mask = append(mask, names[j])
		}
	}
	pre = "-"
	if r.Chance(1, 3) && (len(mask) == 0 || mask[0] != names[0]) {
		os.WriteFile(filepath.Join(d2, names[0]), []byte("OLD"), 0o644)
		pre = hx.HexS(names[0])
	}
	var berr error
	p = hx.Safe(func() { berr = rag.NewBatchExporterWithConfig(size, fcfg).ExportToFiles(chunks, filepath.Join(d2, pattern)) })
	if !chk(c, "C14/panic-export-to-files", p == "", kase, func() string { return p }) {
		return
	}
	res := batchResult(berr)
	if berr == nil && size > 0 && names[0] != names[1] {
		// one file per batch, each the export of its slice, together the collection
		okFiles := true
		why := ""
		k := 0
		for i := 0; i < n; i, k = i+size, k+1 {
			end := min(i+size, n)
			if end < i { // i+size left the int range: one batch
				end = n
			}
			data, e := os.ReadFile(filepath.Join(d2, names[k]))
			want, werr := export(fcfg, chunks[i:end])
			if e != nil || werr != nil || string(data) != want {
				okFiles, why = false, fmt.Sprintf("file %q of batch %d (chunks %d..%d): %v / %q, want %q (%v)", names[k], k, i, end, e, clip(string(data)), clip(want), werr)
				break
			}
			if end == n {
				k++
				break
			}
		}
		chk(c, "C14/files-one-per-batch", okFiles, kase, func() string { return why })
	}
	c.Op(fmt.Sprintf("c14.tofiles %s %d n=%s m=%s p=%s %s", wireConfig(fcfg), size, hexListOrEmpty(names), hexListOrEmpty(mask), pre, wireChunks(chunks)),
		res+"|"+dumpDir(d2))
	c.Count("tofiles-" + strings.SplitN(res, ":", 2)[0])
	if names[0] == names[1] {
		c.Count("tofiles-colliding-names")
	}
}

func hexListOrEmpty(xs []string) string {
	if len(xs) == 0 {
		return ""
	}
	return hx.HexList(xs)
}

// ---- which configuration fields an export looks at ------------------------------------------------

func checkConfigCrossTalk(c *hx.Ctx, kase caseID, r *hx.Rng, chunks []*rag.Chunk) {
	kase.What = "config-cross-talk"
	f := hx.Pick(r, allFormats)
	cfg := genConfig(r, f)
	base, err := export(cfg, chunks)
	if err != nil {
		return
	}
	cfg2 := cfg
	cfg2.FlattenMetadata = !cfg.FlattenMetadata
	key := "C14/config-cross-talk-csv"
	if isJSONFormat(f) {
		key = "C14/config-cross-talk-json"
		cfg2.CSVDelimiter = hx.Pick(r, []rune{';', '"', 0, 0x2502})
		cfg2.IncludeHeader = !cfg.IncludeHeader
		cfg2.IncludeEmbeddings = !cfg.IncludeEmbeddings
		cfg2.ChunkIDColumnName, cfg2.TextColumnName = "x", "x"
		if f == rag.ExportFormatJSONL {
			cfg2.PrettyPrint = !cfg.PrettyPrint
		}
	} else {
		cfg2.PrettyPrint = !cfg.PrettyPrint
		if f == rag.ExportFormatTSV {
			cfg2.CSVDelimiter = genRune(r)
		} else if cfg.CSVDelimiter == 0 {
			cfg2.CSVDelimiter = ','
		}
	}
	other, err2 := export(cfg2, chunks)
	chk(c, key, err2 == nil && other == base, kase, func() string {
		return fmt.Sprintf("%s and %s give different texts (%v): %q vs %q", wireConfig(cfg), wireConfig(cfg2), err2, clip(base), clip(other))
	})
	// an empty (non-nil) field list selects no field: the same text as without metadata
	cfg3, cfg4 := cfg, cfg
	cfg3.MetadataFields = []string{}
	cfg4.IncludeMetadata = false
	a, e3 := export(cfg3, chunks)
	b, e4 := export(cfg4, chunks)
	chk(c, "C14/fields-empty-vs-no-metadata", e3 == nil && e4 == nil && a == b, kase, func() string {
		return fmt.Sprintf("MetadataFields=[] gives %q, IncludeMetadata=false gives %q (%v %v)", clip(a), clip(b), e3, e4)
	})
}

// checkDeep2: the per-case part of the second deepening.
func checkDeep2(c *hx.Ctx, kase caseID, r *hx.Rng, chunks []*rag.Chunk) {
	checkDecode(c, kase, r.Fork(0xD1), chunks)
	checkRune(c, kase, r.Fork(0xD2), chunks)
	checkBatchInt(c, kase, r.Fork(0xD3), chunks)
	checkFiles(c, kase, r.Fork(0xD4), chunks)
	checkConfigCrossTalk(c, kase, r.Fork(0xD5), chunks)
	checkVdbDecode(c, kase, r.Fork(0xD6), chunks)
}

// ---- inverse reader of the vector-database exports (op c14.vdbdecode) ---------------------------

type vview struct {
	cls, id, text, title, sect, ps, ci string
	vec                                []string
	withCls                            bool
}

func (v *vview) wire() string {
	toks := "~"
	if len(v.vec) > 0 {
		toks = strings.Join(v.vec, "+")
	}
	s := strings.Join([]string{hx.HexS(v.id), hx.HexS(v.text), hx.HexS(v.title), v.ps, hx.HexS(v.sect), v.ci, toks}, "|")
	if v.withCls {
		s = hx.HexS(v.cls) + "|" + s
	}
	return s
}

func wireViews(vs []*vview) string {
	if len(vs) == 0 {
		return "none"
	}
	parts := make([]string, len(vs))
	for i, v := range vs {
		parts[i] = v.wire()
	}
	return strings.Join(parts, ";")
}

func reqStr(x *jnode, bad *bool) string {
	if x == nil || x.kind != 's' {
		*bad = true
		return ""
	}
	return x.s
}

func reqInt(x *jnode, bad *bool) string {
	if x == nil || x.kind != 'n' {
		*bad = true
		return ""
	}
	v, err := decInt(x.s)
	if err != nil {
		*bad = true
	}
	return v
}

func numItems(x *jnode, bad *bool) []string {
	var out []string
	for _, it := range x.items {
		if it.kind != 'n' {
			*bad = true
		}
		out = append(out, it.s)
	}
	return out
}

func vecOpt(x *jnode, bad *bool) []string {
	if x == nil || x.kind == 'z' {
		return nil
	}
	if x.kind != 'a' {
		*bad = true
		return nil
	}
	return numItems(x, bad)
}

func decodeVdbText(which byte, text []byte) ([]*vview, error) {
	var bad bool
	var out []*vview
	switch which {
	case 'W':
		lines := bytes.Split(text, []byte("\n"))
		if len(lines) > 0 && len(lines[len(lines)-1]) == 0 {
			lines = lines[:len(lines)-1]
		}
		for _, ln := range lines {
			o, err := parseTree(ln)
			if err != nil || o.kind != 'o' {
				return nil, errUndecodable
			}
			v := &vview{withCls: true, cls: reqStr(o.get("class"), &bad)}
			if id := o.get("id"); id != nil {
				v.id = reqStr(id, &bad)
			}
			ps := o.get("properties")
			if ps == nil || ps.kind != 'o' {
				return nil, errUndecodable
			}
			v.text, v.title, v.sect = reqStr(ps.get("content"), &bad), reqStr(ps.get("documentTitle"), &bad), reqStr(ps.get("sectionTitle"), &bad)
			v.ps, v.ci = reqInt(ps.get("pageStart"), &bad), reqInt(ps.get("chunkIndex"), &bad)
			v.vec = vecOpt(o.get("vector"), &bad)
			out = append(out, v)
		}
	case 'P':
		root, err := parseTree(text)
		if err != nil || root.kind != 'o' {
			return nil, errUndecodable
		}
		vs := root.get("vectors")
		if vs == nil || vs.kind != 'a' {
			return nil, errUndecodable
		}
		for _, o := range vs.items {
			if o.kind != 'o' {
				return nil, errUndecodable
			}
			v := &vview{id: reqStr(o.get("id"), &bad), ci: "0"}
			vals := o.get("values")
			md := o.get("metadata")
			if vals == nil || vals.kind != 'a' || md == nil || md.kind != 'o' {
				return nil, errUndecodable
			}
			v.vec = numItems(vals, &bad)
			v.text, v.title, v.sect = reqStr(md.get("text"), &bad), reqStr(md.get("document_title"), &bad), reqStr(md.get("section_title"), &bad)
			v.ps = reqInt(md.get("page_start"), &bad)
			out = append(out, v)
		}
	case 'C':
		root, err := parseTree(text)
		if err != nil || root.kind != 'o' {
			return nil, errUndecodable
		}
		ids, docs := root.get("ids"), root.get("documents")
		if ids == nil || ids.kind != 'a' || docs == nil || docs.kind != 'a' {
			return nil, errUndecodable
		}
		arrOpt := func(x *jnode) []*jnode {
			if x == nil {
				return nil
			}
			if x.kind != 'a' {
				bad = true
				return nil
			}
			return x.items
		}
		mds, es := arrOpt(root.get("metadatas")), arrOpt(root.get("embeddings"))
		if bad || len(ids.items) != len(docs.items) || len(ids.items) != len(mds) {
			return nil, errUndecodable
		}
		for i := range ids.items {
			md := mds[i]
			if md.kind != 'o' {
				return nil, errUndecodable
			}
			v := &vview{id: reqStr(ids.items[i], &bad), text: reqStr(docs.items[i], &bad), title: reqStr(md.get("document_title"), &bad),
				sect: reqStr(md.get("section_title"), &bad), ps: reqInt(md.get("page_start"), &bad), ci: reqInt(md.get("chunk_index"), &bad)}
			if i < len(es) {
				v.vec = vecOpt(es[i], &bad)
			}
			out = append(out, v)
		}
	}
	if bad {
		return nil, errUndecodable
	}
	return out, nil
}

var handVdb = map[byte][]string{
	'W': {
		`{"class":"C","properties":{"content":"t","documentTitle":"d","pageStart":1,"sectionTitle":"s","chunkIndex":0}}`,
		`{"class":"C","id":"x","properties":{"content":"t","documentTitle":"d","pageStart":1,"sectionTitle":"s","chunkIndex":2},"vector":[0.5,-1]}`,
		`{"class":"C","properties":{"content":"t","documentTitle":"d","pageStart":1.5,"sectionTitle":"s","chunkIndex":0}}`,
		`{"class":"C","properties":{"content":"t","documentTitle":"d","sectionTitle":"s","chunkIndex":0}}`,
		`{"class":1,"properties":{}}`, `{"class":"C","properties":[]}`, `[]`,
		`{"class":"C","id":null,"properties":{"content":"t","documentTitle":"d","pageStart":1,"sectionTitle":"s","chunkIndex":0}}`,
		`{"class":"C","properties":{"content":"t","documentTitle":"d","pageStart":1,"sectionTitle":"s","chunkIndex":0},"vector":null}`,
		`{"class":"C","properties":{"content":"t","documentTitle":"d","pageStart":1,"sectionTitle":"s","chunkIndex":0},"vector":["a"]}`,
	},
	'P': {
		`{"vectors":[]}`, `{"vectors":null}`, `{}`, `[]`,
		`{"vectors":[{"id":"a","values":[1],"metadata":{"text":"t","document_title":"d","page_start":0,"section_title":""}}]}`,
		`{"vectors":[{"id":"a","values":[],"metadata":{"text":"t","document_title":"d","page_start":-3,"section_title":"s"}},{"id":"b","values":[1e-3],"metadata":{"text":"","document_title":"","page_start":7,"section_title":"s"}}]}`,
		`{"vectors":[{"id":"a","values":[1]}]}`, `{"vectors":[{"id":"a","values":1,"metadata":{}}]}`,
		`{"vectors":[{"values":[1],"metadata":{"text":"t","document_title":"d","page_start":0,"section_title":""}}]}`,
	},
	'C': {
		`{"ids":[],"documents":[]}`, `{"ids":["a"],"documents":["t"]}`, `{"ids":["a"],"documents":[],"metadatas":[]}`,
		`{"ids":["a"],"documents":["t"],"metadatas":[{"document_title":"d","page_start":1,"section_title":"s","chunk_index":0}]}`,
		`{"ids":["a","b"],"documents":["t","u"],"embeddings":[null],"metadatas":[{"document_title":"d","page_start":1,"section_title":"s","chunk_index":0},{"document_title":"d","page_start":2,"section_title":"s","chunk_index":1}]}`,
		`{"ids":["a"],"documents":["t"],"embeddings":[[1,2],[3]],"metadatas":[{"document_title":"d","page_start":1,"section_title":"s","chunk_index":0}]}`,
		`{"ids":["a"],"documents":["t"],"embeddings":{},"metadatas":[{"document_title":"d","page_start":1,"section_title":"s","chunk_index":0}]}`,
		`{"ids":[1],"documents":["t"],"metadatas":[{"document_title":"d","page_start":1,"section_title":"s","chunk_index":0}]}`,
		`{"ids":["a"],"documents":["t"],"metadatas":[{"document_title":"d","page_start":"1","section_title":"s","chunk_index":0}]}`,
		`{"documents":[],"metadatas":[]}`,
	},
}

func emitVdbDecode(c *hx.Ctx, which byte, text []byte, bucket string) {
	if len(text) > 6000 || !comparable(text) {
		return
	}
	out := "err"
	if vs, err := decodeVdbText(which, text); err == nil {
		out = wireViews(vs)
	}
	c.Op("c14.vdbdecode "+string(which)+" "+hx.Hex(text), out)
	if out == "err" {
		c.Count("vdbdecode-" + bucket + "-rejected")
	} else {
		c.Count("vdbdecode-" + bucket + "-accepted")
	}
}

func checkVdbDecode(c *hx.Ctx, kase caseID, r *hx.Rng, chunks []*rag.Chunk) {
	kase.What = "vdb-decode"
	emb := genEmbeddingsWild(r, len(chunks))
	class := hx.Pick(r, []string{"Chunk", "Doc \"x\"", "日本", ""})
	ee := rag.NewEmbeddingExporter()
	var pb, cb, wb bytes.Buffer
	var e1, e2, e3 error
	if p := hx.Safe(func() {
		e1 = ee.ExportForPinecone(chunks, emb, &pb)
		e2 = ee.ExportForChroma(chunks, emb, &cb)
		e3 = ee.ExportForWeaviate(chunks, emb, class, &wb)
	}); p != "" || e1 != nil || e2 != nil || e3 != nil {
		return // reported by checkVDBRecords under its own keys
	}
	vecAt := func(i int) []string {
		if i >= len(emb) || len(emb[i]) == 0 {
			return nil
		}
		ts := make([]string, len(emb[i]))
		for j, f := range emb[i] {
			ts[j] = floatTok(f)
		}
		return ts
	}
	var wantW, wantP, wantC []*vview
	for i, ch := range chunks {
		m := ch.Metadata
		base := vview{id: ch.ID, text: ch.Text, title: m.DocumentTitle, sect: m.SectionTitle, ps: strconv.Itoa(m.PageStart), ci: strconv.Itoa(m.ChunkIndex), vec: vecAt(i)}
		w := base
		w.withCls, w.cls = true, class
		wantW = append(wantW, &w)
		cc := base
		wantC = append(wantC, &cc)
		if len(base.vec) > 0 {
			p := base
			p.ci = "0"
			wantP = append(wantP, &p)
		}
	}
	for _, e := range []struct {
		which byte
		name  string
		text  []byte
		want  []*vview
	}{{'W', "weaviate", wb.Bytes(), wantW}, {'P', "pinecone", pb.Bytes(), wantP}, {'C', "chroma", cb.Bytes(), wantC}} {
		vs, err := decodeVdbText(e.which, e.text)
		chk(c, "C14/"+e.name+"-decode-same-records", err == nil && wireViews(vs) == wireViews(e.want), kase, func() string {
			got := "err"
			if err == nil {
				got = wireViews(vs)
			}
			return fmt.Sprintf("%s text decodes to %s, want %s", e.name, clip(got), clip(wireViews(e.want)))
		})
		emitVdbDecode(c, e.which, e.text, e.name)
		emitVdbDecode(c, e.which, damage(r, e.text), e.name+"-damaged")
	}
	which := hx.Pick(r, []byte{'W', 'P', 'C'})
	hand := hx.Pick(r, handVdb[which])
	if which == 'W' {
		if r.Bool() {
			hand += "\n" + hx.Pick(r, handVdb['W'])
		}
		hand += "\n"
	}
	emitVdbDecode(c, which, []byte(hand), "hand")
}

// checkFormatNames: ExportFormat.String / FileExtension over the constants and values around them.
func checkFormatNames(c *hx.Ctx) {
	for _, i := range []int{-2, -1, 0, 1, 2, 3, 4, 5, 99, math.MinInt32, math.MaxInt32} {
		f := rag.ExportFormat(i)
		c.Op(fmt.Sprintf("c14.fmtname %d", i), hx.HexS(f.String())+" "+hx.HexS(f.FileExtension()))
	}
}
