package c14

import (
	"bytes"
	"encoding/json"
	"fmt"
	"io"
	"regexp"
	"strings"
	"unicode/utf8"

	"github.com/tsawler/tabula/rag"

	"verifharness/hx"
)

// Text level of the JSON formats: the bytes the implementation writes are compared with the
// model's text (Model/ExportJson.lean through the assumed encoding/json writer of
// Model/Json.lean), and the model's JSON reader is compared with encoding/json's on the export
// texts, on damaged copies of them and on small hand-made texts.

func okHex(out string, err error) string {
	if err != nil {
		return "err"
	}
	return "ok " + hx.HexS(out)
}

// ---- encoding/json's reading of a text, members in text order -------------------------------------

func dumpToken(dec *json.Decoder) (string, error) {
	tok, err := dec.Token()
	if err != nil {
		return "", err
	}
	switch t := tok.(type) {
	case json.Delim:
		var parts []string
		switch t {
		case '[':
			for dec.More() {
				s, err := dumpToken(dec)
				if err != nil {
					return "", err
				}
				parts = append(parts, s)
			}
			if _, err := dec.Token(); err != nil {
				return "", err
			}
			return "[" + strings.Join(parts, ",") + "]", nil
		case '{':
			for dec.More() {
				ktok, err := dec.Token()
				if err != nil {
					return "", err
				}
				k, ok := ktok.(string)
				if !ok {
					return "", fmt.Errorf("object key is not a string")
				}
				s, err := dumpToken(dec)
				if err != nil {
					return "", err
				}
				parts = append(parts, hx.HexS(k)+":"+s)
			}
			if _, err := dec.Token(); err != nil {
				return "", err
			}
			return "{" + strings.Join(parts, ",") + "}", nil
		}
		return "", fmt.Errorf("unexpected delimiter %v", t)
	case string:
		return "s" + hx.HexS(t), nil
	case json.Number:
		return "n" + t.String(), nil
	case bool:
		if t {
			return "t", nil
		}
		return "f", nil
	case nil:
		return "z", nil
	}
	return "", fmt.Errorf("unexpected token %T", tok)
}

// stdDump: "err" unless data is exactly one JSON value for encoding/json; else its dump.
func stdDump(data []byte) string {
	if !json.Valid(data) {
		return "err"
	}
	dec := json.NewDecoder(bytes.NewReader(data))
	dec.UseNumber()
	s, err := dumpToken(dec)
	if err != nil {
		return "err"
	}
	if _, err := dec.Token(); err != io.EOF {
		return "err"
	}
	return s
}

// stdDumpLines: JSON Lines — every line one complete JSON text; the text after the last LF
// counts as a line only when it is not empty.
func stdDumpLines(data []byte) string {
	lines := bytes.Split(data, []byte("\n"))
	if len(lines) > 0 && len(lines[len(lines)-1]) == 0 {
		lines = lines[:len(lines)-1]
	}
	if len(lines) == 0 {
		return "none"
	}
	parts := make([]string, len(lines))
	for i, ln := range lines {
		parts[i] = stdDump(ln)
		if parts[i] == "err" {
			return "err"
		}
	}
	return strings.Join(parts, ";")
}

var surrogateEscape = regexp.MustCompile(`\\u[dD][89abAB]`)

// comparable: the model's reader states nothing about ill-formed UTF-8 inside strings
// (encoding/json substitutes U+FFFD) nor about \u escapes of surrogates (it rejects them).
func comparable(data []byte) bool {
	return utf8.Valid(data) && !surrogateEscape.Match(data)
}

var damageBytes = []byte("\"\\,:{}[]0-.eE+tfnu \n\t\rx1\x01/")

func damage(r *hx.Rng, data []byte) []byte {
	out := append([]byte(nil), data...)
	for k := r.Range(1, 3); k > 0 && len(out) > 0; k-- {
		pos := r.Intn(len(out))
		switch r.Intn(3) {
		case 0:
			out[pos] = hx.Pick(r, damageBytes)
		case 1:
			out = append(out[:pos], out[pos+1:]...)
		default:
			out = append(out[:pos], append([]byte{hx.Pick(r, damageBytes)}, out[pos:]...)...)
		}
	}
	return out
}

var handTexts = []string{
	"0", "-0", "1e5", "1E+2", "1.5e-3", "01", "1.", ".5", "-", "+1", "1e", "1e+", "12a", "--1", "1.2.3", "0x10", "1 2",
	"true", "false", "null", "tru", "nul", "truee", "True", " \t\r\n7 \n", "", " ", "[]", "{}", "[ ]", "{ }", "[1,2]", "[1,]", "[,1]",
	"[1 2]", "{\"a\":1,\"a\":2}", "{\"a\" : [ {\"b\":null} , -1.0e+0 ]}", "{\"a\":1,}", "{a:1}", "{\"a\"}", "{\"a\":}", "[[[[]]]]",
	"\"\"", "\"a\\\"b\\\\c\\/d\\b\\f\\n\\r\\t\"", "\"\\u00e9\\u0041\\u20ac\\uFFFD\"", "\"\\x41\"", "\"\\u12\"", "\"\\u12G4\"", "\"a\nb\"",
	"\"a\tb\"", "\"\x7f\"", "\"é日本😀\"", "\"unterminated", "\"\\", "[\"a\",\"b\"]x", "{\"k\":\"v\"} {}", "[1]\n", "nulltrue", "[true,false,null]",
	"{\"\":\"\"}", "[-1,-0.0,1e0]", "\"\\u0000\"", "[\"\\u2028\\u2029\"]", "{\"a\":{\"b\":{\"c\":[1,{\"d\":2}]}}}",
}

func checkJSONReader(c *hx.Ctx, r *hx.Rng, texts [][]byte, lines [][]byte) {
	emit := func(data []byte) {
		if !comparable(data) {
			c.Count("jsonread-skipped-not-comparable")
			return
		}
		out := stdDump(data)
		c.Op("c14.jsonread "+hx.Hex(data), out)
		if out == "err" {
			c.Count("jsonread-rejected")
		} else {
			c.Count("jsonread-accepted")
		}
	}
	for _, t := range texts {
		if len(t) > 6000 {
			continue
		}
		emit(t)
		emit(damage(r, t))
	}
	for k := 0; k < 3; k++ {
		emit([]byte(hx.Pick(r, handTexts)))
	}
	for _, t := range lines {
		if len(t) > 6000 {
			continue
		}
		for _, d := range [][]byte{t, damage(r, t)} {
			if !comparable(d) {
				continue
			}
			c.Op("c14.jsonlread "+hx.Hex(d), stdDumpLines(d))
		}
	}
}

// ---- string literals on arbitrary bytes (the malformed stream of the writer side) ---------------

var rawPieces = []string{"\xff", "\xc0\x80", "\xed\xa0\x80", "\xf4\x90\x80\x80", "\xe2\x80", "\xe2\x80\xa8", "\xe2\x80\xa9", "\xef\xbf\xbd",
	"\xc3", "\xc3\xa9", "\x80", "\xf0\x9f\x98\x80", "\xf0\x9f\x98", "\xe2\x82\xac", "\xe0\x80\x80", "\xf8\x88\x80\x80\x80", "<", ">", "&", "\x00", "\x1f",
	"\x08", "\x0c", "\x7f", "\"", "\\", "/", "a", "\n", "\r", "\t", "\xe2\x80\xaa", "\xe2\x81\xa8"}

func genRawString(r *hx.Rng) string {
	if r.Chance(1, 4) {
		return string(r.Bytes(r.Range(0, 6)))
	}
	var sb strings.Builder
	for k := r.Range(0, 5); k > 0; k-- {
		if r.Chance(1, 3) {
			sb.WriteString(hx.Pick(r, frags))
		} else {
			sb.WriteString(hx.Pick(r, rawPieces))
		}
	}
	return sb.String()
}

func fixNil(m map[string]interface{}) map[string]interface{} {
	out := map[string]interface{}{}
	for k, v := range m {
		switch x := v.(type) {
		case []string:
			if x == nil {
				v = []string{}
			}
		case map[string]interface{}:
			v = fixNil(x)
		}
		out[k] = v
	}
	return out
}

func checkJSONWriter(c *hx.Ctx, r *hx.Rng) {
	s := genRawString(r)
	b, _ := json.Marshal(s)
	c.Op("c14.quote "+hx.HexS(s), hx.Hex(b))
	if utf8.ValidString(s) {
		c.Count("quote-valid-utf8")
	} else {
		c.Count("quote-ill-formed-utf8")
	}
	m, toks := genNested(r, 0)
	c.Op("c14.fmtobj "+strings.Join(toks, ","), hx.HexS(rag.VerifFormatValue(fixNil(m))))
}

// checkJSONText: the per-case part of the text-level ops (exports of `chunks` under drawn,
// sometimes unsupported, configurations; reader on all JSON texts of the case).
func checkJSONText(c *hx.Ctx, kase caseID, r *hx.Rng, chunks []*rag.Chunk, texts [][]byte, lines [][]byte) {
	cfg := genConfigWild(r)
	out, err := export(cfg, chunks)
	c.Op("c14.tostring "+wireConfig(cfg)+" "+wireChunks(chunks), okHex(out, err))
	if err == nil {
		switch cfg.Format {
		case rag.ExportFormatJSON:
			texts = append(texts, []byte(out))
		case rag.ExportFormatJSONL:
			lines = append(lines, []byte(out))
		}
	}
	checkJSONReader(c, r, texts, lines)
	checkJSONWriter(c, r)
}
