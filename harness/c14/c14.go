// Package c14 is the correspondence/oracle harness for property C14.
package c14

import "verifharness/hx"

func init() { hx.Register("C14", Run, Replay) }

// Run is not built yet for this property.
func Run(c *hx.Ctx) { c.Note("C14: harness not built") }

func Replay(c *hx.Ctx, kase map[string]interface{}) {}
