// Package c14: chunk exports parse back to the same chunks; filters are exact selections.
package c14

import (
	"bytes"
	"encoding/csv"
	"encoding/json"
	"fmt"
	"math"
	"strconv"
	"strings"
	"unicode"

	"github.com/tsawler/tabula/rag"

	"verifharness/hx"
)

func init() { hx.Register("C14", Run, Replay) }

type caseID struct {
	Seed  uint64 `json:"seed"`
	Index int    `json:"index"`
	What  string `json:"what,omitempty"`
	Key   string `json:"key,omitempty"`
}

// onlyKey is set by Replay: only the recorded failure class is re-checked, so that the
// replay output is about that failure and not about other (e.g. known) ones of the same case.
var onlyKey string

func chk(c *hx.Ctx, key string, ok bool, kase caseID, detail func() string) bool {
	if onlyKey != "" && key != onlyKey {
		return ok
	}
	kase.Key = key
	return c.Check(key, ok, kase, detail)
}

// ---- canonical dump of parsed JSON records (implementation side of c14.json) ---------

func dumpJSONVal(v interface{}) string {
	switch x := v.(type) {
	case string:
		return "s" + hx.HexS(x)
	case json.Number:
		return "i" + x.String()
	case bool:
		if x {
			return "b1"
		}
		return "b0"
	case []interface{}:
		parts := make([]string, len(x))
		for i, e := range x {
			s, _ := e.(string)
			parts[i] = hx.HexS(s)
		}
		return "l" + strings.Join(parts, "+")
	}
	return "?"
}

func str(v interface{}) string { s, _ := v.(string); return s }
func num(v interface{}) string {
	if n, ok := v.(json.Number); ok {
		return n.String()
	}
	return "0"
}
func flag(v interface{}) string { b, _ := v.(bool); return b01(b) }

func dumpJSONRecord(rec map[string]interface{}) string {
	meta := "~"
	if md, ok := rec["metadata"].(map[string]interface{}); ok && len(md) > 0 {
		var parts []string
		for _, k := range hx.SortedKeys(md) {
			parts = append(parts, hx.HexS(k)+":"+dumpJSONVal(md[k]))
		}
		meta = strings.Join(parts, ",")
	}
	path := "~"
	if p, ok := rec["section_path"].([]interface{}); ok && len(p) > 0 {
		parts := make([]string, len(p))
		for i, e := range p {
			parts[i] = hx.HexS(str(e))
		}
		path = strings.Join(parts, ",")
	}
	return strings.Join([]string{hx.HexS(str(rec["id"])), hx.HexS(str(rec["text"])), meta, hx.HexS(str(rec["document_title"])),
		num(rec["page_start"]), num(rec["page_end"]), num(rec["chunk_index"]), hx.HexS(str(rec["section_title"])), path,
		flag(rec["has_table"]) + flag(rec["has_list"]) + flag(rec["has_image"])}, "|")
}

func dumpJSONRecords(recs []map[string]interface{}) string {
	if len(recs) == 0 {
		return "none"
	}
	parts := make([]string, len(recs))
	for i, r := range recs {
		parts[i] = dumpJSONRecord(r)
	}
	return strings.Join(parts, ";")
}

func dumpTypedMap(m map[string]interface{}) string {
	if len(m) == 0 {
		return "~"
	}
	var parts []string
	for _, k := range hx.SortedKeys(m) {
		var v string
		switch x := m[k].(type) {
		case string:
			v = "s" + hx.HexS(x)
		case int:
			v = "i" + strconv.Itoa(x)
		case bool:
			v = "b" + b01(x)
		case []string:
			hs := make([]string, len(x))
			for i, e := range x {
				hs[i] = hx.HexS(e)
			}
			v = "l" + strings.Join(hs, "+")
		default:
			v = "o"
		}
		parts = append(parts, hx.HexS(k)+":"+v)
	}
	return strings.Join(parts, ",")
}

// ---- one export (any of the four formats) ----------------------------------------------

func kindOf(f rag.ExportFormat) string { return formatName(f) }

// checkExport runs the oracles for one export of `chunks` under `cfg` whose text is `out`,
// and (emit=true) the correspondence ops for it.
func checkExport(c *hx.Ctx, kase caseID, what string, cfg rag.ExportConfig, chunks []*rag.Chunk, out string, err error, emit bool) {
	kase.What = what
	kind := kindOf(cfg.Format)
	g, cs := wireConfig(cfg), wireChunks(chunks)
	okExport := chk(c, "C14/"+kind+"-export-error", err == nil, kase, func() string { return fmt.Sprintf("%s: export returned error: %v", what, err) })
	switch cfg.Format {
	case rag.ExportFormatJSON, rag.ExportFormatJSONL:
		implDump := "err"
		if okExport {
			var recs []map[string]interface{}
			var perr error
			if cfg.Format == rag.ExportFormatJSON {
				recs, perr = parseJSONArray(out)
			} else {
				recs, perr = parseJSONLines(out)
			}
			if chk(c, "C14/"+kind+"-wellformed", perr == nil, kase, func() string { return fmt.Sprintf("%s: %v in %q", what, perr, clip(out)) }) {
				checkJSONRecords(c, kind, kase, recs, chunks, cfg)
				implDump = dumpJSONRecords(recs)
			}
		}
		if emit {
			c.Op("c14.json "+g+" "+cs, implDump)
		}
	case rag.ExportFormatCSV, rag.ExportFormatTSV:
		implRows, implText := "err", "err"
		if okExport {
			implText = "ok " + hx.HexS(out)
			if recs, perr := readRFC4180D([]byte(out), expectedDelim(cfg)); perr == nil {
				implRows = wireRows(recs)
			}
			// determinism (map iteration must not leak into the output)
			again, _ := rag.NewExporterWithConfig(cfg).ExportToString(chunks)
			chk(c, "C14/"+kind+"-deterministic", again == out, kase, func() string { return what + ": two exports of the same collection differ" })
			if cfg.IncludeHeader {
				checkCSVWithHeader(c, kind, kase, out, chunks, cfg)
			} else {
				// headerless: must be the header-carrying export minus its first record
				cfg2 := cfg
				cfg2.IncludeHeader = true
				out2, err2 := rag.NewExporterWithConfig(cfg2).ExportToString(chunks)
				if chk(c, "C14/"+kind+"-export-error", err2 == nil, kase, func() string { return fmt.Sprint(err2) }) {
					full, ok := checkCSVWithHeader(c, kind, kase, out2, chunks, cfg2)
					recs, perr := readRFC4180D([]byte(out), expectedDelim(cfg))
					if chk(c, "C14/"+kind+"-wellformed", perr == nil, kase, func() string { return fmt.Sprintf("%s: %v in %q", what, perr, clip(out)) }) && ok {
						chk(c, "C14/"+kind+"-headerless-rows", fmt.Sprint(recs) == fmt.Sprint(full[1:]) && len(recs) == len(chunks), kase, func() string {
							return fmt.Sprintf("%s: headerless export has %d records and differs from the rows of the export with header", what, len(recs))
						})
					}
				}
			}
		}
		if emit {
			c.Op("c14.csvcols "+g+" "+cs, wireRow(rag.VerifCollectCSVColumns(cfg, chunks)))
			c.Op("c14.rows "+g+" "+cs, implRows)
			c.Op("c14.spec "+g+" "+cs, implRows) // the same rows from the specification over the chunks' own fields
			c.Op("c14.export "+g+" "+cs, implText)
		}
	}
	if emit && (cfg.Format == rag.ExportFormatJSON || cfg.Format == rag.ExportFormatJSONL) {
		// the text itself (JSON through the assumed encoding/json writer of the model; the CSV/TSV
		// text is op c14.export above, and c14.tostring under drawn configurations in jsontext.go)
		c.Op("c14.tostring "+g+" "+cs, okHex(out, err))
		if err == nil && len(caseTexts)+len(caseLines) < 6 {
			switch cfg.Format {
			case rag.ExportFormatJSON:
				caseTexts = append(caseTexts, []byte(out))
			case rag.ExportFormatJSONL:
				caseLines = append(caseLines, []byte(out))
			}
		}
	}
}

// JSON texts of the current case, for the reader ops (see jsontext.go)
var caseTexts, caseLines [][]byte

func export(cfg rag.ExportConfig, chunks []*rag.Chunk) (out string, err error) {
	if p := hx.Safe(func() { out, err = rag.NewExporterWithConfig(cfg).ExportToString(chunks) }); p != "" {
		return "", fmt.Errorf("panic: %s", p)
	}
	return
}

var allFormats = []rag.ExportFormat{rag.ExportFormatJSONL, rag.ExportFormatJSON, rag.ExportFormatCSV, rag.ExportFormatTSV}

// ---- batches -------------------------------------------------------------------------------

// genWideBatchSize draws a batch size from the whole positive int range rather than from the
// neighbourhood of the collection length: a batch size is any positive int, and one at least as
// large as the collection ("no limit") must give a single batch holding every chunk.  The
// classes are the places where arithmetic on (size, n) changes regime: just above n, around
// every power of two, around the 32-bit limits, around MaxInt/k for small k (k*size leaves the
// int range for k+1 batches), the top of the range (n+size leaves it), and uniform draws.
func genWideBatchSize(r *hx.Rng, n int) (int, string) {
	d := r.Range(-2, 2)
	var size int
	var class string
	switch r.Intn(8) {
	case 0:
		size, class = n+r.Range(0, 40), "above-n"
	case 1:
		size, class = 1<<uint(r.Range(4, strconv.IntSize-2))+d, "pow2"
	case 2:
		size, class = hx.Pick(r, []int{math.MaxInt32, math.MaxInt32 + 1, math.MaxUint16, math.MaxInt >> 1})+d, "word-limit"
	case 3:
		size, class = math.MaxInt/r.Range(2, n+3)+d, "maxint-over-k"
	case 4, 5:
		// the top of the range, on both sides of MaxInt-n
		size, class = math.MaxInt-r.Intn(n+4), "maxint-minus-k"
		if r.Chance(1, 3) {
			size = math.MaxInt
		}
	case 6:
		size, class = int(r.U64()>>(64-strconv.IntSize+1)), "uniform"
	default:
		size, class = int(r.U64()>>(64-strconv.IntSize+1))>>uint(r.Intn(strconv.IntSize-1)), "log-uniform"
	}
	if size < 1 {
		size = 1
	}
	return size, class
}

func checkBatches(c *hx.Ctx, kase caseID, r *hx.Rng, chunks []*rag.Chunk) {
	n := len(chunks)
	size := r.Range(1, n+2)
	if r.Chance(1, 4) {
		size = 1
	}
	cfg := genConfig(r, hx.Pick(r, allFormats))
	runBatches(c, kase, "batch", size, cfg, chunks, true)
	// the same collection and configuration under a batch size from the whole int range
	// (a forked generator: the draws of the rest of the case do not move)
	wide, class := genWideBatchSize(r.Fork(0xB7), n)
	runBatches(c, kase, "batch-wide", wide, cfg, chunks, false)
	c.Count("batch-size-" + class)
}

// runBatches: one BatchExporter.Export of `chunks` in batches of `size`; the batches delivered to
// the callback must be the consecutive runs of `size` chunks (the last one possibly shorter)
// that cover the collection, each carrying the export of exactly its chunks.
func runBatches(c *hx.Ctx, kase caseID, what string, size int, cfg rag.ExportConfig, chunks []*rag.Chunk, emit bool) {
	kase.What = what
	n := len(chunks)
	var got []rag.ExportBatch
	var err error
	p := hx.Safe(func() {
		err = rag.NewBatchExporterWithConfig(size, cfg).Export(chunks, func(b rag.ExportBatch) error { got = append(got, b); return nil })
	})
	if !chk(c, "C14/panic-batch", p == "", kase, func() string { return p }) {
		return
	}
	if !chk(c, "C14/"+kindOf(cfg.Format)+"-export-error", err == nil, kase, func() string { return fmt.Sprintf("batch export (size %d): %v", size, err) }) {
		// still emit the op so that the tie sees the difference
		c.Op(fmt.Sprintf("c14.batch %d %d", size, n), "err")
		return
	}
	okp := true
	why := ""
	next := 0
	var parts []string
	for k, b := range got {
		cnt := b.EndIndex - b.StartIndex
		if b.BatchNumber != k || b.StartIndex != next || b.ChunkCount != cnt || cnt < 1 || cnt > size || b.EndIndex > n {
			okp, why = false, fmt.Sprintf("batch %d: %+v (size %d, %d chunks)", k, struct{ N, S, E, C int }{b.BatchNumber, b.StartIndex, b.EndIndex, b.ChunkCount}, size, n)
			break
		}
		if k < len(got)-1 && cnt != size {
			okp, why = false, fmt.Sprintf("batch %d of %d is short (%d < %d)", k, len(got), cnt, size)
			break
		}
		next = b.EndIndex
		idx := make([]string, 0, cnt)
		for i := b.StartIndex; i < b.EndIndex; i++ {
			idx = append(idx, strconv.Itoa(i))
		}
		parts = append(parts, fmt.Sprintf("%d:%d:%d:%d:%s", b.BatchNumber, b.StartIndex, b.EndIndex, b.ChunkCount, strings.Join(idx, "+")))
	}
	if okp && next != n {
		okp, why = false, fmt.Sprintf("batches cover %d of %d chunks (size %d, callback invoked %d times)", next, n, size, len(got))
	}
	chk(c, "C14/batch-partition", okp, kase, func() string { return why })
	// a batch size at least as large as the collection: everything in one batch
	if size >= n && n > 0 {
		chk(c, "C14/batch-size-covers-collection", len(got) == 1 && got[0].StartIndex == 0 && got[0].EndIndex == n && got[0].ChunkCount == n, kase, func() string {
			return fmt.Sprintf("size %d >= %d chunks: expected one batch 0..%d, callback invoked %d times", size, n, n, len(got))
		})
	}
	implOut := "none"
	if len(parts) > 0 {
		implOut = strings.Join(parts, ",")
	}
	if !okp {
		implOut = "bad:" + strings.ReplaceAll(why, " ", "_")
	}
	c.Op(fmt.Sprintf("c14.batch %d %d", size, n), implOut)
	if !okp {
		return
	}
	// each batch's Data is a complete export of exactly its slice
	for k, b := range got {
		checkExport(c, kase, fmt.Sprintf("%s %d/%d size %d", what, k, len(got), size), cfg, chunks[b.StartIndex:b.EndIndex], b.Data, nil, emit && k == 0)
	}
	if emit {
		c.Count(fmt.Sprintf("batches=%d", min(len(got), 5)))
	}
}

// ---- stream ---------------------------------------------------------------------------------

func checkStream(c *hx.Ctx, kase caseID, r *hx.Rng, chunks []*rag.Chunk) {
	kase.What = "stream"
	cfg := genConfig(r, hx.Pick(r, allFormats))
	var buf bytes.Buffer
	se := rag.NewStreamExporterWithConfig(&buf, cfg)
	var firstErr error
	for i, ch := range chunks {
		if err := se.WriteChunk(ch, i); err != nil && firstErr == nil {
			firstErr = err
		}
	}
	se.Close()
	g, cs := wireConfig(cfg), wireChunks(chunks)
	if cfg.Format == rag.ExportFormatCSV || cfg.Format == rag.ExportFormatTSV {
		// documented: not supported; nothing may be written silently
		chk(c, "C14/stream-once", (firstErr != nil || len(chunks) == 0) && buf.Len() == 0, kase, func() string {
			return fmt.Sprintf("CSV stream: err=%v, %d bytes written", firstErr, buf.Len())
		})
		out := "err"
		if firstErr == nil {
			out = "ok none"
		}
		c.Op("c14.stream "+g+" "+cs, out)
		return
	}
	if !chk(c, "C14/stream-once", firstErr == nil, kase, func() string { return fmt.Sprint(firstErr) }) {
		c.Op("c14.stream "+g+" "+cs, "err")
		return
	}
	recs, perr := parseJSONLines(buf.String())
	implDump := "err"
	if chk(c, "C14/stream-wellformed", perr == nil, kase, func() string { return fmt.Sprintf("%v in %q", perr, clip(buf.String())) }) {
		checkJSONRecords(c, "stream", kase, recs, chunks, cfg)
		implDump = "ok " + dumpJSONRecords(recs)
	}
	c.Op("c14.stream "+g+" "+cs, implDump)
}

// ---- vector database records -------------------------------------------------------------

func genEmbeddings(r *hx.Rng, n int) [][]float64 {
	switch r.Intn(5) {
	case 0:
		return nil
	case 1:
		if n > 0 {
			n--
		}
	}
	dim := r.Range(1, 4)
	out := make([][]float64, n)
	for i := range out {
		if r.Chance(1, 5) {
			continue // no embedding for this chunk
		}
		v := make([]float64, dim)
		for j := range v {
			v[j] = float64(r.Range(-4096, 4096)) / 64
		}
		out[i] = v
	}
	return out
}

func floatsEqual(got interface{}, want []float64) bool {
	g, ok := got.([]interface{})
	if !ok {
		return got == nil && len(want) == 0
	}
	if len(g) != len(want) {
		return false
	}
	for i := range g {
		n, ok := g[i].(json.Number)
		if !ok {
			return false
		}
		f, err := n.Float64()
		if err != nil || f != want[i] {
			return false
		}
	}
	return true
}

func asObj(v interface{}) map[string]interface{} { m, _ := v.(map[string]interface{}); return m }

func checkVectorDB(c *hx.Ctx, kase caseID, r *hx.Rng, chunks []*rag.Chunk) {
	emb := genEmbeddings(r, len(chunks))
	embOf := func(i int) []float64 {
		if i < len(emb) {
			return emb[i]
		}
		return nil
	}
	ee := rag.NewEmbeddingExporter()
	metaOK := func(obj map[string]interface{}, ch *rag.Chunk, keys map[string]string) (bool, string) {
		for jsonKey, field := range keys {
			got, has := obj[jsonKey]
			if !has || !jsonValueEquals(got, srcValue(ch, field)) {
				return false, fmt.Sprintf("%s=%#v want %#v", jsonKey, got, srcValue(ch, field))
			}
		}
		return true, ""
	}

	// Pinecone: {"vectors":[{id,values,metadata{text,document_title,page_start,section_title}}]}, one per chunk that has a vector
	{
		kase.What = "pinecone"
		var buf bytes.Buffer
		var err error
		p := hx.Safe(func() { err = ee.ExportForPinecone(chunks, emb, &buf) })
		var doc map[string]interface{}
		if chk(c, "C14/panic-pinecone", p == "", kase, func() string { return p }) &&
			chk(c, "C14/pinecone-wellformed", err == nil && decodeOne(buf.Bytes(), &doc) == nil, kase, func() string { return fmt.Sprintf("err=%v out=%q", err, clip(buf.String())) }) {
			vecs, isArr := doc["vectors"].([]interface{})
			var want []int
			for i := range chunks {
				if len(embOf(i)) > 0 {
					want = append(want, i)
				}
			}
			if chk(c, "C14/pinecone-record-count", isArr && len(vecs) == len(want), kase, func() string {
				return fmt.Sprintf("%d vectors for %d chunks with embeddings", len(vecs), len(want))
			}) {
				for k, i := range want {
					rec := asObj(vecs[k])
					md := asObj(rec["metadata"])
					chk(c, "C14/pinecone-field-id", jsonValueEquals(rec["id"], chunks[i].ID), kase, func() string { return fmt.Sprintf("vector %d id=%#v want %q", k, rec["id"], chunks[i].ID) })
					chk(c, "C14/pinecone-field-text", jsonValueEquals(md["text"], chunks[i].Text), kase, func() string { return fmt.Sprintf("vector %d text=%#v want %q", k, md["text"], chunks[i].Text) })
					ok, why := metaOK(md, chunks[i], map[string]string{"document_title": "document_title", "page_start": "page_start", "section_title": "section_title"})
					chk(c, "C14/pinecone-field-meta", ok, kase, func() string { return fmt.Sprintf("vector %d %s", k, why) })
					chk(c, "C14/pinecone-field-values", floatsEqual(rec["values"], embOf(i)), kase, func() string { return fmt.Sprintf("vector %d values=%v want %v", k, rec["values"], embOf(i)) })
				}
			}
		}
	}
	// Chroma: parallel arrays ids/documents/metadatas
	{
		kase.What = "chroma"
		var buf bytes.Buffer
		var err error
		p := hx.Safe(func() { err = ee.ExportForChroma(chunks, emb, &buf) })
		var doc map[string]interface{}
		if chk(c, "C14/panic-chroma", p == "", kase, func() string { return p }) &&
			chk(c, "C14/chroma-wellformed", err == nil && decodeOne(buf.Bytes(), &doc) == nil, kase, func() string { return fmt.Sprintf("err=%v out=%q", err, clip(buf.String())) }) {
			ids, _ := doc["ids"].([]interface{})
			docs, _ := doc["documents"].([]interface{})
			mds, _ := doc["metadatas"].([]interface{})
			if chk(c, "C14/chroma-record-count", len(ids) == len(chunks) && len(docs) == len(chunks) && len(mds) == len(chunks), kase, func() string {
				return fmt.Sprintf("ids/documents/metadatas have %d/%d/%d entries for %d chunks", len(ids), len(docs), len(mds), len(chunks))
			}) {
				for i, ch := range chunks {
					chk(c, "C14/chroma-field-id", jsonValueEquals(ids[i], ch.ID), kase, func() string { return fmt.Sprintf("ids[%d]=%#v want %q", i, ids[i], ch.ID) })
					chk(c, "C14/chroma-field-text", jsonValueEquals(docs[i], ch.Text), kase, func() string { return fmt.Sprintf("documents[%d]=%#v want %q", i, docs[i], ch.Text) })
					ok, why := metaOK(asObj(mds[i]), ch, map[string]string{"document_title": "document_title", "page_start": "page_start", "section_title": "section_title", "chunk_index": "chunk_index"})
					chk(c, "C14/chroma-field-meta", ok, kase, func() string { return fmt.Sprintf("metadatas[%d] %s", i, why) })
				}
			}
			if embs, ok := doc["embeddings"].([]interface{}); ok {
				same := len(embs) == len(emb)
				for i := 0; same && i < len(emb); i++ {
					same = floatsEqual(embs[i], emb[i])
				}
				chk(c, "C14/chroma-field-values", same, kase, func() string { return "embeddings array differs from the vectors passed in" })
			}
		}
	}
	// Weaviate: JSON Lines, one object per chunk
	{
		kase.What = "weaviate"
		class := hx.Pick(r, []string{"Chunk", "Doc \"x\"", "日本"})
		var buf bytes.Buffer
		var err error
		p := hx.Safe(func() { err = ee.ExportForWeaviate(chunks, emb, class, &buf) })
		if chk(c, "C14/panic-weaviate", p == "", kase, func() string { return p }) {
			recs, perr := parseJSONLines(buf.String())
			if chk(c, "C14/weaviate-wellformed", err == nil && perr == nil, kase, func() string { return fmt.Sprintf("err=%v parse=%v out=%q", err, perr, clip(buf.String())) }) &&
				chk(c, "C14/weaviate-record-count", len(recs) == len(chunks), kase, func() string { return fmt.Sprintf("%d objects for %d chunks", len(recs), len(chunks)) }) {
				for i, ch := range chunks {
					rec := recs[i]
					props := asObj(rec["properties"])
					chk(c, "C14/weaviate-field-id", jsonFieldOK(rec, "id", ch.ID) && jsonValueEquals(rec["class"], class), kase, func() string { return fmt.Sprintf("object %d id=%#v class=%#v", i, rec["id"], rec["class"]) })
					chk(c, "C14/weaviate-field-text", jsonValueEquals(props["content"], ch.Text), kase, func() string { return fmt.Sprintf("object %d content=%#v want %q", i, props["content"], ch.Text) })
					ok, why := metaOK(props, ch, map[string]string{"documentTitle": "document_title", "pageStart": "page_start", "sectionTitle": "section_title", "chunkIndex": "chunk_index"})
					chk(c, "C14/weaviate-field-meta", ok, kase, func() string { return fmt.Sprintf("object %d %s", i, why) })
					chk(c, "C14/weaviate-field-values", floatsEqual(rec["vector"], embOf(i)), kase, func() string { return fmt.Sprintf("object %d vector=%v want %v", i, rec["vector"], embOf(i)) })
				}
			}
		}
	}
}

// ---- filters ---------------------------------------------------------------------------------

type fop struct {
	kind string
	s    string
	a, b int
}

func (f fop) wire() string {
	switch f.kind {
	case "sec", "etype", "search":
		return f.kind + ":" + hx.HexS(f.s)
	case "page", "min", "max":
		return fmt.Sprintf("%s:%d", f.kind, f.a)
	case "range":
		return fmt.Sprintf("range:%d:%d", f.a, f.b)
	}
	return f.kind
}

func (f fop) apply(cc *rag.ChunkCollection) *rag.ChunkCollection {
	switch f.kind {
	case "sec":
		return cc.FilterBySection(f.s)
	case "page":
		return cc.FilterByPage(f.a)
	case "range":
		return cc.FilterByPageRange(f.a, f.b)
	case "etype":
		return cc.FilterByElementType(f.s)
	case "tables":
		return cc.FilterWithTables()
	case "lists":
		return cc.FilterWithLists()
	case "images":
		return cc.FilterWithImages()
	case "min":
		return cc.FilterByMinTokens(f.a)
	case "max":
		return cc.FilterByMaxTokens(f.a)
	case "search":
		return cc.Search(f.s)
	}
	return cc
}

// holds is the predicate as the documentation of each method states it.
func (f fop) holds(ch *rag.Chunk) bool {
	m := ch.Metadata
	switch f.kind {
	case "sec": // "chunks in a specific section": the section itself or any enclosing section of the path
		if m.SectionTitle == f.s {
			return true
		}
		for _, s := range m.SectionPath {
			if s == f.s {
				return true
			}
		}
		return false
	case "page":
		return m.PageStart <= f.a && f.a <= m.PageEnd
	case "range":
		return m.PageStart <= f.b && m.PageEnd >= f.a
	case "etype":
		for _, et := range m.ElementTypes {
			if equalFoldASCII(et, f.s) {
				return true
			}
		}
		return false
	case "tables":
		return m.HasTable
	case "lists":
		return m.HasList
	case "images":
		return m.HasImage
	case "min":
		return m.EstimatedTokens >= f.a
	case "max":
		return m.EstimatedTokens <= f.a
	case "search":
		return containsFold(ch.Text, f.s)
	}
	return true
}

func toggleCase(r *hx.Rng, s string) string {
	rs := []rune(s)
	for i, x := range rs {
		if r.Bool() {
			if unicode.IsUpper(x) {
				rs[i] = unicode.ToLower(x)
			} else if unicode.IsLower(x) && unicode.ToLower(unicode.ToUpper(x)) == x {
				rs[i] = unicode.ToUpper(x)
			}
		}
	}
	return string(rs)
}

func genFop(r *hx.Rng, chunks []*rag.Chunk) fop {
	var some *rag.Chunk
	if len(chunks) > 0 {
		some = hx.Pick(r, chunks)
	}
	switch r.Intn(10) {
	case 0:
		s := hx.Pick(r, tameSections)
		if some != nil && r.Chance(2, 3) {
			s = some.Metadata.SectionTitle
			if len(some.Metadata.SectionPath) > 0 && r.Bool() {
				s = hx.Pick(r, some.Metadata.SectionPath)
			}
		}
		return fop{kind: "sec", s: s}
	case 1:
		return fop{kind: "page", a: r.Range(-1, 8)}
	case 2:
		a := r.Range(-1, 7)
		return fop{kind: "range", a: a, b: a + r.Range(-1, 4)}
	case 3:
		return fop{kind: "etype", s: toggleCase(r, hx.Pick(r, elementTypes))}
	case 4:
		return fop{kind: "tables"}
	case 5:
		return fop{kind: "lists"}
	case 6:
		return fop{kind: "images"}
	case 7:
		return fop{kind: "min", a: r.Range(-1, 12)}
	case 8:
		return fop{kind: "max", a: r.Range(-1, 12)}
	}
	kw := hx.Pick(r, frags)
	if some != nil && r.Chance(2, 3) {
		rs := []rune(some.Text)
		if len(rs) > 0 {
			i := r.Intn(len(rs))
			j := i + r.Range(1, 4)
			if j > len(rs) {
				j = len(rs)
			}
			kw = toggleCase(r, string(rs[i:j]))
		}
	}
	if r.Chance(1, 15) {
		kw = ""
	}
	return fop{kind: "search", s: kw}
}

func checkFilters(c *hx.Ctx, kase caseID, r *hx.Rng, chunks []*rag.Chunk) {
	kase.What = "filter"
	for rep := 0; rep < 4; rep++ {
		nops := 1
		if rep >= 2 {
			nops = r.Range(2, 4)
		}
		var chain []fop
		for i := 0; i < nops; i++ {
			chain = append(chain, genFop(r, chunks))
		}
		runChain(c, kase, "C14/filter-exact", chunks, chain)
		c.Count("filter-" + chain[0].kind)
	}
	// the generic Filter with an arbitrary predicate, and the empty result
	pick := map[*rag.Chunk]bool{}
	for _, ch := range chunks {
		if r.Bool() {
			pick[ch] = true
		}
	}
	got := rag.NewChunkCollection(chunks).Filter(func(ch *rag.Chunk) bool { return pick[ch] }).ToSlice()
	k := 0
	same := true
	for _, ch := range chunks {
		if pick[ch] {
			if k >= len(got) || got[k] != ch {
				same = false
			}
			k++
		}
	}
	chk(c, "C14/filter-exact", same && k == len(got), kase, func() string {
		return fmt.Sprintf("Filter(arbitrary predicate) returned %v, predicate holds for %d chunks", idsOf(got), k)
	})
	branchingFilters(c, r, kase, chunks)
	checkCaseSearch(c, kase, r.Fork(0xC45E))
}

// runChain applies the chain to a fresh collection of the chunks, checks the result against
// the documented predicates (oracle key `key`) and emits the correspondence op.
func runChain(c *hx.Ctx, kase caseID, key string, chunks []*rag.Chunk, chain []fop) {
	cc := rag.NewChunkCollection(chunks)
	p := hx.Safe(func() {
		for _, f := range chain {
			cc = f.apply(cc)
		}
	})
	if !chk(c, "C14/panic-filter", p == "", kase, func() string { return p }) {
		return
	}
	got := cc.ToSlice()
	// got must be the chunks for which the predicate holds: the very chunks (pointer identity),
	// in order, each once; a chunk on which the readings of "case-insensitive" differ may be in
	// or out.
	var want, free []*rag.Chunk
	same := true
	k := 0
	for _, ch := range chunks {
		present := k < len(got) && got[k] == ch
		if present {
			k++
		}
		switch chainVerdict(chain, ch) {
		case yes:
			want = append(want, ch)
			same = same && present
		case no:
			same = same && !present
		default:
			free = append(free, ch)
		}
	}
	same = same && k == len(got)
	var ws []string
	lower := map[string]string{}
	search := false
	for _, f := range chain {
		ws = append(ws, f.wire())
		if f.kind == "search" {
			search = true
			lower[f.s] = strings.ToLower(f.s)
			for _, ch := range chunks {
				lower[ch.Text] = strings.ToLower(ch.Text)
			}
		}
	}
	chk(c, key, same, caseID{Seed: kase.Seed, Index: kase.Index, What: "filter " + strings.Join(ws, "+")}, func() string {
		d := fmt.Sprintf("chain %s returned %d chunks %v, the predicate holds for %d %v", strings.Join(ws, "+"), len(got), idsOf(got), len(want), idsOf(want))
		if len(free) > 0 {
			d += fmt.Sprintf(" (either answer accepted for %v)", idsOf(free))
		}
		if search {
			for _, f := range chain {
				if f.kind == "search" {
					d += fmt.Sprintf("; keyword %+q", f.s)
				}
			}
			in := map[*rag.Chunk]bool{}
			for _, ch := range got {
				in[ch] = true
			}
			for _, ch := range chunks {
				if v := chainVerdict(chain, ch); (v == yes && !in[ch]) || (v == no && in[ch]) {
					d += fmt.Sprintf("; chunk %q text %+q: predicate %v, returned %v", ch.ID, ch.Text, v == yes, in[ch])
				}
			}
		}
		return clip(d)
	})
	if search {
		for _, ch := range want {
			for _, f := range chain {
				if f.kind == "search" && !containsASCIIFold(ch.Text, f.s) {
					if isASCIIString(f.s) {
						c.Count("search-ASCII-keyword-matches-only-through-a-non-ASCII-case-variant")
					} else {
						c.Count("search-non-ASCII-keyword-matches-only-through-another-case-variant")
					}
				}
			}
		}
		if len(free) > 0 {
			c.Count("search-with-chunks-where-folding-and-lowercasing-differ")
		}
	}
	var lt []string
	for _, k := range hx.SortedKeys(lower) {
		lt = append(lt, hx.HexS(k)+">"+hx.HexS(lower[k]))
	}
	out := "none"
	if len(got) > 0 {
		out = hx.HexList(idsOf(got))
	}
	c.Op("c14.filt f="+strings.Join(ws, "+")+" L="+strings.Join(lt, ",")+" "+wireChunks(chunks), out)
}

// checkCaseSearch: Search (alone and inside chains) over collections whose texts are spelled
// with arbitrary members of each letter's case class, with keywords that are pieces of those
// texts spelled in another casing - in particular across the ASCII boundary in both
// directions (see casegen.go).
func checkCaseSearch(c *hx.Ctx, kase caseID, r *hx.Rng) {
	kase.What = "case-search"
	chunks := caseRichChunks(r)
	for rep := 0; rep < 4; rep++ {
		chain := []fop{{kind: "search", s: caseKeyword(r, chunks)}}
		key := "C14/search-case-insensitive"
		if rep == 3 {
			key = "C14/filter-exact"
			other := genFop(r, chunks)
			if r.Bool() {
				chain = append(chain, other)
			} else {
				chain = append([]fop{other}, chain...)
			}
		}
		runChain(c, kase, key, chunks, chain)
		c.Count("filter-case-search")
	}
}

// branchingFilters: an intermediate result is kept and filtered twice; every collection
// involved (the source, the intermediate, both branches) must still hold exactly the
// chunks satisfying its predicate, in order, after all the calls have been made.
func branchingFilters(c *hx.Ctx, r *hx.Rng, kase caseID, chunks []*rag.Chunk) {
	mk := func() map[*rag.Chunk]bool {
		m := map[*rag.Chunk]bool{}
		for _, ch := range chunks {
			if r.Chance(2, 3) {
				m[ch] = true
			}
		}
		return m
	}
	p1, p2, p3 := mk(), mk(), mk()
	src := rag.NewChunkCollection(chunks)
	a := src.Filter(func(ch *rag.Chunk) bool { return p1[ch] })
	b := a.Filter(func(ch *rag.Chunk) bool { return p2[ch] })
	cc := a.Filter(func(ch *rag.Chunk) bool { return p3[ch] })
	d := b.Filter(func(ch *rag.Chunk) bool { return p3[ch] })
	want := func(ps ...map[*rag.Chunk]bool) []*rag.Chunk {
		var out []*rag.Chunk
		for _, ch := range chunks {
			ok := true
			for _, p := range ps {
				ok = ok && p[ch]
			}
			if ok {
				out = append(out, ch)
			}
		}
		return out
	}
	check := func(name string, got *rag.ChunkCollection, w []*rag.Chunk) {
		g := got.ToSlice()
		same := len(g) == len(w)
		for i := 0; same && i < len(g); i++ {
			same = g[i] == w[i]
		}
		kk := kase
		kk.What = "branching filter chain: " + name
		chk(c, "C14/filter-exact", same, kk, func() string {
			return fmt.Sprintf("after a:=src.Filter(p1); b:=a.Filter(p2); c:=a.Filter(p3); d:=b.Filter(p3): %s holds %v, its predicate selects %v", name, idsOf(g), idsOf(w))
		})
	}
	check("src", src, want())
	check("a", a, want(p1))
	check("b", b, want(p1, p2))
	check("c", cc, want(p1, p3))
	check("d", d, want(p1, p2, p3))
	c.Count("filter-branching")
}

func idsOf(cs []*rag.Chunk) []string {
	out := make([]string, len(cs))
	for i, c := range cs {
		out[i] = c.ID
	}
	return out
}

// ---- the assumed stdlib contract and the small helpers -----------------------------------

func genCell(r *hx.Rng) string {
	if r.Chance(1, 6) {
		return ""
	}
	if r.Chance(1, 8) {
		return hx.Pick(r, []string{"\\.", " x", "\u00a0x", "\u0085", "\u2003a", "\u3000", "\xc2", "\xe2\x80", "\t", "\v", "\"", "\r", "\n", "\r\n", "a\rb", "\xff"})
	}
	return advString(r, 3)
}

func checkStdlibCSV(c *hx.Ctx, kase caseID, r *hx.Rng) {
	kase.What = "csv-contract"
	delim := hx.Pick(r, []rune{',', '\t', ';', '|'})
	nrows := r.Range(0, 4)
	rows := make([][]string, nrows)
	for i := range rows {
		ncells := r.Range(1, 4)
		rows[i] = make([]string, ncells)
		for j := range rows[i] {
			rows[i][j] = genCell(r)
		}
	}
	var buf bytes.Buffer
	w := csv.NewWriter(&buf)
	w.Comma = delim
	for _, row := range rows {
		w.Write(row)
	}
	w.Flush()
	var rw []string
	for _, row := range rows {
		rw = append(rw, wireRow(row))
	}
	// what encoding/csv really writes vs the model's writer (the assumption of csv_roundtrip)
	c.Op(fmt.Sprintf("c14.csv %d r=%s", delim, strings.Join(rw, ";")), hx.Hex(buf.Bytes()))
	// and the harness reader inverts it
	back, err := readRFC4180(buf.Bytes(), byte(delim))
	chk(c, "C14/csv-contract-roundtrip", err == nil && fmt.Sprintf("%q", back) == fmt.Sprintf("%q", rows) && len(back) == len(rows), kase, func() string {
		return fmt.Sprintf("rows %q written as %q read back as %q (%v)", rows, buf.String(), back, err)
	})
	// harness reader vs model reader, on the written text and on a damaged copy
	data := append([]byte(nil), buf.Bytes()...)
	if r.Bool() && len(data) > 0 {
		for k := r.Range(1, 3); k > 0; k-- {
			pos := r.Intn(len(data))
			switch r.Intn(3) {
			case 0:
				data[pos] = hx.Pick(r, []byte{'"', '\r', '\n', byte(delim), 'x'})
			case 1:
				data = append(data[:pos], data[pos+1:]...)
			default:
				data = append(data[:pos], append([]byte{hx.Pick(r, []byte{'"', '\r', '\n', byte(delim)})}, data[pos:]...)...)
			}
			if len(data) == 0 {
				break
			}
		}
	}
	recs, rerr := readRFC4180(data, byte(delim))
	out := "err"
	if rerr == nil {
		out = wireRows(recs)
	}
	c.Op(fmt.Sprintf("c14.csvread %d %s", delim, hx.Hex(data)), out)
}

func genNested(r *hx.Rng, depth int) (map[string]interface{}, []string) {
	m := map[string]interface{}{}
	n := r.Range(0, 3)
	toks := []string{}
	keys := []string{"a", "b", "key", "title", "x y", "é"}
	hx.Shuffle(r, keys)
	for i := 0; i < n; i++ {
		k := keys[i]
		var vt []string
		switch r.Intn(5) {
		case 0:
			if depth < 3 {
				sub, st := genNested(r, depth+1)
				m[k] = sub
				vt = st
				break
			}
			fallthrough
		case 1:
			s := advString(r, 2)
			m[k] = s
			vt = []string{"s" + hx.HexS(s)}
		case 2:
			v := r.Range(-5, 1<<20)
			m[k] = v
			vt = []string{"i" + strconv.Itoa(v)}
		case 3:
			b := r.Bool()
			m[k] = b
			vt = []string{"b" + b01(b)}
		default:
			var l []string
			for j := r.Intn(3); j > 0; j-- {
				l = append(l, advString(r, 2))
			}
			m[k] = l
			hs := make([]string, len(l))
			for j, e := range l {
				hs[j] = hx.HexS(e)
			}
			vt = []string{"l" + strings.Join(hs, "+")}
		}
		toks = append(toks, hx.HexS(k))
		toks = append(toks, vt...)
	}
	return m, append([]string{"o" + strconv.Itoa(n)}, toks...)
}

func dumpFlat(m map[string]interface{}) string {
	flat := map[string]interface{}{}
	for k, v := range m {
		if l, ok := v.([]string); ok && l == nil {
			v = []string{}
		}
		flat[k] = v
	}
	return dumpTypedMap(flat)
}

func checkHelpers(c *hx.Ctx, r *hx.Rng, chunks []*rag.Chunk) {
	for _, ch := range chunks {
		if r.Chance(1, 2) {
			c.Op("c14.meta2map "+wireChunk(ch), dumpTypedMap(rag.VerifChunkMetadataToMap(ch.Metadata)))
		}
	}
	// formatValue on the value types a metadata map holds
	var v interface{}
	var w string
	switch r.Intn(4) {
	case 0:
		s := advString(r, 3)
		v, w = s, "s"+hx.HexS(s)
	case 1:
		n := hx.Pick(r, []int{0, -1, 7, 1 << 40, -(1 << 62), r.Range(-1000, 1000)})
		v, w = n, "i"+strconv.Itoa(n)
	case 2:
		b := r.Bool()
		v, w = b, "b"+b01(b)
	default:
		var l []string
		for j := r.Range(1, 3); j > 0; j-- {
			l = append(l, advString(r, 2))
		}
		hs := make([]string, len(l))
		for j, e := range l {
			hs[j] = hx.HexS(e)
		}
		v, w = l, "l"+strings.Join(hs, "+")
	}
	c.Op("c14.fmtval "+w, hx.HexS(rag.VerifFormatValue(v)))
	// flattenMetadata on nested maps with dot-free keys (no two paths collide)
	m, toks := genNested(r, 0)
	c.Op("c14.flatten "+strings.Join(toks, ","), dumpFlat(rag.VerifFlattenMetadata(m, "")))
}

// ---- driver ----------------------------------------------------------------------------------

// RunCase generates collection #idx of the seed's stream and checks every export of it.
func RunCase(c *hx.Ctx, idx int) {
	r := c.Rng.Fork(uint64(idx))
	kase := caseID{Seed: c.Seed, Index: idx}
	chunks := genChunks(r)
	cc := rag.NewChunkCollection(chunks)
	caseTexts, caseLines = nil, nil

	// the four collection-level shorthands, with the configuration each documents
	type short struct {
		name string
		f    func() (string, error)
		cfg  rag.ExportConfig
	}
	jcfg := rag.DefaultExportConfig()
	jcfg.Format, jcfg.PrettyPrint = rag.ExportFormatJSON, true
	for _, s := range []short{{"ToJSON", cc.ToJSON, jcfg}, {"ToJSONL", cc.ToJSONL, rag.JSONLExportConfig()},
		{"ToCSV", cc.ToCSV, rag.CSVExportConfig()}, {"ToTSV", cc.ToTSV, rag.TSVExportConfig()}} {
		var out string
		var err error
		if p := hx.Safe(func() { out, err = s.f() }); p != "" {
			err = fmt.Errorf("panic: %s", p)
		}
		checkExport(c, kase, s.name, s.cfg, chunks, out, err, true)
		c.Op("c14.short "+s.name+" "+wireChunks(chunks), okHex(out, err))
	}
	// every format under drawn configurations
	for _, f := range allFormats {
		for k := 0; k < 2; k++ {
			cfg := genConfig(r, f)
			out, err := export(cfg, chunks)
			checkExport(c, kase, "ExportToString "+wireConfig(cfg), cfg, chunks, out, err, true)
			c.Count("format-" + formatName(f))
			if cfg.MetadataFields != nil {
				c.Count("metadata-fields-list")
			}
		}
	}
	checkBatches(c, kase, r, chunks)
	checkStream(c, kase, r, chunks)
	checkVectorDB(c, kase, r, chunks)
	checkFilters(c, kase, r, chunks)
	checkStdlibCSV(c, kase, r)
	checkHelpers(c, r, chunks)
	checkAPI(c, kase, r, chunks)
	checkJSONText(c, kase, r.Fork(0xA4), chunks, caseTexts, caseLines)
	checkDeep2(c, kase, r.Fork(0xA6), chunks)

	adversarial := false
	for _, ch := range chunks {
		if strings.ContainsAny(ch.Text+ch.Metadata.SectionTitle+ch.Metadata.DocumentTitle, ",\t\"\r\n\x00") {
			adversarial = true
		}
	}
	if adversarial {
		c.Count("collections-with-delimiter/quote/newline/NUL")
	}
	c.Count(fmt.Sprintf("chunks=%d", min(len(chunks), 8)))
	c.Case(wireChunks(chunks), len(chunks) > 0)
}

func Run(c *hx.Ctx) {
	c.Rep.Rule = "collections of 0–20 chunks whose ids, texts, titles, section names/paths, parent/child ids are concatenations of adversarial fragments (comma, tab, quotes, CR, LF, CRLF, NUL, control bytes, emoji, CJK, NBSP/NEL, JSON look-alikes, backslash-dot), valid UTF-8; every collection is exported by ToJSON/ToJSONL/ToCSV/ToTSV, by Exporter.ExportToString under 2 drawn configurations per format (library constructors + toggles of IncludeMetadata, MetadataFields nil/empty/subsets/unknown names, IncludeText, IncludeEmbeddings, FlattenMetadata, IncludeHeader, PrettyPrint, column names, delimiter), by BatchExporter (size 1..n+2, and a second run with a size from the whole positive int range: just above n, around powers of two, the 32-bit limits, MaxInt/k and MaxInt-k, uniform and log-uniform draws), StreamExporter, Pinecone/Chroma/Weaviate with dyadic embeddings, and filtered by 4 drawn filters/chains + an arbitrary predicate; plus, per case, a second collection whose texts are words spelled with arbitrary members of each letter's Unicode case class (components of SimpleFold/ToLower/ToUpper/ToTitle: k/K/KELVIN SIGN, i/I/U+0130/U+0131, s/S/long s, a-ring/ANGSTROM, Greek, digraphs) searched with 4 keywords that are pieces of those texts re-spelled in another casing, incl. wholly on the ASCII / non-ASCII side of each class, alone and chained with another filter; per case also: BatchExporter runs under a drawn, sometimes unsupported configuration (unknown Format value, delimiter encoding/csv rejects) with a callback failing at a drawn invocation; a StreamExporter driven by 0-8 drawn WriteChunk/Close calls (repeated chunks, arbitrary index arguments, Close anywhere); Pinecone/Chroma/Weaviate/PrepareForVectorDB with nil/empty/short/long embedding lists (nil and empty vectors inside); the text of every JSON/JSONL export, stream and vector-database export compared byte for byte with the model; the model's JSON reader against encoding/json on those texts, on copies damaged by 1-3 byte edits from a JSON-significant alphabet and on hand-made texts (number grammar, literals, escapes, duplicate keys, trailing data); JSON string literals of arbitrary byte strings (ill-formed UTF-8, overlongs, surrogates, U+2028/9, controls, <>&); formatValue on nested maps; second deepening, per case: the inverse reader (export text -> chunks: standard parser + decoder of the omitempty / %d / %t / level-name / [a,b,c] conventions) on an export of every format under a drawn configuration (1 in 3 a full one), on a copy damaged by 1-3 byte edits and on hand-made records and tables (wrong JSON types, non-integer numbers, unknown level names, duplicate members/columns, short rows, malformed list cells), with the statement-level oracle decode(export(chunks)) = the chunks up to the configuration's own projection; a CSV export under a delimiter rune drawn from valid 1-4 byte runes (incl. space, letters, U+0080, U+FFFE, U+10FFFF), invalid ones (U+FFFD, surrogates, > U+10FFFF, negative, quote, CR, LF) and uniform draws, on the collection extended by chunks whose strings are pieces of the delimiter's own encoding (ill-formed UTF-8), plus csv.Writer / the RFC 4180 reader on records of such pieces and on damaged texts; BatchExporter under batch sizes 0, negative, MinInt, MaxInt; ExportToFile / ChunkCollection.ExportToFile into a temp directory (uncreatable = a directory of that name; pre-existing content) and ExportToFiles under 6 name patterns (one with a bad argument index, so that all names collide), a directory in the way of one batch, a pre-existing file; toggles of the configuration fields an export must not look at; non-trivial = at least one chunk; distinct by canonical collection"
	checkConfigs(c)
	checkFormatNames(c)
	n := c.N(1200, 12000)
	for i := 0; i < n; i++ {
		RunCase(c, i)
	}
}

// Replay re-runs one recorded failing case on the implementation.
func Replay(c *hx.Ctx, kase map[string]interface{}) {
	if idx, ok := kase["index"].(float64); ok {
		onlyKey, _ = kase["key"].(string)
		RunCase(c, int(idx))
		return
	}
	c.Note("C14 replay: case has no index")
}
