package c14

import (
	"fmt"
	"strconv"
	"strings"

	"github.com/tsawler/tabula/rag"

	"verifharness/hx"
)

// Accessors of the collection a filter chain returns (op c14.coll), and the oracles the
// documentation of each accessor states.

func chunkRef(ch *rag.Chunk) string {
	if ch == nil {
		return "nil"
	}
	return hx.HexS(ch.ID) + "/" + hx.HexS(ch.Text)
}

func checkCollection(c *hx.Ctx, kase caseID, r *hx.Rng, chunks []*rag.Chunk) {
	kase.What = "collection"
	// a collection with repeated ids / repeated chunks now and then (GetByID must take the first)
	cs := append([]*rag.Chunk(nil), chunks...)
	if len(cs) > 1 && r.Chance(1, 3) {
		i, j := r.Intn(len(cs)), r.Intn(len(cs))
		if r.Bool() {
			cs = append(cs, cs[i])
		} else if i != j {
			dup := *cs[j]
			dup.ID = cs[i].ID
			cs[j] = &dup
		}
	}
	var chain []fop
	for k := r.Intn(3); k > 0; k-- {
		f := genFop(r, cs)
		if f.kind == "search" {
			f = fop{kind: "tables"}
		}
		chain = append(chain, f)
	}
	cc := rag.NewChunkCollection(cs)
	for _, f := range chain {
		cc = f.apply(cc)
	}
	got := cc.ToSlice()
	id := "chunk-" + strconv.Itoa(r.Intn(8))
	if len(cs) > 0 && r.Chance(2, 3) {
		id = hx.Pick(r, cs).ID
	}
	idx := r.Range(-2, len(got)+1)
	var ws []string
	for _, f := range chain {
		ws = append(ws, f.wire())
	}
	var out string
	p := hx.Safe(func() {
		st := cc.Statistics()
		lo, hi := cc.GetPageRange()
		out = strings.Join([]string{strconv.Itoa(cc.Count()), chunkRef(cc.First()), chunkRef(cc.Last()), chunkRef(cc.GetByIndex(idx)),
			chunkRef(cc.GetByID(id)), wireList(cc.GetAllSections()), fmt.Sprintf("%d:%d", lo, hi),
			strconv.Itoa(cc.GetTotalTokens()), strconv.Itoa(cc.GetTotalWords()),
			fmt.Sprintf("%d,%d,%d,%d,%d,%d,%d,%d,%d,%d,%d,%d,%d", st.TotalChunks, st.TotalTokens, st.TotalWords, st.TotalChars, st.AvgTokens,
				st.MinTokens, st.MaxTokens, st.ChunksWithTables, st.ChunksWithLists, st.ChunksWithImages, st.UniqueSections, st.PageStart, st.PageEnd)}, "|")
	})
	if !chk(c, "C14/panic-collection", p == "", kase, func() string { return p }) {
		return
	}
	// oracles from the method documentation
	chk(c, "C14/collection-count", cc.Count() == len(got), kase, func() string { return fmt.Sprintf("Count()=%d, ToSlice has %d", cc.Count(), len(got)) })
	var firstWithID *rag.Chunk
	for _, ch := range got {
		if ch.ID == id {
			firstWithID = ch
			break
		}
	}
	chk(c, "C14/collection-get-by-id", cc.GetByID(id) == firstWithID, kase, func() string {
		return fmt.Sprintf("GetByID(%q) is not the first chunk of the collection with that id", id)
	})
	var byIdx *rag.Chunk
	if idx >= 0 && idx < len(got) {
		byIdx = got[idx]
	}
	chk(c, "C14/collection-get-by-index", cc.GetByIndex(idx) == byIdx, kase, func() string { return fmt.Sprintf("GetByIndex(%d) of %d chunks", idx, len(got)) })
	tok := 0
	for _, ch := range got {
		tok += ch.Metadata.EstimatedTokens
	}
	chk(c, "C14/collection-total-tokens", cc.GetTotalTokens() == tok, kase, func() string { return fmt.Sprintf("GetTotalTokens()=%d, sum=%d", cc.GetTotalTokens(), tok) })
	c.Op("c14.coll f="+strings.Join(ws, "+")+" "+hx.HexS(id)+" "+strconv.Itoa(idx)+" "+wireChunks(cs), out)
	c.Count(fmt.Sprintf("collection-chain=%d", len(chain)))
}
