package c14

import (
	"sort"
	"strings"
	"sync"
	"unicode"

	"github.com/tsawler/tabula/rag"

	"verifharness/hx"
)

// ---- case classes --------------------------------------------------------------------------
//
// Search is "case-insensitive". The interesting inputs for that word are the runes whose case
// variants are not the textbook upper/lower pair: variants that live on the other side of the
// ASCII boundary (k/K/U+212A KELVIN SIGN, i/I/U+0130/U+0131, s/S/U+017F), variants of another
// UTF-8 length (U+00E5/U+212B, U+00DF/U+1E9E), three- and four-member orbits (Greek theta,
// sigma with final sigma, micro sign/mu), title-case digraphs. The classes are not listed by
// hand: they are the connected components of the relation "x and y are linked by one of the
// Unicode case mappings the standard library knows" (SimpleFold, ToLower, ToUpper, ToTitle)
// over all cased runes.

var (
	caseOnce    sync.Once
	caseMembers map[rune][]rune // rune -> all members of its class (sorted, includes the rune)
)

func buildCaseClasses() {
	parent := map[rune]rune{}
	var find func(x rune) rune
	find = func(x rune) rune {
		p, ok := parent[x]
		if !ok || p == x {
			return x
		}
		root := find(p)
		parent[x] = root
		return root
	}
	union := func(a, b rune) {
		if a == b {
			return
		}
		ra, rb := find(a), find(b)
		if ra == rb {
			return
		}
		if rb < ra {
			ra, rb = rb, ra
		}
		parent[rb] = ra
		if _, ok := parent[ra]; !ok {
			parent[ra] = ra
		}
	}
	const lastCased = 0x1FFFF // every cased rune of Unicode lies below this
	for x := rune(0); x <= lastCased; x++ {
		if x >= 0xD800 && x <= 0xDFFF {
			continue
		}
		union(x, unicode.SimpleFold(x))
		union(x, unicode.ToLower(x))
		union(x, unicode.ToUpper(x))
		union(x, unicode.ToTitle(x))
	}
	groups := map[rune][]rune{}
	for x := range parent {
		root := find(x)
		groups[root] = append(groups[root], x)
	}
	caseMembers = map[rune][]rune{}
	for _, g := range groups {
		sort.Slice(g, func(i, j int) bool { return g[i] < g[j] })
		for _, x := range g {
			caseMembers[x] = g
		}
	}
}

// caseClass returns every rune related to x by case (x itself for uncased runes).
func caseClass(x rune) []rune {
	caseOnce.Do(buildCaseClasses)
	if g, ok := caseMembers[x]; ok {
		return g
	}
	return []rune{x}
}

// variant: a random member of the case class of x.
func variant(r *hx.Rng, x rune) rune { return hx.Pick(r, caseClass(x)) }

// project replaces x by a member of its class on the wanted side of the ASCII boundary,
// when the class has one there.
func project(r *hx.Rng, x rune, ascii bool) rune {
	var side []rune
	for _, y := range caseClass(x) {
		if (y < utf8RuneSelf) == ascii {
			side = append(side, y)
		}
	}
	if len(side) == 0 {
		return x
	}
	return hx.Pick(r, side)
}

const utf8RuneSelf = 0x80

// letters the case-rich words are spelled with (base forms; the variants come from the
// classes). ASCII letters with a non-ASCII relative are listed more than once.
var caseLetters = []rune("abcdefghijklmnopqrstuvwxyz" + "iikkss" + "éåßωµθσςφβǆǉžñд" + "ıſ")

// separators and uncased material between/inside words
var caseSeps = []string{" ", " ", " ", ", ", "\t", "\n", "\"", "-", "1", "273 ", "日本", "😀", " ", ""}

var caseWords = []string{"kelvin", "istanbul", "kiwi", "ski", "milk", "sink", "title", "index", "is", "ik", "k", "i", "s",
	"ångström", "ohm", "ω", "µm", "μm", "straße", "σοφός", "ǆungla", "жук", "273 k", "diyarbakır", "ſtraſſe", "x,y", "word"}

func caseRichWord(r *hx.Rng) []rune {
	var w []rune
	if r.Chance(2, 3) {
		w = []rune(hx.Pick(r, caseWords))
	} else {
		for k := r.Range(1, 6); k > 0; k-- {
			w = append(w, hx.Pick(r, caseLetters))
		}
	}
	// spell it in some casing: as is, all through one projection, or rune by rune
	switch r.Intn(4) {
	case 0:
	case 1:
		ascii := r.Bool()
		for i := range w {
			if r.Chance(3, 4) {
				w[i] = project(r, w[i], ascii)
			}
		}
	default:
		for i := range w {
			if r.Bool() {
				w[i] = variant(r, w[i])
			}
		}
	}
	return w
}

// caseRichText: 0–5 words in arbitrary casings (any member of each letter's case class).
func caseRichText(r *hx.Rng) string {
	if r.Chance(1, 12) {
		return ""
	}
	var sb strings.Builder
	for k := r.Range(1, 5); k > 0; k-- {
		sb.WriteString(string(caseRichWord(r)))
		if k > 1 {
			sb.WriteString(hx.Pick(r, caseSeps))
		}
	}
	return sb.String()
}

// caseRichChunks: a drawn collection (all metadata as in genChunks) whose texts are case-rich.
func caseRichChunks(r *hx.Rng) []*rag.Chunk {
	chunks := genChunks(r)
	for _, ch := range chunks {
		ch.Text = caseRichText(r)
	}
	return chunks
}

// caseKeyword draws a keyword for Search over the collection: a piece of one of the texts
// re-spelled in another casing (rune by rune, or wholly projected to the ASCII / the
// non-ASCII side of each class), a word of the list, or the empty keyword.
func caseKeyword(r *hx.Rng, chunks []*rag.Chunk) string {
	var src []rune
	if len(chunks) > 0 && r.Chance(5, 6) {
		src = []rune(hx.Pick(r, chunks).Text)
	}
	if len(src) == 0 {
		src = caseRichWord(r)
	}
	i := r.Intn(len(src))
	j := i + r.Range(1, 6)
	if j > len(src) {
		j = len(src)
	}
	kw := append([]rune(nil), src[i:j]...)
	switch r.Intn(6) {
	case 0: // verbatim
	case 1, 2: // ASCII spelling wherever the class has one
		for k := range kw {
			kw[k] = project(r, kw[k], true)
		}
	case 3: // non-ASCII spelling wherever the class has one
		for k := range kw {
			kw[k] = project(r, kw[k], false)
		}
	default:
		for k := range kw {
			if r.Bool() {
				kw[k] = variant(r, kw[k])
			}
		}
	}
	if r.Chance(1, 20) {
		return ""
	}
	return string(kw)
}

// ---- the two readings of "contains, case-insensitive" ----------------------------------------

// containsLower: both sides lower-cased rune by rune, then substring.
func containsLower(text, keyword string) bool {
	lo := func(s string) string {
		rs := []rune(s)
		for i := range rs {
			rs[i] = unicode.ToLower(rs[i])
		}
		return string(rs)
	}
	return strings.Contains(lo(text), lo(keyword))
}

// containsASCIIFold: substring where only A–Z/a–z are folded (used to classify inputs, never
// as an expectation).
func containsASCIIFold(text, keyword string) bool {
	lo := func(s string) string {
		b := []byte(s)
		for i, x := range b {
			if 'A' <= x && x <= 'Z' {
				b[i] = x + 32
			}
		}
		return string(b)
	}
	return strings.Contains(lo(text), lo(keyword))
}

func isASCIIString(s string) bool {
	for i := 0; i < len(s); i++ {
		if s[i] >= utf8RuneSelf {
			return false
		}
	}
	return true
}

type verdict int8

const (
	no        verdict = 0
	yes       verdict = 1
	undecided verdict = -1
)

// holds3 is holds with the one place made explicit where the documentation leaves room:
// "containing a keyword (case-insensitive)" is decided when Unicode caseless matching (simple
// case folding, rune by rune) and lower-casing both sides agree; where they differ (U+0130,
// U+017F, micro sign vs mu, …) neither answer is demanded by the statement-level oracle (the
// correspondence with the model still pins the implementation's documented ToLower reading).
func (f fop) holds3(ch *rag.Chunk) verdict {
	if f.kind == "search" {
		a, b := containsFold(ch.Text, f.s), containsLower(ch.Text, f.s)
		if a != b {
			return undecided
		}
	}
	if f.holds(ch) {
		return yes
	}
	return no
}

// chainVerdict: conjunction over the chain (no wins over undecided).
func chainVerdict(chain []fop, ch *rag.Chunk) verdict {
	v := yes
	for _, f := range chain {
		switch f.holds3(ch) {
		case no:
			return no
		case undecided:
			v = undecided
		}
	}
	return v
}
