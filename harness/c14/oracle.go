package c14

import (
	"bytes"
	"encoding/json"
	"fmt"
	"io"
	"sort"
	"strconv"
	"strings"
	"unicode"

	"github.com/tsawler/tabula/rag"

	"verifharness/hx"
)

// The oracles below are written from the property text: every export is re-parsed by a
// standard parser (encoding/json, the RFC 4180 reader of csvread.go) and compared record by
// record with the SOURCE chunks. They do not use the Lean model nor tabula's helper functions.

var levelNames = map[int]string{0: "document", 1: "section", 2: "paragraph", 3: "sentence"}

// srcValue returns the typed source value of a metadata field of a chunk.
func srcValue(c *rag.Chunk, field string) interface{} {
	m := c.Metadata
	switch field {
	case "document_title":
		return m.DocumentTitle
	case "section_path":
		return m.SectionPath
	case "section_title":
		return m.SectionTitle
	case "heading_level":
		return m.HeadingLevel
	case "page_start":
		return m.PageStart
	case "page_end":
		return m.PageEnd
	case "chunk_index":
		return m.ChunkIndex
	case "total_chunks":
		return m.TotalChunks
	case "level":
		return levelNames[int(m.Level)]
	case "parent_id":
		return m.ParentID
	case "child_ids":
		return m.ChildIDs
	case "element_types":
		return m.ElementTypes
	case "has_table":
		return m.HasTable
	case "has_list":
		return m.HasList
	case "has_image":
		return m.HasImage
	case "char_count":
		return m.CharCount
	case "word_count":
		return m.WordCount
	case "estimated_tokens":
		return m.EstimatedTokens
	}
	return nil
}

func isKnownField(f string) bool {
	for _, k := range metaFieldNames {
		if k == f {
			return true
		}
	}
	return false
}

func isZero(v interface{}) bool {
	switch x := v.(type) {
	case string:
		return x == ""
	case int:
		return x == 0
	case bool:
		return !x
	case []string:
		return len(x) == 0
	}
	return false
}

// fieldAllowed: does the configuration ask for this metadata field?
func fieldAllowed(cfg rag.ExportConfig, f string) bool {
	if !cfg.IncludeMetadata {
		return false
	}
	if cfg.MetadataFields == nil {
		return true
	}
	for _, x := range cfg.MetadataFields {
		if x == f {
			return true
		}
	}
	return false
}

// jsonValueEquals compares a value decoded by encoding/json (UseNumber) with a typed source value.
func jsonValueEquals(got interface{}, want interface{}) bool {
	switch w := want.(type) {
	case string:
		g, ok := got.(string)
		return ok && g == w
	case int:
		g, ok := got.(json.Number)
		return ok && g.String() == strconv.Itoa(w)
	case bool:
		g, ok := got.(bool)
		return ok && g == w
	case []string:
		g, ok := got.([]interface{})
		if !ok || len(g) != len(w) {
			return false
		}
		for i := range g {
			s, ok := g[i].(string)
			if !ok || s != w[i] {
				return false
			}
		}
		return true
	}
	return false
}

// present-or-zero rule of a format that omits empty values: a present value must equal the
// source; an absent one is only acceptable when the source value is empty/zero.
func jsonFieldOK(obj map[string]interface{}, key string, want interface{}) bool {
	got, ok := obj[key]
	if !ok {
		return isZero(want)
	}
	return jsonValueEquals(got, want)
}

// parseJSONLines is the standard JSON Lines reading: every line is one complete JSON value.
func parseJSONLines(out string) ([]map[string]interface{}, error) {
	if out == "" {
		return nil, nil
	}
	if !strings.HasSuffix(out, "\n") {
		return nil, fmt.Errorf("last line not terminated")
	}
	lines := strings.Split(strings.TrimSuffix(out, "\n"), "\n")
	recs := make([]map[string]interface{}, 0, len(lines))
	for i, ln := range lines {
		var m map[string]interface{}
		if err := decodeOne([]byte(ln), &m); err != nil {
			return nil, fmt.Errorf("line %d: %v", i+1, err)
		}
		if m == nil {
			return nil, fmt.Errorf("line %d: not an object", i+1)
		}
		recs = append(recs, m)
	}
	return recs, nil
}

// decodeOne decodes exactly one JSON value (numbers kept as text) and rejects trailing data.
func decodeOne(data []byte, v interface{}) error {
	dec := json.NewDecoder(bytes.NewReader(data))
	dec.UseNumber()
	if err := dec.Decode(v); err != nil {
		return err
	}
	var extra interface{}
	if err := dec.Decode(&extra); err != io.EOF {
		return fmt.Errorf("trailing data after JSON value")
	}
	return nil
}

func parseJSONArray(out string) ([]map[string]interface{}, error) {
	var recs []map[string]interface{}
	if err := decodeOne([]byte(out), &recs); err != nil {
		return nil, err
	}
	for i, r := range recs {
		if r == nil {
			return nil, fmt.Errorf("element %d is not an object", i)
		}
	}
	return recs, nil
}

var exportedTopKeys = map[string]bool{"id": true, "text": true, "metadata": true, "embeddings": true, "document_title": true,
	"page_start": true, "page_end": true, "chunk_index": true, "section_title": true, "section_path": true,
	"has_table": true, "has_list": true, "has_image": true}

// checkJSONRecords: one record per chunk, in order, same id/text/metadata values.
func checkJSONRecords(c *hx.Ctx, kind string, kase caseID, recs []map[string]interface{}, chunks []*rag.Chunk, cfg rag.ExportConfig) {
	if !chk(c, "C14/"+kind+"-record-count", len(recs) == len(chunks), kase, func() string {
		return fmt.Sprintf("%d records for %d chunks", len(recs), len(chunks))
	}) {
		return
	}
	for i, ch := range chunks {
		rec := recs[i]
		chk(c, "C14/"+kind+"-field-id", jsonFieldOK(rec, "id", ch.ID), kase, func() string {
			return fmt.Sprintf("record %d id=%#v want %q", i, rec["id"], ch.ID)
		})
		if cfg.IncludeText {
			chk(c, "C14/"+kind+"-field-text", jsonFieldOK(rec, "text", ch.Text), kase, func() string {
				return fmt.Sprintf("record %d text=%#v want %q", i, rec["text"], ch.Text)
			})
		} else {
			_, has := rec["text"]
			chk(c, "C14/"+kind+"-text-excluded", !has, kase, func() string {
				return fmt.Sprintf("record %d carries text although IncludeText=false", i)
			})
		}
		for k := range rec {
			chk(c, "C14/"+kind+"-field-meta", exportedTopKeys[k], kase, func() string {
				return fmt.Sprintf("record %d has unknown key %q", i, k)
			})
		}
		for _, k := range []string{"document_title", "page_start", "page_end", "chunk_index", "section_title", "section_path", "has_table", "has_list", "has_image"} {
			chk(c, "C14/"+kind+"-field-meta", jsonFieldOK(rec, k, srcValue(ch, k)), kase, func() string {
				return fmt.Sprintf("record %d %s=%#v want %#v", i, k, rec[k], srcValue(ch, k))
			})
		}
		var md map[string]interface{}
		if raw, ok := rec["metadata"]; ok {
			md, ok = raw.(map[string]interface{})
			if !chk(c, "C14/"+kind+"-field-meta", ok, kase, func() string { return fmt.Sprintf("record %d metadata is not an object", i) }) {
				continue
			}
		}
		for k, v := range md {
			chk(c, "C14/"+kind+"-field-meta", isKnownField(k) && fieldAllowed(cfg, k), kase, func() string {
				return fmt.Sprintf("record %d metadata has key %q=%#v that the configuration excludes (or is unknown)", i, k, v)
			})
		}
		for _, f := range metaFieldNames {
			if !fieldAllowed(cfg, f) {
				continue
			}
			want := srcValue(ch, f)
			chk(c, "C14/"+kind+"-field-meta", jsonFieldOK(md, f, want), kase, func() string {
				return fmt.Sprintf("record %d metadata.%s=%#v want %#v", i, f, md[f], want)
			})
		}
	}
}

// ---- CSV / TSV ------------------------------------------------------------------

var csvPositional = []string{"chunk_index", "document_title", "page_start", "page_end", "section_title", "has_table", "has_list", "has_image"}

func isPositional(k string) bool {
	for _, p := range csvPositional {
		if p == k {
			return true
		}
	}
	return false
}

// csvCellEquals decodes a cell by the obvious textual convention of the value's type.
// list=true reports that the mismatch is in a list-valued field.
func csvCellEquals(cell string, want interface{}) (ok bool, list bool) {
	switch w := want.(type) {
	case string:
		return cell == w, false
	case int:
		if cell == "" {
			return w == 0, false
		}
		n, err := strconv.Atoi(cell)
		return err == nil && n == w, false
	case bool:
		if cell == "" {
			return !w, false
		}
		b, err := strconv.ParseBool(cell)
		return err == nil && b == w && (cell == "true" || cell == "false"), false
	case []string:
		if cell == "" {
			return len(w) == 0, true
		}
		if len(cell) < 2 || cell[0] != '[' || cell[len(cell)-1] != ']' {
			return false, true
		}
		parts := strings.Split(cell[1:len(cell)-1], ",")
		if len(parts) != len(w) {
			return false, true
		}
		for i := range parts {
			if parts[i] != w[i] {
				return false, true
			}
		}
		return true, true
	}
	return false, false
}

// expectedDelim: the delimiter a reader of the declared format uses.
func expectedDelim(cfg rag.ExportConfig) []byte {
	if cfg.Format == rag.ExportFormatTSV {
		return []byte{'\t'}
	}
	if cfg.CSVDelimiter == 0 {
		return []byte{','}
	}
	return []byte(string(cfg.CSVDelimiter)) // the UTF-8 encoding of the rune
}

// checkCSVWithHeader: `out` was exported with IncludeHeader=true.
func checkCSVWithHeader(c *hx.Ctx, kind string, kase caseID, out string, chunks []*rag.Chunk, cfg rag.ExportConfig) (records [][]string, ok bool) {
	records, err := readRFC4180D([]byte(out), expectedDelim(cfg))
	if !chk(c, "C14/"+kind+"-wellformed", err == nil, kase, func() string { return fmt.Sprintf("RFC 4180 reader: %v in %q", err, clip(out)) }) {
		return nil, false
	}
	if !chk(c, "C14/"+kind+"-record-count", len(records) == len(chunks)+1, kase, func() string {
		return fmt.Sprintf("%d records (incl. header) for %d chunks", len(records), len(chunks))
	}) {
		return records, false
	}
	header := records[0]
	rect := true
	for _, r := range records {
		if len(r) != len(header) {
			rect = false
		}
	}
	if !chk(c, "C14/"+kind+"-wellformed", rect, kase, func() string { return "records have different numbers of fields: " + clip(out) }) {
		return records, false
	}
	col := map[string]int{}
	uniq := true
	for j, h := range header {
		if _, dup := col[h]; dup {
			uniq = false
		}
		col[h] = j
	}
	if !chk(c, "C14/"+kind+"-header-unique", uniq, kase, func() string { return fmt.Sprintf("duplicate column name in %q", header) }) {
		return records, false
	}
	// column set: id, text iff requested, positional ones, then meta_<field> for requested non-positional fields
	var metaCols []string
	for _, h := range header {
		switch {
		case h == cfg.ChunkIDColumnName, h == cfg.TextColumnName && cfg.IncludeText, isPositional(h):
		case h == "embeddings" && cfg.IncludeEmbeddings:
		case strings.HasPrefix(h, "meta_"):
			f := strings.TrimPrefix(h, "meta_")
			metaCols = append(metaCols, f)
			chk(c, "C14/"+kind+"-column-unexpected", isKnownField(f) && fieldAllowed(cfg, f), kase, func() string {
				return fmt.Sprintf("column %q is present although the configuration does not include that metadata field", h)
			})
		default:
			chk(c, "C14/"+kind+"-column-unexpected", false, kase, func() string { return fmt.Sprintf("unexpected column %q", h) })
		}
	}
	chk(c, "C14/"+kind+"-columns-sorted", sort.StringsAreSorted(metaCols), kase, func() string {
		return fmt.Sprintf("metadata columns not in ascending order: %q", metaCols)
	})
	_, hasID := col[cfg.ChunkIDColumnName]
	_, hasText := col[cfg.TextColumnName]
	chk(c, "C14/"+kind+"-field-id", hasID, kase, func() string { return "no id column in " + fmt.Sprint(header) })
	chk(c, "C14/"+kind+"-field-text", hasText == cfg.IncludeText, kase, func() string {
		return fmt.Sprintf("text column present=%v, IncludeText=%v", hasText, cfg.IncludeText)
	})
	for i, ch := range chunks {
		row := records[i+1]
		if hasID {
			chk(c, "C14/"+kind+"-field-id", row[col[cfg.ChunkIDColumnName]] == ch.ID, kase, func() string {
				return fmt.Sprintf("row %d id=%q want %q", i, row[col[cfg.ChunkIDColumnName]], ch.ID)
			})
		}
		if hasText && cfg.IncludeText {
			chk(c, "C14/"+kind+"-field-text", row[col[cfg.TextColumnName]] == ch.Text, kase, func() string {
				return fmt.Sprintf("row %d text=%q want %q", i, row[col[cfg.TextColumnName]], ch.Text)
			})
		}
		for _, p := range csvPositional {
			j, has := col[p]
			if !has {
				continue
			}
			okc, _ := csvCellEquals(row[j], srcValue(ch, p))
			chk(c, "C14/"+kind+"-field-meta", okc, kase, func() string {
				return fmt.Sprintf("row %d column %s=%q want %#v", i, p, row[j], srcValue(ch, p))
			})
		}
		for _, f := range metaFieldNames {
			if isPositional(f) {
				continue
			}
			want := srcValue(ch, f)
			j, has := col["meta_"+f]
			if !has {
				if fieldAllowed(cfg, f) {
					chk(c, "C14/"+kind+"-column-missing", isZero(want), kase, func() string {
						return fmt.Sprintf("row %d: metadata %s=%#v is requested but there is no column meta_%s", i, f, want, f)
					})
				}
				continue
			}
			okc, isList := csvCellEquals(row[j], want)
			key := "C14/" + kind + "-field-meta"
			if isList && hasComma(want) {
				// the known class: "[a,b,c]" cannot tell where an element with a comma ends
				key += "-list"
			}
			chk(c, key, okc, kase, func() string {
				return fmt.Sprintf("row %d column meta_%s=%q does not read back as %#v", i, f, row[j], want)
			})
		}
	}
	return records, true
}

func hasComma(v interface{}) bool {
	l, _ := v.([]string)
	for _, e := range l {
		if strings.Contains(e, ",") {
			return true
		}
	}
	return false
}

func clip(s string) string {
	if len(s) > 300 {
		return s[:300] + "…"
	}
	return s
}

// ---- filters ---------------------------------------------------------------------

// foldRune maps a rune to the smallest member of its simple case-folding orbit.
func foldRune(r rune) rune {
	m := r
	for x := unicode.SimpleFold(r); x != r; x = unicode.SimpleFold(x) {
		if x < m {
			m = x
		}
	}
	return m
}

// containsFold: does text contain keyword, ignoring case (rune by rune)?
func containsFold(text, keyword string) bool {
	t, k := []rune(text), []rune(keyword)
	for i := range t {
		t[i] = foldRune(t[i])
	}
	for i := range k {
		k[i] = foldRune(k[i])
	}
	for s := 0; s+len(k) <= len(t); s++ {
		match := true
		for j := range k {
			if t[s+j] != k[j] {
				match = false
				break
			}
		}
		if match {
			return true
		}
	}
	return false
}

func equalFoldASCII(a, b string) bool {
	if len(a) != len(b) {
		return false
	}
	for i := 0; i < len(a); i++ {
		x, y := a[i], b[i]
		if 'A' <= x && x <= 'Z' {
			x += 32
		}
		if 'A' <= y && y <= 'Z' {
			y += 32
		}
		if x != y {
			return false
		}
	}
	return true
}
