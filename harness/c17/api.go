package c17

// Correspondence for the workbook-level model (lean/TabulaModel/Model/Workbook.lean):
// shared strings, the whole of parseWorksheet / parseWorksheets, the accessors,
// ExtractOptions, TextWithOptions, findContentBounds, markdown and its wrappers,
// Document, Tables and the XLSX branches of tabula.Extractor, plus call
// histories on one reader. Workbooks: the logical generator of c17.go (valid),
// the same with authored faults (mutated), and raw sheets drawn from pools of
// good and bad references, types, values and merge ranges (raw).

import (
	"fmt"
	"os"
	"path/filepath"
	"strconv"
	"strings"

	"github.com/tsawler/tabula"
	"github.com/tsawler/tabula/model"
	"github.com/tsawler/tabula/rag"
	"github.com/tsawler/tabula/xlsx"

	"verifharness/hx"
	"verifharness/writers"
)

// siPair is one <si> as the reader's struct sees it: the direct <t> text and
// the texts of the <r><t> runs (a producer may write both, one or neither).
type siPair struct {
	t    string
	runs []string
}

type apiBook struct {
	sis        []siPair
	sheets     []writers.XSheet
	unreadable map[int]bool // the worksheet part is missing from the package
	notes      []string     // what was done to it (distribution)
}

func sstXML(sis []siPair) string {
	var b strings.Builder
	b.WriteString(`<?xml version="1.0" encoding="UTF-8" standalone="yes"?>` + "\n")
	fmt.Fprintf(&b, `<sst xmlns="http://schemas.openxmlformats.org/spreadsheetml/2006/main" count="%d" uniqueCount="%d">`, len(sis), len(sis))
	for i, si := range sis {
		b.WriteString("<si>")
		if si.t != "" || (len(si.runs) == 0 && i%2 == 0) {
			fmt.Fprintf(&b, `<t xml:space="preserve">%s</t>`, writers.XMLEsc(si.t))
		}
		for _, r := range si.runs {
			fmt.Fprintf(&b, `<r><rPr><i/></rPr><t xml:space="preserve">%s</t></r>`, writers.XMLEsc(r))
		}
		if len(si.runs) > 0 && i%3 == 0 {
			// phonetic run: has a <t> of its own and is not part of the string
			b.WriteString(`<rPh sb="0" eb="1"><t>phon</t></rPh>`)
		}
		b.WriteString("</si>")
	}
	b.WriteString("</sst>")
	return b.String()
}

func (ab apiBook) file() []byte {
	wb := writers.XWorkbook{Sheets: ab.sheets}
	var ms []writers.Member
	seen := map[string]bool{}
	for _, m := range writers.XLSXMembers(wb) {
		if m.Name == "xl/sharedStrings.xml" {
			m.Data = []byte(sstXML(ab.sis))
		}
		// several sheet entries may name one part: the member is written once (the first entry's content)
		skip := seen[m.Name]
		seen[m.Name] = true
		for i, sh := range ab.sheets {
			if ab.unreadable[i] && m.Name == "xl/"+sh.Path {
				skip = true
			}
		}
		if !skip {
			ms = append(ms, m)
		}
	}
	return writers.Zip(ms)
}

func rowsField(sh writers.XSheet) string {
	var rows []string
	for _, r := range sh.Rows {
		var cs []string
		for _, c := range r.Cells {
			is := "~"
			if c.Is != nil {
				is = hx.HexS(*c.Is)
			}
			v := ""
			if c.HasV {
				v = c.V
			}
			cs = append(cs, strings.Join([]string{hx.HexS(c.Ref), hx.HexS(c.T), hx.HexS(v), hx.HexS(c.F), is}, "."))
		}
		rows = append(rows, fmt.Sprintf("%d:%s", r.R, strings.Join(cs, "|")))
	}
	return strings.Join(rows, "/")
}

// fields returns the two op-line fields that describe the workbook as unmarshalled.
func (ab apiBook) fields() string {
	var sis []string
	for _, si := range ab.sis {
		parts := []string{hx.HexS(si.t)}
		for _, r := range si.runs {
			parts = append(parts, hx.HexS(r))
		}
		sis = append(sis, strings.Join(parts, "~"))
	}
	var shs []string
	for i, sh := range ab.sheets {
		if ab.unreadable[i] {
			shs = append(shs, "~")
			continue
		}
		shs = append(shs, hx.HexS(sh.Name)+"!"+rowsField(sh)+"!"+hx.HexList(sh.Merges)+"!"+hx.HexS("xl/"+sh.Path))
	}
	return "si=" + strings.Join(sis, ",") + " sh=" + strings.Join(shs, "@")
}

// ---- generators ---------------------------------------------------------------

func pairsOf(shared []writers.XSI) []siPair {
	var ps []siPair
	for _, s := range shared {
		if s.Runs != nil {
			ps = append(ps, siPair{runs: s.Runs})
		} else {
			ps = append(ps, siPair{t: s.Plain})
		}
	}
	return ps
}

var sheetNames = []string{"Data", "Q3 totals", "a|b", "Sheet 1 ", "  lead", "tail ", "日本", "x　", "#", "-", "=== S ===", "A&B<C>", "ends\t"}

var badRefs = []string{"", "A", "7", "A0", "$A$1", "A$1", "A1:B2", "A-1", "1A", "A1 ", " A1", "Ä1", "A1.5", "A99999999999999999999", "[1", "@2", "`3", "{4"}
var oddRefs = []string{"a1", "b2", "aA3", "B+2", "C+1", "A01", "B002", "AA1", "AB2", "ZZ3", "AAA1", "c3", "D4", "E5", "A6", "B1", "C2"}

var rawTypes = []string{"", "", "s", "s", "b", "e", "str", "inlineStr", "n", "d", "S", "bool"}
var rawVals = []string{"", "0", "1", "2", "3", "-1", "+1", "01", " 1", "x", "TRUE", "true", "3.5", "a|b", "l1\nl2", "99999999999999999999", "#REF!", " ", "p|q\nr", "\\|", "t\tu"}
var rawMerges = []string{"A1:B2", "B2:A1", "A1:A1", "a1:c1", "A1", "A1:B2:C3", "", "C3:D9", "B1:B3", "A2:C2", "B2:C3", "A1:ZZ500", "D1:D1", "A1:XFD1048576", "A1:B", ":", "A1:$B$2", "C1:E1", "A3:A4"}

func genRawSheet(r *hx.Rng, idx int, ab *apiBook) writers.XSheet {
	xs := writers.XSheet{Name: hx.Pick(r, sheetNames), Path: fmt.Sprintf("worksheets/sheet%d.xml", idx+1), RID: fmt.Sprintf("rId%d", idx+1)}
	if r.Chance(1, 2) {
		xs.Name += strconv.Itoa(idx)
	}
	rowNums := []int{1, 1, 2, 2, 3, 4, 5, 6, 0, -1, -3, 9, 17, 40}
	nrows := r.Range(0, 6)
	for i := 0; i < nrows; i++ {
		xr := writers.XRow{R: hx.Pick(r, rowNums)}
		ncells := r.Range(0, 5)
		for j := 0; j < ncells; j++ {
			var ref string
			switch r.Intn(8) {
			case 0:
				ref = hx.Pick(r, badRefs)
				ab.note("bad-ref")
			case 1, 2:
				ref = hx.Pick(r, oddRefs)
				ab.note("odd-ref")
			default:
				// a plain reference; its row part agrees with the row element most of the time
				rn := xr.R
				if rn < 1 || r.Chance(1, 6) {
					rn = r.Range(1, 9)
					ab.note("ref-row-differs")
				}
				ref = xlsx.IndexToColumn(r.Intn(7)) + strconv.Itoa(rn)
			}
			xc := writers.XCell{Ref: ref, T: hx.Pick(r, rawTypes)}
			if r.Chance(5, 6) {
				xc.HasV, xc.V = true, hx.Pick(r, rawVals)
			}
			if xc.T == "s" && r.Chance(2, 3) {
				xc.HasV, xc.V = true, strconv.Itoa(r.Range(-1, 5))
			}
			if r.Chance(1, 5) {
				xc.F = hx.Pick(r, formulas)
			}
			if xc.T == "inlineStr" && r.Chance(3, 4) || r.Chance(1, 12) {
				v := hx.Pick(r, rawVals)
				xc.Is = &v
			}
			xr.Cells = append(xr.Cells, xc)
		}
		xs.Rows = append(xs.Rows, xr)
	}
	for m := r.Intn(4); m > 0; m-- {
		xs.Merges = append(xs.Merges, hx.Pick(r, rawMerges))
	}
	if r.Chance(1, 25) {
		// addressed far beyond what the loader accepts: the sheet fails to load
		xs.Rows = append(xs.Rows, writers.XRow{R: 2000000 + r.Intn(7000000), Cells: []writers.XCell{{Ref: "F2000000", T: "str", V: "far", HasV: true}}})
		ab.note("oversize-sheet")
	}
	return xs
}

func (ab *apiBook) note(s string) {
	for _, n := range ab.notes {
		if n == s {
			return
		}
	}
	ab.notes = append(ab.notes, s)
}

func genRawBook(r *hx.Rng) apiBook {
	ab := apiBook{unreadable: map[int]bool{}}
	for i := r.Intn(5); i > 0; i-- {
		var p siPair
		switch r.Intn(4) {
		case 0:
			p.t = hx.Pick(r, words)
		case 1:
			p.runs = []string{hx.Pick(r, words), hx.Pick(r, rawVals)}
		case 2:
			p.t, p.runs = hx.Pick(r, words), []string{"run", hx.Pick(r, words)}
			ab.note("si-both")
		default:
			ab.note("si-neither")
		}
		ab.sis = append(ab.sis, p)
	}
	n := r.Range(1, 3)
	for i := 0; i < n; i++ {
		ab.sheets = append(ab.sheets, genRawSheet(r, i, &ab))
		if r.Chance(1, 8) {
			ab.unreadable[i] = true
			ab.note("part-missing")
		}
	}
	return ab
}

// mutate authors a few faults into a valid workbook.
func mutate(r *hx.Rng, ab *apiBook) {
	for k := r.Range(1, 3); k > 0; k-- {
		si := r.Intn(len(ab.sheets))
		sh := &ab.sheets[si]
		switch r.Intn(10) {
		case 0: // a second cell element with the same reference later in the row
			if len(sh.Rows) > 0 {
				row := &sh.Rows[r.Intn(len(sh.Rows))]
				if len(row.Cells) > 0 {
					dup := row.Cells[r.Intn(len(row.Cells))]
					dup.T, dup.HasV, dup.V, dup.Is = "str", true, "again", nil
					row.Cells = append(row.Cells, dup)
					ab.note("dup-ref")
				}
			}
		case 1: // the same row number in two row elements
			if len(sh.Rows) > 0 {
				src := sh.Rows[r.Intn(len(sh.Rows))]
				sh.Rows = append(sh.Rows, writers.XRow{R: src.R, Cells: []writers.XCell{{Ref: "B" + strconv.Itoa(src.R), T: "str", V: "second row element", HasV: true}}})
				ab.note("dup-row")
			}
		case 2: // a shared index that the table does not have, or not a number
			if len(sh.Rows) > 0 {
				row := &sh.Rows[r.Intn(len(sh.Rows))]
				row.Cells = append(row.Cells, writers.XCell{Ref: "C" + strconv.Itoa(row.R), T: "s", HasV: true, V: hx.Pick(r, []string{"9999", "-1", "x", "", "1.0"})})
				ab.note("bad-shared-index")
			}
		case 3: // overlapping / reversed / out-of-grid / malformed merge ranges
			sh.Merges = append(sh.Merges, hx.Pick(r, rawMerges))
			ab.note("odd-merge")
		case 4: // row elements numbered 0 or below
			sh.Rows = append(sh.Rows, writers.XRow{R: -r.Intn(3), Cells: []writers.XCell{{Ref: "A1", T: "str", V: "row<=0", HasV: true}}})
			ab.note("row<=0")
		case 5: // references that do not parse
			if len(sh.Rows) > 0 {
				row := &sh.Rows[r.Intn(len(sh.Rows))]
				row.Cells = append(row.Cells, writers.XCell{Ref: hx.Pick(r, badRefs), T: "str", V: "nowhere", HasV: true})
				ab.note("bad-ref")
			}
		case 6: // the part of one sheet is missing
			if len(ab.sheets) > 1 || r.Chance(1, 3) {
				ab.unreadable[si] = true
				ab.note("part-missing")
			}
		case 7: // values with the characters the Markdown writer escapes
			if len(sh.Rows) > 0 {
				row := &sh.Rows[r.Intn(len(sh.Rows))]
				row.Cells = append(row.Cells, writers.XCell{Ref: "D" + strconv.Itoa(row.R), T: "str", V: hx.Pick(r, []string{"a|b", "l1\nl2", "|", "\n", "x\\|y", "p|q\nr|s", "a|", "|a", "l1\n", "\nl2", "a\\", "a|\n", "||"}), HasV: true})
				ab.note("md-special-value")
			}
		case 8:
			sh.Name = hx.Pick(r, sheetNames)
			ab.note("odd-name")
		default: // cell whose reference names another row than its row element
			if len(sh.Rows) > 0 {
				row := &sh.Rows[r.Intn(len(sh.Rows))]
				row.Cells = append(row.Cells, writers.XCell{Ref: "E" + strconv.Itoa(row.R+r.Range(1, 3)), T: "str", V: "other row", HasV: true})
				ab.note("ref-row-differs")
			}
		}
	}
}

// ---- dumps (the same formats as Handlers/C17.lean) ------------------------------

func dumpCell(cell *xlsx.Cell) string {
	return fmt.Sprintf("%s,%s,%v,%v,%d,%d", cell.Type.String(), hx.HexS(cell.Value), cell.IsMerged, cell.IsMergeRoot, cell.MergeRows, cell.MergeCols)
}

func dumpCells(s *xlsx.Sheet) string {
	ncols := 0
	if len(s.Rows) > 0 {
		ncols = len(s.Rows[0])
	}
	var cells []string
	for ri := range s.Rows {
		for ci := range s.Rows[ri] {
			cell := &s.Rows[ri][ci]
			if cell.Value == "" && cell.Type == xlsx.CellTypeEmpty && !cell.IsMerged && !cell.IsMergeRoot && cell.MergeRows == 1 && cell.MergeCols == 1 {
				continue
			}
			cells = append(cells, fmt.Sprintf("%d,%d,%s", ri, ci, dumpCell(cell)))
		}
	}
	return fmt.Sprintf("%dx%d [%s]", len(s.Rows), ncols, strings.Join(cells, ";"))
}

func dumpOptCell(cell *xlsx.Cell) string {
	if cell == nil {
		return "nil"
	}
	return dumpCell(cell)
}

func dumpDoc(doc *model.Document) string {
	var pages []string
	for _, p := range doc.Pages {
		var tbl *model.Table
		for _, el := range p.Elements {
			if t, ok := el.(*model.Table); ok {
				tbl = t
			}
		}
		if tbl == nil {
			pages = append(pages, fmt.Sprintf("%d:none", p.Number))
			continue
		}
		ncols := 0
		if len(tbl.Rows) > 0 {
			ncols = len(tbl.Rows[0])
		}
		var cells []string
		for _, row := range tbl.Rows {
			for _, cl := range row {
				cells = append(cells, fmt.Sprintf("%s.%d.%d.%v", hx.HexS(cl.Text), cl.RowSpan, cl.ColSpan, cl.IsHeader))
			}
		}
		pages = append(pages, fmt.Sprintf("%d:%dx%d:%s", p.Number, len(tbl.Rows), ncols, strings.Join(cells, ",")))
	}
	return strings.Join(pages, ";")
}

func hexJoin(xs []string) string {
	hs := make([]string, len(xs))
	for i, x := range xs {
		hs[i] = hx.HexS(x)
	}
	return strings.Join(hs, ",")
}

func dumpTables(ts []xlsx.ParsedTable) string {
	var out []string
	for _, t := range ts {
		var rows []string
		for _, row := range t.Rows {
			rows = append(rows, hexJoin(row))
		}
		out = append(out, fmt.Sprintf("%s:%s:%s:%s:%s", hx.HexS(t.Name), hexJoin(t.Headers), strings.Join(rows, "/"), hx.HexS(t.ToText()), hx.HexS(t.ToMarkdown())))
	}
	return strings.Join(out, ";")
}

func b01(b bool) string {
	if b {
		return "1"
	}
	return "0"
}

func optsField(o xlsx.ExtractOptions) string {
	sel := make([]string, len(o.Sheets))
	for i, s := range o.Sheets {
		sel[i] = strconv.Itoa(s)
	}
	return strings.Join([]string{strings.Join(sel, ","), b01(o.IncludeHeaders), hx.HexS(o.Delimiter), b01(o.ExcludeHeaders), b01(o.ExcludeFooters)}, ";")
}

func genOpts(r *hx.Rng, nsheets int) xlsx.ExtractOptions {
	var o xlsx.ExtractOptions
	if r.Chance(1, 2) {
		for k := r.Range(1, 3); k > 0; k-- {
			o.Sheets = append(o.Sheets, r.Range(-1, nsheets)) // -1 and nsheets are out of range
		}
	}
	o.IncludeHeaders = r.Chance(1, 3)
	if r.Chance(1, 3) {
		o.Delimiter = hx.Pick(r, []string{",", ";", " | ", "\t\t", "\n", "::"})
	}
	o.ExcludeHeaders, o.ExcludeFooters = r.Chance(1, 4), r.Chance(1, 4)
	return o
}

// ---- one case -----------------------------------------------------------------------

type apiCase struct {
	Seed  uint64 `json:"seed"`
	Index int    `json:"index"`
	API   bool   `json:"api"`
	// Budget: a workbook of the budget stream (budget.go); Cap: of the workbook-cap stream
	Budget bool `json:"budget,omitempty"`
	Cap    bool `json:"cap,omitempty"`
}

// RunAPI generates workbook #idx of the api stream and emits the workbook-level ops.
func RunAPI(c *hx.Ctx, idx int, keep bool) {
	r := hx.NewRng(c.Seed ^ 0xA17).Fork(uint64(idx))
	var ab apiBook
	kind := "valid"
	switch r.Intn(5) {
	case 0, 1:
		kind = "raw"
		ab = genRawBook(r)
	default:
		nsheets := r.Range(1, 3)
		var sheets []lsheet
		for i := 0; i < nsheets; i++ {
			sheets = append(sheets, genSheet(r, i, r.Chance(1, 30)))
		}
		wb := physical(r, sheets)
		ab = apiBook{sis: pairsOf(wb.Shared), sheets: wb.Sheets, unreadable: map[int]bool{}}
		if r.Chance(1, 2) {
			kind = "mutated"
			mutate(r, &ab)
		}
	}
	c.Count("api:" + kind)
	for _, n := range ab.notes {
		c.Count("api-fault:" + n)
	}
	runBook(c, r, ab, apiCase{Seed: c.Seed, Index: idx, API: true}, filepath.Join(c.OutDir, fmt.Sprintf("api-%d.xlsx", idx)), keep, false, nil)
}

// runBook writes the workbook, opens it and emits the workbook-level ops. light:
// only c17.sst, c17.open and the grids of small sheets (workbooks with grids of
// millions of cells, whose texts are not worth printing). inspect, if given, sees
// the reader right after Open (nil if Open failed) for statement-level oracles.
func runBook(c *hx.Ctx, r *hx.Rng, ab apiBook, kase apiCase, path string, keep, light bool, inspect func(*xlsx.Reader)) {
	os.WriteFile(path, ab.file(), 0o644)
	if !keep {
		defer os.Remove(path)
	}
	wbf := ab.fields()

	var rd *xlsx.Reader
	var err error
	if !c.Guard("C17/api-open", kase, 60, func() { rd, err = xlsx.Open(path) }) {
		return
	}
	if err != nil {
		c.Op("c17.open "+wbf, "err")
		c.Count("api:open-error")
		c.Case(wbf, false)
		if inspect != nil {
			inspect(nil)
		}
		return
	}
	defer rd.Close()
	if inspect != nil {
		inspect(rd)
	}

	// shared strings
	{
		var sis []string
		for _, f := range strings.Fields(wbf) {
			if strings.HasPrefix(f, "si=") {
				sis = append(sis, f)
			}
		}
		c.Op("c17.sst "+sis[0], hexJoin(rd.VerifSharedStrings()))
	}
	// open: names, indices, dimensions, content bounds
	var open []string
	nontrivial := false
	for i := 0; i < rd.SheetCount(); i++ {
		s, _ := rd.Sheet(i)
		a, b, cc, d := rd.VerifContentBounds(s)
		open = append(open, fmt.Sprintf("%s,%d,%d,%d,%d.%d.%d.%d", hx.HexS(s.Name), s.Index, s.RowCount(), s.ColCount(), a, b, cc, d))
		if a <= b && cc <= d {
			nontrivial = true
		}
		for ri := range s.Rows {
			for ci := range s.Rows[ri] {
				cl := &s.Rows[ri][ci]
				if cl.Row != ri || cl.Col != ci {
					c.Check("C17/cell-coordinates", false, kase, func() string {
						return fmt.Sprintf("sheet %d cell at [%d][%d] says Row=%d Col=%d", i, ri, ci, cl.Row, cl.Col)
					})
				}
			}
		}
	}
	pc, _ := rd.PageCount()
	c.Check("C17/page-count", pc == rd.SheetCount(), kase, func() string { return fmt.Sprintf("PageCount %d SheetCount %d", pc, rd.SheetCount()) })
	c.Op("c17.open "+wbf, fmt.Sprintf("%d|%s", rd.SheetCount(), strings.Join(open, ";")))
	if rd.SheetCount() < len(ab.sheets) {
		c.Count("api:sheet-skipped")
	}
	names := rd.SheetNames()
	for i := 0; i < rd.SheetCount(); i++ {
		s, _ := rd.Sheet(i)
		if light && s.RowCount()*s.ColCount() > 4096 {
			continue
		}
		c.Op(fmt.Sprintf("c17.grid %s %d", wbf, i), dumpCells(s))
	}
	if s, err := rd.Sheet(rd.SheetCount()); err == nil || s != nil {
		c.Check("C17/sheet-index-range", false, kase, func() string { return "Sheet(SheetCount()) did not fail" })
	}
	if light {
		c.Case(wbf, nontrivial)
		return
	}

	// text
	txt, _ := rd.Text()
	c.Op("c17.text "+wbf+" o="+optsField(xlsx.ExtractOptions{}), hx.HexS(txt))
	o := genOpts(r, rd.SheetCount())
	txt2, _ := rd.TextWithOptions(o)
	c.Op("c17.text "+wbf+" o="+optsField(o), hx.HexS(txt2))
	if len(o.Sheets) > 0 {
		c.Count("api-opts:sheet-selection")
	}
	if o.Delimiter != "" {
		c.Count("api-opts:delimiter")
	}
	if o.IncludeHeaders {
		c.Count("api-opts:include-headers")
	}

	// markdown
	o2 := genOpts(r, rd.SheetCount())
	md, _ := rd.MarkdownWithOptions(o2)
	c.Op("c17.mdopt "+wbf+" o="+optsField(o2), hx.HexS(md))
	mdAll, _ := rd.Markdown()
	c.Op("c17.mdopt "+wbf+" o="+optsField(xlsx.ExtractOptions{}), hx.HexS(mdAll))
	mo := rag.DefaultMarkdownOptions()
	if r.Chance(2, 3) {
		mo.HeadingLevelOffset = r.Range(-3, 6)
		mo.MaxHeadingLevel = r.Range(0, 7)
		mo.IncludeMetadata = r.Chance(1, 3)
		mo.IncludeTableOfContents = r.Chance(1, 2)
	}
	ragMd, _ := rd.MarkdownWithRAGOptions(o2, mo)
	// front matter and TOC are library formatting of metadata and sheet names: taken from
	// the implementation's own output (what precedes the body) and passed to the model
	plain := mo
	plain.IncludeMetadata, plain.IncludeTableOfContents = false, false
	body, _ := rd.MarkdownWithRAGOptions(o2, plain)
	front, toc := "", ""
	if strings.HasSuffix(ragMd, body) {
		pre := ragMd[:len(ragMd)-len(body)]
		if i := strings.Index(pre, "## Table of Contents\n\n"); i >= 0 {
			front, toc = pre[:i], pre[i:]
		} else {
			front = pre
		}
	}
	c.Check("C17/rag-markdown-body-is-suffix", strings.HasSuffix(ragMd, body), kase, func() string {
		return fmt.Sprintf("MarkdownWithRAGOptions %q does not end with the body %q", ragMd, body)
	})
	c.Check("C17/rag-markdown-toc-only-if-asked", (toc != "") == (mo.IncludeTableOfContents && rd.SheetCount() > 1) && (front != "") == mo.IncludeMetadata, kase, func() string {
		return fmt.Sprintf("front=%q toc=%q opts=%+v sheets=%d", front, toc, mo, rd.SheetCount())
	})
	c.Op(fmt.Sprintf("c17.md %s o=%s mo=%s;%s;%d;%d f=%s t=%s", wbf, optsField(o2), b01(mo.IncludeMetadata), b01(mo.IncludeTableOfContents), mo.HeadingLevelOffset, mo.MaxHeadingLevel, hx.HexS(front), hx.HexS(toc)), hx.HexS(ragMd))

	// document and tables
	doc, _ := rd.Document()
	c.Op("c17.doc "+wbf, dumpDoc(doc))
	c.Op("c17.tables "+wbf, dumpTables(rd.Tables()))

	// the extractor's XLSX branches
	xh, xf := r.Chance(1, 3), r.Chance(1, 3)
	mk := func() *tabula.Extractor {
		e := tabula.Open(path)
		if xh {
			e = e.ExcludeHeaders()
		}
		if xf {
			e = e.ExcludeFooters()
		}
		return e
	}
	at, _, aerr := mk().Text()
	c.Check("C17/api-text-error", aerr == nil, kase, func() string { return fmt.Sprint(aerr) })
	c.Op(fmt.Sprintf("c17.apitext %s %s %s", wbf, b01(xh), b01(xf)), hx.HexS(at))
	am, _, merr := mk().ToMarkdownWithOptions(plain)
	c.Check("C17/api-markdown-error", merr == nil, kase, func() string { return fmt.Sprint(merr) })
	c.Op(fmt.Sprintf("c17.apimd %s %s %s mo=0;0;%d;%d f=- t=-", wbf, b01(xh), b01(xf), plain.HeadingLevelOffset, plain.MaxHeadingLevel), hx.HexS(am))
	adoc, _, derr := mk().Document()
	c.Check("C17/api-document-error", derr == nil && adoc != nil, kase, func() string { return fmt.Sprint(derr) })
	if adoc != nil {
		c.Op("c17.doc "+wbf, dumpDoc(adoc))
	}

	// a call history on the one reader
	var calls, results []string
	ncalls := r.Range(3, 8)
	for k := 0; k < ncalls; k++ {
		switch r.Intn(10) {
		case 9:
			name := hx.Pick(r, names)
			if r.Chance(1, 4) {
				name = hx.Pick(r, sheetNames)
			}
			res := "nil"
			if s, err := rd.SheetByName(name); err == nil {
				res = strconv.Itoa(s.Index)
			}
			calls, results = append(calls, "Y"+hx.HexS(name)), append(results, res)
		case 0:
			oo := genOpts(r, rd.SheetCount())
			t, _ := rd.TextWithOptions(oo)
			calls, results = append(calls, "T"+optsField(oo)), append(results, hx.HexS(t))
		case 1:
			oo := genOpts(r, rd.SheetCount())
			t, _ := rd.MarkdownWithOptions(oo)
			calls, results = append(calls, "M"+optsField(oo)), append(results, hx.HexS(t))
		case 2:
			d, _ := rd.Document()
			calls, results = append(calls, "D"), append(results, dumpDoc(d))
		case 3:
			calls, results = append(calls, "B"), append(results, dumpTables(rd.Tables()))
		case 4, 5:
			si, rr, cc := r.Range(-1, rd.SheetCount()), r.Range(-1, 8), r.Range(-1, 8)
			var cell *xlsx.Cell
			if s, err := rd.Sheet(si); err == nil {
				cell = s.Cell(rr, cc)
			}
			calls, results = append(calls, fmt.Sprintf("C%d,%d,%d", si, rr, cc)), append(results, dumpOptCell(cell))
		case 6:
			si := r.Range(0, rd.SheetCount()-1)
			ref := hx.Pick(r, oddRefs)
			if r.Chance(1, 4) {
				ref = hx.Pick(r, badRefs)
			}
			var cell *xlsx.Cell
			if s, err := rd.Sheet(si); err == nil {
				cell = s.CellByRef(ref)
			}
			calls, results = append(calls, fmt.Sprintf("R%d,%s", si, hx.HexS(ref))), append(results, dumpOptCell(cell))
		case 7:
			calls, results = append(calls, "N"), append(results, hexJoin(rd.SheetNames()))
		default:
			rd.Close()
			calls, results = append(calls, "X"), append(results, "closed")
		}
	}
	c.Op("c17.seq "+wbf+" "+strings.Join(calls, "/"), strings.Join(results, "/"))
	c.Case(wbf, nontrivial)
}

// genEscValue draws a cell value for escapeMarkdown: pool values and words with
// the pipe-table characters between them, in front and at the end (the last
// character of the value is a mark in about half of the draws).
func genEscValue(r *hx.Rng) string {
	marks := []string{"", "|", "\n", "||", "\\", "x", "\\|", "|\n", "\n|", "\n\n"}
	s := hx.Pick(r, rawVals) + hx.Pick(r, marks) + hx.Pick(r, words)
	if r.Chance(1, 4) {
		s = hx.Pick(r, marks) + s
	}
	if r.Chance(1, 2) {
		s += hx.Pick(r, marks)
	}
	if r.Chance(1, 10) {
		s = hx.Pick(r, marks) // nothing but a mark, or empty
	}
	return s
}

// escCase ties escapeMarkdown to the model and checks what it is for: written
// as a cell of a pipe-table row between two other cells, the escaped value is
// read back by a pipe-table reader as that one cell (line break shown as a
// space), and the cells around it stay where they are.
func escCase(c *hx.Ctx, s string) {
	esc := xlsx.VerifEscapeMarkdown(s)
	c.Op("c17.esc "+hx.HexS(s), hx.HexS(esc))
	rows := mdTable("| before | " + esc + " | after |")
	want := []string{"before", strings.TrimSpace(strings.ReplaceAll(s, "\n", " ")), "after"}
	ok := len(rows) == 1 && len(rows[0]) == 3
	for i := 0; ok && i < 3; i++ {
		ok = rows[0][i] == want[i]
	}
	c.Check("C17/escape-keeps-value-in-its-cell", ok, map[string]string{"esc": hx.HexS(s)}, func() string {
		return fmt.Sprintf("escapeMarkdown(%q)=%q: the row | before | %s | after | reads %q want %q", s, esc, esc, rows, want)
	})
	c.Count("esc:" + mdMarkedOr(s, "no-mark"))
}

func mdMarkedOr(s, none string) string {
	if m := mdMarked(s); m != "" {
		return m
	}
	return none
}

func apiStream(c *hx.Ctx) {
	// escapeMarkdown and AdjustHeadingLevel on their own
	for i := 0; i < c.N(200, 2000); i++ {
		escCase(c, genEscValue(c.Rng))
	}
	for off := -8; off <= 8; off++ {
		for mx := -1; mx <= 8; mx++ {
			for lvl := -1; lvl <= 8; lvl++ {
				mo := rag.MarkdownOptions{HeadingLevelOffset: off, MaxHeadingLevel: mx}
				c.Op(fmt.Sprintf("c17.level %d %d %d", off, mx, lvl), strconv.Itoa(mo.AdjustHeadingLevel(lvl)))
			}
		}
	}
	n := c.N(160, 3000)
	for i := 0; i < n; i++ {
		RunAPI(c, i, false)
	}
}
