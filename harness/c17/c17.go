// Package c17: spreadsheet cells land at their addressed grid position.
package c17

import (
	"encoding/hex"
	"fmt"
	"os"
	"path/filepath"
	"sort"
	"strconv"
	"strings"

	"github.com/tsawler/tabula"
	"github.com/tsawler/tabula/model"
	"github.com/tsawler/tabula/rag"
	"github.com/tsawler/tabula/xlsx"

	"verifharness/hx"
	"verifharness/writers"
)

// ---- codec ops ---------------------------------------------------------------

func refOp(c *hx.Ctx, s string) {
	col, row, err := xlsx.ParseCellRef(s)
	out := "err"
	if err == nil {
		out = fmt.Sprintf("ok %d %d", col, row)
	}
	c.Op("c17.parseref "+hx.HexS(s), out)
}

func codec(c *hx.Ctx) {
	maxCol := c.N(800, 20000)
	for i := -2; i < maxCol; i++ {
		s := xlsx.IndexToColumn(i)
		c.Op(fmt.Sprintf("c17.idx2col %d", i), hx.HexS(s))
		if i >= 0 {
			back := xlsx.ColumnToIndex(s)
			c.Check("C17/col-bijection", back == i, map[string]int{"index": i}, func() string {
				return fmt.Sprintf("ColumnToIndex(IndexToColumn(%d)=%q)=%d", i, s, back)
			})
			c.Op("c17.col2idx "+hx.HexS(s), strconv.Itoa(back))
			ls := strings.ToLower(s)
			c.Op("c17.col2idx "+hx.HexS(ls), strconv.Itoa(xlsx.ColumnToIndex(ls)))
		}
		c.Case("col"+strconv.Itoa(i), i >= 0)
	}
	// all (col,row) pairs of a bounded range, exhaustively
	cols, rows := c.N(60, 702), c.N(40, 200)
	for col := 0; col < cols; col++ {
		for row := 0; row < rows; row++ {
			ref := xlsx.CellRef(col, row)
			c2, r2, err := xlsx.ParseCellRef(ref)
			c.Check("C17/cellref-bijection", err == nil && c2 == col && r2 == row,
				map[string]int{"col": col, "row": row}, func() string {
					return fmt.Sprintf("ParseCellRef(CellRef(%d,%d)=%q)=(%d,%d,%v)", col, row, ref, c2, r2, err)
				})
			if (col*rows+row)%7 == 0 || col < 3 {
				c.Op(fmt.Sprintf("c17.cellref %d %d", col, row), hx.HexS(ref))
				refOp(c, ref)
			}
			c.Case(ref, true)
		}
	}
	// big indices and malformed references
	for i := 0; i < c.N(300, 5000); i++ {
		col := c.Rng.Intn(1 << uint(c.Rng.Range(1, 40)))
		row := c.Rng.Intn(1 << uint(c.Rng.Range(1, 50)))
		ref := xlsx.CellRef(col, row)
		c.Op(fmt.Sprintf("c17.cellref %d %d", col, row), hx.HexS(ref))
		c2, r2, err := xlsx.ParseCellRef(ref)
		c.Check("C17/cellref-bijection", err == nil && c2 == col && r2 == row,
			map[string]int{"col": col, "row": row}, func() string {
				return fmt.Sprintf("ParseCellRef(CellRef(%d,%d)=%q)=(%d,%d,%v)", col, row, ref, c2, r2, err)
			})
		refOp(c, ref)
		c.Case(ref, true)
	}
	// column letters at the bound ColumnToIndex enforces (column number 2^40): the last
	// indices converted, the first ones refused, from both sides; long letter strings
	const bound = 1 << 40
	for _, i := range []int{bound - 3, bound - 2, bound - 1, bound, bound + 1, bound + 25, bound + 26, 2*bound - 1, 26 * bound, 1<<62 - 1} {
		s := xlsx.IndexToColumn(i)
		c.Op(fmt.Sprintf("c17.idx2col %d", i), hx.HexS(s))
		back := xlsx.ColumnToIndex(s)
		c.Op("c17.col2idx "+hx.HexS(s), strconv.Itoa(back))
		c.Op("c17.col2idx "+hx.HexS(strings.ToLower(s)), strconv.Itoa(xlsx.ColumnToIndex(strings.ToLower(s))))
		if i+1 <= bound {
			// within what the code converts the conversion is a bijection
			c.Check("C17/col-bijection", back == i, map[string]int{"index": i}, func() string {
				return fmt.Sprintf("ColumnToIndex(IndexToColumn(%d)=%q)=%d", i, s, back)
			})
			c.Count("col-at-bound:within")
		} else {
			c.Count("col-at-bound:beyond")
		}
		for _, row := range []int{0, 1048575} {
			ref := xlsx.CellRef(i, row)
			c.Op(fmt.Sprintf("c17.cellref %d %d", i, row), hx.HexS(ref))
			refOp(c, ref)
			c2, r2, err := xlsx.ParseCellRef(ref)
			if i+1 <= bound {
				c.Check("C17/cellref-bijection", err == nil && c2 == i && r2 == row, map[string]int{"col": i, "row": row}, func() string {
					return fmt.Sprintf("ParseCellRef(CellRef(%d,%d)=%q)=(%d,%d,%v)", i, row, ref, c2, r2, err)
				})
			}
			t := "A1:" + ref
			sc, sr, ec, er, err := xlsx.ParseRangeRef(t)
			out := "err"
			if err == nil {
				out = fmt.Sprintf("ok %d %d %d %d", sc, sr, ec, er)
			}
			c.Op("c17.range "+hx.HexS(t), out)
		}
		c.Case("bound"+strconv.Itoa(i), i+1 <= bound)
	}
	for i := 0; i < c.N(200, 3000); i++ {
		n := c.Rng.Range(7, 12)
		if c.Rng.Chance(1, 4) {
			n = c.Rng.Range(13, 80)
		}
		var sb strings.Builder
		for j := 0; j < n; j++ {
			ch := byte('A' + c.Rng.Intn(26))
			if j == 0 && n == 9 && c.Rng.Bool() {
				ch = byte('A' + c.Rng.Intn(6)) // nine letters: the bound lies between CRPXNLSKVLJFHG... spellings starting A..E and the rest
			}
			if c.Rng.Chance(1, 6) {
				ch += 'a' - 'A'
			}
			sb.WriteByte(ch)
		}
		s := sb.String()
		idx := xlsx.ColumnToIndex(s)
		c.Op("c17.col2idx "+hx.HexS(s), strconv.Itoa(idx))
		refOp(c, s+"7")
		if idx >= 0 {
			c.Count(fmt.Sprintf("col-letters:%d-accepted", n))
			// what the code converts it converts back (case apart)
			back := xlsx.IndexToColumn(idx)
			c.Check("C17/col-bijection-string", back == strings.ToUpper(s), map[string]string{"letters": s}, func() string {
				return fmt.Sprintf("IndexToColumn(ColumnToIndex(%q)=%d)=%q", s, idx, back)
			})
		} else if n <= 12 {
			c.Count(fmt.Sprintf("col-letters:%d-refused", n))
		} else {
			c.Count("col-letters:13+-refused")
		}
		c.Case("L"+s, idx >= 0)
	}
	alphabet := []string{"A", "Z", "a", "z", "AA", "0", "1", "9", "10", "+", "-", "$", ":", " ", "@", "[", "`", "{", "_", "00", "9223372036854775807", "9223372036854775808"}
	for i := 0; i < c.N(1500, 20000); i++ {
		n := c.Rng.Range(0, 4)
		var sb strings.Builder
		for j := 0; j < n; j++ {
			sb.WriteString(hx.Pick(c.Rng, alphabet))
		}
		s := sb.String()
		refOp(c, s)
		c.Count("malformed-ref")
		if c.Rng.Chance(1, 3) {
			t := s + ":" + hx.Pick(c.Rng, alphabet) + hx.Pick(c.Rng, alphabet)
			sc, sr, ec, er, err := xlsx.ParseRangeRef(t)
			out := "err"
			if err == nil {
				out = fmt.Sprintf("ok %d %d %d %d", sc, sr, ec, er)
			}
			c.Op("c17.range "+hx.HexS(t), out)
		}
		c.Case("m"+s, false)
	}
}

// ---- workbooks ------------------------------------------------------------------

type lcell struct {
	kind  string // how the displayed value is stored: shared, rich, inline, str, bool, err, num, formula (= no cached value)
	value string // displayed value
	// formula: the text of the cell's <f> element ("" = a typed-in cell). The
	// t attribute says how the cached result in <v> is stored, the <f> element
	// says where it came from: the two are independent, so a cell of every
	// stored kind may be a formula cell, and it displays its cached result
	// exactly like a typed-in cell of that kind (=B2>C2 shows TRUE, =1/0 shows
	// #DIV/0!, =A1&B1 shows the string).
	formula string
}

type lsheet struct {
	name  string
	cells map[[2]int]lcell // (row,col) 0-indexed; the value the cell displays
	// stale: values stored in the file at positions covered by a merged region
	// (any cell of the region but its top-left). Producers that merge without
	// clearing keep them; a covered cell displays nothing, so these never appear
	// in cells.
	stale  map[[2]int]lcell
	merges [][4]int // sr,sc,er,ec
}

var words = []string{"alpha", "β-beta", "x", "Q3 total", "a|b", "<tag>", "\"q\"", "it's", "1e5", "  padded ", "日本語", "émoji😀", "&amp;", "TRUE", "0", "-12.50", "#N/A", "=A1+B2", "名前", "a,b;c"}

// blankish: displayed values that are not empty but show no ink (white space
// only, ASCII and Unicode). A cell holding one is a valued cell like any other.
var blankish = []string{" ", "  ", "\u00a0", "\u3000", " \u00a0 ", "\u2003"}

var kinds = []string{"shared", "rich", "inline", "str", "bool", "err", "num", "formula"}

// formulas: <f> texts, some with characters the XML writer has to escape.
var formulas = []string{"SUM(A1:A2)", "B2>C2", "A1<=B1", "NOT(A1)", "1/0", "A1&B1", "CONCAT(A1,B1)", "IF(A1>0,\"y\",\"n\")", "NOW()", "VLOOKUP(A1,B:C,2,FALSE)", "Sheet2!A1", "ISBLANK(ZZ200)"}

// withFormula makes the cell a formula cell (cached result unchanged) with
// the probability that fits its stored kind: t="str" exists for formula
// results, so it nearly always has one; every other kind has one in a third
// of the cells; "formula" (nothing cached) always.
func withFormula(r *hx.Rng, lc lcell) lcell {
	var has bool
	switch lc.kind {
	case "formula":
		has = true
	case "str":
		has = r.Chance(4, 5)
	default:
		has = r.Chance(1, 3)
	}
	if has {
		lc.formula = hx.Pick(r, formulas)
	}
	return lc
}
var stringKinds = []string{"shared", "rich", "inline", "str"}

// genCell draws one cell of any kind with its displayed value.
func genCell(r *hx.Rng) lcell {
	k := hx.Pick(r, kinds)
	var v string
	switch k {
	case "bool":
		v = hx.Pick(r, []string{"TRUE", "FALSE"})
	case "err":
		v = hx.Pick(r, []string{"#N/A", "#DIV/0!", "#REF!"})
	case "num":
		v = hx.Pick(r, []string{"0", "42", "-3.25", "1E+20", "12345678901234567890", "0.1"})
	case "formula":
		v = ""
	default:
		if r.Chance(1, 8) {
			v = hx.Pick(r, blankish)
			break
		}
		v = hx.Pick(r, words)
		if r.Chance(1, 4) {
			v += " " + hx.Pick(r, words)
		}
	}
	return withFormula(r, lcell{kind: k, value: v})
}

// genSlight draws a valued cell that is easy to mistake for "nothing there":
// white space only (every string kind), zero, FALSE, one character.
func genSlight(r *hx.Rng) lcell {
	var lc lcell
	switch r.Intn(6) {
	case 0:
		lc = lcell{kind: "num", value: "0"}
	case 1:
		lc = lcell{kind: "bool", value: "FALSE"}
	case 2:
		lc = lcell{kind: hx.Pick(r, stringKinds), value: hx.Pick(r, []string{"x", "-", ".", "0"})}
	default:
		lc = lcell{kind: hx.Pick(r, stringKinds), value: hx.Pick(r, blankish)}
	}
	return withFormula(r, lc)
}

// Characters a Markdown pipe table gives a meaning to, alone and in pairs: the
// cell separator, the escape character, and the line break that ends a table
// row. A displayed value may hold them anywhere - also as its first or its last
// character, or as all it consists of.
var mdMarks = []string{"|", "|", "\\", "||", "\\|", "|\\", "| |"}
var mdBreaks = []string{"\n", "\n", "|\n", "\n|", "\n\n", "\\\n"}

// mdEdge puts one mark into the value: in front, at the end, between two of its
// characters, or instead of it. where says which.
func mdEdge(r *hx.Rng, v string, marks []string) (out, where string) {
	m := hx.Pick(r, marks)
	switch r.Intn(6) {
	case 0:
		return m + v, "start"
	case 1, 2:
		return v + m, "end"
	case 3:
		cut := 0
		if len(v) > 0 {
			cut = r.Intn(len(v) + 1)
			for cut < len(v) && (v[cut]&0xC0) == 0x80 {
				cut++
			}
		}
		return v[:cut] + m + v[cut:], "inside"
	case 4:
		return m + v + hx.Pick(r, marks), "both-ends"
	default:
		return m, "whole"
	}
}

// markSheet rewrites about half of the string-valued cells of the sheet with
// mdEdge. breaks: line breaks are among the marks.
func markSheet(r *hx.Rng, sh *lsheet, breaks bool) {
	marks := mdMarks
	if breaks {
		marks = append(append([]string{}, mdMarks...), mdBreaks...)
		marks = append(marks, mdBreaks...)
	}
	for _, pos := range sortedPos(sh.cells) {
		lc := sh.cells[pos]
		isString := false
		for _, k := range stringKinds {
			if lc.kind == k {
				isString = true
			}
		}
		if !isString || !r.Chance(1, 2) {
			continue
		}
		lc.value, _ = mdEdge(r, lc.value, marks)
		sh.cells[pos] = lc
	}
}

// mdMarked classifies a displayed value for the input distribution: which of
// the pipe-table characters it holds and where ("" = none).
func mdMarked(v string) string {
	if !strings.ContainsAny(v, "|\\\n") {
		return ""
	}
	cls := func(b byte) string {
		switch b {
		case '|':
			return "pipe"
		case '\n':
			return "break"
		case '\\':
			return "backslash"
		}
		return ""
	}
	if strings.Trim(v, "|\\\n ") == "" {
		if e := cls(v[len(v)-1]); e != "" {
			return "only-marks-last-is-" + e
		}
		return "only-marks-last-is-space"
	}
	if e := cls(v[len(v)-1]); e != "" {
		return "ends-with-" + e
	}
	if e := cls(v[0]); e != "" {
		return "starts-with-" + e
	}
	return "inside"
}

// valuedBox is the bounding box of the cells that display a value.
func valuedBox(sh lsheet) (minR, minC, maxR, maxC int) {
	minR, minC, maxR, maxC = 1<<30, 1<<30, -1, -1
	for pos, lc := range sh.cells {
		if lc.value == "" {
			continue
		}
		if pos[0] < minR {
			minR = pos[0]
		}
		if pos[0] > maxR {
			maxR = pos[0]
		}
		if pos[1] < minC {
			minC = pos[1]
		}
		if pos[1] > maxC {
			maxC = pos[1]
		}
	}
	return
}

func genSheet(r *hx.Rng, idx int, big bool) lsheet {
	sh := lsheet{name: fmt.Sprintf("Sheet %c%d", 'A'+idx, r.Intn(90)), cells: map[[2]int]lcell{}, stale: map[[2]int]lcell{}}
	maxR, maxC := r.Range(1, 12), r.Range(1, 10)
	if big {
		maxR, maxC = r.Range(20, 200), r.Range(27, 702)
	}
	// outliers: the sheet's content is moved away from A1 and a few valued cells
	// are put strictly outside the box of all the others (see below)
	outliers := r.Chance(1, 3)
	offR, offC := 0, 0
	if outliers {
		offR, offC = r.Intn(4), r.Intn(4)
	}
	n := r.Range(0, 14)
	for i := 0; i < n; i++ {
		pos := [2]int{offR + r.Intn(maxR), offC + r.Intn(maxC)}
		sh.cells[pos] = genCell(r)
	}
	// non-overlapping merges. A covered (non-top-left) cell displays nothing; it
	// is either absent from the file (as Excel writes it) or still stores a value
	// (as producers that merge without clearing write it).
	occupied := map[[2]int]bool{}
	for m := r.Intn(3); m > 0; m-- {
		sr, sc := offR+r.Intn(maxR), offC+r.Intn(maxC)
		er, ec := sr+r.Intn(3), sc+r.Intn(3)
		if er == sr && ec == sc {
			ec++
		}
		ok := true
		for a := sr; a <= er && ok; a++ {
			for b := sc; b <= ec; b++ {
				if occupied[[2]int{a, b}] {
					ok = false
					break
				}
			}
		}
		if !ok {
			continue
		}
		keep := r.Chance(1, 2)
		for a := sr; a <= er; a++ {
			for b := sc; b <= ec; b++ {
				occupied[[2]int{a, b}] = true
				if a != sr || b != sc {
					delete(sh.cells, [2]int{a, b})
					if keep && r.Chance(2, 3) {
						sh.stale[[2]int{a, b}] = genCell(r)
					}
				}
			}
		}
		sh.merges = append(sh.merges, [4]int{sr, sc, er, ec})
	}
	if outliers {
		for k := r.Range(1, 2); k > 0; k-- {
			bminR, bminC, bmaxR, bmaxC := valuedBox(sh)
			if bmaxR < 0 { // nothing displays a value yet: the outlier is the whole content
				bminR, bminC, bmaxR, bmaxC = offR, offC, offR, offC
			}
			// side per axis: 0 before the box, 1 inside it, 2 after it; not inside on both
			vr, vc := r.Intn(3), r.Intn(3)
			if vr == 1 && vc == 1 {
				vr = 2 * r.Intn(2)
			}
			pick := func(side, lo, hi int) int {
				switch {
				case side == 0 && lo > 0:
					return r.Intn(lo)
				case side == 1:
					return lo + r.Intn(hi-lo+1)
				default:
					return hi + 1 + r.Intn(3)
				}
			}
			pos := [2]int{pick(vr, bminR, bmaxR), pick(vc, bminC, bmaxC)}
			if occupied[pos] {
				continue
			}
			sh.cells[pos] = genSlight(r)
		}
	}
	// in a third of the sheets string values carry the characters of the pipe-table
	// syntax at their edges; in half of those, line breaks too
	if r.Chance(1, 3) {
		markSheet(r, &sh, r.Bool())
	}
	return sh
}

// sortedPos returns the keys of the maps in (row, col) order, so that a
// workbook is a function of (seed, index) alone.
func sortedPos(ms ...map[[2]int]lcell) [][2]int {
	var ps [][2]int
	for _, m := range ms {
		for p := range m {
			ps = append(ps, p)
		}
	}
	sort.Slice(ps, func(i, j int) bool {
		if ps[i][0] != ps[j][0] {
			return ps[i][0] < ps[j][0]
		}
		return ps[i][1] < ps[j][1]
	})
	return ps
}

// physical renders the logical sheets; returns the workbook plus, per sheet, the
// rows in authored (possibly shuffled) order for the model op line.
func physical(r *hx.Rng, sheets []lsheet) writers.XWorkbook {
	var wb writers.XWorkbook
	sharedIdx := map[string]int{}
	addShared := func(si writers.XSI) int {
		key := fmt.Sprintf("%v|%s", si.Runs != nil, si.Text())
		if i, ok := sharedIdx[key]; ok && r.Bool() {
			return i
		}
		wb.Shared = append(wb.Shared, si)
		sharedIdx[key] = len(wb.Shared) - 1
		return len(wb.Shared) - 1
	}
	// some unused shared strings first so indices are not trivially 0..n
	for i := r.Intn(3); i > 0; i-- {
		addShared(writers.XSI{Plain: "unused" + strconv.Itoa(i)})
	}
	for si, sh := range sheets {
		xs := writers.XSheet{Name: sh.name, Path: fmt.Sprintf("worksheets/sheet%d.xml", si+1), RID: fmt.Sprintf("rId%d", si+1)}
		byRow := map[int][]writers.XCell{}
		lower := r.Chance(1, 6)
		for _, pos := range sortedPos(sh.cells, sh.stale) {
			lc, shown := sh.cells[pos]
			if !shown {
				lc = sh.stale[pos]
			}
			ref := xlsx.IndexToColumn(pos[1]) + strconv.Itoa(pos[0]+1)
			if lower {
				ref = strings.ToLower(ref)
			}
			xc := writers.XCell{Ref: ref, F: lc.formula}
			switch lc.kind {
			case "shared":
				xc.T, xc.HasV = "s", true
				xc.V = strconv.Itoa(addShared(writers.XSI{Plain: lc.value}))
			case "rich":
				xc.T, xc.HasV = "s", true
				v := lc.value
				cut := 0
				if len(v) > 0 {
					cut = r.Intn(len(v) + 1)
					for cut < len(v) && (v[cut]&0xC0) == 0x80 {
						cut++
					}
				}
				xc.V = strconv.Itoa(addShared(writers.XSI{Runs: []string{v[:cut], v[cut:]}}))
			case "inline":
				xc.T = "inlineStr"
				v := lc.value
				xc.Is = &v
			case "str":
				xc.T, xc.HasV, xc.V = "str", true, lc.value
			case "bool":
				xc.T, xc.HasV = "b", true
				if lc.value == "TRUE" {
					xc.V = "1"
				} else {
					xc.V = "0"
				}
			case "err":
				xc.T, xc.HasV, xc.V = "e", true, lc.value
			case "num":
				xc.HasV, xc.V = true, lc.value
				if r.Bool() {
					xc.T = "n"
				}
			case "formula":
				// <f> only, nothing cached; sometimes an empty <v/>
				xc.HasV = r.Chance(1, 4)
			}
			byRow[pos[0]+1] = append(byRow[pos[0]+1], xc)
		}
		var rowNums []int
		for rn := range byRow {
			rowNums = append(rowNums, rn)
		}
		sort.Ints(rowNums)
		for _, rn := range rowNums {
			cells := byRow[rn]
			sort.Slice(cells, func(i, j int) bool {
				ci, _, _ := xlsx.ParseCellRef(cells[i].Ref)
				cj, _, _ := xlsx.ParseCellRef(cells[j].Ref)
				return ci < cj
			})
			if r.Chance(1, 3) {
				hx.Shuffle(r, cells)
			}
			xs.Rows = append(xs.Rows, writers.XRow{R: rn, Cells: cells})
		}
		if r.Chance(1, 3) {
			hx.Shuffle(r, xs.Rows)
		}
		// an empty row element beyond the data sometimes (sparse rows)
		if r.Chance(1, 5) {
			xs.Rows = append(xs.Rows, writers.XRow{R: r.Range(1, 30)})
		}
		for _, m := range sh.merges {
			xs.Merges = append(xs.Merges, xlsx.IndexToColumn(m[1])+strconv.Itoa(m[0]+1)+":"+xlsx.IndexToColumn(m[3])+strconv.Itoa(m[2]+1))
		}
		wb.Sheets = append(wb.Sheets, xs)
	}
	return wb
}

func sheetOpLine(wb writers.XWorkbook, sh writers.XSheet) string {
	shared := make([]string, len(wb.Shared))
	for i, s := range wb.Shared {
		shared[i] = s.Text()
	}
	var rows []string
	for _, r := range sh.Rows {
		var cs []string
		for _, c := range r.Cells {
			is := "~"
			if c.Is != nil {
				is = hx.HexS(*c.Is)
			}
			v := ""
			if c.HasV {
				v = c.V
			}
			cs = append(cs, strings.Join([]string{hx.HexS(c.Ref), hx.HexS(c.T), hx.HexS(v), hx.HexS(c.F), is}, "."))
		}
		rows = append(rows, fmt.Sprintf("%d:%s", r.R, strings.Join(cs, "|")))
	}
	return "c17.sheet s=" + hx.HexList(shared) + " r=" + strings.Join(rows, "/") + " m=" + hx.HexList(sh.Merges)
}

func dumpImplSheet(s *xlsx.Sheet, text string) string {
	ncols := 0
	if len(s.Rows) > 0 {
		ncols = len(s.Rows[0])
	}
	var cells []string
	for ri, row := range s.Rows {
		for ci, cell := range row {
			if cell.Value == "" && cell.Type == xlsx.CellTypeEmpty && !cell.IsMerged && !cell.IsMergeRoot && cell.MergeRows == 1 && cell.MergeCols == 1 {
				continue
			}
			cells = append(cells, fmt.Sprintf("%d,%d,%s,%s,%v,%v,%d,%d", ri, ci, cell.Type.String(), hx.HexS(cell.Value), cell.IsMerged, cell.IsMergeRoot, cell.MergeRows, cell.MergeCols))
		}
	}
	return fmt.Sprintf("%dx%d [%s] %s", len(s.Rows), ncols, strings.Join(cells, ";"), hx.HexS(text))
}

type wbCase struct {
	Seed  uint64 `json:"seed"`
	Index int    `json:"index"`
	File  string `json:"file,omitempty"`
}

func covered(sh lsheet, r, c int) (inMerge, root bool) {
	for _, m := range sh.merges {
		if r >= m[0] && r <= m[2] && c >= m[1] && c <= m[3] {
			return true, r == m[0] && c == m[1]
		}
	}
	return false, false
}

// RunWorkbook generates workbook #idx of the seed's stream and checks it.
func RunWorkbook(c *hx.Ctx, idx int, keep bool) {
	r := hx.NewRng(c.Seed).Fork(uint64(idx)) // independent of how far c.Rng has advanced, so a case replays from (seed, index)
	nsheets := r.Range(1, 3)
	big := r.Chance(1, 12)
	var sheets []lsheet
	for i := 0; i < nsheets; i++ {
		sheets = append(sheets, genSheet(r, i, big))
	}
	wb := physical(r, sheets)
	members := writers.XLSXMembers(wb)
	if r.Chance(1, 3) {
		hx.Shuffle(r, members)
	}
	path := filepath.Join(c.OutDir, fmt.Sprintf("wb-%d.xlsx", idx))
	os.WriteFile(path, writers.Zip(members), 0o644)
	if !keep {
		defer os.Remove(path)
	}
	kase := wbCase{Seed: c.Seed, Index: idx}
	rd, err := xlsx.Open(path)
	if !c.Check("C17/open", err == nil, kase, func() string { return fmt.Sprint(err) }) {
		return
	}
	defer rd.Close()
	if !c.Check("C17/sheet-count", rd.SheetCount() == len(sheets), kase, func() string {
		return fmt.Sprintf("sheets %d want %d", rd.SheetCount(), len(sheets))
	}) {
		return
	}
	ext := tabula.Open(path)
	doc, _, derr := ext.Document()
	c.Check("C17/document-open", derr == nil, kase, func() string { return fmt.Sprint(derr) })
	nontrivial := false
	tables := rd.Tables()
	apiText, _, aterr := tabula.Open(path).Text()
	c.Check("C17/api-text-error", aterr == nil, kase, func() string { return fmt.Sprint(aterr) })
	apiLines := strings.Split(apiText, "\n")
	apiOffset := 0 // line of the current sheet's first row in the text of the whole workbook
	apiNoCtl := true // no value of this sheet or an earlier one holds a tab or a line break
	apiMd, _, amerr := tabula.Open(path).ToMarkdown()
	c.Check("C17/api-markdown-error", amerr == nil, kase, func() string { return fmt.Sprint(amerr) })
	apiSections := mdSections(apiMd)
	for si, sh := range sheets {
		s, _ := rd.Sheet(si)
		text, _ := rd.TextWithOptions(xlsx.ExtractOptions{Sheets: []int{si}})
		c.Op(sheetOpLine(wb, wb.Sheets[si]), dumpImplSheet(s, text))
		// --- statement-level oracle ---
		maxR, maxC := -1, 0
		for _, pos := range sortedPos(sh.cells, sh.stale) {
			if pos[0] > maxR {
				maxR = pos[0]
			}
			if pos[1] > maxC {
				maxC = pos[1]
			}
		}
		for _, xr := range wb.Sheets[si].Rows {
			if xr.R-1 > maxR {
				maxR = xr.R - 1
			}
		}
		lines := strings.Split(text, "\n")
		noCtl := true
		for _, lc := range sh.cells {
			if strings.ContainsAny(lc.value, "\t\n") {
				noCtl = false
			}
		}
		// the text of the whole workbook: the line of a row is counted from the top,
		// through the earlier sheets, so their values must be free of line breaks too
		apiNoCtl = apiNoCtl && noCtl
		// content bounds for the table outputs: the box of the cells that display a
		// value (a white-space value is a value; a value stored under a merged
		// region is not displayed)
		minR, minC, bmaxR, bmaxC := valuedBox(sh)
		if bmaxR >= 0 {
			nontrivial = true
		}
		outlier := false // a white-space-only value on the edge of the box, alone in its row or column
		for pos, lc := range sh.cells {
			if lc.value == "" || strings.TrimSpace(lc.value) != "" {
				continue
			}
			if pos[0] == minR || pos[0] == bmaxR || pos[1] == minC || pos[1] == bmaxC {
				outlier = true
			}
		}
		if outlier {
			c.Count("sheet:blank-looking-value-on-box-edge")
		}
		if len(sh.stale) > 0 {
			c.Count("sheet:stored-values-under-merge")
		}
		for _, p := range sortedPos(sh.cells) {
			lc := sh.cells[p]
			if lc.formula != "" {
				c.Count("cell:formula-cached-" + lc.kind)
			}
			if m := mdMarked(lc.value); m != "" {
				c.Count("cell:pipe-table-characters:" + m)
				if p[1] < bmaxC {
					c.Count("cell:pipe-table-characters-before-last-column")
				}
			}
		}
		var tbl *model.Table
		if doc != nil && si < len(doc.Pages) {
			for _, el := range doc.Pages[si].Elements {
				if t, ok := el.(*model.Table); ok {
					tbl = t
				}
			}
		}
		for rr := 0; rr <= maxR; rr++ {
			var fields []string
			if rr < len(lines) {
				fields = strings.Split(lines[rr], "\t")
			}
			for cc := 0; cc <= maxC; cc++ {
				want := sh.cells[[2]int{rr, cc}].value
				pos := map[string]interface{}{"seed": c.Seed, "index": idx, "sheet": si, "row": rr, "col": cc}
				cell := s.Cell(rr, cc)
				got := "<nil>"
				if cell != nil {
					got = cell.Value
				}
				if st, isStale := sh.stale[[2]int{rr, cc}]; isStale {
					// the grid keeps what the file stores and marks the cell as covered
					// (merged, not the root): that marking is how the grid says "blank";
					// an unmarked cell showing the stored value is a misplaced value
					shown := got
					if cell != nil && cell.IsMerged && !cell.IsMergeRoot && got == st.value {
						shown = ""
					}
					c.Check("C17/grid-position", shown == want, pos, func() string {
						return fmt.Sprintf("Cell(%d,%d)=%q (stored under a merged region: %q) displays %q want %q", rr, cc, got, st.value, shown, want)
					})
				} else {
					c.Check("C17/grid-position", got == want, pos, func() string {
						return fmt.Sprintf("Cell(%d,%d)=%q want %q", rr, cc, got, want)
					})
				}
				if cell != nil {
					im, root := covered(sh, rr, cc)
					c.Check("C17/merge-flags", cell.IsMerged == im && cell.IsMergeRoot == root, pos, func() string {
						return fmt.Sprintf("Cell(%d,%d) merged=%v root=%v want %v %v", rr, cc, cell.IsMerged, cell.IsMergeRoot, im, root)
					})
				}
				if noCtl {
					f := "<missing>"
					if cc < len(fields) {
						f = fields[cc]
					}
					c.Check("C17/text-line-field", f == want, pos, func() string {
						return fmt.Sprintf("line %d field %d = %q want %q", rr, cc, f, want)
					})
				}
				if cell != nil {
					c.Check("C17/cell-coordinates", cell.Row == rr && cell.Col == cc, pos, func() string {
						return fmt.Sprintf("Cell(%d,%d) says Row=%d Col=%d", rr, cc, cell.Row, cell.Col)
					})
				}
				if apiNoCtl {
					// Extractor.Text(): all sheets, a blank line between them
					f := "<missing>"
					if apiOffset+rr < len(apiLines) {
						if fs := strings.Split(apiLines[apiOffset+rr], "\t"); cc < len(fs) {
							f = fs[cc]
						}
					}
					c.Check("C17/api-text-line-field", f == want, pos, func() string {
						return fmt.Sprintf("Text() line %d+%d field %d = %q want %q", apiOffset, rr, cc, f, want)
					})
				}
				if tbl != nil && rr >= minR && rr <= bmaxR && cc >= minC && cc <= bmaxC {
					tr, tc := rr-minR, cc-minC
					g := "<oob>"
					if tr < len(tbl.Rows) && tc < len(tbl.Rows[tr]) {
						g = tbl.Rows[tr][tc].Text
					}
					c.Check("C17/model-cell", g == want, pos, func() string {
						return fmt.Sprintf("Document table[%d][%d]=%q want %q", tr, tc, g, want)
					})
				}
			}
		}
		if bmaxR >= 0 {
			c.Check("C17/model-table-present", tbl != nil && len(tbl.Rows) == bmaxR-minR+1, kase, func() string {
				return fmt.Sprintf("sheet %d: table %v", si, tbl != nil)
			})
			// Tables(): header row first, then the data rows
			var ptab [][]string
			if si < len(tables) {
				ptab = append([][]string{tables[si].Headers}, tables[si].Rows...)
			}
			c.Check("C17/tables-shape", len(ptab) == bmaxR-minR+1 && si < len(tables) && tables[si].Name == sh.name, kase, func() string {
				return fmt.Sprintf("sheet %d: Tables() has %d rows, want %d", si, len(ptab), bmaxR-minR+1)
			})
			var apiRows [][]string
			if sec, ok := apiSections[sh.name]; ok {
				apiRows = mdTable(sec)
			}
			for rr := minR; rr <= bmaxR; rr++ {
				for cc := minC; cc <= bmaxC; cc++ {
					want := sh.cells[[2]int{rr, cc}].value
					pos := map[string]interface{}{"seed": c.Seed, "index": idx, "sheet": si, "row": rr, "col": cc}
					got := "<oob>"
					if rr-minR < len(ptab) && cc-minC < len(ptab[rr-minR]) {
						got = ptab[rr-minR][cc-minC]
					}
					key := "C17/tables-cell"
					if _, isStale := sh.stale[[2]int{rr, cc}]; isStale {
						key = "C17/tables-covered-cell"
					}
					c.Check(key, got == want, pos, func() string {
						return fmt.Sprintf("Tables()[%d] cell (%d,%d)=%q want %q", si, rr-minR, cc-minC, got, want)
					})
					agot := "<oob>"
					if rr-minR < len(apiRows) && cc-minC < len(apiRows[rr-minR]) {
						agot = apiRows[rr-minR][cc-minC]
					}
					c.Check("C17/api-markdown-cell", agot == strings.TrimSpace(strings.ReplaceAll(want, "\n", " ")), pos, func() string {
						return fmt.Sprintf("ToMarkdown() sheet %q cell (%d,%d)=%q want %q", sh.name, rr-minR, cc-minC, agot, want)
					})
				}
			}
			md, _ := rd.MarkdownWithOptions(xlsx.ExtractOptions{Sheets: []int{si}})
			// the same table by the two other routes to it: the RAG options (default
			// options: the body as it is) and Tables()[si].ToMarkdown()
			ragMd, _ := rd.MarkdownWithRAGOptions(xlsx.ExtractOptions{Sheets: []int{si}}, rag.DefaultMarkdownOptions())
			tabMd := "<no table>"
			if si < len(tables) {
				tabMd = tables[si].ToMarkdown()
			}
			for _, out := range []struct{ key, what, md string }{
				{"C17/markdown-cell", "markdown", md},
				{"C17/rag-markdown-cell", "MarkdownWithRAGOptions", ragMd},
				{"C17/tables-markdown-cell", "Tables().ToMarkdown()", tabMd},
			} {
				rows := mdTable(out.md)
				// the table has the rows of the content box and nothing else: a value
				// that breaks its row in two shows here as well as in the cells after it
				c.Check(out.key+"-row-count", len(rows) == bmaxR-minR+1, kase, func() string {
					return fmt.Sprintf("sheet %d: %s has %d table rows, the content box has %d: %q", si, out.what, len(rows), bmaxR-minR+1, out.md)
				})
				for rr := minR; rr <= bmaxR; rr++ {
					if rr-minR < len(rows) {
						n := len(rows[rr-minR])
						c.Check(out.key+"-column-count", n == bmaxC-minC+1, map[string]interface{}{"seed": c.Seed, "index": idx, "sheet": si, "row": rr}, func() string {
							return fmt.Sprintf("sheet %d: %s table row %d has %d cells, the content box has %d columns: %q", si, out.what, rr-minR, n, bmaxC-minC+1, rows[rr-minR])
						})
					}
					for cc := minC; cc <= bmaxC; cc++ {
						want := strings.ReplaceAll(sh.cells[[2]int{rr, cc}].value, "\n", " ")
						got := "<oob>"
						if rr-minR < len(rows) && cc-minC < len(rows[rr-minR]) {
							got = rows[rr-minR][cc-minC]
						}
						key := out.key
						if _, isStale := sh.stale[[2]int{rr, cc}]; isStale && rr == minR && key == "C17/markdown-cell" {
							// covered cell with a stored value in the table's first (header) row
							key = "C17/markdown-header-covered-cell"
						}
						c.Check(key, got == strings.TrimSpace(want), map[string]interface{}{"seed": c.Seed, "index": idx, "sheet": si, "row": rr, "col": cc}, func() string {
							return fmt.Sprintf("%s cell (%d,%d)=%q want %q", out.what, rr-minR, cc-minC, got, want)
						})
					}
				}
			}
		}
		// the sheet takes one line per grid row (one empty line for an empty grid), then a blank line
		if maxR+1 > 0 {
			apiOffset += maxR + 1 + 1
		} else {
			apiOffset += 1 + 1
		}
	}
	c.Count(fmt.Sprintf("sheets=%d", nsheets))
	if big {
		c.Count("big-grid")
	}
	c.Case(fmt.Sprint(wb), nontrivial)
}

// mdTable reads the GFM pipe table of one sheet's markdown: rows of cells with
// `\|` unescaped, the delimiter row (second line) dropped; a later row of
// dashes ("| - |") is data.
func mdTable(md string) [][]string {
	var rows [][]string
	pipeLines := 0 // the delimiter row is the table's second line and only that one
	for _, line := range strings.Split(md, "\n") {
		if !strings.HasPrefix(line, "|") {
			continue
		}
		pipeLines++
		var cells []string
		var cur strings.Builder
		body := line[1:]
		for i := 0; i < len(body); i++ {
			if body[i] == '\\' && i+1 < len(body) && body[i+1] == '|' {
				cur.WriteByte('|')
				i++
			} else if body[i] == '|' {
				cells = append(cells, strings.TrimSpace(cur.String()))
				cur.Reset()
			} else {
				cur.WriteByte(body[i])
			}
		}
		isDelim := len(cells) > 0
		for _, cl := range cells {
			if strings.Trim(cl, "-:") != "" || cl == "" {
				isDelim = false
			}
		}
		if isDelim && pipeLines == 2 {
			continue
		}
		rows = append(rows, cells)
	}
	return rows
}

// mdSections cuts the Markdown of a whole workbook at its level-2 headings
// ("## name") and returns the text under each sheet name.
func mdSections(md string) map[string]string {
	out := map[string]string{}
	name, has := "", false
	var cur []string
	flush := func() {
		if has {
			out[name] = strings.Join(cur, "\n")
		}
	}
	for _, line := range strings.Split(md, "\n") {
		if strings.HasPrefix(line, "## ") {
			flush()
			name, has, cur = strings.TrimPrefix(line, "## "), true, nil
			continue
		}
		cur = append(cur, line)
	}
	flush()
	return out
}

func init() { hx.Register("C17", Run, Replay) }

func Run(c *hx.Ctx) {
	c.Rep.Rule = "codec: every index in a bounded range + random big indices + the indices around the bound of ColumnToIndex (column number 2^40, from both sides) + random letter strings of 7..80 letters + malformed refs; workbooks: random logical sheets (sparse cells, 8 stored kinds incl. white-space-only values, each of them either typed in or the cached result of a formula (<f> beside any t: boolean, error, number, shared/rich/inline/str string, or nothing cached), merges whose covered cells are absent or still store a value, in a third of the sheets content moved off A1 plus 1-2 slight-valued cells - white space, 0, FALSE, one character - strictly outside the box of all other valued cells, in a third of the sheets about half of the string values rewritten to carry the characters of the pipe-table syntax - pipe, backslash, and in half of those sheets line breaks - in front, at the end, inside, at both ends or as the whole value; shuffled rows/cells/members) rendered by the harness's XLSX writer; api stream (workbook-level ops and call histories): the same logical workbooks, half of them with 1-3 authored faults (duplicate refs/rows, bad shared indices, odd or malformed merge ranges, rows <= 0, unparsable refs, missing parts, Markdown-special values, odd sheet names, refs naming another row), and raw sheets drawn from pools of good and bad references, types, values and merge ranges with <si> holding text, runs, both or neither and an occasional sheet too large to load; random ExtractOptions / MarkdownOptions / call sequences; budget stream: small sheets whose merged regions tile the grid exactly (valid), exceed it by one cell, repeat the whole grid, overlap, reach beyond the grid or come before/after the region that ends the merge loop, with the merge-flag and text oracles on the sheets whose regions do not overlap; cap stream: workbooks whose sheets' grids reach the limit of 8 Mi cells exactly, by one cell too many, or far beyond (incl. a sheet too large on its own and an empty sheet after the limit), c17.open only; non-trivial = at least one non-empty cell (api: a sheet with a non-empty content box); distinct by canonical workbook"
	codec(c)
	n := c.N(250, 4000)
	for i := 0; i < n; i++ {
		RunWorkbook(c, i, false)
	}
	apiStream(c)
	budgetStream(c)
}

// Replay re-runs one recorded failing case on the implementation.
func Replay(c *hx.Ctx, kase map[string]interface{}) {
	if h, ok := kase["esc"].(string); ok {
		if b, err := hex.DecodeString(strings.TrimPrefix(h, "-")); err == nil {
			escCase(c, string(b))
			return
		}
	}
	if idx, ok := kase["index"].(float64); ok {
		if b, _ := kase["budget"].(bool); b {
			RunBudget(c, int(idx), true)
			return
		}
		if b, _ := kase["cap"].(bool); b {
			RunCap(c, int(idx), true)
			return
		}
		if api, _ := kase["api"].(bool); api {
			RunAPI(c, int(idx), true)
			return
		}
		if _, isCol := kase["col"]; isCol && kase["sheet"] == nil && kase["seed"] == nil {
			codec(c)
			return
		}
		RunWorkbook(c, int(idx), true)
		return
	}
	codec(c)
}
