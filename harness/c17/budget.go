package c17

// Workbooks that reach the two budgets of the loader from both sides.
//
// budget stream (RunBudget): small sheets whose merged regions exactly fill the
// grid (a tiling: valid, every region applied), exceed it by one cell, repeat
// the whole grid, overlap, or come before / after the region that ends the
// merge loop. Workbook-level ops tie every output to the model; for the sheets
// whose regions do not overlap (valid sheets) the statement-level oracles say
// what the property text says: merged flag = covered, root = top-left, value at
// the top-left, blanks elsewhere, at Cell(r,c) and at line r / field c.
//
// cap stream (RunCap): workbooks around the rule "16 grid cells per <c> element
// of the part, the rest from one budget of 8 Mi cells per workbook": a grid just
// above 8 Mi with elements just enough / one short, a probe sheet that fits
// exactly an untouched budget after a dense sheet / after a sheet charged four
// cells / after the same member named twice / after two distinct members,
// distinct members with one far cell each, an empty sheet after the budget is
// used, and merged regions without a cell in the grid in bulk (timed).

import (
	"fmt"
	"path/filepath"
	"strings"
	"time"

	"github.com/tsawler/tabula/xlsx"

	"verifharness/hx"
	"verifharness/writers"
)

// colName: bijective base 26, written from the definition (A=1 … Z=26, AA=27).
func colName(c int) string {
	n := c + 1
	s := ""
	for n > 0 {
		d := (n - 1) % 26
		s = string(rune('A'+d)) + s
		n = (n - 1 - d) / 26
	}
	return s
}

func regRef(g [4]int) string { // sr,sc,er,ec 0-indexed
	return fmt.Sprintf("%s%d:%s%d", colName(g[1]), g[0]+1, colName(g[3]), g[2]+1)
}

type bsheet struct {
	R, C int               // grid dimensions (pinned by a stored cell at (R-1,C-1))
	vals map[[2]int]string // stored values
	regs [][4]int          // declared regions in file order (may be reversed, outside the grid, overlapping)
	note string
}

// tile splits the rectangle into random rectangles (a guillotine tiling).
func tile(r *hx.Rng, r0, c0, r1, c1 int, out *[][4]int) {
	h, w := r1-r0+1, c1-c0+1
	if h*w == 1 || r.Chance(1, 3) {
		*out = append(*out, [4]int{r0, c0, r1, c1})
		return
	}
	if h > 1 && (w == 1 || r.Bool()) {
		k := r.Range(r0, r1-1)
		tile(r, r0, c0, k, c1, out)
		tile(r, k+1, c0, r1, c1, out)
	} else {
		k := r.Range(c0, c1-1)
		tile(r, r0, c0, r1, k, out)
		tile(r, r0, k+1, r1, c1, out)
	}
}

// inGridArea: the cells of the region that lie in a grid of R x C cells.
func inGridArea(g [4]int, R, C int) int {
	er, ec := g[2], g[3]
	if er > R-1 {
		er = R - 1
	}
	if ec > C-1 {
		ec = C - 1
	}
	h, w := er-g[0]+1, ec-g[1]+1
	if h <= 0 || w <= 0 {
		return 0
	}
	return h * w
}

func regCovers(g [4]int, r, c int) bool { return g[0] <= r && r <= g[2] && g[1] <= c && c <= g[3] }

func regsOverlap(a, b [4]int) bool {
	if a[0] > a[2] || a[1] > a[3] || b[0] > b[2] || b[1] > b[3] {
		return false // a reversed range names no cell
	}
	return a[0] <= b[2] && b[0] <= a[2] && a[1] <= b[3] && b[1] <= a[3]
}

func genBudgetSheet(r *hx.Rng) bsheet {
	sh := bsheet{R: r.Range(1, 6), C: r.Range(1, 6), vals: map[[2]int]string{}}
	R, C := sh.R, sh.C
	for i := r.Range(0, R*C); i > 0; i-- {
		p := [2]int{r.Intn(R), r.Intn(C)}
		sh.vals[p] = fmt.Sprintf("v%d.%d", p[0], p[1])
	}
	sh.vals[[2]int{R - 1, C - 1}] = fmt.Sprintf("v%d.%d", R-1, C-1)
	whole := [4]int{0, 0, 1048575, 16383} // A1:XFD1048576
	exact := [4]int{0, 0, R - 1, C - 1}
	var tiles [][4]int
	tile(r, 0, 0, R-1, C-1, &tiles)
	hx.Shuffle(r, tiles)
	one := func() [4]int { p := [2]int{r.Intn(R), r.Intn(C)}; return [4]int{p[0], p[1], p[0], p[1]} }
	zero := func() [4]int { // regions without a cell in the grid
		switch r.Intn(4) {
		case 0:
			return [4]int{R, 0, R + r.Intn(3), C - 1} // below the grid
		case 1:
			return [4]int{0, C, R - 1, C + r.Intn(3)} // right of the grid
		case 2:
			return [4]int{R - 1, C - 1, 0, 0} // reversed (names no cell unless 1x1)
		default:
			return [4]int{0, 701, 1048575, 701} // ZZ1:ZZ1048576
		}
	}
	switch sc := r.Intn(10); sc {
	case 0:
		sh.note, sh.regs = "tiling-exact-fill", tiles
	case 1:
		sh.note = "tiling+one-cell"
		sh.regs = append(append([][4]int{}, tiles...), one())
		if r.Bool() {
			sh.regs = append(sh.regs, one(), zero())
		}
	case 2:
		sh.note = "whole-grid-repeated"
		for k := r.Range(2, 6); k > 0; k-- {
			if r.Chance(1, 4) {
				sh.regs = append(sh.regs, exact)
			} else {
				sh.regs = append(sh.regs, whole)
			}
		}
	case 3:
		sh.note = "random-overlapping"
		for k := r.Range(2, 8); k > 0; k-- {
			a, b := r.Intn(R), r.Intn(C)
			sh.regs = append(sh.regs, [4]int{a, b, a + r.Intn(R-a+1), b + r.Intn(C-b+1)})
		}
	case 4:
		// all tiles but one (valid), then the whole grid (ends the loop), then the tile left out
		sh.note = "partial-tiling+breaker+fitting-tail"
		k := r.Intn(len(tiles))
		for i, t := range tiles {
			if i != k {
				sh.regs = append(sh.regs, t)
			}
		}
		sh.regs = append(sh.regs, whole, tiles[k])
	case 5:
		sh.note = "tiling+zero-area-regions"
		for _, t := range tiles {
			if r.Chance(1, 2) {
				sh.regs = append(sh.regs, zero())
			}
			sh.regs = append(sh.regs, t)
		}
		sh.regs = append(sh.regs, zero())
	case 6:
		// all tiles but one: valid and below the budget
		sh.note = "partial-tiling"
		k := r.Intn(len(tiles))
		for i, t := range tiles {
			if i != k || len(tiles) == 1 {
				sh.regs = append(sh.regs, t)
			}
		}
	case 7:
		// the same half twice: overlapping, yet the areas add up to the grid or less
		sh.note = "same-region-twice"
		a := tiles[0]
		sh.regs = [][4]int{a, a}
		if r.Bool() {
			sh.regs = append(sh.regs, one())
		}
	case 8:
		// fill all but one cell, then a two-cell region: one cell too many
		sh.note = "exceed-by-one"
		sh.regs = append([][4]int{}, tiles...)
		if R*C >= 2 {
			// replace the tiling by single cells over all but the last position, then a pair
			sh.regs = nil
			for i := 0; i < R*C-1; i++ {
				sh.regs = append(sh.regs, [4]int{i / C, i % C, i / C, i % C})
			}
			hx.Shuffle(r, sh.regs)
			if C >= 2 {
				sh.regs = append(sh.regs, [4]int{R - 1, C - 2, R - 1, C - 1})
			} else {
				sh.regs = append(sh.regs, [4]int{R - 2, C - 1, R - 1, C - 1})
			}
		}
	default:
		// regions reaching beyond the grid: clipped areas count, declared extents do not
		sh.note = "tiling-reaching-beyond"
		for _, t := range tiles {
			if t[2] == R-1 && r.Bool() {
				t[2] += r.Range(1, 1000000)
			}
			if t[3] == C-1 && r.Bool() {
				t[3] += r.Range(1, 16000)
			}
			sh.regs = append(sh.regs, t)
		}
	}
	return sh
}

func (sh bsheet) xsheet(idx int) writers.XSheet {
	xs := writers.XSheet{Name: fmt.Sprintf("B%d", idx), Path: fmt.Sprintf("worksheets/sheet%d.xml", idx+1), RID: fmt.Sprintf("rId%d", idx+1)}
	for rr := 0; rr < sh.R; rr++ {
		xr := writers.XRow{R: rr + 1}
		for cc := 0; cc < sh.C; cc++ {
			if v, ok := sh.vals[[2]int{rr, cc}]; ok {
				xr.Cells = append(xr.Cells, writers.XCell{Ref: fmt.Sprintf("%s%d", colName(cc), rr+1), T: "str", V: v, HasV: true})
			}
		}
		if len(xr.Cells) > 0 {
			xs.Rows = append(xs.Rows, xr)
		}
	}
	for _, g := range sh.regs {
		xs.Merges = append(xs.Merges, regRef(g))
	}
	return xs
}

// RunBudget generates workbook #idx of the budget stream.
func RunBudget(c *hx.Ctx, idx int, keep bool) {
	r := hx.NewRng(c.Seed ^ 0xB0D6E7).Fork(uint64(idx))
	n := 1
	if r.Chance(1, 4) {
		n = 2
	}
	var shs []bsheet
	ab := apiBook{unreadable: map[int]bool{}}
	for i := 0; i < n; i++ {
		sh := genBudgetSheet(r)
		shs = append(shs, sh)
		ab.sheets = append(ab.sheets, sh.xsheet(i))
	}
	kase := apiCase{Seed: c.Seed, Index: idx, API: true, Budget: true}
	valid := make([]bool, n)
	for i, sh := range shs {
		c.Count("budget:" + sh.note)
		grid, sum, brk := sh.R*sh.C, 0, -1
		for k, g := range sh.regs {
			a := inGridArea(g, sh.R, sh.C)
			if brk < 0 && sum+a > grid {
				brk = k
				if sum+a == grid+1 {
					c.Count("budget-break:one-cell-too-many")
				}
			}
			sum += a
		}
		switch {
		case brk < 0 && sum == grid:
			c.Count("budget-regions:all-applied,exact-fill")
		case brk < 0:
			c.Count("budget-regions:all-applied,below-budget")
		case brk == len(sh.regs)-1:
			c.Count("budget-regions:last-one-dropped")
		default:
			c.Count("budget-regions:breaker-and-later-dropped")
		}
		valid[i] = true
		for a := range sh.regs {
			for b := a + 1; b < len(sh.regs); b++ {
				if regsOverlap(sh.regs[a], sh.regs[b]) {
					valid[i] = false
				}
			}
		}
		if valid[i] {
			c.Count("budget-sheet:valid(no-overlap)")
		} else {
			c.Count("budget-sheet:overlapping")
		}
	}
	runBook(c, r, ab, kase, filepath.Join(c.OutDir, fmt.Sprintf("budget-%d.xlsx", idx)), keep, false, func(rd *xlsx.Reader) {
		if !c.Check("C17/budget-open", rd != nil && rd.SheetCount() == n, kase, func() string { return "a small workbook did not open with all its sheets" }) {
			return
		}
		txt, _ := rd.Text()
		// the text of all sheets: the lines of each sheet (one per grid row), a blank line between sheets
		all := strings.Split(txt, "\n")
		off := 0
		for i, sh := range shs {
			var lines []string
			if off < len(all) {
				lines = all[off:]
			}
			off += sh.R + 1
			if !valid[i] {
				continue // overlapping regions: no valid sheet; tied to the model by the ops
			}
			s, _ := rd.Sheet(i)
			for rr := 0; rr < sh.R; rr++ {
				for cc := 0; cc < sh.C; cc++ {
					cov, root := false, false
					for _, g := range sh.regs {
						if regCovers(g, rr, cc) {
							cov = true
							if g[0] == rr && g[1] == cc {
								root = true
							}
						}
					}
					want := sh.vals[[2]int{rr, cc}]
					if cov && !root {
						want = ""
					}
					pos := map[string]interface{}{"seed": c.Seed, "index": idx, "api": true, "budget": true, "sheet": i, "row": rr, "col": cc}
					cell := s.Cell(rr, cc)
					if !c.Check("C17/budget-cell-present", cell != nil, pos, func() string { return "no cell inside the used range" }) {
						continue
					}
					c.Check("C17/budget-merge-flags", cell.IsMerged == cov && cell.IsMergeRoot == root, pos, func() string {
						return fmt.Sprintf("%s: regions %v (none overlap): cell (%d,%d) IsMerged=%v IsMergeRoot=%v, covered=%v top-left=%v", sh.note, sh.regs, rr, cc, cell.IsMerged, cell.IsMergeRoot, cov, root)
					})
					got := ""
					if rr < len(lines) {
						if f := strings.Split(lines[rr], "\t"); cc < len(f) {
							got = f[cc]
						}
					}
					c.Check("C17/budget-text-field", got == want, pos, func() string {
						return fmt.Sprintf("%s: regions %v (none overlap): line %d field %d is %q, displayed value %q", sh.note, sh.regs, rr, cc, got, want)
					})
				}
			}
		}
	})
}

// ---- the workbook's limit of grid cells --------------------------------------------------

// The documented rule (commit message of the fix and the comment above the
// constants): a grid may have 16 cells for every <c> element its part brings;
// what it needs beyond that is taken from one budget of 8 Mi cells shared by
// the sheets of a workbook; a part named by several <sheet> entries brings its
// cells only once.
const (
	capCells    = 8 << 20
	capPerElem  = 16
	probeRows   = 52429 // 52429 x 160 = 8 Mi + 32 cells: with its two <c> elements it fits exactly an untouched budget
	probeCols   = 160
	capBulkRows = 1 << 20
)

type capSheet struct {
	rows, cols int // 0 x 0: a sheet without rows
	extra      int // further <c> elements in row 1 (some with references that do not parse)
	alias      int // >= 0: the entry names the member of that earlier entry (same part); -1: a member of its own
	merges     []string
}

func (cs capSheet) cells() int { return cs.rows * cs.cols }

// elements: the <c> elements xsheet writes.
func (cs capSheet) elements() int {
	if cs.rows == 0 {
		return 0
	}
	n := 1 + cs.extra
	if cs.cols > 1 {
		n++
	}
	return n
}

func (cs capSheet) xsheet(idx int) writers.XSheet {
	xs := writers.XSheet{Name: fmt.Sprintf("C%d", idx), Path: fmt.Sprintf("worksheets/sheet%d.xml", idx+1), RID: fmt.Sprintf("rId%d", idx+1), Merges: cs.merges}
	if cs.rows == 0 {
		return xs
	}
	// a value at A1, the last column pinned by a cell in row 1, the last row by an empty row element
	xs.Rows = append(xs.Rows, writers.XRow{R: 1, Cells: []writers.XCell{{Ref: "A1", T: "str", V: fmt.Sprintf("s%d", idx), HasV: true}}})
	if cs.cols > 1 {
		xs.Rows[0].Cells = append(xs.Rows[0].Cells, writers.XCell{Ref: colName(cs.cols-1) + "1", T: "str", V: "e", HasV: true})
	}
	for k := 0; k < cs.extra; k++ {
		ref := colName(1+k%(max(cs.cols, 3)-2)) + "1" // columns B.. below the last one
		if k%7 == 3 {
			ref = "?" // counted as an element, placed nowhere
		}
		xs.Rows[0].Cells = append(xs.Rows[0].Cells, writers.XCell{Ref: ref, T: "str", V: "d", HasV: true})
	}
	if cs.rows > 1 {
		xs.Rows = append(xs.Rows, writers.XRow{R: cs.rows})
	}
	return xs
}

func probe() capSheet { return capSheet{rows: probeRows, cols: probeCols, alias: -1} }

func emptyRegions(n int) []string {
	var ms []string
	pool := []string{"B1:B1048576", "ZZ1:ZZ1048576", "C5:B1048576", "B1:XFD1048576", "A1048577:A1048580"}
	for i := 0; i < n; i++ {
		ms = append(ms, pool[i%len(pool)])
	}
	return ms
}

func capFixed(i int) ([]capSheet, string) {
	switch i {
	case 0:
		// 8396800 cells = 8 Mi + 8192: 512 elements are exactly enough
		return []capSheet{{rows: 1024, cols: 8200, extra: 510, alias: -1}, {rows: 1, cols: 1, alias: -1}}, "just-above-8Mi,elements-just-enough"
	case 1:
		return []capSheet{{rows: 1024, cols: 8200, extra: 509, alias: -1}, {rows: 1, cols: 1, alias: -1}}, "just-above-8Mi,one-element-short"
	case 2:
		// a dense small sheet (16 cells, two elements) takes nothing: the probe still fits exactly
		return []capSheet{{rows: 4, cols: 4, alias: -1}, probe()}, "dense-small-then-probe"
	case 3:
		// 36 cells, two elements: 4 cells are charged, the probe no longer fits
		return []capSheet{{rows: 6, cols: 6, alias: -1}, probe()}, "4-cells-charged-then-probe"
	case 4:
		// the same member twice: the second entry has no allowance and is charged its 16 cells
		return []capSheet{{rows: 4, cols: 4, alias: -1}, {rows: 4, cols: 4, alias: 0}, probe()}, "same-member-twice-then-probe"
	case 5:
		// two distinct members with the same content: both dense, nothing charged
		return []capSheet{{rows: 4, cols: 4, alias: -1}, {rows: 4, cols: 4, alias: -1}, probe()}, "distinct-members-then-probe"
	case 6:
		// merged regions without a cell in the grid, in bulk, on a tall sheet
		return []capSheet{{rows: capBulkRows, cols: 1, alias: -1, merges: emptyRegions(20000)}}, "empty-regions-in-bulk"
	default:
		// distinct members each with one far cell (XFD256: 4 Mi cells): two fit, the third does not, an empty sheet does
		return []capSheet{{rows: 256, cols: 16384, alias: -1}, {rows: 256, cols: 16384, alias: -1}, {rows: 256, cols: 16384, alias: -1}, {alias: -1}}, "distinct-members-one-far-cell-each"
	}
}

const nCapFixed = 8

var capPool = []capSheet{{alias: -1}, {rows: 1, cols: 1, alias: -1}, {rows: 3, cols: 2, alias: -1}, {rows: 4, cols: 4, alias: -1}, {rows: 6, cols: 6, alias: -1},
	{rows: 4194304, cols: 1, alias: -1}, {rows: 2097152, cols: 2, alias: -1}, {rows: 512, cols: 8192, alias: -1}, {rows: 256, cols: 16384, alias: -1},
	{rows: 512, cols: 16384, alias: -1}, {rows: 8388609, cols: 1, alias: -1}, {rows: 2048, cols: 2048, alias: -1}, {rows: 1, cols: 16384, alias: -1},
	{rows: 1024, cols: 8200, extra: 510, alias: -1}, {rows: 1024, cols: 8200, extra: 509, alias: -1}, {rows: 1024, cols: 8200, extra: 3000, alias: -1},
	{rows: probeRows, cols: probeCols, alias: -1}, {rows: 1048576, cols: 16384, alias: -1}, {rows: 40, cols: 40, extra: 98, alias: -1}, {rows: 40, cols: 40, extra: 97, alias: -1}}

// RunCap generates workbook #idx of the cap stream.
func RunCap(c *hx.Ctx, idx int, keep bool) {
	r := hx.NewRng(c.Seed ^ 0xCA9).Fork(uint64(idx))
	var shs []capSheet
	note := "random"
	if idx < nCapFixed {
		shs, note = capFixed(idx)
	} else {
		for n := r.Range(2, 5); n > 0; n-- {
			cs := hx.Pick(r, capPool)
			if len(shs) > 0 && r.Chance(1, 4) {
				k := r.Intn(len(shs))
				if shs[k].alias >= 0 {
					k = shs[k].alias
				}
				cs = shs[k]
				cs.alias = k
			}
			shs = append(shs, cs)
		}
	}
	c.Count("cap:" + note)
	ab := apiBook{unreadable: map[int]bool{}}
	// the documented rule, computed here from the description of the sheets
	demand, total, aliases := 0, 0, 0
	for i, cs := range shs {
		xs := cs.xsheet(i)
		allow := capPerElem * cs.elements()
		if cs.alias >= 0 {
			src := shs[cs.alias].xsheet(cs.alias)
			xs.Path, xs.Rows, xs.Merges = src.Path, src.Rows, src.Merges // the same part under another name
			allow = 0
			aliases++
		}
		ab.sheets = append(ab.sheets, xs)
		total += cs.cells()
		if cs.cells() > allow {
			demand += cs.cells() - allow
		}
	}
	if aliases > 0 {
		c.Count("cap-aliases:some")
	}
	switch {
	case demand == capCells:
		c.Count("cap-demand:fills-the-budget-exactly")
	case demand < capCells && total > capCells:
		c.Count("cap-demand:within-budget-thanks-to-allowances")
	case demand < capCells:
		c.Count("cap-demand:below-the-budget")
	case demand <= capCells+capPerElem:
		c.Count("cap-demand:a-few-cells-beyond")
	default:
		c.Count("cap-demand:beyond-the-budget")
	}
	kase := apiCase{Seed: c.Seed, Index: idx, API: true, Cap: true}
	t0 := time.Now()
	runBook(c, r, ab, kase, filepath.Join(c.OutDir, fmt.Sprintf("cap-%d.xlsx", idx)), keep, true, func(rd *xlsx.Reader) {
		took := time.Since(t0)
		if rd != nil {
			c.Count(fmt.Sprintf("cap-loaded:%d-of-%d", rd.SheetCount(), len(shs)))
		} else {
			c.Count("cap-loaded:open-error")
		}
		for _, cs := range shs {
			if len(cs.merges) >= 1000 {
				// regions without a cell in the grid cost nothing: opening stays fast (before the
				// fix 20000 of them on 1 Mi rows took well over half a minute)
				c.Check("C17/merge-empty-regions-slow", took < 8*time.Second, kase, func() string {
					return fmt.Sprintf("%d merged regions without a cell in a grid of %d rows: Open took %v", len(cs.merges), cs.rows, took)
				})
				c.Count("cap:bulk-empty-regions-timed")
			}
		}
		if demand > capCells {
			return // beyond the documented budget: tied to the model by c17.open
		}
		// within the budget every sheet is there and shows its cells where they are addressed
		if !c.Check("C17/cap-sheet-lost", rd != nil && rd.SheetCount() == len(shs), kase, func() string {
			return fmt.Sprintf("%s: sheets %+v need %d cells beyond their allowances (budget %d): not all loaded", note, shs, demand, capCells)
		}) {
			return
		}
		for i, cs := range shs {
			if cs.rows == 0 {
				continue
			}
			src := i
			if cs.alias >= 0 {
				src = cs.alias
			}
			s, _ := rd.Sheet(i)
			a1 := s.Cell(0, 0)
			c.Check("C17/cap-cell", a1 != nil && a1.Value == fmt.Sprintf("s%d", src) && !a1.IsMerged && s.RowCount() == cs.rows && s.ColCount() == cs.cols, kase, func() string {
				return fmt.Sprintf("sheet %d: %d x %d, A1=%v", i, s.RowCount(), s.ColCount(), a1)
			})
			if cs.cols > 1 {
				e := s.Cell(0, cs.cols-1)
				c.Check("C17/cap-cell", e != nil && e.Value == "e", kase, func() string { return fmt.Sprintf("sheet %d: last column cell %v", i, e) })
			}
		}
	})
}

func budgetStream(c *hx.Ctx) {
	n := c.N(150, 2500)
	for i := 0; i < n; i++ {
		RunBudget(c, i, false)
	}
	n = c.N(nCapFixed, nCapFixed+10)
	for i := 0; i < n; i++ {
		RunCap(c, i, false)
	}
}
