package c02

// Correspondence ops for the validated bounds and the guarded traversal
// (Model/Bounds.lean): the same layouts are given to the implementation
// through its public API and to the Lean model.

import (
	"fmt"
	"math/big"
	"os"
	"path/filepath"
	"runtime"
	"runtime/debug"
	"strings"

	"github.com/tsawler/tabula/reader"
	"github.com/tsawler/tabula/xlsx"

	"verifharness/hx"
	"verifharness/writers"
)

func joinInts(xs []int64) string {
	if len(xs) == 0 {
		return "-"
	}
	ss := make([]string, len(xs))
	for i, x := range xs {
		ss[i] = fmt.Sprint(x)
	}
	return strings.Join(ss, ",")
}

// xrefStreamOp: a file that consists of a header and one cross-reference stream of
// dataLen zero bytes with the given /W, /Index and /Size. reader.Open succeeds exactly
// when the layout is accepted.
func xrefStreamOp(c *hx.Ctx, w []int64, index []int64, hasIndex bool, size int64, dataLen int) {
	var b strings.Builder
	b.WriteString("%PDF-1.7\n")
	off := b.Len()
	ws := make([]string, len(w))
	for i, x := range w {
		ws[i] = fmt.Sprint(x)
	}
	idx := ""
	model := index
	if hasIndex {
		is := make([]string, len(index))
		for i, x := range index {
			is[i] = fmt.Sprint(x)
		}
		idx = " /Index [" + strings.Join(is, " ") + "]"
	} else {
		model = []int64{0, size}
	}
	fmt.Fprintf(&b, "1 0 obj\n<< /Type /XRef /Size %d /W [%s]%s /Length %d >>\nstream\n", size, strings.Join(ws, " "), idx, dataLen)
	b.WriteString(strings.Repeat("\x00", dataLen))
	fmt.Fprintf(&b, "\nendstream\nendobj\nstartxref\n%d\n%%%%EOF\n", off)
	path := filepath.Join(c.OutDir, "c02-xs.pdf")
	os.WriteFile(path, []byte(b.String()), 0o644)
	defer os.Remove(path)
	out := "err"
	k := map[string]interface{}{"format": "xrefstream", "w": w, "index": model, "len": dataLen}
	c.Current(k)
	c.Guard("C02/xrefstream", k, 10, func() {
		rd, err := reader.Open(path)
		if err == nil {
			ew := int64(0)
			for _, x := range w {
				ew += x
			}
			out = fmt.Sprintf("ok %d %d", ew, len(rd.XRefTable().Entries))
			rd.Close()
		}
	})
	// the number of entries equals the number of distinct object numbers only when the
	// subsections do not overlap; the generator keeps them disjoint.
	c.Op(fmt.Sprintf("c02.xrefstream %s %s %d", joinInts(w), joinInts(model), dataLen), out)
	c.Count("op-xrefstream-" + out[:2])
	c.Case(fmt.Sprint("xs", w, model, dataLen), out != "err")
}

func xrefStreamOps(c *hx.Ctx) {
	r := hx.NewRng(c.Seed ^ 0x5151)
	for i := 0; i < c.N(400, 6000); i++ {
		w := []int64{int64(r.Range(0, 2)), int64(r.Range(0, 4)), int64(r.Range(0, 2))}
		if r.Chance(1, 6) {
			w[r.Intn(3)] = hx.Pick(r, []int64{-1, 9, 8, 2147483648, -9223372036854775807, 0})
		}
		var index []int64
		next := int64(r.Intn(3))
		for k := r.Range(1, 3); k > 0; k-- {
			cnt := int64(r.Range(0, 6))
			index = append(index, next, cnt)
			next += cnt + int64(r.Range(1, 3))
		}
		if r.Chance(1, 8) {
			index = append(index, next) // odd length
		}
		if r.Chance(1, 8) {
			index[r.Intn(len(index))] = hx.Pick(r, []int64{-1, 2147483648, 9223372036854775807})
		}
		hasIndex := r.Chance(4, 5)
		size := next + 1
		if !hasIndex {
			size = int64(r.Range(0, 8))
		}
		xrefStreamOp(c, w, index, hasIndex, size, r.Range(0, 60))
	}
}

func gridOps(c *hx.Ctx) {
	r := hx.NewRng(c.Seed ^ 0x6262)
	cases := [][2]int{{1, 0}, {200, 701}, {1048576, 16383}, {1048576, 7}, {1048577, 7}, {1, 8388607}, {1, 8388608}, {2, 4194304}, {99999999, 0}, {4097, 2047}, {4096, 2048},
		// row numbers whose product with the column count wraps around in 64-bit arithmetic
		{9223372036854775807, 1}, {9223372036854775807, 0}, {4611686018427387904, 3}, {4611686018427387904, 1}, {3074457345618258603, 2},
		{6148914691236517206, 2}, {2305843009213693952, 7}, {1 << 62, 15}, {(1 << 63) - 1, 701}, {1 << 33, (1 << 31) - 1}}
	for i := 0; i < c.N(12, 60); i++ {
		cases = append(cases, [2]int{r.Range(1, 3000000), r.Range(0, 18000)})
	}
	// the refused side of the single-element allowance (8 Mi + 16 cells)
	cases = append(cases, [2]int{1048579, 7}, [2]int{1, 8388624}, [2]int{2, 4194312})
	for _, rc := range cases {
		// A grid the reader accepts is allocated: 8 Mi cells are about 900 MiB. Several of them in a
		// row brought the heap of the harness (garbage not yet collected counts) close to the
		// 3 GiB abort limit of hx.Guard, which made the verdict depend on GC timing: the
		// accepted side above 256 Ki cells runs in the thorough tier only, one grid at a time.
		heavy := false
		if prod := new(big.Int).Mul(big.NewInt(int64(rc[0])), big.NewInt(int64(rc[1]+1))); prod.Cmp(big.NewInt(8<<20+16)) <= 0 && prod.Cmp(big.NewInt(256<<10)) > 0 {
			if !c.Thorough() || prod.Cmp(big.NewInt(8<<20)) <= 0 && prod.Cmp(big.NewInt(3<<20)) > 0 {
				continue
			}
			heavy = true
			runtime.GC()
			debug.FreeOSMemory()
		}
		v := "x"
		wb := writers.XWorkbook{Sheets: []writers.XSheet{{Name: "S", Path: "worksheets/sheet1.xml", RID: "rId1",
			Rows: []writers.XRow{{R: rc[0], Cells: []writers.XCell{{Ref: xlsx.IndexToColumn(rc[1]) + fmt.Sprint(rc[0]), T: "inlineStr", Is: &v}}}}}}}
		path := filepath.Join(c.OutDir, "c02-grid.xlsx")
		os.WriteFile(path, writers.Zip(writers.XLSXMembers(wb)), 0o644)
		out := "err"
		k := map[string]interface{}{"format": "grid", "row": rc[0], "col": rc[1]}
		c.Current(k)
		c.Guard("C02/grid", k, 20, func() {
			rd, err := xlsx.Open(path)
			if err == nil {
				out = "ok"
				rd.Close()
			}
		})
		os.Remove(path)
		if heavy {
			runtime.GC()
			debug.FreeOSMemory()
		}
		c.Op(fmt.Sprintf("c02.grid %d %d", rc[0], rc[1]), out)
		c.Count("op-grid-" + out)
		c.Case(fmt.Sprint("grid", rc), out == "ok")
	}
}

// sharedChainOp: every /Pages node lists the next one twice. With n levels the tree has
// n+1 objects and, if shared subtrees were walked once per path, 2^n pages.
func sharedChainOp(c *hx.Ctx, levels int) {
	p := writers.NewPDF("\n")
	entries := map[int]writers.XEntry{0: {Type: 0, F2: 65535}}
	var desc []string
	for o := 1; o <= levels; o++ {
		entries[o] = writers.XEntry{Type: 1, F1: p.Obj(o, 0, fmt.Sprintf("<< /Type /Pages /Kids [%d 0 R %d 0 R] /Count 2 >>", o+1, o+1))}
		desc = append(desc, fmt.Sprintf("%d:k%d.%d", o, o+1, o+1))
	}
	leaf := levels + 1
	entries[leaf] = writers.XEntry{Type: 1, F1: p.Obj(leaf, 0, "<< /Type /Page /Parent 1 0 R /MediaBox [0 0 10 10] >>")}
	desc = append(desc, fmt.Sprintf("%d:p", leaf))
	cat := leaf + 1
	entries[cat] = writers.XEntry{Type: 1, F1: p.Obj(cat, 0, "<< /Type /Catalog /Pages 1 0 R >>")}
	p.XrefTable(entries, fmt.Sprintf("/Root %d 0 R /Size %d", cat, cat+1), -1, " \n")
	path := filepath.Join(c.OutDir, "c02-chain.pdf")
	os.WriteFile(path, p.Buf.Bytes(), 0o644)
	defer os.Remove(path)
	out := "err"
	k := map[string]interface{}{"format": "ptree-shared-chain", "levels": levels}
	c.Current(k)
	c.Guard("C02/ptree", k, 10, func() {
		rd, err := reader.Open(path)
		if err != nil {
			return
		}
		defer rd.Close()
		if cnt, err := rd.PageCount(); err == nil {
			out = fmt.Sprintf("ok %d", cnt)
		}
	})
	c.Op(fmt.Sprintf("c02.ptree %s %s", "2,2", strings.Join(desc[1:], ";")), out)
	c.Count("op-ptree-shared-chain")
	c.Case(fmt.Sprint("chain", levels), true)
}

func ptreeOps(c *hx.Ctx) {
	for _, levels := range []int{3, 12, 34} {
		sharedChainOp(c, levels)
	}
	r := hx.NewRng(c.Seed ^ 0x7373)
	for i := 0; i < c.N(400, 8000); i++ {
		n := r.Range(1, 8) // nodes 2..n+1; object 1 is the root
		type node struct {
			page bool
			kids []int
		}
		nodes := map[int]node{}
		for o := 2; o <= n+1; o++ {
			if r.Chance(1, 2) {
				nodes[o] = node{page: true}
				continue
			}
			var kids []int
			for k := r.Range(0, 3); k > 0; k-- {
				if r.Chance(1, 5) {
					kids = append(kids, r.Range(1, n+2)) // may point back, at the root, or at a missing object
				} else {
					kids = append(kids, r.Range(o, n+1)+boolInt(r.Chance(1, 2)))
				}
			}
			nodes[o] = node{kids: kids}
		}
		var rootKids []int
		for k := r.Range(1, 3); k > 0; k-- {
			rootKids = append(rootKids, r.Range(2, n+1))
		}
		if r.Chance(1, 10) {
			rootKids = append(rootKids, 1)
		}
		refs := func(ks []int) string {
			ss := make([]string, len(ks))
			for i, k := range ks {
				ss[i] = fmt.Sprintf("%d 0 R", k)
			}
			return strings.Join(ss, " ")
		}
		p := writers.NewPDF("\n")
		entries := map[int]writers.XEntry{0: {Type: 0, F2: 65535}}
		entries[1] = writers.XEntry{Type: 1, F1: p.Obj(1, 0, fmt.Sprintf("<< /Type /Pages /Kids [%s] /Count %d >>", refs(rootKids), n))}
		var desc []string
		desc = append(desc, "1:k"+dots(rootKids))
		for o := 2; o <= n+1; o++ {
			nd := nodes[o]
			if nd.page {
				entries[o] = writers.XEntry{Type: 1, F1: p.Obj(o, 0, "<< /Type /Page /Parent 1 0 R /MediaBox [0 0 10 10] >>")}
				desc = append(desc, fmt.Sprintf("%d:p", o))
			} else {
				entries[o] = writers.XEntry{Type: 1, F1: p.Obj(o, 0, fmt.Sprintf("<< /Type /Pages /Parent 1 0 R /Kids [%s] /Count 1 >>", refs(nd.kids)))}
				desc = append(desc, fmt.Sprintf("%d:k%s", o, dots(nd.kids)))
			}
		}
		cat := n + 2
		entries[cat] = writers.XEntry{Type: 1, F1: p.Obj(cat, 0, "<< /Type /Catalog /Pages 1 0 R >>")}
		p.XrefTable(entries, fmt.Sprintf("/Root %d 0 R /Size %d", cat, cat+1), -1, " \n")
		path := filepath.Join(c.OutDir, "c02-pt.pdf")
		os.WriteFile(path, p.Buf.Bytes(), 0o644)
		out := "err"
		k := map[string]interface{}{"format": "ptree", "root": rootKids, "nodes": desc}
		c.Current(k)
		c.Guard("C02/ptree", k, 10, func() {
			rd, err := reader.Open(path)
			if err != nil {
				return
			}
			defer rd.Close()
			if cnt, err := rd.PageCount(); err == nil {
				out = fmt.Sprintf("ok %d", cnt)
			}
		})
		os.Remove(path)
		c.Op(fmt.Sprintf("c02.ptree %s %s", commas(rootKids), strings.Join(desc, ";")), out)
		c.Count("op-ptree-" + out[:2])
		c.Case(fmt.Sprint("pt", rootKids, desc), out != "err")
	}
}

func boolInt(b bool) int {
	if b {
		return 1
	}
	return 0
}

func dots(ks []int) string {
	ss := make([]string, len(ks))
	for i, k := range ks {
		ss[i] = fmt.Sprint(k)
	}
	return strings.Join(ss, ".")
}

func commas(ks []int) string {
	if len(ks) == 0 {
		return "-"
	}
	ss := make([]string, len(ks))
	for i, k := range ks {
		ss[i] = fmt.Sprint(k)
	}
	return strings.Join(ss, ",")
}
