package c02

// Fault catalogue for the ZIP-based formats (DOCX, ODT, PPTX, EPUB; XLSX has its own
// in c02.go): valid documents from the independent writers, damaged member by member.

import (
	"archive/zip"
	"bytes"
	"fmt"
	"io"
	"regexp"
	"strings"

	"verifharness/c15"
	"verifharness/c20"
	"verifharness/hx"
	"verifharness/writers"
)

func unzip(data []byte) []writers.Member {
	zr, err := zip.NewReader(bytes.NewReader(data), int64(len(data)))
	if err != nil {
		return nil
	}
	var ms []writers.Member
	for _, f := range zr.File {
		rc, err := f.Open()
		if err != nil {
			continue
		}
		b, _ := io.ReadAll(rc)
		rc.Close()
		ms = append(ms, writers.Member{Name: f.Name, Data: b, Store: f.Method == zip.Store})
	}
	return ms
}

var xmlNumRe = regexp.MustCompile(`="(-?\d+)"`)
var xmlRefRe = regexp.MustCompile(`(Target|href|full-path|r:id|r:embed|idref|xlink:href)="([^"]*)"`)

// richNumberFaults: structurally rich documents (merged cells, nested lists, heading
// levels, column widths — the c15 generator) with EVERY numeric attribute and every
// all-digit element text replaced by each hostile value, one at a time; the sites are
// visited round-robin over the values so a small budget still touches every site.
var xmlNumTextRe = regexp.MustCompile(`>(-?\d+)<`)

func richNumberFaults(c *hx.Ctx, format string, seed uint64, docs, budget int) {
	values := []string{"0", "-1", "2147483647", "2147483648", "4294967296", "999999999", "9223372036854775807", "-9223372036854775808"}
	ext := c20.ExtOf(format)
	n := 0
	for d := 0; d < docs; d++ {
		r := hx.NewRng(seed*977 + uint64(d))
		base := unzip(c15.GenRich(r, strings.ToLower(format)))
		if len(base) == 0 {
			c.Note("c02: could not re-read the rich %s", format)
			return
		}
		type site struct{ mi, a, b int }
		var sites []site
		for mi, m := range base {
			for _, s := range xmlNumRe.FindAllSubmatchIndex(m.Data, -1) {
				sites = append(sites, site{mi, s[2], s[3]})
			}
			for _, s := range xmlNumTextRe.FindAllSubmatchIndex(m.Data, -1) {
				sites = append(sites, site{mi, s[2], s[3]})
			}
		}
		c.Count(fmt.Sprintf("%s-rich-sites=%d", format, len(sites)/50*50))
		for vi := range values {
			for si, st := range sites {
				if n >= budget {
					return
				}
				v := values[(vi+si)%len(values)]
				m := base[st.mi]
				data := append(append(append([]byte(nil), m.Data[:st.a]...), v...), m.Data[st.b:]...)
				ms := append([]writers.Member(nil), base...)
				ms[st.mi] = writers.Member{Name: m.Name, Data: data, Store: m.Store}
				n++
				runBytes(c, kase{Format: format, Doc: d, Seed: seed, Faults: []fault{{Kind: "rich-number", Ordinal: st.mi, Site: si, Value: v}}}, ext, writers.Zip(ms), "z")
				c.Count(format + "-rich-number")
			}
			if !c.Thorough() && vi >= 1 {
				break // quick: two values per site (rotating), thorough: all eight
			}
		}
	}
}

func zipFaults(c *hx.Ctx, format string, seed uint64, budget int) {
	r := hx.NewRng(seed)
	base := unzip(c20.GenDocument(r, format, "tokC02"))
	if len(base) == 0 {
		c.Note("c02: could not re-read the generated %s", format)
		return
	}
	ext := c20.ExtOf(format)
	n := 0
	emit := func(ms []writers.Member, f fault) {
		if n >= budget {
			return
		}
		n++
		runBytes(c, kase{Format: format, Seed: seed, Faults: []fault{f}}, ext, writers.Zip(ms), "z")
		c.Count(format + "-" + f.Kind)
	}
	with := func(mi int, data []byte) []writers.Member {
		ms := append([]writers.Member(nil), base...)
		ms[mi] = writers.Member{Name: base[mi].Name, Data: data, Store: base[mi].Store}
		return ms
	}
	// interleave the fault kinds over the members so a small budget still sees every kind
	for round := 0; round < 8 && n < budget; round++ {
		for mi, m := range base {
			switch round {
			case 0: // drop
				ms := append([]writers.Member(nil), base[:mi]...)
				emit(append(ms, base[mi+1:]...), fault{Kind: "drop", Ordinal: mi})
			case 1: // duplicate
				emit(append(append([]writers.Member(nil), base...), m), fault{Kind: "dup", Ordinal: mi})
			case 2: // truncate the member
				for _, cut := range []int{len(m.Data) / 2, len(m.Data) - 2, 0} {
					if cut >= 0 && cut < len(m.Data) {
						emit(with(mi, m.Data[:cut]), fault{Kind: "data-trunc", Ordinal: mi, Site: cut})
					}
				}
			case 3: // numeric attributes -> hostile values
				sites := xmlNumRe.FindAllSubmatchIndex(m.Data, -1)
				for si, s := range sites {
					if si > 5 {
						break
					}
					for _, v := range []string{"0", "-1", "2147483648", "9223372036854775807"} {
						d := append(append(append([]byte(nil), m.Data[:s[2]]...), v...), m.Data[s[3]:]...)
						emit(with(mi, d), fault{Kind: "number", Ordinal: mi, Site: si, Value: v})
					}
				}
			case 4: // references retargeted: self, missing, parent directory, absolute
				sites := xmlRefRe.FindAllSubmatchIndex(m.Data, -1)
				for si, s := range sites {
					if si > 4 {
						break
					}
					for _, v := range []string{m.Name, "missing.xml", "../../../etc/passwd", "/" + m.Name, ""} {
						d := append(append(append([]byte(nil), m.Data[:s[4]]...), v...), m.Data[s[5]:]...)
						emit(with(mi, d), fault{Kind: "ref", Ordinal: mi, Site: si, Value: v})
					}
				}
			case 5: // unbalance a tag / an attribute quote
				emit(with(mi, bytes.Replace(m.Data, []byte("</"), []byte("<"), 1)), fault{Kind: "delim", Ordinal: mi, Value: "</"})
				emit(with(mi, bytes.Replace(m.Data, []byte(`">`), []byte(`>`), 1)), fault{Kind: "delim", Ordinal: mi, Value: `"`})
			case 6: // flipped bytes inside the member
				if len(m.Data) > 0 {
					d := append([]byte(nil), m.Data...)
					for k := 0; k < 3; k++ {
						d[r.Intn(len(d))] ^= byte(1 << uint(r.Intn(8)))
					}
					emit(with(mi, d), fault{Kind: "data-flip", Ordinal: mi})
				}
			case 7: // deep nesting inside the member's root
				if bytes.Contains(m.Data, []byte("<")) && len(m.Data) < 20000 {
					d := append(append([]byte(nil), m.Data...), bytes.Repeat([]byte("<a>"), 3000)...)
					emit(with(mi, d), fault{Kind: "nesting", Ordinal: mi})
				}
			}
		}
	}
	// whole-archive damage: flipped bytes (compressed streams, central directory), truncation
	z := writers.Zip(base)
	for i := 0; i < 30 && n < budget+30; i++ {
		d := append([]byte(nil), z...)
		d[r.Intn(len(d))] ^= byte(1 << uint(r.Intn(8)))
		n++
		runBytes(c, kase{Format: format, Seed: seed, Faults: []fault{{Kind: "byte", Site: i}}}, ext, d, "z")
		c.Count(format + "-byte")
	}
	for _, cut := range []int{len(z) / 2, len(z) - 10, 30} {
		runBytes(c, kase{Format: format, Seed: seed, Faults: []fault{{Kind: "truncate", Site: cut}}}, ext, z[:cut], "z")
		c.Count(format + "-truncate")
	}
}

// ZipFormats are the container formats damaged by zipFaults.
var ZipFormats = []string{c20.FDOCX, c20.FODT, c20.FPPTX, c20.FEPUB}

func init() { _ = fmt.Sprint }
