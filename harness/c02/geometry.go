package c02

// Page geometry. The numbers INSIDE a content stream (font sizes, text positions and
// matrices, spacing, leading) are as much "numeric fields of the file" as dictionary
// entries, but the shared PDF writer filters its content streams, so the catalogue's
// number faults never touched them; and the entry points that turn positions into
// output (PreserveLayout pads with spaces and blank lines, ByColumn/JoinParagraphs/
// Lines/Paragraphs/ReadingOrder/... bucket them) were not called at all.
//
// geometryFaults authors a one-page document with plain (unfiltered) content, replaces
// every number of the page dictionary and of the content stream by the hostile values
// - the catalogue's plus magnitudes in between, 1e-9, 1e7, 5242000 (just under the
// widest page the column histogram accepts), +-1e14 - and runs every option and every
// analysis entry point on it. Shapes that need many fragments are authored outright:
// "wide" = n lines of text in a font of size s on a page w wide.

import (
	"fmt"
	"os"
	"path/filepath"
	"strings"

	"github.com/tsawler/tabula"

	"verifharness/hx"
)

type geoCase struct {
	Format string `json:"format"` // "pdf-geometry"
	Shape  string `json:"shape"`  // number | wide | contents-repeat
	Obj    int    `json:"obj"`
	Site   int    `json:"site"`
	Value  string `json:"value"`
	light  bool
}

const geoContent = "BT /F1 12 Tf 14 TL 1 0 0 1 72 700 Tm (Title line) Tj 0 -20 Td (left column) Tj 250 0 Td (right column) Tj -250 -14 Td [(ke) -120 (rned)] TJ 2 Tc 3 Tw 100 Tz 1 Ts T* (next) ' ET q 1 0 0 1 10 10 cm BT /F1 8 Tf 72 40 Td (footer 1) Tj ET Q"

func geoObjects(g geoCase) (map[int]string, int, int) {
	page := "<< /Type /Page /Parent 2 0 R /MediaBox [0 0 612 792] /CropBox [0 0 612 792] /Rotate 0 /UserUnit 1 /Contents 4 0 R /Resources << /Font << /F1 5 0 R >> >> >>"
	content := geoContent
	switch g.Shape {
	case "number":
		f := fault{Kind: "number", Site: g.Site, Value: g.Value}
		if g.Obj == 3 {
			page = applyText(page, f)
		} else {
			content = applyText(content, f)
		}
	case "wide": // Site lines of text, font size Value, page width Obj
		page = strings.Replace(page, "/MediaBox [0 0 612 792]", fmt.Sprintf("/MediaBox [0 0 %d 792]", g.Obj), 1)
		content = fmt.Sprintf("BT /F1 %s Tf 1 TL 0 700 Td %s ET", g.Value, strings.Repeat("(a)' ", g.Site))
	}
	objs := map[int]string{
		1: "<< /Type /Catalog /Pages 2 0 R >>",
		2: "<< /Type /Pages /Kids [3 0 R] /Count 1 >>",
		3: page,
		4: stream(fmt.Sprintf("/Length %d", len(content)), content),
		5: "<< /Type /Font /Subtype /Type1 /BaseFont /Helvetica >>",
	}
	if g.Shape == "contents-repeat" { // the page's /Contents names one stream of Obj bytes Site times
		body := "BT /F1 12 Tf 72 700 Td (x) Tj ET\n%" + strings.Repeat("a", g.Obj)
		objs[4] = stream(fmt.Sprintf("/Length %d", len(body)), body)
		objs[3] = strings.Replace(page, "/Contents 4 0 R", "/Contents ["+strings.Repeat("4 0 R ", g.Site)+"]", 1)
	}
	return objs, len(numSites(page)), len(numSites(geoContent))
}

func runGeo(c *hx.Ctx, g geoCase) {
	objs, _, _ := geoObjects(g)
	data := assemblePDF(objs, "")
	path := filepath.Join(c.OutDir, "c02-geo.pdf")
	os.WriteFile(path, data, 0o644)
	defer os.Remove(path)
	k := kase{Format: "pdf-geometry", Faults: []fault{{Kind: "geo-" + g.Shape, Ordinal: g.Obj, Site: g.Site, Value: g.Value}}}
	if g.light { // megabytes of content: the two entry points that read and lay out the page
		exerciseOnly = map[string]bool{"Text": true, "ToMarkdown": true}
		exercise(c, k, path, data)
		exerciseOnly = nil
		c.Count("pdf-geometry-" + g.Shape)
		c.Case(fmt.Sprint(g), true)
		return
	}
	exercise(c, k, path, data)
	c.Guard("C02/pdf-geometry-options", k, 10, func() {
		tabula.Open(path).PreserveLayout().Text()
		tabula.Open(path).ByColumn().Text()
		tabula.Open(path).JoinParagraphs().Text()
		tabula.Open(path).ExcludeHeadersAndFooters().Text()
		tabula.Open(path).ByColumn().PreserveLayout().ExcludeHeaders().ExcludeFooters().JoinParagraphs().Text()
	})
	c.Guard("C02/pdf-geometry-analysis", k, 10, func() {
		e := tabula.Open(path)
		e.IsCharacterLevel()
		e.IsMultiColumn()
		e.Lines()
		e.Paragraphs()
		e.ReadingOrder()
		e.Headings()
		e.Lists()
		e.Blocks()
		e.Elements()
	})
	c.Rep.OracleChecks += 2
	c.Count("pdf-geometry-" + g.Shape)
	c.Case(fmt.Sprint(g), true)
}

var geoValues = []string{"0", "-1", "2147483648", "9223372036854775807", "0.000000001", "-0.000000001", "10000000", "5242000", "100000000000000", "-100000000000000", "99999999999999999999"}

func geometryFaults(c *hx.Ctx) {
	runGeo(c, geoCase{Format: "pdf-geometry", Shape: "valid"})
	_, pn, cn := geoObjects(geoCase{})
	k := int(c.Seed)
	for _, oc := range [][2]int{{3, pn}, {4, cn}} {
		for s := 0; s < oc[1]; s++ {
			for vi, v := range geoValues {
				k++
				// quick: 2^63-1, 1e-9 and 1e14 at every site, a fifth of the others
				if !c.Thorough() && !(vi == 3 || vi == 4 || vi == 8) && k%5 != 0 {
					continue
				}
				runGeo(c, geoCase{Format: "pdf-geometry", Shape: "number", Obj: oc[0], Site: s, Value: v})
			}
		}
	}
	shapes := []geoCase{
		{Shape: "wide", Obj: 612, Site: 2000, Value: "12"},
		{Shape: "wide", Obj: 5242000, Site: 20000, Value: "10000000", light: true},
		{Shape: "contents-repeat", Obj: 100, Site: 1000},
		{Shape: "contents-repeat", Obj: 1 << 20, Site: 5000, light: true},
	}
	if c.Thorough() {
		shapes = append(shapes, geoCase{Shape: "wide", Obj: 5242000, Site: 20000, Value: "10000000"}, geoCase{Shape: "wide", Obj: 5242000, Site: 20000, Value: "0.001"},
			geoCase{Shape: "wide", Obj: 612, Site: 20000, Value: "10000000"}, geoCase{Shape: "contents-repeat", Obj: 1 << 20, Site: 5000})
	}
	for _, w := range shapes {
		w.Format = "pdf-geometry"
		runGeo(c, w)
	}
}
