package c02

import (
	"fmt"
	"strings"

	"verifharness/hx"
	"verifharness/writers"
)

// Declared table columns out of proportion to the table: ODF lets a table announce its
// columns with <table:table-column table:number-columns-repeated="n"/> (each n is bounded
// by the reader, their number is not), and the document model sized its grid by the
// declared columns x the rows. k column elements of 1024 columns each over r rows of one
// cell are a file of about 60*k + 90*r bytes and a grid of 1024*k*r cells.
func odtColumnsDoc(k, r, repeat int) []byte {
	var b strings.Builder
	b.WriteString(`<?xml version="1.0" encoding="UTF-8"?><office:document-content xmlns:office="urn:oasis:names:tc:opendocument:xmlns:office:1.0" xmlns:text="urn:oasis:names:tc:opendocument:xmlns:text:1.0" xmlns:table="urn:oasis:names:tc:opendocument:xmlns:table:1.0" office:version="1.2"><office:body><office:text><text:p>before</text:p><table:table table:name="T">`)
	for i := 0; i < k; i++ {
		fmt.Fprintf(&b, `<table:table-column table:number-columns-repeated="%d"/>`, repeat)
	}
	for i := 0; i < r; i++ {
		fmt.Fprintf(&b, `<table:table-row><table:table-cell><text:p>c%d</text:p></table:table-cell></table:table-row>`, i)
	}
	b.WriteString(`</table:table><text:p>after</text:p></office:text></office:body></office:document-content>`)
	return writers.Zip([]writers.Member{
		{Name: "mimetype", Data: []byte("application/vnd.oasis.opendocument.text"), Store: true},
		{Name: "content.xml", Data: []byte(b.String())},
		{Name: "META-INF/manifest.xml", Data: []byte(`<?xml version="1.0"?><manifest:manifest xmlns:manifest="urn:oasis:names:tc:opendocument:xmlns:manifest:1.0"><manifest:file-entry manifest:full-path="/" manifest:media-type="application/vnd.oasis.opendocument.text"/><manifest:file-entry manifest:full-path="content.xml" manifest:media-type="text/xml"/></manifest:manifest>`)},
	})
}

func odtColumnFaults(c *hx.Ctx) {
	shapes := [][3]int{{1, 4, 3}, {128, 128, 1024}, {300, 300, 1024}, {2000, 600, 1024}, {4, 2000, 1024}, {1000, 1, 1024}}
	for _, s := range shapes {
		data := odtColumnsDoc(s[0], s[1], s[2])
		runBytes(c, kase{Format: "ODT", Faults: []fault{{Kind: "odt-columns", Ordinal: s[0], Site: s[1], Value: fmt.Sprint(s[2])}}}, ".odt", data, "z")
		c.Count("ODT-declared-columns")
	}
}
