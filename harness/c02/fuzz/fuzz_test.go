// Package fuzz holds Go native fuzz targets (coverage-guided byte mutation, the last
// item of C02's quantifier) for the parsers that read hostile bytes. They are not part
// of ./check; run one with
//
//	cd harness && go test -tags verif ./c02/fuzz/ -run '^$' -fuzz '^FuzzCMap$' -fuzztime 3m -parallel 4
//
// Every call into tabula runs under a deadline, so a hang is a failure with the input
// recorded under testdata/fuzz/<target>/. Seeds come from the harness writers.
package fuzz

import (
	"archive/zip"
	"bytes"
	"fmt"
	"os"
	"path/filepath"
	"runtime"
	"strings"
	"testing"
	"time"

	"github.com/tsawler/tabula"
	"github.com/tsawler/tabula/contentstream"
	"github.com/tsawler/tabula/core"
	"github.com/tsawler/tabula/font"

	"verifharness/c15"
	"verifharness/c20"
	"verifharness/hx"
	"verifharness/writers"
)

const deadline = 8 * time.Second
const heapLimit = 2 << 30

// guard runs f under the deadline and a heap limit; a panic inside f is re-raised on
// the test goroutine so the fuzzer records the input.
func guard(t *testing.T, what string, f func()) {
	t.Helper()
	done := make(chan interface{}, 1)
	go func() {
		defer func() { done <- recover() }()
		f()
	}()
	tick := time.NewTicker(50 * time.Millisecond)
	defer tick.Stop()
	end := time.After(deadline)
	for {
		select {
		case p := <-done:
			if p != nil {
				t.Fatalf("%s: panic: %v", what, p)
			}
			return
		case <-tick.C:
			var ms runtime.MemStats
			runtime.ReadMemStats(&ms)
			if ms.HeapInuse > heapLimit {
				t.Fatalf("%s: heap grew to %d MiB", what, ms.HeapInuse>>20)
			}
		case <-end:
			t.Fatalf("%s: no return within %v", what, deadline)
		}
	}
}

func seedPDFs() [][]byte {
	var out [][]byte
	for s := uint64(1); s <= 12; s++ {
		r := hx.NewRng(s)
		var d writers.LDoc
		for p := r.Range(1, 2); p > 0; p-- {
			d.Pages = append(d.Pages, writers.LPage{Lines: []writers.LLine{{Font: r.Intn(2), Text: "alpha beta"}, {Font: r.Intn(2), Text: "γδ 日本"}}})
		}
		lay := writers.Layout{EOL: "\n", XrefStream: s%2 == 0, ObjStm: s%3 == 0, LengthMode: int(s % 3), Split: 1, SplitWS: true, Depth: int(s % 3), Revisions: int(s % 2), Filters: int(s % 4), Seed: s}
		out = append(out, writers.RenderPDF(d, lay).Data)
	}
	return out
}

func FuzzCoreParser(f *testing.F) {
	for _, s := range []string{"<< /A 1 /B [1 2 (x) <41>] >>", "1 0 obj << /Length 3 >> stream\nabc\nendstream endobj", "[ 1 ) ]", "<< /A << /B << >> >> >>", "(a\\(b\\051) /N#41 true null 1.5e3 -.5 1 0 R"} {
		f.Add([]byte(s))
	}
	f.Fuzz(func(t *testing.T, data []byte) {
		guard(t, "core parser", func() {
			p := core.NewParser(bytes.NewReader(data))
			for i := 0; i < 50; i++ {
				if _, err := p.ParseObject(); err != nil {
					break
				}
			}
			core.NewParser(bytes.NewReader(data)).ParseIndirectObject()
		})
	})
}

func FuzzContentStream(f *testing.F) {
	for _, s := range []string{"BT /F1 12 Tf 10 700 Td (hello) Tj [(a) -120 (b)] TJ ET", "q 1 0 0 1 0 0 cm /Fm0 Do Q", "BI /W 2 /H 2 /BPC 8 /CS /G ID \x00\x01\x02\x03 EI", "/P << /MCID 0 >> BDC EMC", "(a) ' 1 2 (b) \""} {
		f.Add([]byte(s))
	}
	f.Fuzz(func(t *testing.T, data []byte) {
		guard(t, "contentstream", func() { contentstream.NewParser(data).Parse() })
	})
}

func FuzzCMap(f *testing.F) {
	f.Add([]byte("/CIDInit /ProcSet findresource begin\n12 dict begin\nbegincmap\n1 begincodespacerange\n<0000> <FFFF>\nendcodespacerange\n2 beginbfchar\n<0041> <0041>\n<0042> <D835DC00>\nendbfchar\n2 beginbfrange\n<0000> <005E> <0020>\n<005F> <0061> [<00660066> <00660069> <00660066006C>]\nendbfrange\nendcmap\n"), []byte{0, 0x41, 0, 0x5f})
	f.Add([]byte("1 begincodespacerange <00> <FF> endcodespacerange 1 beginbfrange <00> <FF> <0000> endbfrange 1 begincidrange <0000> <FFFF> 0 endcidrange /Identity-H usecmap"), []byte("AB"))
	f.Fuzz(func(t *testing.T, data, text []byte) {
		guard(t, "cmap", func() {
			cm, err := font.ParseToUnicodeCMap(&core.Stream{Dict: core.Dict{}, Data: data})
			if err == nil && cm != nil {
				cm.LookupString(text)
				cm.Lookup(0xFFFFFFFF)
			}
		})
	})
}

// FuzzStreamDecode: the first byte picks the filter chain and the decode parameters,
// the rest is the stream data.
func FuzzStreamDecode(f *testing.F) {
	names := []string{"FlateDecode", "LZWDecode", "ASCII85Decode", "ASCIIHexDecode", "RunLengthDecode", "CCITTFaxDecode", "DCTDecode", "JBIG2Decode", "JPXDecode", "Crypt"}
	f.Add(byte(0), int64(1), int64(1), int64(1), int64(8), writers.Deflate([]byte("hello hello hello")))
	f.Add(byte(0), int64(12), int64(4), int64(1), int64(8), writers.Deflate([]byte{2, 1, 2, 3, 4, 2, 1, 1, 1, 1}))
	f.Add(byte(1), int64(2), int64(3), int64(3), int64(8), []byte{0x80, 0x0b, 0x60, 0x50, 0x22, 0x0c, 0x0c, 0x85, 0x01})
	f.Add(byte(2), int64(0), int64(0), int64(0), int64(0), []byte("87cURD]i,\"Ebo80~>"))
	f.Add(byte(3), int64(0), int64(0), int64(0), int64(0), []byte("48656C6C6F>"))
	f.Add(byte(4), int64(0), int64(0), int64(0), int64(0), []byte{2, 'a', 'b', 'c', 254, 'x', 128})
	f.Add(byte(5), int64(-1), int64(8), int64(2), int64(0), []byte{0x00, 0x10, 0x01, 0xff})
	f.Add(byte(25), int64(0), int64(16), int64(0), int64(1), []byte{0x26, 0xa0, 0x00, 0x10, 0x01})
	f.Fuzz(func(t *testing.T, sel byte, a, b, c, d int64, data []byte) {
		n := names[int(sel)%len(names)]
		parms := core.Dict{}
		switch n {
		case "FlateDecode", "LZWDecode":
			parms["Predictor"], parms["Columns"], parms["Colors"], parms["BitsPerComponent"] = core.Int(a), core.Int(b), core.Int(c), core.Int(d)
			if n == "LZWDecode" {
				parms["EarlyChange"] = core.Int(a % 2)
			}
		case "CCITTFaxDecode":
			parms["K"], parms["Columns"], parms["Rows"] = core.Int(a), core.Int(b), core.Int(c)
			parms["BlackIs1"], parms["EncodedByteAlign"] = core.Bool(d&1 == 1), core.Bool(d&2 == 2)
		}
		dict := core.Dict{"Filter": core.Name(n), "DecodeParms": parms}
		if sel >= 20 { // a chain of two filters
			dict = core.Dict{"Filter": core.Array{core.Name(names[int(sel/20)%len(names)]), core.Name(n)}, "DecodeParms": core.Array{core.Dict{}, parms}}
		}
		guard(t, "Stream.Decode "+n, func() { (&core.Stream{Dict: dict, Data: data}).Decode() })
	})
}

// FuzzObjStm: /N, /First and the decoded data of an object stream.
func FuzzObjStm(f *testing.F) {
	f.Add(int64(2), int64(8), []byte("1 0 2 3 << >> [1 2]"))
	f.Add(int64(1), int64(4), []byte("5 0 (x)"))
	f.Fuzz(func(t *testing.T, n, first int64, data []byte) {
		guard(t, "objstm", func() {
			os, err := core.NewObjectStream(&core.Stream{Dict: core.Dict{"Type": core.Name("ObjStm"), "N": core.Int(n), "First": core.Int(first)}, Data: data})
			if err != nil || os == nil {
				return
			}
			os.ObjectNumbers()
			for i := 0; i < 4; i++ {
				os.GetObjectByIndex(i)
			}
			os.GetObjectByNumber(1)
			os.ContainsObject(2)
		})
	})
}

var tmpDir = func() string {
	d, err := os.MkdirTemp("/var/tmp", "c02fuzz")
	if err != nil {
		panic(err)
	}
	return d
}()

func openAll(t *testing.T, what, ext string, data []byte) {
	path := filepath.Join(tmpDir, fmt.Sprintf("in-%d%s", os.Getpid(), ext))
	if err := os.WriteFile(path, data, 0o644); err != nil {
		t.Skip()
	}
	guard(t, what+" Text", func() { tabula.Open(path).Text() })
	guard(t, what+" ToMarkdown", func() { tabula.Open(path).ToMarkdown() })
	guard(t, what+" Document+Chunks", func() {
		tabula.Open(path).Document()
		tabula.Open(path).Chunks()
	})
	if ext == ".pdf" {
		guard(t, what+" Analyze", func() {
			e := tabula.Open(path)
			e.PageCount()
			e.Fragments()
			e.Analyze()
		})
	}
}

// FuzzPDFFile: whole files (classic tables, cross-reference streams, object streams,
// filters, incremental updates) opened from disk.
func FuzzPDFFile(f *testing.F) {
	for _, s := range seedPDFs() {
		f.Add(s)
	}
	f.Fuzz(func(t *testing.T, data []byte) { openAll(t, "pdf", ".pdf", data) })
}

// FuzzXRefStream: a file that is a header plus one cross-reference stream; the fuzzer
// owns the dictionary text and the (unfiltered) stream data.
func FuzzXRefStream(f *testing.F) {
	f.Add("/Type /XRef /Size 3 /W [1 2 1] /Index [0 3] /Root 1 0 R", []byte{0, 0, 0, 255, 1, 0, 9, 0, 1, 0, 60, 0}, int64(12))
	f.Add("/Type /XRef /Size 2 /W [1 1 1] /Root 1 0 R /Prev 9 /Filter /ASCIIHexDecode", []byte("010900 010a00>"), int64(14))
	f.Fuzz(func(t *testing.T, dict string, data []byte, length int64) {
		var b bytes.Buffer
		b.WriteString("%PDF-1.7\n")
		off := b.Len()
		fmt.Fprintf(&b, "1 0 obj\n<< %s /Length %d >>\nstream\n", dict, length)
		b.Write(data)
		fmt.Fprintf(&b, "\nendstream\nendobj\nstartxref\n%d\n%%%%EOF\n", off)
		openAll(t, "xref stream", ".pdf", b.Bytes())
	})
}

// zipWith replaces member `name` of a valid archive by data.
func zipWith(base []writers.Member, name string, data []byte) []byte {
	ms := append([]writers.Member(nil), base...)
	for i := range ms {
		if ms[i].Name == name {
			ms[i] = writers.Member{Name: name, Data: data, Store: ms[i].Store}
		}
	}
	return writers.Zip(ms)
}

func unzip(data []byte) []writers.Member {
	zr, err := zip.NewReader(bytes.NewReader(data), int64(len(data)))
	if err != nil {
		return nil
	}
	var ms []writers.Member
	for _, f := range zr.File {
		rc, err := f.Open()
		if err != nil {
			continue
		}
		var b bytes.Buffer
		b.ReadFrom(rc)
		rc.Close()
		ms = append(ms, writers.Member{Name: f.Name, Data: b.Bytes(), Store: f.Method == zip.Store})
	}
	return ms
}

// fuzzMember: the fuzzer owns one XML member of a valid archive of the format; seeds are
// that member in several generated documents.
func fuzzMember(f *testing.F, format, ext string, pick func(name string) bool) {
	gen := func(s uint64) []writers.Member {
		r := hx.NewRng(s)
		if format == "EPUB" {
			return unzip(c20.GenDocument(r, c20.FEPUB, "tok"))
		}
		return unzip(c15.GenRich(r, strings.ToLower(format)))
	}
	base := gen(1)
	var names []string
	for _, m := range base {
		if pick(m.Name) {
			names = append(names, m.Name)
		}
	}
	if len(names) == 0 {
		f.Skip("no such member")
	}
	for s := uint64(1); s <= 6; s++ {
		for _, m := range gen(s) {
			for i, n := range names {
				if m.Name == n {
					f.Add(byte(i), m.Data)
				}
			}
		}
	}
	f.Fuzz(func(t *testing.T, which byte, data []byte) {
		name := names[int(which)%len(names)]
		openAll(t, format+" "+name, ext, zipWith(base, name, data))
	})
}

func isXML(n string) bool {
	return strings.HasSuffix(n, ".xml") || strings.HasSuffix(n, ".rels") || strings.HasSuffix(n, ".opf") || strings.HasSuffix(n, ".ncx") || strings.HasSuffix(n, ".xhtml")
}

func FuzzDOCXMember(f *testing.F) { fuzzMember(f, "DOCX", ".docx", isXML) }
func FuzzODTMember(f *testing.F)  { fuzzMember(f, "ODT", ".odt", isXML) }
func FuzzPPTXMember(f *testing.F) { fuzzMember(f, "PPTX", ".pptx", isXML) }
func FuzzXLSXMember(f *testing.F) { fuzzMember(f, "XLSX", ".xlsx", isXML) }
func FuzzEPUBMember(f *testing.F) { fuzzMember(f, "EPUB", ".epub", isXML) }

func FuzzHTML(f *testing.F) {
	for s := uint64(1); s <= 6; s++ {
		f.Add(c15.GenRich(hx.NewRng(s), "html"))
	}
	f.Add([]byte(`<table><tr><td colspan="3" rowspan="2">a</td></tr></table><ol start="5"><li value="9">x<ul><li>y</li></ul></li></ol><pre>a	b</pre>`))
	f.Fuzz(func(t *testing.T, data []byte) {
		guard(t, "html", func() {
			e := tabula.FromHTMLString(string(data))
			e.Text()
			e.ToMarkdown()
			e.Document()
			e.Chunks()
		})
	})
}

// sfnt builds a TrueType font program from tables (tag -> data), directory first.
func sfnt(tables [][2]string) []byte {
	var b bytes.Buffer
	be16 := func(v int) { b.Write([]byte{byte(v >> 8), byte(v)}) }
	be32 := func(v int) { b.Write([]byte{byte(v >> 24), byte(v >> 16), byte(v >> 8), byte(v)}) }
	be32(0x00010000)
	be16(len(tables))
	be16(0)
	be16(0)
	be16(0)
	off := 12 + 16*len(tables)
	for _, t := range tables {
		b.WriteString(t[0])
		be32(0)
		be32(off)
		be32(len(t[1]))
		off += len(t[1])
	}
	for _, t := range tables {
		b.WriteString(t[1])
	}
	return b.Bytes()
}

func seedFont() []byte {
	head := make([]byte, 54)
	head[18], head[19] = 0x03, 0xe8
	hhea := make([]byte, 36)
	hhea[35] = 2
	hmtx := []byte{2, 0, 0, 0, 2, 88, 0, 0}
	cmap := []byte{0, 0, 0, 1, 0, 3, 0, 1, 0, 0, 0, 12,
		0, 4, 0, 32, 0, 0, 0, 4, 0, 4, 0, 1, 0, 0, // format 4, segCountX2 4
		0, 0x5a, 0xff, 0xff, 0, 0, 0, 0x41, 0xff, 0xff, 0, 0, 0, 1, 0, 0, 0, 0}
	return sfnt([][2]string{{"cmap", string(cmap)}, {"head", string(head)}, {"hhea", string(hhea)}, {"hmtx", string(hmtx)}})
}

// FuzzTrueType: the fuzzer owns the embedded font program and the numbers of the font
// dictionary of a TrueType font.
func FuzzTrueType(f *testing.F) {
	f.Add(seedFont(), int64(32), int64(34), int64(500))
	f.Fuzz(func(t *testing.T, program []byte, first, last, w int64) {
		guard(t, "truetype", func() {
			desc := core.Dict{"Type": core.Name("FontDescriptor"), "FontName": core.Name("ABCDEF+Fuzz"), "Flags": core.Int(32),
				"FontFile2": &core.Stream{Dict: core.Dict{"Length1": core.Int(int64(len(program)))}, Data: program}, "MissingWidth": core.Int(w)}
			dict := core.Dict{"Type": core.Name("Font"), "Subtype": core.Name("TrueType"), "BaseFont": core.Name("ABCDEF+Fuzz"),
				"FirstChar": core.Int(first), "LastChar": core.Int(last), "Widths": core.Array{core.Int(w), core.Int(w), core.Int(w)}, "FontDescriptor": desc}
			tt, err := font.NewTrueTypeFont(dict, func(core.IndirectRef) (core.Object, error) { return nil, fmt.Errorf("none") })
			if err == nil && tt != nil {
				tt.GetGlyphID('A')
				tt.GetWidthFromGlyph(1)
			}
		})
	})
}
