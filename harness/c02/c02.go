// Package c02 is the correspondence/oracle harness for property C02.
package c02

import "verifharness/hx"

func init() { hx.Register("C02", Run, Replay) }

// Run is not built yet for this property.
func Run(c *hx.Ctx) { c.Note("C02: harness not built") }

func Replay(c *hx.Ctx, kase map[string]interface{}) {}
