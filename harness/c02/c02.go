// Package c02: no input can crash, hang or exhaust the process.
//
// Valid documents from the harness writers are damaged by a fixed catalogue of
// structural faults (and by byte mutation); every public entry point must then
// return a value or an error within a deadline and a memory limit, without
// panicking.
package c02

import (
	"bytes"
	"fmt"
	"os"
	"path/filepath"
	"regexp"
	"strings"
	"time"

	"github.com/tsawler/tabula"
	"github.com/tsawler/tabula/contentstream"
	"github.com/tsawler/tabula/core"
	"github.com/tsawler/tabula/font"

	"verifharness/hx"
	"verifharness/writers"
)

func init() { hx.Register("C02", Run, Replay) }

// fault is one entry of the catalogue applied to one site of one document.
type fault struct {
	Kind    string `json:"kind"`    // number | ref | delim | drop | dup | data-flip | data-trunc | length | xref-entry | xref-w | xref-prev | xref-prev-graph | xref-size | truncate | byte
	Ordinal int    `json:"ordinal"` // object / xref-section ordinal in writing order
	Site    int    `json:"site"`    // index of the token inside the object text
	Value   string `json:"value"`   // replacement
}

type kase struct {
	Format string         `json:"format"`
	Doc    int            `json:"doc"`    // document index in the seed's stream
	Seed   uint64         `json:"seed"`   // generator seed of the document
	Faults []fault        `json:"faults"` // applied in order (single or double)
	Layout writers.Layout `json:"layout"`
}

var numRe = regexp.MustCompile(`(^|[\s\[\(<>/])(\d+)(?:\b)`)
var refRe = regexp.MustCompile(`\b(\d+) 0 R\b`)
var delims = []string{"<<", ">>", "[", "]", "(", ")"}
var arrRe = regexp.MustCompile(`\[[^\[\]]*\]`)

var numValues = []string{"0", "-1", "2147483648", "9223372036854775807"}

// sites counts the fault sites of each kind in a piece of object text.
func numSites(s string) [][]int { return numRe.FindAllStringSubmatchIndex(s, -1) }

func applyText(s string, f fault) string {
	switch f.Kind {
	case "number":
		m := numSites(s)
		if f.Site < len(m) {
			return s[:m[f.Site][4]] + f.Value + s[m[f.Site][5]:]
		}
	case "ref":
		m := refRe.FindAllStringSubmatchIndex(s, -1)
		if f.Site < len(m) {
			return s[:m[f.Site][2]] + f.Value + s[m[f.Site][3]:]
		}
	case "delim":
		// f.Value = delimiter to remove; Site = n-th occurrence
		idx, from := -1, 0
		for k := 0; k <= f.Site; k++ {
			j := strings.Index(s[from:], f.Value)
			if j < 0 {
				return s
			}
			idx = from + j
			from = idx + len(f.Value)
		}
		return s[:idx] + s[idx+len(f.Value):]
	case "array-to-ref":
		// the Site-th bracketed array of the object becomes an indirect reference
		m := arrRe.FindAllStringIndex(s, -1)
		if f.Site < len(m) {
			return s[:m[f.Site][0]] + f.Value + s[m[f.Site][1]:]
		}
	case "delim-add":
		m := numSites(s)
		if f.Site < len(m) {
			return s[:m[f.Site][4]] + f.Value + s[m[f.Site][4]:]
		}
		return f.Value + s
	}
	return s
}

// survey renders the document once and records, per object ordinal, how many
// sites of each kind it offers.
type siteInfo struct {
	ordinal              int
	stream               bool
	nums, refs, arrays   int
	delimCount           map[string]int
	dataLen              int
	num                  int
}

// nstm / stmMembers: object streams of the last rendering and their largest member count
var nstm, stmMembers int

// xrefDictNums / stmDictNums: numeric sites in the dictionary of each cross-reference
// stream / object stream of the last rendering (by ordinal; 0 for a classic table)
var xrefDictNums, stmDictNums map[int]int

// applyDict applies the dictionary-text faults of one kind family ("xref-" or "objstm-")
// aimed at ordinal ord: <family>number (Site-th number -> Value), <family>delim (Site-th
// occurrence of Value removed), <family>filter (re-announced filter, as kind "filter").
func applyDict(dict, family string, ord int, faults []fault) string {
	for _, f := range faults {
		if f.Ordinal != ord || !strings.HasPrefix(f.Kind, family) {
			continue
		}
		switch strings.TrimPrefix(f.Kind, family) {
		case "number":
			dict = applyText(dict, fault{Kind: "number", Site: f.Site, Value: f.Value})
		case "delim":
			dict = applyText(dict, fault{Kind: "delim", Site: f.Site, Value: f.Value})
		case "filter":
			d := strings.ReplaceAll(dict, "/Filter", "/XFilter")
			d = strings.ReplaceAll(d, "/DecodeParms", "/XDecodeParms")
			dict = f.Value + " " + d
		}
	}
	return dict
}

func render(doc writers.LDoc, lay writers.Layout, faults []fault) ([]byte, []siteInfo, int) {
	var info []siteInfo
	nstm, stmMembers = 0, 0
	xrefDictNums, stmDictNums = map[int]int{}, map[int]int{}
	lay.ObjHook = func(o *writers.RawObj) {
		text := o.Body
		if o.Stream {
			text = o.Dict
		}
		si := siteInfo{ordinal: o.Ordinal, stream: o.Stream, nums: len(numSites(text)), refs: len(refRe.FindAllString(text, -1)), arrays: len(arrRe.FindAllString(text, -1)), delimCount: map[string]int{}, dataLen: len(o.Data), num: o.Num}
		for _, d := range delims {
			si.delimCount[d] = strings.Count(text, d)
		}
		info = append(info, si)
		for _, f := range faults {
			if f.Ordinal != o.Ordinal {
				continue
			}
			switch f.Kind {
			case "number", "ref", "delim", "delim-add", "array-to-ref":
				if o.Stream {
					o.Dict = applyText(o.Dict, f)
				} else {
					o.Body = applyText(o.Body, f)
				}
			case "drop":
				o.Drop = true
			case "dup":
				o.Twice = true
			case "data-flip":
				if o.Stream && len(o.Data) > 0 {
					d := append([]byte(nil), o.Data...)
					for k := 0; k < 3; k++ {
						d[(f.Site*7919+k*104729)%len(d)] ^= byte(1 << uint((f.Site+k)%8))
					}
					o.Data = d
				}
			case "data-trunc":
				if o.Stream && len(o.Data) > 0 {
					o.Data = o.Data[:f.Site%len(o.Data)]
				}
			case "length":
				if o.Stream {
					o.LengthOverride = f.Value
				}
			case "nest":
				// the object (or the stream's data, left unfiltered) becomes a run of
				// opening delimiters: Value = "<open>|<close>|<count>|<balanced 0/1>"
				parts := strings.Split(f.Value, "|")
				if len(parts) == 4 {
					n := 0
					fmt.Sscan(parts[2], &n)
					text := strings.Repeat(parts[0], n)
					if parts[3] == "1" {
						text += strings.Repeat(parts[1], n)
					}
					if o.Stream {
						o.Dict = strings.ReplaceAll(o.Dict, "/Filter", "/XFilter")
						o.Data = []byte(text)
					} else {
						o.Body = text
					}
				}
			case "filter-fill":
				// as "filter", and the data becomes a run of one byte value:
				// Value = "<byte, hex>|<length>|<filter text>"
				parts := strings.SplitN(f.Value, "|", 3)
				if o.Stream && len(parts) == 3 {
					var bv, n int
					fmt.Sscanf(parts[0], "%x", &bv)
					fmt.Sscan(parts[1], &n)
					d := strings.ReplaceAll(o.Dict, "/Filter", "/XFilter")
					d = strings.ReplaceAll(d, "/DecodeParms", "/XDecodeParms")
					o.Dict = parts[2] + " " + d
					o.Data = bytes.Repeat([]byte{byte(bv)}, n)
					o.LengthOverride = fmt.Sprint(n) // direct and true, whatever the layout's length mode
				}
			case "filter":
				// the stream announces another filter (and decode parameters): Value is
				// the new "/Filter ... /DecodeParms ..." text; the old keys are renamed
				if o.Stream {
					d := strings.ReplaceAll(o.Dict, "/Filter", "/XFilter")
					d = strings.ReplaceAll(d, "/DecodeParms", "/XDecodeParms")
					o.Dict = f.Value + " " + d // Dict is the inside of the dictionary
				}
			}
		}
	}
	lay.ObjStmHook = func(st *writers.RawObjStm) {
		nstm++
		if len(st.Nums) > stmMembers {
			stmMembers = len(st.Nums)
		}
		stOrd := st.Ordinal
		st.DictRewrite = func(dict string) string {
			stmDictNums[stOrd] = len(numSites(dict))
			return applyDict(dict, "objstm-", stOrd, faults)
		}
		for _, f := range faults {
			if f.Kind == "objstm-length" && f.Ordinal == st.Ordinal {
				st.LengthText = f.Value
			}
			if f.Kind != "objstm" || f.Ordinal != st.Ordinal {
				continue
			}
			// Value = "<field>=<text>": n, first, num (Site-th pair), off (Site-th pair),
			// swap (offsets of pairs Site and Site+1 exchanged)
			parts := strings.SplitN(f.Value, "=", 2)
			if len(parts) != 2 {
				continue
			}
			switch parts[0] {
			case "n":
				st.NText = parts[1]
			case "first":
				st.FirstText = parts[1]
			case "num":
				if f.Site < len(st.Nums) {
					st.Nums[f.Site] = parts[1]
				}
			case "off":
				if f.Site < len(st.Offsets) {
					st.Offsets[f.Site] = parts[1]
				}
			case "swap":
				if f.Site+1 < len(st.Offsets) {
					st.Offsets[f.Site], st.Offsets[f.Site+1] = st.Offsets[f.Site+1], st.Offsets[f.Site]
				}
			}
		}
	}
	nx := 0
	var secPrev []int64 // the /Prev the writer chose for each section: the offset of the one before
	prevGraph := false
	lay.XrefHook = func(x *writers.RawXref) {
		nx++
		secPrev = append(secPrev, x.Prev)
		xOrd := x.Ordinal
		x.DictRewrite = func(dict string) string { // called for cross-reference streams only
			xrefDictNums[xOrd] = len(numSites(dict))
			return applyDict(dict, "xref-", xOrd, faults)
		}
		for _, f := range faults {
			if f.Ordinal != x.Ordinal {
				continue
			}
			switch f.Kind {
			case "xref-length":
				x.LengthOverride = f.Value
			case "xref-entry":
				// retarget the Site-th entry: offset := Value
				i := 0
				for _, n := range sortedKeys(x.Entries) {
					if n == 0 {
						continue
					}
					if i == f.Site {
						e := x.Entries[n]
						var v int64
						fmt.Sscan(f.Value, &v)
						e.F1 = v
						x.Entries[n] = e
					}
					i++
				}
			case "xref-w":
				fmt.Sscanf(f.Value, "%d,%d,%d", &x.W[0], &x.W[1], &x.W[2])
			case "xref-prev":
				var v int64
				fmt.Sscan(f.Value, &v)
				x.Prev = v
			case "xref-prev-graph":
				// aimed at another section of this file in a chosen spelling: a placeholder
				// of fixed width now, the number when the offsets are known (respellPrev)
				x.Prev = prevPlaceholder + int64(x.Ordinal)
				prevGraph = true
			case "xref-size":
				fmt.Sscan(f.Value, &x.Size)
			case "xref-trailer":
				x.Trailer = f.Value
			}
		}
	}
	data := writers.RenderPDF(doc, lay).Data
	if prevGraph {
		data = respellPrev(append([]byte(nil), data...), secPrev, faults)
	}
	for _, f := range faults {
		switch f.Kind {
		case "truncate":
			if f.Site < len(data) {
				data = data[:f.Site]
			}
		case "byte":
			if len(data) > 0 {
				data = append([]byte(nil), data...)
				var v int
				fmt.Sscan(f.Value, &v)
				data[f.Site%len(data)] = byte(v)
			}
		case "replace-text":
			// Value = "old=>new", Site = n-th occurrence
			parts := strings.SplitN(f.Value, "=>", 2)
			if len(parts) == 2 {
				data = replaceNth(data, []byte(parts[0]), []byte(parts[1]), f.Site)
			}
		}
	}
	return data, info, nx
}

func replaceNth(data, old, new []byte, n int) []byte {
	from := 0
	for k := 0; ; k++ {
		j := bytes.Index(data[from:], old)
		if j < 0 {
			return data
		}
		if k == n {
			out := append([]byte(nil), data[:from+j]...)
			out = append(out, new...)
			return append(out, data[from+j+len(old):]...)
		}
		from += j + len(old)
	}
}

func sortedKeys(m map[int]writers.XEntry) []int {
	ks := make([]int, 0, len(m))
	for k := range m {
		ks = append(ks, k)
	}
	for i := 1; i < len(ks); i++ {
		for j := i; j > 0 && ks[j] < ks[j-1]; j-- {
			ks[j], ks[j-1] = ks[j-1], ks[j]
		}
	}
	return ks
}

// exerciseOnly, when non-nil, restricts exercise to the named calls (used by the cases
// whose inputs are megabytes of nesting, see exerciseLight).
var exerciseOnly map[string]bool

// entry points exercised on every damaged file
func exercise(c *hx.Ctx, k kase, path string, data []byte) {
	c.Current(k)
	calls := []struct {
		name string
		f    func()
	}{
		{"Text", func() { tabula.Open(path).Text() }},
		{"PageCount+Fragments", func() {
			e := tabula.Open(path)
			e.PageCount()
			e.Fragments()
		}},
		{"ToMarkdown", func() { tabula.Open(path).ToMarkdown() }},
		{"Document+Chunks", func() {
			tabula.Open(path).Document()
			tabula.Open(path).Chunks()
		}},
		{"Analyze", func() { tabula.Open(path).Analyze() }},
	}
	for _, call := range calls {
		if exerciseOnly != nil && !exerciseOnly[call.name] {
			continue
		}
		c.Guard("C02/"+k.Format+"-"+call.name, k, 10, call.f)
		c.Rep.OracleChecks++
	}
}

func genLayout(r *hx.Rng) writers.Layout {
	return writers.Layout{
		EOL: "\n", XrefStream: r.Bool(), ObjStm: r.Chance(1, 3), LengthMode: r.Intn(3), Split: r.Range(1, 2), SplitWS: true,
		Depth: r.Intn(3), Revisions: r.Intn(2), Filters: r.Intn(4), Seed: r.U64(),
	}
}

func genDoc(r *hx.Rng) writers.LDoc {
	var d writers.LDoc
	for p := r.Range(1, 3); p > 0; p-- {
		var pg writers.LPage
		for l := r.Range(1, 3); l > 0; l-- {
			pg.Lines = append(pg.Lines, writers.LLine{Font: r.Intn(2), Text: hx.Pick(r, []string{"alpha beta", "γδ 日本", "x(y)z", "end"})})
		}
		d.Pages = append(d.Pages, pg)
	}
	return d
}

func docFor(seed uint64) (writers.LDoc, writers.Layout) {
	r := hx.NewRng(seed)
	return genDoc(r), genLayout(r)
}

var pdfRuns int

func runPDF(c *hx.Ctx, k kase, tag string) {
	doc, _ := docFor(k.Seed)
	data, _, _ := render(doc, k.Layout, k.Faults)
	path := filepath.Join(c.OutDir, "c02-"+tag+".pdf")
	os.WriteFile(path, data, 0o644)
	defer os.Remove(path)
	exercise(c, k, path, data)
	if pdfRuns++; pdfRuns%8 == 0 && exerciseOnly == nil {
		deepCalls(c, k, path) // every eighth damaged file also goes through the graph-walking entry points
	}
	kinds := ""
	for _, f := range k.Faults {
		kinds += f.Kind + "+"
		c.Count("pdf-" + f.Kind)
	}
	c.Case(fmt.Sprint(k.Seed, k.Faults), true)
}

// filterValues: every filter name of the PDF specification (and its abbreviation), alone
// and in chains, with decode parameters at the edges of their ranges. The stream's data
// stays what it was, so it is garbage for the announced filter.
func filterValues() []string {
	names := []string{"/CCITTFaxDecode", "/CCF", "/LZWDecode", "/LZW", "/RunLengthDecode", "/RL", "/DCTDecode", "/JPXDecode", "/JBIG2Decode",
		"/Crypt", "/ASCIIHexDecode", "/AHx", "/ASCII85Decode", "/A85", "/FlateDecode", "/Fl", "/Nope",
		"[/AHx /CCF]", "[/CCF /CCF]", "[/Fl /CCF]", "[/CCF /Fl]"}
	parms := []string{"", "<< /Columns 0 >>", "<< /K -1 /Columns 0 >>", "<< /K 1 /Columns 0 /Rows 2147483648 >>", "<< /Columns -1 >>",
		"<< /K -1 /Columns 1 /Rows -1 >>", "<< /Columns 9223372036854775807 /Rows 9223372036854775807 >>", "<< /K -1 /Columns 1048576 /Rows 0 >>",
		"<< /K 0 /Columns 8 /Rows 9223372036854775807 /BlackIs1 true >>", "<< /Predictor 12 /Columns 0 >>", "<< /Predictor 2 /Colors 0 /BitsPerComponent 0 >>",
		"<< /EarlyChange 0 >>"}
	var out []string
	for _, n := range names {
		for _, p := range parms {
			v := "/Filter " + n
			if p != "" {
				if strings.HasPrefix(n, "[") {
					v += " /DecodeParms [" + p + " " + p + "]"
				} else {
					v += " /DecodeParms " + p
				}
			}
			out = append(out, v)
		}
	}
	return out
}

// nestValues: runs of opening delimiters, unbalanced (the parser must give up without
// building an error message per level) and balanced (it must not recurse per level
// without bound): 20 thousand and 6 million levels.
func nestValues(tier string) []string {
	var out []string
	counts := []int{20000, 6000000}
	for _, sh := range [][2]string{{"[", "]"}, {"<</A ", ">>"}, {"[<</A ", ">>]"}} {
		for _, n := range counts {
			for _, bal := range []string{"0", "1"} {
				out = append(out, fmt.Sprintf("%s|%s|%d|%s", sh[0], sh[1], n, bal))
			}
		}
	}
	return out
}

// nestFaults: every object and every stream of one document, replaced by deep nesting.
func nestFaults(c *hx.Ctx, d int, seed uint64) {
	doc, lay := docFor(seed)
	_, info, _ := render(doc, lay, nil)
	for i, si := range info {
		for j, v := range nestValues(c.Tier) {
			if c.Tier == "quick" && (i+j)%3 != 0 {
				continue
			}
			runPDF(c, kase{Format: "pdf", Doc: d, Seed: seed, Faults: []fault{{Kind: "nest", Ordinal: si.ordinal, Value: v}}, Layout: lay}, "p")
		}
	}
}

// objstmFaults: /N, /First and every header pair of every object stream of one document,
// at the edges of their types and out of order. The document is laid out with object
// streams whatever its drawn layout says.
func objstmFaults(c *hx.Ctx, d int, seed uint64) {
	doc, lay := docFor(seed)
	lay.ObjStm, lay.XrefStream = true, true
	render(doc, lay, nil)
	ns, nm := nstm, stmMembers
	shapes := stmShapes(doc, lay)
	edge :=[]string{"0", "-1", "1", "2147483648", "4294967296", "9223372036854775807", "-9223372036854775808", "99999999", "1.5", "(x)"}
	for o := 0; o < ns; o++ {
		var fs []fault
		for _, v := range edge {
			fs = append(fs, fault{Kind: "objstm", Ordinal: o, Value: "n=" + v}, fault{Kind: "objstm", Ordinal: o, Value: "first=" + v})
		}
		for site := 0; site < nm; site++ {
			for _, v := range edge {
				if site < 2 || c.Thorough() {
					fs = append(fs, fault{Kind: "objstm", Ordinal: o, Site: site, Value: "num=" + v})
				}
				fs = append(fs, fault{Kind: "objstm", Ordinal: o, Site: site, Value: "off=" + v})
			}
			fs = append(fs, fault{Kind: "objstm", Ordinal: o, Site: site, Value: "swap=1"})
		}
		if o < len(shapes) {
			fs = append(fs, ownSizeFaults(o, shapes[o], c.Thorough())...)
		}
		for _, f := range fs {
			runPDF(c, kase{Format: "pdf", Doc: d, Seed: seed, Faults: []fault{f}, Layout: lay}, "p")
		}
	}
}

// lengthValues: what a /Length may be replaced by (own is the number of the stream itself,
// 0 if unknown): the catalogue's numbers, sizes between "a lot" and "cannot exist", other types.
func lengthValues(own int) []string {
	vs := append([]string(nil), numValues...)
	vs = append(vs, "4294967296", "1099511627776", "-9223372036854775808", "9999 0 R", "(x)", "-5", "1.5")
	if own > 0 {
		vs = append(vs, fmt.Sprintf("%d 0 R", own))
	}
	return vs
}

// xrefDictCatalogue: the faults of the dictionary of cross-reference section x when it is
// a cross-reference STREAM (nums > 0): its /Length, every number in it (/Size, /W, /Index,
// /Prev, /Root, /Columns, /Predictor), its delimiters, and every filterStep-th re-announced filter.
func xrefDictCatalogue(x, nums, filterStep int) []fault {
	var out []fault
	if nums == 0 {
		return nil
	}
	for _, v := range lengthValues(0) {
		out = append(out, fault{Kind: "xref-length", Ordinal: x, Value: v})
	}
	for s := 0; s < nums; s++ {
		for _, v := range numValues {
			out = append(out, fault{Kind: "xref-number", Ordinal: x, Site: s, Value: v})
		}
	}
	for _, d := range []string{"[", "]", "<<", ">>"} {
		for s := 0; s < 2; s++ {
			out = append(out, fault{Kind: "xref-delim", Ordinal: x, Site: s, Value: d})
		}
	}
	for i, v := range filterValues() {
		if (i+x)%filterStep == 0 {
			out = append(out, fault{Kind: "xref-filter", Ordinal: x, Value: v})
		}
	}
	return out
}

// xrefDictFaults: one document laid out with cross-reference streams whatever its drawn
// layout says, opened from disk, with the whole xrefDictCatalogue of every section, and
// the same for the dictionary and /Length of every object stream.
func xrefDictFaults(c *hx.Ctx, d int, seed uint64) {
	doc, lay := docFor(seed)
	lay.XrefStream = true
	lay.ObjStm = d%2 == 1
	_, _, nx := render(doc, lay, nil)
	xn, sn := xrefDictNums, stmDictNums
	step := 1
	if !c.Thorough() {
		step = 9
	}
	var fs []fault
	for x := 0; x < nx; x++ {
		fs = append(fs, xrefDictCatalogue(x, xn[x], step)...)
	}
	for o := 0; o < len(sn); o++ {
		for _, v := range lengthValues(0) {
			fs = append(fs, fault{Kind: "objstm-length", Ordinal: o, Value: v})
		}
		for s := 0; s < sn[o]; s++ {
			for _, v := range numValues {
				fs = append(fs, fault{Kind: "objstm-number", Ordinal: o, Site: s, Value: v})
			}
		}
		for i, v := range filterValues() {
			if (i+o)%(step*3) == 0 {
				fs = append(fs, fault{Kind: "objstm-filter", Ordinal: o, Value: v})
			}
		}
	}
	for _, f := range fs {
		runPDF(c, kase{Format: "pdf", Doc: d, Seed: seed, Faults: []fault{f}, Layout: lay}, "p")
	}
}

// filterFillFaults: the first stream of one document (the first two in the thorough
// tier) under every filterValues entry, its data replaced by 2 KiB of 0xFF, 0x00 and
// 0xAA: for a decoder in which single bits are codes (CCITT: "a row like the one above",
// run lengths; LZW; RunLength) these are the inputs that ask for the most output per
// byte. quick: a seed-dependent eighth of the entries; of the entries with the widest
// rows (each costs a decode up to the decoder's output limit) only Group 4 on 0xFF, and
// only through Text().
func filterFillFaults(c *hx.Ctx, d int, seed uint64) {
	const widest = "/Filter /CCITTFaxDecode /DecodeParms << /K -1 /Columns 1048576 /Rows 0 >>"
	doc, lay := docFor(seed)
	_, info, _ := render(doc, lay, nil)
	streams := 0
	for _, si := range info {
		if !si.stream {
			continue
		}
		if streams++; streams > c.N(1, 2) {
			break
		}
		for i, v := range filterValues() {
			wide := strings.Contains(v, "1048576")
			if !c.Thorough() && ((!wide && (i+int(seed))%8 != 0) || (wide && v != widest)) {
				continue
			}
			for _, fill := range []string{"ff|2048", "00|2048", "aa|2048"} {
				if wide {
					if !c.Thorough() && fill != "ff|2048" {
						continue
					}
					exerciseOnly = map[string]bool{"Text": true}
				}
				runPDF(c, kase{Format: "pdf", Doc: d, Seed: seed, Faults: []fault{{Kind: "filter-fill", Ordinal: si.ordinal, Value: fill + "|" + v}}, Layout: lay}, "p")
				exerciseOnly = nil
			}
		}
	}
}

// filterFaults runs every filterValues entry on every stream of one document.
func filterFaults(c *hx.Ctx, d int, seed uint64) {
	doc, lay := docFor(seed)
	_, info, _ := render(doc, lay, nil)
	for _, si := range info {
		if !si.stream {
			continue
		}
		for _, v := range filterValues() {
			runPDF(c, kase{Format: "pdf", Doc: d, Seed: seed, Faults: []fault{{Kind: "filter", Ordinal: si.ordinal, Value: v}}, Layout: lay}, "p")
		}
	}
}

// pdfCatalogue enumerates all single faults of one document.
func pdfCatalogue(doc writers.LDoc, lay writers.Layout) []fault {
	data, info, nx := render(doc, lay, nil)
	xnums := xrefDictNums
	var out []fault
	for _, si := range info {
		for s := 0; s < si.nums; s++ {
			for _, v := range numValues {
				out = append(out, fault{Kind: "number", Ordinal: si.ordinal, Site: s, Value: v})
			}
		}
		for s := 0; s < si.refs; s++ {
			for _, v := range []string{fmt.Sprint(si.num), "1", "9999", "0"} {
				out = append(out, fault{Kind: "ref", Ordinal: si.ordinal, Site: s, Value: v})
			}
		}
		for _, d := range delims {
			for s := 0; s < si.delimCount[d]; s++ {
				out = append(out, fault{Kind: "delim", Ordinal: si.ordinal, Site: s, Value: d})
			}
		}
		for _, d := range []string{"<<", "[", "(", ")", "]", ">>", "<", ">"} {
			out = append(out, fault{Kind: "delim-add", Ordinal: si.ordinal, Site: si.ordinal % 3, Value: d + " "})
		}
		for s := 0; s < si.arrays; s++ {
			for _, v := range []string{fmt.Sprintf("%d 0 R", si.num), "1 0 R", "2 0 R", "3 0 R", "9999 0 R"} {
				out = append(out, fault{Kind: "array-to-ref", Ordinal: si.ordinal, Site: s, Value: v})
			}
		}
		out = append(out, fault{Kind: "drop", Ordinal: si.ordinal}, fault{Kind: "dup", Ordinal: si.ordinal})
		if si.stream {
			for s := 0; s < 3; s++ {
				out = append(out, fault{Kind: "data-flip", Ordinal: si.ordinal, Site: s*31 + 1})
			}
			out = append(out, fault{Kind: "data-trunc", Ordinal: si.ordinal, Site: si.dataLen / 2}, fault{Kind: "data-trunc", Ordinal: si.ordinal, Site: 1})
			for _, v := range append(numValues, fmt.Sprintf("%d 0 R", si.num), "9999 0 R", "(x)", "-5", fmt.Sprint(si.dataLen-1), fmt.Sprint(si.dataLen+1)) { // the last two: one to each side of the true length
				out = append(out, fault{Kind: "length", Ordinal: si.ordinal, Value: v})
			}
			for _, v := range filterValues() {
				out = append(out, fault{Kind: "filter", Ordinal: si.ordinal, Value: v})
			}
		}
	}
	for x := 0; x < nx; x++ {
		for s := 0; s < 4; s++ {
			for _, v := range []string{"0", "5", "2147483648", "9223372036854775807", fmt.Sprint(len(data) - 3)} {
				out = append(out, fault{Kind: "xref-entry", Ordinal: x, Site: s, Value: v})
			}
		}
		for _, v := range []string{"0,0,0", "-1,4,2", "1,-4,2", "1,0,0", "9,9,9", "1,2147483648,2", "0,4,2", "1,4,9223372036854775807"} {
			out = append(out, fault{Kind: "xref-w", Ordinal: x, Value: v})
		}
		for _, v := range []string{"0", "-1", "5", "2147483648", "9223372036854775807"} {
			out = append(out, fault{Kind: "xref-prev", Ordinal: x, Value: v}, fault{Kind: "xref-size", Ordinal: x, Value: v})
		}
		for _, v := range []string{"/Root 9999 0 R", "/Root 0 0 R", "", "/Root (x)", "/Root << >>"} {
			out = append(out, fault{Kind: "xref-trailer", Ordinal: x, Value: v})
		}
		out = append(out, xrefDictCatalogue(x, xnums[x], 7)...)
	}
	// truncation at token boundaries (white space positions), evenly sampled
	var ws []int
	for i, b := range data {
		if b == ' ' || b == '\n' || b == '\r' {
			ws = append(ws, i)
		}
	}
	step := max(1, len(ws)/120)
	for i := 0; i < len(ws); i += step {
		out = append(out, fault{Kind: "truncate", Site: ws[i]})
	}
	for _, rt := range []string{"/Index [=>/Index [5 ", "/Kids [=>/Kids [1 0 R ", "/Count =>/Count 99999999", "/N =>/N 99999999 /X ", "/First =>/First 99999999 /X ", "/Columns =>/Columns 0 /X ", "/Columns =>/Columns 2147483648 /X ", "/Colors =>/Colors -1 /X ", "/Predictor =>/Predictor 99 /X ", "startxref\n=>startxref\n9", "obj\n=>obj\n<< /A "} {
		for s := 0; s < 2; s++ {
			out = append(out, fault{Kind: "replace-text", Site: s, Value: rt})
		}
	}
	return out
}

// ---- XLSX / HTML / raw parsers ------------------------------------------------

func runBytes(c *hx.Ctx, k kase, ext string, data []byte, tag string) {
	path := filepath.Join(c.OutDir, "c02-"+tag+ext)
	os.WriteFile(path, data, 0o644)
	defer os.Remove(path)
	exercise(c, k, path, data)
	if ext == ".html" {
		c.Guard("C02/html-FromHTMLString", k, 10, func() {
			e := tabula.FromHTMLString(string(data))
			e.Text()
			e.ToMarkdown()
			e.Fragments()
			e.IsCharacterLevel()
			e.IsMultiColumn()
			e.Analyze()
		})
	}
	c.Case(fmt.Sprint(k.Format, k.Seed, k.Faults), true)
}

func xlsxBase(r *hx.Rng) []writers.Member {
	v := "hello"
	wb := writers.XWorkbook{
		Shared: []writers.XSI{{Plain: "s0"}, {Runs: []string{"a", "b"}}},
		Sheets: []writers.XSheet{{Name: "S1", Path: "worksheets/sheet1.xml", RID: "rId1", Rows: []writers.XRow{
			{R: 1, Cells: []writers.XCell{{Ref: "A1", T: "s", V: "0", HasV: true}, {Ref: "B1", V: "42", HasV: true}}},
			{R: 2, Cells: []writers.XCell{{Ref: "A2", T: "inlineStr", Is: &v}, {Ref: "C2", T: "b", V: "1", HasV: true}}},
		}, Merges: []string{"A1:B2"}}},
	}
	return writers.XLSXMembers(wb)
}

var attrNumRe = regexp.MustCompile(`(r|ref|count|uniqueCount|sheetId)="([A-Z]*)(\d+)([:A-Z0-9]*)"`)

func xlsxFaults(c *hx.Ctx, seed uint64, budget int) {
	r := hx.NewRng(seed)
	base := xlsxBase(r)
	n := 0
	emit := func(ms []writers.Member, f fault) {
		if n >= budget {
			return
		}
		n++
		k := kase{Format: "xlsx", Seed: seed, Faults: []fault{f}}
		runBytes(c, k, ".xlsx", writers.Zip(ms), "x")
		c.Count("xlsx-" + f.Kind)
	}
	for mi, m := range base {
		// numeric attributes -> hostile values
		sites := attrNumRe.FindAllSubmatchIndex(m.Data, -1)
		for si, s := range sites {
			for _, v := range []string{"0", "-1", "2147483648", "1048576", "9223372036854775807", "99999999"} {
				ms := append([]writers.Member(nil), base...)
				d := append([]byte(nil), m.Data[:s[6]]...)
				d = append(d, v...)
				d = append(d, m.Data[s[7]:]...)
				ms[mi] = writers.Member{Name: m.Name, Data: d}
				emit(ms, fault{Kind: "number", Ordinal: mi, Site: si, Value: v})
			}
		}
		// huge column reference
		if strings.Contains(m.Name, "sheet1") {
			for _, ref := range []string{"XFD1048576", "ZZZZZZ1", "A99999999", "AAAAAAAAAAAAAAAAAAAA1"} {
				ms := append([]writers.Member(nil), base...)
				ms[mi] = writers.Member{Name: m.Name, Data: bytes.Replace(m.Data, []byte(`r="B1"`), []byte(`r="`+ref+`"`), 1)}
				emit(ms, fault{Kind: "cellref", Ordinal: mi, Value: ref})
				ms2 := append([]writers.Member(nil), base...)
				ms2[mi] = writers.Member{Name: m.Name, Data: bytes.Replace(m.Data, []byte(`ref="A1:B2"`), []byte(`ref="A1:`+ref+`"`), 1)}
				emit(ms2, fault{Kind: "mergeref", Ordinal: mi, Value: ref})
			}
		}
		// drop / duplicate member, truncate member, unbalance a tag
		ms := append([]writers.Member(nil), base[:mi]...)
		ms = append(ms, base[mi+1:]...)
		emit(ms, fault{Kind: "drop", Ordinal: mi})
		ms = append(append([]writers.Member(nil), base...), m)
		emit(ms, fault{Kind: "dup", Ordinal: mi})
		for _, cut := range []int{len(m.Data) / 2, len(m.Data) - 3, 1} {
			ms = append([]writers.Member(nil), base...)
			ms[mi] = writers.Member{Name: m.Name, Data: m.Data[:max(0, cut)]}
			emit(ms, fault{Kind: "data-trunc", Ordinal: mi, Site: cut})
		}
		ms = append([]writers.Member(nil), base...)
		ms[mi] = writers.Member{Name: m.Name, Data: bytes.Replace(m.Data, []byte("</"), []byte("<"), 1)}
		emit(ms, fault{Kind: "delim", Ordinal: mi})
	}
	// whole-archive damage
	z := writers.Zip(base)
	for i := 0; i < 40 && n < budget; i++ {
		d := append([]byte(nil), z...)
		d[r.Intn(len(d))] ^= byte(1 << uint(r.Intn(8)))
		n++
		runBytes(c, kase{Format: "xlsx", Seed: seed, Faults: []fault{{Kind: "byte", Site: i}}}, ".xlsx", d, "x")
		c.Count("xlsx-byte")
	}
	for _, cut := range []int{len(z) / 2, len(z) - 10, 30} {
		n++
		runBytes(c, kase{Format: "xlsx", Seed: seed, Faults: []fault{{Kind: "truncate", Site: cut}}}, ".xlsx", z[:cut], "x")
		c.Count("xlsx-truncate")
	}
}

func htmlFaults(c *hx.Ctx, seed uint64, budget int) {
	r := hx.NewRng(seed)
	base := `<!DOCTYPE html><html><head><title>T</title><style>p{}</style></head><body><nav class="menu"><a href="#">x</a></nav><h1>H &amp; one</h1><p>para <b>bold</b></p><ul><li>a<ul><li>b</li></ul></li></ul><table><tr><th colspan="2">h</th></tr><tr><td rowspan="2">1</td><td>2</td></tr></table><pre>code</pre></body></html>`
	n := 0
	for cut := 0; cut < len(base) && n < budget; cut += max(1, len(base)/60) {
		n++
		runBytes(c, kase{Format: "html", Seed: seed, Faults: []fault{{Kind: "truncate", Site: cut}}}, ".html", []byte(base[:cut]), "h")
		c.Count("html-truncate")
	}
	for _, v := range []string{"0", "-1", "2147483648", "9223372036854775807", "100000"} {
		for _, attr := range []string{`colspan="2"`, `rowspan="2"`} {
			name := attr[:strings.Index(attr, "=")]
			d := strings.Replace(base, attr, name+`="`+v+`"`, 1)
			n++
			runBytes(c, kase{Format: "html", Seed: seed, Faults: []fault{{Kind: "number", Value: name + "=" + v}}}, ".html", []byte(d), "h")
			c.Count("html-number")
		}
	}
	for _, depth := range []int{300, 1500} {
		d := "<!DOCTYPE html><html><body>" + strings.Repeat("<div><ul><li>", depth) + "deep" + "</body></html>"
		n++
		runBytes(c, kase{Format: "html", Seed: seed, Faults: []fault{{Kind: "nesting", Site: depth}}}, ".html", []byte(d), "h")
		c.Count("html-nesting")
	}
	for i := 0; i < budget/3; i++ {
		d := []byte(base)
		for k := r.Range(1, 4); k > 0; k-- {
			d[r.Intn(len(d))] = hx.Pick(r, []byte{'<', '>', '&', '"', 0, 0xff, '/'})
		}
		runBytes(c, kase{Format: "html", Seed: seed, Faults: []fault{{Kind: "byte", Site: i}}}, ".html", d, "h")
		c.Count("html-byte")
	}
}

// rawParsers feeds hostile byte strings straight to the low-level parsers.
func rawParsers(c *hx.Ctx, seed uint64, n int) {
	r := hx.NewRng(seed)
	// deep nesting first: unbalanced and balanced runs of opening delimiters
	for _, v := range nestValues(c.Tier) {
		parts := strings.Split(v, "|")
		cnt := 0
		fmt.Sscan(parts[2], &cnt)
		s := strings.Repeat(parts[0], cnt)
		if parts[3] == "1" {
			s += strings.Repeat(parts[1], cnt)
		}
		k := map[string]interface{}{"format": "raw-nest", "open": parts[0], "close": parts[1], "count": cnt, "balanced": parts[3] == "1"}
		c.Current(k)
		c.Guard("C02/raw-core-parser", k, 10, func() { core.NewParser(strings.NewReader(s)).ParseObject() })
		c.Guard("C02/raw-contentstream", k, 10, func() { contentstream.NewParser([]byte(s)).Parse() })
		c.Rep.OracleChecks += 2
		c.Count("raw-nest")
		c.Case(fmt.Sprint(k), true)
	}
	frags := []string{"<<", ">>", "[", "]", "(", ")", "<", ">", "/A", "1", "0", "R", "obj", "endobj", "stream\n", "endstream", " ", "%c\n", "true", "null", "9223372036854775807", "-", ".", "#", "\\", "BT", "ET", "Tj", "TJ", "'", "\"", "BI", "ID", "EI", "beginbfchar", "endbfchar", "beginbfrange", "endbfrange", "<0041>", "begincodespacerange", "endcodespacerange", "1 "}
	for i := 0; i < n; i++ {
		var b strings.Builder
		for k := r.Range(1, 12); k > 0; k-- {
			b.WriteString(hx.Pick(r, frags))
			if r.Bool() {
				b.WriteByte(' ')
			}
		}
		s := b.String()
		k := map[string]interface{}{"format": "raw", "hex": hx.HexS(s)}
		c.Current(k)
		c.Guard("C02/raw-core-parser", k, 5, func() {
			p := core.NewParser(strings.NewReader(s))
			p.ParseObject()
			p2 := core.NewParser(strings.NewReader(s))
			p2.ParseIndirectObject()
		})
		c.Guard("C02/raw-contentstream", k, 5, func() { contentstream.NewParser([]byte(s)).Parse() })
		c.Guard("C02/raw-cmap", k, 5, func() {
			cm, err := font.ParseToUnicodeCMap(&core.Stream{Dict: core.Dict{}, Data: []byte(s)})
			if err == nil && cm != nil {
				cm.LookupString([]byte(s))
			}
		})
		c.Rep.OracleChecks += 3
		c.Count("raw")
		c.Case(s, true)
	}
}

// cmapExtremes: well-formed ToUnicode CMap programs whose codes, ranges and counts sit at
// the edges of their integer types.
func cmapExtremes(c *hx.Ctx, seed uint64, n int) {
	r := hx.NewRng(seed ^ 0xc3a9)
	codes := []string{"00", "FF", "0000", "FFFF", "FFFE", "000000", "FFFFFF", "00000000", "FFFFFFFF", "FFFFFF00", "FFFFFFFE", "7FFFFFFF", "80000000", "0041", "41", "D800", "DFFF", "10FFFF", "110000", "", "FFFFFFFFFF"}
	dsts := []string{"0041", "FFFF", "D835DC00", "DBFFDFFF", "00660066", "FFFFFFFF", "", "0000", "DC00D800"}
	for i := 0; i < n; i++ {
		var b strings.Builder
		b.WriteString("/CIDInit /ProcSet findresource begin\n12 dict begin\nbegincmap\n")
		if r.Chance(3, 4) {
			fmt.Fprintf(&b, "1 begincodespacerange\n<%s> <%s>\nendcodespacerange\n", hx.Pick(r, codes), hx.Pick(r, codes))
		}
		for k := r.Range(1, 3); k > 0; k-- {
			switch r.Intn(3) {
			case 0:
				fmt.Fprintf(&b, "%s beginbfchar\n<%s> <%s>\nendbfchar\n", hx.Pick(r, []string{"1", "0", "4294967295", "-1", "100"}), hx.Pick(r, codes), hx.Pick(r, dsts))
			case 1:
				fmt.Fprintf(&b, "1 beginbfrange\n<%s> <%s> <%s>\nendbfrange\n", hx.Pick(r, codes), hx.Pick(r, codes), hx.Pick(r, dsts))
			case 2:
				fmt.Fprintf(&b, "1 beginbfrange\n<%s> <%s> [<%s> <%s>]\nendbfrange\n", hx.Pick(r, codes), hx.Pick(r, codes), hx.Pick(r, dsts), hx.Pick(r, dsts))
			}
		}
		b.WriteString("endcmap\nend\nend\n")
		s := b.String()
		k := map[string]interface{}{"format": "cmap", "hex": hx.HexS(s)}
		c.Current(k)
		c.Guard("C02/cmap-extremes", k, 5, func() {
			cm, err := font.ParseToUnicodeCMap(&core.Stream{Dict: core.Dict{}, Data: []byte(s)})
			if err == nil && cm != nil {
				cm.LookupString([]byte{0xFF, 0xFF, 0xFF, 0xFF, 0x00, 0x41})
				cm.LookupString([]byte{0x41})
			}
		})
		c.Rep.OracleChecks++
		c.Count("cmap-extremes")
		c.Case(s, true)
	}
}

// section runs one part of the catalogue; with C02_TIMING set its wall time goes to stderr
// (C02_ONLY=a,b restricts a manual run to the named sections; check never sets it).
func section(name string, f func()) {
	if only := os.Getenv("C02_ONLY"); only != "" && !strings.Contains(","+only+",", ","+name+",") {
		return // debugging aid: run the named sections only
	}
	t0 := time.Now()
	f()
	if os.Getenv("C02_TIMING") != "" {
		fmt.Fprintf(os.Stderr, "c02 section %-14s %6.1fs\n", name, time.Since(t0).Seconds())
	}
}

func Run(c *hx.Ctx) {
	c.Rep.Rule = "valid documents of all seven formats from the harness writers (PDF in random physical layouts, DOCX, ODT, XLSX, PPTX, EPUB, HTML) x every single fault of the catalogue at every site (numbers -> 0,-1,2^31,2^63-1; references -> self/root/missing; delimiters removed/added; objects/members dropped/duplicated; stream data flipped/truncated; objects and stream data replaced by 20 thousand / 6 million nested opening delimiters (balanced and not); /N, /First and every header pair of every object stream at the edges of their types, out of order, and at the edges of the stream's own header, body and decoded length (one to each side: numbers that are plausible alone and wrong once /First is added); /Length, every number, the delimiters and the filter of every cross-reference stream and object stream dictionary, files opened from disk; Form XObjects drawing Form XObjects (self, mutual, chains with fan-out k^d); every stream re-announced under every filter name/abbreviation/chain with edge decode parameters, over its own data and over runs of 0xFF/0x00/0xAA; /Length, xref entries, /W, /Prev, /Size, trailer; the /Prev of every cross-reference section (tables and streams, three revisions) aimed at every section of the file - itself, older, newer: cycles of every length - in every spelling of the number (integer, real with zero fraction, sign, leading zeros, the real next to it), and whole drawn /Prev graphs; truncation at token boundaries; targeted field rewrites); authored PDFs: one font of each kind with every number of every font object/CMap/content stream and every 16-bit field of the embedded TrueType program at type edges, cmap segment fan-out; reference graphs (chains of indirect /Length, list-shaped and inline page trees, colour-space cycles, shared DAGs, images announcing w x h over 2 x 2 data, JPEG headers) also through Reader.ResolveDeep, resolver.ResolveDeep, ExtractPageImages+ToPNG; page geometry (every number of the page dictionary and of an unfiltered content stream at type edges and magnitudes in between, wide pages x huge fonts x many lines, repeated /Contents) through every option (PreserveLayout, ByColumn, JoinParagraphs, header/footer exclusion) and analysis entry point; structurally rich DOCX/ODT/PPTX with every numeric attribute and element text -> 0,-1,2^31-1,2^31,2^32,999999999,2^63-1,-2^63; the numeric fields the specifications define but the writers never emit, injected with the same values (DOCX, ODT, PPTX, XLSX, HTML); every identifier reference inside the XML members (style inheritance and links, numbering, relationship ids, spine ids) retargeted to its own definition, to every definition that reaches it, to nothing; authored style graphs (self, cycles, tail into a cycle, long chains, stars) with every style used; every element name and every container the specifications allow inside itself nested 130 thousand deep under a 32 MiB stack limit; products of bounded numbers (column letters, n merged regions x the grid, k sheets x the grid, k spanning cells x r rows, spine repetitions by idref and by n manifest items whose hrefs are n spellings of one content document (dot segments, percent-encoding, own directory) with what is kept and returned compared to the unpacked archive, inline nesting in HTML/EPUB); + sampled double faults + byte mutation + hostile token soup into the raw parsers (and Go native fuzz targets under harness/c02/fuzz, not part of the check); every case runs 1-8 public entry points under a 10 s deadline and a 3 GiB heap limit; every case is non-trivial; + the bounded-work correspondence (sections bounds-core, bounds-data, bounds-office): every guarded function of the C02 repairs is run beside its Lean model on generated inputs, mostly valid structured ones (object graphs of /Length, /Kids, colour-space and ResolveDeep references incl. cycles, shared subtrees and missing objects; object-stream headers; CCITT runs; fragment layouts; images; /Contents arrays; span/level/space attributes; inline containers; style tables; column letters; merged regions; workbook sheet entries; table grids; HTML trees; cmap segments; bfrange arrays) plus hostile values at type edges, and the edge of every constant from both sides (16 nested loads, 10000 page-tree levels, 2000/100 resolve levels, 64 MiB images and page content, 2^20 buckets, 8 colour-space levels, 200 columns/100 gap lines, 1024 spans and spaces, level 8, 10000 inline and tree levels, 2^40 columns, 8 Mi + 16 per element grid cells, 2^20 table cells, 65536 codes)"
	section("ops", func() {
		xrefStreamOps(c)
		gridOps(c)
		ptreeOps(c)
	})
	section("bounds-core", func() { boundsCoreOps(c) })
	section("bounds-data", func() { boundsDataOps(c) })
	section("bounds-office", func() { boundsOfficeOps(c) })
	ndocs := c.N(4, 30)
	perDoc := c.N(450, 100000)
	section("pdf-catalogue", func() {
		for d := 0; d < ndocs; d++ {
			seed := c.Seed*1000 + uint64(d)
			doc, lay := docFor(seed)
			cat := pdfCatalogue(doc, lay)
			c.Count(fmt.Sprintf("pdf-catalogue-size=%d", len(cat)/100*100))
			step := 1
			if len(cat) > perDoc {
				step = len(cat)/perDoc + 1
			}
			for i := d % step; i < len(cat); i += step {
				runPDF(c, kase{Format: "pdf", Doc: d, Seed: seed, Faults: []fault{cat[i]}, Layout: lay}, "p")
			}
			// sampled double faults
			r := hx.NewRng(seed ^ 0xabcdef)
			for i := 0; i < c.N(60, 1500); i++ {
				runPDF(c, kase{Format: "pdf", Doc: d, Seed: seed, Faults: []fault{hx.Pick(r, cat), hx.Pick(r, cat)}, Layout: lay}, "p")
			}
		}
	})
	section("filter", func() {
		for d := 0; d < c.N(2, 12); d++ {
			filterFaults(c, d, c.Seed*1000+uint64(d))
		}
	})
	section("filter-fill", func() {
		for d := 0; d < c.N(1, 2); d++ {
			filterFillFaults(c, d, c.Seed*1000+uint64(d))
		}
	})
	section("nest", func() {
		for d := 0; d < c.N(1, 6); d++ {
			nestFaults(c, d, c.Seed*1000+uint64(d))
		}
	})
	section("objstm", func() {
		for d := 0; d < c.N(2, 10); d++ {
			objstmFaults(c, d, c.Seed*1000+uint64(d))
		}
	})
	section("xref-dict", func() {
		for d := 0; d < c.N(2, 10); d++ {
			xrefDictFaults(c, d, c.Seed*1000+uint64(d))
		}
	})
	section("prev-graphs", func() { prevGraphs(c) })
	section("forms", func() { formFanout(c) })
	section("fonts", func() { fontFaults(c) })
	section("pdf-graphs", func() { pdfGraphs(c) })
	section("geometry", func() { geometryFaults(c) })
	section("xlsx", func() { xlsxFaults(c, c.Seed, c.N(250, 5000)) })
	section("zip", func() {
		for _, f := range ZipFormats {
			zipFaults(c, f, c.Seed, c.N(140, 2500))
		}
	})
	section("rich-number", func() {
		for _, f := range []string{"DOCX", "ODT", "PPTX"} {
			richNumberFaults(c, f, c.Seed, c.N(4, 16), c.N(1500, 80000))
		}
	})
	section("rich-ref", func() {
		for _, f := range []string{"DOCX", "ODT", "PPTX", "EPUB", "XLSX"} {
			richRefFaults(c, f, c.Seed, c.N(1, 12), c.N(140, 20000))
		}
	})
	section("ref-graphs", func() { refGraphs(c) })
	section("inject", func() {
		for _, f := range []string{"ODT", "DOCX", "PPTX", "XLSX", "HTML"} {
			injectFaults(c, f, c.Seed, c.N(1, 6))
		}
	})
	section("xml-nest", func() {
		for _, f := range []string{"ODT", "DOCX", "PPTX", "XLSX"} {
			xmlNestFaults(c, f, c.Seed, c.N(130000, 260000), c.N(1<<30, 1))
		}
	})
	section("shapes", func() { productShapes(c) })
	section("html", func() { htmlFaults(c, c.Seed, c.N(120, 1500)) })
	section("raw", func() { rawParsers(c, c.Seed, c.N(1500, 60000)) })
	section("cmap", func() { cmapExtremes(c, c.Seed, c.N(1500, 60000)) })
	section("odt-columns", func() { odtColumnFaults(c) })
}

func Replay(c *hx.Ctx, m map[string]interface{}) {
	if m["format"] == "raw" {
		c.Note("raw parser case: feed the hex string to core.NewParser / contentstream.NewParser / font.ParseToUnicodeCMap")
		return
	}
	var k kase
	hx.Remarshal(m, &k)
	if k.Format == "pdf" {
		runPDF(c, k, "replay")
	}
	if (k.Format == "docx-styles" || k.Format == "odt-styles") && len(k.Faults) == 1 {
		runGraph(c, graphCase{Format: k.Format, Shape: strings.TrimPrefix(k.Faults[0].Kind, "graph-"), N: k.Faults[0].Site})
	}
	if k.Format == "pdf-graphs" && len(k.Faults) == 1 {
		runPGraph(c, pgraphCase{Format: k.Format, Shape: strings.TrimPrefix(k.Faults[0].Kind, "graph-"), N: k.Faults[0].Site, K: k.Faults[0].Ordinal})
	}
	if k.Format == "pdf-geometry" && len(k.Faults) == 1 {
		f := k.Faults[0]
		runGeo(c, geoCase{Format: k.Format, Shape: strings.TrimPrefix(f.Kind, "geo-"), Obj: f.Ordinal, Site: f.Site, Value: f.Value})
	}
	if strings.HasSuffix(k.Format, "-shapes") && len(k.Faults) == 1 {
		runShape(c, shapeCase{Format: k.Format, Shape: strings.TrimPrefix(k.Faults[0].Kind, "shape-"), N: k.Faults[0].Site, K: k.Faults[0].Ordinal})
	}
	if k.Format == "pdf-fonts" {
		fc := fontCase{Format: "pdf-fonts"}
		for _, f := range k.Faults {
			fc.Faults = append(fc.Faults, fontFault{Kind: strings.TrimPrefix(f.Kind, "font-"), Obj: f.Ordinal, Site: f.Site, Value: f.Value})
		}
		runFont(c, fc)
	}
	if k.Format == "pdf-forms" && len(k.Faults) == 1 {
		f := k.Faults[0]
		runForm(c, formCase{Format: "pdf-forms", Shape: strings.TrimPrefix(f.Kind, "forms-"), K: f.Site, D: f.Ordinal, OwnRes: f.Value == "true"})
	}
}
