package c02

// Reference graphs of a PDF that the ordinary catalogue cannot produce by retargeting
// one reference of a small valid document: LONG chains and wide shared graphs. Each
// shape is a well-formed file written object by object:
//
//   length-chain n   the page's content stream has an indirect /Length that is itself a
//                    stream with an indirect /Length ... n streams deep (the last one
//                    missing, or an integer): loading one object nests n loads
//   kids-chain n     a page tree that is a list: n intermediate /Pages nodes with one kid each
//   cs-self / cs-cycle k / cs-chain n
//                    a page without text whose image has /ColorSpace [/Indexed <base> 1 (..)]
//                    where the base is the colour space itself, a cycle of k, a chain of n
//   img-<cs><bpc> w h  a page without text whose image announces w x h pixels over the data of a
//                    2 x 2 image; img-jpeg: a DCT image whose frame header announces w x h
//   inline-kids k    /Kids is an indirect array holding a DIRECT /Pages dictionary whose /Kids is the
//                    next such array, k arrays in a ring: the nodes have no object numbers
//   inline-nest n    direct /Pages dictionaries nested literally, n deep
//   self-arrays      /Contents, /Resources, /Annots, /MediaBox as indirect objects containing themselves
//   dag d k          arrays d levels deep, each holding k references to the next level,
//                    hanging off the trailer and the catalog: d*k references, k^d paths
//   parent           a plain valid document: every page refers to its /Parent, which lists it
//
// Besides the usual entry points these files are opened with reader.Open and every
// object (and the trailer) goes through Reader.ResolveDeep and the resolver package's
// deep resolution, and every page through ExtractPageImages and PageImage.ToPNG: the
// public entry points that follow reference graphs on their own.

import (
	"bytes"
	"fmt"
	"os"
	"path/filepath"
	"runtime/debug"
	"sort"
	"strings"

	"github.com/tsawler/tabula/reader"
	"github.com/tsawler/tabula/resolver"

	"verifharness/hx"
)

type pgraphCase struct {
	Format string `json:"format"` // "pdf-graphs"
	Shape  string `json:"shape"`
	N      int    `json:"n"`
	K      int    `json:"k"`
}

func assemblePDF(objs map[int]string, trailerExtra string) []byte {
	nums := make([]int, 0, len(objs))
	for n := range objs {
		nums = append(nums, n)
	}
	sort.Ints(nums)
	max := nums[len(nums)-1] + 1
	var b bytes.Buffer
	b.WriteString("%PDF-1.4\n")
	offs := make(map[int]int, len(objs))
	for _, n := range nums {
		offs[n] = b.Len()
		fmt.Fprintf(&b, "%d 0 obj\n%s\nendobj\n", n, objs[n])
	}
	x := b.Len()
	fmt.Fprintf(&b, "xref\n0 %d\n0000000000 65535 f \n", max)
	for n := 1; n < max; n++ {
		if off, ok := offs[n]; ok {
			fmt.Fprintf(&b, "%010d 00000 n \n", off)
		} else {
			b.WriteString("0000000000 65535 f \n")
		}
	}
	fmt.Fprintf(&b, "trailer\n<< /Size %d /Root 1 0 R%s >>\nstartxref\n%d\n%%%%EOF\n", max, trailerExtra, x)
	return b.Bytes()
}

func stream(dict, data string) string {
	return fmt.Sprintf("<< %s >>\nstream\n%s\nendstream", dict, data)
}

func pgraphPDF(g pgraphCase) []byte {
	text := "BT /F1 12 Tf 50 700 Td (graph) Tj ET"
	objs := map[int]string{
		1: "<< /Type /Catalog /Pages 2 0 R >>",
		2: "<< /Type /Pages /Kids [3 0 R] /Count 1 >>",
		3: "<< /Type /Page /Parent 2 0 R /MediaBox [0 0 612 792] /Contents 4 0 R /Resources << /Font << /F1 5 0 R >> >> >>",
		4: stream(fmt.Sprintf("/Length %d", len(text)), text),
		5: "<< /Type /Font /Subtype /Type1 /BaseFont /Helvetica >>",
	}
	trailer := ""
	switch g.Shape {
	case "length-chain":
		objs[4] = stream("/Length 10 0 R", text)
		for i := 0; i < g.N; i++ {
			objs[10+i] = stream(fmt.Sprintf("/Length %d 0 R", 11+i), "x")
		}
		if g.K == 1 { // the chain ends in an integer instead of a missing object
			objs[10+g.N] = fmt.Sprint(len(text))
		}
	case "kids-chain":
		objs[2] = "<< /Type /Pages /Kids [10 0 R] /Count 1 >>"
		for i := 0; i < g.N; i++ {
			next := 11 + i
			if i == g.N-1 {
				next = 3
			}
			parent := 9 + i
			if i == 0 {
				parent = 2
			}
			objs[10+i] = fmt.Sprintf("<< /Type /Pages /Parent %d 0 R /Kids [%d 0 R] /Count 1 >>", parent, next)
		}
		objs[3] = fmt.Sprintf("<< /Type /Page /Parent %d 0 R /MediaBox [0 0 612 792] /Contents 4 0 R /Resources << /Font << /F1 5 0 R >> >> >>", 9+g.N)
	case "cs-self", "cs-cycle", "cs-chain":
		// no text on the page: the image is all there is to read
		objs[4] = stream("/Length 14", "q /Im1 Do Q   ")
		objs[3] = "<< /Type /Page /Parent 2 0 R /MediaBox [0 0 612 792] /Contents 4 0 R /Resources << /XObject << /Im1 6 0 R >> >> >>"
		objs[6] = stream("/Type /XObject /Subtype /Image /Width 2 /Height 2 /BitsPerComponent 8 /ColorSpace 10 0 R /Length 4", "\x00\x01\x01\x00")
		n := 1
		switch g.Shape {
		case "cs-cycle":
			n = g.K
		case "cs-chain":
			n = g.N
		}
		for i := 0; i < n; i++ {
			base := fmt.Sprintf("%d 0 R", 10+(i+1)%n)
			if g.Shape == "cs-chain" && i == n-1 {
				base = "/DeviceGray"
			}
			objs[10+i] = "[ /Indexed " + base + " 1 (ab) ]"
		}
	case "img-gray8", "img-gray1", "img-gray4", "img-rgb8", "img-cmyk8", "img-sep8", "img-jpeg":
		// a page without text and one image whose /Width and /Height are N and K while its
		// data is that of a 2 x 2 image (img-jpeg: a progressive JPEG whose frame header
		// announces N x K)
		objs[4] = stream("/Length 14", "q /Im1 Do Q   ")
		objs[3] = "<< /Type /Page /Parent 2 0 R /MediaBox [0 0 612 792] /Contents 4 0 R /Resources << /XObject << /Im1 6 0 R >> >> >>"
		cs, bpc, data := "/DeviceGray", 8, "\x00\x01\x01\x00"
		switch g.Shape {
		case "img-gray1":
			bpc, data = 1, "\x80\x40"
		case "img-gray4":
			bpc, data = 4, "\x0f\xf0"
		case "img-rgb8":
			cs, data = "/DeviceRGB", "\x00\x01\x02\x03\x04\x05\x06\x07\x08\x09\x0a\x0b"
		case "img-cmyk8":
			cs, data = "/DeviceCMYK", "0123456789abcdef"
		case "img-sep8":
			cs = "[/Separation /Black /DeviceGray << /FunctionType 2 /Domain [0 1] /C0 [1] /C1 [0] /N 1 >>]"
		}
		w, h := fmt.Sprint(g.N), fmt.Sprint(g.K)
		filter := ""
		if g.Shape == "img-jpeg" {
			cs, filter = "/DeviceRGB", " /Filter /DCTDecode"
			data = "\xff\xd8\xff\xc2\x00\x11\x08" + string([]byte{byte(g.K >> 8), byte(g.K), byte(g.N >> 8), byte(g.N)}) +
				"\x03\x01\x11\x00\x02\x11\x00\x03\x11\x00\xff\xda\x00\x0c\x03\x01\x00\x02\x00\x03\x00\x00\x00\x00"
			w, h = "2", "2" // the dictionary is modest, the JPEG frame is not
		}
		objs[6] = stream(fmt.Sprintf("/Type /XObject /Subtype /Image /Width %s /Height %s /BitsPerComponent %d /ColorSpace %s%s /Length %d", w, h, bpc, cs, filter, len(data)), data)
	case "inline-kids":
		// /Kids is an indirect array whose element is a DIRECT /Pages dictionary (no object
		// number of its own) whose /Kids is an array K links further on; the last link
		// leads back to the first array. K = 1: the array contains a node that names the array.
		objs[2] = "<< /Type /Pages /Kids 10 0 R /Count 1 >>"
		for i := 0; i < g.K; i++ {
			objs[10+i] = fmt.Sprintf("[ << /Type /Pages /Kids %d 0 R /Count 1 >> ]", 10+(i+1)%g.K)
		}
	case "inline-nest":
		// direct /Pages dictionaries nested literally N deep inside one object, a page at the bottom
		objs[2] = "<< /Type /Pages /Count 1 /Kids [ " + strings.Repeat("<< /Type /Pages /Count 1 /Kids [ ", g.N) + "3 0 R" + strings.Repeat(" ] >>", g.N) + " ] >>"
	case "self-arrays":
		// /Contents, /Resources and their sub-dictionaries, /Annots and /MediaBox given as
		// indirect objects that contain references to themselves
		objs[3] = "<< /Type /Page /Parent 2 0 R /MediaBox 13 0 R /Contents 10 0 R /Resources 11 0 R /Annots 12 0 R >>"
		objs[10] = "[ 10 0 R 4 0 R 10 0 R ]"
		objs[11] = "<< /Font 11 0 R /XObject 11 0 R /ExtGState 11 0 R /ProcSet 11 0 R /F1 5 0 R /Properties 11 0 R /ColorSpace 11 0 R >>"
		objs[12] = "[ 12 0 R << /Type /Annot /Subtype /Link /Rect 13 0 R /Parent 12 0 R /P 3 0 R >> ]"
		objs[13] = "[ 0 0 13 0 R 792 ]"
	case "dag":
		for i := 0; i < g.N; i++ {
			el := fmt.Sprintf("%d 0 R ", 11+i)
			if i == g.N-1 {
				el = "(leaf) "
			}
			objs[10+i] = "[ " + strings.Repeat(el, g.K) + "]"
		}
		objs[1] = "<< /Type /Catalog /Pages 2 0 R /PieceInfo << /Verif 10 0 R >> >>"
		trailer = " /Info << /Title (dag) /Custom 10 0 R >>"
	}
	return assemblePDF(objs, trailer)
}

// deepCalls: the public entry points that walk reference graphs themselves.
func deepCalls(c *hx.Ctx, k kase, path string) {
	c.Guard("C02/"+k.Format+"-ResolveDeep", k, 10, func() {
		rd, err := reader.Open(path)
		if err != nil {
			return
		}
		defer rd.Close()
		rd.ResolveDeep(rd.Trailer())
		for i := 1; i <= rd.NumObjects() && i <= 40; i++ {
			if obj, err := rd.GetObject(i); err == nil {
				rd.ResolveDeep(obj)
			}
		}
	})
	c.Guard("C02/"+k.Format+"-resolver", k, 10, func() {
		rd, err := reader.Open(path)
		if err != nil {
			return
		}
		defer rd.Close()
		res := resolver.NewResolver(rd)
		res.ResolveDict(rd.Trailer())
		for i := 1; i <= rd.NumObjects() && i <= 40; i++ {
			if obj, err := rd.GetObject(i); err == nil {
				res.ResolveDeep(obj)
				res.Reset()
			}
		}
	})
	c.Guard("C02/"+k.Format+"-images", k, 10, func() {
		rd, err := reader.Open(path)
		if err != nil {
			return
		}
		defer rd.Close()
		n, _ := rd.PageCount()
		for p := 0; p < n && p < 4; p++ {
			pg, err := rd.GetPage(p)
			if err != nil {
				continue
			}
			imgs, _ := rd.ExtractPageImages(pg)
			for i := range imgs {
				imgs[i].ToPNG()
			}
		}
	})
	c.Rep.OracleChecks += 3
}

func runPGraph(c *hx.Ctx, g pgraphCase) {
	data := pgraphPDF(g)
	path := filepath.Join(c.OutDir, "c02-graphs.pdf")
	os.WriteFile(path, data, 0o644)
	defer os.Remove(path)
	k := kase{Format: "pdf-graphs", Faults: []fault{{Kind: "graph-" + g.Shape, Site: g.N, Ordinal: g.K}}}
	exercise(c, k, path, data)
	deepCalls(c, k, path)
	c.Count("pdf-graphs-" + g.Shape)
	c.Case(fmt.Sprint(g), true)
}

func pgraphCases(thorough bool) []pgraphCase {
	f := "pdf-graphs"
	out := []pgraphCase{
		{f, "parent", 0, 0},
		{f, "length-chain", 1, 0}, {f, "length-chain", 3, 1}, {f, "length-chain", 40, 0}, {f, "length-chain", 600, 1}, {f, "length-chain", 6000, 0},
		{f, "kids-chain", 3, 0}, {f, "kids-chain", 600, 0}, {f, "kids-chain", 20000, 0},
		{f, "cs-self", 0, 0}, {f, "cs-cycle", 0, 2}, {f, "cs-cycle", 0, 7}, {f, "cs-chain", 30, 0}, {f, "cs-chain", 3000, 0},
		{f, "inline-kids", 0, 1}, {f, "inline-kids", 0, 2}, {f, "inline-kids", 0, 5}, {f, "inline-nest", 3, 0}, {f, "inline-nest", 400, 0}, {f, "self-arrays", 0, 0},
		{f, "dag", 3, 3}, {f, "dag", 24, 2}, {f, "dag", 40, 2}, {f, "dag", 9, 12}, {f, "dag", 60, 30},
	}
	for i, sh := range []string{"img-gray8", "img-gray1", "img-gray4", "img-rgb8", "img-cmyk8", "img-sep8"} {
		dims := [][2]int{{2, 2}, {-4, 4}, {4, -4}, {0, 0}, {100000, 100000}, {1 << 31, 1}, {1 << 40, 1 << 40}, {1<<63 - 1, 1<<63 - 1}, {1 << 32, 1 << 32}, {3, 1<<62 + 1}}
		for j, d := range dims {
			if thorough || j < 2 || (i+j)%3 == 0 {
				out = append(out, pgraphCase{f, sh, d[0], d[1]})
			}
		}
	}
	out = append(out, pgraphCase{f, "img-jpeg", 16, 16}, pgraphCase{f, "img-jpeg", 65535, 65535}, pgraphCase{f, "img-jpeg", 65535, 1}, pgraphCase{f, "img-jpeg", 0, 0})
	if thorough {
		out = append(out, pgraphCase{f, "length-chain", 20000, 0}, pgraphCase{f, "length-chain", 20000, 1}, pgraphCase{f, "kids-chain", 250000, 0},
			pgraphCase{f, "cs-chain", 250000, 0}, pgraphCase{f, "dag", 2000, 2})
	}
	return out
}

// pdfGraphs runs with the 64 MiB stack limit (see xmlNestFaults): a recursion per chain
// link shows at 250 thousand links instead of several million.
func pdfGraphs(c *hx.Ctx) {
	defer debug.SetMaxStack(debug.SetMaxStack(64 << 20))
	for _, g := range pgraphCases(c.Thorough()) {
		runPGraph(c, g)
	}
}
