package c02

// Correspondence ops for the bounded-work models of the PDF core
// (lean/TabulaModel/Model/BoundsCore.lean): every model function is given the same
// generated input as the Go function it mirrors.
//
//	c02.readbytes  core.(*Lexer).ReadBytes
//	c02.load       reader.(*Reader).GetObject over indirect /Length graphs, histories of calls
//	c02.ptree2     reader.(*Reader).PageCount over page trees with indirect /Kids arrays,
//	               inline nodes, cycles, shared subtrees, chains at the depth limit
//	c02.objstm     core.NewObjectStream + (*ObjectStream).GetObjectByIndex
//	c02.rdeep      reader.(*Reader).ResolveDeep and resolver.(*ObjectResolver).ResolveDeep

import (
	"bytes"
	"fmt"
	"os"
	"path/filepath"
	"strconv"
	"strings"

	"github.com/tsawler/tabula/core"
	"github.com/tsawler/tabula/reader"
	"github.com/tsawler/tabula/resolver"

	"verifharness/hx"
	"verifharness/writers"
)

// ---- c02.readbytes --------------------------------------------------------------------

func readBytesOps(c *hx.Ctx) {
	r := hx.NewRng(c.Seed ^ 0xb001)
	edge := []int64{0, -1, 1, 2147483648, 9223372036854775807, -9223372036854775808, 4294967296, 65536, 32768, 32769}
	for i := 0; i < c.N(120, 2000); i++ {
		avail := r.Range(0, 300)
		if r.Chance(1, 10) {
			avail = r.Range(30000, 70000) // beyond io.CopyN's internal 32 KiB chunk
		}
		var n int64
		switch r.Intn(4) {
		case 0:
			n = hx.Pick(r, edge)
		case 1:
			n = int64(avail) + int64(r.Range(-3, 3))
		default:
			n = int64(r.Range(0, avail+5))
		}
		data := bytes.Repeat([]byte{'x'}, avail)
		out := "?"
		k := map[string]interface{}{"format": "readbytes", "n": n, "avail": avail}
		c.Guard("C02/readbytes", k, 10, func() {
			lx := core.NewLexer(bytes.NewReader(data))
			got, err := lx.ReadBytes(int(n))
			switch {
			case err == nil:
				out = fmt.Sprintf("ok %d", len(got))
			case strings.Contains(err.Error(), "unexpected EOF"):
				out = fmt.Sprintf("eof %d", len(got))
			default:
				out = "bad"
			}
			c.Check("C02/readbytes-holds-more-than-input", len(got) <= avail && cap(got) <= 3*avail+4096, k,
				func() string { return fmt.Sprintf("len %d cap %d for %d available bytes", len(got), cap(got), avail) })
		})
		c.Op(fmt.Sprintf("c02.readbytes %d %d", n, avail), out)
		c.Count("op-readbytes-" + strings.Fields(out)[0])
		c.Case(fmt.Sprint("rb", n, avail), true)
	}
}

// ---- c02.load -------------------------------------------------------------------------

type lobj struct {
	kind string // i o s r
	ref  int
}

func loadClass(err error, obj core.Object) string {
	if err != nil {
		m := err.Error()
		switch {
		case strings.Contains(m, "refers to itself"):
			return "self"
		case strings.Contains(m, "being loaded inside each other"):
			return "deep"
		case strings.Contains(m, "not found in xref") || strings.Contains(m, "not in use"):
			return "notfound"
		case strings.Contains(m, "resolved to"):
			return "ltype"
		}
		return "err:" + m
	}
	switch obj.(type) {
	case core.Int:
		return "ok-int"
	case *core.Stream:
		return "ok-stream"
	}
	return "ok-other"
}

func loadOp(c *hx.Ctx, objs map[int]lobj, calls []int, tag string) {
	p := writers.NewPDF("\n")
	entries := map[int]writers.XEntry{0: {Type: 0, F2: 65535}}
	var desc []string
	max := 0
	for _, n := range sortedInts(objs) {
		o := objs[n]
		var body string
		switch o.kind {
		case "i":
			body = "3"
		case "o":
			body = "/Name"
		case "s":
			body = "<< /Length 3 >>\nstream\nabc\nendstream"
		case "r":
			body = fmt.Sprintf("<< /Length %d 0 R >>\nstream\nabc\nendstream", o.ref)
		}
		entries[n] = writers.XEntry{Type: 1, F1: p.Obj(n, 0, body)}
		if o.kind == "r" {
			desc = append(desc, fmt.Sprintf("%d:r%d", n, o.ref))
		} else {
			desc = append(desc, fmt.Sprintf("%d:%s", n, o.kind))
		}
		if n > max {
			max = n
		}
	}
	p.XrefTable(entries, fmt.Sprintf("/Size %d", max+1), -1, " \n")
	path := filepath.Join(c.OutDir, "c02-load.pdf")
	os.WriteFile(path, p.Buf.Bytes(), 0o644)
	defer os.Remove(path)
	var outs []string
	k := map[string]interface{}{"format": "load", "objects": desc, "calls": calls}
	c.Guard("C02/load", k, 10, func() {
		rd, err := reader.Open(path)
		if err != nil {
			outs = []string{"open-failed:" + err.Error()}
			return
		}
		defer rd.Close()
		for _, n := range calls {
			obj, err := rd.GetObject(n)
			outs = append(outs, loadClass(err, obj))
		}
	})
	g := "-"
	if len(desc) > 0 {
		g = strings.Join(desc, ";")
	}
	c.Op(fmt.Sprintf("c02.load %s %s", g, commas(calls)), strings.Join(outs, ","))
	for _, o := range outs {
		c.Count("op-load-" + tag + "-" + o)
	}
	c.Case(fmt.Sprint("load", desc, calls), true)
}

func sortedInts[V any](m map[int]V) []int {
	var ks []int
	for k := range m {
		ks = append(ks, k)
	}
	for i := 1; i < len(ks); i++ {
		for j := i; j > 0 && ks[j] < ks[j-1]; j-- {
			ks[j], ks[j-1] = ks[j-1], ks[j]
		}
	}
	return ks
}

func loadOps(c *hx.Ctx) {
	// chains of indirect /Length at the edge of the nesting limit
	for _, k := range []int{1, 2, 15, 16, 17, 40} {
		objs := map[int]lobj{}
		for i := 1; i <= k; i++ {
			objs[i] = lobj{kind: "r", ref: i + 1}
		}
		objs[k+1] = lobj{kind: "i"}
		loadOp(c, objs, []int{1, k + 1, k, 1}, "chain")
	}
	r := hx.NewRng(c.Seed ^ 0xb002)
	for i := 0; i < c.N(150, 3000); i++ {
		n := r.Range(1, 9)
		objs := map[int]lobj{}
		for o := 1; o <= n; o++ {
			switch r.Intn(6) {
			case 0:
				objs[o] = lobj{kind: "i"}
			case 1:
				objs[o] = lobj{kind: "o"}
			case 2:
				objs[o] = lobj{kind: "s"}
			default:
				objs[o] = lobj{kind: "r", ref: r.Range(1, n+1)} // n+1: missing
			}
		}
		var calls []int
		for j := r.Range(1, 5); j > 0; j-- {
			calls = append(calls, r.Range(1, n+1))
		}
		loadOp(c, objs, calls, "rand")
	}
}

// ---- c02.ptree2 -----------------------------------------------------------------------

// pv is a value of the page-tree universe of the model (BoundsCore.PV).
type pv struct {
	kind  string // r p o k a
	n     int    // r
	kids  *pv    // k
	items []pv   // a
	other int    // o: which non-node
}

func (v pv) code() string {
	switch v.kind {
	case "r":
		return fmt.Sprintf("r%d.", v.n)
	case "p", "o":
		return v.kind
	case "k":
		return "k" + v.kids.code()
	}
	var b strings.Builder
	b.WriteString("a")
	for _, it := range v.items {
		b.WriteString(it.code())
	}
	b.WriteString("e")
	return b.String()
}

// pdf writes the value as PDF syntax. count is the /Count written into /Pages nodes
// ("" = no /Count entry at all).
func (v pv) pdf(count string) string {
	switch v.kind {
	case "r":
		return fmt.Sprintf("%d 0 R", v.n)
	case "p":
		return "<< /Type /Page /MediaBox [0 0 10 10] >>"
	case "o":
		return []string{"42", "<< /Type /Font >>", "<< /Foo 1 >>", "(kid)", "null", "<< /Type 7 >>"}[v.other%6]
	case "k":
		cnt := ""
		if count != "" {
			cnt = " /Count " + count
		}
		if v.kids.kind == "o" && v.kids.other%2 == 1 {
			return "<< /Type /Pages" + cnt + " >>" // no /Kids at all
		}
		return "<< /Type /Pages /Kids " + v.kids.pdf("1") + cnt + " >>"
	}
	var ss []string
	for _, it := range v.items {
		ss = append(ss, it.pdf("1"))
	}
	return "[" + strings.Join(ss, " ") + "]"
}

// ptree2Op: object 1 is the root of the page tree (the catalog's /Pages), objects 2.. are
// the graph.
func ptree2Op(c *hx.Ctx, objs map[int]pv, rootCount string, tag string) {
	p := writers.NewPDF("\n")
	entries := map[int]writers.XEntry{0: {Type: 0, F2: 65535}}
	var desc []string
	max := 1
	for _, n := range sortedInts(objs) {
		cnt := "1"
		if n == 1 {
			cnt = rootCount
		}
		entries[n] = writers.XEntry{Type: 1, F1: p.Obj(n, 0, objs[n].pdf(cnt))}
		desc = append(desc, fmt.Sprintf("%d=%s", n, objs[n].code()))
		if n > max {
			max = n
		}
	}
	cat := max + 2 // max+1 stays missing
	entries[cat] = writers.XEntry{Type: 1, F1: p.Obj(cat, 0, "<< /Type /Catalog /Pages 1 0 R >>")}
	p.XrefTable(entries, fmt.Sprintf("/Root %d 0 R /Size %d", cat, cat+1), -1, " \n")
	path := filepath.Join(c.OutDir, "c02-pt2.pdf")
	os.WriteFile(path, p.Buf.Bytes(), 0o644)
	defer os.Remove(path)
	out := "err"
	var k interface{} = map[string]interface{}{"format": "ptree2", "nodes": desc, "count": rootCount}
	if len(desc) > 50 {
		k = map[string]interface{}{"format": "ptree2", "shape": tag, "objects": len(desc)}
	}
	c.Guard("C02/ptree2", k, 20, func() {
		rd, err := reader.Open(path)
		if err != nil {
			return
		}
		defer rd.Close()
		if cnt, err := rd.PageCount(); err == nil {
			out = fmt.Sprintf("ok %d", cnt)
		}
	})
	declared := "int"
	if rootCount == "" || !isIntText(rootCount) {
		declared = "none"
	}
	if objs[1].kind != "k" {
		declared = "none" // no /Count entry is written
	}
	c.Op(fmt.Sprintf("c02.ptree2 %s %s", declared, strings.Join(desc, ";")), out)
	c.Count("op-ptree2-" + tag + "-" + out[:2])
	c.Case(fmt.Sprint("pt2", tag, len(desc), rootCount, strings.Join(desc, ";")), out != "err")
}

func isIntText(s string) bool {
	_, err := strconv.ParseInt(s, 10, 64)
	return err == nil
}

func genPV(r *hx.Rng, n, depth int, asKids bool) pv {
	ref := func() pv { return pv{kind: "r", n: r.Range(1, n+1)} } // n+1: missing object
	if asKids {
		// a /Kids value: mostly an array or a reference to one
		switch r.Intn(8) {
		case 0:
			return ref()
		case 1:
			return ref()
		case 2:
			return pv{kind: "o", other: r.Intn(6)}
		}
		var items []pv
		for k := r.Range(0, 3); k > 0; k-- {
			items = append(items, genPV(r, n, depth+1, false))
		}
		return pv{kind: "a", items: items}
	}
	switch x := r.Intn(12); {
	case x < 6:
		return ref()
	case x < 8:
		return pv{kind: "p"}
	case x < 10 && depth < 3:
		kids := genPV(r, n, depth+1, true)
		return pv{kind: "k", kids: &kids}
	case x == 10:
		return pv{kind: "o", other: r.Intn(6)}
	}
	return pv{kind: "p"}
}

func ptree2Ops(c *hx.Ctx) {
	// chains of /Pages nodes with one kid each, at the edge of the depth limit
	for _, k := range []int{3, 9998, 9999} {
		objs := map[int]pv{}
		for i := 1; i <= k+1; i++ { // object 1 is the root, k nodes below it
			kid := pv{kind: "a", items: []pv{{kind: "r", n: i + 1}}}
			objs[i] = pv{kind: "k", kids: &kid}
		}
		objs[k+2] = pv{kind: "p"}
		ptree2Op(c, objs, "1", fmt.Sprintf("chain%d", k))
	}
	// the root's /Count is not believed
	for _, cnt := range []string{"-1", "2147483648", "9223372036854775807", "0", "", "(x)", "1.5"} {
		kid := pv{kind: "a", items: []pv{{kind: "r", n: 2}, {kind: "r", n: 3}}}
		ptree2Op(c, map[int]pv{1: {kind: "k", kids: &kid}, 2: {kind: "p"}, 3: {kind: "p"}}, cnt, "count")
	}
	r := hx.NewRng(c.Seed ^ 0xb003)
	for i := 0; i < c.N(300, 6000); i++ {
		n := r.Range(1, 8)
		objs := map[int]pv{}
		rk := genPV(r, n, 0, true)
		objs[1] = pv{kind: "k", kids: &rk}
		if r.Chance(1, 30) {
			objs[1] = pv{kind: "p"}
		}
		for o := 2; o <= n; o++ {
			switch r.Intn(5) {
			case 0:
				objs[o] = pv{kind: "p"}
			case 1:
				// an array object (a target for an indirect /Kids)
				objs[o] = genPVArr(r, n)
			case 2:
				objs[o] = pv{kind: "o", other: r.Intn(6)}
			default:
				kids := genPV(r, n, 1, true)
				objs[o] = pv{kind: "k", kids: &kids}
			}
		}
		ptree2Op(c, objs, "1", "rand")
	}
}

func genPVArr(r *hx.Rng, n int) pv {
	var items []pv
	for k := r.Range(0, 3); k > 0; k-- {
		items = append(items, genPV(r, n, 2, false))
	}
	return pv{kind: "a", items: items}
}

// ---- c02.objstm -----------------------------------------------------------------------

func objstmOps(c *hx.Ctx) {
	r := hx.NewRng(c.Seed ^ 0xb004)
	edge := []int64{-1, -40, 2147483648, 4611686018427387904, 9223372036854775807, -9223372036854775808}
	for i := 0; i < c.N(300, 6000); i++ {
		npairs := r.Range(0, 4)
		if r.Chance(3, 4) {
			npairs = r.Range(1, 4)
		}
		body := r.Range(0, 18)
		if r.Chance(3, 4) {
			body = r.Range(4, 18)
		}
		var toks []string
		var text []string
		for j := 0; j < npairs; j++ {
			num := int64(r.Range(1, 99))
			off := int64(r.Range(0, body))
			if body > 0 && r.Chance(4, 5) {
				off = int64(r.Range(0, body-1))
			}
			if r.Chance(1, 12) {
				off = hx.Pick(r, edge)
			}
			if r.Chance(1, 12) {
				off = int64(body + r.Range(0, 2))
			}
			toks = append(toks, fmt.Sprint(num), fmt.Sprint(off))
			text = append(text, fmt.Sprint(num), fmt.Sprint(off))
		}
		if r.Chance(1, 10) && len(toks) > 0 {
			j := r.Intn(len(toks))
			toks[j] = "x"
			text[j] = hx.Pick(r, []string{"/n", "(s)", "1.5", "true", "[1]"})
		}
		// an offset exactly at the end of the decoded data is accepted by the header (and
		// an error only for the object that has it); one byte further the header is refused
		atEnd := npairs >= 2 && r.Chance(1, 8)
		if atEnd {
			v := fmt.Sprint(60 + r.Intn(2))
			toks[1], text[1] = v, v
		}
		header := strings.Join(text, " ")
		if len(header) > 0 {
			header += " "
		}
		first := int64(len(header) + r.Range(0, 3))
		if atEnd && 60-body >= len(header) {
			first = int64(60 - body)
		}
		header += strings.Repeat(" ", int(first)-len(header))
		n := int64(npairs)
		switch r.Intn(16) {
		case 0:
			n = hx.Pick(r, edge)
		case 1:
			n = int64(npairs + r.Range(1, 3))
		case 2:
			if npairs > 0 {
				n = int64(r.Range(0, npairs-1))
			}
		}
		digits := make([]byte, body)
		for j := range digits {
			digits[j] = byte('1' + j%9)
		}
		data := append([]byte(header), digits...)
		declFirst := first
		if r.Chance(1, 12) {
			declFirst = hx.Pick(r, []int64{-1, int64(len(data)) + 1, int64(len(data)), 2147483648, 9223372036854775807})
			if declFirst >= 0 && declFirst <= int64(len(data)) {
				// the header would be cut somewhere else: keep the model's token list honest
				declFirst = int64(len(data)) + 1
			}
		}
		index := int64(r.Range(-1, npairs+1))
		if npairs > 0 && r.Chance(4, 5) {
			index = int64(r.Intn(npairs))
		}
		if atEnd {
			index = 1
		}
		if r.Chance(1, 20) {
			index = hx.Pick(r, edge)
		}
		out := "err"
		k := map[string]interface{}{"format": "objstm", "n": n, "first": declFirst, "data": hx.Hex(data), "index": index}
		c.Guard("C02/objstm", k, 10, func() {
			st := &core.Stream{Dict: core.Dict{"Type": core.Name("ObjStm"), "N": core.Int(n), "First": core.Int(declFirst)}, Data: data}
			os, err := core.NewObjectStream(st)
			if err != nil {
				return
			}
			obj, num, err := os.GetObjectByIndex(int(index))
			if err != nil {
				return
			}
			if v, ok := obj.(core.Int); ok {
				s := fmt.Sprint(int64(v))
				out = fmt.Sprintf("ok %d %d %s", num, len(s), s[:1])
			} else {
				out = fmt.Sprintf("ok-other %T", obj)
			}
		})
		tl := "-"
		if len(toks) > 0 {
			tl = strings.Join(toks, ",")
		}
		c.Op(fmt.Sprintf("c02.objstm %d %d %d %s %d", n, declFirst, len(data), tl, index), out)
		c.Count("op-objstm-" + out[:2])
		c.Case(fmt.Sprint("os", n, declFirst, hx.Hex(data), index), out != "err")
	}
}

// ---- c02.rdeep ------------------------------------------------------------------------

type rv struct {
	kind  string // r l a
	n     int
	items []rv
	dict  bool // a with one item, written as a dictionary
}

func (v rv) code() string {
	switch v.kind {
	case "r":
		return fmt.Sprintf("r%d.", v.n)
	case "l":
		return fmt.Sprintf("l%d.", v.n)
	}
	var b strings.Builder
	b.WriteString("a")
	for _, it := range v.items {
		b.WriteString(it.code())
	}
	b.WriteString("e")
	return b.String()
}

func (v rv) obj() core.Object {
	switch v.kind {
	case "r":
		return core.IndirectRef{Number: v.n}
	case "l":
		return core.Int(v.n)
	}
	if v.dict && len(v.items) == 1 {
		return core.Dict{"K": v.items[0].obj()}
	}
	arr := make(core.Array, len(v.items))
	for i, it := range v.items {
		arr[i] = it.obj()
	}
	return arr
}

func (v rv) pdf() string {
	switch v.kind {
	case "r":
		return fmt.Sprintf("%d 0 R", v.n)
	case "l":
		return fmt.Sprint(v.n)
	}
	if v.dict && len(v.items) == 1 {
		return "<< /K " + v.items[0].pdf() + " >>"
	}
	var ss []string
	for _, it := range v.items {
		ss = append(ss, it.pdf())
	}
	return "[" + strings.Join(ss, " ") + "]"
}

// codeOf prints a resolved core.Object in the model's prefix code (iteratively bounded by
// budget: a result that is a huge tree is reported as such, not printed).
func codeOf(o core.Object, b *strings.Builder, budget *int) {
	if *budget <= 0 {
		return
	}
	*budget--
	switch v := o.(type) {
	case core.IndirectRef:
		fmt.Fprintf(b, "r%d.", v.Number)
	case core.Int:
		fmt.Fprintf(b, "l%d.", int64(v))
	case core.Array:
		b.WriteString("a")
		for _, it := range v {
			codeOf(it, b, budget)
		}
		b.WriteString("e")
	case core.Dict:
		b.WriteString("a")
		for _, it := range v {
			codeOf(it, b, budget)
		}
		b.WriteString("e")
	default:
		fmt.Fprintf(b, "?%T", o)
	}
}

func rdeepClass(err error) string {
	m := err.Error()
	switch {
	case strings.Contains(m, "nested deeper") || strings.Contains(m, "maximum recursion depth"):
		return "err-deep"
	case strings.Contains(m, "circular reference"):
		return "err-circular"
	case strings.Contains(m, "not found") || strings.Contains(m, "missing"):
		return "err-missing"
	}
	return "err:" + m
}

type countingReader struct {
	objs  map[int]rv
	calls int
}

func (cr *countingReader) GetObject(n int) (core.Object, error) {
	if o, ok := cr.objs[n]; ok {
		return o.obj(), nil
	}
	return nil, fmt.Errorf("object %d missing", n)
}

func (cr *countingReader) ResolveReference(ref core.IndirectRef) (core.Object, error) {
	cr.calls++
	return cr.GetObject(ref.Number)
}

func rdeepOp(c *hx.Ctx, mode string, lim int, root rv, objs map[int]rv, tag string) {
	countOnly := tag == "dag" // the result is a shared structure that is exponential as a tree
	var desc []string
	for _, n := range sortedInts(objs) {
		desc = append(desc, fmt.Sprintf("%d=%s", n, objs[n].code()))
	}
	g := "-"
	if len(desc) > 0 {
		g = strings.Join(desc, ";")
	}
	out := "?"
	var k interface{} = map[string]interface{}{"format": "rdeep", "mode": mode, "lim": lim, "root": root.code(), "nodes": desc}
	if len(root.code()) > 400 {
		k = map[string]interface{}{"format": "rdeep", "mode": mode, "shape": tag}
	}
	finish := func(res core.Object, err error, cnt int) {
		if err != nil {
			out = fmt.Sprintf("%s %d", rdeepClass(err), cnt)
			return
		}
		if countOnly {
			out = fmt.Sprintf("ok - %d", cnt)
			return
		}
		var b strings.Builder
		budget := 200000
		codeOf(res, &b, &budget)
		out = fmt.Sprintf("ok %s %d", b.String(), cnt)
	}
	if mode == "resolver" {
		c.Guard("C02/rdeep", k, 10, func() {
			cr := &countingReader{objs: objs}
			rs := resolver.NewResolver(cr, resolver.WithMaxDepth(lim))
			res, err := rs.ResolveDeep(root.obj())
			finish(res, err, cr.calls)
			c.Check("C02/rdeep-fetches-more-than-objects", cr.calls <= len(objs)+1, k,
				func() string { return fmt.Sprintf("%d ResolveReference calls for %d objects", cr.calls, len(objs)) })
		})
	} else {
		p := writers.NewPDF("\n")
		entries := map[int]writers.XEntry{0: {Type: 0, F2: 65535}}
		max := 0
		for _, n := range sortedInts(objs) {
			entries[n] = writers.XEntry{Type: 1, F1: p.Obj(n, 0, objs[n].pdf())}
			if n > max {
				max = n
			}
		}
		p.XrefTable(entries, fmt.Sprintf("/Size %d", max+1), -1, " \n")
		path := filepath.Join(c.OutDir, "c02-rdeep.pdf")
		os.WriteFile(path, p.Buf.Bytes(), 0o644)
		defer os.Remove(path)
		c.Guard("C02/rdeep", k, 10, func() {
			rd, err := reader.Open(path)
			if err != nil {
				out = "open-failed"
				return
			}
			defer rd.Close()
			before := rd.CacheSize()
			res, err := rd.ResolveDeep(root.obj())
			finish(res, err, rd.CacheSize()-before)
		})
	}
	opMode := mode
	if countOnly {
		opMode += "-count"
	}
	c.Op(fmt.Sprintf("c02.rdeep %s %d %s %s", opMode, lim, root.code(), g), out)
	c.Count("op-rdeep-" + mode + "-" + tag + "-" + strings.Fields(out)[0])
	c.Case(fmt.Sprint("rd", mode, lim, root.code(), g), strings.HasPrefix(out, "ok"))
}

func genRV(r *hx.Rng, n, depth int) rv {
	switch x := r.Intn(10); {
	case x < 5:
		return rv{kind: "r", n: r.Range(1, n+1)}
	case x < 7 || depth >= 3:
		return rv{kind: "l", n: r.Range(0, 9)}
	}
	var items []rv
	for k := r.Range(0, 3); k > 0; k-- {
		items = append(items, genRV(r, n, depth+1))
	}
	return rv{kind: "a", items: items, dict: r.Chance(1, 3)}
}

func nestRV(d int) rv {
	v := rv{kind: "l", n: 1}
	for i := 0; i < d; i++ {
		v = rv{kind: "a", items: []rv{v}}
	}
	return v
}

func rdeepOps(c *hx.Ctx) {
	// the depth limits at their edges
	rdeepOp(c, "reader", 0, nestRV(2000), map[int]rv{1: {kind: "l", n: 1}}, "edge")
	rdeepOp(c, "reader", 0, nestRV(2001), map[int]rv{1: {kind: "l", n: 1}}, "edge")
	rdeepOp(c, "resolver", 100, nestRV(99), nil, "edge")
	rdeepOp(c, "resolver", 100, nestRV(100), nil, "edge")
	// k references to the next array on each of d levels: k^d resolutions before the repairs
	for _, kd := range [][2]int{{2, 40}, {3, 30}} {
		objs := map[int]rv{}
		for i := 1; i <= kd[1]; i++ {
			var items []rv
			for j := 0; j < kd[0]; j++ {
				items = append(items, rv{kind: "r", n: i + 1})
			}
			objs[i] = rv{kind: "a", items: items}
		}
		objs[kd[1]+1] = rv{kind: "a"}
		rdeepOp(c, "reader", 0, rv{kind: "r", n: 1}, objs, "dag")
		rdeepOp(c, "resolver", 100, rv{kind: "r", n: 1}, objs, "dag")
	}
	r := hx.NewRng(c.Seed ^ 0xb005)
	for i := 0; i < c.N(300, 6000); i++ {
		n := r.Range(1, 7)
		objs := map[int]rv{}
		for o := 1; o <= n; o++ {
			objs[o] = genRV(r, n, 1)
			if objs[o].kind == "r" && r.Chance(2, 3) {
				objs[o] = rv{kind: "a", items: []rv{objs[o]}}
			}
		}
		root := genRV(r, n, 0)
		mode, lim := "reader", 0
		if r.Chance(1, 2) {
			mode, lim = "resolver", hx.Pick(r, []int{100, 100, 3, 5, 1, 0})
		}
		rdeepOp(c, mode, lim, root, objs, "rand")
	}
}

func boundsCoreOps(c *hx.Ctx) {
	readBytesOps(c)
	loadOps(c)
	ptree2Ops(c)
	objstmOps(c)
	rdeepOps(c)
}
