package c02

// Numbers at the edges of the structure's OWN size. The catalogue's fixed values (0, -1,
// 2^31, 2^63-1, ...) are all far outside any structure of the file, so a reader that
// checks each number on its own refuses them early. What is left is the number that is
// plausible on its own and wrong only in combination: an object-stream offset that lies
// inside the decoded data but beyond its end once /First is added, a /First that leaves
// the last member no room, an /N one larger than the header holds. For every object
// stream the harness knows (it wrote it) the header length H, the body length B and the
// decoded length L = H + B, and aims every field at those edges and one to each side:
//
//	offset of pair i   B-1, B (first+offset = L), B+1, the middle of (B, L], L-1, L
//	                   (the largest value a per-field check accepts), L+1, the pair's
//	                   true offset -1/+1, the next pair's offset
//	/First             H-1, H+1, B, the middle of (H, L], L-1, L, L+1, and the two
//	                   values that put the last member exactly at / one past the end
//	/N                 n-1, n+1, 2n, H, L
//
// The values are concrete numbers in the recorded case (the header grows or shrinks with
// the digits of the number written into it, which is taken into account).

import (
	"fmt"

	"verifharness/writers"
)

// stmShape: one object stream as the writer packs it when nothing is damaged.
type stmShape struct {
	nums, offs []string // header pairs
	body       int      // bytes after the header
}

func (s stmShape) header(site int, off string) int {
	h := 0
	for i := range s.nums {
		o := s.offs[i]
		if i == site {
			o = off
		}
		h += len(s.nums[i]) + 1 + len(o) + 1
	}
	return h
}

// stmShapes renders the undamaged document once more with a trace and reads the object
// streams (in writing order, which is the order of their ordinals) off it.
func stmShapes(doc writers.LDoc, lay writers.Layout) []stmShape {
	tr := &writers.Trace{}
	lay.Trace = tr
	lay.ObjHook, lay.ObjStmHook, lay.XrefHook = nil, nil, nil
	writers.RenderPDF(doc, lay)
	var out []stmShape
	for _, o := range tr.Objs {
		if len(o.Members) == 0 {
			continue
		}
		var s stmShape
		for _, m := range o.Members {
			s.nums = append(s.nums, fmt.Sprint(m.Num))
			s.offs = append(s.offs, fmt.Sprint(s.body))
			s.body += len(m.Body) + 1
		}
		out = append(out, s)
	}
	return out
}

// ownSizeFaults: the faults of object stream o described at the top of this file.
func ownSizeFaults(o int, s stmShape, thorough bool) []fault {
	var out []fault
	n := len(s.nums)
	if n == 0 {
		return nil
	}
	B := s.body
	H := s.header(-1, "")
	L := H + B
	add := func(site int, field string, v int) {
		if v >= 0 {
			out = append(out, fault{Kind: "objstm", Ordinal: o, Site: site, Value: fmt.Sprintf("%s=%d", field, v)})
		}
	}
	for site := 0; site < n; site++ {
		if !thorough && n > 8 && site > 2 && site < n-3 && site != n/2 {
			continue // quick: the first three, the middle one and the last three pairs
		}
		// targets that depend on the decoded length, which depends on the digits written
		for _, t := range []func(l int) int{
			func(l int) int { return l - 1 },
			func(l int) int { return l },
			func(l int) int { return l + 1 },
			func(l int) int { return (B + l + 1) / 2 },
		} {
			v := t(L)
			for k := 0; k < 3; k++ {
				v = t(s.header(site, fmt.Sprint(v)) + B)
			}
			add(site, "off", v)
		}
		own := 0
		fmt.Sscan(s.offs[site], &own)
		for _, v := range []int{B - 1, B, B + 1, own - 1, own + 1} {
			add(site, "off", v)
		}
		if site+1 < n {
			nx := 0
			fmt.Sscan(s.offs[site+1], &nx)
			add(site, "off", nx)
		}
	}
	last := 0
	fmt.Sscan(s.offs[n-1], &last)
	for _, v := range []int{H - 1, H + 1, B, (H + L + 1) / 2, L - 1, L, L + 1, L - last, L - last + 1, L - last - 1} {
		add(0, "first", v)
	}
	for _, v := range []int{n - 1, n + 1, 2 * n, H, L} {
		add(0, "n", v)
	}
	return out
}
