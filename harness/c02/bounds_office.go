package c02

// Correspondence ops for the bounded-work models of the office-format, HTML, EPUB and font
// readers (lean/TabulaModel/Model/BoundsOffice.lean).
//
//	c02.span    docx parseCell (w:gridSpan), odt parseCell (spans), odt parseTableColumns (repeats)
//	c02.ilvl    docx parseListLevel            c02.lvl   pptx extractParagraph (lvl)
//	c02.spaces  odt decodeInlineContentAt (<text:s text:c>)
//	c02.inline  docx (*paragraphXML).decodeContent, odt decodeInlineContentAt (nesting)
//	c02.chain   docx / odt buildInheritanceChain
//	c02.col     xlsx.ColumnToIndex
//	c02.merges  xlsx parseWorksheetPart: merged regions within the budget of one grid
//	c02.sheets  xlsx parseWorksheets: the workbook's grid budget over the history of entries
//	c02.tgrid   docx / odt limitTableGrid
//	c02.tree    htmldoc / epubdoc treeDeeperThan; htmldoc.OpenReader, epubdoc parseNavXHTML
//	c02.cmap4   font (*TrueTypeFont).parseCmapFormat4
//	c02.bfarr   font (*CMap).addBfRangeArray

import (
	"fmt"
	"os"
	"path/filepath"
	"runtime"
	"runtime/debug"
	"strconv"
	"strings"

	"github.com/tsawler/tabula/docx"
	"github.com/tsawler/tabula/epubdoc"
	"github.com/tsawler/tabula/font"
	"github.com/tsawler/tabula/htmldoc"
	"github.com/tsawler/tabula/odt"
	"github.com/tsawler/tabula/pptx"
	"github.com/tsawler/tabula/xlsx"
	"golang.org/x/net/html"

	"verifharness/hx"
	"verifharness/writers"
)

const textNS = `xmlns:text="urn:oasis:names:tc:opendocument:xmlns:text:1.0"`

func atoiArg(s string) string {
	v, err := strconv.Atoi(s)
	if err != nil {
		return "x"
	}
	return fmt.Sprint(v)
}

func numberOps(c *hx.Ctx) {
	r := hx.NewRng(c.Seed ^ 0x0f01)
	vals := []string{"1", "2", "5", "1023", "1024", "1025", "0", "-1", "2147483647", "2147483648", "4294967296", "9223372036854775807",
		"9223372036854775808", "99999999999999999999", "abc", "", " 5", "+5", "5 ", "0x10", "1e3", "-9223372036854775808"}
	for i := 0; i < c.N(20, 400); i++ {
		vals = append(vals, fmt.Sprint(r.Range(-5, 1100)))
	}
	for _, v := range vals {
		k := map[string]interface{}{"format": "span", "value": v}
		var g, oc, or, rep int
		c.Guard("C02/span", k, 10, func() {
			g = docx.VerifGridSpan(v)
			oc, _ = odt.VerifCellSpans(v, "1")
			_, or = odt.VerifCellSpans("1", v)
			rep = odt.VerifColumnRepeat(v)
		})
		a := atoiArg(v)
		if v == "" {
			a = "x" // an absent attribute is not looked at
		}
		for _, got := range []int{g, oc, or, rep} {
			c.Op("c02.span "+a, fmt.Sprint(got))
		}
		c.Count("op-span")
		c.Case("span"+v, true)
		// <text:s text:c="v"/>
		var texts []string
		var err error
		c.Guard("C02/spaces", k, 10, func() {
			texts, err = odt.VerifParagraphDecode([]byte(`<text:p ` + textNS + `><text:s text:c="` + writers.XMLEsc(v) + `"/></text:p>`))
		})
		out := "err"
		if err == nil && len(texts) == 1 {
			out = fmt.Sprint(len(texts[0]))
			c.Check("C02/spaces-not-spaces", strings.Trim(texts[0], " ") == "", k, func() string { return hx.HexS(texts[0]) })
		}
		c.Op("c02.spaces "+a, out)
		c.Count("op-spaces")
	}
	// w:ilvl: parseListLevel reads the digits itself
	ilvls := []string{"", "0", "7", "8", "9", "10", "2147483647", "99999999999999999999999999", "1a2", "a", "-3", "0000000003", " 4", "٣"}
	for i := 0; i < c.N(20, 400); i++ {
		ilvls = append(ilvls, fmt.Sprint(r.Range(0, 30)))
	}
	for _, s := range ilvls {
		got := -1
		c.Guard("C02/ilvl", map[string]interface{}{"format": "ilvl", "value": s}, 10, func() { got = docx.VerifParseListLevel(s) })
		// the model sees code points; everything generated here is ASCII except one Arabic-Indic
		// digit, which is not '0'..'9' for either side
		cps := make([]byte, 0, len(s))
		for _, ru := range s {
			if ru < 256 {
				cps = append(cps, byte(ru))
			} else {
				cps = append(cps, 'z')
			}
		}
		c.Op("c02.ilvl "+hx.Hex(cps), fmt.Sprint(got))
		c.Count("op-ilvl")
		c.Case("ilvl"+s, true)
	}
	for _, l := range []int{0, 1, 8, 9, -1, 2147483647, -2147483648, 4294967296, 9223372036854775807, -9223372036854775808} {
		got := -1
		c.Guard("C02/lvl", map[string]interface{}{"format": "lvl", "value": l}, 10, func() { got = pptx.VerifParagraphLevel(l) })
		c.Op(fmt.Sprintf("c02.lvl %d", l), fmt.Sprint(got))
		c.Count("op-lvl")
		c.Case(fmt.Sprint("lvl", l), true)
	}
}

// ---- c02.inline -----------------------------------------------------------------------

type inl struct {
	kind string // l s b
	kids []inl
}

func (v inl) code() string {
	if v.kind != "b" {
		return v.kind
	}
	var b strings.Builder
	b.WriteString("b")
	for _, k := range v.kids {
		b.WriteString(k.code())
	}
	b.WriteString("e")
	return b.String()
}

var docxBoxes = []string{"w:ins", "w:hyperlink", "w:sdt", "w:sdtContent", "w:smartTag", "w:fldSimple", "w:moveTo"}

func (v inl) docx(r *hx.Rng) string {
	switch v.kind {
	case "l":
		return `<w:r><w:t>x</w:t></w:r>`
	case "s":
		return hx.Pick(r, []string{`<w:bookmarkEnd w:id="0"/>`, `<w:del><w:r><w:delText>d</w:delText></w:r></w:del>`, `<w:proofErr w:type="spellStart"/>`})
	}
	tag := hx.Pick(r, docxBoxes)
	var b strings.Builder
	b.WriteString("<" + tag + ">")
	for _, k := range v.kids {
		b.WriteString(k.docx(r))
	}
	b.WriteString("</" + tag + ">")
	return b.String()
}

func (v inl) odt(r *hx.Rng) string {
	switch v.kind {
	case "l":
		return `<text:tab/>`
	case "s":
		return hx.Pick(r, []string{`<text:bookmark text:name="b"/>`, `<text:note><text:note-body><text:p>n</text:p></text:note-body></text:note>`})
	}
	tag := hx.Pick(r, []string{"text:span", "text:a"})
	var b strings.Builder
	b.WriteString("<" + tag + ">")
	for _, k := range v.kids {
		b.WriteString(k.odt(r))
	}
	b.WriteString("</" + tag + ">")
	return b.String()
}

func genInl(r *hx.Rng, depth int) []inl {
	var out []inl
	for n := r.Range(0, 4); n > 0; n-- {
		switch x := r.Intn(6); {
		case x < 3:
			out = append(out, inl{kind: "l"})
		case x == 3:
			out = append(out, inl{kind: "s"})
		case depth < 4:
			out = append(out, inl{kind: "b", kids: genInl(r, depth+1)})
		}
	}
	return out
}

func inlineOp(c *hx.Ctx, format string, nest int, kids []inl, r *hx.Rng) {
	var body, code strings.Builder
	for _, k := range kids {
		code.WriteString(k.code())
	}
	out := "?"
	k := map[string]interface{}{"format": "inline-" + format, "nest": nest, "body": code.String()}
	if format == "docx" {
		for _, kd := range kids {
			body.WriteString(kd.docx(r))
		}
		src := `<w:p ` + wNS + `>` + strings.Repeat("<w:ins>", nest) + body.String() + strings.Repeat("</w:ins>", nest) + `</w:p>`
		c.Guard("C02/inline", k, 20, func() {
			n, err := docx.VerifParagraphDecode([]byte(src))
			if err != nil {
				out = "err"
			} else {
				out = fmt.Sprintf("ok %d", n)
			}
		})
	} else {
		for _, kd := range kids {
			body.WriteString(kd.odt(r))
		}
		src := `<text:p ` + textNS + `>` + strings.Repeat("<text:span>", nest) + body.String() + strings.Repeat("</text:span>", nest) + `</text:p>`
		c.Guard("C02/inline", k, 20, func() {
			texts, err := odt.VerifParagraphDecode([]byte(src))
			if err != nil {
				out = "err"
			} else {
				out = fmt.Sprintf("ok %d", len(texts))
			}
		})
	}
	lim := docx.VerifMaxInlineDepth()
	if format == "odt" {
		lim = odt.VerifMaxInlineDepth()
	}
	b := code.String()
	if b == "" {
		b = "-"
	}
	c.Op(fmt.Sprintf("c02.inline %d %d %s", lim, nest, b), out)
	c.Count("op-inline-" + format + "-" + out[:2])
	c.Case(fmt.Sprint("inline", format, nest, b), out != "err")
}

func inlineOps(c *hx.Ctx) {
	r := hx.NewRng(c.Seed ^ 0x0f02)
	for _, f := range []string{"docx", "odt"} {
		for _, nest := range []int{9999, 10000, 10001, 20000} {
			inlineOp(c, f, nest, []inl{{kind: "l"}, {kind: "b", kids: []inl{{kind: "l"}}}}, r)
			inlineOp(c, f, nest, []inl{{kind: "l"}, {kind: "s"}}, r)
		}
		for i := 0; i < c.N(60, 1500); i++ {
			inlineOp(c, f, r.Intn(4), genInl(r, 0), r)
		}
	}
}

// ---- c02.chain ------------------------------------------------------------------------

func chainOps(c *hx.Ctx) {
	r := hx.NewRng(c.Seed ^ 0x0f03)
	run := func(parent map[int]int, n int, id int, tag string) {
		var dx, od strings.Builder
		dx.WriteString(`<?xml version="1.0" encoding="UTF-8" standalone="yes"?><w:styles ` + wNS + `>`)
		od.WriteString(`<?xml version="1.0" encoding="UTF-8"?><office:document-styles ` + odfNS + `><office:styles>`)
		var desc []string
		for i := 1; i <= n; i++ {
			p, ok := parent[i]
			if !ok {
				continue
			}
			based, par := "", ""
			if p != 0 {
				based = fmt.Sprintf(`<w:basedOn w:val="S%d"/>`, p)
				par = fmt.Sprintf(` style:parent-style-name="S%d"`, p)
			}
			fmt.Fprintf(&dx, `<w:style w:type="paragraph" w:styleId="S%d"><w:name w:val="Style %d"/>%s</w:style>`, i, i, based)
			fmt.Fprintf(&od, `<style:style style:name="S%d" style:family="paragraph"%s/>`, i, par)
			desc = append(desc, fmt.Sprintf("%d:%d", i, p))
		}
		dx.WriteString(`</w:styles>`)
		od.WriteString(`</office:styles></office:document-styles>`)
		name := ""
		if id != 0 {
			name = fmt.Sprintf("S%d", id)
		}
		sl := "-"
		if len(desc) > 0 {
			sl = strings.Join(desc, ",")
		}
		k := map[string]interface{}{"format": "chain", "styles": sl, "id": id}
		if len(desc) > 40 {
			k = map[string]interface{}{"format": "chain", "shape": tag, "styles": len(desc), "id": id}
		}
		for _, f := range []string{"docx", "odt"} {
			var ch []string
			c.Guard("C02/chain", k, 10, func() {
				if f == "docx" {
					ch = docx.VerifInheritanceChain([]byte(dx.String()), name)
				} else {
					ch = odt.VerifInheritanceChain([]byte(od.String()), name)
				}
			})
			var ids []string
			for _, s := range ch {
				ids = append(ids, strings.TrimPrefix(s, "S"))
			}
			out := "-"
			if len(ids) > 0 {
				out = strings.Join(ids, ",")
			}
			c.Op(fmt.Sprintf("c02.chain %s %d", sl, id), out)
			c.Check("C02/chain-longer-than-table", len(ch) <= len(desc)+1, k, func() string { return fmt.Sprint(len(ch)) })
			c.Count("op-chain-" + f + "-" + tag)
		}
		c.Case(fmt.Sprint("chain", sl, id), true)
	}
	// the authored shapes: self, cycle, tail into a cycle, long chain
	run(map[int]int{1: 1}, 1, 1, "self")
	run(map[int]int{1: 2, 2: 3, 3: 1}, 3, 1, "cycle")
	run(map[int]int{1: 2, 2: 3, 3: 4, 4: 3}, 4, 1, "rho")
	long := map[int]int{}
	for i := 1; i <= 600; i++ {
		long[i] = i + 1
	}
	long[600] = 0
	run(long, 600, 1, "chain")
	for i := 0; i < c.N(100, 2500); i++ {
		n := r.Range(1, 7)
		parent := map[int]int{}
		for s := 1; s <= n; s++ {
			if r.Chance(1, 8) {
				continue // not defined
			}
			parent[s] = r.Range(0, n+1)
		}
		run(parent, n, r.Range(0, n+1), "rand")
	}
}

// ---- c02.col / c02.merges / c02.sheets ------------------------------------------------

func xlsxBoundsOps(c *hx.Ctx) {
	r := hx.NewRng(c.Seed ^ 0x0f04)
	cols := []string{"A", "Z", "AA", "XFD", "xfd", "", "A1", "a-", "AÄ", strings.Repeat("Z", 8), strings.Repeat("Z", 9), strings.Repeat("A", 9),
		strings.Repeat("Z", 14), strings.Repeat("Z", 70), strings.Repeat("A", 5000), "CRPXNLSKVLJFHH", "CRPXNLSKVLJFHG"}
	for i := 0; i < c.N(60, 1500); i++ {
		b := make([]byte, r.Range(1, 10))
		for j := range b {
			b[j] = byte('A' + r.Intn(26))
			if r.Chance(1, 10) {
				b[j] = byte('a' + r.Intn(26))
			}
			if r.Chance(1, 40) {
				b[j] = hx.Pick(r, []byte{'1', '@', '[', '`', '{', ' '})
			}
		}
		cols = append(cols, string(b))
	}
	for _, s := range cols {
		if !isASCII(s) {
			continue // strings.ToUpper on non-ASCII letters is the library's business
		}
		got := -2
		c.Guard("C02/col", map[string]interface{}{"format": "col", "letters": len(s)}, 10, func() { got = xlsx.ColumnToIndex(s) })
		c.Op("c02.col "+hx.HexS(s), fmt.Sprint(got))
		c.Count("op-col")
		c.Case("col"+s, got >= 0)
	}
	// merged regions
	for i := 0; i < c.N(60, 1200); i++ {
		maxRow, maxCol := r.Range(1, 12), r.Range(0, 8)
		type reg struct{ sr, sc, er, ec int }
		var regs []reg
		used := map[[2]int]bool{}
		for n := r.Range(1, 7); n > 0; n-- {
			sr, sc := r.Range(0, maxRow+1), r.Range(0, maxCol+2)
			if used[[2]int{sr, sc}] {
				continue
			}
			used[[2]int{sr, sc}] = true
			g := reg{sr, sc, sr + r.Range(0, 3), sc + r.Range(0, 3)}
			switch r.Intn(6) {
			case 0:
				g.er, g.ec = 1048575, 16383 // ...:XFD1048576
			case 1:
				g.er = sr - r.Range(0, 1)
				g.ec = sc - r.Range(0, 1)
				if g.er < 0 {
					g.er = 0
				}
				if g.ec < 0 {
					g.ec = 0
				}
			}
			regs = append(regs, g)
		}
		if r.Chance(1, 6) { // the whole grid again and again
			regs = nil
			for n := 0; n < 5; n++ {
				regs = append(regs, reg{0, n % (maxCol + 1), 1048575, 16383})
			}
			seen := map[[2]int]bool{}
			var uniq []reg
			for _, g := range regs {
				if !seen[[2]int{g.sr, g.sc}] {
					uniq = append(uniq, g)
					seen[[2]int{g.sr, g.sc}] = true
				}
			}
			regs = uniq
		}
		if len(regs) == 0 {
			continue
		}
		var merges, desc []string
		for _, g := range regs {
			merges = append(merges, fmt.Sprintf("%s%d:%s%d", xlsx.IndexToColumn(g.sc), g.sr+1, xlsx.IndexToColumn(g.ec), g.er+1))
			desc = append(desc, fmt.Sprintf("%d:%d:%d:%d", g.sr, g.sc, g.er, g.ec))
		}
		v := "x"
		wb := writers.XWorkbook{Sheets: []writers.XSheet{{Name: "S", Path: "worksheets/sheet1.xml", RID: "rId1", Merges: merges,
			Rows: []writers.XRow{{R: maxRow, Cells: []writers.XCell{{Ref: xlsx.IndexToColumn(maxCol) + fmt.Sprint(maxRow), T: "inlineStr", Is: &v}}}}}}}
		path := filepath.Join(c.OutDir, "c02-merges.xlsx")
		os.WriteFile(path, writers.Zip(writers.XLSXMembers(wb)), 0o644)
		out := "open-failed"
		k := map[string]interface{}{"format": "merges", "rows": maxRow, "cols": maxCol + 1, "regions": desc}
		c.Guard("C02/merges", k, 20, func() {
			rd, err := xlsx.Open(path)
			if err != nil {
				return
			}
			defer rd.Close()
			sh, err := rd.Sheet(0)
			if err != nil {
				return
			}
			var b strings.Builder
			for _, g := range regs {
				if g.sr < len(sh.Rows) && g.sc < len(sh.Rows[g.sr]) && sh.Rows[g.sr][g.sc].IsMergeRoot {
					b.WriteString("1")
				} else {
					b.WriteString("0")
				}
			}
			out = b.String()
		})
		os.Remove(path)
		c.Op(fmt.Sprintf("c02.merges %d %d %s", maxRow, maxCol, strings.Join(desc, ",")), out)
		c.Count("op-merges")
		c.Case(fmt.Sprint("merges", maxRow, maxCol, desc), strings.Contains(out, "1"))
	}
	// the workbook's grid budget over the sheet entries of one Open
	sheetsOp := func(parts [][3]int, entries []int, tag string) {
		var sheets []writers.XSheet
		var desc []string
		for _, p := range entries {
			elems, maxRow, maxCol := parts[p][0], parts[p][1], parts[p][2]
			v := "x"
			var first []writers.XCell
			for j := 0; j < elems-1; j++ {
				first = append(first, writers.XCell{Ref: xlsx.IndexToColumn(j) + "1", T: "inlineStr", Is: &v})
			}
			far := writers.XCell{Ref: xlsx.IndexToColumn(maxCol) + fmt.Sprint(maxRow), T: "inlineStr", Is: &v}
			var rows []writers.XRow
			if maxRow == 1 {
				rows = []writers.XRow{{R: 1, Cells: append(first, far)}}
			} else {
				rows = []writers.XRow{{R: 1, Cells: first}, {R: maxRow, Cells: []writers.XCell{far}}}
			}
			sheets = append(sheets, writers.XSheet{Name: fmt.Sprintf("E%d", len(sheets)), Path: fmt.Sprintf("worksheets/sheet%d.xml", p+1),
				RID: fmt.Sprintf("rId%d", len(sheets)+1), Rows: rows})
			desc = append(desc, fmt.Sprintf("%d:%d:%d:%d", p+1, elems, maxRow, maxCol))
		}
		var ms []writers.Member
		seen := map[string]bool{}
		for _, m := range writers.XLSXMembers(writers.XWorkbook{Sheets: sheets}) {
			if !seen[m.Name] {
				ms = append(ms, m)
				seen[m.Name] = true
			}
		}
		path := filepath.Join(c.OutDir, "c02-sheets.xlsx")
		os.WriteFile(path, writers.Zip(ms), 0o644)
		loaded := map[string]bool{}
		k := map[string]interface{}{"format": "sheets", "entries": desc}
		c.Guard("C02/sheets", k, 60, func() {
			rd, err := xlsx.Open(path)
			if err != nil {
				return
			}
			defer rd.Close()
			for _, n := range rd.SheetNames() {
				loaded[n] = true
			}
		})
		os.Remove(path)
		var b strings.Builder
		for e := range sheets {
			if loaded[fmt.Sprintf("E%d", e)] {
				b.WriteString("1")
			} else {
				b.WriteString("0")
			}
		}
		c.Op("c02.sheets "+strings.Join(desc, ","), b.String())
		c.Count("op-sheets-" + tag)
		c.Case(fmt.Sprint("sheets", desc), strings.Contains(b.String(), "1"))
	}
	// one cell element allows 16 cells beyond the 8 Mi budget: one more column is refused
	sheetsOp([][3]int{{1, 1, 8388608 + 16}, {2, 3, 3}}, []int{0, 1}, "edge")
	sheetsOp([][3]int{{3, 2, 4194304 + 24}, {2, 3, 3}}, []int{0, 1, 1}, "edge")
	if c.Thorough() {
		// (880 MB of cells each) the widest sheet that is accepted takes the whole budget; a
		// part of 16 cells still fits once, by its own allowance, and not a second time
		sheetsOp([][3]int{{1, 1, 8388608 + 15}, {1, 1, 15}}, []int{0, 1, 1}, "full")
		runtime.GC()
		debug.FreeOSMemory()
	}
	for i := 0; i < c.N(50, 1000); i++ {
		nparts := r.Range(1, 3)
		type part struct{ elems, maxRow, maxCol int }
		parts := make([]part, nparts)
		for p := range parts {
			parts[p] = part{elems: r.Range(1, 6), maxRow: r.Range(1, 20), maxCol: r.Range(0, 10)}
			switch r.Intn(5) {
			case 0:
				parts[p].maxRow, parts[p].maxCol = 1048576, 16383 // XFD1048576
			case 1:
				parts[p].maxRow, parts[p].maxCol = hx.Pick(r, []int{1, 2, 512, 600000}), hx.Pick(r, []int{16383, 8388607, 8388608, 8388623, 8388624})
			}
			if parts[p].elems-1 > parts[p].maxCol+1 {
				parts[p].elems = parts[p].maxCol + 2
			}
		}
		var sheets []writers.XSheet
		var desc []string
		for e := r.Range(1, 5); e > 0; e-- {
			p := r.Intn(nparts)
			pt := parts[p]
			v := "x"
			// elems-1 cells in row 1 and the far cell
			var first []writers.XCell
			for j := 0; j < pt.elems-1; j++ {
				first = append(first, writers.XCell{Ref: xlsx.IndexToColumn(j) + "1", T: "inlineStr", Is: &v})
			}
			far := writers.XCell{Ref: xlsx.IndexToColumn(pt.maxCol) + fmt.Sprint(pt.maxRow), T: "inlineStr", Is: &v}
			var rows []writers.XRow
			if pt.maxRow == 1 {
				rows = []writers.XRow{{R: 1, Cells: append(first, far)}}
			} else {
				rows = []writers.XRow{{R: 1, Cells: first}, {R: pt.maxRow, Cells: []writers.XCell{far}}}
			}
			sheets = append(sheets, writers.XSheet{Name: fmt.Sprintf("E%d", len(sheets)), Path: fmt.Sprintf("worksheets/sheet%d.xml", p+1),
				RID: fmt.Sprintf("rId%d", len(sheets)+1), Rows: rows})
			desc = append(desc, fmt.Sprintf("%d:%d:%d:%d", p+1, pt.elems, pt.maxRow, pt.maxCol))
		}
		// accepted grids are allocated: keep them small
		big := false
		for _, p := range parts {
			if cells := int64(p.maxRow) * int64(p.maxCol+1); cells <= 8<<20+16*int64(p.elems) && cells > 200000 {
				big = true
			}
		}
		if big {
			continue
		}
		var ms []writers.Member
		seen := map[string]bool{}
		for _, m := range writers.XLSXMembers(writers.XWorkbook{Sheets: sheets}) {
			if !seen[m.Name] {
				ms = append(ms, m)
				seen[m.Name] = true
			}
		}
		path := filepath.Join(c.OutDir, "c02-sheets.xlsx")
		os.WriteFile(path, writers.Zip(ms), 0o644)
		loaded := map[string]bool{}
		k := map[string]interface{}{"format": "sheets", "entries": desc}
		c.Guard("C02/sheets", k, 20, func() {
			rd, err := xlsx.Open(path)
			if err != nil {
				return
			}
			defer rd.Close()
			for _, n := range rd.SheetNames() {
				loaded[n] = true
			}
		})
		os.Remove(path)
		var b strings.Builder
		for e := range sheets {
			if loaded[fmt.Sprintf("E%d", e)] {
				b.WriteString("1")
			} else {
				b.WriteString("0")
			}
		}
		c.Op("c02.sheets "+strings.Join(desc, ","), b.String())
		c.Count("op-sheets")
		c.Case(fmt.Sprint("sheets", desc), strings.Contains(b.String(), "1"))
	}
}

func isASCII(s string) bool {
	for i := 0; i < len(s); i++ {
		if s[i] >= 0x80 {
			return false
		}
	}
	return true
}

// ---- c02.tgrid ------------------------------------------------------------------------

func tgridOps(c *hx.Ctx) {
	r := hx.NewRng(c.Seed ^ 0x0f05)
	run := func(rows [][][2]int, tag string) {
		var desc []string
		for _, row := range rows {
			var cs []string
			for _, cell := range row {
				cs = append(cs, fmt.Sprintf("%d:%d", cell[0], cell[1]))
			}
			if len(cs) == 0 {
				desc = append(desc, "_")
			} else {
				desc = append(desc, strings.Join(cs, ","))
			}
		}
		line := "-"
		if len(desc) > 0 {
			line = strings.Join(desc, ";")
		}
		k := map[string]interface{}{"format": "tgrid", "shape": tag, "rows": len(rows)}
		for _, f := range []string{"docx", "odt"} {
			var got []string
			c.Guard("C02/tgrid", k, 10, func() {
				if f == "docx" {
					t := &docx.ParsedTable{}
					for _, row := range rows {
						pr := docx.ParsedTableRow{}
						for _, cell := range row {
							pr.Cells = append(pr.Cells, docx.ParsedTableCell{ColSpan: cell[0], RowSpan: cell[1]})
						}
						t.Rows = append(t.Rows, pr)
					}
					docx.VerifLimitTableGrid(t)
					for _, pr := range t.Rows {
						var cs []string
						for _, cell := range pr.Cells {
							cs = append(cs, fmt.Sprintf("%d:%d", cell.ColSpan, cell.RowSpan))
						}
						if len(cs) == 0 {
							got = append(got, "_")
						} else {
							got = append(got, strings.Join(cs, ","))
						}
					}
				} else {
					t := &odt.ParsedTable{}
					for _, row := range rows {
						pr := odt.ParsedTableRow{}
						for _, cell := range row {
							pr.Cells = append(pr.Cells, odt.ParsedTableCell{ColSpan: cell[0], RowSpan: cell[1]})
						}
						t.Rows = append(t.Rows, pr)
					}
					odt.VerifLimitTableGrid(t)
					for _, pr := range t.Rows {
						var cs []string
						for _, cell := range pr.Cells {
							cs = append(cs, fmt.Sprintf("%d:%d", cell.ColSpan, cell.RowSpan))
						}
						if len(cs) == 0 {
							got = append(got, "_")
						} else {
							got = append(got, strings.Join(cs, ","))
						}
					}
				}
			})
			out := "-"
			if len(got) > 0 {
				out = strings.Join(got, ";")
			}
			c.Op("c02.tgrid "+line, out)
			c.Count("op-tgrid-" + f + "-" + tag)
		}
		c.Case(fmt.Sprint("tgrid", tag, len(rows), line[:min(len(line), 200)]), true)
	}
	// at the edge of 2^20 grid cells: 1024 columns x 1024 rows is kept, one more row is not
	for _, nrows := range []int{1024, 1025} {
		rows := [][][2]int{{{1024, 1}}}
		for i := 1; i < nrows; i++ {
			rows = append(rows, nil)
		}
		run(rows, fmt.Sprintf("edge%d", nrows))
	}
	run([][][2]int{{{1024, 1024}, {1024, 1}}, {{1, 1}}}, "spans")
	for i := 0; i < c.N(80, 2000); i++ {
		var rows [][][2]int
		for n := r.Range(0, 5); n > 0; n-- {
			var row [][2]int
			for m := r.Range(0, 4); m > 0; m-- {
				cell := [2]int{1, 1}
				if r.Chance(1, 3) {
					cell = [2]int{hx.Pick(r, []int{1, 2, 3, 512, 1024}), hx.Pick(r, []int{1, 1, 2, 1024})}
				}
				row = append(row, cell)
			}
			rows = append(rows, row)
		}
		if r.Chance(1, 4) { // many empty rows under wide cells
			for n := r.Range(300, 1100); n > 0; n-- {
				rows = append(rows, nil)
			}
		}
		run(rows, "rand")
	}
}

// ---- c02.tree -------------------------------------------------------------------------

// shapeOf writes the tree x/net/html built as nested parentheses, without recursion.
func shapeOf(root *html.Node) string {
	var b strings.Builder
	b.WriteString("(")
	n := root
	for {
		if n.FirstChild != nil {
			n = n.FirstChild
			b.WriteString("(")
			continue
		}
		for n != root && n.NextSibling == nil {
			b.WriteString(")")
			n = n.Parent
		}
		if n == root {
			break
		}
		b.WriteString(")")
		n = n.NextSibling
		b.WriteString("(")
	}
	b.WriteString(")")
	return b.String()
}

func treeOp(c *hx.Ctx, src string, limit int, tag string) {
	doc, err := html.Parse(strings.NewReader(src))
	if err != nil {
		return
	}
	shape := shapeOf(doc)
	k := map[string]interface{}{"format": "tree", "shape": tag, "limit": limit, "bytes": len(src)}
	for _, f := range []string{"html", "epub"} {
		out := "?"
		c.Guard("C02/tree", k, 20, func() {
			var deeper bool
			var err error
			if f == "html" {
				deeper, err = htmldoc.VerifTreeDeeperThanSrc(src, limit)
			} else {
				deeper, err = epubdoc.VerifTreeDeeperThan([]byte(src), limit)
			}
			switch {
			case err != nil:
				out = "parse-error"
			case deeper:
				out = "deeper"
			default:
				out = "ok"
			}
		})
		c.Op(fmt.Sprintf("c02.tree %d 0 %s", limit, shape), out)
		c.Count("op-tree-" + f + "-" + tag + "-" + out)
	}
	c.Case(fmt.Sprint("tree", tag, limit, len(src), shape[:min(len(shape), 300)]), true)
}

func genHTML(r *hx.Rng, depth int) string {
	var b strings.Builder
	for n := r.Range(0, 3); n > 0; n-- {
		switch x := r.Intn(5); {
		case x == 0:
			b.WriteString("t")
		case x == 1:
			b.WriteString("<br>")
		case depth < 6:
			tag := hx.Pick(r, []string{"span", "span", "em", "p", "div", "ul", "li"})
			b.WriteString("<" + tag + ">" + genHTML(r, depth+1) + "</" + tag + ">")
		}
	}
	return b.String()
}

func treeOps(c *hx.Ctx) {
	r := hx.NewRng(c.Seed ^ 0x0f06)
	nest := func(n int) string {
		return "<html><head><title>t</title></head><body><p>" + strings.Repeat("<span>", n) + "x" + strings.Repeat("</span>", n) + "</p></body></html>"
	}
	// the real entry points at the real limit: document > html > body > p > n spans > text
	lim := htmldoc.VerifMaxTreeDepth
	for _, n := range []int{lim - 8, lim - 7, lim - 6, lim - 4, lim - 3, lim + 50} {
		src := nest(n)
		treeOp(c, src, lim, fmt.Sprintf("nest%+d", n-lim))
		doc, _ := html.Parse(strings.NewReader(src))
		depth, cur := 0, -1 // the root is at depth 0
		for _, ch := range shapeOf(doc) {
			if ch == '(' {
				cur++
				if cur > depth {
					depth = cur
				}
			} else {
				cur--
			}
		}
		// the entry points themselves, with their own constants
		navSrc := strings.Replace(strings.Replace(src, "<p>", `<nav epub:type="toc"><ol><li><a href="c.xhtml">`, 1), "</p>", "</a></li></ol></nav>", 1)
		navDoc, _ := html.Parse(strings.NewReader(navSrc))
		kk := map[string]interface{}{"format": "tree-open", "nest": n}
		openOut, navOut := "?", "?"
		c.Guard("C02/tree-open", kk, 20, func() {
			rd, err := htmldoc.OpenReader(strings.NewReader(src))
			switch {
			case err == nil:
				openOut = "ok"
				rd.Close()
			case strings.Contains(err.Error(), "nested deeper"):
				openOut = "refused"
			default:
				openOut = "err:" + err.Error()
			}
			_, err = epubdoc.VerifParseNavXHTML([]byte(navSrc))
			switch {
			case err == nil:
				navOut = "ok"
			case strings.Contains(err.Error(), "nested deeper"):
				navOut = "refused"
			default:
				navOut = "err:" + err.Error()
			}
		})
		c.Op("c02.treeopen "+shapeOf(doc), openOut)
		c.Op("c02.treeopen "+shapeOf(navDoc), navOut)
		c.Check("C02/tree-open-disagrees-with-depth", (openOut == "refused") == (depth > lim), kk,
			func() string { return fmt.Sprint("depth ", depth, " result ", openOut) })
		c.Count("op-treeopen-html-" + openOut)
		c.Count("op-treeopen-nav-" + navOut)
	}
	for i := 0; i < c.N(100, 2500); i++ {
		src := "<html><body>" + genHTML(r, 0) + "</body></html>"
		if r.Chance(1, 6) {
			src = genHTML(r, 0) // no wrapper: the parser supplies one
		}
		treeOp(c, src, r.Range(0, 9), "rand")
	}
}

// ---- c02.cmap4 / c02.bfarr ------------------------------------------------------------

func cmap4Ops(c *hx.Ctx) {
	r := hx.NewRng(c.Seed ^ 0x0f07)
	run := func(st, en []int, tag string) {
		n := len(st)
		var b []byte
		u16 := func(v int) { b = append(b, byte(v>>8), byte(v)) }
		u16(16 + 8*n) // length
		u16(0)        // language
		u16(2 * n)    // segCountX2
		u16(0)
		u16(0)
		u16(0)
		for _, e := range en {
			u16(e)
		}
		u16(0) // reservedPad
		for _, s := range st {
			u16(s)
		}
		for i := 0; i < 2*n; i++ { // idDelta, idRangeOffset
			u16(0)
		}
		out := "?"
		k := map[string]interface{}{"format": "cmap4", "shape": tag, "segments": n}
		c.Guard("C02/cmap4", k, 20, func() {
			codes, err := font.VerifParseCmapFormat4(b)
			if err != nil {
				out = "err:" + err.Error()
				return
			}
			sum := 0
			for _, cd := range codes {
				sum += cd
			}
			out = fmt.Sprintf("%d %d", len(codes), sum)
		})
		c.Op(fmt.Sprintf("c02.cmap4 %s %s", commas(st), commas(en)), out)
		c.Count("op-cmap4-" + tag)
		c.Case(fmt.Sprint("cmap4", tag, n, commas(st)[:min(len(commas(st)), 100)]), true)
	}
	// the witness: many segments all covering everything
	all := func(n int) ([]int, []int) {
		st, en := make([]int, n), make([]int, n)
		for i := range en {
			en[i] = 0xFFFF
		}
		return st, en
	}
	st, en := all(300)
	run(st, en, "fanout")
	run([]int{0xFFFF}, []int{0xFFFF}, "last")
	run([]int{5, 0}, []int{4, 0xFFFF}, "reversed")
	for i := 0; i < c.N(100, 2500); i++ {
		n := r.Range(0, 6)
		st, en := make([]int, n), make([]int, n)
		for j := range st {
			st[j] = r.Range(0, 300)
			en[j] = st[j] + r.Range(-3, 60)
			if en[j] < 0 {
				en[j] = 0
			}
			if r.Chance(1, 10) {
				en[j] = 0xFFFF - r.Range(0, 2)
				st[j] = 0xFFFF - r.Range(0, 40)
			}
		}
		run(st, en, "rand")
	}
	// bfrange with an array of destinations, also at the uint32 edge
	for i := 0; i < c.N(60, 1200); i++ {
		start := uint64(r.Range(0, 200))
		if r.Chance(1, 3) {
			start = 0xFFFFFFFF - uint64(r.Range(0, 3))
		}
		end := start + uint64(r.Range(0, 5))
		if r.Chance(1, 4) {
			end = start - uint64(r.Range(0, 3))
		}
		if end > 0xFFFFFFFF {
			end = 0xFFFFFFFF
		}
		n := r.Range(0, 6)
		var arr []string
		for j := 0; j < n; j++ {
			arr = append(arr, fmt.Sprintf("<%04X>", 0x41+j))
		}
		data := fmt.Sprintf("/CIDInit /ProcSet findresource begin 12 dict begin begincmap\n1 begincodespacerange <00000000> <FFFFFFFF> endcodespacerange\n1 beginbfrange\n<%08X> <%08X> [%s]\nendbfrange\nendcmap\n", start, end, strings.Join(arr, " "))
		out := "?"
		k := map[string]interface{}{"format": "bfarr", "start": start, "end": end, "n": n}
		c.Guard("C02/bfarr", k, 10, func() {
			cm, err := font.VerifParseCMapData([]byte(data))
			if err != nil {
				out = "err"
				return
			}
			_, _, chars, _ := font.VerifCMapState(cm)
			sum := uint64(0)
			for _, ch := range chars {
				sum += uint64(ch.Code)
			}
			out = fmt.Sprintf("%d %d", len(chars), sum)
		})
		c.Op(fmt.Sprintf("c02.bfarr %d %d %d", start, end, n), out)
		c.Count("op-bfarr")
		c.Case(fmt.Sprint("bfarr", start, end, n), true)
	}
}

func boundsOfficeOps(c *hx.Ctx) {
	numberOps(c)
	inlineOps(c)
	chainOps(c)
	xlsxBoundsOps(c)
	tgridOps(c)
	treeOps(c)
	cmap4Ops(c)
}
