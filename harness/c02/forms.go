package c02

import (
	"bytes"
	"fmt"
	"os"
	"path/filepath"
	"strings"

	"verifharness/hx"
)

// Form XObjects that invoke Form XObjects. A form may be drawn many times and may draw
// other forms; the work a page asks for is then the product of the fan-outs along a
// chain, not the size of the file. Every shape below is a well-formed PDF of a few
// hundred bytes to a few kilobytes:
//   self   one form that draws itself k times (forbidden by the specification, cheap to write)
//   chain  d forms, form i draws form i+1 k times (legal)
//   mutual two forms drawing each other k times
//   wide   one page drawing one form of s operators n times (legal, linear: the control)
type formCase struct {
	Format string `json:"format"` // "pdf-forms"
	Shape  string `json:"shape"`
	K      int    `json:"k"`
	D      int    `json:"d"`
	OwnRes bool   `json:"own_resources"` // forms carry their own /Resources (else inherit the page's)
}

func formPDF(fc formCase) []byte {
	nforms := 1
	switch fc.Shape {
	case "chain":
		nforms = fc.D
	case "mutual":
		nforms = 2
	}
	xobj := "<< "
	for i := 0; i < nforms; i++ {
		xobj += fmt.Sprintf("/Fm%d %d 0 R ", i, 10+i)
	}
	xobj += ">>"
	res := "<< /Font << /F1 5 0 R >> /XObject " + xobj + " >>"
	body := func(i int) string {
		text := fmt.Sprintf("BT /F1 12 Tf %d %d Td (f%d) Tj ET ", 10+i, 700-12*i, i)
		switch fc.Shape {
		case "self":
			return text + strings.Repeat("/Fm0 Do ", fc.K)
		case "chain":
			if i+1 < nforms {
				return text + strings.Repeat(fmt.Sprintf("/Fm%d Do ", i+1), fc.K)
			}
			return text
		case "mutual":
			return text + strings.Repeat(fmt.Sprintf("/Fm%d Do ", 1-i), fc.K)
		default: // wide
			return strings.Repeat(text, fc.D)
		}
	}
	page := "/Fm0 Do "
	if fc.Shape == "wide" {
		page = strings.Repeat("/Fm0 Do ", fc.K)
	}
	objs := map[int]string{
		1: "<< /Type /Catalog /Pages 2 0 R >>",
		2: "<< /Type /Pages /Kids [3 0 R] /Count 1 >>",
		3: "<< /Type /Page /Parent 2 0 R /MediaBox [0 0 612 792] /Contents 4 0 R /Resources " + res + " >>",
		4: fmt.Sprintf("<< /Length %d >>\nstream\n%s\nendstream", len(page), page),
		5: "<< /Type /Font /Subtype /Type1 /BaseFont /Helvetica >>",
	}
	for i := 0; i < nforms; i++ {
		b := body(i)
		r := ""
		if fc.OwnRes {
			r = " /Resources " + res
		}
		objs[10+i] = fmt.Sprintf("<< /Type /XObject /Subtype /Form /BBox [0 0 612 792]%s /Length %d >>\nstream\n%s\nendstream", r, len(b), b)
	}
	var b bytes.Buffer
	b.WriteString("%PDF-1.4\n")
	max := 10 + nforms
	offs := make([]int, max)
	for n := 1; n < max; n++ {
		if o, ok := objs[n]; ok {
			offs[n] = b.Len()
			fmt.Fprintf(&b, "%d 0 obj\n%s\nendobj\n", n, o)
		}
	}
	x := b.Len()
	fmt.Fprintf(&b, "xref\n0 %d\n0000000000 65535 f \n", max)
	for n := 1; n < max; n++ {
		if offs[n] > 0 {
			fmt.Fprintf(&b, "%010d 00000 n \n", offs[n])
		} else {
			b.WriteString("0000000000 65535 f \n")
		}
	}
	fmt.Fprintf(&b, "trailer\n<< /Size %d /Root 1 0 R >>\nstartxref\n%d\n%%%%EOF\n", max, x)
	return b.Bytes()
}

func runForm(c *hx.Ctx, fc formCase) {
	data := formPDF(fc)
	path := filepath.Join(c.OutDir, "c02-forms.pdf")
	os.WriteFile(path, data, 0o644)
	defer os.Remove(path)
	exercise(c, kase{Format: "pdf-forms", Faults: []fault{{Kind: "forms-" + fc.Shape, Site: fc.K, Ordinal: fc.D, Value: fmt.Sprint(fc.OwnRes)}}}, path, data)
	c.Count("pdf-forms-" + fc.Shape)
	c.Case(fmt.Sprint(fc), true)
}

func formCases() []formCase {
	var out []formCase
	for _, own := range []bool{false, true} {
		out = append(out,
			formCase{Format: "pdf-forms", Shape: "wide", K: 2000, D: 50, OwnRes: own},
			formCase{Format: "pdf-forms", Shape: "self", K: 1, OwnRes: own},
			formCase{Format: "pdf-forms", Shape: "self", K: 3, OwnRes: own},
			formCase{Format: "pdf-forms", Shape: "self", K: 8, OwnRes: own},
			formCase{Format: "pdf-forms", Shape: "self", K: 40, OwnRes: own},
			formCase{Format: "pdf-forms", Shape: "mutual", K: 6, OwnRes: own},
			formCase{Format: "pdf-forms", Shape: "chain", K: 2, D: 9, OwnRes: own},
			formCase{Format: "pdf-forms", Shape: "chain", K: 6, D: 10, OwnRes: own},
			formCase{Format: "pdf-forms", Shape: "chain", K: 30, D: 7, OwnRes: own},
			formCase{Format: "pdf-forms", Shape: "chain", K: 2, D: 40, OwnRes: own},
		)
	}
	return out
}

func formFanout(c *hx.Ctx) {
	for i, fc := range formCases() {
		// quick: the page-resources half without the two slowest shapes
		if !c.Thorough() && (fc.OwnRes || (fc.Shape == "self" && fc.K == 40) || (fc.Shape == "chain" && fc.K == 30) || i%10 == 2) {
			continue
		}
		runForm(c, fc)
	}
}
