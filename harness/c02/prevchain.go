package c02

// The graph of /Prev pointers. A file of n cross-reference sections is a functional
// graph: every section names at most one predecessor. The catalogue's fixed values for
// /Prev (0, -1, 5, 2^31, 2^63-1) never land on a section, so they only ever test "the
// pointer leads nowhere". What a reader's cycle guard has to survive is the pointer that
// leads SOMEWHERE: to the section itself, to a newer section (a cycle through the
// sections already read), to an older one (sections skipped, or read twice when two
// pointers meet). And the guard has to recognise the pointer however the number is
// spelled: PDF numbers have several spellings of one value (an integer, a real with a
// zero fraction, a sign, leading zeros), and a guard that compares one spelling while the
// follower accepts another is no guard.
//
// So: for every section x and every section t of the file (t = x, t older, t newer), in
// every spelling, /Prev of x := offset of t (thorough: also one byte to each side); and
// whole graphs in which every section draws its target and spelling. The offsets are
// those of the file as written (the respelled number is padded to the width of the
// placeholder it replaces, so nothing moves). Expectation: the property itself - every
// entry point returns within the deadline and the heap limit (exercise / Guard).

import (
	"bytes"
	"fmt"
	"strings"

	"verifharness/hx"
)

// prevPlaceholder + section ordinal is what render writes for /Prev before the final
// offsets are known: ten digits, found again as text and replaced in place.
const prevPlaceholder = 1000000000

// prevSpellings: name -> format of a non-negative number below 10^5 in at most 10 bytes.
// All but "half" denote the same number; "half" is the real right next to it (a follower
// that truncates lands on the section, a guard that wants an integer does not see it).
var prevSpellings = []struct{ name, format string }{
	{"int", "%d"},
	{"real", "%d.0"},
	{"real-dot", "%d."},
	{"real-00", "%d.00"},
	{"plus", "+%d"},
	{"plus-real", "+%d.0"},
	{"zeros", "%010d"},
	{"zeros-real", "00%d.0"},
	{"half", "%d.5"},
}

func prevSpelling(name string, n int64) string {
	for _, s := range prevSpellings {
		if s.name == name {
			return fmt.Sprintf(s.format, n)
		}
	}
	return fmt.Sprint(n)
}

// sectionOffsets: where the cross-reference sections of the rendered file begin, oldest
// first. prevs[i] is the /Prev the writer chose for section i (the offset of section i-1;
// none for the oldest); the newest section is the one startxref names.
func sectionOffsets(data []byte, prevs []int64) []int64 {
	var offs []int64
	for i, p := range prevs {
		if i > 0 {
			offs = append(offs, p)
		}
	}
	last := int64(0)
	if i := bytes.LastIndex(data, []byte("startxref")); i >= 0 {
		fmt.Sscan(string(data[i+len("startxref"):]), &last)
	}
	return append(offs, last)
}

// respellPrev finishes the "xref-prev-graph" faults: Ordinal = section x, Site = target
// section t, Value = "<spelling>|<delta>": /Prev of x := offset of t + delta, spelled so.
func respellPrev(data []byte, prevs []int64, faults []fault) []byte {
	offs := sectionOffsets(data, prevs)
	for _, f := range faults {
		if f.Kind != "xref-prev-graph" || f.Site >= len(offs) {
			continue
		}
		parts := strings.SplitN(f.Value, "|", 2)
		var delta int64
		if len(parts) == 2 {
			fmt.Sscan(parts[1], &delta)
		}
		old := fmt.Sprintf("/Prev %d", prevPlaceholder+int64(f.Ordinal))
		text := prevSpelling(parts[0], offs[f.Site]+delta)
		for len(text) < len(old)-len("/Prev ") {
			text += " "
		}
		data = bytes.Replace(data, []byte(old), []byte("/Prev "+text), 1)
	}
	return data
}

// prevGraphs: see the top of this file.
func prevGraphs(c *hx.Ctx) {
	ndocs := c.N(2, 8)
	deltas := []int{0}
	if c.Thorough() {
		deltas = []int{0, -1, 1}
	}
	for d := 0; d < ndocs; d++ {
		seed := c.Seed*1000 + 700 + uint64(d)
		doc, lay := docFor(seed)
		lay.XrefStream = d%2 == 1 // classic tables with trailers and cross-reference streams alike
		lay.Revisions = 2
		if c.Thorough() {
			lay.Revisions = d / 2 % 4
		}
		_, _, n := render(doc, lay, nil)
		run := func(fs []fault) {
			runPDF(c, kase{Format: "pdf", Doc: d, Seed: seed, Faults: fs, Layout: lay}, "p")
		}
		// the chain itself is sound; one section's pointer in every spelling
		for x := 0; x < n; x++ {
			for t := 0; t < n; t++ {
				for _, sp := range prevSpellings {
					for _, dl := range deltas {
						run([]fault{{Kind: "xref-prev-graph", Ordinal: x, Site: t, Value: fmt.Sprintf("%s|%d", sp.name, dl)}})
					}
				}
			}
		}
		// whole graphs: every section draws its target and its spelling
		r := hx.NewRng(seed ^ 0x9e3779b9)
		for i := 0; i < c.N(12, 200); i++ {
			var fs []fault
			for x := 0; x < n; x++ {
				fs = append(fs, fault{Kind: "xref-prev-graph", Ordinal: x, Site: r.Intn(n), Value: hx.Pick(r, prevSpellings).name + "|0"})
			}
			run(fs)
		}
	}
}
