package c02

// Font dictionaries and embedded font programs. The documents of the shared PDF writer
// use a Type1 font without widths and a Type0 font with /DW and a ToUnicode CMap only;
// everything else a font may carry (PDF 32000-1 9.6-9.10: /FirstChar /LastChar /Widths,
// font descriptors, /Encoding with /Differences, /W /DW2 /W2 arrays, /CIDToGIDMap,
// Type3 /CharProcs and /FontMatrix, and the TrueType program in /FontFile2 with its
// table directory, hhea/hmtx counts and cmap subtables) never reached tabula. fontPDF
// authors a one-page document with one font of each kind, all of those entries and a
// small valid TrueType program (ISO 14496-22); the catalogue then replaces
//   - every number of every font object, CMap and content stream by the hostile values,
//   - every 16-bit field of the font program by 0, 1, 0x7FFF, 0x8000, 0xFFFF,
// and, like the form fan-out, writes cmap format 4 subtables whose segment count and
// segment ranges multiply: S segments each covering R codes ask for S*R steps from a
// program of 8*S bytes.

import (
	"bytes"
	"fmt"
	"os"
	"path/filepath"

	"verifharness/hx"
	"verifharness/writers"
)

type fontFault struct {
	Kind  string `json:"kind"`  // number | sfnt16 | cmap4
	Obj   int    `json:"obj"`   // object number (number)
	Site  int    `json:"site"`  // number site in the object text / byte offset in the font program / segment count
	Value string `json:"value"` // replacement / 16-bit value / codes per segment
}

type fontCase struct {
	Format string      `json:"format"` // "pdf-fonts"
	Faults []fontFault `json:"faults"`
}

func be(v uint64, n int) []byte {
	b := make([]byte, n)
	for i := n - 1; i >= 0; i-- {
		b[i] = byte(v)
		v >>= 8
	}
	return b
}

// cmap4 writes a format 4 subtable with the given segments (start, end inclusive); the
// last segment of a valid table is 0xFFFF..0xFFFF.
func cmap4(segs [][2]int) []byte {
	n := len(segs)
	var b bytes.Buffer
	b.Write(be(4, 2))
	b.Write(be(uint64(16+8*n), 2)) // length (16 bits: wraps for large tables, as in any writer)
	b.Write(be(0, 2))
	b.Write(be(uint64(2*n), 2))
	b.Write(be(0, 2)) // searchRange, entrySelector, rangeShift: not needed by a reader
	b.Write(be(0, 2))
	b.Write(be(0, 2))
	for _, s := range segs {
		b.Write(be(uint64(s[1]), 2))
	}
	b.Write(be(0, 2))
	for _, s := range segs {
		b.Write(be(uint64(s[0]), 2))
	}
	for range segs {
		b.Write(be(1, 2)) // idDelta
	}
	for range segs {
		b.Write(be(0, 2)) // idRangeOffset
	}
	return b.Bytes()
}

// sfntProgram: head, hhea, maxp, hmtx, cmap (platform 3 encoding 1 -> the subtable).
func sfntProgram(sub []byte) []byte {
	head := make([]byte, 54)
	copy(head[0:], be(0x00010000, 4))
	copy(head[12:], be(0x5F0F3CF5, 4))
	copy(head[18:], be(1000, 2)) // unitsPerEm
	hhea := make([]byte, 36)
	copy(hhea[0:], be(0x00010000, 4))
	copy(hhea[4:], be(900, 2))
	copy(hhea[34:], be(3, 2)) // numberOfHMetrics
	maxp := append(be(0x00010000, 4), be(3, 2)...)
	maxp = append(maxp, make([]byte, 26)...)
	hmtx := []byte{0x01, 0xF4, 0, 0, 0x02, 0x58, 0, 0, 0x02, 0xBC, 0, 0}
	cmap := append(append(append(be(0, 2), be(1, 2)...), append(be(3, 2), be(1, 2)...)...), be(12, 4)...)
	cmap = append(cmap, sub...)
	tables := []struct {
		tag  string
		data []byte
	}{{"cmap", cmap}, {"head", head}, {"hhea", hhea}, {"hmtx", hmtx}, {"maxp", maxp}}
	var b bytes.Buffer
	b.Write(be(0x00010000, 4))
	b.Write(be(uint64(len(tables)), 2))
	b.Write(be(64, 2))
	b.Write(be(2, 2))
	b.Write(be(16, 2))
	off := 12 + 16*len(tables)
	for _, t := range tables {
		b.WriteString(t.tag)
		b.Write(be(0, 4))
		b.Write(be(uint64(off), 4))
		b.Write(be(uint64(len(t.data)), 4))
		off += (len(t.data) + 3) &^ 3
	}
	for _, t := range tables {
		b.Write(t.data)
		b.Write(make([]byte, (4-len(t.data)%4)%4))
	}
	return b.Bytes()
}

type fobj struct {
	num    int
	body   string // object text, or the inside of the stream dictionary
	data   []byte
	stream bool
	text   bool // the stream data is text (CMap, content): numbers in it are fault sites too
}

const toUniTT = "/CIDInit /ProcSet findresource begin\n12 dict begin\nbegincmap\n/CMapName /Adobe-Identity-UCS def\n/CMapType 2 def\n1 begincodespacerange\n<00> <FF>\nendcodespacerange\n2 beginbfchar\n<41> <0041>\n<42> <0042>\nendbfchar\n1 beginbfrange\n<43> <46> <0043>\nendbfrange\nendcmap\nCMapName currentdict /CMap defineresource pop\nend\nend\n"
const toUniCID = "/CIDInit /ProcSet findresource begin\n12 dict begin\nbegincmap\n/CMapType 2 def\n1 begincodespacerange\n<0000> <FFFF>\nendcodespacerange\n1 beginbfchar\n<0001> <0058>\nendbfchar\n2 beginbfrange\n<0002> <0009> <0059>\n<000A> <000B> [<005A> <00660066>]\nendbfrange\nendcmap\nend\nend\n"

func fontObjects(program []byte) []fobj {
	desc := func(name, file string) string {
		return "/Type /FontDescriptor /FontName /" + name + " /Flags 32 /FontBBox [-100 -200 1000 900] /ItalicAngle 0 /Ascent 900 /Descent -200 /CapHeight 700 /XHeight 500 /StemV 80 /StemH 70 /AvgWidth 520 /MaxWidth 1000 /MissingWidth 500 /Leading 120 " + file
	}
	content := "BT /F1 12 Tf 14 TL 50 700 Td (ABC) Tj /F2 10 Tf 0 -20 Td [(AB) -250 (C)] TJ /F3 10 Tf 100 Tz 2 Tc 3 Tw 0 -20 Td <00010002000A> Tj /F4 9 Tf 1 0 0 1 50 600 Tm (a) Tj T* (a) ' ET"
	return []fobj{
		{num: 1, body: "<< /Type /Catalog /Pages 2 0 R >>"},
		{num: 2, body: "<< /Type /Pages /Kids [3 0 R] /Count 1 >>"},
		{num: 3, body: "<< /Type /Page /Parent 2 0 R /MediaBox [0 0 612 792] /Contents 4 0 R /Resources << /Font << /F1 10 0 R /F2 20 0 R /F3 30 0 R /F4 40 0 R >> >> >>"},
		{num: 4, stream: true, text: true, data: []byte(content)},
		{num: 10, body: "<< /Type /Font /Subtype /TrueType /BaseFont /ABCDEF+VerifTT /FirstChar 65 /LastChar 70 /Widths 11 0 R /FontDescriptor 12 0 R /Encoding 13 0 R /ToUnicode 14 0 R >>"},
		{num: 11, body: "[500 600 700 500 600 700]"},
		{num: 12, body: "<< " + desc("ABCDEF+VerifTT", "/FontFile2 15 0 R") + " >>"},
		{num: 13, body: "<< /Type /Encoding /BaseEncoding /WinAnsiEncoding /Differences [65 /A /B 128 /Euro 255 /ydieresis] >>"},
		{num: 14, stream: true, text: true, data: []byte(toUniTT)},
		{num: 15, stream: true, body: fmt.Sprintf("/Length1 %d", len(program)), data: program},
		{num: 20, body: "<< /Type /Font /Subtype /Type1 /BaseFont /GHIJKL+VerifT1 /FirstChar 65 /LastChar 67 /Widths [500 600 700] /FontDescriptor 21 0 R /Encoding 13 0 R >>"},
		{num: 21, body: "<< " + desc("GHIJKL+VerifT1", "/FontFile 22 0 R /CharSet (/A/B/C)") + " >>"},
		{num: 22, stream: true, body: "/Length1 20 /Length2 8 /Length3 0", data: []byte("%!PS-AdobeFont-1.0: \x80\x01\x02\x03\x04\x05\x06\x07")},
		{num: 30, body: "<< /Type /Font /Subtype /Type0 /BaseFont /MNOPQR+VerifCID /Encoding /Identity-H /DescendantFonts [31 0 R] /ToUnicode 33 0 R >>"},
		{num: 31, body: "<< /Type /Font /Subtype /CIDFontType2 /BaseFont /MNOPQR+VerifCID /CIDSystemInfo << /Registry (Adobe) /Ordering (Identity) /Supplement 0 >> /DW 1000 /W [1 [500 600] 10 20 700] /DW2 [880 -1000] /W2 [1 [-500 250 880] 5 9 -1000 500 880] /CIDToGIDMap 34 0 R /FontDescriptor 32 0 R >>"},
		{num: 32, body: "<< " + desc("MNOPQR+VerifCID", "/FontFile2 15 0 R") + " >>"},
		{num: 33, stream: true, text: true, data: []byte(toUniCID)},
		{num: 34, stream: true, data: []byte{0, 0, 0, 1, 0, 2, 0, 1, 0, 2, 0, 1, 0, 2, 0, 1, 0, 2, 0, 1, 0, 2}},
		{num: 40, body: "<< /Type /Font /Subtype /Type3 /FontBBox [0 0 750 750] /FontMatrix [0.001 0 0 0.001 0 0] /CharProcs << /a 41 0 R >> /Encoding << /Type /Encoding /Differences [97 /a] >> /FirstChar 97 /LastChar 97 /Widths [1000] /Resources << >> /ToUnicode 14 0 R >>"},
		{num: 41, stream: true, text: true, data: []byte("1000 0 0 0 750 750 d1 0 0 750 750 re f")},
	}
}

func patch16(p []byte, off int, v uint64) []byte {
	out := append([]byte(nil), p...)
	if off+1 < len(out) {
		out[off], out[off+1] = byte(v>>8), byte(v)
	}
	return out
}

// fontPDF renders the document with the faults applied; sites[obj] = number sites of the
// object (body and, for text streams, data).
func fontPDF(faults []fontFault) (data []byte, sites map[int]int, programLen int) {
	program := sfntProgram(cmap4([][2]int{{65, 70}, {97, 97}, {0xFFFF, 0xFFFF}}))
	programLen = len(program)
	for _, f := range faults {
		switch f.Kind {
		case "cmap4": // Site segments, each covering Value codes from 0
			var r int
			fmt.Sscan(f.Value, &r)
			segs := make([][2]int, f.Site)
			for i := range segs {
				segs[i] = [2]int{0, r - 1}
			}
			program = sfntProgram(cmap4(segs))
		case "sfnt16":
			var v uint64
			fmt.Sscan(f.Value, &v)
			program = patch16(program, f.Site, v)
		}
	}
	objs := fontObjects(program)
	sites = map[int]int{}
	for i := range objs {
		o := &objs[i]
		text := o.body
		if o.text {
			text = string(o.data)
		}
		sites[o.num] = len(numSites(text))
		for _, f := range faults {
			if f.Kind == "number" && f.Obj == o.num {
				text = applyText(text, fault{Kind: "number", Site: f.Site, Value: f.Value})
			}
		}
		if o.text {
			o.data = []byte(text)
		} else {
			o.body = text
		}
	}
	var b bytes.Buffer
	b.WriteString("%PDF-1.4\n")
	max := 0
	offs := map[int]int{}
	for _, o := range objs {
		offs[o.num] = b.Len()
		if o.num > max {
			max = o.num
		}
		if o.stream {
			d, filter := o.data, ""
			if len(d) > 4096 { // large font programs are written compressed, as real files do
				d, filter = writers.Deflate(d), " /Filter /FlateDecode"
			}
			fmt.Fprintf(&b, "%d 0 obj\n<< %s%s /Length %d >>\nstream\n", o.num, o.body, filter, len(d))
			b.Write(d)
			b.WriteString("\nendstream\nendobj\n")
		} else {
			fmt.Fprintf(&b, "%d 0 obj\n%s\nendobj\n", o.num, o.body)
		}
	}
	x := b.Len()
	fmt.Fprintf(&b, "xref\n0 %d\n0000000000 65535 f \n", max+1)
	for n := 1; n <= max; n++ {
		if off, ok := offs[n]; ok {
			fmt.Fprintf(&b, "%010d 00000 n \n", off)
		} else {
			b.WriteString("0000000000 65535 f \n")
		}
	}
	fmt.Fprintf(&b, "trailer\n<< /Size %d /Root 1 0 R >>\nstartxref\n%d\n%%%%EOF\n", max+1, x)
	return b.Bytes(), sites, programLen
}

func runFont(c *hx.Ctx, fc fontCase) {
	data, _, _ := fontPDF(fc.Faults)
	path := filepath.Join(c.OutDir, "c02-fonts.pdf")
	os.WriteFile(path, data, 0o644)
	defer os.Remove(path)
	// fonts are read by the text extraction every entry point shares: two of them suffice
	exerciseOnly = map[string]bool{"Text": true, "Analyze": true}
	defer func() { exerciseOnly = nil }()
	var fs []fault
	for _, f := range fc.Faults {
		fs = append(fs, fault{Kind: "font-" + f.Kind, Ordinal: f.Obj, Site: f.Site, Value: f.Value})
		c.Count("pdf-fonts-" + f.Kind)
	}
	exercise(c, kase{Format: "pdf-fonts", Faults: fs}, path, data)
	c.Case(fmt.Sprint(fc.Faults), true)
}

var fontNumValues = []string{"0", "-1", "2147483648", "9223372036854775807", "65536", "4294967295", "-2147483649", "99999999999999999999"}

func fontFaults(c *hx.Ctx) {
	runFont(c, fontCase{Format: "pdf-fonts"}) // the valid document
	_, sites, plen := fontPDF(nil)
	nums := make([]int, 0, len(sites))
	for n := range sites {
		nums = append(nums, n)
	}
	for i := 1; i < len(nums); i++ {
		for j := i; j > 0 && nums[j] < nums[j-1]; j-- {
			nums[j], nums[j-1] = nums[j-1], nums[j]
		}
	}
	k := int(c.Seed)
	for _, n := range nums {
		if n < 4 {
			continue // catalog and page tree: the ordinary catalogue's subject
		}
		for s := 0; s < sites[n]; s++ {
			for vi, v := range fontNumValues {
				k++
				if !c.Thorough() && ((vi < 4 && (vi+s+int(c.Seed))%2 != 0) || (vi >= 4 && k%8 != 0)) {
					continue // quick: two of the four catalogue values per site (alternating), an eighth of the others
				}
				runFont(c, fontCase{Format: "pdf-fonts", Faults: []fontFault{{Kind: "number", Obj: n, Site: s, Value: v}}})
			}
		}
	}
	for off := 0; off+1 < plen; off += 2 {
		for vi, v := range []string{"65535", "0", "32768", "32767", "1"} {
			k++
			if !c.Thorough() && vi > 0 && k%10 != 0 { // quick: 0xFFFF everywhere, a tenth of the others
				continue
			}
			runFont(c, fontCase{Format: "pdf-fonts", Faults: []fontFault{{Kind: "sfnt16", Site: off, Value: v}}})
		}
	}
	for _, sr := range [][2]int{{1, 65536}, {64, 65536}, {2048, 4096}, {8191, 65536}, {32767, 65536}, {32767, 1}} {
		runFont(c, fontCase{Format: "pdf-fonts", Faults: []fontFault{{Kind: "cmap4", Site: sr[0], Value: fmt.Sprint(sr[1])}}})
	}
}


