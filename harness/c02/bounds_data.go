package c02

// Correspondence ops for the bounded-work models of data-sized quantities in the PDF path
// (lean/TabulaModel/Model/BoundsData.lean).
//
//	c02.ccitt     core.(*Stream).Decode -> filters.CCITTFaxDecode (Group 4 runs of 1 bits)
//	c02.gaps      layout.(*ColumnDetector).findVerticalGaps (hook VerifFindVerticalGaps)
//	c02.topng     reader.(*PageImage).ToPNG on raw data
//	c02.jpeg      reader.(*PageImage).ToPNG on a JPEG frame header
//	c02.cspace    reader.(*Reader).ExtractPageImages -> parseColorSpace
//	c02.layout    tabula.(*Extractor).extractPreserveLayout (hook VerifExtractPreserveLayout)
//	c02.contents  reader.(*Reader).ExtractText over /Contents arrays

import (
	"bytes"
	"fmt"
	"os"
	"path/filepath"
	"strings"

	"github.com/tsawler/tabula"
	"github.com/tsawler/tabula/core"
	"github.com/tsawler/tabula/layout"
	"github.com/tsawler/tabula/reader"
	"github.com/tsawler/tabula/text"

	"verifharness/hx"
	"verifharness/writers"
)

// ---- c02.ccitt ------------------------------------------------------------------------

// In Group 4 a single 1 bit is the code V0 ("same as the row above"): n bytes of 0xFF are 8n
// rows, each ceil(columns/8) bytes when decoded (ITU-T T.6; the imaginary first reference row
// is white). That is what the decoder would deliver if read to its end.
func ccittOp(c *hx.Ctx, columns, rows int64, nbytes int, tag string) {
	data := bytes.Repeat([]byte{0xFF}, nbytes)
	if rows == 0 {
		// without /Rows the decoder finds the height itself and wants the end-of-facsimile
		// block (two EOL codes 000000000001) after the last row
		data = append(data, 0x00, 0x10, 0x01)
	}
	avail := int64(0)
	if columns >= 1 {
		per := (columns + 7) / 8
		n := int64(8 * nbytes)
		if rows > 0 && rows < n {
			n = rows
		}
		avail = n * per
	}
	out := "?"
	k := map[string]interface{}{"format": "ccitt", "columns": columns, "rows": rows, "bytes": nbytes}
	c.Guard("C02/ccitt", k, 20, func() {
		st := &core.Stream{Dict: core.Dict{"Filter": core.Name("CCITTFaxDecode"),
			"DecodeParms": core.Dict{"K": core.Int(-1), "Columns": core.Int(columns), "Rows": core.Int(rows)}}, Data: data}
		dec, err := st.Decode()
		switch {
		case err == nil:
			out = fmt.Sprintf("ok %d", len(dec))
		case strings.Contains(err.Error(), "invalid Columns") || strings.Contains(err.Error(), "invalid Rows"):
			out = "bad"
		case strings.Contains(err.Error(), "image larger than"):
			out = "toolarge"
		default:
			out = "err:" + err.Error()
		}
		c.Check("C02/ccitt-output-over-limit", len(dec) <= 64<<20, k, func() string { return fmt.Sprint(len(dec)) })
	})
	c.Op(fmt.Sprintf("c02.ccitt %d %d %d", columns, rows, avail), out)
	c.Count("op-ccitt-" + tag + "-" + strings.Fields(out)[0])
	c.Case(fmt.Sprint("ccitt", columns, rows, nbytes), strings.HasPrefix(out, "ok"))
}

func ccittOps(c *hx.Ctx) {
	r := hx.NewRng(c.Seed ^ 0xd001)
	for _, col := range []int64{0, -1, -9223372036854775808} {
		ccittOp(c, col, 0, 8, "bad")
	}
	ccittOp(c, 8, -1, 8, "bad")
	ccittOp(c, 8, -2147483648, 8, "bad")
	// the limit at its edge: rows of 128 KiB (2^20 columns, the widest x/image/ccitt decodes)
	ccittOp(c, 1<<20, 513, 65, "edge") // 513 rows: 64 MiB + 128 KiB
	if c.Thorough() {
		ccittOp(c, 1<<20, 512, 65, "edge") // exactly 64 MiB
		ccittOp(c, 1<<20, 0, 64, "edge")   // 512 rows, height found by the decoder
		ccittOp(c, 1<<20, 0, 2048, "edge") // the witness of 6dc2783: 2 GiB
	}
	for i := 0; i < c.N(60, 1200); i++ {
		cols := int64(r.Range(1, 200))
		if r.Chance(1, 8) {
			cols = int64(r.Range(1000, 70000))
		}
		nb := r.Range(0, 12)
		rows := int64(0)
		if r.Chance(1, 3) {
			rows = int64(r.Range(1, 8*nb+1))
			if rows > int64(8*nb) {
				rows = 0
			}
		}
		ccittOp(c, cols, rows, nb, "rand")
	}
}

// ---- c02.gaps -------------------------------------------------------------------------

// fragX gives a float whose bucket number int(x/5) is the wanted raw value.
func fragX(bucket int64, plus float64) float64 {
	if bucket >= 0 {
		return float64(bucket)*5 + plus
	}
	return float64(bucket)*5 - plus
}

func gapsOp(c *hx.Ctx, w int64, frags [][2]int64, tag string) {
	var fs []text.TextFragment
	var desc []string
	for _, f := range frags {
		x := fragX(f[0], 1)
		end := fragX(f[1], 2)
		fs = append(fs, text.TextFragment{Text: "x", X: x, Width: end - x, Y: 700, Height: 10, FontSize: 10})
		desc = append(desc, fmt.Sprintf("%d:%d", f[0], f[1]))
	}
	// independent histogram (one increment per bucket of every run) to keep away from inputs
	// on which the float comparison hist < 0.2*avg sits exactly on its boundary
	if w >= 0 && w < 5<<20 && len(frags) > 0 {
		nb := w/5 + 1
		if nb <= 4096 {
			hist := make([]int64, nb)
			lo, hi := frags[0][0], frags[0][1]
			for _, f := range frags {
				if f[0] < lo {
					lo = f[0]
				}
				if f[1] > hi {
					hi = f[1]
				}
				for b := max64(f[0], 0); b <= f[1] && b < nb; b++ {
					hist[b]++
				}
			}
			lo, hi = max64(lo, 0), min64(hi, nb-1)
			total, content := int64(0), hi-lo+1
			for b := lo; b <= hi; b++ {
				total += hist[b]
			}
			for b := lo; b <= hi; b++ {
				if hist[b]*5*content == total {
					c.Count("op-gaps-skipped-float-boundary")
					return
				}
			}
		}
	}
	out := "?"
	k := map[string]interface{}{"format": "gaps", "width": w, "frags": desc}
	c.Guard("C02/gaps", k, 10, func() {
		gaps := layout.VerifFindVerticalGaps(fs, float64(w), 800)
		var ss []string
		for _, g := range gaps {
			ss = append(ss, fmt.Sprintf("%d:%d", int64(g.Left/5), int64(g.Right/5)))
		}
		out = "-"
		if len(ss) > 0 {
			out = strings.Join(ss, ",")
		}
		c.Check("C02/gaps-more-than-five", len(gaps) <= 5, k, func() string { return fmt.Sprint(len(gaps)) })
	})
	fl := "-"
	if len(desc) > 0 {
		fl = strings.Join(desc, ",")
	}
	c.Op(fmt.Sprintf("c02.gaps %d %s", w, fl), out)
	c.Count("op-gaps-" + tag + "-" + map[bool]string{true: "none", false: "some"}[out == "-"])
	c.Case(fmt.Sprint("gaps", w, fl), out != "-")
}

func max64(a, b int64) int64 {
	if a > b {
		return a
	}
	return b
}

func min64(a, b int64) int64 {
	if a < b {
		return a
	}
	return b
}

func gapsOps(c *hx.Ctx) {
	r := hx.NewRng(c.Seed ^ 0xd002)
	two := [][2]int64{{2, 10}, {2, 11}, {17, 30}, {18, 29}}
	for _, w := range []int64{-1, -9223372036854775807, 5242880, 5242879, 9223372036854775807, 2147483648, 612, 0} {
		gapsOp(c, w, two, "width")
	}
	// the widest page that is accepted, text at its right end (the model is a list program:
	// it is given few fragments there)
	nbMax := int64(1 << 20)
	gapsOp(c, 5242879, [][2]int64{{nbMax - 40, nbMax - 30}, {nbMax - 20, nbMax + 5}, {nbMax - 41, nbMax - 29}}, "width")
	// fragments far wider than the page: 2 updates each
	wide := make([][2]int64, 0, 1000)
	for i := 0; i < 1000; i++ {
		wide = append(wide, [2]int64{int64(-i), 1 << 40})
	}
	gapsOp(c, 6000, wide, "wide")
	for i := 0; i < c.N(200, 4000); i++ {
		w := int64(r.Range(100, 1200))
		nb := w/5 + 1
		ncols := r.Range(1, 4)
		var frags [][2]int64
		colw := nb / int64(ncols)
		for col := 0; col < ncols; col++ {
			lo := int64(col)*colw + int64(r.Range(0, 3))
			hi := int64(col+1)*colw - int64(r.Range(5, 12))
			if hi <= lo {
				hi = lo + 1
			}
			for l := r.Range(1, 4); l > 0; l-- {
				s := lo + int64(r.Range(0, 2))
				e := hi - int64(r.Range(0, 3))
				if e < s {
					e = s
				}
				frags = append(frags, [2]int64{s, e})
			}
		}
		if r.Chance(1, 5) { // a hostile fragment
			frags = append(frags, [2]int64{hx.Pick(r, []int64{-5, -1 << 40, 0, nb - 1, nb + 3}), hx.Pick(r, []int64{-2, nb - 1, nb, nb + 7, 1 << 50})})
		}
		if r.Chance(1, 8) { // a spanning title
			frags = append(frags, [2]int64{int64(r.Range(0, 3)), nb - int64(r.Range(1, 4))})
		}
		hx.Shuffle(r, frags)
		gapsOp(c, w, frags, "rand")
	}
}

// ---- c02.topng / c02.jpeg -------------------------------------------------------------

func topngOps(c *hx.Ctx) {
	r := hx.NewRng(c.Seed ^ 0xd003)
	edge := []int64{0, -1, -4, 100000, 2147483648, 1099511627776, 4611686018427387904, 9223372036854775807, -9223372036854775808}
	css := map[string]string{"gray": "DeviceGray", "rgb": "DeviceRGB", "cmyk": "DeviceCMYK"}
	for i := 0; i < c.N(300, 6000); i++ {
		cs := hx.Pick(r, []string{"gray", "gray", "rgb", "cmyk"})
		bpc := int64(8)
		if cs == "gray" {
			bpc = hx.Pick(r, []int64{1, 4, 8, 8, 2, 16, 0})
		} else if r.Chance(1, 8) {
			bpc = hx.Pick(r, []int64{1, 4, 16})
		}
		w, h := int64(r.Range(1, 12)), int64(r.Range(1, 12))
		comp := int64(1)
		if cs == "rgb" {
			comp = 3
		} else if cs == "cmyk" {
			comp = 4
		}
		need := w * h * comp
		if cs == "gray" && bpc == 1 {
			need = (w + 7) / 8 * h
		} else if cs == "gray" && bpc == 4 {
			need = (w + 1) / 2 * h
		}
		n := int(need) + r.Range(-2, 3)
		if r.Chance(1, 6) {
			n = r.Range(0, 40)
		}
		if n < 0 {
			n = 0
		}
		if r.Chance(1, 6) && n > 0 { // at the edge of one pixel per bit of data
			h = int64(n)*8/w + int64(r.Range(-1, 1))
		}
		if r.Chance(1, 5) {
			if r.Bool() {
				w = hx.Pick(r, edge)
			} else {
				h = hx.Pick(r, edge)
			}
		}
		data := make([]byte, n) // zero bytes: never a JPEG signature
		out := "err"
		k := map[string]interface{}{"format": "topng", "cs": cs, "bpc": bpc, "w": w, "h": h, "len": n}
		c.Guard("C02/topng", k, 10, func() {
			img := &reader.PageImage{Width: int(w), Height: int(h), ColorSpace: css[cs], BitsPerComponent: int(bpc), Data: data}
			_, err := img.ToPNG()
			switch {
			case err == nil:
				out = "ok"
			case strings.Contains(err.Error(), "does not fit"):
				out = "err-fit"
			case strings.Contains(err.Error(), "insufficient data"):
				out = "err-data"
			case strings.Contains(err.Error(), "unsupported bits per component"):
				out = "err-bpc"
			default:
				out = "err:" + err.Error()
			}
		})
		c.Op(fmt.Sprintf("c02.topng %s %d %d %d %d", cs, bpc, w, h, n), out)
		c.Count("op-topng-" + out)
		c.Case(fmt.Sprint("topng", cs, bpc, w, h, n), out == "ok")
	}
	// JPEG frame headers: SOI, APP0 (JFIF), SOF0 (8 bit, h, w, one component), nothing else
	dims := [][2]int{{8192, 8192}, {8193, 8192}, {8192, 8193}, {65535, 65535}, {1, 65535}, {65535, 1024}, {65535, 1025}, {1, 1}, {16384, 4096}, {16385, 4096}}
	for i := 0; i < c.N(30, 600); i++ {
		dims = append(dims, [2]int{r.Range(1, 14000), r.Range(1, 9000)})
	}
	for _, d := range dims {
		w, h := d[0], d[1]
		data := []byte{0xFF, 0xD8, 0xFF, 0xE0, 0x00, 0x10, 'J', 'F', 'I', 'F', 0, 1, 1, 0, 0, 1, 0, 1, 0, 0, 0xFF, 0xC0, 0x00, 0x0B, 0x08, byte(h >> 8), byte(h), byte(w >> 8), byte(w), 0x01, 0x01, 0x11, 0x00}
		out := "?"
		k := map[string]interface{}{"format": "jpeg", "w": w, "h": h}
		c.Guard("C02/jpeg", k, 10, func() {
			img := &reader.PageImage{Width: 1, Height: 1, ColorSpace: "DeviceGray", BitsPerComponent: 8, Data: data}
			_, err := img.ToPNG()
			switch {
			case err == nil:
				out = "pass"
			case strings.Contains(err.Error(), "too large"):
				out = "toolarge"
			default:
				out = "pass" // the header was accepted; the (missing) scan data is another matter
			}
		})
		c.Op(fmt.Sprintf("c02.jpeg %d %d", w, h), out)
		c.Count("op-jpeg-" + out)
		c.Case(fmt.Sprint("jpeg", w, h), out == "pass")
	}
}

// ---- c02.cspace -----------------------------------------------------------------------

var csNames = []string{"DeviceGray", "DeviceRGB", "DeviceCMYK", "ICCBased", "Lab", "Separation", "CalRGB", "Pattern"}

type csv struct {
	kind string // r n i c a o
	n    int
	base *csv
}

func (v csv) code() string {
	switch v.kind {
	case "r", "n", "a":
		return fmt.Sprintf("%s%d.", v.kind, v.n)
	case "i":
		return "i" + v.base.code()
	}
	return v.kind
}

func (v csv) pdf() string {
	switch v.kind {
	case "r":
		return fmt.Sprintf("%d 0 R", v.n)
	case "n":
		return "/" + csNames[v.n]
	case "a":
		return "[/" + csNames[v.n] + " 1]"
	case "i":
		return "[/Indexed " + v.base.pdf() + " 1 (ab)]"
	case "c":
		return "[/ICCBased 9 0 R]"
	}
	return []string{"42", "[]", "[42 /X]", "(str)"}[v.n%4]
}

func genCS(r *hx.Rng, n, depth int) csv {
	switch x := r.Intn(10); {
	case x < 3:
		return csv{kind: "r", n: 10 + r.Intn(n+1)} // 10+n: missing
	case x < 5:
		return csv{kind: "n", n: hx.Pick(r, []int{0, 1, 2, 4, 5, 6, 7})}
	case x < 8 && depth < 12:
		b := genCS(r, n, depth+1)
		return csv{kind: "i", base: &b}
	case x == 8:
		return csv{kind: "a", n: hx.Pick(r, []int{0, 1, 2, 4, 5, 6})}
	}
	if r.Bool() {
		return csv{kind: "c"}
	}
	return csv{kind: "o", n: r.Intn(4)}
}

func cspaceOp(c *hx.Ctx, root csv, objs map[int]csv, tag string) {
	p := writers.NewPDF("\n")
	entries := map[int]writers.XEntry{0: {Type: 0, F2: 65535}}
	entries[1] = writers.XEntry{Type: 1, F1: p.Obj(1, 0, "<< /Type /Catalog /Pages 2 0 R >>")}
	entries[2] = writers.XEntry{Type: 1, F1: p.Obj(2, 0, "<< /Type /Pages /Kids [3 0 R] /Count 1 >>")}
	entries[3] = writers.XEntry{Type: 1, F1: p.Obj(3, 0, "<< /Type /Page /Parent 2 0 R /MediaBox [0 0 100 100] /Resources << /XObject << /Im0 4 0 R >> >> >>")}
	entries[4] = writers.XEntry{Type: 1, F1: p.Obj(4, 0, "<< /Type /XObject /Subtype /Image /Width 2 /Height 2 /BitsPerComponent 8 /ColorSpace "+root.pdf()+" /Length 4 >>\nstream\nabcd\nendstream")}
	var desc []string
	max := 4
	for _, n := range sortedInts(objs) {
		entries[n] = writers.XEntry{Type: 1, F1: p.Obj(n, 0, objs[n].pdf())}
		desc = append(desc, fmt.Sprintf("%d=%s", n, objs[n].code()))
		if n > max {
			max = n
		}
	}
	p.XrefTable(entries, fmt.Sprintf("/Root 1 0 R /Size %d", max+1), -1, " \n")
	path := filepath.Join(c.OutDir, "c02-cs.pdf")
	os.WriteFile(path, p.Buf.Bytes(), 0o644)
	defer os.Remove(path)
	out := "?"
	k := map[string]interface{}{"format": "cspace", "root": root.code(), "nodes": desc}
	c.Guard("C02/cspace", k, 10, func() {
		rd, err := reader.Open(path)
		if err != nil {
			out = "open-failed"
			return
		}
		defer rd.Close()
		pg, err := rd.GetPage(0)
		if err != nil {
			out = "no-page"
			return
		}
		imgs, err := rd.ExtractPageImages(pg)
		if err != nil || len(imgs) != 1 {
			out = fmt.Sprintf("images %d %v", len(imgs), err)
			return
		}
		id := 99
		for i, nm := range csNames {
			if nm == imgs[0].ColorSpace {
				id = i
			}
		}
		out = fmt.Sprintf("name %d", id)
	})
	g := "-"
	if len(desc) > 0 {
		g = strings.Join(desc, ";")
	}
	c.Op(fmt.Sprintf("c02.cspace %s %s", root.code(), g), out)
	c.Count("op-cspace-" + tag + "-" + strings.ReplaceAll(out, " ", ""))
	c.Case(fmt.Sprint("cs", root.code(), g), out != "name 0")
}

func cspaceOps(c *hx.Ctx) {
	self := csv{kind: "r", n: 10}
	cspaceOp(c, csv{kind: "r", n: 10}, map[int]csv{10: {kind: "i", base: &self}}, "self")
	for _, d := range []int{1, 7, 8, 9, 10, 30} { // d nested Indexed spaces over DeviceRGB
		v := csv{kind: "n", n: 1}
		for i := 0; i < d; i++ {
			b := v
			v = csv{kind: "i", base: &b}
		}
		cspaceOp(c, v, nil, "nest")
		// the same chain through d objects
		objs := map[int]csv{}
		for i := 0; i < d; i++ {
			b := csv{kind: "r", n: 11 + i}
			objs[10+i] = csv{kind: "i", base: &b}
		}
		objs[10+d] = csv{kind: "n", n: 1}
		cspaceOp(c, csv{kind: "r", n: 10}, objs, "chain")
	}
	r := hx.NewRng(c.Seed ^ 0xd004)
	for i := 0; i < c.N(120, 2500); i++ {
		n := r.Range(1, 5)
		objs := map[int]csv{}
		for o := 0; o < n; o++ {
			objs[10+o] = genCS(r, n, 0)
		}
		cspaceOp(c, genCS(r, n, 0), objs, "rand")
	}
}

// ---- c02.layout -----------------------------------------------------------------------

type layFrag struct {
	col int64 // the value of int(X/charWidth)
	n   int   // len(Text)
}
type layLine struct {
	gap   int64 // the value of int(verticalGap/lineHeight + 0.5) (first line: unused)
	frags []layFrag
}

// rle turns the output of extractPreserveLayout back into runs: newlines, then per fragment
// (spaces, x's). Texts are runs of 'x', so the structure can be read off the string.
func layoutRuns(s string, lines []layLine) (string, bool) {
	var out []string
	i := 0
	for _, ln := range lines {
		nl := 0
		for i < len(s) && s[i] == '\n' {
			nl++
			i++
		}
		var fr []string
		for _, f := range ln.frags {
			sp := 0
			for i < len(s) && s[i] == ' ' {
				sp++
				i++
			}
			for k := 0; k < f.n; k++ {
				if i >= len(s) || s[i] != 'x' {
					return "", false
				}
				i++
			}
			fr = append(fr, fmt.Sprintf("%d:%d", sp, f.n))
		}
		fs := "-"
		if len(fr) > 0 {
			fs = strings.Join(fr, ",")
		}
		out = append(out, fmt.Sprintf("%d|%s", nl, fs))
	}
	return strings.Join(out, ";"), i == len(s)
}

func layoutOp(c *hx.Ctx, lines []layLine, mode int, shift uint, tag string) {
	// charWidth = 2^shift exactly, by three routes (see extractPreserveLayout)
	cw := float64(int64(1) << shift)
	var pageWidth, fontSize float64
	switch mode {
	case 0: // no font sizes: charWidth = pageWidth/80
		pageWidth, fontSize = 80*cw, 0
	case 1: // tiny fonts: more than 200 columns -> charWidth = pageWidth/200
		pageWidth, fontSize = 200*cw, 1e-9
	default: // huge fonts: fewer than 40 columns -> charWidth = pageWidth/40
		pageWidth, fontSize = 40*cw, 1e12
	}
	var fs []text.TextFragment
	var desc []string
	y := float64(0)
	xfloor := float64(-1 << 62)
	for li, ln := range lines {
		if li > 0 {
			y -= float64(ln.gap) // line heights are 1: int(gap/1 + 0.5) = gap
		}
		var fd []string
		for _, f := range ln.frags {
			x := float64(f.col) * cw
			if x < xfloor { // keep the sort stable: X never decreases
				x = xfloor
			}
			xfloor = x
			fs = append(fs, text.TextFragment{Text: strings.Repeat("x", f.n), X: x, Y: y, Height: 1, FontSize: fontSize})
			fd = append(fd, fmt.Sprintf("%d:%d", int64(x/cw), f.n))
		}
		g := ln.gap
		if li == 0 {
			g = 0
		}
		fl := "-"
		if len(fd) > 0 {
			fl = strings.Join(fd, ",")
		}
		desc = append(desc, fmt.Sprintf("%d|%s", g, fl))
	}
	out := "?"
	k := map[string]interface{}{"format": "layout", "lines": desc, "mode": mode, "shift": shift}
	total := 0
	for _, ln := range lines {
		for _, f := range ln.frags {
			total += f.n
		}
	}
	c.Guard("C02/layout", k, 10, func() {
		s := tabula.VerifExtractPreserveLayout(fs, pageWidth)
		runs, ok := layoutRuns(s, lines)
		out = runs
		if !ok {
			out = "unparsed:" + hx.HexS(s)
		}
		c.Check("C02/layout-output-over-bound", len(s) <= total+300*len(lines), k, func() string { return fmt.Sprint(len(s)) })
	})
	c.Op("c02.layout "+strings.Join(desc, ";"), out)
	c.Count("op-layout-" + tag)
	c.Case(fmt.Sprint("layout", desc, mode, shift), true)
}

func layoutOps(c *hx.Ctx) {
	r := hx.NewRng(c.Seed ^ 0xd005)
	// the witnesses: x = 10^14, a gap of 10^13 lines
	layoutOp(c, []layLine{{0, []layFrag{{0, 5}}}, {10000000000000, []layFrag{{100000000000000, 5}}}}, 0, 0, "witness")
	layoutOp(c, []layLine{{0, []layFrag{{0, 5}}}, {3, []layFrag{{250, 5}}}}, 1, 0, "witness")
	for i := 0; i < c.N(150, 3000); i++ {
		var lines []layLine
		for l := r.Range(1, 4); l > 0; l-- {
			ln := layLine{gap: int64(r.Range(1, 6))}
			switch r.Intn(8) {
			case 0:
				ln.gap = hx.Pick(r, []int64{99, 100, 101, 1000, 1 << 40})
			}
			col := int64(r.Range(0, 30))
			for f := r.Range(1, 3); f > 0; f-- {
				n := r.Range(1, 8)
				cc := col
				if r.Chance(1, 6) {
					cc = hx.Pick(r, []int64{199, 200, 201, 1 << 30, 1 << 45, -3, -1 << 40})
				}
				ln.frags = append(ln.frags, layFrag{cc, n})
				col += int64(n + r.Range(0, 12))
			}
			lines = append(lines, ln)
		}
		layoutOp(c, lines, r.Intn(3), uint(r.Range(0, 4)), "rand")
	}
}

// ---- c02.contents ---------------------------------------------------------------------

func contentsOp(c *hx.Ctx, lens []int, tag string) {
	p := writers.NewPDF("\n")
	entries := map[int]writers.XEntry{0: {Type: 0, F2: 65535}}
	objOf := map[int]int{}
	next := 4
	var refs []string
	for _, l := range lens {
		if _, ok := objOf[l]; !ok {
			objOf[l] = next
			entries[next] = writers.XEntry{Type: 1, F1: p.Obj(next, 0, fmt.Sprintf("<< /Length %d >>\nstream\n%s\nendstream", l, strings.Repeat("\n", l)))}
			next++
		}
		refs = append(refs, fmt.Sprintf("%d 0 R", objOf[l]))
	}
	entries[1] = writers.XEntry{Type: 1, F1: p.Obj(1, 0, "<< /Type /Catalog /Pages 2 0 R >>")}
	entries[2] = writers.XEntry{Type: 1, F1: p.Obj(2, 0, "<< /Type /Pages /Kids [3 0 R] /Count 1 >>")}
	entries[3] = writers.XEntry{Type: 1, F1: p.Obj(3, 0, "<< /Type /Page /Parent 2 0 R /MediaBox [0 0 100 100] /Contents ["+strings.Join(refs, " ")+"] >>")}
	p.XrefTable(entries, fmt.Sprintf("/Root 1 0 R /Size %d", next), -1, " \n")
	path := filepath.Join(c.OutDir, "c02-contents.pdf")
	os.WriteFile(path, p.Buf.Bytes(), 0o644)
	defer os.Remove(path)
	out := "?"
	k := map[string]interface{}{"format": "contents", "mentions": len(lens), "first": lens[0]}
	c.Guard("C02/contents", k, 20, func() {
		rd, err := reader.Open(path)
		if err != nil {
			out = "open-failed"
			return
		}
		defer rd.Close()
		pg, err := rd.GetPage(0)
		if err != nil {
			out = "no-page"
			return
		}
		_, err = rd.ExtractText(pg)
		switch {
		case err == nil:
			out = "ok"
		case strings.Contains(err.Error(), "exceed"):
			out = "err"
		default:
			out = "err:" + err.Error()
		}
	})
	c.Op("c02.contents "+commas(lens), out)
	c.Count("op-contents-" + tag + "-" + out)
	c.Case(fmt.Sprint("contents", len(lens), lens[0]), out == "ok")
}

func contentsOps(c *hx.Ctx) {
	rep := func(n, l int) []int {
		xs := make([]int, n)
		for i := range xs {
			xs[i] = l
		}
		return xs
	}
	contentsOp(c, rep(64, 1<<20), "edge") // the 64th mention does not fit
	if c.Thorough() {
		contentsOp(c, append(rep(63, 1<<20), 1048513), "edge")
		contentsOp(c, []int{64<<20 + 1}, "edge")
		contentsOp(c, rep(63, 1<<20), "edge")
		contentsOp(c, append(rep(63, 1<<20), 1048512), "edge") // exactly 64 MiB before the last newline
		contentsOp(c, []int{64 << 20}, "edge")
	}
	r := hx.NewRng(c.Seed ^ 0xd006)
	for i := 0; i < c.N(25, 300); i++ {
		var lens []int
		for k := r.Range(1, 6); k > 0; k-- {
			lens = append(lens, hx.Pick(r, []int{0, 1, 7, 100, 5000}))
		}
		contentsOp(c, lens, "rand")
	}
}

func boundsDataOps(c *hx.Ctx) {
	ccittOps(c)
	gapsOps(c)
	topngOps(c)
	cspaceOps(c)
	layoutOps(c)
	contentsOps(c)
}
