package c02

// Products. A single hostile number is bounded by the caps tabula applies to it; what
// remains is the PRODUCT of several bounded numbers, or of a bounded number and a
// count of tiny elements. Each shape below is a well-formed document of a few hundred
// bytes to a few kilobytes (compressed) whose cost is such a product:
//
//   XLSX col-letters L      a cell reference with L column letters (the column number is
//                           26^L: beyond 13 letters it no longer fits 64 bits)
//        merge-many n       one cell at XFD64 (a grid within the accepted size) and n
//                           <mergeCell ref="A1:XFD1048576"/>: n x the whole grid
//        sheets-share k     k <sheet> entries naming the same part, each a full grid
//   DOCX/ODT/HTML spans k r one row of k cells spanning `span` columns (and, ODT/HTML,
//                           `span` rows), followed by r empty rows: k x span x r cells
//   EPUB spine-repeat n s   a spine that lists one chapter of s bytes n times
//        spine-spellings n s
//        spine-spellings-dir n s
//                           n manifest items with n different ids, whose hrefs are n
//                           different spellings of the SAME content document of s bytes
//                           (URL references that are equal after RFC 3986 normalisation:
//                           "./" and "x/../" segments, percent-encoded unreserved
//                           characters in either hex case, "../<own directory>/"), all in
//                           the spine; -dir: the package document sits in OEBPS/. The
//                           logical document is one chapter, the archive holds s bytes of
//                           content: whatever is returned cannot be larger than that
//   HTML inline-nest n k    n nested inline elements (k picks i/span/em/a/font/b) in a paragraph,
//   EPUB chapter-nest n     the same inside an EPUB chapter: x/net/html has no depth limit
//        nav-nest n         n nested inline elements inside the toc entry of the nav
//                           document (x/net/html has no depth limit), read through
//                           epubdoc.Open(f).TableOfContents()

import (
	"fmt"
	"os"
	"path/filepath"
	"runtime/debug"
	"strings"

	"github.com/tsawler/tabula"
	"github.com/tsawler/tabula/epubdoc"

	"verifharness/hx"
	"verifharness/writers"
)

type shapeCase struct {
	Format string `json:"format"` // "xlsx-shapes" | "docx-shapes" | "odt-shapes" | "html-shapes" | "epub-shapes"
	Shape  string `json:"shape"`
	N      int    `json:"n"`
	K      int    `json:"k"`
}

func xlsxShape(s shapeCase) []byte {
	one := "1"
	sheet := writers.XSheet{Name: "S1", Path: "worksheets/sheet1.xml", RID: "rId1", Rows: []writers.XRow{
		{R: 1, Cells: []writers.XCell{{Ref: "A1", V: "1", HasV: true}}},
	}}
	big := func() { // one cell in the last column of row 64: 16384 x 64 = 1 Mi cells, an eighth of the largest grid accepted
		sheet.Rows = append(sheet.Rows, writers.XRow{R: 64, Cells: []writers.XCell{{Ref: "XFD64", V: one, HasV: true}}})
	}
	switch s.Shape {
	case "col-letters":
		letters := "AAABABAABABAAABBABBBAAABBABABABBAAAABABBABABBBBBABAABABABAABABBAAABAAB"
		var col string
		switch s.K {
		case 0:
			col = strings.Repeat("A", s.N)
		case 1:
			col = strings.Repeat("Z", s.N)
		default:
			col = strings.Repeat(letters, s.N/len(letters)+1)[:s.N]
		}
		sheet.Rows[0].Cells = append(sheet.Rows[0].Cells, writers.XCell{Ref: col + "1", V: one, HasV: true})
		sheet.Merges = []string{"A1:" + col + "1"}
	case "merge-many":
		big()
		for i := 0; i < s.N; i++ {
			sheet.Merges = append(sheet.Merges, "A1:XFD1048576")
		}
	case "sheets-share":
		big()
	}
	ms := writers.XLSXMembers(writers.XWorkbook{Shared: []writers.XSI{{Plain: "s0"}}, Sheets: []writers.XSheet{sheet}})
	if s.Shape == "sheets-share" {
		for i := range ms {
			if ms[i].Name == "xl/workbook.xml" {
				var extra strings.Builder
				for k := 1; k < s.K; k++ {
					fmt.Fprintf(&extra, `<sheet name="S%d" sheetId="%d" r:id="rId1"/>`, k+1, k+1)
				}
				ms[i].Data = []byte(strings.Replace(string(ms[i].Data), "</sheets>", extra.String()+"</sheets>", 1))
			}
		}
	}
	return writers.Zip(ms)
}

// spanTable: the body of a document of the format with one table: k cells spanning `span`
// columns (and rows where the format has row spans) in the first row, then r empty rows.
func spanDoc(format string, k, r, span int) []byte {
	var b strings.Builder
	switch format {
	case "docx-shapes":
		b.WriteString(`<?xml version="1.0" encoding="UTF-8" standalone="yes"?><w:document ` + wNS + `><w:body><w:p><w:r><w:t>before</w:t></w:r></w:p><w:tbl><w:tr>`)
		for i := 0; i < k; i++ {
			fmt.Fprintf(&b, `<w:tc><w:tcPr><w:gridSpan w:val="%d"/><w:vMerge w:val="restart"/></w:tcPr><w:p><w:r><w:t>x</w:t></w:r></w:p></w:tc>`, span)
		}
		b.WriteString(`</w:tr>` + strings.Repeat(`<w:tr/>`, r) + `</w:tbl><w:sectPr/></w:body></w:document>`)
		base := unzip(graphDOCX(graphCase{Format: "docx-styles", Shape: "star", N: 1}))
		for i := range base {
			if base[i].Name == "word/document.xml" {
				base[i].Data = []byte(b.String())
			}
		}
		return writers.Zip(base)
	case "odt-shapes":
		b.WriteString(`<text:p>before</text:p><table:table table:name="T"><table:table-row>`)
		for i := 0; i < k; i++ {
			fmt.Fprintf(&b, `<table:table-cell table:number-columns-spanned="%d" table:number-rows-spanned="%d"><text:p>x</text:p></table:table-cell>`, span, span)
		}
		b.WriteString(`</table:table-row>` + strings.Repeat(`<table:table-row/>`, r) + `</table:table>`)
		base := unzip(graphODT(graphCase{Format: "odt-styles", Shape: "star", N: 1}))
		for i := range base {
			if base[i].Name == "content.xml" {
				base[i].Data = []byte(`<?xml version="1.0" encoding="UTF-8"?><office:document-content ` + odfNS + `><office:automatic-styles/><office:body><office:text>` + b.String() + `</office:text></office:body></office:document-content>`)
			}
		}
		return writers.Zip(base)
	case "html-nest": // k = which inline element, r = levels
		tag := []string{"i", "span", "em", "a", "font", "b"}[k%6]
		return []byte(`<!DOCTYPE html><html><head><title>t</title></head><body><p>` + strings.Repeat("<"+tag+">", r) + `x</p></body></html>`)
	default: // html-shapes
		b.WriteString(`<!DOCTYPE html><html><head><title>t</title></head><body><p>before</p><table><tr>`)
		for i := 0; i < k; i++ {
			fmt.Fprintf(&b, `<td colspan="%d" rowspan="%d">x</td>`, span, span)
		}
		b.WriteString(`</tr>` + strings.Repeat(`<tr></tr>`, r) + `</table></body></html>`)
		return []byte(b.String())
	}
}

// hrefSpelling: the i-th spelling of the relative reference name from a package document
// in directory dir ("" = the archive root). i = 0 is the name itself.
func hrefSpelling(i int, name, dir string) string {
	mask, j := i%(1<<uint(len(name))), i/(1<<uint(len(name)))
	var b strings.Builder
	switch j % 3 {
	case 0:
		b.WriteString(strings.Repeat("./", j/3))
	case 1:
		b.WriteString(strings.Repeat("x/../", j/3+1))
	case 2:
		if dir != "" {
			b.WriteString(strings.Repeat("../"+dir+"/", j/3+1))
		} else {
			b.WriteString("./" + strings.Repeat("y/z/../../", j/3+1))
		}
	}
	for p := 0; p < len(name); p++ {
		switch {
		case mask>>uint(p)&1 == 0:
			b.WriteByte(name[p])
		case j%2 == 0:
			fmt.Fprintf(&b, "%%%02X", name[p])
		default:
			fmt.Fprintf(&b, "%%%02x", name[p])
		}
	}
	return b.String()
}

// shapeContent: the uncompressed size of the archive the last epubShape call built.
var shapeContent int

func epubShape(s shapeCase) []byte {
	dir, items := "", ""
	chapter := `<?xml version="1.0" encoding="UTF-8"?><html xmlns="http://www.w3.org/1999/xhtml"><head><title>C</title></head><body><h1>Chapter</h1><p>text</p></body></html>`
	nav := `<a href="a.xhtml">Start</a>`
	spine := `<itemref idref="a"/>`
	switch s.Shape {
	case "spine-repeat":
		chapter = strings.Replace(chapter, "<p>text</p>", "<p>"+strings.Repeat("word ", s.K/5)+"</p>", 1)
		spine = strings.Repeat(spine, s.N)
	case "spine-spellings", "spine-spellings-dir":
		chapter = strings.Replace(chapter, "<p>text</p>", "<p>"+strings.Repeat("word ", s.K/5)+"</p>", 1)
		if s.Shape == "spine-spellings-dir" {
			dir = "OEBPS"
		}
		var mb, sb strings.Builder
		for i := 1; i < s.N; i++ {
			fmt.Fprintf(&mb, `<item id="a%d" href="%s" media-type="application/xhtml+xml"/>`, i, hrefSpelling(i, "a.xhtml", dir))
			fmt.Fprintf(&sb, `<itemref idref="a%d"/>`, i)
		}
		items, spine = mb.String(), spine+sb.String()
	case "chapter-nest":
		chapter = strings.Replace(chapter, "<p>text</p>", "<p>"+strings.Repeat("<i>", s.N)+"text</p>", 1)
	case "nav-nest":
		nav = `<a href="a.xhtml">` + strings.Repeat("<i>", s.N) + "Start" + strings.Repeat("</i>", s.N) + `</a>`
	}
	opf := `<?xml version="1.0" encoding="UTF-8"?><package xmlns="http://www.idpf.org/2007/opf" version="3.0" unique-identifier="uid"><metadata xmlns:dc="http://purl.org/dc/elements/1.1/"><dc:identifier id="uid">urn:uuid:c02</dc:identifier><dc:title>T</dc:title><dc:language>en</dc:language><meta property="dcterms:modified">2024-01-01T00:00:00Z</meta></metadata><manifest><item id="a" href="a.xhtml" media-type="application/xhtml+xml"/>` + items + `<item id="nav" href="nav.xhtml" media-type="application/xhtml+xml" properties="nav"/></manifest><spine>` + spine + `</spine></package>`
	at := ""
	if dir != "" {
		at = dir + "/"
	}
	ms := []writers.Member{
		{Name: "mimetype", Data: []byte("application/epub+zip"), Store: true},
		{Name: "META-INF/container.xml", Data: []byte(`<?xml version="1.0" encoding="UTF-8"?><container version="1.0" xmlns="urn:oasis:names:tc:opendocument:xmlns:container"><rootfiles><rootfile full-path="` + at + `content.opf" media-type="application/oebps-package+xml"/></rootfiles></container>`)},
		{Name: at + "content.opf", Data: []byte(opf)},
		{Name: at + "a.xhtml", Data: []byte(chapter)},
		{Name: at + "nav.xhtml", Data: []byte(`<?xml version="1.0" encoding="UTF-8"?><html xmlns="http://www.w3.org/1999/xhtml" xmlns:epub="http://www.idpf.org/2007/ops"><head><title>Nav</title></head><body><nav epub:type="toc"><ol><li>` + nav + `</li></ol></nav></body></html>`)},
	}
	shapeContent = 0
	for _, m := range ms {
		shapeContent += len(m.Data)
	}
	return writers.Zip(ms)
}

func runShape(c *hx.Ctx, s shapeCase) {
	var data []byte
	ext := ".xlsx"
	switch s.Format {
	case "xlsx-shapes":
		data = xlsxShape(s)
	case "docx-shapes":
		data, ext = spanDoc(s.Format, s.K, s.N, 1024), ".docx"
	case "odt-shapes":
		data, ext = spanDoc(s.Format, s.K, s.N, 1024), ".odt"
	case "html-shapes":
		if s.Shape == "inline-nest" {
			data, ext = spanDoc("html-nest", s.K, s.N, 0), ".html"
		} else {
			data, ext = spanDoc(s.Format, s.K, s.N, 1000), ".html"
		}
	case "epub-shapes":
		data, ext = epubShape(s), ".epub"
	}
	k := kase{Format: s.Format, Faults: []fault{{Kind: "shape-" + s.Shape, Site: s.N, Ordinal: s.K}}}
	if s.Format == "epub-shapes" {
		path := filepath.Join(c.OutDir, "c02-s.epub")
		os.WriteFile(path, data, 0o644)
		c.Current(k)
		c.Guard("C02/epub-shapes-TableOfContents", k, 10, func() {
			rd, err := epubdoc.Open(path)
			if err != nil {
				return
			}
			defer rd.Close()
			rd.TableOfContents()
			rd.Metadata()
		})
		c.Rep.OracleChecks++
		if strings.HasPrefix(s.Shape, "spine-") {
			spineBounded(c, k, path, s)
		}
		os.Remove(path)
	}
	// the big shapes go through the entry points that read (and that build) the document only
	switch s.Shape {
	case "merge-many":
		exerciseOnly = map[string]bool{"Text": true, "Document+Chunks": true}
	case "sheets-share":
		exerciseOnly = map[string]bool{"Text": true, "Document+Chunks": lightBoth}
	case "inline-nest", "chapter-nest", "nav-nest":
		exerciseOnly = map[string]bool{"Text": true}
	case "spans", "spine-repeat", "spine-spellings", "spine-spellings-dir":
		exerciseOnly = map[string]bool{"Text": true, "ToMarkdown": true, "Document+Chunks": true}
	}
	runBytes(c, k, ext, data, "s")
	exerciseOnly = nil
	c.Count(s.Format + "-" + s.Shape)
}

// spineBounded: the spine shapes are ONE content document named many times. What the reader
// keeps (chapter contents) and what it returns (Text) is made of the archive's content, so
// neither can be much larger than the archive is when unpacked (twice its size and 4 KiB are
// allowed for separators and titles); a result many times that size
// means a resource was taken once per mention - memory and output then grow by one copy
// of the document per ~70 bytes of package document, without bound.
func spineBounded(c *hx.Ctx, k kase, path string, s shapeCase) {
	content, limit := shapeContent, 2*shapeContent+4096
	retained, chapters, text := -1, 0, -1
	if !c.Guard("C02/epub-shapes-Chapters", k, 10, func() {
		rd, err := epubdoc.Open(path)
		if err != nil {
			return
		}
		defer rd.Close()
		retained = 0
		for _, ch := range rd.Chapters() {
			chapters++
			retained += len(ch.Content)
		}
	}) {
		return
	}
	if !c.Guard("C02/epub-shapes-Text", k, 10, func() {
		t, _, err := tabula.Open(path).Text()
		if err == nil {
			text = len(t)
		}
	}) {
		return
	}
	in := func() string {
		return fmt.Sprintf("EPUB whose spine names one content document %d times (%s), archive of %d bytes unpacked", s.N, s.Shape, content)
	}
	c.Check("C02/epub-spine-retained-exceeds-content", retained <= limit, k, func() string {
		return fmt.Sprintf("%s: the reader keeps %d chapters with %d bytes of content", in(), chapters, retained)
	})
	c.Check("C02/epub-spine-text-exceeds-content", text <= limit, k, func() string {
		return fmt.Sprintf("%s: Text() returns %d bytes", in(), text)
	})
}

func shapeCases(thorough bool) []shapeCase {
	var out []shapeCase
	x := "xlsx-shapes"
	for i, l := range []int{3, 4, 7, 13, 14, 15, 20, 27, 28, 40, 70, 200} {
		for k := 0; k < 3; k++ {
			if thorough || (i+k)%3 == 0 || l == 14 || l == 70 {
				out = append(out, shapeCase{x, "col-letters", l, k})
			}
		}
	}
	out = append(out, shapeCase{x, "merge-many", 3200, 0}, shapeCase{x, "sheets-share", 0, 48})
	for _, f := range []string{"docx-shapes", "odt-shapes", "html-shapes"} {
		out = append(out, shapeCase{f, "spans", 3, 2}, shapeCase{f, "spans", 1023, 32})
		if thorough {
			out = append(out, shapeCase{f, "spans", 2000, 10}, shapeCase{f, "spans", 6000, 40}, shapeCase{f, "spans", 20000, 1})
		}
	}
	for _, sh := range []string{"spine-spellings", "spine-spellings-dir"} {
		// small first: the statement-level oracle speaks before the large one exhausts the process
		out = append(out, shapeCase{"epub-shapes", sh, 2, 4000}, shapeCase{"epub-shapes", sh, 40, 64 << 10}, shapeCase{"epub-shapes", sh, 700, 64 << 10})
	}
	out = append(out, shapeCase{"epub-shapes", "spine-spellings", 3000, 256 << 10})
	if thorough {
		out = append(out, shapeCase{"epub-shapes", "spine-spellings-dir", 3000, 256 << 10}, shapeCase{"epub-shapes", "spine-spellings", 5000, 2 << 20})
	}
	out = append(out, shapeCase{"epub-shapes", "spine-repeat", 3, 1000}, shapeCase{"epub-shapes", "spine-repeat", 3000, 256 << 10},
		shapeCase{"epub-shapes", "nav-nest", 100, 0}, shapeCase{"epub-shapes", "nav-nest", 300000, 0}, shapeCase{"epub-shapes", "chapter-nest", 300000, 0},
		shapeCase{"html-shapes", "inline-nest", 2000, 0}, shapeCase{"html-shapes", "inline-nest", 300000, 0})
	if thorough {
		for k := 1; k < 6; k++ {
			out = append(out, shapeCase{"html-shapes", "inline-nest", 300000, k})
		}
	}
	out = append(out, shapeCase{"epub-shapes", "spine-repeat", 2, 100})
	if thorough {
		out = append(out, shapeCase{x, "merge-many", 3, 0}, shapeCase{x, "merge-many", 20000, 0}, shapeCase{x, "sheets-share", 0, 2}, shapeCase{x, "sheets-share", 0, 400}, shapeCase{"epub-shapes", "spine-repeat", 5000, 2 << 20})
	}
	return out
}

// productShapes runs with the lowered stack limit (see xmlNestFaults) for the nesting shapes.
func productShapes(c *hx.Ctx) {
	defer debug.SetMaxStack(debug.SetMaxStack(32 << 20))
	// grids of hundreds of megabytes are legitimate here: collect them promptly, so that
	// the garbage of one entry point is not counted against the next
	defer debug.SetGCPercent(debug.SetGCPercent(25))
	lightBoth = c.Thorough()
	for _, s := range shapeCases(c.Thorough()) {
		runShape(c, s)
	}
}
