package c02

// Reference faults for the XML-based formats: "retarget every reference incl. to
// itself / its ancestor" (the property's quantifier) applied to the references that
// live INSIDE the XML members: style inheritance and linkage, numbering instances,
// relationship ids, spine/manifest ids. What is a definition and what is a reference
// comes from the format specifications (ECMA-376 part 1 ch. 17/19, ODF 1.2 part 1
// ch. 16/19, EPUB 3 OPF), not from tabula.
//
// richRefFaults damages generated documents: every reference site is pointed at the
// definition that encloses it (a self reference), at every definition from which the
// enclosing one can be reached through references of the same name (closing a cycle of
// every length the document offers), at an identifier nobody defines, at nothing, and
// at the first other definition.
//
// refGraphs authors documents whose style graphs have hostile shapes outright (self
// loops, cycles, a tail leading into a cycle, long legal chains) and uses EVERY style
// of the graph in the body, so a walk that does not guard against cycles is reached.

import (
	"fmt"
	"regexp"
	"strings"

	"verifharness/c15"
	"verifharness/c20"
	"verifharness/hx"
	"verifharness/writers"
)

type idDef struct {
	kind string
	re   *regexp.Regexp // group 1 = the identifier
}

type idRef struct {
	name string // the referencing element / attribute (edges are followed per name)
	kind string
	re   *regexp.Regexp // group 1 = the referenced identifier
}

type xmlRefSpec struct {
	defs []idDef
	refs []idRef
}

func valRefs(kind string, elems ...string) []idRef {
	var out []idRef
	for _, e := range elems {
		out = append(out, idRef{e, kind, regexp.MustCompile(`<` + e + ` w:val="([^"]*)"`)})
	}
	return out
}

func attrRefs(kind string, attrs ...string) []idRef {
	var out []idRef
	for _, a := range attrs {
		out = append(out, idRef{a, kind, regexp.MustCompile(`[\s]` + a + `="([^"]*)"`)})
	}
	return out
}

var relRefs = []idRef{{"r:id", "rel", regexp.MustCompile(`\sr:(?:id|embed|link|pict|dm|lo|qs|cs)="([^"]*)"`)}}
var relDefs = []idDef{{"rel", regexp.MustCompile(`<Relationship\s[^>]*\bId="([^"]*)"`)}}

var xmlRefSpecs = map[string]xmlRefSpec{
	"DOCX": {
		defs: append([]idDef{
			{"style", regexp.MustCompile(`\sw:styleId="([^"]*)"`)},
			{"num", regexp.MustCompile(`<w:num\s[^>]*w:numId="([^"]*)"`)},
			{"anum", regexp.MustCompile(`<w:abstractNum\s[^>]*w:abstractNumId="([^"]*)"`)},
		}, relDefs...),
		refs: append(append(append(valRefs("style", "w:basedOn", "w:next", "w:link", "w:pStyle", "w:rStyle", "w:tblStyle", "w:numStyleLink", "w:styleLink"),
			valRefs("num", "w:numId")...), valRefs("anum", "w:abstractNumId")...), relRefs...),
	},
	"ODT": {
		defs: []idDef{{"style", regexp.MustCompile(`\sstyle:name="([^"]*)"`)}},
		refs: attrRefs("style", "style:parent-style-name", "style:next-style-name", "text:style-name", "table:style-name", "style:list-style-name",
			"style:master-page-name", "draw:style-name", "style:data-style-name", "style:page-layout-name", "text:default-style-name", "text:citation-style-name"),
	},
	"PPTX": {defs: relDefs, refs: relRefs},
	"XLSX": {defs: relDefs, refs: relRefs},
	"EPUB": {
		defs: []idDef{{"item", regexp.MustCompile(`<item\s[^>]*\bid="([^"]*)"`)}},
		refs: []idRef{{"idref", "item", regexp.MustCompile(`\sidref="([^"]*)"`)}, {"toc", "item", regexp.MustCompile(`\stoc="([^"]*)"`)},
			{"cover", "item", regexp.MustCompile(`<meta\s+name="cover"\s+content="([^"]*)"`)}},
	},
}

type refSite struct {
	mi, a, b  int    // member, value span
	ref       int    // index into spec.refs
	value     string // the identifier referenced now
	enclosing string // identifier of the definition the site sits in ("" if none)
}

// refSites lists the reference sites of a document and the identifiers it defines per kind.
func refSites(spec xmlRefSpec, ms []writers.Member) ([]refSite, map[string][]string) {
	defined := map[string][]string{}
	var sites []refSite
	for mi, m := range ms {
		type defAt struct {
			pos  int
			kind string
			id   string
		}
		var defs []defAt
		for _, d := range spec.defs {
			for _, s := range d.re.FindAllSubmatchIndex(m.Data, -1) {
				id := string(m.Data[s[2]:s[3]])
				defs = append(defs, defAt{s[2], d.kind, id})
				defined[d.kind] = append(defined[d.kind], id)
			}
		}
		for ri, rf := range spec.refs {
			for _, s := range rf.re.FindAllSubmatchIndex(m.Data, -1) {
				st := refSite{mi: mi, a: s[2], b: s[3], ref: ri, value: string(m.Data[s[2]:s[3]])}
				// the enclosing definition: one in the same tag, else the last one before the site
				lt := strings.LastIndexByte(string(m.Data[:s[2]]), '<')
				gt := s[3] + strings.IndexByte(string(m.Data[s[3]:]), '>')
				best := -1
				for _, d := range defs {
					if d.kind != rf.kind {
						continue
					}
					if d.pos > lt && d.pos < gt {
						st.enclosing, best = d.id, 1<<62
					} else if d.pos < s[2] && d.pos > best {
						st.enclosing, best = d.id, d.pos
					}
				}
				sites = append(sites, st)
			}
		}
	}
	return sites, defined
}

// refTargets: what the site is retargeted to (see the file comment).
func refTargets(spec xmlRefSpec, sites []refSite, defined map[string][]string, st refSite) []string {
	kind := spec.refs[st.ref].kind
	var out []string
	seen := map[string]bool{st.value: true}
	add := func(v string) {
		if !seen[v] {
			seen[v] = true
			out = append(out, v)
		}
	}
	if st.enclosing != "" {
		add(st.enclosing)
		// everything that reaches the enclosing definition through references of this name
		reach := map[string]bool{st.enclosing: true}
		for changed := true; changed; {
			changed = false
			for _, o := range sites {
				if o.ref == st.ref && o.enclosing != "" && reach[o.value] && !reach[o.enclosing] {
					reach[o.enclosing], changed = true, true
				}
			}
		}
		for _, id := range defined[kind] {
			if reach[id] {
				add(id)
			}
		}
	}
	add("NoSuch" + kind)
	add("")
	for _, id := range defined[kind] {
		if !seen[id] {
			add(id)
			break
		}
	}
	return out
}

func richRefFaults(c *hx.Ctx, format string, seed uint64, docs, budget int) {
	spec := xmlRefSpecs[format]
	ext := c20.ExtOf(format)
	n := 0
	for d := 0; d < docs && n < budget; d++ {
		r := hx.NewRng(seed*977 + uint64(d))
		var base []writers.Member
		if format == "EPUB" || format == "XLSX" {
			base = unzip(c20.GenDocument(r, format, "tokC02"))
		} else {
			base = unzip(c15.GenRich(r, strings.ToLower(format)))
		}
		if len(base) == 0 {
			c.Note("c02: could not re-read the %s for reference faults", format)
			return
		}
		sites, defined := refSites(spec, base)
		c.Count(fmt.Sprintf("%s-ref-sites=%d", format, len(sites)/20*20))
		// quick: a reference that occurs many times with the same (name, value, enclosing) is
		// damaged at its first three occurrences only
		occ := map[string]int{}
		for si, st := range sites {
			key := fmt.Sprint(st.mi, st.ref, st.value, st.enclosing)
			occ[key]++
			if !c.Thorough() && occ[key] > 3 {
				continue
			}
			for _, v := range refTargets(spec, sites, defined, st) {
				if n >= budget {
					return
				}
				m := base[st.mi]
				data := append(append(append([]byte(nil), m.Data[:st.a]...), v...), m.Data[st.b:]...)
				ms := append([]writers.Member(nil), base...)
				ms[st.mi] = writers.Member{Name: m.Name, Data: data, Store: m.Store}
				n++
				runBytes(c, kase{Format: format, Doc: d, Seed: seed, Faults: []fault{{Kind: "rich-ref", Ordinal: st.mi, Site: si, Value: spec.refs[st.ref].name + "=" + v}}}, ext, writers.Zip(ms), "z")
				c.Count(format + "-rich-ref")
			}
		}
	}
}

// ---- authored style graphs ------------------------------------------------------

// graphCase: n styles S0..S(n-1); style i inherits from style parent[i] (-1: none).
type graphCase struct {
	Format string `json:"format"` // "docx-styles" | "odt-styles"
	Shape  string `json:"shape"`
	N      int    `json:"n"`
}

func graphParents(shape string, n int) []int {
	p := make([]int, n)
	for i := range p {
		p[i] = -1
	}
	switch shape {
	case "self": // every style inherits from itself
		for i := range p {
			p[i] = i
		}
	case "cycle": // one cycle through all n styles
		for i := range p {
			p[i] = (i + 1) % n
		}
	case "rho": // a tail of n/2 styles leading into a cycle of the rest
		for i := range p {
			p[i] = i + 1
		}
		p[n-1] = n / 2
	case "chain": // legal: S0 <- S1 <- ... (each inherits from the previous)
		for i := 1; i < n; i++ {
			p[i] = i - 1
		}
	case "star": // legal: all inherit from S0
		for i := 1; i < n; i++ {
			p[i] = 0
		}
	}
	return p
}

const wNS = `xmlns:w="http://schemas.openxmlformats.org/wordprocessingml/2006/main"`

func graphDOCX(g graphCase) []byte {
	par := graphParents(g.Shape, g.N)
	var st, body strings.Builder
	st.WriteString(`<?xml version="1.0" encoding="UTF-8" standalone="yes"?><w:styles ` + wNS + `>`)
	body.WriteString(`<?xml version="1.0" encoding="UTF-8" standalone="yes"?><w:document ` + wNS + `><w:body>`)
	for i := 0; i < g.N; i++ {
		// paragraph style Si, its linked character style Ci (w:link is mutual by specification)
		based, cbased := "", ""
		if par[i] >= 0 {
			based = fmt.Sprintf(`<w:basedOn w:val="S%d"/>`, par[i])
			cbased = fmt.Sprintf(`<w:basedOn w:val="C%d"/>`, par[i])
		}
		fmt.Fprintf(&st, `<w:style w:type="paragraph" w:customStyle="1" w:styleId="S%d"><w:name w:val="Style %d"/>%s<w:next w:val="S%d"/><w:link w:val="C%d"/><w:pPr><w:spacing w:after="%d"/></w:pPr><w:rPr><w:sz w:val="%d"/></w:rPr></w:style>`, i, i, based, i, i, 20+i%7, 20+i%9)
		fmt.Fprintf(&st, `<w:style w:type="character" w:customStyle="1" w:styleId="C%d"><w:name w:val="Style %d Char"/>%s<w:link w:val="S%d"/><w:rPr><w:b/></w:rPr></w:style>`, i, i, cbased, i)
		fmt.Fprintf(&st, `<w:style w:type="table" w:customStyle="1" w:styleId="T%d"><w:name w:val="Table %d"/>%s</w:style>`, i, i, strings.ReplaceAll(based, `"S`, `"T`))
		if i < 400 || i%(g.N/400+1) == 0 || i == g.N-1 { // every style up to 400, then an even sample and the last
			fmt.Fprintf(&body, `<w:p><w:pPr><w:pStyle w:val="S%d"/></w:pPr><w:r><w:rPr><w:rStyle w:val="C%d"/></w:rPr><w:t>para %d</w:t></w:r></w:p>`, i, i, i)
		}
		if i < 3 {
			fmt.Fprintf(&body, `<w:tbl><w:tblPr><w:tblStyle w:val="T%d"/></w:tblPr><w:tblGrid><w:gridCol w:w="1000"/></w:tblGrid><w:tr><w:tc><w:p><w:pPr><w:pStyle w:val="S%d"/></w:pPr><w:r><w:t>cell %d</w:t></w:r></w:p></w:tc></w:tr></w:tbl>`, i, i, i)
		}
	}
	st.WriteString(`</w:styles>`)
	body.WriteString(`<w:sectPr/></w:body></w:document>`)
	const ct = "application/vnd.openxmlformats-officedocument.wordprocessingml."
	return writers.Zip([]writers.Member{
		{Name: "[Content_Types].xml", Data: []byte(`<?xml version="1.0" encoding="UTF-8" standalone="yes"?><Types xmlns="http://schemas.openxmlformats.org/package/2006/content-types"><Default Extension="rels" ContentType="application/vnd.openxmlformats-package.relationships+xml"/><Default Extension="xml" ContentType="application/xml"/><Override PartName="/word/document.xml" ContentType="` + ct + `document.main+xml"/><Override PartName="/word/styles.xml" ContentType="` + ct + `styles+xml"/></Types>`)},
		{Name: "_rels/.rels", Data: []byte(`<?xml version="1.0" encoding="UTF-8" standalone="yes"?><Relationships xmlns="http://schemas.openxmlformats.org/package/2006/relationships"><Relationship Id="rId1" Type="http://schemas.openxmlformats.org/officeDocument/2006/relationships/officeDocument" Target="word/document.xml"/></Relationships>`)},
		{Name: "word/document.xml", Data: []byte(body.String())},
		{Name: "word/_rels/document.xml.rels", Data: []byte(`<?xml version="1.0" encoding="UTF-8" standalone="yes"?><Relationships xmlns="http://schemas.openxmlformats.org/package/2006/relationships"><Relationship Id="rId1" Type="http://schemas.openxmlformats.org/officeDocument/2006/relationships/styles" Target="styles.xml"/></Relationships>`)},
		{Name: "word/styles.xml", Data: []byte(st.String())},
	})
}

const odfNS = `xmlns:office="urn:oasis:names:tc:opendocument:xmlns:office:1.0" xmlns:style="urn:oasis:names:tc:opendocument:xmlns:style:1.0" xmlns:text="urn:oasis:names:tc:opendocument:xmlns:text:1.0" xmlns:table="urn:oasis:names:tc:opendocument:xmlns:table:1.0" xmlns:fo="urn:oasis:names:tc:opendocument:xmlns:xsl-fo-compatible:1.0" office:version="1.2"`

func graphODT(g graphCase) []byte {
	par := graphParents(g.Shape, g.N)
	var common, auto, body strings.Builder
	for i := 0; i < g.N; i++ {
		parent, tparent := "", ""
		if par[i] >= 0 {
			parent = fmt.Sprintf(` style:parent-style-name="S%d"`, par[i])
			tparent = fmt.Sprintf(` style:parent-style-name="T%d"`, par[i])
		}
		// even styles are common styles (styles.xml), odd ones automatic styles (content.xml):
		// the graph crosses the two parts
		dst := &common
		if i%2 == 1 {
			dst = &auto
		}
		fmt.Fprintf(dst, `<style:style style:name="S%d" style:family="paragraph"%s style:next-style-name="S%d"><style:paragraph-properties fo:margin-top="0.%dcm"/><style:text-properties fo:font-size="%dpt"/></style:style>`, i, parent, i, 1+i%7, 10+i%9)
		fmt.Fprintf(dst, `<style:style style:name="T%d" style:family="text"%s><style:text-properties fo:font-weight="bold"/></style:style>`, i, tparent)
		if i < 400 || i%(g.N/400+1) == 0 || i == g.N-1 {
			fmt.Fprintf(&body, `<text:p text:style-name="S%d">para %d <text:span text:style-name="T%d">span</text:span></text:p>`, i, i, i)
		}
		if i < 3 {
			fmt.Fprintf(&body, `<text:h text:style-name="S%d" text:outline-level="%d">head %d</text:h>`, i, i+1, i)
		}
	}
	const mime = "application/vnd.oasis.opendocument.text"
	return writers.Zip([]writers.Member{
		{Name: "mimetype", Data: []byte(mime), Store: true},
		{Name: "content.xml", Data: []byte(`<?xml version="1.0" encoding="UTF-8"?><office:document-content ` + odfNS + `><office:automatic-styles>` + auto.String() + `</office:automatic-styles><office:body><office:text>` + body.String() + `</office:text></office:body></office:document-content>`)},
		{Name: "styles.xml", Data: []byte(`<?xml version="1.0" encoding="UTF-8"?><office:document-styles ` + odfNS + `><office:styles>` + common.String() + `</office:styles></office:document-styles>`)},
		{Name: "meta.xml", Data: []byte(`<?xml version="1.0" encoding="UTF-8"?><office:document-meta xmlns:office="urn:oasis:names:tc:opendocument:xmlns:office:1.0" office:version="1.2"><office:meta/></office:document-meta>`)},
		{Name: "META-INF/manifest.xml", Data: []byte(`<?xml version="1.0" encoding="UTF-8"?><manifest:manifest xmlns:manifest="urn:oasis:names:tc:opendocument:xmlns:manifest:1.0" manifest:version="1.2"><manifest:file-entry manifest:full-path="/" manifest:version="1.2" manifest:media-type="` + mime + `"/><manifest:file-entry manifest:full-path="content.xml" manifest:media-type="text/xml"/><manifest:file-entry manifest:full-path="styles.xml" manifest:media-type="text/xml"/><manifest:file-entry manifest:full-path="meta.xml" manifest:media-type="text/xml"/></manifest:manifest>`)},
	})
}

func runGraph(c *hx.Ctx, g graphCase) {
	var data []byte
	ext := ".docx"
	if g.Format == "odt-styles" {
		data, ext = graphODT(g), ".odt"
	} else {
		data = graphDOCX(g)
	}
	runBytes(c, kase{Format: g.Format, Faults: []fault{{Kind: "graph-" + g.Shape, Site: g.N}}}, ext, data, "g")
	c.Count(g.Format + "-" + g.Shape)
}

func graphCases(thorough bool) []graphCase {
	var out []graphCase
	for _, f := range []string{"docx-styles", "odt-styles"} {
		for _, n := range []int{1, 2, 3, 17} {
			out = append(out, graphCase{f, "self", n}, graphCase{f, "cycle", n})
		}
		out = append(out, graphCase{f, "rho", 2}, graphCase{f, "rho", 7}, graphCase{f, "rho", 40},
			graphCase{f, "chain", 12}, graphCase{f, "chain", 120}, graphCase{f, "star", 60})
		if thorough {
			out = append(out, graphCase{f, "chain", 300}, graphCase{f, "star", 300}, graphCase{f, "cycle", 300}, graphCase{f, "chain", 3000}, graphCase{f, "cycle", 3000}, graphCase{f, "rho", 3000}, graphCase{f, "star", 20000})
		}
	}
	return out
}

func refGraphs(c *hx.Ctx) {
	for _, g := range graphCases(c.Thorough()) {
		runGraph(c, g)
	}
}
