package c02

// Numeric fields the format specifications define but the harness writers never emit.
// "Replace each numeric field by 0, -1, 2^31, 2^63-1" only reaches the fields a valid
// generated document happens to contain; a count, level, span, repetition, index or
// code point that the writers leave at its default is just as much attacker-controlled.
// injectFaults adds each of them (as an attribute of an existing element, or as a child
// element placed where the schema wants it) with every hostile value, to generated
// documents of each format. The table is written from ECMA-376 (WordprocessingML,
// DrawingML, SpreadsheetML), ODF 1.2 part 1 and HTML5; nothing in it comes from tabula.
//
// xmlNestFaults nests every element name of a document inside itself (alone, with its
// parent, with its parent and grandparent: table > row > cell > table ...) far deeper
// than any real document, balanced, so a reader that recurses once per level without a
// limit runs out of stack. The stack limit of the process is lowered while these cases
// run (32 MiB instead of 1 GiB; encoding/xml itself needs under 16 MiB for the 10 000
// levels it accepts), so that 130 thousand levels (a few KiB of compressed input) show
// what a few million would do with the default limit.

import (
	"bytes"
	"fmt"
	"regexp"
	"runtime/debug"
	"strings"

	"verifharness/c15"
	"verifharness/c20"
	"verifharness/hx"
	"verifharness/writers"
)

// injection: where = "attr" (the text is added to the host's start tag), "first" (new
// first child of the host), "before" (new sibling in front of the host's start tag).
type injection struct {
	host  string // element name as written, e.g. "w:tc"
	where string
	text  string // %s = the hostile value (may occur several times)
	hex   bool   // the field is hexadecimal
}

var injections = map[string][]injection{
	"ODT": {
		{"text:p", "first", `<text:s text:c="%s"/>`, false},
		{"text:h", "first", `<text:s text:c="%s"/>`, false},
		{"text:span", "first", `<text:s text:c="%s"/>`, false},
		{"text:p", "first", `<text:tab text:tab-ref="%s"/>`, false},
		{"text:p", "first", `<text:note text:id="ftn%s" text:note-class="footnote"><text:note-citation>%s</text:note-citation><text:note-body><text:p>note</text:p></text:note-body></text:note>`, false},
		{"text:p", "first", `<text:page-number text:select-page="current" text:page-adjust="%s">1</text:page-number>`, false},
		{"text:p", "first", `<text:chapter text:display="name" text:outline-level="%s">c</text:chapter>`, false},
		{"text:h", "attr", ` text:start-value="%s" text:restart-numbering="true"`, false},
		{"text:h", "attr", ` text:outline-level="%s"`, false},
		{"text:list-item", "attr", ` text:start-value="%s"`, false},
		{"text:list", "attr", ` text:continue-numbering="true" text:continue-list="L%s"`, false},
		{"text:list-level-style-number", "attr", ` text:start-value="%s" text:display-levels="%s"`, false},
		{"text:list-level-style-bullet", "attr", ` text:level="%s"`, false},
		{"style:style", "attr", ` style:default-outline-level="%s"`, false},
		{"style:style", "first", `<style:paragraph-properties fo:margin-left="%scm" fo:text-indent="%scm" fo:line-height="%s%%"/>`, false},
		{"style:style", "first", `<style:text-properties fo:font-size="%spt"/>`, false},
		{"table:table-row", "attr", ` table:number-rows-repeated="%s"`, false},
		{"table:table-cell", "attr", ` table:number-columns-repeated="%s"`, false},
		{"table:table-cell", "attr", ` table:number-matrix-columns-spanned="%s" table:number-matrix-rows-spanned="%s"`, false},
		{"table:covered-table-cell", "attr", ` table:number-columns-repeated="%s"`, false},
		{"table:table-column", "attr", ` table:number-columns-repeated="%s"`, false},
		{"table:table-row", "before", `<table:table-header-rows><table:table-row table:number-rows-repeated="%s"><table:table-cell table:number-columns-repeated="%s"><text:p>h</text:p></table:table-cell></table:table-row></table:table-header-rows>`, false},
		{"table:table-row", "before", `<table:table-columns><table:table-column table:number-columns-repeated="%s"/></table:table-columns>`, false},
	},
	"DOCX": {
		{"w:r", "first", `<w:sym w:font="Symbol" w:char="%s"/>`, true},
		{"w:r", "first", `<w:footnoteReference w:id="%s"/>`, false},
		{"w:r", "first", `<w:endnoteReference w:id="%s"/>`, false},
		{"w:r", "first", `<w:ptab w:relativeTo="margin" w:alignment="left" w:leader="none"/><w:tab/><w:br w:type="page"/><w:cr/>`, false},
		{"w:r", "first", `<w:rPr><w:sz w:val="%s"/><w:szCs w:val="%s"/><w:spacing w:val="%s"/><w:w w:val="%s"/><w:position w:val="%s"/></w:rPr>`, false},
		{"w:p", "first", `<w:pPr><w:outlineLvl w:val="%s"/></w:pPr>`, false},
		{"w:p", "first", `<w:pPr><w:numPr><w:ilvl w:val="%s"/><w:numId w:val="1"/></w:numPr></w:pPr>`, false},
		{"w:p", "first", `<w:pPr><w:numPr><w:ilvl w:val="0"/><w:numId w:val="%s"/></w:numPr></w:pPr>`, false},
		{"w:p", "first", `<w:pPr><w:ind w:left="%s" w:hanging="%s" w:firstLine="%s"/><w:spacing w:before="%s" w:after="%s" w:line="%s"/><w:tabs><w:tab w:val="left" w:pos="%s"/></w:tabs></w:pPr>`, false},
		{"w:p", "first", `<w:fldSimple w:instr=" SEQ Figure \* ARABIC \r %s "><w:r><w:t>1</w:t></w:r></w:fldSimple>`, false},
		{"w:tc", "first", `<w:tcPr><w:gridSpan w:val="%s"/></w:tcPr>`, false},
		{"w:tc", "first", `<w:tcPr><w:tcW w:w="%s" w:type="dxa"/><w:vMerge w:val="restart"/></w:tcPr>`, false},
		{"w:tc", "first", `<w:tcPr><w:tcW w:w="%s" w:type="pct"/><w:hMerge w:val="restart"/></w:tcPr>`, false},
		{"w:tr", "first", `<w:trPr><w:gridBefore w:val="%s"/><w:gridAfter w:val="%s"/><w:trHeight w:val="%s"/></w:trPr>`, false},
		{"w:tr", "first", `<w:tblPrEx><w:tblW w:w="%s" w:type="dxa"/><w:tblInd w:w="%s" w:type="dxa"/></w:tblPrEx>`, false},
		{"w:tblGrid", "first", `<w:gridCol w:w="%s"/>`, false},
		{"w:tbl", "first", `<w:tblPr><w:tblW w:w="%s" w:type="pct"/><w:tblStyleRowBandSize w:val="%s"/><w:tblStyleColBandSize w:val="%s"/></w:tblPr>`, false},
		{"w:lvl", "first", `<w:start w:val="%s"/>`, false},
		{"w:lvl", "first", `<w:lvlRestart w:val="%s"/><w:lvlPicBulletId w:val="%s"/>`, false},
		{"w:lvl", "attr", ` w:tplc="%s"`, true},
		{"w:num", "first", `<w:lvlOverride w:ilvl="%s"><w:startOverride w:val="%s"/></w:lvlOverride>`, false},
		{"w:num", "first", `<w:lvlOverride w:ilvl="0"><w:startOverride w:val="%s"/></w:lvlOverride>`, false},
		{"w:style", "first", `<w:uiPriority w:val="%s"/>`, false},
		{"w:style", "first", `<w:pPr><w:outlineLvl w:val="%s"/><w:numPr><w:ilvl w:val="%s"/><w:numId w:val="%s"/></w:numPr></w:pPr>`, false},
		{"w:body", "first", `<w:sectPr><w:pgSz w:w="%s" w:h="%s"/><w:cols w:num="%s" w:space="%s"/><w:pgNumType w:start="%s"/></w:sectPr>`, false},
	},
	"PPTX": {
		{"a:pPr", "attr", ` lvl="%s"`, false},
		{"a:pPr", "attr", ` indent="%s" marL="%s" marR="%s" defTabSz="%s"`, false},
		{"a:p", "first", `<a:pPr lvl="%s"><a:buAutoNum type="arabicPeriod" startAt="%s"/></a:pPr>`, false},
		{"a:p", "first", `<a:pPr><a:buSzPct val="%s"/><a:buChar char="&#8226;"/><a:tabLst><a:tab pos="%s" algn="l"/></a:tabLst><a:lnSpc><a:spcPct val="%s"/></a:lnSpc></a:pPr>`, false},
		{"a:p", "first", `<a:fld id="{B6F15528-21DE-4FAA-801E-634DDDAF4B2B}" type="slidenum"><a:t>%s</a:t></a:fld><a:br/>`, false},
		{"a:r", "first", `<a:rPr sz="%s" baseline="%s" spc="%s" kern="%s"/>`, false},
		{"a:tc", "attr", ` gridSpan="%s"`, false},
		{"a:tc", "attr", ` rowSpan="%s"`, false},
		{"a:tc", "attr", ` gridSpan="%s" rowSpan="%s" hMerge="1" vMerge="1"`, false},
		{"a:tr", "attr", ` h="%s"`, false},
		{"a:tblGrid", "first", `<a:gridCol w="%s"/>`, false},
		{"a:bodyPr", "attr", ` numCol="%s" spcCol="%s" lIns="%s" rot="%s"`, false},
		{"p:ph", "attr", ` idx="%s" sz="quarter"`, false},
		{"p:sp", "first", `<p:spPr><a:xfrm rot="%s"><a:off x="%s" y="%s"/><a:ext cx="%s" cy="%s"/></a:xfrm></p:spPr>`, false},
		{"p:spTree", "first", `<p:grpSpPr><a:xfrm><a:off x="%s" y="%s"/><a:ext cx="%s" cy="%s"/><a:chOff x="%s" y="%s"/><a:chExt cx="%s" cy="%s"/></a:xfrm></p:grpSpPr>`, false},
	},
	"XLSX": {
		{"c", "attr", ` s="%s"`, false},
		{"c", "attr", ` cm="%s" vm="%s"`, false},
		{"c", "first", `<f t="shared" si="%s" ref="A1:A%s">1+1</f>`, false},
		{"row", "attr", ` spans="1:%s"`, false},
		{"row", "attr", ` s="%s" customFormat="1" outlineLevel="%s" ht="%s"`, false},
		{"sheetData", "before", `<dimension ref="A1:XFD%s"/>`, false},
		{"sheetData", "before", `<sheetFormatPr defaultRowHeight="15" baseColWidth="%s" outlineLevelRow="%s" outlineLevelCol="%s"/>`, false},
		{"sheetData", "before", `<cols><col min="%s" max="%s" width="9" style="%s"/></cols>`, false},
		{"sheetData", "before", `<cols><col min="1" max="%s" width="%s" outlineLevel="%s"/></cols>`, false},
		{"sheet", "attr", ` state="hidden" localSheetId="%s"`, false},
		{"si", "first", `<rPh sb="%s" eb="%s"><t>p</t></rPh><phoneticPr fontId="%s"/>`, false},
		{"workbook", "first", `<workbookPr date1904="1" defaultThemeVersion="%s"/><bookViews><workbookView activeTab="%s" firstSheet="%s"/></bookViews>`, false},
		{"sheets", "before", `<definedNames><definedName name="_xlnm.Print_Area" localSheetId="%s">S1!$A$1:$XFD$%s</definedName></definedNames>`, false},
	},
	"HTML": {
		{"td", "attr", ` colspan="%s"`, false},
		{"td", "attr", ` rowspan="%s"`, false},
		{"th", "attr", ` colspan="%s" rowspan="%s"`, false},
		{"table", "first", `<colgroup span="%s"><col span="%s"></colgroup>`, false},
		{"table", "attr", ` border="%s" cellpadding="%s" cellspacing="%s" width="%s"`, false},
		{"ol", "attr", ` start="%s"`, false},
		{"ol", "attr", ` reversed start="%s" type="i"`, false},
		{"ul", "first", `<li value="%s">v</li>`, false},
		{"li", "attr", ` value="%s"`, false},
		{"p", "first", `<font size="%s">f</font><img width="%s" height="%s" alt="i"><br clear="all"><wbr>`, false},
		{"p", "first", `&#%s;`, false},
		{"p", "first", `&#x%s;`, true},
		{"body", "first", `<pre width="%s">a	b</pre><textarea rows="%s" cols="%s">t</textarea><hr size="%s"><meter value="%s" max="%s"></meter><progress value="%s" max="%s"></progress>`, false},
		{"body", "first", `<h1 aria-level="%s">a</h1><div role="heading" aria-level="%s">b</div><ol><li><ol start="%s"><li>x</li></ol></li></ol>`, false},
		{"body", "attr", ` tabindex="%s" data-level="%s"`, false},
		{"head", "first", `<meta http-equiv="refresh" content="%s;url=#"><meta charset="utf-8"><base href="#">`, false},
	},
}

var injectValues = []string{"0", "-1", "2147483647", "2147483648", "4294967296", "99999999", "9223372036854775807", "-9223372036854775808", "1e9", "0.5"}
var injectHexValues = []string{"0", "FFFF", "F0000000", "FFFFFFFF", "7FFFFFFF", "110000", "FFFFFFFFFFFFFFFF", "-1", "D800", "G"}

// hostTags: the start tags of element `name` in data that have content (not self-closing):
// [start of '<', end after '>'].
func hostTags(data []byte, name string, selfClosingToo bool) [][2]int {
	re := regexp.MustCompile(`<` + regexp.QuoteMeta(name) + `(\s[^<>]*)?>`)
	var out [][2]int
	for _, m := range re.FindAllIndex(data, -1) {
		if !selfClosingToo && data[m[1]-2] == '/' {
			continue
		}
		out = append(out, [2]int{m[0], m[1]})
	}
	return out
}

func injectInto(data []byte, inj injection, occurrence int, value string) ([]byte, bool) {
	tags := hostTags(data, inj.host, inj.where != "first")
	if occurrence >= len(tags) {
		return nil, false
	}
	t := tags[occurrence]
	text := strings.ReplaceAll(inj.text, "%s", value)
	text = strings.ReplaceAll(text, "%%", "%")
	at := t[1]
	switch inj.where {
	case "attr":
		at = t[1] - 1
		if data[at-1] == '/' {
			at--
		}
	case "before":
		at = t[0]
	}
	return append(append(append([]byte(nil), data[:at]...), text...), data[at:]...), true
}

func injectBase(c *hx.Ctx, format string, seed uint64, d int) ([]writers.Member, string) {
	r := hx.NewRng(seed*977 + uint64(d))
	if format == "HTML" {
		return []writers.Member{{Name: "doc.html", Data: c15.GenRich(r, "html")}}, ".html"
	}
	return unzip(c15.GenRich(r, strings.ToLower(format))), c20.ExtOf(format)
}

// injectFaults: every injection of the format at the first and at a later host of each
// member that offers one; quick runs a rotating third of the values, thorough all.
func injectFaults(c *hx.Ctx, format string, seed uint64, docs int) {
	for d := 0; d < docs; d++ {
		base, ext := injectBase(c, format, seed, d)
		if len(base) == 0 {
			c.Note("c02: could not re-read the rich %s for injections", format)
			return
		}
		for ii, inj := range injections[format] {
			values := injectValues
			if inj.hex {
				values = injectHexValues
			}
			for mi, m := range base {
				if !bytes.Contains(m.Data, []byte("<"+inj.host)) {
					continue
				}
				for _, occ := range []int{0, 2} {
					for vi, v := range values {
						if !c.Thorough() && (vi+ii+int(seed)+d)%4 != 0 && !(occ == 0 && (v == "2147483647" || v == "FFFFFFFF")) {
							continue
						}
						if !c.Thorough() && occ > 0 && vi%2 == 1 {
							continue
						}
						data, ok := injectInto(m.Data, inj, occ, v)
						if !ok {
							continue
						}
						var out []byte
						if format == "HTML" {
							out = data
						} else {
							ms := append([]writers.Member(nil), base...)
							ms[mi] = writers.Member{Name: m.Name, Data: data, Store: m.Store}
							out = writers.Zip(ms)
						}
						runBytes(c, kase{Format: format, Doc: d, Seed: seed, Faults: []fault{{Kind: "inject", Ordinal: mi, Site: ii*10 + occ, Value: inj.host + ":" + strings.ReplaceAll(inj.text, "%s", v)}}}, ext, out, "j")
						c.Count(format + "-inject")
					}
				}
			}
		}
	}
}

// ---- element nesting --------------------------------------------------------------

var openTagRe = regexp.MustCompile(`<([A-Za-z_][\w.\-]*(?::[\w.\-]+)?)(\s[^<>]*)?>`)

// nestSites: for each element name of the member (first occurrence with content): the
// position after its start tag and the names of its ancestors at that point.
func nestSites(data []byte) (names []string, at map[string]int, path map[string][]string) {
	at, path = map[string]int{}, map[string][]string{}
	var stack []string
	i := 0
	for i < len(data) {
		if data[i] != '<' {
			i++
			continue
		}
		end := bytes.IndexByte(data[i:], '>')
		if end < 0 {
			break
		}
		tag := data[i : i+end+1]
		switch {
		case bytes.HasPrefix(tag, []byte("</")):
			if len(stack) > 0 {
				stack = stack[:len(stack)-1]
			}
		case bytes.HasPrefix(tag, []byte("<?")), bytes.HasPrefix(tag, []byte("<!")):
		default:
			m := openTagRe.FindSubmatch(tag)
			if m == nil {
				break
			}
			name := string(m[1])
			if tag[len(tag)-2] == '/' {
				break
			}
			stack = append(stack, name)
			if _, seen := at[name]; !seen {
				at[name] = i + end + 1
				path[name] = append([]string(nil), stack...)
				names = append(names, name)
			}
		}
		i += end + 1
	}
	return
}

// nestText: `levels` levels of the unit (the last k names of the path), balanced.
func nestText(path []string, k, levels int) string {
	if k > len(path) {
		k = len(path)
	}
	unit := path[len(path)-k:]
	var open, shut strings.Builder
	for _, n := range unit {
		open.WriteString("<" + n + ">")
	}
	for i := len(unit) - 1; i >= 0; i-- {
		shut.WriteString("</" + unit[i] + ">")
	}
	n := levels / k
	return strings.Repeat(open.String(), n) + strings.Repeat(shut.String(), n)
}

// nestUnits: containers that the specifications allow inside themselves (directly or
// through the listed intermediate elements) and that the harness writers may not emit:
// tracked changes, hyperlinks, content controls, smart tags, fields, custom XML and
// compatibility wrappers of WordprocessingML; spans, links, sections, lists and
// sub-tables of ODF; group shapes of PresentationML. host = the element inside which
// the nest is placed (its first occurrence with content).
var nestUnits = map[string][]struct {
	host string
	unit []string
}{
	"DOCX": {
		{"w:p", []string{"w:ins"}}, {"w:p", []string{"w:del"}}, {"w:p", []string{"w:moveTo"}}, {"w:p", []string{"w:moveFrom"}},
		{"w:p", []string{"w:hyperlink"}}, {"w:p", []string{"w:smartTag"}}, {"w:p", []string{"w:fldSimple"}}, {"w:p", []string{"w:customXml"}},
		{"w:p", []string{"w:sdt", "w:sdtContent"}}, {"w:body", []string{"w:sdt", "w:sdtContent"}}, {"w:body", []string{"w:customXml"}},
		{"w:r", []string{"mc:AlternateContent", "mc:Choice"}}, {"w:r", []string{"w:pict", "v:shape", "v:textbox", "w:txbxContent", "w:p", "w:r"}},
		{"w:tc", []string{"w:tbl", "w:tr", "w:tc"}}, {"w:body", []string{"w:tbl", "w:tr", "w:tc"}},
	},
	"ODT": {
		{"text:p", []string{"text:span"}}, {"text:p", []string{"text:a"}}, {"text:h", []string{"text:span"}}, {"text:p", []string{"text:span", "text:a"}},
		{"text:p", []string{"text:ruby", "text:ruby-base"}}, {"text:p", []string{"text:note", "text:note-body", "text:p"}},
		{"office:text", []string{"text:section"}}, {"office:text", []string{"text:list", "text:list-item"}},
		{"office:text", []string{"table:table", "table:table-row", "table:table-cell"}}, {"text:p", []string{"draw:frame", "draw:text-box", "text:p"}},
	},
	"PPTX": {
		{"p:spTree", []string{"p:grpSp"}}, {"a:p", []string{"a:r"}}, {"p:txBody", []string{"a:p"}},
		{"p:spTree", []string{"mc:AlternateContent", "mc:Choice"}}, {"p:spTree", []string{"p:graphicFrame", "a:graphic", "a:graphicData", "a:tbl", "a:tr", "a:tc", "a:txBody"}},
	},
	"XLSX": {
		{"si", []string{"r"}}, {"c", []string{"is", "r"}}, {"sheetData", []string{"row"}}, {"row", []string{"c"}},
	},
}

// lightBoth: exerciseLight also renders Markdown (thorough tier).
var lightBoth bool

// exerciseLight: the entry point that reads the whole document (and, in the thorough
// tier, the one that renders it).
func exerciseLight(c *hx.Ctx, k kase, ext string, data []byte) {
	exerciseOnly = map[string]bool{"Text": true, "ToMarkdown": lightBoth}
	defer func() { exerciseOnly = nil }()
	runBytes(c, k, ext, data, "n")
}

// xmlNestFaults: the nestUnits of the format always; of the (element name, unit) pairs of
// the document itself quick runs every `stride`-th, starting at a seed-dependent offset,
// thorough all of them.
func xmlNestFaults(c *hx.Ctx, format string, seed uint64, levels, stride int) {
	base, ext := injectBase(c, format, seed, 0)
	if len(base) == 0 || format == "HTML" {
		return
	}
	defer debug.SetMaxStack(debug.SetMaxStack(32 << 20))
	lightBoth = c.Thorough()
	run := func(mi, at int, path []string, k int, label string) {
		m := base[mi]
		text := nestText(path, k, levels)
		data := append(append(append([]byte(nil), m.Data[:at]...), text...), m.Data[at:]...)
		ms := append([]writers.Member(nil), base...)
		ms[mi] = writers.Member{Name: m.Name, Data: data, Store: m.Store}
		exerciseLight(c, kase{Format: format, Seed: seed, Faults: []fault{{Kind: "xml-nest", Ordinal: mi, Site: levels, Value: label}}}, ext, writers.Zip(ms))
		c.Count(format + "-xml-nest")
	}
	n := int(seed)
	unitDone := map[int]bool{} // a unit goes into the first member that has its host
	for mi, m := range base {
		names, at, path := nestSites(m.Data)
		for ui, u := range nestUnits[format] {
			if !c.Thorough() && ui >= 2 && (ui+int(seed))%3 != 0 {
				continue // quick: the first two units and a seed-dependent third of the others
			}
			if pos, ok := at[u.host]; ok && !unitDone[ui] {
				unitDone[ui] = true
				run(mi, pos, u.unit, len(u.unit), u.host+">"+strings.Join(u.unit, ">"))
			}
		}
		for _, name := range names {
			for _, k := range []int{1, 2, 3} {
				if k > 1 && k > len(path[name]) {
					continue
				}
				n++
				if n%stride != 0 {
					continue
				}
				run(mi, at[name], path[name], k, fmt.Sprintf("%s/%d", name, k))
			}
		}
	}
}
