// Package c11 is the correspondence/oracle harness for property C11.
package c11

import "verifharness/hx"

func init() { hx.Register("C11", Run, Replay) }

// Run is not built yet for this property.
func Run(c *hx.Ctx) { c.Note("C11: harness not built") }

func Replay(c *hx.Ctx, kase map[string]interface{}) {}
