// Package c11: header/footer exclusion removes only repeated marginal text.
//
// Correspondence ops (all answered by lean/TabulaModel/Handlers/C11.lean):
//
//	c11.hf <page>...      page = idx:height:frag|frag|...  frag = hextext,x,y,w,h,fs  (numbers n or n/d)
//	                      => "k" then per page the kept fragment ids "0,2,3" or "-"
//	c11.detect <page>...  => H=<hextext:ispn:p,p,..;...> F=<...> (sorted; "-" when empty)
//	c11.norm <hex> | c11.ispn <hex> | c11.match <hexfrag> <hexregion> <0|1> | c11.cpn l=<hexlist>
//	c11.charlevel l=<hexlist> | c11.docx|c11.odt <hextext> h=<hexlist> f=<hexlist> <exH> <exF> | c11.pptx <hex>
package c11

import (
	"encoding/json"
	"fmt"
	"math/big"
	"os"
	"path/filepath"
	"sort"
	"strconv"
	"strings"
	"unicode"

	"github.com/tsawler/tabula"
	"github.com/tsawler/tabula/docx"
	"github.com/tsawler/tabula/layout"
	"github.com/tsawler/tabula/odt"
	"github.com/tsawler/tabula/pptx"
	"github.com/tsawler/tabula/text"

	"verifharness/hx"
)

func init() { hx.Register("C11", Run, Replay) }

// ---- adapters ------------------------------------------------------------------------

func toLayout(d Doc) []layout.PageFragments {
	out := make([]layout.PageFragments, len(d.Pages))
	for i, p := range d.Pages {
		fs := make([]text.TextFragment, len(p.F))
		for j, f := range p.F {
			fs[j] = text.TextFragment{Text: f.T, X: float64(f.X), Y: float64(f.Y), Width: float64(f.W),
				Height: float64(f.H), FontSize: float64(f.FS), FontName: "F" + strconv.Itoa(j)}
		}
		out[i] = layout.PageFragments{PageIndex: p.I, PageHeight: float64(p.H), PageWidth: float64(p.W), Fragments: fs}
	}
	return out
}

// keptIDs maps a filtered fragment list back to indices of the original list
// (greedy subsequence match on the whole fragment value).
func keptIDs(orig, out []text.TextFragment) ([]int, bool) {
	ids := make([]int, 0, len(out))
	j := 0
	for _, o := range out {
		for j < len(orig) && orig[j] != o {
			j++
		}
		if j == len(orig) {
			return nil, false
		}
		ids = append(ids, j)
		j++
	}
	return ids, true
}

func ratOf(x float64) string {
	r := new(big.Rat)
	if r.SetFloat64(x) == nil {
		return "0"
	}
	if r.IsInt() {
		return r.Num().String()
	}
	return r.Num().String() + "/" + r.Denom().String()
}

func pagesField(pages []layout.PageFragments) string {
	var sb strings.Builder
	for i, p := range pages {
		if i > 0 {
			sb.WriteByte(' ')
		}
		fmt.Fprintf(&sb, "%d:%s:", p.PageIndex, ratOf(p.PageHeight))
		for j, f := range p.Fragments {
			if j > 0 {
				sb.WriteByte('|')
			}
			fmt.Fprintf(&sb, "%s,%s,%s,%s,%s,%s", hx.HexS(f.Text), ratOf(f.X), ratOf(f.Y), ratOf(f.Width), ratOf(f.Height), ratOf(f.FontSize))
		}
	}
	return sb.String()
}

func opLine(op string, pages []layout.PageFragments) string {
	if len(pages) == 0 {
		return op
	}
	return op + " " + pagesField(pages)
}

func keptLine(kept [][]int, isSub []bool) string {
	var sb strings.Builder
	sb.WriteString("k")
	for i, ids := range kept {
		sb.WriteByte(' ')
		if !isSub[i] {
			sb.WriteString("not-a-sublist")
			continue
		}
		if len(ids) == 0 {
			sb.WriteByte('-')
			continue
		}
		for j, id := range ids {
			if j > 0 {
				sb.WriteByte(',')
			}
			sb.WriteString(strconv.Itoa(id))
		}
	}
	return sb.String()
}

func regionsLine(res *layout.HeaderFooterResult) string {
	f := func(rs []layout.HeaderFooterRegion) string {
		if len(rs) == 0 {
			return "-"
		}
		var es []string
		for _, r := range rs {
			ps := make([]string, len(r.PageIndices))
			for i, p := range r.PageIndices {
				ps[i] = strconv.Itoa(p)
			}
			pn := "0"
			if r.IsPageNumber {
				pn = "1"
			}
			es = append(es, hx.HexS(r.Text)+":"+pn+":"+strings.Join(ps, ","))
		}
		sort.Strings(es)
		return strings.Join(es, ";")
	}
	return "H=" + f(res.Headers) + " F=" + f(res.Footers)
}

// runLayout drives layout.NewHeaderFooterDetector().Detect(pages).FilterFragments(...).
func runLayout(pages []layout.PageFragments) (res *layout.HeaderFooterResult, kept [][]int, isSub []bool, panicked string) {
	kept = make([][]int, len(pages))
	isSub = make([]bool, len(pages))
	panicked = hx.Safe(func() {
		res = layout.NewHeaderFooterDetector().Detect(pages)
		for i, p := range pages {
			in := append([]text.TextFragment(nil), p.Fragments...)
			out := res.FilterFragments(p.PageIndex, in, p.PageHeight)
			kept[i], isSub[i] = keptIDs(p.Fragments, out)
		}
	})
	return
}

// floatAmbiguous drops documents in which some fragment sits exactly on a scaled,
// non-integer band threshold (72*contentHeight/pageHeight): float64 and exact
// arithmetic may then legitimately disagree (DESIGN 3.3).
func floatAmbiguous(c *hx.Ctx, d Doc) bool {
	for _, p := range d.Pages {
		if viewOf(p).ambiguous {
			c.Count("dropped:float-ambiguous-threshold")
			return true
		}
	}
	return false
}

// ---- direct path -----------------------------------------------------------------------

func directCase(c *hx.Ctx, d Doc, emitOps bool) {
	ci := caseInfo{Mode: "direct", Doc: d}
	if floatAmbiguous(c, d) {
		return
	}
	pages := toLayout(d)
	res, kept, isSub, pan := runLayout(pages)
	if !c.Check("C11/panic", pan == "", ci, func() string { return "Detect/FilterFragments panicked: " + pan }) {
		return
	}
	if emitOps {
		c.Op(opLine("c11.detect", pages), regionsLine(res))
		c.Op(opLine("c11.hf", pages), keptLine(kept, isSub))
	}
	checkDoc(c, ci, kept, isSub)
	removed := 0
	for i, p := range d.Pages {
		removed += len(p.F) - len(kept[i])
	}
	for _, t := range strings.Split(d.Tags, ",") {
		if t != "" {
			c.Count("doc:" + t)
		}
	}
	c.Count(fmt.Sprintf("pages:%s", bucket(len(d.Pages))))
	if removed > 0 {
		c.Count("result:something-removed")
	} else {
		c.Count("result:unchanged")
	}
	b, _ := json.Marshal(d.Pages)
	c.Case(string(b), len(d.Pages) > 0 && removed > 0)
}

func bucket(n int) string {
	switch {
	case n <= 2:
		return strconv.Itoa(n)
	case n <= 4:
		return "3-4"
	case n <= 8:
		return "5-8"
	case n <= 14:
		return "9+"
	case n <= 32:
		return "15-32"
	case n <= 64:
		return "33-64"
	case n <= 128:
		return "65-128"
	}
	return "129+"
}

// ---- rendered-PDF path -----------------------------------------------------------------

func pdfOf(d Doc, r *hx.Rng) []byte {
	pp := make([]pdfPage, len(d.Pages))
	for i, p := range d.Pages {
		pp[i] = pdfPage{W: p.W, H: p.H, Broken: p.Broken}
		for _, f := range p.F {
			pp[i].Frags = append(pp[i].Frags, pdfFrag{Text: f.T, X: f.X, Y: f.Y, FontSize: f.FS, UseTd: r != nil && r.Bool()})
		}
	}
	return writePDF(pp)
}

func withExcl(e *tabula.Extractor, excl string) *tabula.Extractor {
	switch excl {
	case "h":
		return e.ExcludeHeaders()
	case "f":
		return e.ExcludeFooters()
	}
	return e.ExcludeHeadersAndFooters()
}

// sortedGlyphs: the non-blank characters of s, sorted.
func sortedGlyphs(s string) []string {
	var out []string
	for _, r := range s {
		if !unicode.IsSpace(r) {
			out = append(out, string(r))
		}
	}
	sort.Strings(out)
	return out
}

func textLines(s string) []string {
	var out []string
	for _, l := range strings.Split(s, "\n") {
		if l = strings.TrimSpace(l); l != "" {
			out = append(out, l)
		}
	}
	sort.Strings(out)
	return out
}

func pdfCase(c *hx.Ctx, d Doc, subset []int, excl string, r *hx.Rng, emitOps bool) {
	pdfCaseInfo(c, caseInfo{Mode: "pdf", Doc: d, Subset: subset, Excl: excl}, r, emitOps)
}

// withPages requests the 0-based pages ks: Pages(k+1, ...) or, for a contiguous run asked
// for as a range, PageRange(first+1, last+1).
func withPages(e *tabula.Extractor, ks []int, asRange bool) *tabula.Extractor {
	if asRange && len(ks) > 0 {
		return e.PageRange(ks[0]+1, ks[len(ks)-1]+1)
	}
	nums := make([]int, len(ks))
	for i, k := range ks {
		nums[i] = k + 1
	}
	return e.Pages(nums...)
}

func contiguous(ks []int) bool {
	for i := 1; i < len(ks); i++ {
		if ks[i] != ks[i-1]+1 {
			return false
		}
	}
	return len(ks) > 0
}

func fragKey(t string, x, y float64) string { return fmt.Sprintf("%s@%v,%v", t, x, y) }

// pdfCaseInfo runs one rendered-PDF case. With ci.Probe (long documents) only the probed
// pages are requested one by one; every page is still covered by the whole-document
// request and, when it is in the subset, by the subset request.
func pdfCaseInfo(c *hx.Ctx, ci caseInfo, r *hx.Rng, emitOps bool) {
	d, subset, excl := ci.Doc, ci.Subset, ci.Excl
	ci.Range = ci.Range && contiguous(subset)
	probed := probedSet(ci)
	sampled := len(ci.Probe) > 0
	if floatAmbiguous(c, d) {
		return
	}
	dir := filepath.Join(c.OutDir, "pdf")
	os.MkdirAll(dir, 0o755)
	fn := filepath.Join(dir, "case.pdf")
	if err := os.WriteFile(fn, pdfOf(d, r), 0o644); err != nil {
		c.Note("cannot write %s: %v", fn, err)
		return
	}
	n := len(d.Pages)
	// unfiltered fragments per page, as tabula extracts them
	raw := make([]layout.PageFragments, n)
	var pan string
	okRaw := true
	pan = hx.Safe(func() {
		if sampled {
			// one request for the whole document, cut at the written fragment counts
			fr, _, err := tabula.Open(fn).Fragments()
			total := 0
			for _, p := range d.Pages {
				total += len(p.F)
			}
			if err != nil || len(fr) != total {
				okRaw = false
				return
			}
			at := 0
			for i, p := range d.Pages {
				raw[i] = layout.PageFragments{PageIndex: i, PageHeight: float64(p.H), PageWidth: float64(p.W), Fragments: fr[at : at+len(p.F) : at+len(p.F)]}
				at += len(p.F)
			}
			return
		}
		for i := 0; i < n; i++ {
			fr, _, err := tabula.Open(fn).Pages(i + 1).Fragments()
			if err != nil {
				okRaw = false
				return
			}
			raw[i] = layout.PageFragments{PageIndex: i, PageHeight: float64(d.Pages[i].H), PageWidth: float64(d.Pages[i].W), Fragments: fr}
		}
	})
	if !c.Check("C11/panic", pan == "", ci, func() string { return "Fragments() panicked: " + pan }) {
		return
	}
	if !okRaw {
		c.Count("pdf:extract-error")
		return
	}
	// the writer's fragments must come back as written (positions are what the property talks about)
	same := true
	for i, p := range d.Pages {
		if len(raw[i].Fragments) != len(p.F) {
			same = false
			break
		}
		for j, f := range p.F {
			g := raw[i].Fragments[j]
			if g.Text != f.T || g.X != float64(f.X) || g.Y != float64(f.Y) || g.Height != float64(f.H) {
				same = false
			}
		}
	}
	if !same {
		c.Count("pdf:fragments-differ-from-written(skipped)")
		return
	}
	// per page through the public API: Lines() carries the surviving fragments
	kept := make([][]int, n)
	isSub := make([]bool, n)
	narrow := false
	pan = hx.Safe(func() {
		for i := 0; i < n; i++ {
			if !probed[i] {
				continue
			}
			base, err := tabula.Open(fn).Pages(i + 1).Lines()
			if err != nil {
				okRaw = false
				return
			}
			nb := 0
			for _, l := range base {
				nb += len(l.Fragments)
			}
			if nb != len(raw[i].Fragments) {
				narrow = true // the line detector itself drops fragments (not C11's business)
				return
			}
			ls, err := withExcl(tabula.Open(fn).Pages(i+1), excl).Lines()
			if err != nil {
				okRaw = false
				return
			}
			var ids []int
			ok := true
			for _, l := range ls {
				for _, f := range l.Fragments {
					found := -1
					for j, g := range raw[i].Fragments {
						if g == f {
							found = j
						}
					}
					if found < 0 {
						ok = false
					}
					ids = append(ids, found)
				}
			}
			sort.Ints(ids)
			for j := 1; j < len(ids); j++ {
				if ids[j] == ids[j-1] {
					ok = false
				}
			}
			kept[i], isSub[i] = ids, ok
		}
	})
	if !c.Check("C11/panic", pan == "", ci, func() string { return "Lines() panicked: " + pan }) {
		return
	}
	if !okRaw || narrow {
		c.Count("pdf:line-detector-drops-fragments(skipped)")
		return
	}
	if emitOps && !sampled {
		c.Op(opLine("c11.hf", raw), keptLine(kept, isSub))
	}
	checkDoc(c, ci, kept, isSub)
	c.Count("pdf:excl=" + excl)
	c.Count("pdf:pages:" + bucket(n))
	if sampled {
		c.Count("pdf:long(sampled-pages+whole-document)")
	}
	for _, t := range strings.Split(d.Tags, ",") {
		switch t {
		case "mixed-sizes", "charlevel-pages", "cover", "chapter-opener":
			c.Count("pdf:" + t)
		}
	}

	// Text(): the filtered text consists of exactly the surviving fragments' texts
	for i := 0; i < n; i++ {
		if !probed[i] || !isSub[i] {
			continue
		}
		if sampled && i != ci.Probe[0] && i != ci.Probe[len(ci.Probe)-1] {
			continue // long documents: Text() page by page on the first and the last probed page, and on the whole document
		}
		var txt string
		var err error
		pan = hx.Safe(func() { txt, _, err = withExcl(tabula.Open(fn).Pages(i+1), excl).Text() })
		if !c.Check("C11/panic", pan == "", ci, func() string { return "Text() panicked: " + pan }) {
			return
		}
		if err != nil {
			continue
		}
		var want []string
		for _, id := range kept[i] {
			want = append(want, strings.TrimSpace(d.Pages[i].F[id].T))
		}
		sort.Strings(want)
		got := textLines(txt)
		if len(d.Pages[i].Lines) > 0 {
			// glyph-by-glyph page: Text() joins the glyphs into words; the surviving text is
			// then the multiset of the surviving glyphs
			want = sortedGlyphs(strings.Join(want, ""))
			got = sortedGlyphs(txt)
		}
		c.Check("C11/text-differs-from-fragments", strings.Join(got, "\n") == strings.Join(want, "\n"), ci, func() string {
			return fmt.Sprintf("page %d: Exclude…().Text() lines %q, surviving fragments %q", i+1, got, want)
		})
	}

	// page subsets requested together with exclusion: detection must still use all pages
	_, allKept, allSub, _ := runLayout(raw)
	if len(subset) > 0 {
		var want []string
		okAll := true
		for _, k := range subset {
			if !allSub[k] {
				okAll = false
				continue
			}
			for _, id := range allKept[k] {
				f := raw[k].Fragments[id]
				want = append(want, fmt.Sprintf("%s@%v,%v", f.Text, f.X, f.Y))
			}
		}
		if okAll {
			nums := make([]int, len(subset))
			for i, k := range subset {
				nums[i] = k + 1
			}
			var got []string
			var err error
			pan = hx.Safe(func() {
				var ls []layout.Line
				ls, err = withExcl(withPages(tabula.Open(fn), subset, ci.Range), excl).Lines()
				for _, l := range ls {
					for _, f := range l.Fragments {
						got = append(got, fmt.Sprintf("%s@%v,%v", f.Text, f.X, f.Y))
					}
				}
			})
			if c.Check("C11/panic", pan == "", ci, func() string { return "Pages(S).Lines() panicked: " + pan }) && err == nil {
				sort.Strings(got)
				sort.Strings(want)
				c.Check("C11/subset-detection", strings.Join(got, "\n") == strings.Join(want, "\n"), ci, func() string {
					how := fmt.Sprintf("Pages(%v)", nums)
					if ci.Range {
						how = fmt.Sprintf("PageRange(%d, %d)", nums[0], nums[len(nums)-1])
					}
					return fmt.Sprintf("%s with exclusion kept %q; filtering those pages with regions detected on all %d pages keeps %q",
						how, got, n, want)
				})
				c.Count("pdf:subset")
				if ci.Range {
					c.Count("pdf:subset-as-PageRange")
				}
				if nums[len(nums)-1] > 14 {
					c.Count("pdf:subset-reaches-beyond-page-14")
				}
			}
		}
	}
	wholeDocument(c, ci, fn, raw, allKept, allSub)
	b, _ := json.Marshal(ci)
	c.Case("pdf"+string(b), true)
}

// ---- micro ops on the helper functions -----------------------------------------------------

var microTexts = []string{"", " ", "3", "Page 3", "page 12", "PAGE 7", "- 3 -", "3 of 10", "Page 3 of 10", "3/10", "3 / 10",
	"p. 3", "p.3", "pg 3", "pg. 3", "PG. 44", "P.3", "Page3", "Page  3", "page 3 ", "\tPage 3\n", " Page 3 ", "  7 　",
	"iii", "ACME Report", "ACME Report 2024", "Annual Report 2024", "Chapter 3 Results", "12 Angry Men 1957", "a1b22c333", "#", "# of #", "Page #",
	"٣", "Page ٣", "1,234", "3.14", "-5", "v2", "Q3", "日本語3ページ", "Page 3 of", "of 3", "3 of", "p . 3", "№ 5", "Seite 3", "K 3", "K 3",
	"0007", "99999999999999999999", "18446744073709551617", "Page 18446744073709551616", "x\u0085", "\u0085x\u0085", "\xff3\xfe", "3\xc2", "\xa0 3"}

func mutateText(r *hx.Rng, s string) string {
	switch r.Intn(8) {
	case 0:
		return strings.ToUpper(s)
	case 1:
		return " " + s + "  "
	case 2:
		return s + strconv.Itoa(r.Intn(1000))
	case 3:
		return strconv.Itoa(r.Intn(50)) + s
	case 4:
		return digitRun.ReplaceAllStringFunc(s, func(string) string { return strconv.Itoa(r.Intn(300)) })
	case 5:
		return s + hx.Pick(r, microTexts)
	case 6:
		if len(s) > 1 {
			k := r.Intn(len(s))
			return s[:k] + s[k+1:]
		}
	}
	return s
}

func b01(b bool) string {
	if b {
		return "1"
	}
	return "0"
}

func microOps(c *hx.Ctx) {
	r := c.Rng.Fork(7777)
	n := c.N(600, 8000)
	for i := 0; i < n; i++ {
		s := hx.Pick(r, microTexts)
		if i >= len(microTexts) {
			s = mutateText(r, s)
		} else {
			s = microTexts[i]
		}
		c.Op("c11.norm "+hx.HexS(s), hx.HexS(layout.VerifNormalizeForComparison(s)))
		c.Op("c11.ispn "+hx.HexS(s), b01(layout.VerifIsPageNumberPattern(s)))
		t := mutateText(r, hx.Pick(r, microTexts))
		if r.Chance(1, 3) {
			t = mutateText(r, s)
		}
		pn := r.Chance(1, 3)
		c.Op("c11.match "+hx.HexS(s)+" "+hx.HexS(t)+" "+b01(pn), b01(layout.VerifTextsMatch(s, t, pn)))
		// groups of candidate texts for containsPageNumberPattern / isCharacterLevel
		k := r.Range(0, 6)
		var grp []string
		style := r.Intn(nPNStyles + 2)
		start := r.Range(1, 40)
		for j := 0; j < k; j++ {
			switch {
			case style < nPNStyles:
				grp = append(grp, pageNumberText(style, start+j*r.Range(1, 2), start+k))
			case style == nPNStyles:
				grp = append(grp, hx.Pick(r, microTexts))
			default:
				grp = append(grp, mutateText(r, s))
			}
		}
		c.Op("c11.cpn l="+hx.HexList(grp), b01(layout.VerifContainsPageNumberPattern(grp)))
		c.Op("c11.charlevel l="+hx.HexList(grp), b01(layout.VerifIsCharacterLevel(grp)))
		if i%6 == 0 {
			// digit runs at and beyond the 64-bit range: parsePageNumber wraps around silently
			// (parseDigits_eq_wrap), so "…807", "…808" and "2^64-1", "2^64" count as sequential
			edges := []string{"9223372036854775806", "9223372036854775807", "9223372036854775808", "9223372036854775809",
				"18446744073709551614", "18446744073709551615", "18446744073709551616", "18446744073709551617",
				"36893488147419103232", "99999999999999999999", "100000000000000000000", "340282366920938463463374607431768211456",
				"00000000000000000000007", "0", "1"}
			var wg []string
			e0 := r.Intn(len(edges))
			for j, kk := 0, r.Range(2, 5); j < kk; j++ {
				t := edges[(e0+j*r.Range(0, 2))%len(edges)]
				switch r.Intn(4) {
				case 0:
					t = "Page " + t
				case 1:
					t = t + " of " + hx.Pick(r, edges)
				case 2:
					t = "- " + t + " -"
				}
				wg = append(wg, t)
			}
			c.Op("c11.cpn l="+hx.HexList(wg), b01(layout.VerifContainsPageNumberPattern(wg)))
			c.Op("c11.norm "+hx.HexS(wg[0]), hx.HexS(layout.VerifNormalizeForComparison(wg[0])))
			c.Count("micro:wrap-around-digit-runs")
		}
		c.Count("micro:text")
		c.Case("micro:"+s+"|"+t, true)
	}
	// DOCX / ODT paragraph exclusion and PPTX placeholders (decision tables)
	parts := []string{"ACME Report", "Page 3", "Confidential\nDraft", "  Spaced  ", "", "\n", "A\n\nB", "Footer line", "ACME Report\nPage 3"}
	paras := []string{"ACME Report", " ACME Report ", "Page 3", "Confidential", "Draft", "Confidential\nDraft", "Spaced", "", "  ", "A", "B",
		"Body text", "Footer line", "acme report", "ACME Report "}
	m := c.N(400, 6000)
	for i := 0; i < m; i++ {
		var hs, fs []string
		for j := r.Intn(3); j > 0; j-- {
			hs = append(hs, hx.Pick(r, parts))
		}
		for j := r.Intn(3); j > 0; j-- {
			fs = append(fs, hx.Pick(r, parts))
		}
		p := hx.Pick(r, paras)
		exH, exF := r.Bool(), r.Bool()
		args := fmt.Sprintf("%s h=%s f=%s %s %s", hx.HexS(p), hx.HexList(hs), hx.HexList(fs), b01(exH), b01(exF))
		gd := docx.VerifShouldExcludeParagraph(p, hs, fs, docx.ExtractOptions{ExcludeHeaders: exH, ExcludeFooters: exF})
		go_ := odt.VerifShouldExcludeParagraph(p, hs, fs, odt.ExtractOptions{ExcludeHeaders: exH, ExcludeFooters: exF})
		c.Op("c11.docx "+args, b01(gd))
		c.Op("c11.odt "+args, b01(go_))
		// statement: a paragraph is removed only if exclusion was asked for and it equals a header/footer line
		if gd || go_ {
			eq := false
			for _, group := range [][]string{hs, fs} {
				for _, t := range group {
					for _, l := range strings.Split(t, "\n") {
						if strings.TrimSpace(l) != "" && strings.TrimSpace(l) == strings.TrimSpace(p) {
							eq = true
						}
					}
				}
			}
			c.Check("C11/docx-removed-unrelated", eq && (exH || exF), map[string]interface{}{"mode": "docx", "p": p, "h": hs, "f": fs, "exh": exH, "exf": exF},
				func() string { return fmt.Sprintf("paragraph %q removed; headers %q footers %q", p, hs, fs) })
		}
		c.Count("micro:docx-odt")
	}
	for _, ph := range []string{"", "ftr", "dt", "sldNum", "hdr", "title", "body", "ctrTitle", "subTitle", "FTR", "ftr ", "pic", "sldImg"} {
		c.Op("c11.pptx "+hx.HexS(ph), b01(pptx.VerifIsFooterPlaceholder(ph))+b01(pptx.VerifIsHeaderPlaceholder(ph)))
	}
}

// ---- fixed witnesses (run first) -------------------------------------------------------------

func witnessB20() Doc {
	var d Doc
	for i := 0; i < 3; i++ {
		p := Page{I: i, H: 792, W: 612}
		p.F = append(p.F, Frag{T: "ACME Report", X: 72, Y: 760, W: 74, H: 12, FS: 12, L: -1})
		if i == 1 {
			p.F = append(p.F, Frag{T: "ACME Report", X: 72, Y: 700, W: 74, H: 12, FS: 12, L: -1})
		}
		p.F = append(p.F, Frag{T: fmt.Sprintf("Body text of page %d", i+1), X: 72, Y: 400, W: 120, H: 12, FS: 12, L: -1})
		d.Pages = append(d.Pages, p)
	}
	d.Tags = "witness-B20"
	return d
}

func witnessEmbeddedNumber() Doc {
	var d Doc
	for i := 0; i < 3; i++ {
		p := Page{I: i, H: 792, W: 612}
		p.F = append(p.F, Frag{T: fmt.Sprintf("ACME Report - %d", i+1), X: 72, Y: 760, W: 100, H: 12, FS: 12, L: -1})
		p.F = append(p.F, Frag{T: fmt.Sprintf("Body text of page %d", i+1), X: 72, Y: 400, W: 120, H: 12, FS: 12, L: -1})
		d.Pages = append(d.Pages, p)
	}
	d.Tags = "witness-embedded-number"
	return d
}

// witnessCharLevel is the witness of the repaired finding F8 (C11/charlevel-position-only):
// three glyph-by-glyph pages with "ACME Report" at y=760 and, on page 2 only, "Chapter Two"
// at y=740 inside the same band. Before the repair the filter removed every glyph of the
// band on page 2; now only the glyphs of "ACME Report" go.
func witnessCharLevel() Doc {
	var d Doc
	for i := 0; i < 3; i++ {
		p := Page{I: i, H: 792, W: 612}
		p.F = append(p.F, Frag{T: "ACME Report", X: 72, Y: 760, H: 12, FS: 12, L: -1})
		if i == 1 {
			p.F = append(p.F, Frag{T: "Chapter Two", X: 72, Y: 740, H: 12, FS: 12, L: -1})
		}
		p.F = append(p.F, Frag{T: "Body text here", X: 72, Y: 400, H: 12, FS: 12, L: -1})
		d.Pages = append(d.Pages, explode(p))
	}
	d.Tags = "witness-F8-charlevel"
	return d
}

// witnessBlankGlyphLine: three glyph-by-glyph pages with a running header and footer whose
// producer typesets spacing as glyphs: the word spaces are glyphs of their lines and the
// empty paragraph between the two body lines is a line of one space glyph. The header and
// the footer go from every page (with their space glyphs); the body lines and the blank
// line stay.
func witnessBlankGlyphLine() Doc {
	var d Doc
	for i := 0; i < 3; i++ {
		p := Page{I: i, H: 792, W: 612}
		p.F = append(p.F, Frag{T: "ACME Report", X: 72, Y: 760, H: 12, FS: 12, L: -1})
		p.F = append(p.F, Frag{T: fmt.Sprintf("Sheet %c opens here", 'A'+i), X: 72, Y: 600, H: 12, FS: 12, L: -1})
		p.F = append(p.F, Frag{T: fmt.Sprintf("Sheet %c closes here", 'A'+i), X: 72, Y: 400, H: 12, FS: 12, L: -1})
		p.F = append(p.F, Frag{T: "Internal use only", X: 72, Y: 30, H: 12, FS: 12, L: -1})
		p, _ = spaceGlyphs(hx.NewRng(uint64(i)), explode(p), pageGeom{H: 792, W: 612}, spacing{words: true, marginPage: -1}, false)
		p.Lines = append(p.Lines, LLine{T: " ", X: 72, Y: 500, H: 12})
		blank := Frag{T: " ", X: 72, Y: 500, W: 6, H: 12, FS: 12, L: len(p.Lines) - 1}
		k := len(p.F) / 2 // somewhere in the stream
		p.F = append(p.F[:k:k], append([]Frag{blank}, p.F[k:]...)...)
		d.Pages = append(d.Pages, p)
	}
	d.Tags = "witness-blank-glyph-line"
	return d
}

// witnessCover: a glyph-by-glyph cover page (title in the top band, imprint in the
// bottom band, no running lines), a word-level chapter opener between the sheets, and
// a running header + footer on the other pages. Nothing may be removed from the cover
// and the opener; the running lines go from pages 1, 2, 4.
func witnessCover() Doc {
	var d Doc
	for i := 0; i < 5; i++ {
		p := Page{I: i, H: 792, W: 612}
		switch i {
		case 0:
			p.F = append(p.F, Frag{T: "The Book of Alpha", X: 72, Y: 760, H: 12, FS: 12, L: -1})
			p.F = append(p.F, Frag{T: "An introduction", X: 72, Y: 400, H: 12, FS: 12, L: -1})
			p.F = append(p.F, Frag{T: "Imprint Alpha Press", X: 72, Y: 30, H: 12, FS: 12, L: -1})
			p = explode(p)
		case 3:
			p.F = append(p.F, Frag{T: "Part Delta", X: 72, Y: 760, W: 60, H: 12, FS: 12, L: -1})
			p.F = append(p.F, Frag{T: "Opening words of the part", X: 72, Y: 400, W: 150, H: 12, FS: 12, L: -1})
		default:
			p.F = append(p.F, Frag{T: "ACME Report", X: 72, Y: 760, W: 66, H: 12, FS: 12, L: -1})
			p.F = append(p.F, Frag{T: fmt.Sprintf("Body text of sheet %c", 'A'+i), X: 72, Y: 400, W: 120, H: 12, FS: 12, L: -1})
			p.F = append(p.F, Frag{T: "Internal use only", X: 72, Y: 30, W: 102, H: 10, FS: 10, L: -1})
		}
		d.Pages = append(d.Pages, p)
	}
	d.Tags = "witness-cover"
	return d
}

// witnessMixedSizes: a portrait cover sheet followed by landscape sheets (then one A4
// sheet), the running header 32 pt below each page's own top edge, the footer 30 pt
// above the bottom edge.
func witnessMixedSizes() Doc {
	var d Doc
	sizes := [][2]int{{612, 792}, {792, 612}, {792, 612}, {595, 842}}
	for i, sz := range sizes {
		p := Page{I: i, H: sz[1], W: sz[0]}
		p.F = append(p.F, Frag{T: "ACME Report", X: 72, Y: sz[1] - 32, W: 66, H: 12, FS: 12, L: -1})
		p.F = append(p.F, Frag{T: fmt.Sprintf("Body text of sheet %c", 'A'+i), X: 72, Y: sz[1] - 200, W: 120, H: 12, FS: 12, L: -1})
		p.F = append(p.F, Frag{T: "Internal use only", X: 72, Y: 30, W: 102, H: 10, FS: 10, L: -1})
		d.Pages = append(d.Pages, p)
	}
	d.Tags = "witness-mixed-sizes"
	return d
}

// ---- Run / Replay ------------------------------------------------------------------------------

func Run(c *hx.Ctx) {
	c.Rep.Rule = "multi-page fragment sets with integer coordinates built from the quantifier: 1-14 pages; running header/footer on all pages, " +
		"all but the first, odd/even alternation or a random subset; page numbers in 13 styles (3, Page 3, 3 / 10, - 3 -, Page 3 of 10, 3/10, p. 3, roman, …) " +
		"in header or footer; body lines repeating across pages (incl. the header's own text placed in the body band just below the margin), purely numeric body lines; " +
		"unique marginal texts; double-struck titles; positions jittered within/beyond tolerance; boundary distances 71/72/73; inverted (top-down, oversized) coordinates; " +
		"character-level pages, also from producers that typeset spacing as glyphs (the word spaces as glyphs of their lines, lines ending in a space glyph, empty paragraphs as lines of 1-3 space glyphs " +
		"at free body positions and, on one page of a document, inside a margin band; direct documents only); empty pages; " +
		"documents in which every page has its own size (portrait cover + landscape sheets, A4 mixed with Letter, one odd sheet, sheets scaled to 50-200 %) with the marginal lines " +
		"at a constant distance from each page's own top/bottom edge; covers / chapter openers before and between the pages carrying the running lines (no header, footer or page number, " +
		"a unique title / imprint in the band), with character-level pages chosen per page (only the openers, all but the openers, some, all). Each document goes through layout.NewHeaderFooterDetector().Detect(pages).FilterFragments(...) once on fresh copies and then, as a caller that keeps its own slices " +
		"(all pages in one backing array, deep copy taken first), through a call sequence (same page twice, Detect-Filter-Detect-Filter, pages in other orders, one shared scratch buffer, " +
		"per-page AnalyzeWithHeaderFooterFiltering, random mixes) after each step of which the input must equal the copy and every result the single-call result; and, rendered by an independent " +
		"PDF writer, through tabula.Open(f).Pages(S).ExcludeHeaders()/ExcludeFooters()/ExcludeHeadersAndFooters().Lines()/Text(), page by page, for the subset S and for the whole document (no Pages call). " +
		"Long documents: the same generator with 15 to 140 (thorough: 520) pages, page counts drawn around 16/20/25/32/50/64/100/128/200/256/…, directly and as PDFs requested as a whole, as Pages(S), " +
		"as PageRange(a, b) (random half, sparse, contiguous run, tail only, one late page) and page by page on a sample of pages (first, last, one of the last quarter, two random). " +
		"Extractor histories: on a rendered PDF one source (tabula.Open(f) or tabula.FromReader(r)) serves a script of 3-8 requests - variables derived from the source or from each other by Pages/PageRange and " +
		"ExcludeHeaders/ExcludeFooters/ExcludeHeadersAndFooters in either order, each followed by a terminal operation (Lines, Text, Paragraphs, Blocks judged; Fragments, PageCount, IsCharacterLevel, IsMultiColumn, Analyze, Document, " +
		"ReadingOrder, Headings, Lists, ToMarkdown only making history): unfiltered reference first then exclusion, exclusion first then the reference, a non-extracting call first, chains of derivations, one excluding extractor used " +
		"repeatedly, free mixes; every judged answer is held against the written document and the request alone (unfiltered: everything written; excluded: sublist, body band, unrepeated marginal text, no-repetition identity, liveness on every requested page, detection on all pages). " +
		"Extractor-level model (extract.go): rendered documents in which up to two pages (rarely all but two, or all) cannot be read (FlateDecode over plain data, unknown filter, /Contents an integer, " +
		"a content stream ending inside a string) serve single requests Open(f)/FromReader(r).c1…cn.T() with chains of 0-5 calls (Pages incl. Pages(), duplicates, out-of-range pages, PageRange incl. inverted, " +
		"ExcludeHeaders/ExcludeFooters/ExcludeHeadersAndFooters, JoinParagraphs/ByColumn/PreserveLayout) and T in Lines, Paragraphs, Blocks, ReadingOrder, Fragments, Document (Number, FragmentCount per page), Analyze (FragmentCount), " +
		"Text() (the assemblers' outputs on the unfiltered and filtered fragments supplied to the model), and a script of 3-7 such requests on one source; every answer is also computed by the model " +
		"(c11.x, c11.xtext, c11.xh) and held against filtering the requested pages with the regions detected on all readable pages. layout.AnalyzeWithHeaderFooterFiltering(pages, i) on every sixth short direct document (c11.awhf). " +
		"DOCX/ODT/PPTX (office.go): element lists of 1-9 body elements (paragraphs with a unique token, paragraphs repeating a line of a header/footer part exactly / padded / in another case / extended, blank paragraphs, tables whose cells repeat such lines), " +
		"0-2 header and footer parts of 1-3 lines, the two flags independently; run through the ODT and DOCX readers built on the elements (TextWithOptions, MarkdownWithOptions), every fourth also as a written DOCX file through docx.Open and tabula.Open(f).Exclude…().Text(); " +
		"0-4 slides of 0-5 text blocks in 12 placeholder types through the PPTX reader. " +
		"Written PPTX decks (deck.go): 1-5 slides serialised by an independent PresentationML writer (package, presentation with slide list, slide parts under shuffled part names, one layout part per slide, master, notes slides) " +
		"in the flavours a producer writes - stock layouts (content idx 1..4, typed dt/ftr/sldNum with idx 10..12), custom layouts (content placeholders WITHOUT type numbered from idx 10/11/12/13 upwards, typed footers behind them), " +
		"no footer placeholders at all, and free mixes in which type (17 values or omitted), idx (omitted, 0..21, 100, 4294967295), sz, orient, hasCustomPrompt, shape name (footer names on content, content names on footers) and position (top, middle, bottom, none) " +
		"are drawn independently, text boxes alone and in groups; body shapes carry unique lines, lines repeating on every slide, the footer's own line, bare numbers, dates and page-number texts in 4 styles; paragraphs in 1-3 runs or as one field; " +
		"read by pptx.Open(f).TextWithOptions / MarkdownWithOptions (titles and notes on or off, all slides or a subset) and tabula.Open(f).ExcludeHeaders()/ExcludeFooters()/ExcludeHeadersAndFooters().Text() / ToMarkdown(), each with and without the flags; " +
		"a shape is marginal iff its written <p:ph> has type ftr, dt, sldNum or hdr; c11.ptext is emitted on the slides as written. " +
		"Non-trivial = at least one fragment was removed (histories: a judged request with exclusion ran; office: a flag was set; decks: the flags changed the answer)."
	for wi, d := range []Doc{witnessB20(), witnessEmbeddedNumber(), witnessCharLevel(), witnessCover(), witnessMixedSizes(), witnessBlankGlyphLine()} {
		directCase(c, d, true)
		script, kind := genScript(c.Rng.Fork(uint64(3_000_000+wi)), len(d.Pages))
		seqCase(c, d, script, kind, true)
	}
	pdfCase(c, witnessB20(), []int{1}, "hf", nil, true)
	pdfCase(c, witnessMixedSizes(), nil, "hf", nil, true)
	pdfCase(c, witnessMixedSizes(), []int{1, 2}, "h", nil, true)
	pdfCase(c, witnessCover(), []int{0, 3}, "hf", nil, true)
	microOps(c)
	nd := c.N(1500, 15000)
	for i := 0; i < nd; i++ {
		r := c.Rng.Fork(uint64(i))
		d := genDoc(r, genOpts{})
		directCase(c, d, true)
		// the same document again, as a caller who keeps using its own slices across several calls
		script, kind := genScript(r.Fork(99), len(d.Pages))
		seqCase(c, d, script, kind, true)
		if i%6 == 0 && len(d.Pages) <= 8 && !floatAmbiguous(c, d) {
			awhfOps(c, d)
		}
	}
	np := c.N(250, 2500)
	for i := 0; i < np; i++ {
		r := c.Rng.Fork(uint64(1_000_000 + i))
		d := genDoc(r, genOpts{pdfSafe: true})
		var subset []int
		if r.Chance(2, 3) {
			for k := range d.Pages {
				if r.Chance(1, 2) {
					subset = append(subset, k)
				}
			}
		}
		excl := hx.Pick(r, []string{"h", "f", "hf"})
		pdfCase(c, d, subset, excl, r, true)
	}
	// every page its own size; covers / chapter openers; character-level pages chosen per page
	nm := c.N(500, 5000)
	for i := 0; i < nm; i++ {
		r := c.Rng.Fork(uint64(5_000_000 + i))
		d := genDoc(r, genOpts{mix: true})
		directCase(c, d, true)
		// as a call sequence too; the model already answered for these pages (c11.hf above) and
		// every sequence result must equal the single-call result, so no second op is emitted
		script, kind := genScript(r.Fork(99), len(d.Pages))
		seqCase(c, d, script, kind, false)
	}
	npm := c.N(150, 1500)
	for i := 0; i < npm; i++ {
		r := c.Rng.Fork(uint64(6_000_000 + i))
		d := genDoc(r, genOpts{pdfSafe: true, mix: true})
		var subset []int
		if r.Chance(2, 3) {
			for k := range d.Pages {
				if r.Chance(1, 2) {
					subset = append(subset, k)
				}
			}
		}
		excl := hx.Pick(r, []string{"h", "f", "hf"})
		pdfCase(c, d, subset, excl, r, true)
	}
	longDocs(c)
	histories(c)
	extractorCases(c)
	rootOps(c)
	officeCases(c)
	deckCases(c)
	os.RemoveAll(filepath.Join(c.OutDir, "pdf"))
}

// longDocs: documents of 15 to several hundred pages (long.go), directly through the
// detector (a few of them also answered by the model) and, rendered, through the public
// API: whole document, Pages(S) / PageRange(a, b), and page by page on a sample of pages.
func longDocs(c *hx.Ctx) {
	maxPages := 140
	if c.Thorough() {
		maxPages = 520
	}
	nl := c.N(60, 500)
	for i := 0; i < nl; i++ {
		r := c.Rng.Fork(uint64(7_000_000 + i))
		d := genDoc(r, genOpts{long: true, maxPages: maxPages, mix: i%3 == 2})
		// the model answers for the shorter ones only (its detection is quadratic in the page count)
		directCase(c, d, len(d.Pages) <= 40 && i%4 == 0)
	}
	np := c.N(30, 300)
	for i := 0; i < np; i++ {
		r := c.Rng.Fork(uint64(8_000_000 + i))
		d := genDoc(r, genOpts{pdfSafe: true, long: true, maxPages: maxPages, mix: i%3 == 2})
		n := len(d.Pages)
		x := r.Fork(0x10F7)
		subset, asRange := longSubset(x, n)
		ci := caseInfo{Mode: "pdf", Doc: d, Subset: subset, Range: asRange, Excl: hx.Pick(x, []string{"h", "f", "hf"}), Probe: probePages(x, n)}
		pdfCaseInfo(c, ci, r, true)
	}
}

func Replay(c *hx.Ctx, kase map[string]interface{}) {
	b, _ := json.Marshal(kase)
	var ci caseInfo
	if err := json.Unmarshal(b, &ci); err != nil {
		c.Note("bad case: %v", err)
		return
	}
	switch ci.Mode {
	case "pdf":
		pdfCaseInfo(c, ci, nil, false)
	case "seq":
		seqCase(c, ci.Doc, ci.Script, "replay", false)
	case "hist":
		if ci.Hist != nil {
			histRun(c, ci.Doc, *ci.Hist, nil)
		}
	case "x":
		if ci.X != nil {
			xCaseRun(c, ci.Doc, *ci.X, nil, false)
		}
	case "office":
		var k struct{ O oCase }
		json.Unmarshal(b, &k)
		officeCase(c, k.O, true)
	case "pptx":
		var k struct {
			Slides   []pSlide
			ExH, ExF bool
		}
		json.Unmarshal(b, &k)
		pptxCase(c, k.Slides, k.ExH, k.ExF)
	case "deck":
		var k struct{ Deck deckCase }
		json.Unmarshal(b, &k)
		deckRun(c, k.Deck)
	case "docx":
		var k struct {
			P        string
			H, F     []string
			ExH, ExF bool
		}
		json.Unmarshal(b, &k)
		gd := docx.VerifShouldExcludeParagraph(k.P, k.H, k.F, docx.ExtractOptions{ExcludeHeaders: k.ExH, ExcludeFooters: k.ExF})
		c.Note("docx shouldExcludeParagraph=%v", gd)
	default:
		directCase(c, ci.Doc, false)
	}
}
