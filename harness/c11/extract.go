package c11

import (
	"encoding/json"
	"fmt"
	"os"
	"path/filepath"
	"sort"
	"strconv"
	"strings"

	"github.com/tsawler/tabula"
	"github.com/tsawler/tabula/layout"
	"github.com/tsawler/tabula/reader"
	"github.com/tsawler/tabula/text"

	"verifharness/hx"
)

// Extractor-level correspondence (lean/TabulaModel/Model/HFExtract.lean).
//
// The layout-level ops (c11.hf, c11.detect) tie Detect/FilterFragments to the model on
// page sets the harness hands over itself. What the public API does around that
// mechanism - which pages feed detection (collectAllPages: every page that can be read,
// whatever is requested), that detection runs iff one of the two flags is set, the
// page index and height handed to FilterFragments, the page loops of the terminal
// operations, the builder calls and the call history on one source - was only held
// against oracles. Here each request is also answered by the model:
//
//	c11.x <term> <open|reader> <chain> <spage>...     one request on a fresh extractor
//	c11.xh <open|reader> <spage>... | <step>...        a script of requests on ONE source
//	c11.xtext <open|reader> <chain> <spage>... | <entry>...   Text(), the assemblers' outputs supplied
//	c11.awhf <i> <page>...                             layout.AnalyzeWithHeaderFooterFiltering
//
// spage = idx:height:frag|frag|... as tabula extracts the page (Open(f).Pages(k).Fragments()
// on a fresh extractor) or idx:! when that fails: the documents carry pages whose content
// stream is malformed (pdfw.go: FlateDecode over plain data, an unknown filter, /Contents
// pointing at an integer, a stream ending inside a string), which collectAllPages skips
// and a page loop reports as an error.

// xCall is one configuration call of a chain.
type xCall struct {
	K string `json:"k"`           // P Pages, R PageRange, H F B Exclude…, J JoinParagraphs, C ByColumn, L PreserveLayout
	A []int  `json:"a,omitempty"` // 1-based page numbers exactly as passed
}

func (x xCall) field() string {
	if x.K != "P" && x.K != "R" {
		return x.K
	}
	parts := make([]string, len(x.A))
	for i, a := range x.A {
		parts[i] = strconv.Itoa(a)
	}
	return x.K + strings.Join(parts, ",")
}

func (x xCall) expr() string {
	parts := make([]string, len(x.A))
	for i, a := range x.A {
		parts[i] = strconv.Itoa(a)
	}
	switch x.K {
	case "P":
		return "Pages(" + strings.Join(parts, ", ") + ")"
	case "R":
		return "PageRange(" + strings.Join(parts, ", ") + ")"
	case "H":
		return "ExcludeHeaders()"
	case "F":
		return "ExcludeFooters()"
	case "B":
		return "ExcludeHeadersAndFooters()"
	case "J":
		return "JoinParagraphs()"
	case "C":
		return "ByColumn()"
	}
	return "PreserveLayout()"
}

func applyCall(e *tabula.Extractor, x xCall) *tabula.Extractor {
	switch x.K {
	case "P":
		return e.Pages(x.A...)
	case "R":
		if len(x.A) == 2 {
			return e.PageRange(x.A[0], x.A[1])
		}
		return e
	case "H":
		return e.ExcludeHeaders()
	case "F":
		return e.ExcludeFooters()
	case "B":
		return e.ExcludeHeadersAndFooters()
	case "J":
		return e.JoinParagraphs()
	case "C":
		return e.ByColumn()
	case "L":
		return e.PreserveLayout()
	}
	return e
}

func chainField(cs []xCall) string {
	if len(cs) == 0 {
		return "-"
	}
	parts := make([]string, len(cs))
	for i, x := range cs {
		parts[i] = x.field()
	}
	return strings.Join(parts, ";")
}

func chainExpr(base string, cs []xCall) string {
	for _, x := range cs {
		base += "." + x.expr()
	}
	return base
}

// chainRequest: what the chain asks for, read off the calls alone. pages = the 0-based
// pages (sorted, no duplicates; all pages when no page call names any), bad = a page
// outside the document or an inverted range (the request is an error), excl = one of the
// Exclude calls occurs.
func chainRequest(cs []xCall, n int) (pages []int, bad, excl bool) {
	seen := map[int]bool{}
	named := false
	for _, x := range cs {
		switch x.K {
		case "P":
			for _, a := range x.A {
				named = true
				if a < 1 || a > n {
					bad = true
				} else if !seen[a-1] {
					seen[a-1] = true
					pages = append(pages, a-1)
				}
			}
		case "R":
			if len(x.A) != 2 || x.A[0] > x.A[1] {
				bad = true
				continue
			}
			for a := x.A[0]; a <= x.A[1]; a++ {
				named = true
				if a < 1 || a > n {
					bad = true
				} else if !seen[a-1] {
					seen[a-1] = true
					pages = append(pages, a-1)
				}
			}
		case "H", "F", "B":
			excl = true
		}
	}
	if !named {
		for k := 0; k < n; k++ {
			pages = append(pages, k)
		}
	}
	sort.Ints(pages)
	return
}

type xReq struct {
	Term  string  `json:"term"`
	Src   string  `json:"src"`
	Chain []xCall `json:"chain,omitempty"`
}

type xStep struct {
	Parent int     `json:"parent"`
	Chain  []xCall `json:"chain,omitempty"`
	Term   string  `json:"term"`
}

type xCase struct {
	Reqs   []xReq  `json:"reqs,omitempty"`
	Texts  []xReq  `json:"texts,omitempty"`
	Src    string  `json:"src,omitempty"` // source of the script
	Script []xStep `json:"script,omitempty"`
}

// terms whose result shows the fragments the page detectors were handed
var xFragTerms = []string{"lines", "paras", "blocks", "ro"}

func fragKeyX(f text.TextFragment) string {
	return hx.HexS(f.Text) + "@" + ratOf(f.X) + "@" + ratOf(f.Y)
}

func keysFieldX(frs []text.TextFragment) string {
	if len(frs) == 0 {
		return "-"
	}
	ks := make([]string, len(frs))
	for i, f := range frs {
		ks[i] = fragKeyX(f)
	}
	sort.Strings(ks)
	return strings.Join(ks, ";")
}

// xRun runs one terminal operation and renders the answer in the op protocol: val is the
// value part ("k=…", "d=…", "a=…", "o"), isErr says that the operation failed.
func xRunTerm(e *tabula.Extractor, term string) (val string, isErr bool, pan string) {
	var err error
	pan = hx.Safe(func() {
		switch term {
		case "lines":
			var ls []layout.Line
			ls, err = e.Lines()
			var frs []text.TextFragment
			for _, l := range ls {
				frs = append(frs, l.Fragments...)
			}
			val = "k=" + keysFieldX(frs)
		case "paras":
			var ps []layout.Paragraph
			ps, err = e.Paragraphs()
			var frs []text.TextFragment
			for _, p := range ps {
				for _, l := range p.Lines {
					frs = append(frs, l.Fragments...)
				}
			}
			val = "k=" + keysFieldX(frs)
		case "blocks":
			var bs []layout.Block
			bs, err = e.Blocks()
			var frs []text.TextFragment
			for _, b := range bs {
				frs = append(frs, b.Fragments...)
			}
			val = "k=" + keysFieldX(frs)
		case "ro":
			var ro *layout.ReadingOrderResult
			ro, err = e.ReadingOrder()
			if err == nil && ro != nil {
				val = "k=" + keysFieldX(ro.Fragments)
			}
		case "frags":
			var frs []text.TextFragment
			frs, _, err = e.Fragments()
			val = "k=" + keysFieldX(frs)
		case "doc":
			doc, _, e2 := e.Document()
			err = e2
			if err == nil && doc != nil {
				var parts []string
				for _, p := range doc.Pages {
					cnt := -1
					if p.Layout != nil {
						cnt = p.Layout.Stats.FragmentCount
					}
					parts = append(parts, fmt.Sprintf("%d:%d", p.Number, cnt))
				}
				val = "d=-"
				if len(parts) > 0 {
					val = "d=" + strings.Join(parts, ",")
				}
			}
		case "analyze":
			var a *layout.AnalysisResult
			a, err = e.Analyze()
			if err == nil && a != nil {
				val = "a=" + strconv.Itoa(a.Stats.FragmentCount)
			}
		case "text":
			_, _, err = e.Text()
			val = "o"
		case "markdown":
			_, _, err = e.ToMarkdown()
			val = "o"
		case "headings":
			_, err = e.Headings()
			val = "o"
		case "lists":
			_, err = e.Lists()
			val = "o"
		case "count":
			_, err = e.PageCount()
			val = "o"
		case "charlevel":
			_, err = e.IsCharacterLevel()
			val = "o"
		case "multicol":
			_, err = e.IsMultiColumn()
			val = "o"
		}
	})
	return val, err != nil, pan
}

func xTermExpr(t string) string {
	if t == "doc" {
		return "Document()"
	}
	return termExpr(t)
}

// spagesField renders the source as the model reads it.
func spagesField(raw []*layout.PageFragments) string {
	parts := make([]string, len(raw))
	for i, p := range raw {
		if p == nil {
			parts[i] = strconv.Itoa(i) + ":!"
			continue
		}
		parts[i] = pagesField([]layout.PageFragments{*p})
	}
	return strings.Join(parts, " ")
}

// xSource writes the document and reads every page back on its own, fresh extractor.
// ok = the readable pages came back as written and exactly the broken pages failed.
func xSource(c *hx.Ctx, ci caseInfo, d Doc, r *hx.Rng) (fn string, raw []*layout.PageFragments, ok bool) {
	dir := filepath.Join(c.OutDir, "pdf")
	os.MkdirAll(dir, 0o755)
	fn = filepath.Join(dir, "x.pdf")
	if err := os.WriteFile(fn, pdfOf(d, r), 0o644); err != nil {
		c.Note("cannot write %s: %v", fn, err)
		return fn, nil, false
	}
	n := len(d.Pages)
	raw = make([]*layout.PageFragments, n)
	ok = true
	pan := hx.Safe(func() {
		for i, p := range d.Pages {
			fr, _, err := tabula.Open(fn).Pages(i + 1).Fragments()
			if err != nil {
				if p.Broken == "" {
					ok = false
				}
				continue
			}
			if p.Broken != "" || len(fr) != len(p.F) {
				ok = false
				continue
			}
			for j, f := range p.F {
				g := fr[j]
				if g.Text != f.T || g.X != float64(f.X) || g.Y != float64(f.Y) || g.Height != float64(f.H) {
					ok = false
				}
			}
			raw[i] = &layout.PageFragments{PageIndex: i, PageHeight: float64(p.H), PageWidth: float64(p.W), Fragments: fr}
		}
	})
	if !c.Check("C11/panic", pan == "", ci, func() string { return "Pages(k).Fragments() panicked: " + pan }) {
		return fn, nil, false
	}
	if !ok {
		c.Count("x:pages-differ-from-written(skipped)")
	}
	return
}

func openSource(fn, src string) (*tabula.Extractor, func(), string, bool) {
	if src == "reader" {
		rd, err := reader.Open(fn)
		if err != nil {
			return nil, func() {}, "", false
		}
		return tabula.FromReader(rd), func() { rd.Close() }, "tabula.FromReader(reader.Open(pdf))", true
	}
	return tabula.Open(fn), func() {}, "tabula.Open(pdf)", true
}

func subFragments(p *layout.PageFragments, ids []int) []text.TextFragment {
	out := make([]text.TextFragment, 0, len(ids))
	for _, id := range ids {
		out = append(out, p.Fragments[id])
	}
	return out
}

func idsField(ids []int) string {
	if len(ids) == 0 {
		return "-"
	}
	parts := make([]string, len(ids))
	for i, id := range ids {
		parts[i] = strconv.Itoa(id)
	}
	return strings.Join(parts, ".")
}

// renderEntry: what C09's code makes of the fragments ids of page k (the model takes
// the two layout tests and the four assemblers as parameters).
func renderEntry(k int, p *layout.PageFragments, ids []int) (string, string) {
	var out string
	pan := hx.Safe(func() {
		fl := subFragments(p, ids)
		// detectMultiColumn's inner question, asked through the public layout API
		cg := false
		if ro := layout.NewReadingOrderDetector().Detect(fl, p.PageWidth, p.PageHeight); ro != nil {
			cg = ro.ColumnCount > 1
		}
		pl := tabula.VerifExtractPreserveLayout(fl, p.PageWidth)
		jp := tabula.VerifExtractWithParagraphs(fl, p.PageWidth, p.PageHeight)
		bc := tabula.VerifExtractByColumn(fl, p.PageWidth, p.PageHeight)
		asm := tabula.VerifAssembleText(fl)
		out = fmt.Sprintf("%d/%s/%s/%s/%s/%s/%s", k, idsField(ids), b01(cg), hx.HexS(pl), hx.HexS(jp), hx.HexS(bc), hx.HexS(asm))
	})
	return out, pan
}

// xCaseRun: one document, its requests, its Text() requests and its script.
func xCaseRun(c *hx.Ctx, d Doc, xc xCase, r *hx.Rng, emitOps bool) {
	ci := caseInfo{Mode: "x", Doc: d, X: &xc}
	n := len(d.Pages)
	if n == 0 || floatAmbiguous(c, d) {
		return
	}
	fn, raw, ok := xSource(c, ci, d, r)
	if !ok {
		return
	}
	nBroken := 0
	var readable []layout.PageFragments
	var readableIdx []int
	sub := Doc{Tags: d.Tags}
	for i, p := range raw {
		if p == nil {
			nBroken++
			continue
		}
		readable = append(readable, *p)
		readableIdx = append(readableIdx, i)
		sub.Pages = append(sub.Pages, d.Pages[i])
	}
	src := spagesField(raw)

	// the mechanism on the pages that can be read (page indices with gaps): model and statement oracles
	_, keptR, subR, panL := runLayout(readable)
	if !c.Check("C11/panic", panL == "", ci, func() string { return "Detect/FilterFragments panicked: " + panL }) {
		return
	}
	keptOf := map[int][]int{}
	for j, i := range readableIdx {
		if !subR[j] {
			c.Count("x:layout-result-not-a-sublist(skipped)")
			return
		}
		keptOf[i] = keptR[j]
	}
	if nBroken > 0 && len(readable) > 0 {
		if emitOps {
			c.Op(opLine("c11.hf", readable), keptLine(keptR, subR))
		}
		checkDoc(c, caseInfo{Mode: "direct", Doc: sub}, keptR, subR)
	}

	// every page-level operation hands its detector what it was given: without exclusion each
	// fragment term returns the written fragments of the readable pages (else the case is skipped)
	readNums := make([]int, len(readableIdx))
	var written []text.TextFragment
	for j, i := range readableIdx {
		readNums[j] = i + 1
		written = append(written, raw[i].Fragments...)
	}
	wantAll := keysFieldX(written)
	if len(readable) > 0 {
		for _, t := range xFragTerms {
			val, isErr, pan := xRunTerm(tabula.Open(fn).Pages(readNums...), t)
			if !c.Check("C11/panic", pan == "", ci, func() string { return termExpr(t) + " panicked: " + pan }) {
				return
			}
			if isErr || val != "k="+wantAll {
				c.Count("x:" + t + "-does-not-return-the-written-fragments(skipped)")
				return
			}
		}
	}

	answer := func(e *tabula.Extractor, term, how string) (string, bool) {
		val, isErr, pan := xRunTerm(e, term)
		if !c.Check("C11/panic", pan == "", ci, func() string { return how + " panicked: " + pan }) {
			return "", false
		}
		if isErr {
			return "e", true
		}
		return val, true
	}

	// what a request with exclusion must return by the property text: filtering the requested
	// pages with the regions detected on ALL pages that can be read
	expect := func(pages []int, excl bool) (string, bool) {
		var frs []text.TextFragment
		for _, k := range pages {
			if raw[k] == nil {
				return "", false
			}
			if excl {
				frs = append(frs, subFragments(raw[k], keptOf[k])...)
			} else {
				frs = append(frs, raw[k].Fragments...)
			}
		}
		return keysFieldX(frs), true
	}

	// ---- single requests ----
	for _, q := range xc.Reqs {
		e, done, base, ok := openSource(fn, q.Src)
		if !ok {
			c.Count("x:reader-open-error")
			continue
		}
		for _, x := range q.Chain {
			e = applyCall(e, x)
		}
		how := chainExpr(base, q.Chain) + "." + xTermExpr(q.Term)
		val, ok := answer(e, q.Term, how)
		done()
		if !ok {
			return
		}
		out := "err"
		if val != "e" {
			out = "ok " + val[2:]
		}
		if emitOps {
			c.Op(fmt.Sprintf("c11.x %s %s %s %s", q.Term, q.Src, chainField(q.Chain), src), out)
		}
		pages, bad, excl := chainRequest(q.Chain, n)
		c.Count("x:req:" + q.Term)
		if val == "e" {
			c.Count("x:req:error")
			continue
		}
		if bad {
			continue // C10's subject; the model answers too
		}
		isFragTerm := false
		for _, t := range xFragTerms {
			if t == q.Term {
				isFragTerm = true
			}
		}
		if q.Term == "doc" || q.Term == "analyze" {
			// the counts Document() / Analyze() report are those of the fragments left after filtering the
			// requested pages with the regions detected on all readable pages (all of them without exclusion)
			var parts []string
			total, okPages := 0, true
			for _, k := range pages {
				if raw[k] == nil {
					okPages = false
					break
				}
				cnt := len(raw[k].Fragments)
				if excl {
					cnt = len(keptOf[k])
				}
				total += cnt
				parts = append(parts, fmt.Sprintf("%d:%d", k+1, cnt))
			}
			if okPages {
				want := "d=" + strings.Join(parts, ",")
				key := "C11/document-fragment-count"
				if q.Term == "analyze" {
					want, key = "a="+strconv.Itoa(total), "C11/analyze-fragment-count"
				}
				c.Check(key, val == want, ci, func() string {
					return fmt.Sprintf("%s on a document of %d pages (%d cannot be read) reports %s; the requested pages %v hold %s (exclusion asked for: %v, regions detected on all readable pages)",
						how, n, nBroken, val, pages, want, excl)
				})
			}
			continue
		}
		if !isFragTerm {
			continue
		}
		want, ok := expect(pages, excl)
		if !ok {
			continue
		}
		key := "C11/subset-detection"
		switch {
		case !excl:
			key = "C11/unfiltered-result-differs"
		case nBroken > 0:
			key = "C11/unreadable-page-detection"
		}
		c.Check(key, val[2:] == want, ci, func() string {
			return fmt.Sprintf("%s on a document of %d pages (%d cannot be read) returned %s; the requested pages %v hold %s %s",
				how, n, nBroken, val[2:], pages, map[bool]string{false: "as written", true: "after filtering with the regions detected on all readable pages"}[excl], want)
		})
		if excl {
			c.Count("x:req:with-exclusion")
		}
		if nBroken > 0 {
			c.Count("x:req:document-with-unreadable-pages")
		}
	}

	// ---- Text() ----
	for _, q := range xc.Texts {
		e, done, base, ok := openSource(fn, q.Src)
		if !ok {
			continue
		}
		for _, x := range q.Chain {
			e = applyCall(e, x)
		}
		how := chainExpr(base, q.Chain) + ".Text()"
		var txt string
		var err error
		pan := hx.Safe(func() { txt, _, err = e.Text() })
		done()
		if !c.Check("C11/panic", pan == "", ci, func() string { return how + " panicked: " + pan }) {
			return
		}
		out := "err"
		if err == nil {
			out = "ok " + hx.HexS(txt)
		}
		// the assemblers' outputs on the unfiltered and on the filtered fragments of every readable page
		var entries []string
		for _, k := range readableIdx {
			all := make([]int, len(raw[k].Fragments))
			for j := range all {
				all[j] = j
			}
			lists := [][]int{all}
			if len(keptOf[k]) != len(all) {
				lists = append(lists, keptOf[k])
			}
			for _, ids := range lists {
				en, pan := renderEntry(k, raw[k], ids)
				if !c.Check("C11/panic", pan == "", ci, func() string { return "text assembly panicked: " + pan }) {
					return
				}
				entries = append(entries, en)
			}
		}
		if emitOps {
			ws := make([]string, n)
			for i, p := range d.Pages {
				ws[i] = strconv.Itoa(p.W)
			}
			line := fmt.Sprintf("c11.xtext %s %s W=%s %s |", q.Src, chainField(q.Chain), strings.Join(ws, ","), src)
			if len(entries) > 0 {
				line += " " + strings.Join(entries, " ")
			}
			c.Op(line, out)
		}
		c.Count("x:text")
		for _, x := range q.Chain {
			switch x.K {
			case "J", "C", "L":
				c.Count("x:text:" + x.expr())
			}
		}
	}

	// ---- a script on one source ----
	if len(xc.Script) > 0 {
		e0, done, base, ok := openSource(fn, xc.Src)
		if ok {
			defer done()
			vars := []*tabula.Extractor{e0}
			transcript := "e0 := " + base
			var steps, answers []string
			for _, st := range xc.Script {
				if st.Parent < 0 || st.Parent >= len(vars) {
					continue
				}
				v := vars[st.Parent]
				name := "e" + strconv.Itoa(st.Parent)
				if len(st.Chain) > 0 {
					pan := hx.Safe(func() {
						for _, x := range st.Chain {
							v = applyCall(v, x)
						}
					})
					if !c.Check("C11/panic", pan == "", ci, func() string { return transcript + "; deriving panicked: " + pan }) {
						return
					}
					vars = append(vars, v)
					transcript += fmt.Sprintf("; e%d := %s", len(vars)-1, chainExpr(name, st.Chain))
					name = "e" + strconv.Itoa(len(vars)-1)
				}
				transcript += "; " + name + "." + xTermExpr(st.Term)
				val, ok := answer(v, st.Term, transcript)
				if !ok {
					return
				}
				steps = append(steps, fmt.Sprintf("%d/%s/%s", st.Parent, chainField(st.Chain), st.Term))
				answers = append(answers, val)
				c.Count("x:script-step:" + st.Term)
			}
			if emitOps && len(steps) > 0 {
				c.Op(fmt.Sprintf("c11.xh %s %s | %s", xc.Src, src, strings.Join(steps, " ")), strings.Join(answers, " "))
			}
			c.Count("x:script:source=" + xc.Src)
		}
	}
	if nBroken > 0 {
		c.Count(fmt.Sprintf("x:unreadable-pages:%d-of-%s", nBroken, bucket(n)))
	} else {
		c.Count("x:all-pages-readable")
	}
	b, _ := json.Marshal(ci)
	c.Case("x"+string(b), true)
}

// ---- generation ----

var brokenKinds = []string{"badfilter", "unkfilter", "contentsint", "badops"}

func breakPages(r *hx.Rng, d Doc) Doc {
	n := len(d.Pages)
	if n == 0 {
		return d
	}
	switch k := r.Intn(40); {
	case k == 0: // nothing can be read
		for i := range d.Pages {
			d.Pages[i].Broken = hx.Pick(r, brokenKinds)
		}
	case k < 14: // one or two unreadable pages
		m := 1
		if n > 3 && r.Bool() {
			m = 2
		}
		for ; m > 0; m-- {
			d.Pages[r.Intn(n)].Broken = hx.Pick(r, brokenKinds)
		}
	case k < 16 && n > 2: // only two pages survive
		a, b := r.Intn(n), r.Intn(n)
		for i := range d.Pages {
			if i != a && i != b {
				d.Pages[i].Broken = hx.Pick(r, brokenKinds)
			}
		}
	}
	return d
}

// genPageCall: one Pages / PageRange call; good = the pages that can be read (on a document
// with unreadable pages two calls out of three name readable pages only).
func genPageCall(r *hx.Rng, n int, good []int) xCall {
	if len(good) > 0 && len(good) < n && r.Chance(2, 3) {
		x := xCall{K: "P"}
		for _, k := range good {
			if r.Chance(1, 2) {
				x.A = append(x.A, k+1)
			}
		}
		if len(x.A) == 0 {
			x.A = []int{hx.Pick(r, good) + 1}
		}
		if r.Chance(1, 4) {
			hx.Shuffle(r, x.A)
		}
		return x
	}
	switch r.Intn(16) {
	case 0: // Pages() names nothing
		return xCall{K: "P"}
	case 1: // a page outside the document
		return xCall{K: "P", A: []int{hx.Pick(r, []int{0, n + 1, -1, n + 7})}}
	case 2: // an inverted range
		a := r.Range(1, n)
		return xCall{K: "R", A: []int{a + r.Range(1, 3), a}}
	case 3, 4: // a range
		a := r.Range(1, n)
		return xCall{K: "R", A: []int{a, a + r.Intn(n-a+1)}}
	case 5: // one page, twice
		a := r.Range(1, n)
		return xCall{K: "P", A: []int{a, a}}
	}
	ps, _ := genPagesArg(r, n)
	x := xCall{K: "P"}
	for _, k := range ps {
		x.A = append(x.A, k+1)
	}
	return x
}

// genChain: 0-4 configuration calls; withExcl forces one of the Exclude calls into it.
func genChain(r *hx.Rng, n int, good []int, withExcl bool, layoutCalls bool) []xCall {
	var cs []xCall
	m := r.Intn(4)
	for j := 0; j < m; j++ {
		switch k := r.Intn(10); {
		case k < 4:
			cs = append(cs, genPageCall(r, n, good))
		case k < 8:
			cs = append(cs, xCall{K: hx.Pick(r, []string{"H", "F", "B"})})
		default:
			if layoutCalls {
				cs = append(cs, xCall{K: hx.Pick(r, []string{"J", "C", "L"})})
			}
		}
	}
	if withExcl {
		x := xCall{K: hx.Pick(r, []string{"H", "F", "B", "B"})}
		at := r.Intn(len(cs) + 1)
		cs = append(cs[:at], append([]xCall{x}, cs[at:]...)...)
	}
	return cs
}

var xTermsAll = []string{"lines", "lines", "paras", "blocks", "ro", "frags", "doc", "doc", "analyze"}
var xScriptTerms = []string{"lines", "lines", "paras", "blocks", "ro", "frags", "doc", "analyze", "text", "markdown", "headings", "lists", "count", "charlevel", "multicol"}

func genXCase(r *hx.Rng, d Doc) xCase {
	var xc xCase
	n := len(d.Pages)
	var good []int
	for i, p := range d.Pages {
		if p.Broken == "" {
			good = append(good, i)
		}
	}
	src := func() string {
		if r.Chance(1, 4) {
			return "reader"
		}
		return "open"
	}
	for j := r.Range(2, 4); j > 0; j-- {
		xc.Reqs = append(xc.Reqs, xReq{Term: hx.Pick(r, xTermsAll), Src: src(), Chain: genChain(r, n, good, r.Chance(3, 4), false)})
	}
	for j := r.Range(1, 2); j > 0; j-- {
		xc.Texts = append(xc.Texts, xReq{Term: "text", Src: src(), Chain: genChain(r, n, good, r.Chance(3, 4), true)})
	}
	xc.Src = src()
	nvars := 1
	for j := r.Range(3, 7); j > 0; j-- {
		st := xStep{Parent: r.Intn(nvars), Term: hx.Pick(r, xScriptTerms)}
		if r.Chance(2, 3) {
			st.Chain = genChain(r, n, good, r.Bool(), true)
		}
		if len(st.Chain) > 0 {
			nvars++
		}
		xc.Script = append(xc.Script, st)
	}
	return xc
}

// fixedXCases: the textbook requests on the running-header witness, with and without an
// unreadable page in the middle.
func fixedXCases() []xCase {
	B, H, F := xCall{K: "B"}, xCall{K: "H"}, xCall{K: "F"}
	P := func(a ...int) xCall { return xCall{K: "P", A: a} }
	R := func(a, b int) xCall { return xCall{K: "R", A: []int{a, b}} }
	return []xCase{{
		Reqs: []xReq{
			{Term: "lines", Src: "open", Chain: []xCall{B}},
			{Term: "lines", Src: "open", Chain: []xCall{P(1, 2), H}},
			{Term: "paras", Src: "reader", Chain: []xCall{F, P(2)}},
			{Term: "blocks", Src: "open", Chain: []xCall{R(1, 2), B}},
			{Term: "ro", Src: "open", Chain: []xCall{P(4), H, F}},
			{Term: "frags", Src: "open", Chain: []xCall{B, P(1)}},
			{Term: "doc", Src: "open", Chain: []xCall{B, P(4, 1)}},
			{Term: "analyze", Src: "open", Chain: []xCall{H, R(1, 2)}},
			{Term: "lines", Src: "open", Chain: []xCall{B, P(3)}},
			{Term: "lines", Src: "open", Chain: nil},
		},
		Texts: []xReq{
			{Term: "text", Src: "open", Chain: []xCall{B, P(1, 2)}},
			{Term: "text", Src: "open", Chain: []xCall{P(1, 2, 4)}},
			{Term: "text", Src: "reader", Chain: []xCall{{K: "J"}, H, P(1, 4)}},
			{Term: "text", Src: "open", Chain: []xCall{{K: "L"}, F, P(2)}},
			{Term: "text", Src: "open", Chain: []xCall{{K: "C"}, B}},
		},
		Src: "open",
		Script: []xStep{
			{Parent: 0, Term: "count"},
			{Parent: 0, Chain: []xCall{P(1, 2)}, Term: "lines"},
			{Parent: 1, Chain: []xCall{B}, Term: "lines"},
			{Parent: 2, Term: "doc"},
			{Parent: 0, Chain: []xCall{H}, Term: "lines"},
			{Parent: 1, Term: "frags"},
			{Parent: 2, Chain: []xCall{P(4)}, Term: "analyze"},
		},
	}}
}

func extractorCases(c *hx.Ctx) {
	for _, xc := range fixedXCases() {
		for _, broken := range []string{"", "badfilter", "badops"} {
			d := witnessRunning(4)
			d.Pages[2].Broken = broken
			xCaseRun(c, d, xc, nil, true)
			xc.Src = "reader"
		}
	}
	nx := c.N(160, 1800)
	for i := 0; i < nx; i++ {
		r := c.Rng.Fork(uint64(11_000_000 + i))
		d := genDoc(r, genOpts{pdfSafe: true, mix: i%3 == 2})
		d = breakPages(r.Fork(0xB4D), d)
		xCaseRun(c, d, genXCase(r.Fork(0x7E57), d), r, true)
	}
}

// rootOps: the two layout tests of the root package (extractor.go) that Text() consults when no
// text option is set: isCharacterLevel (>= 10 fragments, more than 60 % of at most one byte after
// trimming) around its thresholds, and detectMultiColumn (>= 20 fragments, a page width, the reading
// order detector's column count) on one- and two-column pages of 17-24 fragments.
func rootOps(c *hx.Ctx) {
	r := c.Rng.Fork(0xC1A5)
	n := c.N(150, 1500)
	for i := 0; i < n; i++ {
		m := hx.Pick(r, []int{0, 1, 5, 9, 10, 10, 11, 15, 20, 25})
		single := 0
		if m > 0 {
			single = hx.Pick(r, []int{0, m, m * 6 / 10, m*6/10 + 1, (m*6 + 9) / 10, r.Intn(m + 1)})
			if single > m {
				single = m
			}
		}
		var texts []string
		var frs []text.TextFragment
		for j := 0; j < m; j++ {
			t := hx.Pick(r, []string{"ab", "word", "x y", "  ab "})
			if j < single {
				t = hx.Pick(r, []string{"a", "", " ", " b ", "\t", "7", "\u00e9"[0:1]})
			}
			texts = append(texts, t)
			frs = append(frs, text.TextFragment{Text: t, X: float64(10 * j), Y: 100, Width: 8, Height: 10, FontSize: 10})
		}
		hx.Shuffle(r, texts)
		for j := range frs {
			frs[j].Text = texts[j]
		}
		c.Op("c11.rootcl l="+hx.HexList(texts), b01(tabula.VerifIsCharacterLevel(frs)))
		c.Count("micro:root-isCharacterLevel")
	}
	for i := 0; i < n; i++ {
		m := r.Range(17, 24)
		cols := r.Range(1, 2)
		width := hx.Pick(r, []int{612, 612, 612, 0})
		var frs []text.TextFragment
		for j := 0; j < m; j++ {
			x := 72.0
			if cols == 2 && j%2 == 1 {
				x = 330
			}
			frs = append(frs, text.TextFragment{Text: fmt.Sprintf("column text number %d here", j), X: x, Y: float64(700 - 14*(j/cols)), Width: 200, Height: 10, FontSize: 10})
		}
		cg := false
		var got bool
		pan := hx.Safe(func() {
			if ro := layout.NewReadingOrderDetector().Detect(frs, float64(width), 792); ro != nil {
				cg = ro.ColumnCount > 1
			}
			got = tabula.VerifDetectMultiColumn(frs, float64(width), 792)
		})
		if pan != "" {
			continue
		}
		c.Op(fmt.Sprintf("c11.mcol %d %d %s", m, width, b01(cg)), b01(got))
		c.Count(fmt.Sprintf("micro:root-detectMultiColumn:cols>1=%v", cg))
	}
}

// awhfOps: layout.NewAnalyzer().AnalyzeWithHeaderFooterFiltering(pages, i) for every position
// and two positions outside, the count of fragments it analysed against the model.
func awhfOps(c *hx.Ctx, d Doc) {
	pages := toLayout(d)
	for _, i := range append([]int{-1, len(pages)}, seqInts(len(pages))...) {
		var out string
		pan := hx.Safe(func() {
			cp := make([]layout.PageFragments, len(pages))
			for k, p := range pages {
				cp[k] = p
				cp[k].Fragments = append([]text.TextFragment(nil), p.Fragments...)
			}
			res := layout.NewAnalyzer().AnalyzeWithHeaderFooterFiltering(cp, i)
			if i < 0 || i >= len(pages) {
				out = "none"
				if res == nil || res.Stats.FragmentCount != 0 || len(res.Elements) != 0 {
					out = "not-empty"
				}
				return
			}
			out = strconv.Itoa(res.Stats.FragmentCount)
		})
		if !c.Check("C11/panic-analyze", pan == "", caseInfo{Mode: "direct", Doc: d}, func() string {
			return fmt.Sprintf("AnalyzeWithHeaderFooterFiltering(pages, %d) panicked: %s", i, pan)
		}) {
			return
		}
		line := "c11.awhf " + strconv.Itoa(i)
		if len(pages) > 0 {
			line += " " + pagesField(pages)
		}
		c.Op(line, out)
		c.Count("awhf:op")
	}
}

func seqInts(n int) []int {
	out := make([]int, n)
	for i := range out {
		out[i] = i
	}
	return out
}
