package c11

import (
	"fmt"
	"strings"

	"verifharness/hx"
)

// Frag is one text fragment with integer coordinates (PDF user space units).
// L is the logical line a character fragment belongs to on character-level
// pages (-1 on word-level pages).
type Frag struct {
	T  string `json:"t"`
	X  int    `json:"x"`
	Y  int    `json:"y"`
	W  int    `json:"w"`
	H  int    `json:"h"`
	FS int    `json:"fs"`
	L  int    `json:"l"`
}

// LLine is a logical line of a character-level page (what the characters spell).
type LLine struct {
	T string `json:"t"`
	X int    `json:"x"`
	Y int    `json:"y"`
	H int    `json:"h"`
}

type Page struct {
	I     int     `json:"i"` // page index handed to the detector
	H     int     `json:"h"`
	W     int     `json:"w"`
	F     []Frag  `json:"f"`
	Lines []LLine `json:"lines,omitempty"` // only on character-level pages
	// Broken (extractor-level cases, extract.go): the page's content stream is malformed in
	// this way and the page cannot be read (pdfw.go); its fragments are never seen.
	Broken string `json:"broken,omitempty"`
}

type Doc struct {
	Pages []Page `json:"pages"`
	Tags  string `json:"tags"`
}

var headerTexts = []string{"ACME Report", "Annual Report 2024", "Confidential", "Draft v2 - Internal",
	"Chapter Overview", "J. Smith: Notes", "Proceedings of the 12th Workshop", "Q3", "A", "Rev 3 Draft 4"}
var footerTexts = []string{"Copyright 2024 ACME Corp", "www.example.com", "Confidential", "Internal use only",
	"ACME Report", "v2"}
var bodyTexts = []string{"Lorem ipsum dolor sit amet", "The quick brown fox", "Results and discussion",
	"Table of values", "consectetur adipiscing elit", "See section 4 for details", "Introduction",
	"sed do eiusmod tempor", "Methods", "In 2019 revenue grew by 12 percent"}
var numericTexts = []string{"42", "2024", "3", "17 / 20", "1/2", "7 of 9", "Page 5", "- 8 -", "100"}
var oddTexts = []string{"  Spaced Title ", "Résumé (fr)", " NBSP Title ", "Tab\tTitle", "日本語のヘッダー"}

func roman(n int) string {
	vals := []int{1000, 900, 500, 400, 100, 90, 50, 40, 10, 9, 5, 4, 1}
	syms := []string{"m", "cm", "d", "cd", "c", "xc", "l", "xl", "x", "ix", "v", "iv", "i"}
	var b strings.Builder
	for i, v := range vals {
		for n >= v {
			b.WriteString(syms[i])
			n -= v
		}
	}
	return b.String()
}

const nPNStyles = 13

func pageNumberText(style, num, total int) string {
	switch style {
	case 0:
		return fmt.Sprintf("%d", num)
	case 1:
		return fmt.Sprintf("Page %d", num)
	case 2:
		return fmt.Sprintf("%d / %d", num, total)
	case 3:
		return fmt.Sprintf("- %d -", num)
	case 4:
		return fmt.Sprintf("Page %d of %d", num, total)
	case 5:
		return fmt.Sprintf("%d/%d", num, total)
	case 6:
		return fmt.Sprintf("p. %d", num)
	case 7:
		return roman(num)
	case 8:
		return fmt.Sprintf("PAGE %d", num)
	case 9:
		return fmt.Sprintf("ACME Report - %d", num)
	case 10:
		return fmt.Sprintf("pg. %d", num)
	case 11:
		return fmt.Sprintf("%d of %d", num, total)
	default:
		return fmt.Sprintf("Seite %d", num)
	}
}

type genOpts struct {
	pdfSafe bool // ASCII, one fragment per line, generous separation, no boundary coordinates
	// mix: every page has its own size (portrait cover + landscape sheets, A4 mixed with
	// Letter, scaled sheets, ...) with the marginal lines at a constant distance from each
	// page's OWN top/bottom edge; some pages are covers / chapter openers that carry no
	// running header, footer or page number but a unique title / imprint in the margin
	// band; character-level pages are chosen per page (only the openers, only the others,
	// a random subset, all).
	mix bool
	// long: a long document (15 up to maxPages pages, see longPageCount): everything else
	// is drawn as for the short ones.
	long     bool
	maxPages int
}

type slot struct{ y, h int }

// pageGeom is the geometry of one page: its size and where the marginal slots and
// the body lines sit, measured from the page's own edges.
type pageGeom struct {
	H, W                   int
	hdr1, hdr2, ftr1, ftr2 slot
	bodyYs                 []int
}

func stdGeom(H, W int) pageGeom {
	g := pageGeom{H: H, W: W}
	g.hdr1, g.hdr2 = slot{H - 32, 12}, slot{H - 52, 12}
	g.ftr1, g.ftr2 = slot{30, 10}, slot{48, 10}
	for y := H - 110; y >= 100; y -= 18 {
		g.bodyYs = append(g.bodyYs, y)
	}
	return g
}

func invGeom(H, W, top, botExtra int) pageGeom {
	g := pageGeom{H: H, W: W}
	bot := H + botExtra
	g.hdr1, g.hdr2 = slot{top, 12}, slot{top + 20, 12}
	g.ftr1, g.ftr2 = slot{bot, 10}, slot{bot - 20, 10}
	for y := top + 200; y <= bot-200; y += 18 {
		g.bodyYs = append(g.bodyYs, y)
	}
	return g
}

// page sizes (width, height) in points: Letter, Letter landscape, A4, A4 landscape, Legal,
// A5, Tabloid, a sheet scaled to 200 %, a sheet scaled to 50 %, A3 landscape.
var pageSizes = [][2]int{{612, 792}, {792, 612}, {595, 842}, {842, 595}, {612, 1008}, {420, 595},
	{792, 1224}, {1224, 1584}, {306, 396}, {1191, 842}}

// words without digits, pairwise different: titles of covers / chapter openers must not
// repeat anywhere, not even after digit normalisation.
var openerWords = []string{"Alpha", "Bravo", "Charlie", "Delta", "Echo", "Foxtrot", "Golf", "Hotel", "India",
	"Juliett", "Kilo", "Lima", "Mike", "November", "Oscar", "Papa"}

// genSizes draws one size per page; with two or more pages at least two different heights occur.
func genSizes(x *hx.Rng, n int) ([][2]int, string) {
	out := make([][2]int, n)
	mode := x.Intn(6)
	name := ""
	switch mode {
	case 0: // portrait cover, landscape sheets
		name = "portrait-cover+landscape"
		a := hx.Pick(x, [][2]int{{612, 792}, {595, 842}})
		for i := range out {
			out[i] = [2]int{a[1], a[0]}
		}
		out[0] = a
	case 1: // landscape cover (or first sheets), portrait rest
		name = "landscape-first+portrait"
		a := hx.Pick(x, [][2]int{{612, 792}, {595, 842}})
		k := 1 + x.Intn((n+1)/2)
		for i := range out {
			out[i] = a
			if i < k {
				out[i] = [2]int{a[1], a[0]}
			}
		}
	case 2: // A4 mixed with Letter
		name = "a4+letter"
		for i := range out {
			out[i] = [2]int{612, 792}
			if x.Bool() {
				out[i] = [2]int{595, 842}
			}
		}
	case 3: // one odd sheet (a fold-out, a scaled scan) among equal pages
		name = "one-odd-sheet"
		a, b := hx.Pick(x, pageSizes), hx.Pick(x, pageSizes)
		for i := range out {
			out[i] = a
		}
		out[x.Intn(n)] = b
	case 4: // scaled copies of one sheet
		name = "scaled"
		for i := range out {
			out[i] = hx.Pick(x, [][2]int{{612, 792}, {1224, 1584}, {306, 396}, {918, 1188}})
		}
	default:
		name = "any"
		for i := range out {
			out[i] = hx.Pick(x, pageSizes)
		}
	}
	if n >= 2 {
		same := true
		for _, s := range out {
			if s[1] != out[0][1] {
				same = false
			}
		}
		if same { // force two heights: the last page (or, half of the time, the first) becomes another sheet
			k := n - 1
			if x.Bool() {
				k = 0
			}
			for out[k][1] == out[(k+1)%n][1] {
				out[k] = hx.Pick(x, pageSizes)
			}
		}
	}
	return out, name
}

// genDoc builds one document according to the property's quantifier.
func genDoc(r *hx.Rng, o genOpts) Doc {
	var tags []string
	tag := func(s string) { tags = append(tags, s) }
	n := 1
	switch k := r.Intn(20); {
	case k < 2:
		n = 1
	case k < 5:
		n = 2
	case k < 17:
		n = r.Range(3, 8)
	default:
		n = r.Range(9, 14)
	}
	if o.long {
		n = longPageCount(r.Fork(0x10F6), o.maxPages)
		tag("long")
	}
	if n == 1 {
		tag("1page")
	}
	H := 792
	if r.Chance(1, 5) {
		H = hx.Pick(r, []int{842, 1000, 612})
	}
	inverted := r.Chance(1, 9)
	charLevel := !o.pdfSafe && !inverted && r.Chance(1, 8)
	if inverted {
		tag("inverted")
	}
	if charLevel {
		tag("charlevel")
	}
	base := 0
	if !o.pdfSafe && r.Chance(1, 10) {
		base = r.Range(1, 5) // page indices need not start at 0 (skipped pages)
		tag("index-offset")
	}

	// vertical positions. Standard: top band is near H; inverted: near the
	// smallest Y, and content runs past the page height. With o.mix every page has
	// its own size and the slots keep their distance from that page's own edges.
	xr := r.Fork(0xC11A) // all additional choices of o.mix come from this stream
	// spacing typeset as glyphs on glyph-by-glyph pages (spaceGlyphs): drawn per document from
	// a stream of its own. Direct documents only: a rendered PDF carries its glyphs through
	// tabula's text extraction, which is not this property's business.
	sr := r.Fork(0x5BACE)
	var sp spacing
	if !o.pdfSafe && sr.Chance(3, 4) {
		sp = spacing{words: sr.Chance(1, 2), trailing: sr.Chance(1, 4), blank: sr.Chance(2, 3), marginPage: -1}
		if sr.Chance(1, 3) {
			sp.marginPage = sr.Intn(n) // a blank line inside a margin band, on one page only: it repeats nowhere
		}
	}
	geoms := make([]pageGeom, n)
	invTop, invBotExtra := 0, 0
	if inverted {
		invTop = r.Range(10, 60)
		invBotExtra = r.Range(150, 400)
	}
	sizes := make([][2]int, n)
	for i := range sizes {
		sizes[i] = [2]int{612, H}
	}
	if o.mix && xr.Chance(5, 6) {
		var nm string
		sizes, nm = genSizes(xr, n)
		if n >= 2 {
			tag("mixed-sizes")
			tag("sizes:" + nm)
		}
	}
	for i := range geoms {
		if inverted {
			geoms[i] = invGeom(sizes[i][1], sizes[i][0], invTop, invBotExtra)
		} else {
			geoms[i] = stdGeom(sizes[i][1], sizes[i][0])
		}
	}
	// covers / chapter openers: no running header, footer or page number, but a unique
	// title (and sometimes an imprint line) inside the margin bands
	opener := make([]bool, n)
	charPage := make([]bool, n)
	for i := range charPage {
		charPage[i] = charLevel
	}
	openerTitleSlot, openerTitleX := 0, 72
	if o.mix && n >= 3 && xr.Chance(3, 4) {
		if xr.Chance(2, 3) {
			opener[0] = true
			tag("cover")
		}
		for i := 1; i < n-1; i++ { // openers lie before and between the pages carrying the header
			if xr.Chance(1, 4) {
				opener[i] = true
				tag("chapter-opener")
			}
		}
		if xr.Chance(1, 6) {
			opener[n-1] = true
		}
		cnt := 0
		for _, b := range opener {
			if b {
				cnt++
			}
		}
		if cnt > n-2 { // at least two pages carry the running lines
			for i := 1; i < n; i++ {
				opener[i] = false
			}
		}
		openerTitleSlot = xr.Intn(2)
		openerTitleX = hx.Pick(xr, []int{72, 72, 200, 150})
	}
	if o.mix && !inverted && !charLevel {
		switch xr.Intn(8) {
		case 0, 1: // only the covers / openers are set glyph by glyph (letter-spaced titles)
			for i := range charPage {
				charPage[i] = opener[i]
			}
		case 2: // everything but the openers
			for i := range charPage {
				charPage[i] = !opener[i]
			}
		case 3: // some pages
			for i := range charPage {
				charPage[i] = xr.Chance(1, 3)
			}
		case 4:
			for i := range charPage {
				charPage[i] = true
			}
		}
		for _, b := range charPage {
			if b {
				tag("charlevel-pages")
			}
		}
	}

	hdrMode := r.Intn(6) // 0 none 1 all 2 skip-first 3 odd/even 4 random subset 5 all
	ftrMode := r.Intn(6)
	pnStyle := -1
	if r.Chance(2, 3) {
		pnStyle = r.Intn(nPNStyles)
		tag(fmt.Sprintf("pn-style-%d", pnStyle))
	}
	pnInHeader := r.Chance(1, 4)
	pnSkipFirst := r.Chance(1, 6)
	pnStart := 1
	if r.Chance(1, 4) {
		pnStart = r.Range(2, 120)
	}
	hdrText := hx.Pick(r, headerTexts)
	hdrTextEven := hx.Pick(r, headerTexts)
	ftrText := hx.Pick(r, footerTexts)
	if !o.pdfSafe && r.Chance(1, 8) {
		hdrText = hx.Pick(r, oddTexts)
		tag("odd-text")
	}
	jitter := r.Intn(8) // 0..4 none, 5,6 small, 7 big
	bodyRepeat := r.Chance(1, 2)
	bodyRepeatText := hdrText
	if r.Chance(1, 2) {
		bodyRepeatText = hx.Pick(r, bodyTexts)
	} else if hdrMode != 0 {
		tag("body-equals-header")
	}
	bodyRepeatSlot := r.Intn(4) // near the top of the body: the B20 zone
	numericBody := r.Chance(1, 2)
	marginUnique := r.Chance(1, 2)
	doubleStrike := !o.pdfSafe && r.Chance(1, 6)
	boundary := !o.pdfSafe && !inverted && r.Chance(1, 6)
	conflict := r.Chance(1, 12) // same text elsewhere in the band on one page
	emptyPage := r.Chance(1, 15)

	switch hdrMode {
	case 1, 5:
		tag("running-header")
	case 3:
		tag("odd-even-header")
	}
	if ftrMode == 1 || ftrMode == 5 {
		tag("running-footer")
	}
	if bodyRepeat {
		tag("body-repeats")
	}
	if numericBody {
		tag("numeric-body")
	}

	var doc Doc
	subset := map[int]bool{}
	for i := 0; i < n; i++ {
		subset[i] = r.Chance(1, 2)
	}
	for i := 0; i < n; i++ {
		g := geoms[i]
		H, hdr1, hdr2, ftr1, ftr2, bodyYs := g.H, g.hdr1, g.hdr2, g.ftr1, g.ftr2, g.bodyYs
		p := Page{I: base + i, H: g.H, W: g.W}
		add := func(t string, x int, s slot) {
			p.F = append(p.F, Frag{T: t, X: x, Y: s.y, W: 6 * len(t), H: s.h, FS: s.h, L: -1})
		}
		if emptyPage && i == n/2 {
			doc.Pages = append(doc.Pages, p)
			tag("empty-page")
			continue
		}
		// running header
		hs := hdr1
		switch jitter {
		case 5, 6:
			hs.y += r.Range(-2, 2)
		case 7:
			if i == n-1 {
				hs.y += 9
			}
		}
		hm, fm := hdrMode, ftrMode
		if opener[i] {
			hm, fm = 0, 0
			// the opener's own marginal text: a title that occurs nowhere else, at the
			// running header's place or elsewhere in the top band, and sometimes an imprint
			ts := hdr1
			if openerTitleSlot == 1 {
				ts = hdr2
			}
			w := openerWords[i%len(openerWords)]
			if i >= len(openerWords) { // long documents: still a title that occurs nowhere else
				w += " " + openerWords[(i/len(openerWords))%len(openerWords)]
				if i >= len(openerWords)*len(openerWords) {
					w += " " + openerWords[(i/(len(openerWords)*len(openerWords)))%len(openerWords)]
				}
			}
			add(hx.Pick(xr, []string{"Part ", "The Book of ", "", "Appendix "})+w, openerTitleX, ts)
			if xr.Chance(1, 2) {
				add("Imprint "+w+" Press", 72, ftr1)
			}
		}
		switch hm {
		case 1, 5:
			add(hdrText, 72, hs)
		case 2:
			if i > 0 {
				add(hdrText, 72, hs)
			}
		case 3:
			if i%2 == 0 {
				add(hdrText, 72, hs)
			} else {
				add(hdrTextEven, 72, hs)
			}
		case 4:
			if subset[i] {
				add(hdrText, 72, hs)
			}
		}
		if conflict && i == n-1 && hm != 0 {
			add(hdrText, 330, hdr2)
			tag("band-conflict")
		}
		// page number
		if pnStyle >= 0 && !(pnSkipFirst && i == 0) && !opener[i] {
			t := pageNumberText(pnStyle, pnStart+i, pnStart+n-1)
			if pnInHeader {
				add(t, 430, hdr1)
			} else {
				add(t, 300, ftr1)
			}
		}
		// unique marginal text (chapter title, date, a lone number)
		if marginUnique && (i == 1 || r.Chance(1, 5)) {
			var t string
			switch r.Intn(4) {
			case 0:
				t = fmt.Sprintf("Chapter %d Results", i+1)
			case 1:
				t = hx.Pick(r, []string{"1984", "7", "Page 12", "12/99"})
			case 2:
				t = "Section " + string(rune('A'+i%26)) + " overview"
			default:
				t = hx.Pick(r, bodyTexts) + fmt.Sprintf(" (%c)", 'a'+i%26)
			}
			if r.Bool() {
				add(t, 200, hdr2)
			} else {
				add(t, 200, ftr2)
			}
			tag("margin-unique")
		}
		if doubleStrike && i == 0 {
			t := "Bold Title " + hx.Pick(r, bodyTexts)
			add(t, 180, hdr2)
			s2 := hdr2
			s2.y += r.Intn(2)
			p.F = append(p.F, Frag{T: t, X: 180 + r.Intn(2), Y: s2.y, W: 6 * len(t), H: s2.h, FS: s2.h, L: -1})
			tag("double-strike")
		}
		// body
		nb := r.Range(1, 6)
		used := map[int]bool{}
		if bodyRepeat && (r.Chance(4, 5) || i == 1) && len(bodyYs) > 4 {
			used[bodyRepeatSlot] = true
			add(bodyRepeatText, 72, slot{bodyYs[bodyRepeatSlot], 12})
		}
		for j := 0; j < nb && len(bodyYs) > 0; j++ {
			k := r.Intn(len(bodyYs))
			if used[k] {
				continue
			}
			used[k] = true
			t := hx.Pick(r, bodyTexts)
			if numericBody && r.Chance(1, 3) {
				t = hx.Pick(r, numericTexts)
			} else if r.Chance(1, 2) {
				t += fmt.Sprintf(" %d.%d", i+1, j)
			}
			add(t, 72+36*r.Intn(3), slot{bodyYs[k], 12})
		}
		if boundary {
			// distance from the top edge exactly 71, 72, 73 (integers: exact in float64)
			d := hx.Pick(r, []int{71, 72, 73})
			t := hdrText
			if r.Bool() {
				t = fmt.Sprintf("Edge %d", d)
			}
			add(t, 72, slot{H - d - 12, 12})
			d = hx.Pick(r, []int{71, 72, 73})
			add(ftrText, 72, slot{d, 10})
			tag("boundary")
		}
		// running footer
		switch fm {
		case 1, 5:
			add(ftrText, 72, ftr1)
		case 2:
			if i > 0 {
				add(ftrText, 72, ftr1)
			}
		case 3:
			if i%2 == 0 {
				add(ftrText, 72, ftr1)
			} else {
				add("Left "+ftrText, 72, ftr1)
			}
		case 4:
			if !subset[i] {
				add(ftrText, 72, ftr1)
			}
		}
		if !o.pdfSafe && r.Chance(1, 3) {
			hx.Shuffle(r, p.F) // stream order is not reading order
		}
		if o.pdfSafe {
			p.F = onePerLine(p.F)
		}
		if charPage[i] {
			p = explode(p)
			if sp.words || sp.trailing || sp.blank {
				var what []string
				p, what = spaceGlyphs(sr.Fork(uint64(i)), p, g, sp, i == sp.marginPage)
				for _, w := range what {
					tag(w)
				}
			}
		}
		doc.Pages = append(doc.Pages, p)
	}
	doc.Tags = strings.Join(dedup(tags), ",")
	return doc
}

func dedup(xs []string) []string {
	seen := map[string]bool{}
	var out []string
	for _, x := range xs {
		if !seen[x] {
			seen[x] = true
			out = append(out, x)
		}
	}
	return out
}

// onePerLine drops fragments that would share a baseline (within 14 pt) with an
// earlier one, so that on rendered PDFs line == fragment.
func onePerLine(fs []Frag) []Frag {
	var out []Frag
	for _, f := range fs {
		ok := true
		for _, g := range out {
			d := f.Y - g.Y
			if d < 0 {
				d = -d
			}
			if d < 14 {
				ok = false
			}
		}
		if ok {
			out = append(out, f)
		}
	}
	return out
}

// explode turns every fragment of the page into one fragment per character
// (6 pt advance, spaces are gaps), keeping the logical lines for the oracles.
// Fragments sharing a baseline are dropped first so that lines are unambiguous.
func explode(p Page) Page {
	q := Page{I: p.I, H: p.H, W: p.W}
	var kept []Frag
	for _, f := range p.F {
		ok := strings.TrimSpace(f.T) == f.T && f.T != ""
		for _, c := range f.T {
			if c > 0x7e {
				ok = false
			}
		}
		for _, g := range kept {
			d := f.Y - g.Y
			if d < 0 {
				d = -d
			}
			if d < 14 {
				ok = false
			}
		}
		if ok {
			kept = append(kept, f)
		}
	}
	for li, f := range kept {
		t := strings.Join(strings.Fields(f.T), " ")
		q.Lines = append(q.Lines, LLine{T: t, X: f.X, Y: f.Y, H: 12})
		for ci := 0; ci < len(t); ci++ {
			if t[ci] == ' ' {
				continue
			}
			q.F = append(q.F, Frag{T: t[ci : ci+1], X: f.X + 6*ci, Y: f.Y, W: 6, H: 12, FS: 12, L: li})
		}
	}
	return q
}

// spacing says how a producer that typesets spacing as glyphs of its own sets the
// glyph-by-glyph pages of one document.
type spacing struct {
	words      bool // the space between two words is a glyph " " of the line
	trailing   bool // some lines end in a space glyph
	blank      bool // empty paragraphs: lines made of nothing but 1-3 space glyphs, at free body positions
	marginPage int  // on this page (-1: none) a blank line may also sit at a free slot of a margin band
}

// spaceGlyphs adds spacing glyphs to an exploded page. A word space or a trailing space
// belongs to its line (it goes or stays with the line); a blank line is a logical line of
// its own whose text is blank: it lies in the body band (or, on one page of the document
// only, in a margin band where it repeats nowhere), so nothing in the statement lets it be
// deleted, and it must not change what happens to any other line. Blank lines keep 14 pt
// from every other line, like the lines of explode. The new glyphs go to random places of
// the stream (stream order is not reading order).
func spaceGlyphs(r *hx.Rng, p Page, g pageGeom, sp spacing, marginal bool) (Page, []string) {
	var add []Frag
	var what []string
	for li, l := range p.Lines {
		if sp.words {
			for ci := 0; ci < len(l.T); ci++ {
				if l.T[ci] == ' ' {
					add = append(add, Frag{T: " ", X: l.X + 6*ci, Y: l.Y, W: 6, H: 12, FS: 12, L: li})
					what = append(what, "space-glyphs:word")
				}
			}
		}
		if sp.trailing && r.Chance(1, 2) {
			add = append(add, Frag{T: " ", X: l.X + 6*len(l.T), Y: l.Y, W: 6, H: 12, FS: 12, L: li})
			what = append(what, "space-glyphs:trailing")
		}
	}
	if sp.blank && len(p.Lines) > 0 {
		free := func(y int) bool {
			for _, l := range p.Lines {
				if absInt(l.Y-y) < 14 {
					return false
				}
			}
			return true
		}
		ys := append([]int(nil), g.bodyYs...)
		hx.Shuffle(r, ys)
		if marginal {
			ys = append([]int{hx.Pick(r, []int{g.hdr2.y, g.ftr2.y, g.hdr1.y, g.ftr1.y})}, ys...)
		}
		want := hx.Pick(r, []int{0, 1, 1, 1, 2, 3})
		for _, y := range ys {
			if want == 0 {
				break
			}
			if !free(y) {
				continue
			}
			k := hx.Pick(r, []int{1, 1, 1, 2, 3})
			x := hx.Pick(r, []int{72, 72, 108, 300})
			li := len(p.Lines)
			p.Lines = append(p.Lines, LLine{T: strings.Repeat(" ", k), X: x, Y: y, H: 12})
			for j := 0; j < k; j++ {
				add = append(add, Frag{T: " ", X: x + 6*j, Y: y, W: 6, H: 12, FS: 12, L: li})
			}
			want--
			what = append(what, "space-glyphs:blank-line")
			if g.H-(y+12) < 72 || y < 72 {
				what = append(what, "space-glyphs:blank-line-in-margin-band")
			}
		}
	}
	for _, f := range add {
		k := r.Intn(len(p.F) + 1)
		p.F = append(p.F, Frag{})
		copy(p.F[k+1:], p.F[k:])
		p.F[k] = f
	}
	return p, what
}
