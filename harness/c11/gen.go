package c11

import (
	"fmt"
	"strings"

	"verifharness/hx"
)

// Frag is one text fragment with integer coordinates (PDF user space units).
// L is the logical line a character fragment belongs to on character-level
// pages (-1 on word-level pages).
type Frag struct {
	T  string `json:"t"`
	X  int    `json:"x"`
	Y  int    `json:"y"`
	W  int    `json:"w"`
	H  int    `json:"h"`
	FS int    `json:"fs"`
	L  int    `json:"l"`
}

// LLine is a logical line of a character-level page (what the characters spell).
type LLine struct {
	T string `json:"t"`
	X int    `json:"x"`
	Y int    `json:"y"`
	H int    `json:"h"`
}

type Page struct {
	I     int     `json:"i"` // page index handed to the detector
	H     int     `json:"h"`
	W     int     `json:"w"`
	F     []Frag  `json:"f"`
	Lines []LLine `json:"lines,omitempty"` // only on character-level pages
}

type Doc struct {
	Pages []Page `json:"pages"`
	Tags  string `json:"tags"`
}

var headerTexts = []string{"ACME Report", "Annual Report 2024", "Confidential", "Draft v2 - Internal",
	"Chapter Overview", "J. Smith: Notes", "Proceedings of the 12th Workshop", "Q3", "A", "Rev 3 Draft 4"}
var footerTexts = []string{"Copyright 2024 ACME Corp", "www.example.com", "Confidential", "Internal use only",
	"ACME Report", "v2"}
var bodyTexts = []string{"Lorem ipsum dolor sit amet", "The quick brown fox", "Results and discussion",
	"Table of values", "consectetur adipiscing elit", "See section 4 for details", "Introduction",
	"sed do eiusmod tempor", "Methods", "In 2019 revenue grew by 12 percent"}
var numericTexts = []string{"42", "2024", "3", "17 / 20", "1/2", "7 of 9", "Page 5", "- 8 -", "100"}
var oddTexts = []string{"  Spaced Title ", "Résumé (fr)", " NBSP Title ", "Tab\tTitle", "日本語のヘッダー"}

func roman(n int) string {
	vals := []int{1000, 900, 500, 400, 100, 90, 50, 40, 10, 9, 5, 4, 1}
	syms := []string{"m", "cm", "d", "cd", "c", "xc", "l", "xl", "x", "ix", "v", "iv", "i"}
	var b strings.Builder
	for i, v := range vals {
		for n >= v {
			b.WriteString(syms[i])
			n -= v
		}
	}
	return b.String()
}

const nPNStyles = 13

func pageNumberText(style, num, total int) string {
	switch style {
	case 0:
		return fmt.Sprintf("%d", num)
	case 1:
		return fmt.Sprintf("Page %d", num)
	case 2:
		return fmt.Sprintf("%d / %d", num, total)
	case 3:
		return fmt.Sprintf("- %d -", num)
	case 4:
		return fmt.Sprintf("Page %d of %d", num, total)
	case 5:
		return fmt.Sprintf("%d/%d", num, total)
	case 6:
		return fmt.Sprintf("p. %d", num)
	case 7:
		return roman(num)
	case 8:
		return fmt.Sprintf("PAGE %d", num)
	case 9:
		return fmt.Sprintf("ACME Report - %d", num)
	case 10:
		return fmt.Sprintf("pg. %d", num)
	case 11:
		return fmt.Sprintf("%d of %d", num, total)
	default:
		return fmt.Sprintf("Seite %d", num)
	}
}

type genOpts struct {
	pdfSafe bool // ASCII, one fragment per line, generous separation, no boundary coordinates
}

// genDoc builds one document according to the property's quantifier.
func genDoc(r *hx.Rng, o genOpts) Doc {
	var tags []string
	tag := func(s string) { tags = append(tags, s) }
	n := 1
	switch k := r.Intn(20); {
	case k < 2:
		n = 1
	case k < 5:
		n = 2
	case k < 17:
		n = r.Range(3, 8)
	default:
		n = r.Range(9, 14)
	}
	if n == 1 {
		tag("1page")
	}
	H := 792
	if r.Chance(1, 5) {
		H = hx.Pick(r, []int{842, 1000, 612})
	}
	inverted := r.Chance(1, 9)
	charLevel := !o.pdfSafe && !inverted && r.Chance(1, 8)
	if inverted {
		tag("inverted")
	}
	if charLevel {
		tag("charlevel")
	}
	base := 0
	if !o.pdfSafe && r.Chance(1, 10) {
		base = r.Range(1, 5) // page indices need not start at 0 (skipped pages)
		tag("index-offset")
	}

	// vertical positions. Standard: top band is near H; inverted: near the
	// smallest Y, and content runs past the page height.
	type slot struct{ y, h int }
	var hdr1, hdr2, ftr1, ftr2 slot
	var bodyYs []int
	if !inverted {
		hdr1, hdr2 = slot{H - 32, 12}, slot{H - 52, 12}
		ftr1, ftr2 = slot{30, 10}, slot{48, 10}
		for y := H - 110; y >= 100; y -= 18 {
			bodyYs = append(bodyYs, y)
		}
	} else {
		top := r.Range(10, 60)
		bot := H + r.Range(150, 400)
		hdr1, hdr2 = slot{top, 12}, slot{top + 20, 12}
		ftr1, ftr2 = slot{bot, 10}, slot{bot - 20, 10}
		for y := top + 200; y <= bot-200; y += 18 {
			bodyYs = append(bodyYs, y)
		}
	}

	hdrMode := r.Intn(6) // 0 none 1 all 2 skip-first 3 odd/even 4 random subset 5 all
	ftrMode := r.Intn(6)
	pnStyle := -1
	if r.Chance(2, 3) {
		pnStyle = r.Intn(nPNStyles)
		tag(fmt.Sprintf("pn-style-%d", pnStyle))
	}
	pnInHeader := r.Chance(1, 4)
	pnSkipFirst := r.Chance(1, 6)
	pnStart := 1
	if r.Chance(1, 4) {
		pnStart = r.Range(2, 120)
	}
	hdrText := hx.Pick(r, headerTexts)
	hdrTextEven := hx.Pick(r, headerTexts)
	ftrText := hx.Pick(r, footerTexts)
	if !o.pdfSafe && r.Chance(1, 8) {
		hdrText = hx.Pick(r, oddTexts)
		tag("odd-text")
	}
	jitter := r.Intn(8) // 0..4 none, 5,6 small, 7 big
	bodyRepeat := r.Chance(1, 2)
	bodyRepeatText := hdrText
	if r.Chance(1, 2) {
		bodyRepeatText = hx.Pick(r, bodyTexts)
	} else if hdrMode != 0 {
		tag("body-equals-header")
	}
	bodyRepeatSlot := r.Intn(4) // near the top of the body: the B20 zone
	numericBody := r.Chance(1, 2)
	marginUnique := r.Chance(1, 2)
	doubleStrike := !o.pdfSafe && r.Chance(1, 6)
	boundary := !o.pdfSafe && !inverted && r.Chance(1, 6)
	conflict := r.Chance(1, 12) // same text elsewhere in the band on one page
	emptyPage := r.Chance(1, 15)

	switch hdrMode {
	case 1, 5:
		tag("running-header")
	case 3:
		tag("odd-even-header")
	}
	if ftrMode == 1 || ftrMode == 5 {
		tag("running-footer")
	}
	if bodyRepeat {
		tag("body-repeats")
	}
	if numericBody {
		tag("numeric-body")
	}

	var doc Doc
	subset := map[int]bool{}
	for i := 0; i < n; i++ {
		subset[i] = r.Chance(1, 2)
	}
	for i := 0; i < n; i++ {
		p := Page{I: base + i, H: H, W: 612}
		add := func(t string, x int, s slot) {
			p.F = append(p.F, Frag{T: t, X: x, Y: s.y, W: 6 * len(t), H: s.h, FS: s.h, L: -1})
		}
		if emptyPage && i == n/2 {
			doc.Pages = append(doc.Pages, p)
			tag("empty-page")
			continue
		}
		// running header
		hs := hdr1
		switch jitter {
		case 5, 6:
			hs.y += r.Range(-2, 2)
		case 7:
			if i == n-1 {
				hs.y += 9
			}
		}
		switch hdrMode {
		case 1, 5:
			add(hdrText, 72, hs)
		case 2:
			if i > 0 {
				add(hdrText, 72, hs)
			}
		case 3:
			if i%2 == 0 {
				add(hdrText, 72, hs)
			} else {
				add(hdrTextEven, 72, hs)
			}
		case 4:
			if subset[i] {
				add(hdrText, 72, hs)
			}
		}
		if conflict && i == n-1 && hdrMode != 0 {
			add(hdrText, 330, hdr2)
			tag("band-conflict")
		}
		// page number
		if pnStyle >= 0 && !(pnSkipFirst && i == 0) {
			t := pageNumberText(pnStyle, pnStart+i, pnStart+n-1)
			if pnInHeader {
				add(t, 430, hdr1)
			} else {
				add(t, 300, ftr1)
			}
		}
		// unique marginal text (chapter title, date, a lone number)
		if marginUnique && (i == 1 || r.Chance(1, 5)) {
			var t string
			switch r.Intn(4) {
			case 0:
				t = fmt.Sprintf("Chapter %d Results", i+1)
			case 1:
				t = hx.Pick(r, []string{"1984", "7", "Page 12", "12/99"})
			case 2:
				t = "Section " + string(rune('A'+i%26)) + " overview"
			default:
				t = hx.Pick(r, bodyTexts) + fmt.Sprintf(" (%c)", 'a'+i%26)
			}
			if r.Bool() {
				add(t, 200, hdr2)
			} else {
				add(t, 200, ftr2)
			}
			tag("margin-unique")
		}
		if doubleStrike && i == 0 {
			t := "Bold Title " + hx.Pick(r, bodyTexts)
			add(t, 180, hdr2)
			s2 := hdr2
			s2.y += r.Intn(2)
			p.F = append(p.F, Frag{T: t, X: 180 + r.Intn(2), Y: s2.y, W: 6 * len(t), H: s2.h, FS: s2.h, L: -1})
			tag("double-strike")
		}
		// body
		nb := r.Range(1, 6)
		used := map[int]bool{}
		if bodyRepeat && (r.Chance(4, 5) || i == 1) && len(bodyYs) > 4 {
			used[bodyRepeatSlot] = true
			add(bodyRepeatText, 72, slot{bodyYs[bodyRepeatSlot], 12})
		}
		for j := 0; j < nb && len(bodyYs) > 0; j++ {
			k := r.Intn(len(bodyYs))
			if used[k] {
				continue
			}
			used[k] = true
			t := hx.Pick(r, bodyTexts)
			if numericBody && r.Chance(1, 3) {
				t = hx.Pick(r, numericTexts)
			} else if r.Chance(1, 2) {
				t += fmt.Sprintf(" %d.%d", i+1, j)
			}
			add(t, 72+36*r.Intn(3), slot{bodyYs[k], 12})
		}
		if boundary {
			// distance from the top edge exactly 71, 72, 73 (integers: exact in float64)
			d := hx.Pick(r, []int{71, 72, 73})
			t := hdrText
			if r.Bool() {
				t = fmt.Sprintf("Edge %d", d)
			}
			add(t, 72, slot{H - d - 12, 12})
			d = hx.Pick(r, []int{71, 72, 73})
			add(ftrText, 72, slot{d, 10})
			tag("boundary")
		}
		// running footer
		switch ftrMode {
		case 1, 5:
			add(ftrText, 72, ftr1)
		case 2:
			if i > 0 {
				add(ftrText, 72, ftr1)
			}
		case 3:
			if i%2 == 0 {
				add(ftrText, 72, ftr1)
			} else {
				add("Left "+ftrText, 72, ftr1)
			}
		case 4:
			if !subset[i] {
				add(ftrText, 72, ftr1)
			}
		}
		if !o.pdfSafe && r.Chance(1, 3) {
			hx.Shuffle(r, p.F) // stream order is not reading order
		}
		if o.pdfSafe {
			p.F = onePerLine(p.F)
		}
		if charLevel {
			p = explode(p)
		}
		doc.Pages = append(doc.Pages, p)
	}
	doc.Tags = strings.Join(dedup(tags), ",")
	return doc
}

func dedup(xs []string) []string {
	seen := map[string]bool{}
	var out []string
	for _, x := range xs {
		if !seen[x] {
			seen[x] = true
			out = append(out, x)
		}
	}
	return out
}

// onePerLine drops fragments that would share a baseline (within 14 pt) with an
// earlier one, so that on rendered PDFs line == fragment.
func onePerLine(fs []Frag) []Frag {
	var out []Frag
	for _, f := range fs {
		ok := true
		for _, g := range out {
			d := f.Y - g.Y
			if d < 0 {
				d = -d
			}
			if d < 14 {
				ok = false
			}
		}
		if ok {
			out = append(out, f)
		}
	}
	return out
}

// explode turns every fragment of the page into one fragment per character
// (6 pt advance, spaces are gaps), keeping the logical lines for the oracles.
// Fragments sharing a baseline are dropped first so that lines are unambiguous.
func explode(p Page) Page {
	q := Page{I: p.I, H: p.H, W: p.W}
	var kept []Frag
	for _, f := range p.F {
		ok := strings.TrimSpace(f.T) == f.T && f.T != ""
		for _, c := range f.T {
			if c > 0x7e {
				ok = false
			}
		}
		for _, g := range kept {
			d := f.Y - g.Y
			if d < 0 {
				d = -d
			}
			if d < 14 {
				ok = false
			}
		}
		if ok {
			kept = append(kept, f)
		}
	}
	for li, f := range kept {
		t := strings.Join(strings.Fields(f.T), " ")
		q.Lines = append(q.Lines, LLine{T: t, X: f.X, Y: f.Y, H: 12})
		for ci := 0; ci < len(t); ci++ {
			if t[ci] == ' ' {
				continue
			}
			q.F = append(q.F, Frag{T: t[ci : ci+1], X: f.X + 6*ci, Y: f.Y, W: 6, H: 12, FS: 12, L: li})
		}
	}
	return q
}
