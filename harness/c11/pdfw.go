package c11

import (
	"bytes"
	"fmt"
	"strings"
)

// Minimal multi-page PDF writer, written from ISO 32000-1 (7.5 file structure,
// 7.7.3 page tree, 9.4 text objects), not from tabula's reader. Classic
// cross-reference table, one uncompressed content stream per page, the
// standard-14 font Helvetica (Type1, WinAnsiEncoding), one text object per
// fragment with an absolute position (Tm or Td at the start of a BT).

type pdfFrag struct {
	Text     string
	X, Y     int
	FontSize int
	UseTd    bool
}

type pdfPage struct {
	W, H  int
	Frags []pdfFrag
	// Broken makes the page unreadable for a text extractor while the page tree stays
	// intact (the malformed stream of the extractor-level cases): "" = a regular page;
	// "badfilter" = /Filter /FlateDecode over data that is no zlib stream; "unkfilter" = a
	// filter name that does not exist; "contentsint" = /Contents refers to an integer;
	// "badops" = the content stream ends inside a string literal.
	Broken string
}

func pdfEscape(s string) string {
	var b strings.Builder
	for i := 0; i < len(s); i++ {
		c := s[i]
		switch {
		case c == '(' || c == ')' || c == '\\':
			b.WriteByte('\\')
			b.WriteByte(c)
		case c < 0x20 || c > 0x7e:
			fmt.Fprintf(&b, "\\%03o", c)
		default:
			b.WriteByte(c)
		}
	}
	return b.String()
}

func writePDF(pages []pdfPage) []byte {
	var buf bytes.Buffer
	var offs []int
	obj := func(body string) {
		offs = append(offs, buf.Len())
		fmt.Fprintf(&buf, "%d 0 obj\n%s\nendobj\n", len(offs), body)
	}
	buf.WriteString("%PDF-1.4\n%\xe2\xe3\xcf\xd3\n")
	n := len(pages)
	// object numbers: 1 catalog, 2 pages, 3 font, then (page, contents) pairs
	obj("<< /Type /Catalog /Pages 2 0 R >>")
	kids := make([]string, n)
	for i := range pages {
		kids[i] = fmt.Sprintf("%d 0 R", 4+2*i)
	}
	obj(fmt.Sprintf("<< /Type /Pages /Count %d /Kids [%s] >>", n, strings.Join(kids, " ")))
	obj("<< /Type /Font /Subtype /Type1 /BaseFont /Helvetica /Encoding /WinAnsiEncoding >>")
	for i, p := range pages {
		obj(fmt.Sprintf("<< /Type /Page /Parent 2 0 R /MediaBox [0 0 %d %d] /Resources << /Font << /F1 3 0 R >> >> /Contents %d 0 R >>",
			p.W, p.H, 5+2*i))
		var cs bytes.Buffer
		for _, f := range p.Frags {
			if f.UseTd {
				fmt.Fprintf(&cs, "BT\n/F1 %d Tf\n%d %d Td\n(%s) Tj\nET\n", f.FontSize, f.X, f.Y, pdfEscape(f.Text))
			} else {
				fmt.Fprintf(&cs, "BT\n/F1 %d Tf\n1 0 0 1 %d %d Tm\n(%s) Tj\nET\n", f.FontSize, f.X, f.Y, pdfEscape(f.Text))
			}
		}
		switch p.Broken {
		case "badfilter":
			obj(fmt.Sprintf("<< /Length %d /Filter /FlateDecode >>\nstream\n%sendstream", cs.Len(), cs.String()))
		case "unkfilter":
			obj(fmt.Sprintf("<< /Length %d /Filter /NoSuchDecode >>\nstream\n%sendstream", cs.Len(), cs.String()))
		case "contentsint":
			obj("17")
		case "badops":
			obj(fmt.Sprintf("<< /Length %d >>\nstream\n%s(never closed \nendstream", cs.Len()+15, cs.String()))
		default:
			obj(fmt.Sprintf("<< /Length %d >>\nstream\n%sendstream", cs.Len(), cs.String()))
		}
	}
	xref := buf.Len()
	fmt.Fprintf(&buf, "xref\n0 %d\n", len(offs)+1)
	buf.WriteString("0000000000 65535 f \n")
	for _, o := range offs {
		fmt.Fprintf(&buf, "%010d %05d n \n", o, 0)
	}
	fmt.Fprintf(&buf, "trailer\n<< /Size %d /Root 1 0 R >>\nstartxref\n%d\n%%%%EOF\n", len(offs)+1, xref)
	return buf.Bytes()
}
