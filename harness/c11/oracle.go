package c11

import (
	"fmt"
	"regexp"
	"sort"
	"strings"
	"unicode/utf8"

	"verifharness/hx"
)

// Statement-level oracles for C11, written from the property text and the
// documented band (72 pt from the page edge; for pages whose content runs past
// the page height the band is measured from the content extent and scaled by
// contentHeight/pageHeight). Nothing here calls tabula or the Lean model.

const bandPt = 72

// unit is what the property calls "a fragment"/"a line": a fragment on
// word-level pages, a logical line on generated character-level pages.
type unit struct {
	text    string
	x       int
	top     bool // lies in the top band of its page
	bot     bool
	dTop    [2]int // distance from the top reference as a fraction num/den
	dBot    [2]int
	members []int // fragment ids on the page
}

type pageView struct {
	charLevel bool // by the documented heuristic: average fragment length <= 2 characters
	ambiguous bool // some fragment sits exactly on a scaled (non-integer) band threshold
	inTop     []bool
	inBot     []bool
	units     []unit
}

var digitRun = regexp.MustCompile(`[0-9]+`)

func normText(s string) string { return digitRun.ReplaceAllString(strings.TrimSpace(s), "#") }

// the page-number shapes the code documents (after digit runs became '#'), compared case-insensitively
var pnShapes = map[string]bool{"#": true, "page #": true, "- # -": true, "# of #": true, "page # of #": true,
	"#/#": true, "p. #": true, "p.#": true, "pg #": true, "pg. #": true}

func isPageNumberText(s string) bool { return pnShapes[strings.ToLower(normText(s))] }

func viewOf(p Page) pageView {
	v := pageView{inTop: make([]bool, len(p.F)), inBot: make([]bool, len(p.F))}
	if len(p.F) == 0 {
		return v
	}
	chars := 0
	for _, f := range p.F {
		chars += utf8.RuneCountInString(f.T)
	}
	v.charLevel = chars <= 2*len(p.F)
	minY, maxY := p.F[0].Y, p.F[0].Y
	for _, f := range p.F {
		if f.Y < minY {
			minY = f.Y
		}
		if f.Y+f.H > maxY {
			maxY = f.Y + f.H
		}
	}
	inverted := maxY > p.H
	ch := maxY - minY
	if ch <= 0 {
		ch = p.H
	}
	dTop := make([][2]int, len(p.F))
	dBot := make([][2]int, len(p.F))
	for i, f := range p.F {
		if !inverted {
			dt, db := p.H-(f.Y+f.H), f.Y
			v.inTop[i], v.inBot[i] = dt < bandPt, db < bandPt
			dTop[i], dBot[i] = [2]int{dt, 1}, [2]int{db, 1}
		} else {
			// band = 72 * ch / H, compared exactly by cross-multiplication
			dt, db := f.Y-minY, maxY-(f.Y+f.H)
			v.inTop[i], v.inBot[i] = dt*p.H < bandPt*ch, db*p.H < bandPt*ch
			if dt*p.H == bandPt*ch || db*p.H == bandPt*ch {
				v.ambiguous = true
			}
			dTop[i], dBot[i] = [2]int{dt, 1}, [2]int{db, 1}
		}
	}
	if len(p.Lines) > 0 {
		for li, l := range p.Lines {
			u := unit{text: l.T, x: l.X}
			for i, f := range p.F {
				if f.L == li {
					u.members = append(u.members, i)
				}
			}
			if len(u.members) == 0 {
				continue
			}
			m := u.members[0]
			u.top, u.bot, u.dTop, u.dBot = v.inTop[m], v.inBot[m], dTop[m], dBot[m]
			v.units = append(v.units, u)
		}
	} else {
		for i, f := range p.F {
			v.units = append(v.units, unit{text: f.T, x: f.X, top: v.inTop[i], bot: v.inBot[i],
				dTop: dTop[i], dBot: dBot[i], members: []int{i}})
		}
	}
	return v
}

func absInt(a int) int {
	if a < 0 {
		return -a
	}
	return a
}

// repeats: the unit's (digit-normalised) text occurs on another page in the same band at about the same position.
func repeats(views []pageView, pi int, u unit, top bool, tolY, tolX int) bool {
	key := normText(u.text)
	for qi, v := range views {
		if qi == pi {
			continue
		}
		for _, w := range v.units {
			if top && !w.top || !top && !w.bot {
				continue
			}
			if normText(w.text) != key {
				continue
			}
			d := u.dTop[0] - w.dTop[0]
			if !top {
				d = u.dBot[0] - w.dBot[0]
			}
			if absInt(d) <= tolY && absInt(u.x-w.x) <= tolX {
				return true
			}
		}
	}
	return false
}

type caseInfo struct {
	Mode   string   `json:"mode"`
	Doc    Doc      `json:"doc"`
	Subset []int    `json:"subset,omitempty"`
	Excl   string   `json:"excl,omitempty"`
	Script []string `json:"script,omitempty"` // mode "seq": the call sequence run on the caller's own slices (seq.go)
	// Probe (mode "pdf", long documents): the pages whose own result was requested one by one
	// (Pages(k)); the other pages are covered by the whole-document and the subset request
	// only. Empty = every page.
	Probe []int `json:"probe,omitempty"`
	// Range: the subset is contiguous and is requested as PageRange(first, last).
	Range bool `json:"range,omitempty"`
	// Hist (mode "hist"): several requests on one source extractor (hist.go).
	Hist *histCase `json:"hist,omitempty"`
	// X (mode "x"): requests and a script on one rendered document, answered by the
	// extractor-level model as well (extract.go).
	X *xCase `json:"x,omitempty"`
}

// probedSet: which pages carry a per-page result (all of them when no probe list is given).
func probedSet(ci caseInfo) []bool {
	out := make([]bool, len(ci.Doc.Pages))
	for i := range out {
		out[i] = len(ci.Probe) == 0
	}
	for _, k := range ci.Probe {
		if k >= 0 && k < len(out) {
			out[k] = true
		}
	}
	return out
}

func keptSet(ids []int) map[int]bool {
	m := map[int]bool{}
	for _, i := range ids {
		m[i] = true
	}
	return m
}

// checkDoc evaluates the statement on the per-page kept ids produced by the
// implementation. kept[p] == nil with sub[p] == false means "not a sublist".
func checkDoc(c *hx.Ctx, ci caseInfo, kept [][]int, isSub []bool) {
	d := ci.Doc
	views := make([]pageView, len(d.Pages))
	ambiguous, accidental := false, false
	for i, p := range d.Pages {
		views[i] = viewOf(p)
		ambiguous = ambiguous || views[i].ambiguous
		if views[i].charLevel && len(p.Lines) == 0 {
			accidental = true
		}
	}
	if ambiguous {
		return // dropped before the implementation was run (floatAmbiguous)
	}
	if accidental {
		c.Count("page-of-short-fragments(treated-as-character-level)")
	}
	probed := probedSet(ci)
	// 1. the result is the input minus some fragments, in the same order
	for pi := range d.Pages {
		if !probed[pi] {
			continue
		}
		c.Check("C11/not-sublist", isSub[pi], ci, func() string {
			return fmt.Sprintf("page %d: filtered fragments are not a subsequence of the page's fragments", pi)
		})
	}
	changed := false
	for pi, p := range d.Pages {
		if !probed[pi] {
			continue
		}
		if !isSub[pi] {
			changed = true
			continue
		}
		ks := keptSet(kept[pi])
		v := views[pi]
		if len(ks) != len(p.F) {
			changed = true
		}
		// 2. removed => in the top or bottom band of its page
		for i, f := range p.F {
			if ks[i] {
				continue
			}
			c.Check("C11/removed-body-band", v.inTop[i] || v.inBot[i], ci, func() string {
				return fmt.Sprintf("page %d (height %d): fragment %d %q at y=%d h=%d was removed but lies outside the %d pt top/bottom band",
					pi, p.H, i, f.T, f.Y, f.H, bandPt)
			})
		}
		// 3. removed => repeats at that position across pages, or is a page-number pattern.
		// legitTop/legitBot: some line in that band of THIS page repeats at its position on
		// another page or is a page-number pattern. Where that is not so, no header/footer
		// can have been found on this page and the band must come back untouched, on
		// character-level pages too (finer key: the page carries no repeated line at all).
		legitTop, legitBot := false, false
		for _, w := range v.units {
			if w.top && (isPageNumberText(w.text) || repeats(views, pi, w, true, 10, 20)) {
				legitTop = true
			}
			if w.bot && (isPageNumberText(w.text) || repeats(views, pi, w, false, 10, 20)) {
				legitBot = true
			}
		}
		for _, u := range v.units {
			nrem := 0
			for _, m := range u.members {
				if !ks[m] {
					nrem++
				}
			}
			if nrem == 0 || !(u.top || u.bot) {
				continue
			}
			ok := isPageNumberText(u.text) ||
				(u.top && repeats(views, pi, u, true, 10, 20)) || (u.bot && repeats(views, pi, u, false, 10, 20))
			key := "C11/removed-unrepeated"
			if v.charLevel {
				// was finding F8: character-level pages were filtered by position alone, so a
				// unique marginal line on a page with a running header went with it. Repaired
				// (the filter judges assembled lines); the key stays apart so that a
				// regression on character-level pages names itself.
				key = "C11/charlevel-position-only"
			}
			detail := ""
			if !(u.top && legitTop) && !(u.bot && legitBot) {
				key = "C11/removed-where-nothing-repeats"
				detail = "; no line in that band of this page repeats on another page or is a page number (a cover page / chapter opener without the running line)"
			}
			c.Check(key, ok, ci, func() string {
				return fmt.Sprintf("page %d: %q (x=%d) was removed from the margin band but its text occurs on no other page at that position and is not a page-number pattern%s",
					pi, u.text, u.x, detail)
			})
		}
	}
	// 4. documents without repetition are returned unchanged
	repetition := false
	for pi, v := range views {
		for _, u := range v.units {
			if u.top && repeats(views, pi, u, true, 1<<30, 1<<30) || u.bot && repeats(views, pi, u, false, 1<<30, 1<<30) {
				repetition = true
			}
		}
	}
	if !repetition {
		c.Count("oracle:no-repetition")
		c.Check("C11/no-repetition-changed", !changed, ci, func() string {
			return "no (digit-normalised) marginal text occurs on two pages, yet exclusion changed the document"
		})
	}
	// 5./6. liveness on the ideal case: the same line / a running page number at the
	// same marginal position on every page is removed from every page.
	if len(d.Pages) >= 2 && !accidental {
		liveness(c, ci, views, kept, isSub, true)
		liveness(c, ci, views, kept, isSub, false)
	}
}

func firstNumber(s string) (int, bool) {
	m := digitRun.FindString(s)
	if m == "" || len(m) > 9 {
		return 0, false
	}
	n := 0
	for _, ch := range m {
		n = n*10 + int(ch-'0')
	}
	return n, true
}

// idealChain is one line of the ideal liveness case: present on every page at exactly one
// marginal position, its normalised text nowhere else in that band; units[p] is the line on page p.
type idealChain struct {
	okey  string // C11/repeated-header-kept or C11/page-number-kept
	top   bool
	dist  int
	units []unit
}

// idealChains lists the lines the last sentence of the statement speaks about: a line
// repeated at the same marginal position on every page, and running page numbers.
func idealChains(views []pageView, top bool) []idealChain {
	var out []idealChain
	inBand := func(u unit) bool {
		if top {
			return u.top
		}
		return u.bot
	}
	dist := func(u unit) int {
		if top {
			return u.dTop[0]
		}
		return u.dBot[0]
	}
	for _, u0 := range views[0].units {
		if !inBand(u0) {
			continue
		}
		key := normText(u0.text)
		if len(key) <= 2 && !isPageNumberText(u0.text) {
			continue // the code documents that 1-2 character texts are not treated as lines
		}
		// the line must be present on every page at exactly this position, and its
		// normalised text must not occur elsewhere in the band (ideal case)
		ideal := true
		sameText := true
		running := true
		var chain []unit
		for _, v := range views {
			found := -1
			for ui, w := range v.units {
				if !inBand(w) || normText(w.text) != key {
					continue
				}
				if w.x == u0.x && dist(w) == dist(u0) && found < 0 {
					found = ui
				} else {
					ideal = false
				}
			}
			if found < 0 {
				ideal = false
				break
			}
			chain = append(chain, v.units[found])
		}
		if !ideal {
			continue
		}
		for i, w := range chain {
			if strings.TrimSpace(w.text) != strings.TrimSpace(u0.text) {
				sameText = false
			}
			if i > 0 {
				a, ok1 := firstNumber(chain[i-1].text)
				b, ok2 := firstNumber(w.text)
				if !ok1 || !ok2 || b != a+1 {
					running = false
				}
			}
		}
		if !sameText && !running {
			continue
		}
		okey := "C11/repeated-header-kept"
		if !sameText {
			okey = "C11/page-number-kept"
		}
		out = append(out, idealChain{okey: okey, top: top, dist: dist(u0), units: chain})
	}
	return out
}

func liveness(c *hx.Ctx, ci caseInfo, views []pageView, kept [][]int, isSub []bool, top bool) {
	probed := probedSet(ci)
	for _, ch := range idealChains(views, top) {
		okey := ch.okey
		c.Count("oracle:liveness:" + okey[4:])
		for pi, w := range ch.units {
			if !probed[pi] || !isSub[pi] {
				continue
			}
			ks := keptSet(kept[pi])
			removed := true
			for _, m := range w.members {
				if ks[m] {
					removed = false
				}
			}
			if !removed {
				c.Count("failing:" + okey[4:] + ":" + normText(w.text))
			}
			c.Check(okey, removed, ci, func() string {
				where := "bottom"
				if top {
					where = "top"
				}
				return fmt.Sprintf("%q sits at the same %s-margin position (x=%d, %d pt from the edge) on all %d pages but was kept on page %d",
					w.text, where, w.x, ch.dist, len(views), pi)
			})
		}
	}
}

func sortedCopy(xs []int) []int {
	ys := append([]int(nil), xs...)
	sort.Ints(ys)
	return ys
}
