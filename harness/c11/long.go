package c11

import (
	"fmt"
	"sort"
	"strings"

	"github.com/tsawler/tabula"
	"github.com/tsawler/tabula/layout"

	"verifharness/hx"
)

// Long documents and the whole-document request.
//
// The property quantifies over "all generated multi-page documents" and "all page subsets
// requested together with exclusion"; the whole page set is one of those subsets and a
// document may have any number of pages. Here: documents of 15 to several hundred pages
// (page counts drawn around the round numbers at which an implementation might stop
// looking: 16, 20, 25, 32, 50, 64, 100, 128, 200, 256), requested as a whole (no Pages
// call), as Pages(S), as PageRange(a, b), and page by page on a sample of pages that always
// contains the first, the last, one of the last quarter and two random ones.

// longPageCount draws the page count of a long document. maxPages bounds it (quick tier:
// moderate, thorough: several hundred).
func longPageCount(x *hx.Rng, maxPages int) int {
	edges := []int{16, 20, 25, 32, 40, 50, 64, 100, 128, 200, 256, 300, 500, 512}
	var n int
	switch x.Intn(6) {
	case 0, 1: // just above a round number (the first page an "only the first N pages" rule leaves out)
		e := hx.Pick(x, edges)
		n = e + x.Range(1, 3)
	case 2: // exactly a round number, or just below
		e := hx.Pick(x, edges)
		n = e - x.Intn(2)
	case 3:
		n = x.Range(15, 40)
	case 4:
		n = x.Range(33, 90)
	default:
		n = x.Range(41, 260)
	}
	for n > maxPages {
		n = 15 + (n-15)/2
	}
	if n < 15 {
		n = 15
	}
	return n
}

// probePages: the pages of a long document that are requested one by one.
func probePages(x *hx.Rng, n int) []int {
	set := map[int]bool{0: true, n - 1: true}
	for i := 0; i < 2; i++ {
		set[x.Intn(n)] = true
	}
	// one page from the last quarter: the tail is what a bounded scan never sees
	set[n-1-x.Intn((n+3)/4)] = true
	var out []int
	for k := range set {
		if k >= 0 && k < n {
			out = append(out, k)
		}
	}
	sort.Ints(out)
	return out
}

// longSubset draws the page subset requested together with exclusion on a long document:
// nothing, a random half, a sparse handful, a contiguous run (asked for as PageRange or as
// Pages), only pages of the tail, or a single late page.
func longSubset(x *hx.Rng, n int) (subset []int, asRange bool) {
	switch x.Intn(7) {
	case 0:
		return nil, false
	case 1:
		for k := 0; k < n; k++ {
			if x.Bool() {
				subset = append(subset, k)
			}
		}
	case 2:
		for k := 0; k < n; k++ {
			if x.Chance(1, 8) {
				subset = append(subset, k)
			}
		}
	case 3, 4: // a contiguous run
		a := x.Intn(n)
		b := a + x.Intn(n-a)
		for k := a; k <= b; k++ {
			subset = append(subset, k)
		}
		asRange = x.Chance(2, 3)
	case 5: // the tail only
		a := n - 1 - x.Intn((n+2)/3)
		for k := a; k < n; k++ {
			if k == a || x.Chance(2, 3) {
				subset = append(subset, k)
			}
		}
	default:
		subset = []int{n - 1 - x.Intn((n+1)/2)}
	}
	return subset, asRange
}

// wholeDocument requests the whole document (no Pages call) together with exclusion and
// checks the statement on the result, which comes back without page boundaries: the
// fragments are therefore counted per (text, x, y).
//
//   - C11/not-sublist: no fragment survives more often than it was written;
//   - C11/removed-body-band: every fragment written outside both margin bands of its page survives;
//   - C11/repeated-header-kept, C11/page-number-kept: of a line that sits at the same marginal
//     position on every page (ideal case, as in liveness) no copy survives;
//   - C11/whole-document-detection: the result is what filtering every page with the regions
//     detected on all pages keeps (the same comparison C11/subset-detection makes for subsets);
//   - C11/text-differs-from-fragments: Text() of the whole document consists of the surviving fragments.
func wholeDocument(c *hx.Ctx, ci caseInfo, fn string, raw []layout.PageFragments, allKept [][]int, allSub []bool) {
	d, excl := ci.Doc, ci.Excl
	n := len(d.Pages)
	total := 0
	for _, p := range raw {
		total += len(p.Fragments)
	}
	var base, ls []layout.Line
	var errB, errL error
	pan := hx.Safe(func() {
		base, errB = tabula.Open(fn).Lines()
		ls, errL = withExcl(tabula.Open(fn), excl).Lines()
	})
	if !c.Check("C11/panic", pan == "", ci, func() string { return "whole-document Lines() panicked: " + pan }) {
		return
	}
	if errB != nil || errL != nil {
		c.Count("pdf:whole-document:extract-error")
		return
	}
	nb := 0
	for _, l := range base {
		nb += len(l.Fragments)
	}
	if nb != total {
		c.Count("pdf:whole-document:line-detector-drops-fragments(skipped)")
		return
	}
	c.Count("pdf:whole-document")
	got := map[string]int{}
	var gotList []string
	var gotTexts []string
	for _, l := range ls {
		for _, f := range l.Fragments {
			k := fragKey(f.Text, f.X, f.Y)
			got[k]++
			gotList = append(gotList, k)
			gotTexts = append(gotTexts, strings.TrimSpace(f.Text))
		}
	}
	// what the harness wrote (raw was checked to be exactly that): per key the number of
	// copies, and the number of copies lying outside both bands of their page
	views := make([]pageView, n)
	written := map[string]int{}
	body := map[string]int{}
	where := map[string]string{}
	accidental, glyphPages := false, false
	for pi, p := range d.Pages {
		views[pi] = viewOf(p)
		if views[pi].charLevel && len(p.Lines) == 0 {
			accidental = true
		}
		if len(p.Lines) > 0 {
			glyphPages = true
		}
		for i, f := range p.F {
			k := fragKey(f.T, float64(f.X), float64(f.Y))
			written[k]++
			if !views[pi].inTop[i] && !views[pi].inBot[i] {
				body[k]++
				if where[k] == "" {
					where[k] = fmt.Sprintf("page %d (height %d) fragment %d %q at y=%d h=%d", pi, p.H, i, f.T, f.Y, f.H)
				}
			}
		}
	}
	for _, k := range hx.SortedKeys(got) {
		c.Check("C11/not-sublist", got[k] <= written[k], ci, func() string {
			return fmt.Sprintf("whole document with exclusion: %d fragment(s) %s survive, %d were written", got[k], k, written[k])
		})
	}
	for _, k := range hx.SortedKeys(body) {
		c.Check("C11/removed-body-band", got[k] >= body[k], ci, func() string {
			return fmt.Sprintf("whole document with exclusion: %d cop(ies) of %s lie outside the %d pt top/bottom band of their page (first: %s) but only %d survive",
				body[k], k, bandPt, where[k], got[k])
		})
	}
	if n >= 2 && !accidental {
		var chains []idealChain
		chains = append(chains, idealChains(views, true)...)
		chains = append(chains, idealChains(views, false)...)
		// copies that have to go, over all chains together
		must := map[string]int{}
		for _, ch := range chains {
			for pi, u := range ch.units {
				for _, m := range u.members {
					f := d.Pages[pi].F[m]
					must[fragKey(f.T, float64(f.X), float64(f.Y))]++
				}
			}
		}
		for _, ch := range chains {
			c.Count("oracle:whole-document-liveness:" + ch.okey[4:])
			done := map[string]bool{}
			for pi, u := range ch.units {
				for _, m := range u.members {
					f := d.Pages[pi].F[m]
					k := fragKey(f.T, float64(f.X), float64(f.Y))
					if done[k] {
						continue
					}
					done[k] = true
					c.Check(ch.okey, got[k] <= written[k]-must[k], ci, func() string {
						where := "bottom"
						if ch.top {
							where = "top"
						}
						return fmt.Sprintf("whole document (%d pages) with exclusion: %q sits at the same %s-margin position (x=%d, %d pt from the edge) on all pages; "+
							"of the %d written fragment(s) %s, %d belong to such lines and have to go, yet %d survive (first page carrying it: %d)",
							n, u.text, where, u.x, ch.dist, written[k], k, must[k], got[k], pi)
					})
				}
			}
		}
	}
	// detection on all pages, as the extractor must do it for the whole page set too
	okAll := true
	var want []string
	for k := 0; k < n; k++ {
		if !allSub[k] {
			okAll = false
			break
		}
		for _, id := range allKept[k] {
			f := raw[k].Fragments[id]
			want = append(want, fragKey(f.Text, f.X, f.Y))
		}
	}
	if okAll {
		sort.Strings(want)
		sort.Strings(gotList)
		c.Check("C11/whole-document-detection", strings.Join(gotList, "\n") == strings.Join(want, "\n"), ci, func() string {
			return fmt.Sprintf("the whole document (%d pages) with exclusion kept %s; filtering every page with the regions detected on all pages keeps %s",
				n, diffSummary(gotList, want), diffSummary(want, gotList))
		})
	}
	// Text() of the whole document: exactly the surviving fragments
	var txt string
	var err error
	pan = hx.Safe(func() { txt, _, err = withExcl(tabula.Open(fn), excl).Text() })
	if !c.Check("C11/panic", pan == "", ci, func() string { return "whole-document Text() panicked: " + pan }) || err != nil {
		return
	}
	wantT := append([]string(nil), gotTexts...)
	sort.Strings(wantT)
	gotT := textLines(txt)
	if glyphPages {
		wantT = sortedGlyphs(strings.Join(wantT, ""))
		gotT = sortedGlyphs(txt)
	}
	c.Check("C11/text-differs-from-fragments", strings.Join(gotT, "\n") == strings.Join(wantT, "\n"), ci, func() string {
		return fmt.Sprintf("whole document: Exclude…().Text() has %s beyond the surviving fragments, and lacks %s", diffSummary(gotT, wantT), diffSummary(wantT, gotT))
	})
}

// diffSummary: the elements of the sorted multiset a that are not in the sorted multiset b
// (at most eight are spelled out).
func diffSummary(a, b []string) string {
	cnt := map[string]int{}
	for _, x := range b {
		cnt[x]++
	}
	var extra []string
	for _, x := range a {
		if cnt[x] > 0 {
			cnt[x]--
			continue
		}
		extra = append(extra, x)
	}
	if len(extra) == 0 {
		return "nothing extra"
	}
	more := ""
	if len(extra) > 8 {
		more = fmt.Sprintf(" … (%d in all)", len(extra))
		extra = extra[:8]
	}
	return fmt.Sprintf("%q%s extra", extra, more)
}
