package c11

import (
	"fmt"
	"os"
	"path/filepath"
	"strings"

	"github.com/tsawler/tabula"
	"github.com/tsawler/tabula/docx"
	"github.com/tsawler/tabula/odt"
	"github.com/tsawler/tabula/pptx"

	"verifharness/hx"
	"verifharness/writers"
)

// DOCX / ODT / PPTX: the loops around shouldExcludeParagraph / isFooterPlaceholder
// (lean/TabulaModel/Model/HFOffice.lean).
//
//	c11.otext <text|md> <exH> <exF> h=<hexlist> f=<hexlist> <elem>...   elem = p<hex> | t<hex rendered table>
//	c11.ptext <exH> <exF> <slide>...                                     slide = hextitle/hexnotes/blk;blk  blk = T|hexph|p,p
//
// Readers: odt.VerifNewReader / docx.VerifNewReader / pptx.VerifNewReader on generated
// element lists (TextWithOptions, MarkdownWithOptions), and - for DOCX - a written file
// (document.xml with paragraphs and tables, header and footer parts behind relationships)
// read by docx.Open and by tabula.Open(f).Exclude…().Text().
//
// Body paragraphs that must survive carry a unique token; the others repeat a line of a
// header / footer part exactly, with extra blanks, in another case, as a prefix, or sit
// in a table cell.

type oElem struct {
	Para bool       `json:"para"`
	Text string     `json:"text,omitempty"`
	Rows [][]string `json:"rows,omitempty"`
}

type oCase struct {
	ExH   bool     `json:"exh"`
	ExF   bool     `json:"exf"`
	Hs    []string `json:"hs"`
	Fs    []string `json:"fs"`
	Elems []oElem  `json:"elems"`
}

var oPartLines = []string{"ACME Report", "Page 3", "Confidential", "Draft", "Quarterly figures 2024", "Internal use only", "www.example.com"}

func genParts(r *hx.Rng) []string {
	var parts []string
	for j := r.Intn(3); j > 0; j-- {
		switch r.Intn(6) {
		case 0:
			parts = append(parts, hx.Pick(r, oPartLines)+"\n"+hx.Pick(r, oPartLines))
		case 1:
			parts = append(parts, "  "+hx.Pick(r, oPartLines)+" ")
		case 2:
			parts = append(parts, hx.Pick(r, oPartLines)+"\n\n"+hx.Pick(r, oPartLines)+"\n")
		default:
			parts = append(parts, hx.Pick(r, oPartLines))
		}
	}
	return parts
}

func genOCase(r *hx.Rng) oCase {
	oc := oCase{ExH: r.Bool(), ExF: r.Bool(), Hs: genParts(r), Fs: genParts(r)}
	n := r.Range(1, 9)
	for i := 0; i < n; i++ {
		line := hx.Pick(r, oPartLines)
		if ps := append(append([]string(nil), oc.Hs...), oc.Fs...); len(ps) > 0 && r.Chance(2, 3) {
			ls := strings.Split(hx.Pick(r, ps), "\n")
			if l := strings.TrimSpace(hx.Pick(r, ls)); l != "" {
				line = l
			}
		}
		switch k := r.Intn(14); {
		case k < 5:
			oc.Elems = append(oc.Elems, oElem{Para: true, Text: fmt.Sprintf("Body-%d of the document", i)})
		case k < 8:
			oc.Elems = append(oc.Elems, oElem{Para: true, Text: line})
		case k == 8:
			oc.Elems = append(oc.Elems, oElem{Para: true, Text: " " + line + "  "})
		case k == 9:
			oc.Elems = append(oc.Elems, oElem{Para: true, Text: strings.ToUpper(line) + "!"})
		case k == 10:
			oc.Elems = append(oc.Elems, oElem{Para: true, Text: line + fmt.Sprintf(" - continued %d", i)})
		case k == 11:
			oc.Elems = append(oc.Elems, oElem{Para: true, Text: hx.Pick(r, []string{"", " ", "\t"})})
		default:
			rows := make([][]string, r.Range(1, 2))
			for a := range rows {
				rows[a] = make([]string, r.Range(1, 3))
				for b := range rows[a] {
					rows[a][b] = fmt.Sprintf("Cell-%d-%d-%d", i, a, b)
					if r.Chance(1, 3) {
						rows[a][b] = line
					}
				}
			}
			oc.Elems = append(oc.Elems, oElem{Rows: rows})
		}
	}
	return oc
}

func elemsField(elems []string) string {
	if len(elems) == 0 {
		return ""
	}
	return " " + strings.Join(elems, " ")
}

func otextLine(kind string, oc oCase, hs, fs []string, elems []string) string {
	return fmt.Sprintf("c11.otext %s %s %s h=%s f=%s%s", kind, b01(oc.ExH), b01(oc.ExF), hx.HexList(hs), hx.HexList(fs), elemsField(elems))
}

// partLines: the trimmed non-blank lines of the parts.
func partLines(parts []string) map[string]bool {
	m := map[string]bool{}
	for _, p := range parts {
		for _, l := range strings.Split(p, "\n") {
			if l = strings.TrimSpace(l); l != "" {
				m[l] = true
			}
		}
	}
	return m
}

// officeOracle: the statement on one rendering (text or markdown) of the document.
func officeOracle(c *hx.Ctx, kase interface{}, what, out string, oc oCase, hs, fs []string) {
	hl, fl := partLines(hs), partLines(fs)
	lines := map[string]int{}
	for _, l := range strings.Split(out, "\n") {
		lines[strings.TrimSpace(l)]++
	}
	for _, e := range oc.Elems {
		if !e.Para {
			continue
		}
		t := strings.TrimSpace(e.Text)
		if t == "" {
			continue
		}
		isH, isF := hl[t], fl[t]
		if !(oc.ExH && isH) && !(oc.ExF && isF) {
			c.Check("C11/office-paragraph-lost", lines[t] > 0, kase, func() string {
				return fmt.Sprintf("%s: paragraph %q equals no line of an excluded part (headers %q excluded=%v, footers %q excluded=%v) but is missing from %q",
					what, e.Text, hs, oc.ExH, fs, oc.ExF, out)
			})
		}
	}
	// with a flag set, a paragraph that is exactly a line of such a part is gone (table cells carry such
	// lines only next to other cells or are counted out below)
	cellLines := map[string]bool{}
	for _, e := range oc.Elems {
		for _, row := range e.Rows {
			for _, cell := range row {
				cellLines[strings.TrimSpace(cell)] = true
			}
		}
	}
	for _, e := range oc.Elems {
		if !e.Para {
			continue
		}
		t := strings.TrimSpace(e.Text)
		if t == "" || cellLines[t] || strings.Contains(what, "md") && strings.HasPrefix(t, "|") {
			continue
		}
		if (oc.ExH && hl[t]) || (oc.ExF && fl[t]) {
			c.Check("C11/office-header-line-kept", lines[t] == 0, kase, func() string {
				return fmt.Sprintf("%s: paragraph %q is a line of an excluded part (headers %q excluded=%v, footers %q excluded=%v) but is still in %q",
					what, e.Text, hs, oc.ExH, fs, oc.ExF, out)
			})
		}
	}
}

func odtElems(oc oCase) ([]odt.VerifElem, []string, []string) {
	var ve []odt.VerifElem
	var tf, mf []string
	for _, e := range oc.Elems {
		if e.Para {
			ve = append(ve, odt.VerifElem{Kind: "p", Text: e.Text})
			tf = append(tf, "p"+hx.HexS(e.Text))
			mf = append(mf, "p"+hx.HexS(e.Text))
			continue
		}
		t := &odt.ParsedTable{}
		var rows [][]odt.VerifCell
		for _, row := range e.Rows {
			pr := odt.ParsedTableRow{}
			var vr []odt.VerifCell
			for _, cell := range row {
				pr.Cells = append(pr.Cells, odt.ParsedTableCell{Text: cell, ColSpan: 1, RowSpan: 1})
				vr = append(vr, odt.VerifCell{Text: cell, ColSpan: 1, RowSpan: 1})
			}
			t.Rows = append(t.Rows, pr)
			rows = append(rows, vr)
		}
		ve = append(ve, odt.VerifElem{Kind: "tbl", Rows: rows})
		tf = append(tf, "t"+hx.HexS(t.ToText()))
		mf = append(mf, "t"+hx.HexS(t.ToMarkdown()))
	}
	return ve, tf, mf
}

func docxElems(oc oCase) ([]docx.VerifElem, []string, []string) {
	var ve []docx.VerifElem
	var tf, mf []string
	for _, e := range oc.Elems {
		if e.Para {
			ve = append(ve, docx.VerifElem{Kind: "p", Text: e.Text})
			tf = append(tf, "p"+hx.HexS(e.Text))
			mf = append(mf, "p"+hx.HexS(e.Text))
			continue
		}
		t := &docx.ParsedTable{}
		var rows [][]docx.VerifCell
		for _, row := range e.Rows {
			pr := docx.ParsedTableRow{}
			var vr []docx.VerifCell
			for _, cell := range row {
				pr.Cells = append(pr.Cells, docx.ParsedTableCell{Text: cell, ColSpan: 1, RowSpan: 1})
				vr = append(vr, docx.VerifCell{Text: cell, ColSpan: 1, RowSpan: 1})
			}
			t.Rows = append(t.Rows, pr)
			rows = append(rows, vr)
		}
		ve = append(ve, docx.VerifElem{Kind: "tbl", Rows: rows})
		tf = append(tf, "t"+hx.HexS(t.ToText()))
		mf = append(mf, "t"+hx.HexS(t.ToMarkdown()))
	}
	return ve, tf, mf
}

// ---- a DOCX file with header and footer parts (OPC package, WordprocessingML main part) ----

const wNS = `xmlns:w="http://schemas.openxmlformats.org/wordprocessingml/2006/main" xmlns:r="http://schemas.openxmlformats.org/officeDocument/2006/relationships"`
const oxmlDecl = `<?xml version="1.0" encoding="UTF-8" standalone="yes"?>` + "\n"

func wPara(t string) string {
	return `<w:p><w:r><w:t xml:space="preserve">` + writers.XMLEsc(t) + `</w:t></w:r></w:p>`
}

func docxFile(oc oCase) []byte {
	var b strings.Builder
	b.WriteString(oxmlDecl + `<w:document ` + wNS + `><w:body>`)
	for _, e := range oc.Elems {
		if e.Para {
			b.WriteString(wPara(e.Text))
			continue
		}
		b.WriteString(`<w:tbl>`)
		for _, row := range e.Rows {
			b.WriteString(`<w:tr>`)
			for _, cell := range row {
				b.WriteString(`<w:tc>` + wPara(cell) + `</w:tc>`)
			}
			b.WriteString(`</w:tr>`)
		}
		b.WriteString(`</w:tbl>`)
	}
	b.WriteString(`<w:sectPr>`)
	var rels strings.Builder
	rels.WriteString(oxmlDecl + `<Relationships xmlns="http://schemas.openxmlformats.org/package/2006/relationships">` +
		`<Relationship Id="rIdS" Type="http://schemas.openxmlformats.org/officeDocument/2006/relationships/styles" Target="styles.xml"/>`)
	members := []writers.Member{}
	ct := oxmlDecl + `<Types xmlns="http://schemas.openxmlformats.org/package/2006/content-types">` +
		`<Default Extension="rels" ContentType="application/vnd.openxmlformats-package.relationships+xml"/>` +
		`<Default Extension="xml" ContentType="application/xml"/>` +
		`<Override PartName="/word/document.xml" ContentType="application/vnd.openxmlformats-officedocument.wordprocessingml.document.main+xml"/>` +
		`<Override PartName="/word/styles.xml" ContentType="application/vnd.openxmlformats-officedocument.wordprocessingml.styles+xml"/>`
	part := func(kind, root string, i int, text string) {
		name := fmt.Sprintf("%s%d.xml", kind, i+1)
		id := fmt.Sprintf("rId%s%d", kind, i+1)
		fmt.Fprintf(&rels, `<Relationship Id="%s" Type="http://schemas.openxmlformats.org/officeDocument/2006/relationships/%s" Target="%s"/>`, id, kind, name)
		fmt.Fprintf(&b, `<w:%sReference w:type="default" r:id="%s"/>`, kind, id)
		ct += fmt.Sprintf(`<Override PartName="/word/%s" ContentType="application/vnd.openxmlformats-officedocument.wordprocessingml.%s+xml"/>`, name, kind)
		var pb strings.Builder
		pb.WriteString(oxmlDecl + `<w:` + root + ` ` + wNS + `>`)
		for _, l := range strings.Split(text, "\n") {
			pb.WriteString(wPara(l))
		}
		pb.WriteString(`</w:` + root + `>`)
		members = append(members, writers.Member{Name: "word/" + name, Data: []byte(pb.String())})
	}
	for i, h := range oc.Hs {
		part("header", "hdr", i, h)
	}
	for i, f := range oc.Fs {
		part("footer", "ftr", i, f)
	}
	b.WriteString(`</w:sectPr></w:body></w:document>`)
	rels.WriteString(`</Relationships>`)
	ct += `</Types>`
	all := []writers.Member{
		{Name: "[Content_Types].xml", Data: []byte(ct)},
		{Name: "_rels/.rels", Data: []byte(oxmlDecl + `<Relationships xmlns="http://schemas.openxmlformats.org/package/2006/relationships">` +
			`<Relationship Id="rId1" Type="http://schemas.openxmlformats.org/officeDocument/2006/relationships/officeDocument" Target="word/document.xml"/></Relationships>`)},
		{Name: "word/document.xml", Data: []byte(b.String())},
		{Name: "word/_rels/document.xml.rels", Data: []byte(rels.String())},
		{Name: "word/styles.xml", Data: []byte(oxmlDecl + `<w:styles ` + wNS + `/>`)},
	}
	return writers.Zip(append(all, members...))
}

func officeCase(c *hx.Ctx, oc oCase, withFile bool) {
	kase := map[string]interface{}{"mode": "office", "o": oc}
	// ODT reader on the generated elements
	{
		ve, tf, mf := odtElems(oc)
		var txt, md string
		var e1, e2 error
		pan := hx.Safe(func() {
			rd := odt.VerifNewReader(ve, oc.Hs, oc.Fs, odt.VerifMeta{}, len(ve), nil)
			opts := odt.ExtractOptions{ExcludeHeaders: oc.ExH, ExcludeFooters: oc.ExF}
			txt, e1 = rd.TextWithOptions(opts)
			md, e2 = rd.MarkdownWithOptions(opts)
		})
		if c.Check("C11/panic-office", pan == "", kase, func() string { return "odt TextWithOptions/MarkdownWithOptions panicked: " + pan }) && e1 == nil && e2 == nil {
			c.Op(otextLine("text", oc, oc.Hs, oc.Fs, tf), hx.HexS(txt))
			c.Op(otextLine("md", oc, oc.Hs, oc.Fs, mf), hx.HexS(md))
			officeOracle(c, kase, "odt text", txt, oc, oc.Hs, oc.Fs)
			officeOracle(c, kase, "odt md", md, oc, oc.Hs, oc.Fs)
			c.Count("office:odt-reader")
		}
	}
	// DOCX reader on the generated elements (Markdown; TextWithOptions wants a parsed document part)
	{
		ve, _, mf := docxElems(oc)
		var md string
		var e2 error
		pan := hx.Safe(func() {
			rd := docx.VerifNewReader(ve, oc.Hs, oc.Fs, docx.VerifMeta{}, len(ve), nil)
			md, e2 = rd.MarkdownWithOptions(docx.ExtractOptions{ExcludeHeaders: oc.ExH, ExcludeFooters: oc.ExF})
		})
		if c.Check("C11/panic-office", pan == "", kase, func() string { return "docx MarkdownWithOptions panicked: " + pan }) && e2 == nil {
			c.Op(otextLine("md", oc, oc.Hs, oc.Fs, mf), hx.HexS(md))
			officeOracle(c, kase, "docx md", md, oc, oc.Hs, oc.Fs)
			c.Count("office:docx-reader")
		}
	}
	if oc.ExH || oc.ExF {
		c.Count("office:with-exclusion")
	}
	if !withFile {
		c.Case(fmt.Sprintf("office%v", oc), oc.ExH || oc.ExF)
		return
	}
	// a DOCX file: docx.Open and the public API
	dir := filepath.Join(c.OutDir, "pdf")
	os.MkdirAll(dir, 0o755)
	fn := filepath.Join(dir, "case.docx")
	if err := os.WriteFile(fn, docxFile(oc), 0o644); err != nil {
		c.Note("cannot write %s: %v", fn, err)
		return
	}
	var rdTxt, apiTxt string
	var hs, fs []string
	var fields []string
	var e0, e1, e2 error
	sameElems := true
	pan := hx.Safe(func() {
		var rd *docx.Reader
		rd, e0 = docx.Open(fn)
		if e0 != nil {
			return
		}
		defer rd.Close()
		hs, fs = rd.HeaderTexts(), rd.FooterTexts()
		ves := rd.VerifElements()
		if len(ves) != len(oc.Elems) {
			sameElems = false
		}
		for i, ve := range ves {
			if ve.Kind == "p" {
				fields = append(fields, "p"+hx.HexS(ve.Text))
				if i < len(oc.Elems) && (!oc.Elems[i].Para || oc.Elems[i].Text != ve.Text) {
					sameElems = false
				}
				continue
			}
			t := &docx.ParsedTable{}
			for _, row := range ve.Rows {
				pr := docx.ParsedTableRow{}
				for _, cell := range row {
					pr.Cells = append(pr.Cells, docx.ParsedTableCell{Text: cell.Text, ColSpan: cell.ColSpan, RowSpan: cell.RowSpan, IsMergedContinuation: cell.Cont})
				}
				t.Rows = append(t.Rows, pr)
			}
			fields = append(fields, "t"+hx.HexS(t.ToText()))
		}
		rdTxt, e1 = rd.TextWithOptions(docx.ExtractOptions{ExcludeHeaders: oc.ExH, ExcludeFooters: oc.ExF})
		e := tabula.Open(fn)
		switch {
		case oc.ExH && oc.ExF:
			e = e.ExcludeHeadersAndFooters()
		case oc.ExH:
			e = e.ExcludeHeaders()
		case oc.ExF:
			e = e.ExcludeFooters()
		}
		apiTxt, _, e2 = e.Text()
	})
	if !c.Check("C11/panic-office", pan == "", kase, func() string { return "docx.Open / Text panicked: " + pan }) {
		return
	}
	if e0 != nil || e1 != nil || e2 != nil {
		c.Count("office:docx-file-error")
		return
	}
	if !sameElems {
		c.Count("office:docx-file-elements-differ-from-written(skipped)")
		return
	}
	c.Op(otextLine("text", oc, hs, fs, fields), hx.HexS(apiTxt))
	c.Check("C11/docx-api-differs-from-reader", apiTxt == rdTxt, kase, func() string {
		return fmt.Sprintf("tabula.Open(docx) with ExcludeHeaders=%v ExcludeFooters=%v gives Text() %q, the DOCX reader with the same two options %q", oc.ExH, oc.ExF, apiTxt, rdTxt)
	})
	officeOracle(c, kase, "docx file text", apiTxt, oc, hs, fs)
	c.Count("office:docx-file")
	c.Case(fmt.Sprintf("office%v", oc), oc.ExH || oc.ExF)
}

// ---- PPTX ----

type pBlock struct {
	Title bool     `json:"title"`
	Ph    string   `json:"ph"`
	Paras []string `json:"paras"`
}

type pSlide struct {
	Title  string   `json:"title"`
	Notes  string   `json:"notes"`
	Blocks []pBlock `json:"blocks"`
}

var phTypes = []string{"", "body", "body", "ftr", "dt", "sldNum", "hdr", "title", "ctrTitle", "subTitle", "pic", "FTR"}

func genSlides(r *hx.Rng) []pSlide {
	var out []pSlide
	for i := r.Range(0, 4); i > 0; i-- {
		s := pSlide{}
		if r.Chance(2, 3) {
			s.Title = fmt.Sprintf("Slide title %d", i)
		}
		if r.Chance(1, 3) {
			s.Notes = fmt.Sprintf("note %d", i)
		}
		for j := r.Range(0, 5); j > 0; j-- {
			b := pBlock{Ph: hx.Pick(r, phTypes)}
			b.Title = (b.Ph == "title" || b.Ph == "ctrTitle") && r.Chance(2, 3)
			for k := r.Range(0, 3); k > 0; k-- {
				b.Paras = append(b.Paras, hx.Pick(r, []string{"", "Confidential", "3", fmt.Sprintf("Point %d.%d.%d", i, j, k), "2024-01-01"}))
			}
			s.Blocks = append(s.Blocks, b)
		}
		out = append(out, s)
	}
	return out
}

func pptxCase(c *hx.Ctx, slides []pSlide, exH, exF bool) {
	kase := map[string]interface{}{"mode": "pptx", "slides": slides, "exh": exH, "exf": exF}
	var ss []*pptx.Slide
	var fields []string
	for i, s := range slides {
		ps := &pptx.Slide{Index: i, Title: s.Title, Notes: s.Notes}
		var bf []string
		for _, b := range s.Blocks {
			tb := pptx.TextBlock{IsTitle: b.Title, Placeholder: b.Ph}
			var pf []string
			for _, p := range b.Paras {
				tb.Paragraphs = append(tb.Paragraphs, pptx.Paragraph{Text: p})
				pf = append(pf, hx.HexS(p))
			}
			ps.Content = append(ps.Content, tb)
			paras := "~"
			if len(pf) > 0 {
				paras = strings.Join(pf, ",")
			}
			bf = append(bf, b01(b.Title)+"|"+hx.HexS(b.Ph)+"|"+paras)
		}
		ss = append(ss, ps)
		blocks := "~"
		if len(bf) > 0 {
			blocks = strings.Join(bf, ";")
		}
		fields = append(fields, hx.HexS(s.Title)+"/"+hx.HexS(s.Notes)+"/"+blocks)
	}
	var txt, plain string
	var e1, e2 error
	pan := hx.Safe(func() {
		rd := pptx.VerifNewReader(ss, pptx.VerifMeta{})
		txt, e1 = rd.TextWithOptions(pptx.ExtractOptions{ExcludeHeaders: exH, ExcludeFooters: exF, IncludeNotes: true, IncludeTitles: true})
		plain, e2 = rd.TextWithOptions(pptx.ExtractOptions{IncludeNotes: true, IncludeTitles: true})
	})
	if !c.Check("C11/panic-office", pan == "", kase, func() string { return "pptx TextWithOptions panicked: " + pan }) || e1 != nil || e2 != nil {
		return
	}
	c.Op(fmt.Sprintf("c11.ptext %s %s%s", b01(exH), b01(exF), elemsField(fields)), hx.HexS(txt))
	// statement: a block outside the header / footer placeholders keeps its paragraphs; without such
	// placeholders nothing changes
	has := false
	for _, s := range slides {
		for _, b := range s.Blocks {
			if b.Ph == "ftr" || b.Ph == "dt" || b.Ph == "sldNum" || b.Ph == "hdr" {
				has = true
			}
		}
	}
	if !has || (!exH && !exF) {
		c.Check("C11/pptx-changed-without-placeholders", txt == plain, kase, func() string {
			return fmt.Sprintf("no header/footer placeholder on any slide (or no flag set), yet Text with exclusion %q differs from %q", txt, plain)
		})
	}
	for _, s := range slides {
		for _, b := range s.Blocks {
			if b.Title || b.Ph == "ftr" || b.Ph == "dt" || b.Ph == "sldNum" || b.Ph == "hdr" {
				continue
			}
			for _, p := range b.Paras {
				if strings.HasPrefix(p, "Point ") {
					c.Check("C11/pptx-body-paragraph-lost", strings.Contains(txt, p+"\n"), kase, func() string {
						return fmt.Sprintf("paragraph %q of a %q placeholder is missing from %q", p, b.Ph, txt)
					})
				}
			}
		}
	}
	c.Count("office:pptx-reader")
	c.Case(fmt.Sprintf("pptx%v%v%v", slides, exH, exF), exH || exF)
}

func officeCases(c *hx.Ctx) {
	// the witness of the blank line: header "ACME Report", the paragraph repeats it
	officeCase(c, oCase{ExH: true, Hs: []string{"ACME Report\nPage 3"}, Fs: []string{"Internal use only"},
		Elems: []oElem{{Para: true, Text: "Body-0 of the document"}, {Para: true, Text: " ACME Report "}, {Rows: [][]string{{"ACME Report", "Cell-1"}}},
			{Para: true, Text: "Internal use only"}, {Para: true, Text: "Page 3"}}}, true)
	n := c.N(300, 4000)
	for i := 0; i < n; i++ {
		r := c.Rng.Fork(uint64(12_000_000 + i))
		officeCase(c, genOCase(r), i%4 == 0)
	}
	m := c.N(150, 2000)
	for i := 0; i < m; i++ {
		r := c.Rng.Fork(uint64(13_000_000 + i))
		pptxCase(c, genSlides(r), r.Bool(), r.Bool())
	}
}
