package c11

import (
	"fmt"
	"os"
	"path/filepath"
	"sort"
	"strings"

	"github.com/tsawler/tabula"
	"github.com/tsawler/tabula/pptx"

	"verifharness/hx"
	"verifharness/writers"
)

// Written PPTX decks (mode "deck"): the statement on PresentationML files as a producer
// writes them, read by pptx.Open and by tabula.Open(f).Exclude…().Text() / ToMarkdown().
//
// The deck is authored here as a logical document (slides, shapes, placeholder attributes,
// paragraphs) and serialised by an independent writer (ECMA-376 part 1: 19.3.1 slide parts,
// 19.3.1.36 <p:ph> with its attributes type / idx / sz / orient / hasCustomPrompt, 21.1.2
// text bodies; OPC package with [Content_Types].xml, relationships, one layout part per
// slide, notes slides). What a shape is follows from the written document alone:
//
//   - a shape is a footer, date, slide-number or header placeholder iff its <p:ph> carries
//     type="ftr" / "dt" / "sldNum" / "hdr" (the property: "PPTX: placeholder type");
//   - <p:ph> without a type attribute is an object (content) placeholder whatever its idx,
//     sz, orient, shape name or position (the schema default of type is "obj"); text boxes
//     carry no <p:ph> at all. Their text is body text.
//
// Decks come in the flavours a producer writes: stock layouts (content idx 1..4, typed
// dt / ftr / sldNum with idx 10..12), custom layouts (the added content placeholders are
// numbered from idx 10 upwards and carry no type, the typed footers follow), decks without
// any footer placeholder, and free mixes in which every attribute is drawn independently of
// the type. Body shapes also carry the texts of the marginal shapes (the footer line in a
// text box, a bare number, a date, "Page 3"), lines repeating on every slide, and names and
// positions of footers.
//
// Oracles (expectations from the written deck and the request only; the unfiltered answer
// of the same call without flags is the reference the statement names):
//
//	C11/pptx-file-not-a-sublist              the lines with exclusion are a subsequence of the lines without
//	C11/pptx-file-body-shape-lost            per text T: lines(T) with exclusion >= lines(T) without - paragraphs T of marginal placeholders
//	C11/pptx-file-changed-without-marginal   no marginal placeholder on the requested slides (or no flag): identical answers
//	C11/pptx-file-marginal-placeholder-kept  flag set: the paragraphs of the placeholders of that kind are gone
//	C11/pptx-file-api-differs-from-reader    tabula.Open(f)…Text() == the reader's TextWithOptions with the same flags
//
// and the op c11.ptext on the slides as WRITTEN (placeholder = the written type attribute),
// answered by tabula.Open(f).Exclude…().Text().

type dPara struct {
	Text  string `json:"text"`
	Runs  int    `json:"runs,omitempty"`  // number of <a:r> the text is split into (0 = one)
	Field string `json:"field,omitempty"` // non-empty: the text is the value of one <a:fld type=…>
	PPr   int    `json:"ppr,omitempty"`   // 0 none, 1 algn, 2 marL/indent + buNone
	End   bool   `json:"end,omitempty"`   // <a:endParaRPr/>
}

type dShape struct {
	Ph     bool    `json:"ph"`             // has <p:ph>
	Type   string  `json:"type,omitempty"` // type attribute; "" = attribute omitted
	Idx    int     `json:"idx"`            // idx attribute; -1 = omitted
	Sz     string  `json:"sz,omitempty"`
	Orient string  `json:"orient,omitempty"`
	Prompt bool    `json:"prompt,omitempty"` // hasCustomPrompt="1"
	Name   string  `json:"name"`
	Y      int     `json:"y"`               // <a:off y=…> in EMU; -1 = no <a:xfrm>
	Group  int     `json:"group,omitempty"` // 0 = child of the shape tree, g > 0 = inside group g (text boxes only)
	NoBody bool    `json:"nobody,omitempty"`
	Paras  []dPara `json:"paras"`
}

type dSlide struct {
	File   int      `json:"file"` // part name ppt/slides/slide<File>.xml
	Shapes []dShape `json:"shapes"`
	Notes  []string `json:"notes,omitempty"`
}

type dDeck struct {
	Flavour string   `json:"flavour"`
	Slides  []dSlide `json:"slides"`
}

type deckCase struct {
	Deck   dDeck `json:"deck"`
	ExH    bool  `json:"exh"`
	ExF    bool  `json:"exf"`
	Titles bool  `json:"titles"` // reader call: IncludeTitles
	Notes  bool  `json:"notes"`  // reader call: IncludeNotes
	Subset []int `json:"subset"` // reader call: SlideNumbers (0-based, ascending; empty = all)
}

func marginalType(t string) bool { return t == "ftr" || t == "dt" || t == "sldNum" || t == "hdr" }

func (s dShape) marginal() bool { return s.Ph && marginalType(s.Type) }

// excluded: the request names this shape's kind.
func (s dShape) excluded(exH, exF bool) bool {
	if !s.Ph {
		return false
	}
	return exF && (s.Type == "ftr" || s.Type == "dt" || s.Type == "sldNum") || exH && s.Type == "hdr"
}

// ---- generator ----

var (
	deckFooters  = []string{"ACME Confidential", "Internal use only", "Quarterly figures 2024", "www.example.com", "Entwurf - nicht verteilen"}
	deckDates    = []string{"2024-01-01", "1 March 2024", "03/2024"}
	deckRepeats  = []string{"Agenda", "Key figures", "Next steps"}
	contentNames = []string{"Content Placeholder %d", "Text Placeholder %d", "Inhaltsplatzhalter %d", "Rectangle %d", "Footer Placeholder %d", "Slide Number Placeholder %d", "Date Placeholder %d"}
	footerNames  = map[string][]string{
		"ftr":    {"Footer Placeholder %d", "Fußzeilenplatzhalter %d", "Rectangle %d", "Content Placeholder %d"},
		"dt":     {"Date Placeholder %d", "Datumsplatzhalter %d", "Rectangle %d"},
		"sldNum": {"Slide Number Placeholder %d", "Foliennummernplatzhalter %d", "Rectangle %d"},
		"hdr":    {"Header Placeholder %d", "Rectangle %d"},
	}
	// ST_PlaceholderType values other than the four marginal ones and the titles
	otherTypes = []string{"body", "body", "obj", "subTitle", "pic", "chart", "tbl", "clipArt", "dgm", "media"}
	anyIdx     = []int{-1, 0, 1, 2, 3, 4, 10, 10, 11, 11, 12, 12, 13, 14, 15, 16, 17, 18, 19, 20, 21, 100, 4294967295}
	slideYs    = []int{-1, 188640, 274638, 1600200, 2924944, 6356350, 6492875}
)

func slideNumberText(style, n, total int) string {
	switch style {
	case 1:
		return fmt.Sprintf("Page %d", n)
	case 2:
		return fmt.Sprintf("%d / %d", n, total)
	case 3:
		return fmt.Sprintf("- %d -", n)
	}
	return fmt.Sprintf("%d", n)
}

func genParaForm(r *hx.Rng, text string) dPara {
	p := dPara{Text: text, PPr: hx.Pick(r, []int{0, 0, 0, 1, 2}), End: r.Chance(1, 3)}
	if n := strings.Count(text, " "); n > 0 && r.Chance(1, 3) {
		p.Runs = r.Range(2, 3)
	}
	return p
}

// bodyParas: 1-3 paragraphs of body text: unique tokens, lines repeating on every slide,
// and the texts a marginal placeholder would carry.
func bodyParas(r *hx.Rng, si, j, total int, footer, date string, numStyle int) []dPara {
	var ps []dPara
	for k := r.Range(1, 3); k > 0; k-- {
		var t string
		switch c := r.Intn(12); {
		case c < 6:
			t = fmt.Sprintf("Point %d.%d.%d of the talk", si+1, j, k)
		case c == 6:
			t = hx.Pick(r, deckRepeats)
		case c == 7:
			t = footer
		case c == 8:
			t = fmt.Sprintf("%d", hx.Pick(r, []int{si + 1, 2024, 7, 100}))
		case c == 9:
			t = slideNumberText(numStyle, si+1, total)
		case c == 10:
			t = date
		default:
			t = hx.Pick(r, []string{"R&D budget <draft>", "Überblick über die Zahlen", "", ""})
		}
		if t == "" {
			ps = append(ps, dPara{End: r.Bool()})
			continue
		}
		ps = append(ps, genParaForm(r, t))
	}
	return ps
}

func genDeck(r *hx.Rng) dDeck {
	d := dDeck{Flavour: hx.Pick(r, []string{"stock", "custom", "custom", "no-footers", "mixed", "mixed"})}
	n := r.Range(1, 5)
	footer, date, numStyle := hx.Pick(r, deckFooters), hx.Pick(r, deckDates), r.Intn(4)
	files := make([]int, n)
	for i := range files {
		files[i] = i + 1
	}
	if r.Chance(1, 3) {
		hx.Shuffle(r, files)
	}
	// custom layouts: the idx of the first added content placeholder, and whether the typed
	// footers come before (stock numbers 10..12 kept) or after the content placeholders
	customBase := hx.Pick(r, []int{10, 10, 10, 11, 12, 13})
	repeatTitle := r.Chance(1, 5)
	footersOn := map[string]bool{"dt": r.Chance(2, 3), "ftr": r.Chance(4, 5), "sldNum": r.Chance(4, 5)}
	firstSlideBare := r.Chance(1, 4) // title slide without footers
	for si := 0; si < n; si++ {
		s := dSlide{File: files[si]}
		id := 2
		name := func(pool []string) string { id++; return fmt.Sprintf(hx.Pick(r, pool), id-1) }
		// title
		if r.Chance(5, 6) {
			t := fmt.Sprintf("Quarter review part %d", si+1)
			if repeatTitle {
				t = "Quarter review"
			}
			ty := "title"
			if si == 0 && r.Bool() {
				ty = "ctrTitle"
			}
			s.Shapes = append(s.Shapes, dShape{Ph: true, Type: ty, Idx: -1, Name: name([]string{"Title %d", "Titel %d"}), Y: 274638,
				Paras: []dPara{genParaForm(r, t)}})
		}
		content := func(ph bool, ty string, idx int) dShape {
			sh := dShape{Ph: ph, Type: ty, Idx: idx, Name: name(contentNames[:3]), Y: 1600200,
				Paras: bodyParas(r, si, len(s.Shapes), n, footer, date, numStyle)}
			if !ph {
				sh.Name = name([]string{"TextBox %d", "Textfeld %d", "Footer Placeholder %d"})
			}
			return sh
		}
		marg := func(ty string, idx int) dShape {
			sh := dShape{Ph: true, Type: ty, Idx: idx, Sz: hx.Pick(r, []string{"quarter", "half", ""}), Name: name(footerNames[ty]), Y: 6356350}
			switch ty {
			case "ftr":
				sh.Paras = []dPara{genParaForm(r, footer)}
			case "dt":
				sh.Paras = []dPara{{Text: date, Field: hx.Pick(r, []string{"datetime1", "datetimeFigureOut", ""})}}
			case "sldNum":
				sh.Paras = []dPara{{Text: slideNumberText(numStyle, si+1, n), Field: hx.Pick(r, []string{"slidenum", "slidenum", ""})}}
			case "hdr":
				sh.Y = 188640
				sh.Paras = []dPara{genParaForm(r, "ACME Report")}
			}
			return sh
		}
		switch d.Flavour {
		case "stock":
			for k := r.Range(0, 2); k > 0; k-- {
				sh := content(true, hx.Pick(r, []string{"", "", "body"}), len(s.Shapes))
				if k == 2 {
					sh.Sz = "half"
				}
				s.Shapes = append(s.Shapes, sh)
			}
			if !(si == 0 && firstSlideBare) {
				for i, ty := range []string{"dt", "ftr", "sldNum"} {
					if footersOn[ty] {
						s.Shapes = append(s.Shapes, marg(ty, 10+i))
					}
				}
			}
		case "custom":
			idx := customBase
			for k := r.Range(1, 4); k > 0; k-- {
				sh := content(true, "", idx)
				sh.Sz = hx.Pick(r, []string{"", "half", "quarter"})
				sh.Prompt = r.Chance(1, 4)
				s.Shapes = append(s.Shapes, sh)
				idx++
			}
			if idx < 13 {
				idx = 13
			}
			if !(si == 0 && firstSlideBare) {
				for _, ty := range []string{"dt", "ftr", "sldNum"} {
					if footersOn[ty] {
						s.Shapes = append(s.Shapes, marg(ty, idx))
						idx++
					}
				}
			}
		case "no-footers":
			for k := r.Range(0, 3); k > 0; k-- {
				ph := r.Chance(2, 3)
				sh := content(ph, hx.Pick(r, []string{"", "", "body", "obj"}), hx.Pick(r, anyIdx))
				sh.Y = hx.Pick(r, slideYs)
				s.Shapes = append(s.Shapes, sh)
			}
		default: // every attribute on its own
			for k := r.Range(0, 5); k > 0; k-- {
				switch c := r.Intn(10); {
				case c < 3:
					ty := hx.Pick(r, []string{"ftr", "dt", "sldNum", "sldNum", "ftr", "hdr"})
					sh := marg(ty, hx.Pick(r, anyIdx))
					sh.Y = hx.Pick(r, slideYs)
					s.Shapes = append(s.Shapes, sh)
				case c < 6:
					sh := content(true, "", hx.Pick(r, anyIdx))
					sh.Sz, sh.Orient, sh.Prompt = hx.Pick(r, []string{"", "full", "half", "quarter"}), hx.Pick(r, []string{"", "", "vert", "horz"}), r.Chance(1, 5)
					sh.Name, sh.Y = name(contentNames), hx.Pick(r, slideYs)
					s.Shapes = append(s.Shapes, sh)
				case c < 8:
					sh := content(true, hx.Pick(r, otherTypes), hx.Pick(r, anyIdx))
					sh.Name, sh.Y = name(contentNames), hx.Pick(r, slideYs)
					sh.NoBody = (sh.Type == "pic" || sh.Type == "chart" || sh.Type == "media") && r.Bool()
					s.Shapes = append(s.Shapes, sh)
				default:
					sh := content(false, "", -1)
					sh.Y = hx.Pick(r, slideYs)
					if r.Chance(1, 3) {
						sh.Group = r.Range(1, 2)
					}
					s.Shapes = append(s.Shapes, sh)
				}
			}
			if r.Chance(1, 4) {
				hx.Shuffle(r, s.Shapes)
			}
		}
		if r.Chance(1, 4) {
			s.Notes = []string{fmt.Sprintf("Speaker note %d", si+1)}
			if r.Chance(1, 3) {
				s.Notes = append(s.Notes, "remember the figures")
			}
		}
		d.Slides = append(d.Slides, s)
	}
	return d
}

func genDeckCase(r *hx.Rng) deckCase {
	dc := deckCase{Deck: genDeck(r), Titles: r.Chance(3, 4), Notes: r.Bool()}
	switch r.Intn(8) {
	case 0:
		dc.ExH = true
	case 1:
	default:
		dc.ExF, dc.ExH = true, r.Bool()
	}
	if n := len(dc.Deck.Slides); n > 1 && r.Chance(1, 3) {
		for i := 0; i < n; i++ {
			if r.Bool() {
				dc.Subset = append(dc.Subset, i)
			}
		}
	}
	return dc
}

// ---- writer ----

const (
	pNS    = `xmlns:a="http://schemas.openxmlformats.org/drawingml/2006/main" xmlns:r="http://schemas.openxmlformats.org/officeDocument/2006/relationships" xmlns:p="http://schemas.openxmlformats.org/presentationml/2006/main"`
	relNS  = `xmlns="http://schemas.openxmlformats.org/package/2006/relationships"`
	relURI = "http://schemas.openxmlformats.org/officeDocument/2006/relationships/"
	pmlCT  = "application/vnd.openxmlformats-officedocument.presentationml."
)

func splitRuns(text string, n int) []string {
	if n < 2 {
		return []string{text}
	}
	var out []string
	rest := text
	for len(out) < n-1 {
		i := strings.Index(rest, " ")
		if i < 0 {
			break
		}
		// the blank travels with the run in front of it
		out = append(out, rest[:i+1])
		rest = rest[i+1:]
	}
	return append(out, rest)
}

func dParaXML(p dPara) string {
	var b strings.Builder
	b.WriteString(`<a:p>`)
	switch p.PPr {
	case 1:
		b.WriteString(`<a:pPr algn="ctr"/>`)
	case 2:
		b.WriteString(`<a:pPr marL="0" indent="0"><a:buNone/></a:pPr>`)
	}
	switch {
	case p.Text == "":
	case p.Field != "":
		b.WriteString(`<a:fld id="{B6F15528-21DE-4FAA-801E-634DDDAF4B2B}" type="` + p.Field + `"><a:rPr lang="en-US"/><a:t>` + writers.XMLEsc(p.Text) + `</a:t></a:fld>`)
	default:
		for i, run := range splitRuns(p.Text, p.Runs) {
			rpr := `<a:rPr lang="en-US"/>`
			if i == 1 {
				rpr = `<a:rPr lang="en-US" b="1"/>`
			}
			b.WriteString(`<a:r>` + rpr + `<a:t>` + writers.XMLEsc(run) + `</a:t></a:r>`)
		}
	}
	if p.End {
		b.WriteString(`<a:endParaRPr lang="en-US"/>`)
	}
	b.WriteString(`</a:p>`)
	return b.String()
}

func phXML(s dShape) string {
	if !s.Ph {
		return ""
	}
	var b strings.Builder
	b.WriteString(`<p:ph`)
	if s.Type != "" {
		b.WriteString(` type="` + s.Type + `"`)
	}
	if s.Orient != "" {
		b.WriteString(` orient="` + s.Orient + `"`)
	}
	if s.Sz != "" {
		b.WriteString(` sz="` + s.Sz + `"`)
	}
	if s.Idx >= 0 {
		fmt.Fprintf(&b, ` idx="%d"`, s.Idx)
	}
	if s.Prompt {
		b.WriteString(` hasCustomPrompt="1"`)
	}
	b.WriteString(`/>`)
	return b.String()
}

// dShapeXML: one <p:sp>; prompt = the text body is replaced by the layout's prompt text.
func dShapeXML(s dShape, id int, prompt string) string {
	var b strings.Builder
	fmt.Fprintf(&b, `<p:sp><p:nvSpPr><p:cNvPr id="%d" name="%s"/>`, id, writers.XMLEsc(s.Name))
	if s.Ph {
		b.WriteString(`<p:cNvSpPr><a:spLocks noGrp="1"/></p:cNvSpPr>`)
	} else {
		b.WriteString(`<p:cNvSpPr txBox="1"/>`)
	}
	b.WriteString(`<p:nvPr>` + phXML(s) + `</p:nvPr></p:nvSpPr>`)
	if s.Y >= 0 {
		fmt.Fprintf(&b, `<p:spPr><a:xfrm><a:off x="457200" y="%d"/><a:ext cx="8229600" cy="365125"/></a:xfrm></p:spPr>`, s.Y)
	} else {
		b.WriteString(`<p:spPr/>`)
	}
	if !s.NoBody {
		b.WriteString(`<p:txBody><a:bodyPr/><a:lstStyle/>`)
		if prompt != "" {
			b.WriteString(`<a:p><a:r><a:rPr lang="en-US"/><a:t>` + prompt + `</a:t></a:r></a:p>`)
		} else {
			for _, p := range s.Paras {
				b.WriteString(dParaXML(p))
			}
			if len(s.Paras) == 0 {
				b.WriteString(`<a:p/>`)
			}
		}
		b.WriteString(`</p:txBody>`)
	}
	b.WriteString(`</p:sp>`)
	return b.String()
}

const grpHead = `<p:nvGrpSpPr><p:cNvPr id="%d" name="%s"/><p:cNvGrpSpPr/><p:nvPr/></p:nvGrpSpPr><p:grpSpPr/>`

// spTreeXML: the shapes in document order; the members of group g where its first member stands.
func spTreeXML(shapes []dShape, layout bool) string {
	var b strings.Builder
	b.WriteString(`<p:cSld><p:spTree>` + fmt.Sprintf(grpHead, 1, ""))
	done := map[int]bool{}
	for i, s := range shapes {
		one := func(k int, s dShape) string {
			if layout {
				return dShapeXML(s, k+2, "Click to edit")
			}
			return dShapeXML(s, k+2, "")
		}
		if layout && !s.Ph {
			continue
		}
		if s.Group == 0 || layout {
			b.WriteString(one(i, s))
			continue
		}
		if done[s.Group] {
			continue
		}
		done[s.Group] = true
		b.WriteString(`<p:grpSp>` + fmt.Sprintf(grpHead, 100+s.Group, fmt.Sprintf("Group %d", s.Group)))
		for k, t := range shapes {
			if t.Group == s.Group {
				b.WriteString(one(k, t))
			}
		}
		b.WriteString(`</p:grpSp>`)
	}
	b.WriteString(`</p:spTree></p:cSld>`)
	return b.String()
}

func deckFile(d dDeck) []byte {
	ct := oxmlDecl + `<Types xmlns="http://schemas.openxmlformats.org/package/2006/content-types">` +
		`<Default Extension="rels" ContentType="application/vnd.openxmlformats-package.relationships+xml"/>` +
		`<Default Extension="xml" ContentType="application/xml"/>` +
		`<Override PartName="/ppt/presentation.xml" ContentType="` + pmlCT + `presentation.main+xml"/>` +
		`<Override PartName="/ppt/slideMasters/slideMaster1.xml" ContentType="` + pmlCT + `slideMaster+xml"/>`
	var prels, ids strings.Builder
	prels.WriteString(oxmlDecl + `<Relationships ` + relNS + `><Relationship Id="rId1" Type="` + relURI + `slideMaster" Target="slideMasters/slideMaster1.xml"/>`)
	var members []writers.Member
	var mrels, layoutIds strings.Builder
	mrels.WriteString(oxmlDecl + `<Relationships ` + relNS + `>`)
	for i, s := range d.Slides {
		ct += fmt.Sprintf(`<Override PartName="/ppt/slides/slide%d.xml" ContentType="%sslide+xml"/>`, s.File, pmlCT)
		ct += fmt.Sprintf(`<Override PartName="/ppt/slideLayouts/slideLayout%d.xml" ContentType="%sslideLayout+xml"/>`, s.File, pmlCT)
		fmt.Fprintf(&prels, `<Relationship Id="rId%d" Type="%sslide" Target="slides/slide%d.xml"/>`, i+2, relURI, s.File)
		fmt.Fprintf(&ids, `<p:sldId id="%d" r:id="rId%d"/>`, 256+i, i+2)
		fmt.Fprintf(&mrels, `<Relationship Id="rId%d" Type="%sslideLayout" Target="../slideLayouts/slideLayout%d.xml"/>`, i+1, relURI, s.File)
		fmt.Fprintf(&layoutIds, `<p:sldLayoutId id="%d" r:id="rId%d"/>`, 2147483649+i, i+1)
		srels := oxmlDecl + `<Relationships ` + relNS + `>` +
			fmt.Sprintf(`<Relationship Id="rId1" Type="%sslideLayout" Target="../slideLayouts/slideLayout%d.xml"/>`, relURI, s.File)
		if len(s.Notes) > 0 {
			ct += fmt.Sprintf(`<Override PartName="/ppt/notesSlides/notesSlide%d.xml" ContentType="%snotesSlide+xml"/>`, s.File, pmlCT)
			srels += fmt.Sprintf(`<Relationship Id="rId2" Type="%snotesSlide" Target="../notesSlides/notesSlide%d.xml"/>`, relURI, s.File)
			var nb strings.Builder
			nb.WriteString(oxmlDecl + `<p:notes ` + pNS + `><p:cSld><p:spTree>` + fmt.Sprintf(grpHead, 1, ""))
			nb.WriteString(dShapeXML(dShape{Ph: true, Type: "sldImg", Idx: -1, Name: "Slide Image Placeholder 1", Y: -1, NoBody: true}, 2, ""))
			body := dShape{Ph: true, Type: "body", Idx: 1, Name: "Notes Placeholder 2", Y: -1}
			for _, l := range s.Notes {
				body.Paras = append(body.Paras, dPara{Text: l})
			}
			nb.WriteString(dShapeXML(body, 3, ""))
			nb.WriteString(`</p:spTree></p:cSld></p:notes>`)
			members = append(members,
				writers.Member{Name: fmt.Sprintf("ppt/notesSlides/notesSlide%d.xml", s.File), Data: []byte(nb.String())},
				writers.Member{Name: fmt.Sprintf("ppt/notesSlides/_rels/notesSlide%d.xml.rels", s.File), Data: []byte(oxmlDecl + `<Relationships ` + relNS + `>` +
					fmt.Sprintf(`<Relationship Id="rId1" Type="%sslide" Target="../slides/slide%d.xml"/>`, relURI, s.File) + `</Relationships>`)})
		}
		srels += `</Relationships>`
		members = append(members,
			writers.Member{Name: fmt.Sprintf("ppt/slides/slide%d.xml", s.File), Data: []byte(oxmlDecl + `<p:sld ` + pNS + `>` + spTreeXML(s.Shapes, false) +
				`<p:clrMapOvr><a:masterClrMapping/></p:clrMapOvr></p:sld>`)},
			writers.Member{Name: fmt.Sprintf("ppt/slides/_rels/slide%d.xml.rels", s.File), Data: []byte(srels)},
			// the layout of this slide: the same placeholders (type, idx, sz) with prompt texts
			writers.Member{Name: fmt.Sprintf("ppt/slideLayouts/slideLayout%d.xml", s.File), Data: []byte(oxmlDecl + `<p:sldLayout ` + pNS + ` preserve="1" userDrawn="1">` +
				spTreeXML(s.Shapes, true) + `<p:clrMapOvr><a:masterClrMapping/></p:clrMapOvr></p:sldLayout>`)},
			writers.Member{Name: fmt.Sprintf("ppt/slideLayouts/_rels/slideLayout%d.xml.rels", s.File), Data: []byte(oxmlDecl + `<Relationships ` + relNS + `>` +
				`<Relationship Id="rId1" Type="` + relURI + `slideMaster" Target="../slideMasters/slideMaster1.xml"/></Relationships>`)})
	}
	prels.WriteString(`</Relationships>`)
	mrels.WriteString(`</Relationships>`)
	ct += `</Types>`
	master := oxmlDecl + `<p:sldMaster ` + pNS + `>` + spTreeXML([]dShape{
		{Ph: true, Type: "title", Idx: -1, Name: "Title Placeholder 1", Y: 274638},
		{Ph: true, Type: "body", Idx: 1, Name: "Text Placeholder 2", Y: 1600200},
		{Ph: true, Type: "dt", Idx: 2, Sz: "half", Name: "Date Placeholder 3", Y: 6356350},
		{Ph: true, Type: "ftr", Idx: 3, Sz: "quarter", Name: "Footer Placeholder 4", Y: 6356350},
		{Ph: true, Type: "sldNum", Idx: 4, Sz: "quarter", Name: "Slide Number Placeholder 5", Y: 6356350},
	}, true) + `<p:clrMap bg1="lt1" tx1="dk1" bg2="lt2" tx2="dk2" accent1="accent1" accent2="accent2" accent3="accent3" accent4="accent4" accent5="accent5" accent6="accent6" hlink="hlink" folHlink="folHlink"/>` +
		`<p:sldLayoutIdLst>` + layoutIds.String() + `</p:sldLayoutIdLst></p:sldMaster>`
	all := []writers.Member{
		{Name: "[Content_Types].xml", Data: []byte(ct)},
		{Name: "_rels/.rels", Data: []byte(oxmlDecl + `<Relationships ` + relNS + `><Relationship Id="rId1" Type="` + relURI + `officeDocument" Target="ppt/presentation.xml"/></Relationships>`)},
		{Name: "ppt/presentation.xml", Data: []byte(oxmlDecl + `<p:presentation ` + pNS + `><p:sldMasterIdLst><p:sldMasterId id="2147483648" r:id="rId1"/></p:sldMasterIdLst>` +
			`<p:sldIdLst>` + ids.String() + `</p:sldIdLst><p:sldSz cx="9144000" cy="6858000"/><p:notesSz cx="6858000" cy="9144000"/></p:presentation>`)},
		{Name: "ppt/_rels/presentation.xml.rels", Data: []byte(prels.String())},
		{Name: "ppt/slideMasters/slideMaster1.xml", Data: []byte(master)},
		{Name: "ppt/slideMasters/_rels/slideMaster1.xml.rels", Data: []byte(mrels.String())},
	}
	return writers.Zip(append(all, members...))
}

// ---- expectations from the written deck ----

// requested: the slides of the request in order.
func (dc deckCase) requested(subset []int) []dSlide {
	if len(subset) == 0 {
		return dc.Deck.Slides
	}
	var out []dSlide
	for _, k := range subset {
		if k >= 0 && k < len(dc.Deck.Slides) {
			out = append(out, dc.Deck.Slides[k])
		}
	}
	return out
}

// nonBlankLines: the trimmed non-blank lines; a Markdown heading counts as its text (no
// generated text starts with '#').
func nonBlankLines(s string) []string {
	var out []string
	for _, l := range strings.Split(s, "\n") {
		if l = strings.TrimSpace(l); l != "" {
			if h := strings.TrimLeft(l, "#"); h != l && strings.HasPrefix(h, " ") {
				l = strings.TrimSpace(h)
			}
			out = append(out, l)
		}
	}
	return out
}

func isSubsequence(sub, full []string) bool {
	j := 0
	for _, l := range full {
		if j < len(sub) && sub[j] == l {
			j++
		}
	}
	return j == len(sub)
}

// deckOracle: the statement on one pair of answers (with / without the flags) of one call.
func deckOracle(c *hx.Ctx, kase interface{}, what string, dc deckCase, subset []int, with, without string) {
	slides := dc.requested(subset)
	fl, ul := nonBlankLines(with), nonBlankLines(without)
	c.Check("C11/pptx-file-not-a-sublist", isSubsequence(fl, ul), kase, func() string {
		return fmt.Sprintf("%s: with ExcludeHeaders=%v ExcludeFooters=%v the lines %q are not the lines without exclusion %q minus some of them, in order", what, dc.ExH, dc.ExF, fl, ul)
	})
	fc, uc := map[string]int{}, map[string]int{}
	for _, l := range fl {
		fc[l]++
	}
	for _, l := range ul {
		uc[l]++
	}
	// paragraphs per text: all, those of marginal placeholders, those of placeholders the request names
	all, marg, excl := map[string]int{}, map[string]int{}, map[string]int{}
	desc := map[string]string{}
	anyMarginal := false
	for si, s := range slides {
		for _, sh := range s.Shapes {
			if sh.NoBody {
				continue
			}
			if sh.marginal() {
				anyMarginal = true
			}
			for _, p := range sh.Paras {
				if p.Text == "" {
					continue
				}
				all[p.Text]++
				if sh.marginal() {
					marg[p.Text]++
				} else if desc[p.Text] == "" {
					desc[p.Text] = fmt.Sprintf("requested slide %d, shape %q with %s", si+1, sh.Name, phDesc(sh))
				}
				if sh.excluded(dc.ExH, dc.ExF) {
					excl[p.Text]++
				}
			}
		}
	}
	for _, t := range hx.SortedKeys(all) {
		t := t
		if uc[t] == 0 {
			c.Count("deck:text-not-a-line-of-the-unfiltered-answer")
			continue
		}
		c.Check("C11/pptx-file-body-shape-lost", fc[t] >= uc[t]-marg[t], kase, func() string {
			return fmt.Sprintf("%s: %q is a line %d time(s) without exclusion and %d time(s) with ExcludeHeaders=%v ExcludeFooters=%v, but only %d paragraph(s) with that text stand in a footer/date/slide-number/header placeholder (type ftr, dt, sldNum, hdr); body text is in %s; without %q, with %q",
				what, t, uc[t], fc[t], dc.ExH, dc.ExF, marg[t], desc[t], without, with)
		})
		if excl[t] > 0 && uc[t] >= excl[t] {
			c.Check("C11/pptx-file-marginal-placeholder-kept", fc[t] <= uc[t]-excl[t], kase, func() string {
				return fmt.Sprintf("%s: %d paragraph(s) %q stand in placeholders of the excluded kind (ExcludeHeaders=%v: hdr; ExcludeFooters=%v: ftr, dt, sldNum) but the line is there %d time(s) with and %d time(s) without exclusion; with %q",
					what, excl[t], t, dc.ExH, dc.ExF, fc[t], uc[t], with)
			})
		}
	}
	if !anyMarginal || (!dc.ExH && !dc.ExF) {
		c.Check("C11/pptx-file-changed-without-marginal", with == without, kase, func() string {
			return fmt.Sprintf("%s: no footer/date/slide-number/header placeholder on the requested slides (or no flag set: ExcludeHeaders=%v ExcludeFooters=%v), yet the answer %q differs from the one without exclusion %q",
				what, dc.ExH, dc.ExF, with, without)
		})
	}
}

func phDesc(s dShape) string {
	if !s.Ph {
		return "no <p:ph> (text box)"
	}
	return phXML(s)
}

// ptextFields: the slides as written, in the form of c11.ptext (the reader's own order of
// blocks: children of the shape tree first, then the groups; a shape without non-empty
// paragraph is no block; the title is the first title placeholder among the children).
func ptextFields(slides []dSlide) []string {
	var fields []string
	for _, s := range slides {
		title := ""
		var bf []string
		block := func(sh dShape, top bool) {
			if sh.NoBody {
				return
			}
			var pf, pt []string
			for _, p := range sh.Paras {
				if p.Text != "" {
					pf = append(pf, hx.HexS(p.Text))
					pt = append(pt, p.Text)
				}
			}
			if len(pf) == 0 {
				return
			}
			isTitle := sh.Ph && (sh.Type == "title" || sh.Type == "ctrTitle")
			if isTitle && top && title == "" {
				title = strings.Join(pt, "\n")
			}
			ph := ""
			if sh.Ph {
				ph = sh.Type
			}
			bf = append(bf, b01(isTitle)+"|"+hx.HexS(ph)+"|"+strings.Join(pf, ","))
		}
		var groups []int
		for _, sh := range s.Shapes {
			if sh.Group == 0 {
				block(sh, true)
			} else if !containsInt(groups, sh.Group) {
				groups = append(groups, sh.Group)
			}
		}
		for _, g := range groups {
			for _, sh := range s.Shapes {
				if sh.Group == g {
					block(sh, false)
				}
			}
		}
		blocks := "~"
		if len(bf) > 0 {
			blocks = strings.Join(bf, ";")
		}
		fields = append(fields, hx.HexS(title)+"/"+hx.HexS(strings.Join(s.Notes, "\n"))+"/"+blocks)
	}
	return fields
}

func containsInt(xs []int, x int) bool {
	for _, y := range xs {
		if y == x {
			return true
		}
	}
	return false
}

// ---- one case ----

func deckRun(c *hx.Ctx, dc deckCase) {
	kase := map[string]interface{}{"mode": "deck", "deck": dc}
	sort.Ints(dc.Subset)
	dir := filepath.Join(c.OutDir, "pdf")
	os.MkdirAll(dir, 0o755)
	fn := filepath.Join(dir, "case.pptx")
	if err := os.WriteFile(fn, deckFile(dc.Deck), 0o644); err != nil {
		c.Note("cannot write %s: %v", fn, err)
		return
	}
	var rdWith, rdWithout, mdWith, mdWithout, rdAPI string
	var apiWith, apiWithout, apiMdWith, apiMdWithout string
	var e0 error
	errs := make([]error, 9)
	nSlides := -1
	pan := hx.Safe(func() {
		var rd *pptx.Reader
		rd, e0 = pptx.Open(fn)
		if e0 != nil {
			return
		}
		defer rd.Close()
		nSlides = rd.SlideCount()
		on := pptx.ExtractOptions{IncludeTitles: dc.Titles, IncludeNotes: dc.Notes, SlideNumbers: dc.Subset, ExcludeHeaders: dc.ExH, ExcludeFooters: dc.ExF}
		off := pptx.ExtractOptions{IncludeTitles: dc.Titles, IncludeNotes: dc.Notes, SlideNumbers: dc.Subset}
		rdWith, errs[0] = rd.TextWithOptions(on)
		rdWithout, errs[1] = rd.TextWithOptions(off)
		mdWith, errs[2] = rd.MarkdownWithOptions(on)
		mdWithout, errs[3] = rd.MarkdownWithOptions(off)
		rdAPI, errs[4] = rd.TextWithOptions(pptx.ExtractOptions{IncludeTitles: true, IncludeNotes: true, ExcludeHeaders: dc.ExH, ExcludeFooters: dc.ExF})
		excl := func(e *tabula.Extractor) *tabula.Extractor {
			switch {
			case dc.ExH && dc.ExF:
				return e.ExcludeHeadersAndFooters()
			case dc.ExH:
				return e.ExcludeHeaders()
			case dc.ExF:
				return e.ExcludeFooters()
			}
			return e
		}
		apiWith, _, errs[5] = excl(tabula.Open(fn)).Text()
		apiWithout, _, errs[6] = tabula.Open(fn).Text()
		apiMdWith, _, errs[7] = excl(tabula.Open(fn)).ToMarkdown()
		apiMdWithout, _, errs[8] = tabula.Open(fn).ToMarkdown()
	})
	if !c.Check("C11/panic-office", pan == "", kase, func() string { return "pptx.Open / Text / Markdown on a written deck panicked: " + pan }) {
		return
	}
	flagged := dc.ExH || dc.ExF
	if e0 != nil {
		c.Count("deck:open-error")
		c.Case(fmt.Sprintf("deck%v", dc), false)
		return
	}
	for _, e := range errs {
		if e != nil {
			c.Count("deck:call-error")
			c.Case(fmt.Sprintf("deck%v", dc), false)
			return
		}
	}
	if nSlides != len(dc.Deck.Slides) {
		c.Count("deck:slide-count-differs-from-written(skipped)")
		c.Case(fmt.Sprintf("deck%v", dc), false)
		return
	}
	c.Op(fmt.Sprintf("c11.ptext %s %s%s", b01(dc.ExH), b01(dc.ExF), elemsField(ptextFields(dc.Deck.Slides))), hx.HexS(apiWith))
	deckOracle(c, kase, "pptx.Open(f).TextWithOptions", dc, dc.Subset, rdWith, rdWithout)
	deckOracle(c, kase, "pptx.Open(f).MarkdownWithOptions", dc, dc.Subset, mdWith, mdWithout)
	deckOracle(c, kase, "tabula.Open(f).Text()", dc, nil, apiWith, apiWithout)
	deckOracle(c, kase, "tabula.Open(f).ToMarkdown()", dc, nil, apiMdWith, apiMdWithout)
	c.Check("C11/pptx-file-api-differs-from-reader", apiWith == rdAPI, kase, func() string {
		return fmt.Sprintf("tabula.Open(pptx) with ExcludeHeaders=%v ExcludeFooters=%v gives Text() %q, the PPTX reader with the same two flags (titles and notes included) %q", dc.ExH, dc.ExF, apiWith, rdAPI)
	})
	c.Count("deck:" + dc.Deck.Flavour)
	typeless := false
	for _, s := range dc.Deck.Slides {
		for _, sh := range s.Shapes {
			if sh.Ph && sh.Type == "" && sh.Idx >= 10 && sh.Idx <= 20 {
				typeless = true
			}
		}
	}
	if typeless && dc.ExF {
		c.Count("deck:typeless-content-placeholder-idx-10-20-with-ExcludeFooters")
	}
	if flagged {
		c.Count("office:with-exclusion")
	}
	c.Case(fmt.Sprintf("deck%v", dc), flagged && apiWith != apiWithout)
}

func deckCases(c *hx.Ctx) {
	// a deck on a custom two-column layout: content placeholders idx 10 and 11 without type,
	// typed footer and slide number behind them
	w := dDeck{Flavour: "custom"}
	for i := 0; i < 2; i++ {
		w.Slides = append(w.Slides, dSlide{File: i + 1, Shapes: []dShape{
			{Ph: true, Type: "title", Idx: -1, Name: "Title 1", Y: 274638, Paras: []dPara{{Text: fmt.Sprintf("Quarter %d", i+1)}}},
			{Ph: true, Idx: 10, Sz: "half", Name: "Content Placeholder 2", Y: 1600200, Paras: []dPara{{Text: fmt.Sprintf("Left column %d", i+1)}}},
			{Ph: true, Idx: 11, Sz: "half", Name: "Content Placeholder 3", Y: 1600200, Paras: []dPara{{Text: fmt.Sprintf("Right column %d", i+1)}}},
			{Ph: true, Idx: 12, Name: "Content Placeholder 4", Y: 2924944, Paras: []dPara{{Text: "ACME Confidential"}, {Text: fmt.Sprintf("%d", i+1)}}},
			{Ph: true, Type: "ftr", Idx: 13, Sz: "quarter", Name: "Footer Placeholder 5", Y: 6356350, Paras: []dPara{{Text: "ACME Confidential"}}},
			{Ph: true, Type: "sldNum", Idx: 14, Sz: "quarter", Name: "Slide Number Placeholder 6", Y: 6356350, Paras: []dPara{{Text: fmt.Sprintf("%d", i+1), Field: "slidenum"}}},
		}})
	}
	deckRun(c, deckCase{Deck: w, ExF: true, Titles: true, Notes: true})
	n := c.N(250, 4000)
	for i := 0; i < n; i++ {
		r := c.Rng.Fork(uint64(14_000_000 + i))
		deckRun(c, genDeckCase(r))
	}
}
