package c11

import (
	"encoding/json"
	"fmt"
	"os"
	"path/filepath"
	"sort"
	"strconv"
	"strings"

	"github.com/tsawler/tabula"
	"github.com/tsawler/tabula/layout"
	"github.com/tsawler/tabula/reader"
	"github.com/tsawler/tabula/text"

	"verifharness/hx"
)

// Extractor histories: several requests on ONE source.
//
// The statement defines the result of exclusion by the document and the request
// alone (which pages, exclusion asked for or not): "the result is the
// unfiltered result minus some fragments", "a line repeated at the same
// marginal position on every page, and running page numbers, are removed from
// every page", "all page subsets requested together with exclusion". A caller
// who wants both sides of that sentence derives them from one tabula.Open value:
//
//	e0 := tabula.Open(pdf)            // or tabula.FromReader(r)
//	plain, _, _ := e0.Text()          // the unfiltered reference
//	e1 := e0.ExcludeHeadersAndFooters()
//	clean, _, _ := e1.Text()
//	e2 := e0.Pages(2).ExcludeHeaders().ExcludeFooters()
//	lines, _ := e2.Lines()
//
// so the statement has to hold for every request whatever ran before it on the
// same source. A history case owns one source extractor e0 and a script of
// steps; a step picks an extractor variable made so far (e0 or a derived one),
// optionally derives a new variable from it (Pages / PageRange, Exclude…, in
// either order; both are cumulative as documented) and runs one terminal
// operation on it:
//
//	judged     lines (Lines), text (Text), paras (Paragraphs), blocks (Blocks)
//	unjudged   frags, count, charlevel, multicol, analyze, document, ro, headings, lists, markdown
//	           (they only make history; a panic is still a failure)
//
// What a judged step must return is computed from the document the harness
// wrote and from the variable's request (pages P, exclusion asked for or not)
// only - never from an earlier answer of tabula:
//
//	no exclusion asked for: exactly the written fragments of P           C11/unfiltered-result-differs
//	exclusion asked for:    nothing beyond what was written on P          C11/not-sublist
//	                        every fragment outside both bands of its page C11/removed-body-band
//	                        every marginal fragment (word-level page) that neither repeats at its
//	                        position on another page nor is a page number C11/removed-unrepeated
//	                        a document without repetition comes back whole C11/no-repetition-changed
//	                        no copy of a line sitting at one marginal position on EVERY page of the
//	                        document (ideal case of liveness) on any page of P
//	                                                                      C11/repeated-header-kept, C11/page-number-kept
//	                        and, as for subsets and the whole document, exactly what filtering P with the
//	                        regions detected on all pages keeps           C11/subset-detection-after-history
//
// Results come back without page boundaries, so everything is counted per key:
// (text, x, y) of a fragment, the trimmed text of a line for Text(), single
// glyphs for Text() when a requested page is set glyph by glyph.

type histStep struct {
	Parent    int    `json:"parent"`              // extractor variable the step starts from (0 = the source)
	Pages     []int  `json:"pages,omitempty"`     // 0-based pages added by Pages(...) / PageRange(a, b)
	Range     bool   `json:"range,omitempty"`     // contiguous Pages asked for as PageRange
	Excl      string `json:"excl,omitempty"`      // "", h, f, hf (ExcludeHeadersAndFooters), h+f, f+h (two calls)
	ExclFirst bool   `json:"exclFirst,omitempty"` // Exclude… before Pages(...)
	Term      string `json:"term"`
}

type histCase struct {
	Source string     `json:"source"` // "open": tabula.Open(file); "reader": tabula.FromReader(reader.Open(file))
	Steps  []histStep `json:"steps"`
}

var judgedTerms = []string{"lines", "text", "paras", "blocks"}
var touchTerms = []string{"frags", "count", "charlevel", "multicol", "analyze", "document", "ro", "headings", "lists", "markdown"}

func isJudged(t string) bool {
	for _, j := range judgedTerms {
		if j == t {
			return true
		}
	}
	return false
}

// hvar is what the caller knows about one extractor variable: how it was derived.
type hvar struct {
	ext      *tabula.Extractor
	pages    []int // cumulative, 0-based, as requested (empty = every page)
	exH, exF bool
	name     string
}

func (v hvar) requested(n int) []int {
	if len(v.pages) == 0 {
		out := make([]int, n)
		for i := range out {
			out[i] = i
		}
		return out
	}
	seen := map[int]bool{}
	var out []int
	for _, k := range v.pages {
		if !seen[k] {
			seen[k] = true
			out = append(out, k)
		}
	}
	sort.Ints(out)
	return out
}

// derive applies the configuration calls of st to parent; expr is the Go expression.
func derive(parent hvar, st histStep, id int) (hvar, string) {
	v := hvar{ext: parent.ext, pages: append([]int(nil), parent.pages...), exH: parent.exH, exF: parent.exF, name: "e" + strconv.Itoa(id)}
	expr := parent.name
	doPages := func() {
		if len(st.Pages) == 0 {
			return
		}
		if st.Range && contiguous(st.Pages) {
			a, b := st.Pages[0]+1, st.Pages[len(st.Pages)-1]+1
			v.ext = v.ext.PageRange(a, b)
			expr += fmt.Sprintf(".PageRange(%d, %d)", a, b)
		} else {
			nums := make([]int, len(st.Pages))
			parts := make([]string, len(st.Pages))
			for i, k := range st.Pages {
				nums[i] = k + 1
				parts[i] = strconv.Itoa(k + 1)
			}
			v.ext = v.ext.Pages(nums...)
			expr += ".Pages(" + strings.Join(parts, ", ") + ")"
		}
		v.pages = append(v.pages, st.Pages...)
	}
	doExcl := func() {
		for _, part := range strings.Split(st.Excl, "+") {
			switch part {
			case "h":
				v.ext, v.exH = v.ext.ExcludeHeaders(), true
				expr += ".ExcludeHeaders()"
			case "f":
				v.ext, v.exF = v.ext.ExcludeFooters(), true
				expr += ".ExcludeFooters()"
			case "hf":
				v.ext, v.exH, v.exF = v.ext.ExcludeHeadersAndFooters(), true, true
				expr += ".ExcludeHeadersAndFooters()"
			}
		}
	}
	if st.ExclFirst {
		doExcl()
		doPages()
	} else {
		doPages()
		doExcl()
	}
	return v, expr
}

func termExpr(t string) string {
	switch t {
	case "lines":
		return "Lines()"
	case "text":
		return "Text()"
	case "paras":
		return "Paragraphs()"
	case "blocks":
		return "Blocks()"
	case "frags":
		return "Fragments()"
	case "count":
		return "PageCount()"
	case "charlevel":
		return "IsCharacterLevel()"
	case "multicol":
		return "IsMultiColumn()"
	case "analyze":
		return "Analyze()"
	case "document":
		return "Document()"
	case "ro":
		return "ReadingOrder()"
	case "headings":
		return "Headings()"
	case "lists":
		return "Lists()"
	case "markdown":
		return "ToMarkdown()"
	}
	return t + "()"
}

// runTerm runs one terminal operation. frs are the fragments the result is made of
// (judged fragment-level operations), txt the text (Text()).
func runTerm(e *tabula.Extractor, term string) (frs []text.TextFragment, txt string, err error, pan string) {
	pan = hx.Safe(func() {
		switch term {
		case "lines":
			var ls []layout.Line
			ls, err = e.Lines()
			for _, l := range ls {
				frs = append(frs, l.Fragments...)
			}
		case "text":
			txt, _, err = e.Text()
		case "paras":
			var ps []layout.Paragraph
			ps, err = e.Paragraphs()
			for _, p := range ps {
				for _, l := range p.Lines {
					frs = append(frs, l.Fragments...)
				}
			}
		case "blocks":
			var bs []layout.Block
			bs, err = e.Blocks()
			for _, b := range bs {
				frs = append(frs, b.Fragments...)
			}
		case "frags":
			frs, _, err = e.Fragments()
		case "count":
			_, err = e.PageCount()
		case "charlevel":
			_, err = e.IsCharacterLevel()
		case "multicol":
			_, err = e.IsMultiColumn()
		case "analyze":
			_, err = e.Analyze()
		case "document":
			_, _, err = e.Document()
		case "ro":
			_, err = e.ReadingOrder()
		case "headings":
			_, err = e.Headings()
		case "lists":
			_, err = e.Lists()
		case "markdown":
			_, _, err = e.ToMarkdown()
		}
	})
	return
}

// ---- keys ----------------------------------------------------------------------------------

const (
	keyFrag  = iota // (text, x, y) of a fragment
	keyLine         // trimmed text (Text(), one fragment per line)
	keyGlyph        // single non-blank characters (Text() over glyph-by-glyph pages)
)

func fragKeys(mode int, t string, x, y float64) []string {
	switch mode {
	case keyLine:
		if s := strings.TrimSpace(t); s != "" {
			return []string{s}
		}
		return nil
	case keyGlyph:
		return sortedGlyphs(t)
	}
	return []string{fragKey(t, x, y)}
}

func resultKeys(mode int, frs []text.TextFragment, txt string, isText bool) []string {
	var out []string
	if isText {
		if mode == keyGlyph {
			return sortedGlyphs(txt)
		}
		return textLines(txt)
	}
	for _, f := range frs {
		out = append(out, fragKeys(mode, f.Text, f.X, f.Y)...)
	}
	sort.Strings(out)
	return out
}

func countKeys(ks []string) map[string]int {
	m := map[string]int{}
	for _, k := range ks {
		m[k]++
	}
	return m
}

// ---- the statement on one request --------------------------------------------------------------

type histDoc struct {
	d          Doc
	views      []pageView
	accidental bool // some word-level page consists of fragments of <= 2 characters on average
	repetition bool // some marginal text occurs on two pages
	chains     []idealChain
	raw        []layout.PageFragments
	allKept    [][]int
	allSub     []bool
}

func newHistDoc(d Doc, raw []layout.PageFragments) *histDoc {
	h := &histDoc{d: d, raw: raw, views: make([]pageView, len(d.Pages))}
	for i, p := range d.Pages {
		h.views[i] = viewOf(p)
		if h.views[i].charLevel && len(p.Lines) == 0 {
			h.accidental = true
		}
	}
	for pi, v := range h.views {
		for _, u := range v.units {
			if u.top && repeats(h.views, pi, u, true, 1<<30, 1<<30) || u.bot && repeats(h.views, pi, u, false, 1<<30, 1<<30) {
				h.repetition = true
			}
		}
	}
	if len(d.Pages) >= 2 && !h.accidental {
		h.chains = append(h.chains, idealChains(h.views, true)...)
		h.chains = append(h.chains, idealChains(h.views, false)...)
	}
	_, h.allKept, h.allSub, _ = runLayout(raw)
	return h
}

func onePage(ps []int) string {
	parts := make([]string, len(ps))
	for i, k := range ps {
		parts[i] = strconv.Itoa(k + 1)
	}
	return "[" + strings.Join(parts, " ") + "]"
}

// judge checks the statement on the result got (sorted keys) of one request: pages P
// (0-based, sorted), exclusion asked for or not. how is the transcript up to this step.
func (h *histDoc) judge(c *hx.Ctx, ci caseInfo, how string, P []int, excl bool, mode int, got []string) {
	d := h.d
	G := countKeys(got)
	written := map[string]int{}
	body := map[string]int{}
	stay := map[string]int{}
	whereBody := map[string]string{}
	whereStay := map[string]string{}
	var all []string
	inP := map[int]bool{}
	for _, pi := range P {
		inP[pi] = true
		p, v := d.Pages[pi], h.views[pi]
		wordLevel := !v.charLevel && len(p.Lines) == 0
		for i, f := range p.F {
			ks := fragKeys(mode, f.T, float64(f.X), float64(f.Y))
			all = append(all, ks...)
			inBand := v.inTop[i] || v.inBot[i]
			mayGo := false
			if wordLevel && inBand {
				u := v.units[i] // word-level page: unit i is fragment i
				mayGo = isPageNumberText(u.text) || (u.top && repeats(h.views, pi, u, true, 10, 20)) || (u.bot && repeats(h.views, pi, u, false, 10, 20))
			}
			for _, k := range ks {
				written[k]++
				if !inBand {
					body[k]++
					if whereBody[k] == "" {
						whereBody[k] = fmt.Sprintf("page %d (height %d) fragment %d %q at y=%d h=%d", pi+1, p.H, i, f.T, f.Y, f.H)
					}
				} else if wordLevel && !mayGo {
					stay[k]++
					if whereStay[k] == "" {
						whereStay[k] = fmt.Sprintf("page %d fragment %d %q (x=%d y=%d)", pi+1, i, f.T, f.X, f.Y)
					}
				}
			}
		}
	}
	sort.Strings(all)
	req := fmt.Sprintf("pages %s of %d", onePage(P), len(d.Pages))
	if !excl {
		c.Check("C11/unfiltered-result-differs", strings.Join(got, "\n") == strings.Join(all, "\n"), ci, func() string {
			return fmt.Sprintf("%s  -- no exclusion was asked for on this extractor (%s), yet the result lacks %s and has %s; written: %d piece(s)",
				how, req, diffSummary(all, got), diffSummary(got, all), len(all))
		})
		return
	}
	// 1. only deletes
	for _, k := range hx.SortedKeys(G) {
		c.Check("C11/not-sublist", G[k] <= written[k], ci, func() string {
			return fmt.Sprintf("%s  -- (%s) %d piece(s) %s survive, %d were written on these pages", how, req, G[k], k, written[k])
		})
	}
	// 2. the body band comes back untouched
	for _, k := range hx.SortedKeys(body) {
		c.Check("C11/removed-body-band", G[k] >= body[k], ci, func() string {
			return fmt.Sprintf("%s  -- (%s) %d cop(ies) of %s lie outside the %d pt top/bottom band of their page (first: %s) but only %d survive",
				how, req, body[k], k, bandPt, whereBody[k], G[k])
		})
	}
	// 3. marginal text that neither repeats at its position nor is a page number stays
	for _, k := range hx.SortedKeys(stay) {
		c.Check("C11/removed-unrepeated", G[k] >= stay[k]+body[k], ci, func() string {
			return fmt.Sprintf("%s  -- (%s) %d marginal cop(ies) of %s occur on no other page at that position and are no page number (first: %s), %d more lie in the body band, but only %d survive",
				how, req, stay[k], k, whereStay[k], body[k], G[k])
		})
	}
	// 4. documents without repetition are returned unchanged
	if !h.repetition {
		c.Check("C11/no-repetition-changed", strings.Join(got, "\n") == strings.Join(all, "\n"), ci, func() string {
			return fmt.Sprintf("%s  -- (%s) no (digit-normalised) marginal text occurs on two pages, yet the result lacks %s", how, req, diffSummary(all, got))
		})
	}
	// 5./6. a line at the same marginal position on every page, running page numbers: gone from every requested page
	must := map[string]int{}
	for _, ch := range h.chains {
		for pi, u := range ch.units {
			if !inP[pi] {
				continue
			}
			for _, m := range u.members {
				f := d.Pages[pi].F[m]
				for _, k := range fragKeys(mode, f.T, float64(f.X), float64(f.Y)) {
					must[k]++
				}
			}
		}
	}
	for _, ch := range h.chains {
		c.Count("oracle:history-liveness:" + ch.okey[4:])
		done := map[string]bool{}
		for pi, u := range ch.units {
			if !inP[pi] {
				continue
			}
			for _, m := range u.members {
				f := d.Pages[pi].F[m]
				for _, k := range fragKeys(mode, f.T, float64(f.X), float64(f.Y)) {
					if done[k] {
						continue
					}
					done[k] = true
					c.Check(ch.okey, G[k] <= written[k]-must[k], ci, func() string {
						where := "bottom"
						if ch.top {
							where = "top"
						}
						return fmt.Sprintf("%s  -- (%s) %q sits at the same %s-margin position (x=%d, %d pt from the edge) on all %d pages of the document; "+
							"of the %d written piece(s) %s on the requested pages, %d belong to such lines and have to go, yet %d survive (first requested page carrying it: %d)",
							how, req, u.text, where, u.x, ch.dist, len(d.Pages), written[k], k, must[k], G[k], pi+1)
					})
				}
			}
		}
	}
	// 7. detection on all pages whatever was requested, whatever ran before
	var want []string
	for _, pi := range P {
		if !h.allSub[pi] {
			return
		}
		for _, id := range h.allKept[pi] {
			f := h.raw[pi].Fragments[id]
			want = append(want, fragKeys(mode, f.Text, f.X, f.Y)...)
		}
	}
	sort.Strings(want)
	c.Check("C11/subset-detection-after-history", strings.Join(got, "\n") == strings.Join(want, "\n"), ci, func() string {
		return fmt.Sprintf("%s  -- (%s) the result has %s and lacks %s compared with filtering those pages with the regions detected on all %d pages",
			how, req, diffSummary(got, want), diffSummary(want, got), len(d.Pages))
	})
}

// ---- one history case ----------------------------------------------------------------------------

func histRun(c *hx.Ctx, d Doc, hc histCase, r *hx.Rng) {
	ci := caseInfo{Mode: "hist", Doc: d, Hist: &hc}
	n := len(d.Pages)
	if n == 0 || len(hc.Steps) == 0 || floatAmbiguous(c, d) {
		return
	}
	dir := filepath.Join(c.OutDir, "pdf")
	os.MkdirAll(dir, 0o755)
	fn := filepath.Join(dir, "hist.pdf")
	if err := os.WriteFile(fn, pdfOf(d, r), 0o644); err != nil {
		c.Note("cannot write %s: %v", fn, err)
		return
	}
	// the written fragments must come back as written (fresh extractor; not part of the history)
	raw := make([]layout.PageFragments, n)
	okRaw := true
	pan := hx.Safe(func() {
		fr, _, err := tabula.Open(fn).Fragments()
		total := 0
		for _, p := range d.Pages {
			total += len(p.F)
		}
		if err != nil || len(fr) != total {
			okRaw = false
			return
		}
		at := 0
		for i, p := range d.Pages {
			raw[i] = layout.PageFragments{PageIndex: i, PageHeight: float64(p.H), PageWidth: float64(p.W), Fragments: fr[at : at+len(p.F) : at+len(p.F)]}
			for j, f := range p.F {
				g := fr[at+j]
				if g.Text != f.T || g.X != float64(f.X) || g.Y != float64(f.Y) || g.Height != float64(f.H) {
					okRaw = false
				}
			}
			at += len(p.F)
		}
	})
	if !c.Check("C11/panic", pan == "", ci, func() string { return "Fragments() panicked: " + pan }) {
		return
	}
	if !okRaw {
		c.Count("hist:fragments-differ-from-written(skipped)")
		return
	}
	h := newHistDoc(d, raw)
	glyphDoc := false
	for _, p := range d.Pages {
		if len(p.Lines) > 0 {
			glyphDoc = true
		}
	}
	modeOf := func(term string) int {
		if term != "text" {
			return keyFrag
		}
		if glyphDoc {
			return keyGlyph
		}
		return keyLine
	}
	// a judged operation that loses fragments by itself (line / paragraph / block building on a fresh
	// extractor without exclusion: not C11's business) only makes history in this case
	allPages := hvar{}.requested(n)
	judged := map[string]bool{}
	for _, st := range hc.Steps {
		if !isJudged(st.Term) {
			continue
		}
		if _, seen := judged[st.Term]; seen {
			continue
		}
		frs, txt, err, pan := runTerm(tabula.Open(fn), st.Term)
		if !c.Check("C11/panic", pan == "", ci, func() string { return termExpr(st.Term) + " on a fresh extractor panicked: " + pan }) {
			return
		}
		mode := modeOf(st.Term)
		var all []string
		for _, pi := range allPages {
			for _, f := range d.Pages[pi].F {
				all = append(all, fragKeys(mode, f.T, float64(f.X), float64(f.Y))...)
			}
		}
		sort.Strings(all)
		judged[st.Term] = err == nil && strings.Join(resultKeys(mode, frs, txt, st.Term == "text"), "\n") == strings.Join(all, "\n")
		if !judged[st.Term] {
			c.Count("hist:" + st.Term + "-does-not-return-the-written-fragments(unjudged)")
		}
	}

	// the history
	var rd *reader.Reader
	base := hvar{name: "e0"}
	transcript := "e0 := tabula.Open(pdf)"
	if hc.Source == "reader" {
		var err error
		rd, err = reader.Open(fn)
		if err != nil {
			c.Count("hist:reader-open-error")
			return
		}
		defer rd.Close()
		base.ext = tabula.FromReader(rd)
		transcript = "e0 := tabula.FromReader(reader.Open(pdf))"
	} else {
		base.ext = tabula.Open(fn)
	}
	vars := []hvar{base}
	plainSeen, exclSeen, touchSeen := false, false, false
	nJudged, nJudgedExcl := 0, 0
	for k, st := range hc.Steps {
		if st.Parent < 0 || st.Parent >= len(vars) {
			continue
		}
		bad := false
		for _, pg := range st.Pages {
			if pg < 0 || pg >= n {
				bad = true
			}
		}
		if bad {
			continue
		}
		v := vars[st.Parent]
		if len(st.Pages) > 0 || st.Excl != "" {
			var expr string
			pan := hx.Safe(func() { v, expr = derive(vars[st.Parent], st, len(vars)) })
			if !c.Check("C11/panic", pan == "", ci, func() string { return fmt.Sprintf("%s; step %d: deriving an extractor panicked: %s", transcript, k, pan) }) {
				return
			}
			vars = append(vars, v)
			transcript += "; " + v.name + " := " + expr
			if st.Parent != 0 {
				c.Count("hist:derived-from-derived")
			}
		} else if st.Parent != 0 || k > 0 {
			c.Count("hist:same-extractor-again")
		}
		transcript += "; " + v.name + "." + termExpr(st.Term)
		how := transcript
		frs, txt, err, pan := runTerm(v.ext, st.Term)
		if !c.Check("C11/panic", pan == "", ci, func() string { return how + " panicked: " + pan }) {
			return
		}
		excl := v.exH || v.exF
		if !isJudged(st.Term) || !judged[st.Term] {
			touchSeen = true
			c.Count("hist:step:unjudged")
			continue
		}
		if !c.Check("C11/history-step-error", err == nil, ci, func() string {
			return fmt.Sprintf("%s  -- failed with %v; the same operation on a fresh extractor of this file succeeds", how, err)
		}) {
			continue
		}
		if excl {
			switch {
			case plainSeen && !exclSeen:
				c.Count("hist:first-exclusion-after-plain-operation")
			case touchSeen && !exclSeen:
				c.Count("hist:first-exclusion-after-unjudged-operation")
			case !exclSeen:
				c.Count("hist:first-exclusion-is-first-operation")
			}
			nJudgedExcl++
			c.Count("hist:step:excl:" + st.Term)
		} else {
			if exclSeen {
				c.Count("hist:plain-after-exclusion")
			}
			c.Count("hist:step:plain:" + st.Term)
		}
		nJudged++
		mode := modeOf(st.Term)
		h.judge(c, ci, how, v.requested(n), excl, mode, resultKeys(mode, frs, txt, st.Term == "text"))
		if excl {
			exclSeen = true
		} else {
			plainSeen = true
		}
	}
	c.Count("hist:source=" + hc.Source)
	c.Count("hist:pages:" + bucket(n))
	if glyphDoc {
		c.Count("hist:glyph-pages")
	}
	b, _ := json.Marshal(ci)
	c.Case("hist"+string(b), nJudgedExcl > 0 && nJudged > 0)
}

// ---- scripts ---------------------------------------------------------------------------------------

func genPagesArg(r *hx.Rng, n int) (pages []int, asRange bool) {
	switch r.Intn(5) {
	case 0: // one page
		return []int{r.Intn(n)}, false
	case 1: // a contiguous run, as a range or spelled out
		a := r.Intn(n)
		b := a + r.Intn(n-a)
		if b > a+5 {
			b = a + 5
		}
		for k := a; k <= b; k++ {
			pages = append(pages, k)
		}
		return pages, r.Chance(2, 3)
	case 2: // the last page(s)
		pages = []int{n - 1}
		if n > 1 && r.Bool() {
			pages = []int{n - 2, n - 1}
		}
		return pages, false
	default: // a random subset, in any order
		for k := 0; k < n; k++ {
			if r.Chance(1, 2) {
				pages = append(pages, k)
			}
		}
		if len(pages) == 0 {
			pages = []int{r.Intn(n)}
		}
		if r.Chance(1, 3) {
			hx.Shuffle(r, pages)
		}
		return pages, false
	}
}

var exclForms = []string{"h", "f", "hf", "hf", "h+f", "f+h"}

func genTerm(r *hx.Rng, judgedOnly bool) string {
	if !judgedOnly && r.Chance(1, 4) {
		return hx.Pick(r, touchTerms)
	}
	switch k := r.Intn(20); {
	case k < 9:
		return "lines"
	case k < 16:
		return "text"
	case k < 18:
		return "paras"
	}
	return "blocks"
}

// genHist draws one history for a document of n pages. Every history contains a judged
// operation with exclusion; most of them run something else on the same source first.
func genHist(r *hx.Rng, n int) histCase {
	hc := histCase{Source: "open"}
	if r.Chance(1, 3) {
		hc.Source = "reader"
	}
	nvars := 1
	add := func(st histStep) {
		if st.Parent >= nvars {
			st.Parent = 0
		}
		if len(st.Pages) > 0 || st.Excl != "" {
			nvars++
		}
		hc.Steps = append(hc.Steps, st)
	}
	mk := func(parent int, pagesP, exclP [2]int, judgedOnly bool) histStep {
		st := histStep{Parent: parent, Term: genTerm(r, judgedOnly), ExclFirst: r.Bool()}
		if n > 0 && r.Chance(pagesP[0], pagesP[1]) {
			st.Pages, st.Range = genPagesArg(r, n)
		}
		if r.Chance(exclP[0], exclP[1]) {
			st.Excl = hx.Pick(r, exclForms)
		}
		return st
	}
	never, always, half := [2]int{0, 1}, [2]int{1, 1}, [2]int{1, 2}
	switch r.Intn(8) {
	case 0: // the unfiltered reference first, then exclusion from the same source
		add(mk(0, never, never, true))
		add(mk(0, never, always, true))
		add(mk(0, always, always, true))
	case 1: // a page of the unfiltered document first
		add(mk(0, always, never, true))
		add(mk(0, half, always, true))
		add(mk(0, half, always, true))
	case 2: // exclusion first, then the unfiltered reference, then exclusion again
		add(mk(0, half, always, true))
		add(mk(0, half, never, true))
		add(mk(0, half, always, true))
	case 3: // something that is not an extraction of text first (PageCount, IsCharacterLevel, Analyze, …)
		st := histStep{Parent: 0, Term: hx.Pick(r, touchTerms)}
		if r.Chance(1, 3) {
			st.Pages, st.Range = genPagesArg(r, n)
		}
		add(st)
		add(mk(0, half, always, true))
		add(mk(0, half, half, true))
	case 4: // a chain of derivations, an operation on every link
		add(mk(0, half, never, false))
		add(mk(nvars-1, never, always, true))
		add(mk(nvars-1, always, never, true))
		add(mk(r.Intn(nvars), half, half, true))
	case 5: // one excluding extractor used several times, the source in between
		add(mk(0, half, always, true))
		e := nvars - 1
		add(histStep{Parent: 0, Term: genTerm(r, false)})
		add(histStep{Parent: e, Term: genTerm(r, true)})
		add(histStep{Parent: e, Term: genTerm(r, true)})
	default: // free mix
		m := r.Range(3, 7)
		for j := 0; j < m; j++ {
			parent := 0
			if r.Bool() {
				parent = r.Intn(nvars)
			}
			exclP := [2]int{3, 5}
			if j == 0 {
				exclP = [2]int{2, 5}
			}
			add(mk(parent, [2]int{11, 20}, exclP, false))
		}
	}
	// a judged operation with exclusion at the end, derived from the source
	if r.Chance(1, 2) || !hasJudgedExcl(hc) {
		add(mk(0, half, always, true))
	}
	return hc
}

// hasJudgedExcl: does some judged step run on an extractor with exclusion (own or inherited)?
func hasJudgedExcl(hc histCase) bool {
	ex := []bool{false}
	for _, st := range hc.Steps {
		if st.Parent >= len(ex) {
			continue
		}
		e := ex[st.Parent] || st.Excl != ""
		if len(st.Pages) > 0 || st.Excl != "" {
			ex = append(ex, e)
		}
		if e && isJudged(st.Term) {
			return true
		}
	}
	return false
}

// witnessRunning: n Letter pages, each with the running header "Quarterly Report" 42 pt below
// the top edge, one body line and the running page number 30 pt above the bottom edge.
func witnessRunning(n int) Doc {
	var d Doc
	for i := 0; i < n; i++ {
		p := Page{I: i, H: 792, W: 612}
		p.F = append(p.F, Frag{T: "Quarterly Report", X: 72, Y: 738, W: 96, H: 12, FS: 12, L: -1})
		p.F = append(p.F, Frag{T: fmt.Sprintf("Body text of page %d", i+1), X: 72, Y: 400, W: 120, H: 12, FS: 12, L: -1})
		p.F = append(p.F, Frag{T: strconv.Itoa(i + 1), X: 300, Y: 30, W: 6, H: 12, FS: 12, L: -1})
		d.Pages = append(d.Pages, p)
	}
	d.Tags = "witness-running"
	return d
}

// fixedHistories: the textbook ways of using one source for several requests.
func fixedHistories() []histCase {
	var out []histCase
	for _, src := range []string{"open", "reader"} {
		out = append(out,
			histCase{Source: src, Steps: []histStep{{Term: "text"}, {Excl: "hf", Term: "text"}, {Pages: []int{1}, Excl: "h+f", Term: "lines"}}},
			histCase{Source: src, Steps: []histStep{{Excl: "hf", Term: "text"}, {Term: "text"}, {Pages: []int{2}, Excl: "f", Term: "lines"}}},
			histCase{Source: src, Steps: []histStep{{Term: "count"}, {Excl: "h", Term: "lines"}, {Term: "lines"}}},
			histCase{Source: src, Steps: []histStep{{Pages: []int{0}, Term: "lines"}, {Parent: 1, Excl: "hf", Term: "lines"}, {Parent: 2, Pages: []int{2}, Term: "text"}, {Parent: 1, Term: "text"}}},
			histCase{Source: src, Steps: []histStep{{Term: "analyze"}, {Excl: "hf", ExclFirst: true, Pages: []int{0, 1, 2}, Range: true, Term: "paras"}, {Parent: 1, Term: "blocks"}}},
		)
	}
	return out
}

// histories: fixed scripts on fixed documents, then generated documents with generated scripts.
func histories(c *hx.Ctx) {
	for _, hc := range fixedHistories() {
		histRun(c, witnessRunning(3), hc, nil)
		histRun(c, witnessMixedSizes(), hc, nil)
	}
	nh := c.N(220, 2500)
	for i := 0; i < nh; i++ {
		r := c.Rng.Fork(uint64(9_000_000 + i))
		d := genDoc(r, genOpts{pdfSafe: true, mix: i%3 == 2})
		histRun(c, d, genHist(r.Fork(0x4157), len(d.Pages)), r)
	}
	// a few long documents: the history must not matter at any length either
	nl := c.N(6, 60)
	maxPages := 70
	if c.Thorough() {
		maxPages = 200
	}
	for i := 0; i < nl; i++ {
		r := c.Rng.Fork(uint64(9_500_000 + i))
		d := genDoc(r, genOpts{pdfSafe: true, long: true, maxPages: maxPages, mix: i%3 == 2})
		histRun(c, d, genHist(r.Fork(0x4157), len(d.Pages)), r)
	}
}
