package c11

import (
	"encoding/json"
	"fmt"
	"strconv"
	"strings"

	"github.com/tsawler/tabula/layout"
	"github.com/tsawler/tabula/text"

	"verifharness/hx"
)

// Call sequences on the caller's own slices.
//
// The property says the filtered page is "the unfiltered result minus some
// fragments": the unfiltered result is part of what the caller observes, so it
// must still be there, unchanged, after exclusion ran - and a caller who keeps
// working with the same []text.TextFragment (filters a page twice, re-runs
// Detect on the same PageFragments, filters pages in another order, reuses one
// buffer for several pages, analyses page by page) must keep getting the
// unfiltered page minus the same fragments.
//
// A sequence case owns ONE backing array holding the fragments of all pages
// back to back (page i = all[off_i : off_i+n_i], capacity running on into the
// following pages, then into a block of sentinel fragments) plus a DEEP COPY
// taken before the first call. A script of steps is run on the live slices:
//
//	detect      res = NewHeaderFooterDetector().Detect(pages)
//	filter:i    res.FilterFragments(pages[i].PageIndex, pages[i].Fragments, pages[i].PageHeight)
//	buf:i       page i copied into the front of one shared scratch buffer, the rest of the buffer holding
//	            sentinels; FilterFragments on buf[:n_i]
//	analyze:i   NewAnalyzer().AnalyzeWithHeaderFooterFiltering(pages, i)   (only its effect on the input is observed)
//
// After every step the whole backing array (and the scratch buffer) must equal
// the deep copy; every filter result is mapped back to fragment ids of the
// PRISTINE page (so a rewritten input cannot vouch for itself), must be a
// subsequence of it and must agree with the ids obtained for a single call on a
// fresh copy; every Detect must report the regions of the first one. The
// results of the last filter call per page go through all statement oracles of
// checkDoc (sublist, band, repetition, identity, liveness) and, as a c11.hf op
// on the pristine pages, to the Lean model.

const sentinelText = "\x00verif-sentinel\x00"

func sentinel(k int) text.TextFragment {
	return text.TextFragment{Text: sentinelText, X: -1e6, Y: -1e6 - float64(k), Width: 1, Height: 1, FontSize: 1, FontName: "sentinel" + strconv.Itoa(k)}
}

// seqState is the caller's memory during one script.
type seqState struct {
	snap  []layout.PageFragments // deep copy taken before the first call; never handed to tabula
	all   []text.TextFragment    // live backing array: every page's fragments, then sentinels
	pages []layout.PageFragments // live pages, Fragments are windows into all
	offs  []int
	buf   []text.TextFragment // shared scratch buffer for buf:i steps (nil until used)
	bufPg int
}

const nSentinels = 4

func newSeqState(d Doc) *seqState {
	s := &seqState{snap: toLayout(d)}
	total := 0
	for _, p := range s.snap {
		total += len(p.Fragments)
	}
	s.all = make([]text.TextFragment, 0, total+nSentinels)
	s.pages = make([]layout.PageFragments, len(s.snap))
	s.offs = make([]int, len(s.snap))
	for i, p := range s.snap {
		s.offs[i] = len(s.all)
		s.all = append(s.all, p.Fragments...)
	}
	for k := 0; k < nSentinels; k++ {
		s.all = append(s.all, sentinel(k))
	}
	for i, p := range s.snap {
		q := p
		q.Fragments = s.all[s.offs[i] : s.offs[i]+len(p.Fragments)] // capacity runs on into the next pages
		s.pages[i] = q
	}
	s.bufPg = -1
	return s
}

// inputDiff compares the live memory with the deep copy; "" when identical.
func (s *seqState) inputDiff() string {
	for i, p := range s.snap {
		lp := s.pages[i]
		if lp.PageIndex != p.PageIndex || lp.PageHeight != p.PageHeight || lp.PageWidth != p.PageWidth || len(lp.Fragments) != len(p.Fragments) {
			return fmt.Sprintf("page %d: header of the PageFragments value changed (index/height/width/len %d,%v,%v,%d -> %d,%v,%v,%d)",
				i, p.PageIndex, p.PageHeight, p.PageWidth, len(p.Fragments), lp.PageIndex, lp.PageHeight, lp.PageWidth, len(lp.Fragments))
		}
		for j, f := range p.Fragments {
			if g := s.all[s.offs[i]+j]; g != f {
				return fmt.Sprintf("page %d: unfiltered fragment %d was %q (x=%v y=%v), is now %q (x=%v y=%v); the caller's page now reads %s, before the call %s",
					i, j, f.Text, f.X, f.Y, g.Text, g.X, g.Y, fragTexts(s.all[s.offs[i]:s.offs[i]+len(p.Fragments)]), fragTexts(p.Fragments))
			}
		}
	}
	for k := 0; k < nSentinels; k++ {
		if g := s.all[len(s.all)-nSentinels+k]; g != sentinel(k) {
			return fmt.Sprintf("memory behind the last page (spare capacity of the caller's slice) was overwritten with %q", g.Text)
		}
	}
	return ""
}

func (s *seqState) bufDiff() (inLen string, spare string) {
	if s.buf == nil || s.bufPg < 0 {
		return "", ""
	}
	want := s.snap[s.bufPg].Fragments
	for j, f := range want {
		if g := s.buf[j]; g != f {
			inLen = fmt.Sprintf("page %d (in the shared buffer): unfiltered fragment %d was %q (x=%v y=%v), is now %q (x=%v y=%v); buffer now reads %s, before the call %s",
				s.bufPg, j, f.Text, f.X, f.Y, g.Text, g.X, g.Y, fragTexts(s.buf[:len(want)]), fragTexts(want))
			break
		}
	}
	for k := len(want); k < len(s.buf); k++ {
		if g := s.buf[k]; g != sentinel(k) {
			spare = fmt.Sprintf("page %d (in the shared buffer, %d fragments): buffer element %d behind the page was overwritten with %q", s.bufPg, len(want), k, g.Text)
			break
		}
	}
	return
}

func fragTexts(fs []text.TextFragment) string {
	parts := make([]string, len(fs))
	for i, f := range fs {
		parts[i] = strconv.Quote(f.Text)
	}
	return "[" + strings.Join(parts, " ") + "]"
}

func idsStr(ids []int, sub bool) string {
	if !sub {
		return "not-a-sublist"
	}
	return fmt.Sprint(ids)
}

func sameIDs(a, b []int) bool {
	if len(a) != len(b) {
		return false
	}
	for i := range a {
		if a[i] != b[i] {
			return false
		}
	}
	return true
}

// ---- scripts ----------------------------------------------------------------------------------

func step(op string, i int) string { return op + ":" + strconv.Itoa(i) }

func perm(r *hx.Rng, n int) []int {
	p := make([]int, n)
	for i := range p {
		p[i] = i
	}
	hx.Shuffle(r, p)
	return p
}

// genScript draws one call sequence for a document of n pages. Every script
// filters every page at least once after the last detect.
func genScript(r *hx.Rng, n int) (script []string, kind string) {
	all := func(op string, order []int) {
		for _, i := range order {
			script = append(script, step(op, i))
		}
	}
	inOrder := make([]int, n)
	rev := make([]int, n)
	for i := 0; i < n; i++ {
		inOrder[i], rev[i] = i, n-1-i
	}
	switch r.Intn(7) {
	case 0: // the same page twice in a row
		kind = "same-page-twice"
		script = append(script, "detect")
		for i := 0; i < n; i++ {
			script = append(script, step("filter", i), step("filter", i))
		}
	case 1: // Detect -> Filter -> Detect again -> Filter again
		kind = "two-passes"
		script = append(script, "detect")
		all("filter", inOrder)
		script = append(script, "detect")
		all("filter", inOrder)
		if r.Bool() {
			script = append(script, "detect")
			all("filter", perm(r, n))
		}
	case 2: // different orders under one detection
		kind = "orders"
		script = append(script, "detect")
		all("filter", perm(r, n))
		all("filter", rev)
		all("filter", inOrder)
	case 3: // one scratch buffer reused for every page
		kind = "shared-buffer"
		script = append(script, "detect")
		all("buf", perm(r, n))
		all("buf", inOrder)
		all("filter", inOrder)
	case 4: // page-by-page analysis, then exclusion
		kind = "analyze-per-page"
		k := n
		if k > 3 {
			k = 3
		}
		for _, i := range perm(r, n)[:k] {
			script = append(script, step("analyze", i))
		}
		script = append(script, "detect")
		all("filter", inOrder)
	case 5: // filter, re-detect in between, other page
		kind = "interleaved"
		script = append(script, "detect")
		for _, i := range perm(r, n) {
			script = append(script, step("filter", i), "detect")
		}
		all("filter", rev)
	default: // free mix
		kind = "mix"
		script = append(script, "detect")
		m := r.Range(n, 2*n+3)
		for j := 0; j < m; j++ {
			switch r.Intn(8) {
			case 0:
				script = append(script, "detect")
			case 1, 2:
				script = append(script, step("buf", r.Intn(n)))
			case 3:
				if j < 4 {
					script = append(script, step("analyze", r.Intn(n)))
				}
			default:
				script = append(script, step("filter", r.Intn(n)))
			}
		}
		script = append(script, "detect")
		all("filter", inOrder)
	}
	return
}

// ---- running one script -----------------------------------------------------------------------

// seqCase runs script on d. The reference (what a single call on fresh copies
// gives) is computed here from fresh copies; it is itself judged by directCase
// (statement oracles + model) - here it only serves for "repeated calls agree".
func seqCase(c *hx.Ctx, d Doc, script []string, kind string, emitOps bool) {
	ci := caseInfo{Mode: "seq", Doc: d, Script: script}
	if len(d.Pages) == 0 || len(script) == 0 || floatAmbiguous(c, d) {
		return
	}
	refRes, refKept, refSub, pan := runLayout(toLayout(d))
	if !c.Check("C11/panic", pan == "", ci, func() string { return "Detect/FilterFragments panicked: " + pan }) {
		return
	}
	refRegions := regionsLine(refRes)

	s := newSeqState(d)
	n := len(d.Pages)
	var res *layout.HeaderFooterResult
	last := make([][]int, n)
	lastSub := make([]bool, n)
	filtered := make([]bool, n)
	broken := false // the input was rewritten: later steps run on what the caller now holds (reported once per class)

	checkInput := func(key, stepName string, k int) {
		if broken {
			return
		}
		diff := s.inputDiff()
		if !c.Check(key, diff == "", ci, func() string {
			return fmt.Sprintf("step %d (%s) of %v rewrote the caller's unfiltered fragments: %s", k, stepName, script, diff)
		}) {
			broken = true
		}
	}
	record := func(k int, stepName string, i int, out []text.TextFragment) {
		ids, sub := keptIDs(s.snap[i].Fragments, out)
		last[i], lastSub[i], filtered[i] = ids, sub, true
		c.Check("C11/not-sublist", sub, ci, func() string {
			return fmt.Sprintf("step %d (%s) of %v: result %s is not a subsequence of the unfiltered page %s",
				k, stepName, script, fragTexts(out), fragTexts(s.snap[i].Fragments))
		})
		if !refSub[i] {
			return // the single call is already wrong; reported by directCase
		}
		c.Check("C11/repeated-call-differs", sub && sameIDs(ids, refKept[i]), ci, func() string {
			return fmt.Sprintf("step %d (%s) of %v: page %d %s keeps fragments %s (%s); a single Detect+FilterFragments on a fresh copy of the same document keeps %v",
				k, stepName, script, i, fragTexts(s.snap[i].Fragments), idsStr(ids, sub), fragTexts(out), refKept[i])
		})
	}

	for k, st := range script {
		op, arg := st, -1
		if j := strings.IndexByte(st, ':'); j >= 0 {
			op = st[:j]
			arg, _ = strconv.Atoi(st[j+1:])
		}
		if arg >= n || (op != "detect" && arg < 0) {
			continue
		}
		switch op {
		case "detect":
			pan = hx.Safe(func() { res = layout.NewHeaderFooterDetector().Detect(s.pages) })
			if !c.Check("C11/panic", pan == "", ci, func() string { return fmt.Sprintf("step %d (%s) of %v panicked: %s", k, st, script, pan) }) {
				return
			}
			checkInput("C11/input-modified-by-detect", st, k)
			got := regionsLine(res)
			c.Check("C11/repeated-detect-differs", got == refRegions, ci, func() string {
				return fmt.Sprintf("step %d (%s) of %v: Detect on the caller's (same) pages reports %s; Detect on a fresh copy of the document reports %s", k, st, script, got, refRegions)
			})
		case "filter":
			if res == nil {
				continue
			}
			var out []text.TextFragment
			p := s.pages[arg]
			pan = hx.Safe(func() { out = res.FilterFragments(p.PageIndex, p.Fragments, p.PageHeight) })
			if !c.Check("C11/panic", pan == "", ci, func() string { return fmt.Sprintf("step %d (%s) of %v panicked: %s", k, st, script, pan) }) {
				return
			}
			// the result is read before anything else happens to the caller's memory
			record(k, st, arg, out)
			checkInput("C11/input-modified-by-filter", st, k)
		case "buf":
			if res == nil {
				continue
			}
			if s.buf == nil {
				m := 0
				for _, p := range s.snap {
					if len(p.Fragments) > m {
						m = len(p.Fragments)
					}
				}
				s.buf = make([]text.TextFragment, m+nSentinels)
			}
			src := s.snap[arg].Fragments
			copy(s.buf, src)
			for j := len(src); j < len(s.buf); j++ {
				s.buf[j] = sentinel(j)
			}
			s.bufPg = arg
			var out []text.TextFragment
			p := s.pages[arg]
			pan = hx.Safe(func() { out = res.FilterFragments(p.PageIndex, s.buf[:len(src)], p.PageHeight) })
			if !c.Check("C11/panic", pan == "", ci, func() string { return fmt.Sprintf("step %d (%s) of %v panicked: %s", k, st, script, pan) }) {
				return
			}
			record(k, st, arg, out)
			inLen, spare := s.bufDiff()
			c.Check("C11/input-modified-by-filter", inLen == "", ci, func() string {
				return fmt.Sprintf("step %d (%s) of %v rewrote the caller's unfiltered fragments: %s", k, st, script, inLen)
			})
			c.Check("C11/filter-wrote-spare-capacity", spare == "", ci, func() string {
				return fmt.Sprintf("step %d (%s) of %v: %s", k, st, script, spare)
			})
			checkInput("C11/input-modified-by-filter", st, k)
		case "analyze":
			pan = hx.Safe(func() { layout.NewAnalyzer().AnalyzeWithHeaderFooterFiltering(s.pages, arg) })
			if !c.Check("C11/panic-analyze", pan == "", ci, func() string { return fmt.Sprintf("step %d (%s) of %v panicked: %s", k, st, script, pan) }) {
				return
			}
			checkInput("C11/input-modified-by-analyze", st, k)
		}
	}
	for i := range filtered {
		if !filtered[i] {
			return
		}
	}
	// the last result of every page, judged against the statement and the model on the PRISTINE document
	if emitOps {
		c.Op(opLine("c11.hf", s.snap), keptLine(last, lastSub))
	}
	checkDoc(c, ci, last, lastSub)
	c.Count("seq:" + kind)
	b, _ := json.Marshal(struct {
		P []Page
		S []string
	}{d.Pages, script})
	removed := 0
	for i, p := range d.Pages {
		removed += len(p.F) - len(last[i])
	}
	c.Case("seq"+string(b), removed > 0)
}
