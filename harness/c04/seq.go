package c04

import (
	"fmt"
	"sort"

	"verifharness/hx"
)

// ---- lookups after a lookup that failed ----------------------------------------------------
//
// "The answer does not depend on ... what was looked up before" also quantifies over the
// lookups that fail. The histories drawn by genHistory make such sequences only by chance;
// the histories here are shaped like a document (object 1 is the root, every other object
// is referenced from a lower-numbered one, some from two) and later revisions delete
// objects that unchanged objects still refer to - a dangling reference, legal in PDF -,
// replace them, or define them again. A deep resolution of any ancestor of a deleted
// object then has to fail somewhere below its starting point, while the ancestors
// themselves, their other descendants and every unrelated object still have their newest
// values. The lookup sequences start such a failing resolution (through every deep entry
// point: the reader's, the resolver package's resetting wrappers and its own entry
// points on one long-lived resolver) and then ask for the objects on and off the failed
// path through every kind of lookup, fail again, clear caches, and repeat.

// treeValue is the content of a node: references to its children between integers, some
// of them inside nested arrays and dictionaries.
func treeValue(r *hx.Rng, kids []int) val {
	v := val{K: hx.Pick(r, []string{"a", "d"})}
	for _, k := range kids {
		ref := val{K: "r", N: k}
		switch r.Intn(4) {
		case 0:
			v.E = append(v.E, val{K: "a", E: []val{{K: "i", N: r.Intn(1000)}, ref}})
		case 1:
			v.E = append(v.E, val{K: "d", E: []val{ref}})
		default:
			v.E = append(v.E, ref)
		}
		if r.Chance(1, 3) {
			v.E = append(v.E, val{K: "i", N: r.Intn(1000)})
		}
	}
	if len(v.E) == 0 || r.Chance(1, 4) {
		v.E = append(v.E, val{K: "i", N: r.Intn(1000)})
	}
	return v
}

// genTreeHistory draws a document-shaped history with deletions of referenced objects.
// classic=true keeps every revision a classic table with plain objects.
func genTreeHistory(r *hx.Rng, classic bool) history {
	h := history{N: r.Range(3, 10), EOL: hx.Pick(r, []string{"\n", "\n", "\r\n"})}
	kids := make([][]int, h.N+1)
	for n := 2; n <= h.N; n++ {
		p := r.Range(1, n-1)
		if r.Chance(1, 2) && n > 2 {
			p = r.Range(max(1, n-3), n-1) // deeper trees
		}
		kids[p] = append(kids[p], n)
		if n > 2 && r.Chance(1, 5) { // a second parent: the graph is a DAG
			if q := r.Range(1, n-1); q != p {
				kids[q] = append(kids[q], n)
			}
		}
	}
	id := 100
	put := func(rev *revision, n int) {
		id++
		a := action{Kind: "put", ID: id}
		if !classic && r.Chance(1, 3) {
			a.Compressed = true
			rev.XrefStream = true
		}
		if a.Compressed || r.Chance(2, 3) {
			a.Dict = true
		} else {
			a.Arr = true
		}
		x := treeValue(r, kids[n])
		a.Extra = &x
		rev.Actions[n] = a
	}
	newRev := func() revision {
		rev := revision{Actions: map[int]action{}, W: hx.Pick(r, [][3]int{{1, 3, 2}, {1, 4, 2}, {2, 8, 3}})}
		if !classic {
			rev.XrefStream = r.Chance(2, 5)
			rev.Flate = r.Bool()
			rev.Predictor = hx.Pick(r, []int{0, 0, 12, 11})
			rev.IndirectLn = r.Chance(1, 5)
		}
		return rev
	}
	first := newRev()
	for n := 1; n <= h.N; n++ {
		put(&first, n)
	}
	h.Revs = append(h.Revs, first)
	dead := map[int]bool{}
	nrev := r.Range(2, 5)
	for ri := 1; ri < nrev; ri++ {
		rev := newRev()
		event := r.Intn(5)
		if ri == 1 {
			event = 0
		}
		switch {
		case event <= 2: // delete one or two objects, their parents stay as they are
			for i, m := 0, r.Range(1, 2); i < m; i++ {
				n := r.Range(2, h.N)
				if r.Chance(1, 12) {
					n = 1
				}
				if !dead[n] {
					rev.Actions[n] = action{Kind: "del"}
					dead[n] = true
				}
			}
		case event == 3: // define a deleted object again (or replace a live one)
			var ds []int
			for n := range dead {
				ds = append(ds, n)
			}
			sort.Ints(ds)
			n := r.Range(1, h.N)
			if len(ds) > 0 {
				n = hx.Pick(r, ds)
			}
			put(&rev, n)
			delete(dead, n)
		default: // replace live objects, same children
			for i, m := 0, r.Range(1, 3); i < m; i++ {
				if n := r.Range(1, h.N); !dead[n] {
					put(&rev, n)
				}
			}
		}
		if len(rev.Actions) == 0 {
			n := r.Range(2, h.N)
			rev.Actions[n] = action{Kind: "del"}
			dead[n] = true
		}
		h.Revs = append(h.Revs, rev)
	}
	return h
}

// genOpsAfterFailure draws a lookup sequence around failing deep resolutions: failing = the
// live objects whose deep value the newest revisions leave undefined (a deleted or
// never-defined object is reachable), the others are the remaining numbers.
func genOpsAfterFailure(r *hx.Rng, b built, n int) []string {
	var failing, live, gone []int
	for m := 1; m <= n; m++ {
		a, ok := b.newest[m]
		switch {
		case !ok || a.Kind == "del":
			gone = append(gone, m)
		default:
			live = append(live, m)
			if _, fixed := b.wantDeep(m); !fixed {
				failing = append(failing, m)
			}
		}
	}
	deepKinds := []string{"p", "p", "p", "q", "q", "x", "y", "D", "E"}
	kinds := []string{"s", "s", "s", "p", "p", "q", "z", "z", "x", "y", "r", "g", "D", "E"}
	pickNum := func() int {
		switch c := r.Intn(10); {
		case c < 5 && len(failing) > 0:
			return hx.Pick(r, failing) // on a failed path
		case c < 8 && len(live) > 0:
			return hx.Pick(r, live)
		case c < 9 && len(gone) > 0:
			return hx.Pick(r, gone)
		}
		return r.Intn(n + 3)
	}
	var ops []string
	for round, rounds := 0, r.Range(1, 3); round < rounds; round++ {
		if len(failing) > 0 {
			ops = append(ops, fmt.Sprintf("%s%d", hx.Pick(r, deepKinds), hx.Pick(r, failing)))
		} else {
			ops = append(ops, fmt.Sprintf("%s%d", hx.Pick(r, deepKinds), pickNum()))
		}
		for i, m := 0, r.Range(2, 5); i < m; i++ {
			switch {
			case r.Chance(1, 10):
				ops = append(ops, "c")
			case r.Chance(1, 6):
				ops = append(ops, hx.Pick(r, ops))
			default:
				ops = append(ops, fmt.Sprintf("%s%d", hx.Pick(r, kinds), pickNum()))
			}
		}
	}
	return ops
}

// afterFailureOps runs the document-shaped histories. The first ones are the plainest of
// the class: two classic revisions, the second deleting one object.
func afterFailureOps(c *hx.Ctx) {
	base := hx.NewRng(c.Seed ^ 0xfa11ed)
	n := c.N(400, 6000)
	for i := 0; i < n; i++ {
		r := base.Fork(uint64(i))
		h := genTreeHistory(r, i%3 == 0)
		b := build(h)
		k := kase{Hist: h, Ops: genOpsAfterFailure(r, b, h.N)}
		dangling := false
		for m := 1; m <= h.N; m++ {
			if a, ok := b.newest[m]; ok && a.Kind != "del" {
				if _, fixed := b.wantDeep(m); !fixed {
					dangling = true
				}
			}
		}
		if dangling {
			c.Count("history-with-dangling-reference")
		} else {
			c.Count("history-without-dangling-reference")
		}
		runCase(c, k, "f")
		c.Count(fmt.Sprintf("tree-revisions=%d", len(h.Revs)))
	}
}
