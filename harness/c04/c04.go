// Package c04: object lookup returns the newest revision, in any access order.
package c04

import (
	"fmt"
	"os"
	"path/filepath"
	"sort"
	"strings"

	"github.com/tsawler/tabula/core"
	"github.com/tsawler/tabula/reader"

	"verifharness/hx"
	"verifharness/writers"
)

func init() { hx.Register("C04", Run, Replay) }

// ---- logical history ---------------------------------------------------------------

type action struct {
	Kind       string `json:"kind"` // "put" | "del"
	Dict       bool   `json:"dict,omitempty"`
	Compressed bool   `json:"compressed,omitempty"`
	ID         int    `json:"id,omitempty"`
}

type revision struct {
	Actions    map[int]action `json:"actions"`
	XrefStream bool           `json:"xref_stream"`
	W          [3]int         `json:"w"`
	Predictor  int            `json:"predictor"`
	Flate      bool           `json:"flate"`
	IndirectLn bool           `json:"indirect_len"` // object streams carry /Length by reference
	BigPad     int            `json:"big_pad"`      // padding bytes inside object streams
}

type history struct {
	N    int        `json:"n"`
	Revs []revision `json:"revs"`
	EOL  string     `json:"eol"`
	// Fault: optional inconsistency injected into the physical file (no oracle then)
	Fault string `json:"fault,omitempty"`
}

type kase struct {
	Hist history  `json:"history"`
	Ops  []string `json:"ops"`
}

// physical description sent to the model
type physSec struct {
	off     int64
	prev    int64
	entries []string // num.type.f1.f2 in Set order
}

type built struct {
	data    []byte
	secs    []physSec
	objs    []string // off:num:val
	start   int64
	expect  map[int]string // oracle: object number -> expected token
	maxNum  int
	special map[int]bool // container numbers (objstm / xref stream / length holders)
	hot     []int        // object numbers touched by an injected fault
}

func body(a action) string {
	if a.Dict {
		return fmt.Sprintf("<< /V %d >>", a.ID)
	}
	return fmt.Sprintf("%d", a.ID)
}

func tok(a action) string {
	if a.Dict {
		return fmt.Sprintf("d%d", a.ID)
	}
	return fmt.Sprintf("i%d", a.ID)
}

func build(h history) built {
	p := writers.NewPDF(h.EOL)
	b := built{expect: map[int]string{}, special: map[int]bool{}}
	next := h.N + 1 // fresh object numbers for containers
	prev := int64(-1)
	gens := map[int]int{}
	for ri, rev := range h.Revs {
		entries := map[int]writers.XEntry{}
		var order []string
		set := func(n int, e writers.XEntry) { entries[n] = e }
		if ri == 0 {
			set(0, writers.XEntry{Type: 0, F1: 0, F2: 65535})
		}
		nums := make([]int, 0, len(rev.Actions))
		for n := range rev.Actions {
			nums = append(nums, n)
		}
		sort.Ints(nums)
		var comp []int
		for _, n := range nums {
			a := rev.Actions[n]
			switch {
			case a.Kind == "del":
				gens[n]++
				set(n, writers.XEntry{Type: 0, F1: 0, F2: gens[n]})
				b.expect[n] = "e"
			case a.Compressed:
				comp = append(comp, n)
			default:
				off := p.Obj(n, 0, body(a))
				set(n, writers.XEntry{Type: 1, F1: off, F2: 0})
				b.objs = append(b.objs, fmt.Sprintf("%d:%d:%s", off, n, tok(a)))
				b.expect[n] = tok(a)
			}
		}
		if len(comp) > 0 {
			// one object stream per revision; member order reversed so index != rank
			stm := next
			next++
			var ms []writers.ObjStmMember
			var desc []string
			for i := len(comp) - 1; i >= 0; i-- {
				n := comp[i]
				a := rev.Actions[n]
				ms = append(ms, writers.ObjStmMember{Num: n, Body: body(a)})
				k := 0
				if a.Dict {
					k = 1
				}
				desc = append(desc, fmt.Sprintf("%d.%d.%d", n, k, a.ID))
				set(n, writers.XEntry{Type: 2, F1: int64(stm), F2: len(ms) - 1})
				b.expect[n] = tok(a)
			}
			if rev.BigPad > 0 {
				ms = append(ms, writers.ObjStmMember{Num: next + 50, Body: "(" + strings.Repeat("x", rev.BigPad) + ")"})
				desc = append(desc, fmt.Sprintf("%d.%d.%d", next+50, 0, 0))
			}
			lenRef := 0
			if rev.IndirectLn {
				lenRef = next
				next++
			}
			off := p.ObjStm(stm, ms, rev.Flate, lenRef)
			set(stm, writers.XEntry{Type: 1, F1: off, F2: 0})
			b.objs = append(b.objs, fmt.Sprintf("%d:%d:s%s", off, stm, strings.Join(desc, "+")))
			b.expect[stm] = "S"
			b.special[stm] = true
			if lenRef > 0 {
				// the length holder is written AFTER the stream (forces nested resolution
				// while the stream's parser is suspended)
				ln := p.LastStreamLen
				loff := p.Obj(lenRef, 0, fmt.Sprintf("%d", ln))
				set(lenRef, writers.XEntry{Type: 1, F1: loff, F2: 0})
				b.objs = append(b.objs, fmt.Sprintf("%d:%d:i%d", loff, lenRef, ln))
				b.expect[lenRef] = fmt.Sprintf("i%d", ln)
				b.special[lenRef] = true
			}
		}
		if ri == len(h.Revs)-1 {
			b.hot = applyFault(h.Fault, entries, comp)
		}
		var off int64
		trailer := "/Root 1 0 R"
		usePrev := prev
		if ri == 0 && h.Fault == "prev-cycle" {
			usePrev = 9999999999 // patched below to the newest section's offset
		}
		if ri == len(h.Revs)-1 && h.Fault == "prev-self" {
			usePrev = 8888888888 // patched below to this section's own offset
		}
		if rev.XrefStream {
			xn := next
			next++
			off = p.XrefStream(xn, entries, trailer, usePrev, rev.W, rev.Flate, rev.Predictor, next)
			b.objs = append(b.objs, fmt.Sprintf("%d:%d:t", off, xn))
			b.expect[xn] = "S"
			b.special[xn] = true
		} else {
			off = p.XrefTable(entries, trailer+fmt.Sprintf(" /Size %d", next), usePrev, " \n")
		}
		keys := make([]int, 0, len(entries))
		for n := range entries {
			keys = append(keys, n)
		}
		sort.Ints(keys)
		for _, n := range keys {
			e := entries[n]
			order = append(order, fmt.Sprintf("%d.%d.%d.%d", n, e.Type, e.F1, e.F2))
		}
		b.secs = append(b.secs, physSec{off: off, prev: usePrev, entries: order})
		prev = off
		b.start = off
	}
	b.maxNum = next
	b.data = p.Buf.Bytes()
	patch := func(placeholder int64, val int64) {
		b.data = []byte(strings.Replace(string(b.data), fmt.Sprint(placeholder), fmt.Sprintf("%010d", val), 1))
		for i := range b.secs {
			if b.secs[i].prev == placeholder {
				b.secs[i].prev = val
			}
		}
	}
	if h.Fault == "prev-cycle" {
		patch(9999999999, b.start)
	}
	if h.Fault == "prev-self" {
		patch(8888888888, b.start)
	}
	return b
}

// applyFault makes the newest cross-reference section inconsistent with the file in
// one specific way; the physical description sent to the model reflects it.
func applyFault(fault string, entries map[int]writers.XEntry, comp []int) (hot []int) {
	var plain, all []int
	for n, e := range entries {
		if n == 0 {
			continue
		}
		all = append(all, n)
		if e.Type == 1 {
			plain = append(plain, n)
		}
	}
	sort.Ints(plain)
	sort.Ints(all)
	switch fault {
	case "wrong-header":
		if len(plain) >= 2 {
			hot = plain[:2]
			e := entries[plain[0]]
			e.F1 = entries[plain[1]].F1
			entries[plain[0]] = e
		}
	case "idx-out-of-range":
		if len(comp) > 0 {
			hot = comp[:1]
			e := entries[comp[0]]
			e.F2 += 40
			entries[comp[0]] = e
		}
	case "idx-at-len":
		if len(comp) > 0 {
			hot = comp[:1]
			e := entries[comp[0]]
			e.F2 = len(comp)
			entries[comp[0]] = e
		}
	case "idx-swapped":
		if len(comp) >= 2 {
			hot = comp[:2]
			a, b := entries[comp[0]], entries[comp[1]]
			a.F2, b.F2 = b.F2, a.F2
			entries[comp[0]], entries[comp[1]] = a, b
		}
	case "stm-not-objstm":
		if len(comp) > 0 && len(plain) > 0 {
			hot = comp[:1]
			e := entries[comp[0]]
			e.F1 = int64(plain[0])
			entries[comp[0]] = e
		}
	case "stm-in-stm":
		if len(comp) >= 2 {
			hot = comp[:2]
			e := entries[comp[0]]
			e.F1 = int64(comp[1])
			entries[comp[0]] = e
		}
	case "stm-missing":
		if len(comp) > 0 {
			hot = comp[:1]
			e := entries[comp[0]]
			e.F1 = 4000
			entries[comp[0]] = e
		}
	case "offset-garbage":
		if len(plain) > 0 {
			e := entries[plain[0]]
			e.F1 += 3
			entries[plain[0]] = e
			hot = plain[:1]
		}
	}
	return hot
}

func (b built) opLine(ops []string) string {
	var secs []string
	for _, s := range b.secs {
		prev := "-"
		if s.prev >= 0 {
			prev = fmt.Sprint(s.prev)
		}
		secs = append(secs, fmt.Sprintf("%d/%s/%s", s.off, prev, strings.Join(s.entries, ",")))
	}
	return fmt.Sprintf("c04.run S=%d X=%s O=%s P=%s", b.start, strings.Join(secs, "|"), strings.Join(b.objs, ";"), strings.Join(ops, ","))
}

func classify(obj core.Object, err error) string {
	if err != nil {
		return "e"
	}
	switch v := obj.(type) {
	case core.Int:
		return fmt.Sprintf("i%d", int(v))
	case core.Dict:
		if id, ok := v.Get("V").(core.Int); ok {
			return fmt.Sprintf("d%d", int(id))
		}
		return "o"
	case *core.Stream:
		return "S"
	}
	return "o"
}

func dumpXref(t *core.XRefTable) string {
	nums := make([]int, 0, len(t.Entries))
	for n := range t.Entries {
		nums = append(nums, n)
	}
	sort.Ints(nums)
	var out []string
	for _, n := range nums {
		e := t.Entries[n]
		switch e.Type {
		case core.XRefEntryFree:
			out = append(out, fmt.Sprintf("%d:0:%d", n, e.Offset))
		case core.XRefEntryUncompressed:
			out = append(out, fmt.Sprintf("%d:1:%d", n, e.Offset))
		case core.XRefEntryCompressed:
			out = append(out, fmt.Sprintf("%d:2:%d:%d", n, e.Offset, e.Generation))
		}
	}
	return strings.Join(out, ",")
}

// runCase writes the file, runs the lookup sequence on the implementation,
// emits the correspondence op and evaluates the statement-level oracle.
func runCase(c *hx.Ctx, k kase, tag string) {
	b := build(k.Hist)
	path := filepath.Join(c.OutDir, "c04-"+tag+".pdf")
	os.WriteFile(path, b.data, 0o644)
	defer os.Remove(path)
	var res, errs []string
	var xref string
	opened := false
	openErr := ""
	if !c.Guard("C04", k, 10, func() {
		rd, err := reader.Open(path)
		if err != nil {
			openErr = err.Error()
			return
		}
		opened = true
		defer rd.Close()
		xref = dumpXref(rd.XRefTable())
		for _, op := range k.Ops {
			if op == "c" {
				rd.ClearCache()
				continue
			}
			var n int
			fmt.Sscanf(op, "g%d", &n)
			obj, err := rd.GetObject(n)
			res = append(res, classify(obj, err))
			if err != nil {
				errs = append(errs, err.Error())
			} else {
				errs = append(errs, "")
			}
		}
	}) {
		return
	}
	if !opened && k.Hist.Fault != "" {
		c.Case(fmt.Sprint(k), false)
		c.Count("fault-open-error")
		return
	}
	if !c.Check("C04/open", opened, k, func() string { return "reader.Open failed on a well-formed revision history: " + openErr }) {
		return
	}
	c.Op(b.opLine(k.Ops), fmt.Sprintf("xref=[%s] res=[%s]", xref, strings.Join(res, ",")))
	nontrivial := false
	if k.Hist.Fault == "" {
		i := 0
		for _, op := range k.Ops {
			if op == "c" {
				continue
			}
			var n int
			fmt.Sscanf(op, "g%d", &n)
			want, ok := b.expect[n]
			if !ok {
				want = "e"
			}
			got := res[i]
			i++
			if want != "e" {
				nontrivial = true
			}
			key := "C04/newest-revision"
			if want == "e" {
				key = "C04/free-or-missing-must-error"
			}
			c.Check(key, got == want, k, func() string {
				return fmt.Sprintf("lookup #%d of object %d = %s, newest revision says %s (ops %v) err=%q", i, n, got, want, k.Ops, errs[i-1])
			})
		}
	}
	c.Case(fmt.Sprint(k), nontrivial)
}

func genOps(r *hx.Rng, maxNum int) []string {
	n := r.Range(3, 14)
	var ops []string
	for i := 0; i < n; i++ {
		switch {
		case r.Chance(1, 8):
			ops = append(ops, "c")
		case len(ops) > 0 && r.Chance(1, 4):
			ops = append(ops, hx.Pick(r, ops)) // repeat an earlier op
		default:
			ops = append(ops, fmt.Sprintf("g%d", r.Intn(maxNum+3)))
		}
	}
	return ops
}

func genHistory(r *hx.Rng) history {
	h := history{N: r.Range(1, 12), EOL: hx.Pick(r, []string{"\n", "\n", "\r\n"})}
	nrev := r.Range(1, 6)
	id := 100
	for ri := 0; ri < nrev; ri++ {
		rev := revision{Actions: map[int]action{}, W: hx.Pick(r, [][3]int{{1, 3, 2}, {1, 4, 2}, {1, 2, 1}, {2, 8, 3}, {1, 3, 0}})}
		rev.XrefStream = r.Chance(2, 5)
		rev.Flate = r.Bool()
		rev.Predictor = hx.Pick(r, []int{0, 0, 12, 10, 11, 13, 14, 15})
		rev.IndirectLn = r.Chance(1, 4)
		if r.Chance(1, 10) {
			rev.BigPad = r.Range(5000, 12000)
		}
		for n := 1; n <= h.N; n++ {
			p := 3
			if ri == 0 {
				p = 8
			}
			if !r.Chance(p, 10) {
				continue
			}
			if ri > 0 && r.Chance(1, 4) {
				rev.Actions[n] = action{Kind: "del"}
				continue
			}
			id++
			a := action{Kind: "put", ID: id, Dict: r.Chance(1, 3)}
			if r.Chance(1, 3) {
				a.Compressed = true
				rev.XrefStream = true
			}
			rev.Actions[n] = a
		}
		if rev.W[2] == 0 {
			// generation / index must fit in width 0: only usable without deletions/compressed
			for _, a := range rev.Actions {
				if a.Kind == "del" || a.Compressed {
					rev.W = [3]int{1, 3, 2}
				}
			}
			if ri == 0 {
				rev.W = [3]int{1, 3, 2} // entry 0 has generation 65535
			}
		}
		if rev.W[1] == 2 && rev.BigPad > 0 {
			rev.W = [3]int{1, 4, 2}
		}
		h.Revs = append(h.Revs, rev)
	}
	return h
}

// exhaustive enumerates all histories over n objects and r revisions where every
// object in every revision is one of {untouched, put plain, put compressed, deleted}.
func exhaustive(c *hx.Ctx, n, r int) {
	states := 1
	for i := 0; i < n*r; i++ {
		states *= 4
	}
	opsets := [][]string{{"g1", "g2", "g1"}, {"g2", "g1", "c", "g2"}, {"g3", "g2", "g1", "g3"}, {"g0", "g1", "g4", "g1"}}
	for code := 0; code < states; code++ {
		for xk := 0; xk < 2; xk++ {
			h := history{N: n, EOL: "\n"}
			v := code
			id := 10
			for ri := 0; ri < r; ri++ {
				rev := revision{Actions: map[int]action{}, W: [3]int{1, 3, 2}, XrefStream: xk == 1, Flate: ri%2 == 0}
				for o := 1; o <= n; o++ {
					st := v % 4
					v /= 4
					id++
					switch st {
					case 1:
						rev.Actions[o] = action{Kind: "put", ID: id}
					case 2:
						rev.Actions[o] = action{Kind: "put", ID: id, Compressed: true}
						rev.XrefStream = true
					case 3:
						rev.Actions[o] = action{Kind: "del"}
					}
				}
				h.Revs = append(h.Revs, rev)
			}
			runCase(c, kase{Hist: h, Ops: opsets[(code+xk)%len(opsets)]}, "x")
			c.Count(fmt.Sprintf("exhaustive-n%d-r%d", n, r))
		}
	}
}

// entryOps ties the byte-level entry parsers to Model/XrefBytes.lean: conforming entries
// (the round-trip theorems' domain) and damaged ones.
func entryOps(c *hx.Ctx) {
	r := hx.NewRng(c.Seed ^ 0xe117)
	for i := 0; i < c.N(1500, 40000); i++ {
		off := int64(r.U64() % uint64(hx.Pick(r, []int64{10, 1000, 100000, 10000000000})))
		gen := r.Intn(hx.Pick(r, []int{2, 100, 65536, 100000}))
		flag := hx.Pick(r, []string{"n", "f"})
		line := fmt.Sprintf("%010d %05d %s", off, gen, flag) + hx.Pick(r, []string{" ", "", " \r", "\r", "  "})
		conforming := true
		if r.Chance(1, 4) { // damage: wrong flag, shifted fields, signs, spaces, short line
			conforming = false
			b := []byte(line)
			switch r.Intn(6) {
			case 0:
				b[r.Intn(len(b))] = hx.Pick(r, []byte{' ', 'x', '+', '-', '9', 'n', 'f', '\t'})
			case 1:
				b = b[:r.Intn(len(b))]
			case 2:
				b = append([]byte{' '}, b...)
			case 3:
				b[17] = hx.Pick(r, []byte{'N', 'F', 'x', ' '})
			case 4:
				b[0] = '+'
			case 5:
				b[10] = hx.Pick(r, []byte{'0', 'x'})
			}
			line = string(b)
		}
		out := "err"
		if e, err := core.VerifParseEntry(line); err == nil {
			f := "f"
			if e.InUse {
				f = "n"
			}
			out = fmt.Sprintf("ok %d %d %s", e.Offset, e.Generation, f)
		}
		if conforming {
			want := fmt.Sprintf("ok %d %d %s", off, gen, flag)
			c.Check("C04/classic-entry-roundtrip", out == want, map[string]string{"line": line}, func() string {
				return fmt.Sprintf("parseEntry(%q) = %s, the writer meant %s", line, out, want)
			})
		}
		c.Op("c04.xent "+hx.HexS(line), out)
		c.Case("xent"+line, out != "err")
	}
	for i := 0; i < c.N(1500, 40000); i++ {
		w := []int{r.Intn(3), r.Intn(9), r.Intn(5)}
		kind := r.Intn(3)
		if w[0] == 0 {
			kind = 1
		}
		lim := func(wd int) uint64 {
			if wd >= 8 {
				return 1 << 62
			}
			return uint64(1) << uint(8*wd)
		}
		f1 := int64(r.U64() % lim(w[1]))
		f2 := int64(r.U64() % lim(w[2]))
		if f2 > 1<<31 {
			f2 %= 1 << 31
		}
		var data []byte
		be := func(v int64, wd int) {
			for k := wd - 1; k >= 0; k-- {
				data = append(data, byte(v>>(8*uint(k))))
			}
		}
		be(int64(kind), w[0])
		be(f1, w[1])
		be(f2, w[2])
		conforming := true
		if r.Chance(1, 5) {
			conforming = false
			if len(data) > 0 && r.Bool() {
				data = data[:r.Intn(len(data))]
			} else if w[0] > 0 {
				data[w[0]-1] = byte(3 + r.Intn(200))
			}
		}
		data = append(data, r.Bytes(r.Intn(4))...)
		out := "err"
		if e, n, err := core.VerifParseXRefStreamEntry(data, w); err == nil {
			out = fmt.Sprintf("ok %d %d %d %d", int(e.Type), e.Offset, e.Generation, n)
		}
		if conforming {
			want := fmt.Sprintf("ok %d %d %d %d", kind, f1, f2, w[0]+w[1]+w[2])
			c.Check("C04/stream-entry-roundtrip", out == want, map[string]interface{}{"w": w, "data": hx.Hex(data)}, func() string {
				return fmt.Sprintf("parseXRefStreamEntry(%x, %v) = %s, the writer meant %s", data, w, out, want)
			})
		}
		c.Op(fmt.Sprintf("c04.xsent %d,%d,%d %s", w[0], w[1], w[2], hx.Hex(data)), out)
		c.Case(fmt.Sprint("xsent", w, data), out != "err")
	}
}

func Run(c *hx.Ctx) {
	entryOps(c)
	c.Rep.Rule = "revision histories (add/replace/delete per object per revision; classic or stream xref per revision; object-stream membership; indirect /Length; W widths; predictors) rendered by the harness PDF writer, then lookup sequences with repeats and ClearCache; exhaustive for n=2 objects x r<=2 (thorough: r<=3) revisions x both xref kinds; non-trivial = at least one lookup expected to succeed; distinct by (history, ops)"
	exhaustive(c, 2, 1)
	exhaustive(c, 2, 2)
	if c.Thorough() {
		exhaustive(c, 2, 3)
		exhaustive(c, 3, 2)
	}
	n := c.N(600, 12000)
	for i := 0; i < n; i++ {
		r := c.Rng.Fork(uint64(i))
		h := genHistory(r)
		if r.Chance(1, 5) {
			h.Fault = hx.Pick(r, []string{"prev-cycle", "prev-self", "wrong-header", "idx-out-of-range", "idx-at-len", "idx-swapped", "stm-not-objstm", "stm-in-stm", "stm-missing"})
			c.Count("fault=" + h.Fault)
		}
		if h.Fault != "" && !strings.HasPrefix(h.Fault, "prev-") {
			// make the newest revision rich enough for the fault to bite
			last := &h.Revs[len(h.Revs)-1]
			last.XrefStream = true
			last.W = [3]int{1, 4, 2}
			for n := 1; n <= 4; n++ {
				last.Actions[n] = action{Kind: "put", ID: 900 + n, Compressed: n <= 2, Dict: n == 2}
			}
			if h.N < 4 {
				h.N = 4
			}
		}
		b := build(h)
		k := kase{Hist: h, Ops: genOps(r, b.maxNum)}
		for _, n := range b.hot {
			k.Ops = append(k.Ops, fmt.Sprintf("g%d", n))
		}
		runCase(c, k, "r")
		c.Count(fmt.Sprintf("revisions=%d", len(h.Revs)))
	}
}

func Replay(c *hx.Ctx, m map[string]interface{}) {
	var k kase
	hx.Remarshal(m, &k)
	runCase(c, k, "replay")
}
