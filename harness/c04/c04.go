// Package c04: object lookup returns the newest revision, in any access order.
package c04

import (
	"encoding/json"
	"fmt"
	"os"
	"path/filepath"
	"sort"
	"strings"

	"github.com/tsawler/tabula/core"
	"github.com/tsawler/tabula/reader"
	"github.com/tsawler/tabula/resolver"

	"verifharness/hx"
	"verifharness/writers"
)

func init() { hx.Register("C04", Run, Replay) }

// ---- logical history ---------------------------------------------------------------

type action struct {
	Kind       string `json:"kind"` // "put" | "del"
	Dict       bool   `json:"dict,omitempty"`
	Arr        bool   `json:"arr,omitempty"` // top-level array [ ID extra ] (plain objects only)
	Compressed bool   `json:"compressed,omitempty"`
	ID         int    `json:"id,omitempty"`
	// Extra is a further value stored in the container (<< /V ID /X extra >> or [ ID extra ]):
	// integers, indirect references, nested arrays and dictionaries.
	Extra *val `json:"extra,omitempty"`
}

// val is a logical PDF value: "i" integer N, "r" reference to object N (generation 0),
// "a" array of E, "d" dictionary with the values E under the keys K0, K1, …
type val struct {
	K string `json:"k"`
	N int    `json:"n,omitempty"`
	E []val  `json:"e,omitempty"`
}

// pdf is the value in PDF syntax.
func (v val) pdf() string {
	switch v.K {
	case "r":
		return fmt.Sprintf("%d 0 R", v.N)
	case "a":
		parts := []string{"["}
		for _, e := range v.E {
			parts = append(parts, e.pdf())
		}
		return strings.Join(append(parts, "]"), " ")
	case "d":
		parts := []string{"<<"}
		for i, e := range v.E {
			parts = append(parts, fmt.Sprintf("/K%d", i), e.pdf())
		}
		return strings.Join(append(parts, ">>"), " ")
	}
	return fmt.Sprintf("%d", v.N)
}

// deep is the canonical rendering of the value: with look == nil as the file stores it
// (references stay references), else with every reference replaced by what look(n) says
// is the deep value of the newest definition of object n (ok=false if some reachable
// object is not a plain user object: deleted, never defined, or a container stream).
func (v val) deep(look func(n int) (string, bool)) (string, bool) {
	switch v.K {
	case "r":
		if look == nil {
			return fmt.Sprintf("%dR", v.N), true
		}
		return look(v.N)
	case "a", "d":
		ok := true
		var parts []string
		for i, e := range v.E {
			s, o := e.deep(look)
			ok = ok && o
			if v.K == "d" {
				s = fmt.Sprintf("K%d:%s", i, s)
			}
			parts = append(parts, s)
		}
		if v.K == "d" {
			sort.Strings(parts)
			return "{" + strings.Join(parts, ",") + "}", ok
		}
		return "[" + strings.Join(parts, ",") + "]", ok
	}
	return fmt.Sprintf("i%d", v.N), true
}

// top is the whole object of a put action as a val.
func (a action) top() (v val, keys []string) {
	id := val{K: "i", N: a.ID}
	switch {
	case a.Arr:
		v = val{K: "a", E: []val{id}}
	case a.Dict:
		v = val{K: "d", E: []val{id}}
	default:
		return id, nil
	}
	if a.Extra != nil {
		v.E = append(v.E, *a.Extra)
	}
	return v, []string{"V", "X"}
}

// full renders the object of a put action: stored (look == nil) or deep.
func (a action) full(look func(n int) (string, bool)) (string, bool) {
	v, keys := a.top()
	if v.K != "d" {
		return v.deep(look)
	}
	ok := true
	var parts []string
	for i, e := range v.E {
		s, o := e.deep(look)
		ok = ok && o
		parts = append(parts, keys[i]+":"+s)
	}
	return "{" + strings.Join(parts, ",") + "}", ok
}

type revision struct {
	Actions    map[int]action `json:"actions"`
	XrefStream bool           `json:"xref_stream"`
	W          [3]int         `json:"w"`
	Predictor  int            `json:"predictor"`
	Flate      bool           `json:"flate"`
	IndirectLn bool           `json:"indirect_len"` // object streams carry /Length by reference
	BigPad     int            `json:"big_pad"`      // padding bytes inside object streams
}

type history struct {
	N    int        `json:"n"`
	Revs []revision `json:"revs"`
	EOL  string     `json:"eol"`
	// Fault: optional inconsistency injected into the physical file (no oracle then)
	Fault string `json:"fault,omitempty"`
}

type kase struct {
	Hist history  `json:"history"`
	Ops  []string `json:"ops"`
	// MaxDepth: resolver.WithMaxDepth of the long-lived resolver (0 = the default, 100)
	MaxDepth int `json:"max_depth,omitempty"`
}

// physical description sent to the model
type physSec struct {
	off     int64
	prev    int64
	entries []string // num.type.f1.f2 in Set order
}

type built struct {
	data    []byte
	secs    []physSec
	objs    []string // off:num:val
	start   int64
	expect  map[int]string // oracle: object number -> expected token
	newest  map[int]action // oracle: object number -> newest action of the logical history
	maxNum  int
	inflate []writers.InflatePair // every zlib stream the writer produced
	special map[int]bool // container numbers (objstm / xref stream / length holders)
	hot     []int        // object numbers touched by an injected fault
}

func body(a action) string {
	x := ""
	if a.Extra != nil {
		x = a.Extra.pdf() + " "
	}
	if a.Arr {
		return fmt.Sprintf("[ %d %s]", a.ID, x)
	}
	if a.Dict {
		if x != "" {
			x = "/X " + x
		}
		return fmt.Sprintf("<< /V %d %s>>", a.ID, x)
	}
	return fmt.Sprintf("%d", a.ID)
}

// tok is the shallow class of the object, as the model sees it.
func tok(a action) string {
	if a.Arr {
		return "o"
	}
	if a.Dict {
		return fmt.Sprintf("d%d", a.ID)
	}
	return fmt.Sprintf("i%d", a.ID)
}

func build(h history) (bp built) {
	p := writers.NewPDF(h.EOL)
	p.Tr = &writers.Trace{}
	defer func() { bp.inflate = p.Tr.Inflate }()
	b := built{expect: map[int]string{}, special: map[int]bool{}, newest: map[int]action{}}
	next := h.N + 1 // fresh object numbers for containers
	prev := int64(-1)
	gens := map[int]int{}
	for ri, rev := range h.Revs {
		entries := map[int]writers.XEntry{}
		var order []string
		set := func(n int, e writers.XEntry) { entries[n] = e }
		if ri == 0 {
			set(0, writers.XEntry{Type: 0, F1: 0, F2: 65535})
		}
		nums := make([]int, 0, len(rev.Actions))
		for n := range rev.Actions {
			nums = append(nums, n)
		}
		sort.Ints(nums)
		var comp []int
		for _, n := range nums {
			a := rev.Actions[n]
			b.newest[n] = a
			switch {
			case a.Kind == "del":
				gens[n]++
				set(n, writers.XEntry{Type: 0, F1: 0, F2: gens[n]})
				b.expect[n] = "e"
			case a.Compressed:
				comp = append(comp, n)
			default:
				off := p.Obj(n, 0, body(a))
				set(n, writers.XEntry{Type: 1, F1: off, F2: 0})
				b.objs = append(b.objs, fmt.Sprintf("%d:%d:%s", off, n, tok(a)))
				b.expect[n] = tok(a)
			}
		}
		if len(comp) > 0 {
			// one object stream per revision; member order reversed so index != rank
			stm := next
			next++
			var ms []writers.ObjStmMember
			var desc []string
			for i := len(comp) - 1; i >= 0; i-- {
				n := comp[i]
				a := rev.Actions[n]
				ms = append(ms, writers.ObjStmMember{Num: n, Body: body(a)})
				k := 0
				if a.Dict {
					k = 1
				}
				desc = append(desc, fmt.Sprintf("%d.%d.%d", n, k, a.ID))
				set(n, writers.XEntry{Type: 2, F1: int64(stm), F2: len(ms) - 1})
				b.expect[n] = tok(a)
			}
			if rev.BigPad > 0 {
				ms = append(ms, writers.ObjStmMember{Num: next + 50, Body: "(" + strings.Repeat("x", rev.BigPad) + ")"})
				desc = append(desc, fmt.Sprintf("%d.%d.%d", next+50, 0, 0))
			}
			lenRef := 0
			if rev.IndirectLn {
				lenRef = next
				next++
			}
			var hook func(*writers.RawObjStm)
			stmDesc := "s" + strings.Join(desc, "+")
			if ri == len(h.Revs)-1 && strings.HasPrefix(h.Fault, "hdr-") {
				hook, stmDesc = headerFault(h.Fault, desc)
				for i := len(comp) - 1; i >= 0; i-- {
					b.hot = append(b.hot, comp[i])
				}
			}
			off := p.ObjStmRaw(stm, ms, rev.Flate, lenRef, hook)
			set(stm, writers.XEntry{Type: 1, F1: off, F2: 0})
			b.objs = append(b.objs, fmt.Sprintf("%d:%d:%s", off, stm, stmDesc))
			b.expect[stm] = "S"
			b.special[stm] = true
			if lenRef > 0 {
				// the length holder is written AFTER the stream (forces nested resolution
				// while the stream's parser is suspended)
				ln := p.LastStreamLen
				loff := p.Obj(lenRef, 0, fmt.Sprintf("%d", ln))
				set(lenRef, writers.XEntry{Type: 1, F1: loff, F2: 0})
				b.objs = append(b.objs, fmt.Sprintf("%d:%d:i%d", loff, lenRef, ln))
				b.expect[lenRef] = fmt.Sprintf("i%d", ln)
				b.special[lenRef] = true
			}
		}
		if ri == len(h.Revs)-1 && !strings.HasPrefix(h.Fault, "hdr-") {
			b.hot = applyFault(h.Fault, entries, comp)
		}
		var off int64
		trailer := "/Root 1 0 R"
		usePrev := prev
		if ri == 0 && h.Fault == "prev-cycle" {
			usePrev = 9999999999 // patched below to the newest section's offset
		}
		if ri == len(h.Revs)-1 && h.Fault == "prev-self" {
			usePrev = 8888888888 // patched below to this section's own offset
		}
		if rev.XrefStream {
			xn := next
			next++
			off = p.XrefStream(xn, entries, trailer, usePrev, rev.W, rev.Flate, rev.Predictor, next)
			b.objs = append(b.objs, fmt.Sprintf("%d:%d:t", off, xn))
			b.expect[xn] = "S"
			b.special[xn] = true
		} else {
			off = p.XrefTable(entries, trailer+fmt.Sprintf(" /Size %d", next), usePrev, " \n")
		}
		keys := make([]int, 0, len(entries))
		for n := range entries {
			keys = append(keys, n)
		}
		sort.Ints(keys)
		for _, n := range keys {
			e := entries[n]
			order = append(order, fmt.Sprintf("%d.%d.%d.%d", n, e.Type, e.F1, e.F2))
		}
		b.secs = append(b.secs, physSec{off: off, prev: usePrev, entries: order})
		prev = off
		b.start = off
	}
	b.maxNum = next
	b.data = p.Buf.Bytes()
	patch := func(placeholder int64, val int64) {
		b.data = []byte(strings.Replace(string(b.data), fmt.Sprint(placeholder), fmt.Sprintf("%010d", val), 1))
		for i := range b.secs {
			if b.secs[i].prev == placeholder {
				b.secs[i].prev = val
			}
		}
	}
	if h.Fault == "prev-cycle" {
		patch(9999999999, b.start)
	}
	if h.Fault == "prev-self" {
		patch(8888888888, b.start)
	}
	return b
}

// headerFault damages the header of the newest revision's object stream (the pairs
// "number offset" in front of the members, or /N and /First that delimit them) and says
// how the model is to see the stream: a header that core.(*ObjectStream).parseHeader
// refuses makes every member unreachable (the stream is then described as a plain
// stream), a shorter /N hides the last members, exchanged offsets exchange the bodies
// under the numbers.
func headerFault(fault string, desc []string) (func(*writers.RawObjStm), string) {
	plain := "s" + strings.Join(desc, "+")
	last := len(desc) - 1
	switch fault {
	case "hdr-offset-outside":
		return func(r *writers.RawObjStm) { r.Offsets[last] = "99999999" }, "t"
	case "hdr-offset-negative":
		return func(r *writers.RawObjStm) { r.Offsets[last] = "-1" }, "t"
	case "hdr-number-not-int":
		return func(r *writers.RawObjStm) { r.Nums[last] = "/X" }, "t"
	case "hdr-n-too-big":
		return func(r *writers.RawObjStm) { r.NText = fmt.Sprint(len(r.Nums) + 2) }, "t"
	case "hdr-first-beyond":
		return func(r *writers.RawObjStm) { r.FirstText = "99999999" }, "t"
	case "hdr-n-smaller":
		return func(r *writers.RawObjStm) { r.NText = fmt.Sprint(len(r.Nums) - 1) }, "s" + strings.Join(desc[:last], "+")
	case "hdr-offsets-swapped":
		if len(desc) < 2 {
			return nil, plain
		}
		// pair i keeps its number and gets the body of the other member
		d := append([]string(nil), desc...)
		a, b := strings.SplitN(d[0], ".", 2), strings.SplitN(d[1], ".", 2)
		d[0], d[1] = a[0]+"."+b[1], b[0]+"."+a[1]
		return func(r *writers.RawObjStm) { r.Offsets[0], r.Offsets[1] = r.Offsets[1], r.Offsets[0] }, "s" + strings.Join(d, "+")
	}
	return nil, plain
}

// applyFault makes the newest cross-reference section inconsistent with the file in
// one specific way; the physical description sent to the model reflects it.
func applyFault(fault string, entries map[int]writers.XEntry, comp []int) (hot []int) {
	var plain, all []int
	for n, e := range entries {
		if n == 0 {
			continue
		}
		all = append(all, n)
		if e.Type == 1 {
			plain = append(plain, n)
		}
	}
	sort.Ints(plain)
	sort.Ints(all)
	switch fault {
	case "wrong-header":
		if len(plain) >= 2 {
			hot = plain[:2]
			e := entries[plain[0]]
			e.F1 = entries[plain[1]].F1
			entries[plain[0]] = e
		}
	case "idx-out-of-range":
		if len(comp) > 0 {
			hot = comp[:1]
			e := entries[comp[0]]
			e.F2 += 40
			entries[comp[0]] = e
		}
	case "idx-at-len":
		if len(comp) > 0 {
			hot = comp[:1]
			e := entries[comp[0]]
			e.F2 = len(comp)
			entries[comp[0]] = e
		}
	case "idx-swapped":
		if len(comp) >= 2 {
			hot = comp[:2]
			a, b := entries[comp[0]], entries[comp[1]]
			a.F2, b.F2 = b.F2, a.F2
			entries[comp[0]], entries[comp[1]] = a, b
		}
	case "stm-not-objstm":
		if len(comp) > 0 && len(plain) > 0 {
			hot = comp[:1]
			e := entries[comp[0]]
			e.F1 = int64(plain[0])
			entries[comp[0]] = e
		}
	case "stm-in-stm":
		if len(comp) >= 2 {
			hot = comp[:2]
			e := entries[comp[0]]
			e.F1 = int64(comp[1])
			entries[comp[0]] = e
		}
	case "stm-missing":
		if len(comp) > 0 {
			hot = comp[:1]
			e := entries[comp[0]]
			e.F1 = 4000
			entries[comp[0]] = e
		}
	case "offset-garbage":
		if len(plain) > 0 {
			e := entries[plain[0]]
			e.F1 += 3
			entries[plain[0]] = e
			hot = plain[:1]
		}
	}
	return hot
}

func (b built) opLine(ops []string) string {
	var secs []string
	for _, s := range b.secs {
		prev := "-"
		if s.prev >= 0 {
			prev = fmt.Sprint(s.prev)
		}
		secs = append(secs, fmt.Sprintf("%d/%s/%s", s.off, prev, strings.Join(s.entries, ",")))
	}
	return fmt.Sprintf("c04.run S=%d X=%s O=%s P=%s", b.start, strings.Join(secs, "|"), strings.Join(b.objs, ";"), strings.Join(ops, ","))
}

func canon(k kase) string {
	j, _ := json.Marshal(k)
	return string(j)
}

func classify(obj core.Object, err error) string {
	if err != nil {
		return "e"
	}
	switch v := obj.(type) {
	case core.Int:
		return fmt.Sprintf("i%d", int(v))
	case core.Dict:
		if id, ok := v.Get("V").(core.Int); ok {
			return fmt.Sprintf("d%d", int(id))
		}
		return "o"
	case *core.Stream:
		return "S"
	}
	return "o"
}

func dumpXref(t *core.XRefTable) string {
	nums := make([]int, 0, len(t.Entries))
	for n := range t.Entries {
		nums = append(nums, n)
	}
	sort.Ints(nums)
	var out []string
	for _, n := range nums {
		e := t.Entries[n]
		switch e.Type {
		case core.XRefEntryFree:
			out = append(out, fmt.Sprintf("%d:0:%d", n, e.Offset))
		case core.XRefEntryUncompressed:
			out = append(out, fmt.Sprintf("%d:1:%d", n, e.Offset))
		case core.XRefEntryCompressed:
			out = append(out, fmt.Sprintf("%d:2:%d:%d", n, e.Offset, e.Generation))
		}
	}
	return strings.Join(out, ",")
}

// render is the canonical form of a looked-up value, at full depth: references stay
// visible as references ("5R"), so a stored value and its resolved form differ.
func render(o core.Object, depth int) string {
	if depth > 40 {
		return "…"
	}
	switch v := o.(type) {
	case nil:
		return "nil"
	case core.Int:
		return fmt.Sprintf("i%d", int(v))
	case core.IndirectRef:
		if v.Generation != 0 {
			return fmt.Sprintf("%d.%dR", v.Number, v.Generation)
		}
		return fmt.Sprintf("%dR", v.Number)
	case core.Array:
		parts := make([]string, len(v))
		for i, e := range v {
			parts[i] = render(e, depth+1)
		}
		return "[" + strings.Join(parts, ",") + "]"
	case core.Dict:
		keys := make([]string, 0, len(v))
		for k := range v {
			keys = append(keys, k)
		}
		sort.Strings(keys)
		parts := make([]string, len(keys))
		for i, k := range keys {
			parts[i] = k + ":" + render(v[k], depth+1)
		}
		return "{" + strings.Join(parts, ",") + "}"
	case *core.Stream:
		return "S"
	}
	return fmt.Sprintf("o(%T)", o)
}

// wantStored is what GetObject(n) / Resolve(n 0 R) must yield by the logical history:
// the newest revision's value exactly as stored, or "e".
func (b built) wantStored(n int) string {
	if b.special[n] {
		return b.expect[n]
	}
	a, ok := b.newest[n]
	if !ok || a.Kind == "del" {
		return "e"
	}
	s, _ := a.full(nil)
	return s
}

// wantDeep is what a deep resolution of object n must yield: every reference replaced
// by the newest value of its target. ok=false where the property text does not fix the
// answer (a reachable target is deleted, undefined or a container stream).
func (b built) wantDeep(n int) (string, bool) {
	if b.special[n] {
		return "", false
	}
	a, ok := b.newest[n]
	if !ok || a.Kind == "del" {
		return "e", true // the lookup of n itself must fail
	}
	var look func(m int) (string, bool)
	look = func(m int) (string, bool) {
		t, ok := b.newest[m]
		if b.special[m] || !ok || t.Kind == "del" {
			return "?", false
		}
		return t.full(look)
	}
	return a.full(look)
}

// Lookup operations of a sequence: c = ClearCache; g<n> = GetObject(n); r<n> =
// Resolve(n 0 R); D<n> = ResolveDeep(n 0 R); E<n> = ResolveDeep(GetObject(n)) (the
// container handed out by a lookup is handed back); x<n> / y<n> = the resolver
// package's GetObjectResolvedDeep(n) / ResolveReferenceDeep(n 0 R) on one resolver
// bound to the reader. Those two wrappers clear the resolver's state after every call; the
// package's own entry points do not, and a caller that keeps one resolver for the life
// of the document goes through them: s<n> = Resolve(n 0 R) (shallow), p<n> =
// ResolveDeep(n 0 R), q<n> = ResolveDeep(GetObject(n)), z<n> = GetObjectResolved(n)
// (shallow), all on the same long-lived resolver as x/y. A lookup that fails (a deep
// resolution that runs into a deleted or never-defined object, a damaged container, a
// limit) is a lookup like any other: what comes after it must not depend on it.
//
// Further entry points of the resolver package on the same long-lived resolver: u<n> =
// ResolveReference(n 0 R) and w<n> = GetObject(n) (both shallow), t<n> = ResolveDict /
// ResolveArray of the container GetObject(n) yields (an error when it is no container),
// R = Reset() (no answer, like c).
func parseOp(op string) (kind byte, n int) {
	if op == "c" || op == "" {
		return 'c', 0
	}
	if op == "R" {
		return 'R', 0
	}
	fmt.Sscanf(op[1:], "%d", &n)
	return op[0], n
}

// noAnswer: ClearCache and Reset.
func noAnswer(kind byte) bool { return kind == 'c' || kind == 'R' }

func isDeep(kind byte) bool {
	return kind == 'D' || kind == 'E' || kind == 'x' || kind == 'y' || kind == 'p' || kind == 'q' || kind == 't'
}

// isStored: the lookups that must yield the newest value exactly as stored.
func isStored(kind byte) bool {
	return kind == 'g' || kind == 'r' || kind == 's' || kind == 'z' || kind == 'u' || kind == 'w'
}

// onResolver: the deep lookups that go through the resolver package (bounded by its maxDepth).
func onResolver(kind byte) bool {
	return kind == 'x' || kind == 'y' || kind == 'p' || kind == 'q' || kind == 't'
}

type session struct {
	rd  *reader.Reader
	res *resolver.ObjectResolver
}

func openSession(path string) (*session, error) { return openSessionD(path, 0) }

func openSessionD(path string, maxDepth int) (*session, error) {
	rd, err := reader.Open(path)
	if err != nil {
		return nil, err
	}
	if maxDepth > 0 {
		return &session{rd: rd, res: resolver.NewResolver(rd, resolver.WithMaxDepth(maxDepth))}, nil
	}
	return &session{rd: rd, res: resolver.NewResolver(rd)}, nil
}

func (s *session) do(op string) (core.Object, error) {
	kind, n := parseOp(op)
	ref := core.IndirectRef{Number: n, Generation: 0}
	switch kind {
	case 'c':
		s.rd.ClearCache()
		return nil, nil
	case 'g':
		return s.rd.GetObject(n)
	case 'r':
		return s.rd.Resolve(ref)
	case 'D':
		return s.rd.ResolveDeep(ref)
	case 'E':
		obj, err := s.rd.GetObject(n)
		if err != nil {
			return nil, err
		}
		return s.rd.ResolveDeep(obj)
	case 'x':
		return s.res.GetObjectResolvedDeep(n)
	case 'y':
		return s.res.ResolveReferenceDeep(ref)
	case 's':
		return s.res.Resolve(ref)
	case 'p':
		return s.res.ResolveDeep(ref)
	case 'q':
		obj, err := s.rd.GetObject(n)
		if err != nil {
			return nil, err
		}
		return s.res.ResolveDeep(obj)
	case 'z':
		return s.res.GetObjectResolved(n)
	case 'u':
		return s.res.ResolveReference(ref)
	case 'w':
		return s.res.GetObject(n)
	case 't':
		obj, err := s.rd.GetObject(n)
		if err != nil {
			return nil, err
		}
		switch v := obj.(type) {
		case core.Dict:
			return s.res.ResolveDict(v)
		case core.Array:
			return s.res.ResolveArray(v)
		}
		return nil, fmt.Errorf("harness: object %d is no container", n)
	case 'R':
		s.res.Reset()
		return nil, nil
	}
	return nil, fmt.Errorf("harness: unknown op %q", op)
}

func full(obj core.Object, err error) string {
	if err != nil {
		return "e"
	}
	return render(obj, 0)
}

// runCase writes the file, runs the lookup sequence on the implementation,
// emits the correspondence op and evaluates the statement-level oracles.
func runCase(c *hx.Ctx, k kase, tag string) {
	b := build(k.Hist)
	path := filepath.Join(c.OutDir, "c04-"+tag+".pdf")
	os.WriteFile(path, b.data, 0o644)
	defer os.Remove(path)
	var res, errs []string // shallow class / error text, one per non-clear op
	var fulls []string     // full rendering, one per non-clear op
	var modelOps []string  // the shallow lookups (GetObject / Resolve) and cache clears, for the model
	var modelRes []string
	alone := map[string]string{} // op -> full rendering when it is the only lookup on a fresh reader
	var xref, xrefFull string
	var byteNums []int     // the GetObject / Resolve lookups, for the byte-level model
	var byteRes []string
	var apiRes []string // every op, for the model of the whole API on the cached reader
	opened := false
	openErr := ""
	if !c.Guard("C04", k, 10, func() {
		s, err := openSessionD(path, k.MaxDepth)
		if err != nil {
			openErr = err.Error()
			return
		}
		opened = true
		defer s.rd.Close()
		xref = dumpXref(s.rd.XRefTable())
		xrefFull = dumpXrefFull(s.rd.XRefTable())
		for _, op := range k.Ops {
			kind, _ := parseOp(op)
			obj, err := s.do(op)
			if noAnswer(kind) {
				if kind == 'c' {
					modelOps = append(modelOps, "c")
				}
				apiRes = append(apiRes, "-")
				continue
			}
			apiRes = append(apiRes, renderDeepLookup(obj, err))
			res = append(res, classify(obj, err))
			fulls = append(fulls, full(obj, err))
			if err != nil {
				errs = append(errs, err.Error())
			} else {
				errs = append(errs, "")
			}
			if isStored(kind) {
				_, n := parseOp(op)
				modelOps = append(modelOps, fmt.Sprintf("g%d", n))
				modelRes = append(modelRes, classify(obj, err))
				byteNums = append(byteNums, n)
				byteRes = append(byteRes, renderLookup(obj, err))
			}
		}
		for _, op := range k.Ops {
			if kind, _ := parseOp(op); noAnswer(kind) {
				continue
			}
			if _, done := alone[op]; done {
				continue
			}
			f, err := openSessionD(path, k.MaxDepth)
			if err != nil {
				alone[op] = "open-error"
				continue
			}
			alone[op] = full(f.do(op))
			f.rd.Close()
		}
	}) {
		return
	}
	if !opened && k.Hist.Fault != "" {
		c.Case(canon(k), false)
		c.Count("fault-open-error")
		return
	}
	if !c.Check("C04/open", opened, k, func() string { return "reader.Open failed on a well-formed revision history: " + openErr }) {
		return
	}
	c.Op(b.opLine(modelOps), fmt.Sprintf("xref=[%s] res=[%s]", xref, strings.Join(modelRes, ",")))
	infl := inflateTable(append(b.inflate, scanInflate(b.data)...))
	fileOp(c, b.data, infl, xrefFull, byteNums, byteRes)
	apiOp(c, b.data, infl, k.MaxDepth, "full", k.Ops, apiRes)
	nontrivial := false
	i := 0
	for _, op := range k.Ops {
		kind, n := parseOp(op)
		if noAnswer(kind) {
			continue
		}
		got, gotFull := res[i], fulls[i]
		i++
		c.Count("op=" + string(kind))
		// "The answer does not depend on the order of lookups or on what was looked up
		// before": the same lookup as the only one on a freshly opened reader.
		c.Check("C04/answer-depends-on-earlier-lookups", gotFull == alone[op], k, func() string {
			return fmt.Sprintf("lookup #%d (%s) = %s after the earlier operations, but %s as the only lookup on a freshly opened reader (ops %v)", i, op, gotFull, alone[op], k.Ops)
		})
		if k.Hist.Fault != "" {
			continue
		}
		if isDeep(kind) {
			want, fixed := b.wantDeep(n)
			notContainer := false
			if a, ok := b.newest[n]; kind == 't' && ok && a.Kind != "del" && !a.Dict && !a.Arr {
				notContainer = true // ResolveDict / ResolveArray need a container
			}
			switch {
			case notContainer:
				c.Count("container-lookup-of-a-scalar")
			case k.MaxDepth != 0 && onResolver(kind):
				c.Count("deep-on-bounded-resolver") // the limit may refuse it: compared with the model and the fresh reader only
			case !fixed:
				c.Count("deep-target-unresolvable")
			case want == "e":
				c.Check("C04/free-or-missing-must-error", gotFull == "e", k, func() string {
					return fmt.Sprintf("lookup #%d (%s) = %s, but object %d is free or was never defined (ops %v)", i, op, gotFull, n, k.Ops)
				})
			default:
				nontrivial = true
				if strings.Contains(b.wantStored(n), "R") {
					c.Count("deep-through-references")
				}
				c.Check("C04/deep-resolve-newest-revision", gotFull == want, k, func() string {
					return fmt.Sprintf("lookup #%d (%s) = %s, the newest revisions resolve to %s (ops %v) err=%q", i, op, gotFull, want, k.Ops, errs[i-1])
				})
			}
			continue
		}
		want, ok := b.expect[n]
		if !ok {
			want = "e"
		}
		if want != "e" {
			nontrivial = true
		}
		key := "C04/newest-revision"
		if want == "e" {
			key = "C04/free-or-missing-must-error"
		}
		if c.Check(key, got == want, k, func() string {
			return fmt.Sprintf("lookup #%d of object %d = %s, newest revision says %s (ops %v) err=%q", i, n, got, want, k.Ops, errs[i-1])
		}) {
			wantFull := b.wantStored(n)
			c.Check("C04/lookup-value-not-as-stored", gotFull == wantFull, k, func() string {
				return fmt.Sprintf("lookup #%d (%s) = %s, the newest revision stores %s (ops %v)", i, op, gotFull, wantFull, k.Ops)
			})
		}
	}
	c.Case(canon(k), nontrivial)
}

func genOps(r *hx.Rng, maxNum int) []string {
	n := r.Range(3, 14)
	kinds := []string{"g", "g", "g", "g", "g", "r", "r", "D", "D", "E", "x", "y", "s", "s", "p", "p", "q", "z", "t", "u", "w"}
	var ops []string
	for i := 0; i < n; i++ {
		switch {
		case r.Chance(1, 8):
			ops = append(ops, "c")
		case r.Chance(1, 16):
			ops = append(ops, "R")
		case len(ops) > 0 && r.Chance(1, 4):
			ops = append(ops, hx.Pick(r, ops)) // repeat an earlier op
		case len(ops) > 0 && r.Chance(1, 3):
			// the object of an earlier lookup again, through another kind of lookup
			if kind, m := parseOp(hx.Pick(r, ops)); !noAnswer(kind) {
				ops = append(ops, fmt.Sprintf("%s%d", hx.Pick(r, kinds), m))
				break
			}
			fallthrough
		default:
			ops = append(ops, fmt.Sprintf("%s%d", hx.Pick(r, kinds), r.Intn(maxNum+3)))
		}
	}
	return ops
}

// genVal draws a value for the inside of a container: integers, references to the
// objects in below (the user objects of a lower level, so reference graphs are acyclic
// whatever mix of revisions is newest) or, rarely, to object 0 / a number above the
// user objects (containers, length holders, never-defined numbers), nested arrays and
// dictionaries.
func genVal(r *hx.Rng, depth int, below []int, n int) val {
	switch c := r.Intn(10); {
	case c < 4 && len(below) > 0:
		return val{K: "r", N: hx.Pick(r, below)}
	case c < 5 && r.Chance(1, 3):
		return val{K: "r", N: hx.Pick(r, []int{0, n + 1, n + 2, n + r.Range(1, 10)})}
	case c < 8 && depth < 2:
		v := val{K: hx.Pick(r, []string{"a", "d"})}
		for i, m := 0, r.Range(0, 3); i < m; i++ {
			v.E = append(v.E, genVal(r, depth+1, below, n))
		}
		return v
	}
	return val{K: "i", N: r.Intn(1000)}
}

func genHistory(r *hx.Rng) history {
	h := history{N: r.Range(1, 12), EOL: hx.Pick(r, []string{"\n", "\n", "\r\n"})}
	nrev := r.Range(1, 6)
	id := 100
	// every object number has a level; a container only refers to numbers of lower levels
	level := make([]int, h.N+1)
	for n := 1; n <= h.N; n++ {
		level[n] = r.Intn(4)
	}
	for ri := 0; ri < nrev; ri++ {
		rev := revision{Actions: map[int]action{}, W: hx.Pick(r, [][3]int{{1, 3, 2}, {1, 4, 2}, {1, 2, 1}, {2, 8, 3}, {1, 3, 0}})}
		rev.XrefStream = r.Chance(2, 5)
		rev.Flate = r.Bool()
		rev.Predictor = hx.Pick(r, []int{0, 0, 12, 10, 11, 13, 14, 15})
		rev.IndirectLn = r.Chance(1, 4)
		if r.Chance(1, 10) {
			rev.BigPad = r.Range(5000, 12000)
		}
		for n := 1; n <= h.N; n++ {
			p := 3
			if ri == 0 {
				p = 8
			}
			if !r.Chance(p, 10) {
				continue
			}
			if ri > 0 && r.Chance(1, 4) {
				rev.Actions[n] = action{Kind: "del"}
				continue
			}
			id++
			a := action{Kind: "put", ID: id}
			if r.Chance(1, 3) {
				a.Compressed = true
				rev.XrefStream = true
			}
			switch r.Intn(6) {
			case 0, 1, 2:
				a.Dict = true
			case 3:
				if a.Compressed {
					a.Dict = true
				} else {
					a.Arr = true
				}
			}
			if (a.Dict || a.Arr) && r.Chance(3, 4) {
				var below []int
				for m := 1; m <= h.N; m++ {
					if level[m] < level[n] {
						below = append(below, m)
					}
				}
				x := genVal(r, 0, below, h.N)
				a.Extra = &x
			}
			rev.Actions[n] = a
		}
		if rev.W[2] == 0 {
			// generation / index must fit in width 0: only usable without deletions/compressed
			for _, a := range rev.Actions {
				if a.Kind == "del" || a.Compressed {
					rev.W = [3]int{1, 3, 2}
				}
			}
			if ri == 0 {
				rev.W = [3]int{1, 3, 2} // entry 0 has generation 65535
			}
		}
		if rev.W[1] == 2 && rev.BigPad > 0 {
			rev.W = [3]int{1, 4, 2}
		}
		h.Revs = append(h.Revs, rev)
	}
	return h
}

// exhaustive enumerates all histories over n objects and r revisions where every
// object in every revision is one of {untouched, put plain, put compressed, deleted},
// once with integer values looked up by GetObject only, and once (linked) with every
// object a dictionary that refers to the object numbered one lower - directly and
// inside a nested array - looked up through every kind of lookup.
func exhaustive(c *hx.Ctx, n, r int) {
	states := 1
	for i := 0; i < n*r; i++ {
		states *= 4
	}
	opsets := [][]string{{"g1", "g2", "g1"}, {"g2", "g1", "c", "g2"}, {"g3", "g2", "g1", "g3"}, {"g0", "g1", "g4", "g1"}}
	top := fmt.Sprint(n)
	linkedOps := [][]string{
		{"D" + top, "g" + top, "r" + top, "g1"},
		{"g" + top, "E" + top, "g" + top, "c", "g" + top},
		{"y" + top, "D1", "r" + top, "x" + top, "g" + top},
		{"D" + fmt.Sprint(n+1), "E2", "r1", "r2", "D2"},
		{"x2", "g1", "D2", "c", "E1", "g2", "g1"},
		{"r2", "D2", "y2", "g2", "D2", "r2"},
		// one long-lived resolver, entry points that keep its state between calls
		{"p" + top, "s" + top, "p" + top, "s1", "z" + top},
		{"q" + top, "p1", "s" + top, "y" + top, "q" + top},
		{"s" + top, "p" + top, "q" + top, "z1", "p" + top, "x" + top, "s" + top},
		{"p" + fmt.Sprint(n+1), "p2", "s2", "s1", "p1", "q2"},
		{"x2", "p2", "c", "s2", "z2", "p2", "g2"},
	}
	for code := 0; code < states; code++ {
		for xk := 0; xk < 4; xk++ {
			linked := xk >= 2
			h := history{N: n, EOL: "\n"}
			v := code
			id := 10
			for ri := 0; ri < r; ri++ {
				rev := revision{Actions: map[int]action{}, W: [3]int{1, 3, 2}, XrefStream: xk%2 == 1, Flate: ri%2 == 0}
				for o := 1; o <= n; o++ {
					st := v % 4
					v /= 4
					id++
					a := action{Kind: "put", ID: id}
					if linked {
						a.Dict = true
						x := val{K: "a", E: []val{{K: "i", N: id + 500}}}
						if o > 1 {
							x = val{K: "d", E: []val{{K: "r", N: o - 1}, {K: "a", E: []val{{K: "r", N: o - 1}, {K: "i", N: 7}}}}}
						}
						a.Extra = &x
					}
					switch st {
					case 1:
						rev.Actions[o] = a
					case 2:
						a.Compressed = true
						rev.Actions[o] = a
						rev.XrefStream = true
					case 3:
						rev.Actions[o] = action{Kind: "del"}
					}
				}
				h.Revs = append(h.Revs, rev)
			}
			ops := opsets[(code+xk)%len(opsets)]
			if linked {
				ops = linkedOps[(code+xk)%len(linkedOps)]
			}
			runCase(c, kase{Hist: h, Ops: ops}, "x")
			c.Count(fmt.Sprintf("exhaustive-n%d-r%d", n, r))
		}
	}
}

// entryOps ties the byte-level entry parsers to Model/XrefBytes.lean: conforming entries
// (the round-trip theorems' domain) and damaged ones.
func entryOps(c *hx.Ctx) {
	r := hx.NewRng(c.Seed ^ 0xe117)
	for i := 0; i < c.N(1500, 40000); i++ {
		off := int64(r.U64() % uint64(hx.Pick(r, []int64{10, 1000, 100000, 10000000000})))
		gen := r.Intn(hx.Pick(r, []int{2, 100, 65536, 100000}))
		flag := hx.Pick(r, []string{"n", "f"})
		line := fmt.Sprintf("%010d %05d %s", off, gen, flag) + hx.Pick(r, []string{" ", "", " \r", "\r", "  "})
		conforming := true
		if r.Chance(1, 4) { // damage: wrong flag, shifted fields, signs, spaces, short line
			conforming = false
			b := []byte(line)
			switch r.Intn(6) {
			case 0:
				b[r.Intn(len(b))] = hx.Pick(r, []byte{' ', 'x', '+', '-', '9', 'n', 'f', '\t'})
			case 1:
				b = b[:r.Intn(len(b))]
			case 2:
				b = append([]byte{' '}, b...)
			case 3:
				b[17] = hx.Pick(r, []byte{'N', 'F', 'x', ' '})
			case 4:
				b[0] = '+'
			case 5:
				b[10] = hx.Pick(r, []byte{'0', 'x'})
			}
			line = string(b)
		}
		out := "err"
		if e, err := core.VerifParseEntry(line); err == nil {
			f := "f"
			if e.InUse {
				f = "n"
			}
			out = fmt.Sprintf("ok %d %d %s", e.Offset, e.Generation, f)
		}
		if conforming {
			want := fmt.Sprintf("ok %d %d %s", off, gen, flag)
			c.Check("C04/classic-entry-roundtrip", out == want, map[string]string{"line": line}, func() string {
				return fmt.Sprintf("parseEntry(%q) = %s, the writer meant %s", line, out, want)
			})
		}
		c.Op("c04.xent "+hx.HexS(line), out)
		c.Case("xent"+line, out != "err")
	}
	for i := 0; i < c.N(1500, 40000); i++ {
		w := []int{r.Intn(3), r.Intn(9), r.Intn(5)}
		kind := r.Intn(3)
		if w[0] == 0 {
			kind = 1
		}
		lim := func(wd int) uint64 {
			if wd >= 8 {
				return 1 << 62
			}
			return uint64(1) << uint(8*wd)
		}
		f1 := int64(r.U64() % lim(w[1]))
		f2 := int64(r.U64() % lim(w[2]))
		if f2 > 1<<31 {
			f2 %= 1 << 31
		}
		var data []byte
		be := func(v int64, wd int) {
			for k := wd - 1; k >= 0; k-- {
				data = append(data, byte(v>>(8*uint(k))))
			}
		}
		be(int64(kind), w[0])
		be(f1, w[1])
		be(f2, w[2])
		conforming := true
		if r.Chance(1, 10) {
			// an 8-byte field with the top bit set: readBigEndianInt shifts it into an int64
			conforming = false
			w = []int{1, 8, hx.Pick(r, []int{2, 8})}
			data = data[:0]
			be(int64(kind), 1)
			be(int64(r.U64()|1<<63), 8)
			be(int64(r.U64()), w[2])
		}
		if r.Chance(1, 5) {
			conforming = false
			if len(data) > 0 && r.Bool() {
				data = data[:r.Intn(len(data))]
			} else if w[0] > 0 {
				data[w[0]-1] = byte(3 + r.Intn(200))
			}
		}
		data = append(data, r.Bytes(r.Intn(4))...)
		out := "err"
		if e, n, err := core.VerifParseXRefStreamEntry(data, w); err == nil {
			out = fmt.Sprintf("ok %d %d %d %d", int(e.Type), e.Offset, e.Generation, n)
		}
		if conforming {
			want := fmt.Sprintf("ok %d %d %d %d", kind, f1, f2, w[0]+w[1]+w[2])
			c.Check("C04/stream-entry-roundtrip", out == want, map[string]interface{}{"w": w, "data": hx.Hex(data)}, func() string {
				return fmt.Sprintf("parseXRefStreamEntry(%x, %v) = %s, the writer meant %s", data, w, out, want)
			})
		}
		c.Op(fmt.Sprintf("c04.xsent %d,%d,%d %s", w[0], w[1], w[2], hx.Hex(data)), out)
		c.Case(fmt.Sprint("xsent", w, data), out != "err")
	}
}

func Run(c *hx.Ctx) {
	entryOps(c)
	byteOps(c)
	c.Rep.Rule = "revision histories (add/replace/delete per object per revision; values integers, dictionaries and arrays that hold references to other objects, nested containers, dangling references; classic or stream xref per revision; object-stream membership; indirect /Length; W widths; predictors) rendered by the harness PDF writer, then lookup sequences over GetObject, Resolve, ResolveDeep (of a reference and of a looked-up container) and the resolver package on one long-lived resolver (its resetting wrappers GetObjectResolvedDeep / ResolveReferenceDeep / GetObjectResolved and its own entry points Resolve / ResolveDeep of a reference and of a looked-up container, which keep the resolver's state between calls), with repeats and ClearCache, every answer also compared with the same lookup alone on a fresh reader; exhaustive for n=2 objects x r<=2 (thorough: r<=3) revisions x both xref kinds; non-trivial = at least one lookup expected to succeed; distinct by (history, ops); at the bounds of the C02 repairs (bounds.go): chain files in which 1,2,3,14,15,16,17,18,40,300 (thorough 1000, 5000) objects are loaded inside each other through indirect /Length (limit 16), every object alone on a fresh reader and in lookup sequences with cache clears; object streams with header offsets, /N and /First at len-1/len/len+1/2^31/2^62/2^63-1, every index asked twice; deep resolution of reference chains around 49/50 and 1000/1001 objects, shared graphs of 2^40 paths, page/parent cycles, each followed on the same resolver by lookups of the objects on the refused path; document-shaped histories (seq.go: a root, every object referenced from a lower-numbered one, some from two; later revisions delete objects that unchanged objects still refer to, replace them or define them again) with lookup sequences that start deep resolutions which must fail below their starting point and then look up the objects on and off the failed path through every kind of lookup; every one of these lookup sequences (and those on the chain files, and probes of the deep chains and shared graphs) is also replayed by the model of the whole API on the bytes - the reader WITH its caches, one long-lived resolver, every entry point incl. ResolveReference, GetObject, ResolveDict/ResolveArray and Reset of the resolver package, resolvers with depth limits 1..9 (c04.api); reference graphs of any shape (api.go: cycles, self references, references with a generation, dangling references, streams inside containers, two revisions, classic or stream xref) with every lookup also made alone on two freshly opened readers; the depth limit of the resolver package against a shared result (the same reference high up and too deep, as dictionary values and as array elements in both orders, 24 fresh resolvers each); files of one to three revisions with differing trailers (/Root and /Info as references, direct objects, missing; /Size of every kind; /XRefStm; versions) through Trailer, NumObjects, GetCatalog, GetInfo, Version mixed with lookups and cache clears (cat.go, c04.cat); the resolver call ParseIndirectObject makes, on every generated indirect object (c04.ask)"
	exhaustive(c, 2, 1)
	exhaustive(c, 2, 2)
	afterFailureOps(c)
	apiOps(c)
	catOps(c)
	if c.Thorough() {
		exhaustive(c, 2, 3)
		exhaustive(c, 3, 2)
	}
	n := c.N(600, 12000)
	for i := 0; i < n; i++ {
		r := c.Rng.Fork(uint64(i))
		h := genHistory(r)
		if r.Chance(1, 5) {
			h.Fault = hx.Pick(r, []string{"prev-cycle", "prev-self", "wrong-header", "idx-out-of-range", "idx-at-len", "idx-swapped", "stm-not-objstm", "stm-in-stm", "stm-missing",
				"hdr-offset-outside", "hdr-offset-negative", "hdr-number-not-int", "hdr-n-too-big", "hdr-first-beyond", "hdr-n-smaller", "hdr-offsets-swapped"})
			c.Count("fault=" + h.Fault)
		}
		if h.Fault != "" && !strings.HasPrefix(h.Fault, "prev-") {
			// make the newest revision rich enough for the fault to bite
			last := &h.Revs[len(h.Revs)-1]
			last.XrefStream = true
			last.W = [3]int{1, 4, 2}
			for n := 1; n <= 4; n++ {
				last.Actions[n] = action{Kind: "put", ID: 900 + n, Compressed: n <= 2, Dict: n == 2}
			}
			if h.N < 4 {
				h.N = 4
			}
		}
		b := build(h)
		k := kase{Hist: h, Ops: genOps(r, b.maxNum)}
		if r.Chance(1, 6) {
			k.MaxDepth = r.Range(1, 7) // a resolver whose depth limit the small graphs reach
			c.Count("bounded-resolver")
		}
		for _, n := range b.hot {
			k.Ops = append(k.Ops, fmt.Sprintf("g%d", n))
		}
		if strings.HasPrefix(h.Fault, "hdr-") {
			// the same members again: the first answer must also be the later one
			for _, n := range b.hot {
				k.Ops = append(k.Ops, fmt.Sprintf("g%d", n))
			}
		}
		runCase(c, k, "r")
		c.Count(fmt.Sprintf("revisions=%d", len(h.Revs)))
	}
}

func Replay(c *hx.Ctx, m map[string]interface{}) {
	if replayBounds(c, m) {
		return
	}
	if m["cat"] != nil {
		var k catCase
		hx.Remarshal(m, &k)
		runCat(c, k)
		return
	}
	if m["graph"] != nil {
		var k graphCase
		hx.Remarshal(m, &k)
		runGraph(c, k)
		return
	}
	var k kase
	hx.Remarshal(m, &k)
	runCase(c, k, "replay")
}
