// Package c04 is the correspondence/oracle harness for property C04.
package c04

import "verifharness/hx"

func init() { hx.Register("C04", Run, Replay) }

// Run is not built yet for this property.
func Run(c *hx.Ctx) { c.Note("C04: harness not built") }

func Replay(c *hx.Ctx, kase map[string]interface{}) {}
