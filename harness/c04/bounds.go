package c04

// The resource bounds the C02 repairs put into the code C04 covers, reached from both sides:
//
//   - reader.maxNestedLoads = 16 (129dd3d): chains of objects loaded inside each other, 1 … 300
//     long (thorough: 5000), every object looked up alone on a fresh reader (byte-level model,
//     c04.file) and in sequences on one reader (the caches on a chain, c04.nest); since the
//     repair of C04/nested-limit-answer-depends-on-earlier-lookups a warm reader must answer
//     as a fresh one on every chain, however long;
//   - core/objstm.go (78b7a87, c437385): header offsets at len(decoded)-1 / len / len+1 / 2^31 /
//     2^62 / 2^63-1, /N at what the header spells, one more, 2^31, 2^62, 2^63-1, /First at the
//     header, at len(decoded), one more, 2^62; every index asked twice (c04.osm);
//   - Reader.ResolveDeep's maxResolveDepth = 2000 (4d61f20) and the resolver package's
//     maxDepth = 100 with shared results (8b68946): reference chains 999 / 1000 / 1001 / 3000
//     and 48 / 49 / 50 / 400 objects long, shared graphs 2^40 paths wide, graphs with
//     cycles (oracles only: deep resolution is not modelled).
//
// Expectations come from the property text within the bounds (the newest value, exactly
// as written) and from the repairs' documentation beyond them (an error; a back reference
// left as it is), never from the Lean model.

import (
	"bytes"
	"fmt"
	"os"
	"path/filepath"
	"strings"

	"github.com/tsawler/tabula/core"
	"github.com/tsawler/tabula/reader"
	"github.com/tsawler/tabula/resolver"

	"verifharness/hx"
	"verifharness/writers"
)

const maxNestedLoads = 16 // reader/reader.go, as documented by 129dd3d

// ---- chains of nested loads ----------------------------------------------------------

// chainSpec describes a chain file: integers A_1 … A_D (object numbers 1 … D); for i < D,
// A_i is member 0 of the object stream S_i (object number D+i) whose /Length is the
// reference `A_(i+1) 0 R`; A_D is a plain object. B_i (object number 2D+2+i, i < D) is
// member 1 of S_i: looking it up opens S_i without caching A_i. Top: a plain stream T (object
// number 2D) whose /Length is `A_1 0 R`. Loading A_i (or B_i) loads A_(i+1) … A_D inside it:
// D-i+1 nested loads.
// Split > 0: the containers of A_1 … A_Split (and T) are written in a second revision that
// also overrides stale plain definitions of those numbers made in the first.
type chainSpec struct {
	D     int    `json:"d"`
	Top   bool   `json:"top,omitempty"`
	Flate bool   `json:"flate,omitempty"`
	Split int    `json:"split,omitempty"`
	EOL   string `json:"eol"`
}

type chainFile struct {
	data   []byte
	want   map[int]string // object number -> canonical value as written (renderObj form)
	depth  map[int]int    // object number -> nested loads a fresh reader needs for it
	maxNum int
}

func (sp chainSpec) numS(i int) int { return sp.D + i }
func (sp chainSpec) numT() int      { return 2 * sp.D }
func (sp chainSpec) numB(i int) int { return 2*sp.D + 2 + i }

func buildChain(sp chainSpec) chainFile {
	p := writers.NewPDF(sp.EOL)
	cf := chainFile{want: map[int]string{}, depth: map[int]int{}}
	d := sp.D
	rev1 := map[int]writers.XEntry{0: {Type: 0, F1: 0, F2: 65535}}
	rev2 := map[int]writers.XEntry{}
	entriesFor := func(i int) map[int]writers.XEntry {
		if i <= sp.Split {
			return rev2
		}
		return rev1
	}
	// what is written later (revision 2) is collected first, to know every value
	type pending struct {
		num     int
		members []writers.ObjStmMember
		lenRef  int
		rev     map[int]writers.XEntry
	}
	val := 7
	tdata := []byte("chain top stream data\n")
	if sp.Top {
		val = len(tdata)
	}
	var late []func()
	write := func(i int, f func()) {
		if i <= sp.Split {
			late = append(late, f)
		} else {
			f()
		}
	}
	_ = pending{}
	// The value of A_(i+1) is the data length of S_i, known only once S_i is laid out; S_i of
	// revision 2 is laid out later in the file but its length is needed now: lay it out into
	// a scratch writer first (the bytes are the same wherever they stand).
	for i := 1; i < d; i++ {
		i, v := i, val
		members := []writers.ObjStmMember{{Num: i, Body: fmt.Sprint(v)}, {Num: sp.numB(i), Body: fmt.Sprint(4000 + i)}}
		scratch := writers.NewPDF(sp.EOL)
		scratch.ObjStm(sp.numS(i), members, sp.Flate, i+1)
		val = scratch.LastStreamLen
		cf.want[i] = fmt.Sprintf("i%d", v)
		cf.want[sp.numB(i)] = fmt.Sprintf("i%d", 4000+i)
		cf.want[sp.numS(i)] = fmt.Sprintf("S%d", scratch.LastStreamLen)
		write(i, func() {
			off := p.ObjStm(sp.numS(i), members, sp.Flate, i+1)
			e := entriesFor(i)
			e[sp.numS(i)] = writers.XEntry{Type: 1, F1: off}
			e[i] = writers.XEntry{Type: 2, F1: int64(sp.numS(i)), F2: 0}
			e[sp.numB(i)] = writers.XEntry{Type: 2, F1: int64(sp.numS(i)), F2: 1}
		})
	}
	{
		v := val
		cf.want[d] = fmt.Sprintf("i%d", v)
		write(d, func() {
			off := p.Obj(d, 0, fmt.Sprint(v))
			entriesFor(d)[d] = writers.XEntry{Type: 1, F1: off}
		})
	}
	if sp.Top {
		cf.want[sp.numT()] = fmt.Sprintf("S%d", len(tdata))
		f := func() {
			off := p.Stream(sp.numT(), "/K 1", tdata, 1)
			e := rev1
			if sp.Split > 0 {
				e = rev2
			}
			e[sp.numT()] = writers.XEntry{Type: 1, F1: off}
		}
		if sp.Split > 0 {
			late = append(late, f)
		} else {
			f()
		}
	}
	for i := 1; i <= d; i++ {
		cf.depth[i] = d - i + 1
		if i < d {
			cf.depth[sp.numS(i)] = d - i + 1 // the stream itself, then A_(i+1) …
			cf.depth[sp.numB(i)] = d - i + 1 // B_i, then (opening S_i) A_(i+1) …
		}
	}
	if sp.Top {
		cf.depth[sp.numT()] = d + 1
	}
	size := 3*d + 3
	if sp.Split > 0 {
		// stale definitions that revision 2 overrides
		for i := 1; i <= sp.Split; i++ {
			off := p.Obj(i, 0, fmt.Sprint(990000+i))
			rev1[i] = writers.XEntry{Type: 1, F1: off}
		}
	}
	prev := p.XrefStream(2*d+1, rev1, "/Root 1 0 R", -1, [3]int{1, 4, 2}, false, 0, size)
	if sp.Split > 0 {
		for _, f := range late {
			f()
		}
		p.XrefStream(2*d+2, rev2, "/Root 1 0 R", prev, [3]int{1, 4, 2}, sp.Flate, 0, size)
	}
	cf.maxNum = 3*d + 2
	cf.data = p.Buf.Bytes()
	return cf
}

// nestCase is the replayable case: the file and the sequence of lookups on one reader.
type nestCase struct {
	Nest chainSpec `json:"nest"`
	Ops  []string  `json:"ops"` // a<i> | b<i> | s<i> | t | c
}

func (sp chainSpec) numOf(op string) (n int, ok bool) {
	var i int
	switch {
	case op == "t":
		return sp.numT(), true
	case strings.HasPrefix(op, "a"):
		fmt.Sscanf(op[1:], "%d", &i)
		return i, true
	case strings.HasPrefix(op, "s"):
		fmt.Sscanf(op[1:], "%d", &i)
		return sp.numS(i), true
	case strings.HasPrefix(op, "b"):
		fmt.Sscanf(op[1:], "%d", &i)
		return sp.numB(i), true
	}
	return 0, false
}

func genNestOps(r *hx.Rng, sp chainSpec) []string {
	d := sp.D
	var ops []string
	pickA := func() int {
		switch r.Intn(4) {
		case 0:
			return r.Range(1, min(d, 3))
		case 1:
			// around the first object whose chain fits the limit
			return max(1, min(d, d-maxNestedLoads+r.Range(-1, 2)))
		case 2:
			return r.Range(max(1, d-3), d)
		}
		return r.Range(0, d) // 0: the free entry; numbers above d are the S_i
	}
	switch r.Intn(4) {
	case 0: // the far end first, then towards the top: every step needs two loads once the rest is cached
		for i := d; i >= 1; i -= max(1, r.Range(1, 3)*(1+d/40)) {
			ops = append(ops, fmt.Sprintf("a%d", i))
		}
		ops = append(ops, "a1")
	case 1: // the top first (a fresh reader's answer), then further down, then the top again
		ops = append(ops, "a1")
		for k, m := 0, r.Range(1, 5); k < m; k++ {
			ops = append(ops, fmt.Sprintf("a%d", pickA()))
		}
		ops = append(ops, "a1")
	case 2: // an object stream opened through its second member (objStmCache filled, its first
		// member not in objCache), then the objects above it, whose chains pass through it
		if d > 1 {
			j := max(1, min(d-1, d-maxNestedLoads+r.Range(0, 2)))
			ops = append(ops, fmt.Sprintf("b%d", j), fmt.Sprintf("a%d", max(1, j-1)), "a1",
				fmt.Sprintf("b%d", max(1, j-1)), fmt.Sprintf("a%d", j))
		}
	}
	for k, m := 0, r.Range(3, 12); k < m; k++ {
		switch c := r.Intn(14); {
		case c == 0:
			ops = append(ops, "c")
		case c >= 12 && d > 1:
			ops = append(ops, fmt.Sprintf("b%d", max(1, min(d-1, pickA()))))
		case c < 3 && sp.Top:
			ops = append(ops, "t")
		case c < 5 && d > 1:
			ops = append(ops, fmt.Sprintf("s%d", max(1, min(d-1, pickA()))))
		case c < 7 && len(ops) > 0:
			ops = append(ops, hx.Pick(r, ops))
		default:
			ops = append(ops, fmt.Sprintf("a%d", pickA()))
		}
	}
	if sp.Top {
		ops = append(ops, "t")
	}
	return ops
}

// runNest: every sampled object alone on a fresh reader against the byte-level model and
// the expectation by construction; then the sequence on one reader against the cache model.
func runNest(c *hx.Ctx, k nestCase, sample []int) {
	sp := k.Nest
	cf := buildChain(sp)
	path := filepath.Join(c.OutDir, "c04-nest.pdf")
	os.WriteFile(path, cf.data, 0o644)
	defer os.Remove(path)
	fits := sp.D <= maxNestedLoads && (!sp.Top || sp.D+1 <= maxNestedLoads)
	c.Count(fmt.Sprintf("nest-depth=%d", func() int {
		if sp.Top {
			return sp.D + 1
		}
		return sp.D
	}()))
	if fits {
		c.Count("nest-file-within-limit")
	} else {
		c.Count("nest-file-beyond-limit")
	}
	// (1) cold: one fresh reader per lookup
	var xref string
	cold := map[int]string{}
	opened := false
	if !c.Guard("C04", k, 20, func() {
		for idx, n := range sample {
			rd, err := reader.Open(path)
			if err != nil {
				return
			}
			opened = true
			if idx == 0 {
				xref = dumpXrefFull(rd.XRefTable())
			}
			cold[n] = renderLookup(rd.GetObject(n))
			rd.Close()
		}
	}) {
		return
	}
	if !c.Check("C04/open", opened, k, func() string { return "reader.Open failed on a chain file" }) {
		return
	}
	answers := make([]string, len(sample))
	nontrivial := false
	for i, n := range sample {
		answers[i] = cold[n]
		want, exists := cf.want[n]
		switch {
		case n == 2*sp.D+1 || (n == 2*sp.D+2 && sp.Split > 0):
			c.Count("nest-cold-xref-stream-object") // the cross-reference stream itself: tied, no expectation
		case !exists:
			c.Check("C04/free-or-missing-must-error", cold[n] == "e", k, func() string {
				return fmt.Sprintf("GetObject(%d) on a fresh reader = %s, the file has no such object", n, cold[n])
			})
		case cf.depth[n] <= maxNestedLoads:
			nontrivial = true
			c.Count("nest-cold-within-limit")
			if cf.depth[n] >= maxNestedLoads-1 {
				c.Count(fmt.Sprintf("nest-cold-chain=%d", cf.depth[n]))
			}
			c.Check("C04/newest-revision", cold[n] == want, k, func() string {
				return fmt.Sprintf("GetObject(%d) on a fresh reader = %s, the file says %s (%d nested loads, limit %d)", n, cold[n], want, cf.depth[n], maxNestedLoads)
			})
		default:
			c.Count("nest-cold-beyond-limit")
			if cf.depth[n] <= maxNestedLoads+2 {
				c.Count(fmt.Sprintf("nest-cold-chain=%d", cf.depth[n]))
			}
			c.Check("C04/nested-load-limit-not-refused", cold[n] == "e", k, func() string {
				return fmt.Sprintf("GetObject(%d) on a fresh reader = %s, but it needs %d objects loaded inside each other (documented limit %d)", n, cold[n], cf.depth[n], maxNestedLoads)
			})
		}
	}
	fileOp(c, cf.data, inflateTable(scanInflate(cf.data)), xref, sample, answers)
	// (2) the sequence on one reader
	var seq []string
	var vals, dvals []string
	if !c.Guard("C04", k, 20, func() {
		rd, err := reader.Open(path)
		if err != nil {
			return
		}
		defer rd.Close()
		for _, op := range k.Ops {
			if op == "c" {
				rd.ClearCache()
				seq = append(seq, "-")
				vals = append(vals, "")
				dvals = append(dvals, "-")
				continue
			}
			n, _ := sp.numOf(op)
			obj, err := rd.GetObject(n)
			v := renderLookup(obj, err)
			vals = append(vals, v)
			dvals = append(dvals, renderDeepLookup(obj, err))
			if v == "e" {
				seq = append(seq, "0")
			} else {
				seq = append(seq, "1")
			}
		}
	}) {
		return
	}
	top := "0"
	if sp.Top {
		top = "1"
	}
	if len(k.Ops) > 0 {
		c.Op(fmt.Sprintf("c04.nest %d %s %s", sp.D, top, strings.Join(k.Ops, ",")), strings.Join(seq, ","))
		// the same sequence against the reader's caches modelled on the bytes of any file
		// (Model/XrefCached.lean), the values at full depth
		var gops, gvals []string
		for i, op := range k.Ops {
			if op == "c" {
				gops, gvals = append(gops, "c"), append(gvals, "-")
				continue
			}
			n, _ := sp.numOf(op)
			gops, gvals = append(gops, fmt.Sprintf("g%d", n)), append(gvals, dvals[i])
		}
		if len(dvals) == len(k.Ops) {
			apiOp(c, cf.data, inflateTable(scanInflate(cf.data)), 0, "full", gops, gvals)
		}
	}
	for i, op := range k.Ops {
		if op == "c" || i >= len(vals) {
			continue
		}
		n, _ := sp.numOf(op)
		want, exists := cf.want[n]
		if !exists {
			want = "e"
		}
		// whatever the history of the reader: an answer is the value as written, or an error
		c.Check("C04/lookup-value-not-as-stored", vals[i] == "e" || vals[i] == want, k, func() string {
			return fmt.Sprintf("op #%d (%s): GetObject(%d) = %s, the file says %s", i, op, n, vals[i], want)
		})
		// "The answer does not depend on the order of lookups or on what was looked up before"
		fresh := "e"
		if exists && cf.depth[n] <= maxNestedLoads {
			fresh = want
		}
		key := "C04/answer-depends-on-earlier-lookups"
		if !fits {
			// 129dd3d consulted objCache and objStmCache before it counted the nested loads:
			// beyond the limit a warm reader answered what a fresh one refuses
			key = "C04/nested-limit-answer-depends-on-earlier-lookups"
			if vals[i] != fresh {
				c.Count("nest-warm-answer-differs-from-fresh-reader")
			}
		}
		c.Check(key, vals[i] == fresh, k, func() string {
			return fmt.Sprintf("op #%d (%s): GetObject(%d) = %s after the earlier lookups %v, but %s on a freshly opened reader (chain of %d nested loads, limit %d)", i, op, n, vals[i], k.Ops[:i], fresh, cf.depth[n], maxNestedLoads)
		})
	}
	c.Case(fmt.Sprintf("nest%+v%v", sp, k.Ops), nontrivial)
}

func nestSample(r *hx.Rng, sp chainSpec) []int {
	d := sp.D
	seen := map[int]bool{}
	var out []int
	add := func(n int) {
		if !seen[n] {
			seen[n] = true
			out = append(out, n)
		}
	}
	if 3*d+3 <= 130 {
		for n := -1; n <= 3*d+3; n++ {
			add(n)
		}
	} else {
		for _, base := range []int{0, d, 2*d + 2} { // the A_i, the S_i, the B_i
			for n := 0; n <= 4; n++ {
				add(base + n)
			}
			for n := d - maxNestedLoads - 2; n <= d; n++ {
				if n >= 1 {
					add(base + n)
				}
			}
			for k := 0; k < 6; k++ {
				add(base + r.Range(1, d))
			}
		}
		add(sp.numT())
		add(2*d + 1)
		add(2*d + 7)
	}
	hx.Shuffle(r, out)
	return out
}

func nestOps(c *hx.Ctx) {
	r := hx.NewRng(c.Seed ^ 0x6e657374)
	depths := []int{1, 2, 3, 14, 15, 16, 17, 18, 40}
	rounds := c.N(2, 12)
	for round := 0; round < rounds; round++ {
		for _, d := range depths {
			for _, top := range []bool{false, true} {
				sp := chainSpec{D: d, Top: top, Flate: r.Chance(1, 3), EOL: hx.Pick(r, []string{"\n", "\n", "\r\n"})}
				if d > 1 && r.Chance(1, 3) {
					sp.Split = r.Range(1, d-1)
				}
				runNest(c, nestCase{Nest: sp, Ops: genNestOps(r, sp)}, nestSample(r, sp))
			}
		}
	}
	// far beyond the limit
	far := []int{300}
	if c.Thorough() {
		far = []int{300, 1000, 5000}
	}
	for _, d := range far {
		sp := chainSpec{D: d, Top: true, EOL: "\n", Split: d / 2}
		runNest(c, nestCase{Nest: sp, Ops: genNestOps(r, sp)}, nestSample(r, sp))
	}
}

// ---- object stream headers at their bounds -----------------------------------------------

type osmbCase struct {
	Osmb  string `json:"osmb"` // what was put at a bound
	Dict  string `json:"dict"`
	Data  string `json:"data"` // hex
	Idxs  []int  `json:"idxs"`
	Wants []string `json:"wants"`
}

func osmBoundOps(c *hx.Ctx) {
	r := hx.NewRng(c.Seed ^ 0x6f736d62)
	bodies := func(m int) (nums []int, texts, wants []string) {
		for k := 0; k < m; k++ {
			n := r.Range(1, 60)
			nums = append(nums, n)
			id := r.Range(0, 999)
			switch r.Intn(4) {
			case 0:
				texts = append(texts, fmt.Sprintf("<< /V %d >>", id))
				wants = append(wants, fmt.Sprintf("%d:{%s:i%d}", n, hx.HexS("V"), id))
			case 1:
				texts = append(texts, fmt.Sprintf("[ %d /N%d ]", id, k))
				wants = append(wants, fmt.Sprintf("%d:[i%d,n%s]", n, id, hx.HexS(fmt.Sprintf("N%d", k))))
			case 2:
				texts = append(texts, fmt.Sprintf("/Name%d", id))
				wants = append(wants, fmt.Sprintf("%d:n%s", n, hx.HexS(fmt.Sprintf("Name%d", id))))
			default:
				texts = append(texts, fmt.Sprintf("(s%d)", id))
				wants = append(wants, fmt.Sprintf("%d:s%s", n, hx.HexS(fmt.Sprintf("s%d", id))))
			}
		}
		return
	}
	big := []string{"2147483648", "4611686018427387904", "9223372036854775807"}
	rounds := c.N(6, 80)
	for round := 0; round < rounds; round++ {
		for _, what := range []string{"none",
			"offset=len-1", "offset=len", "offset=len+1", "offset=2^31", "offset=2^62", "offset=2^63-1", "offset=-1",
			"N=exact", "N=exact+1", "N=2^31", "N=2^62", "N=2^63-1",
			"First=header", "First=len", "First=len+1", "First=2^62"} {
			m := r.Range(1, 4)
			nums, texts, wants := bodies(m)
			k := r.Intn(m) // the member whose header offset is put at the bound
			var body strings.Builder
			offs := make([]string, m)
			for i := range texts {
				offs[i] = fmt.Sprint(body.Len())
				body.WriteString(texts[i])
				body.WriteString(" ")
			}
			head := func() string {
				var h strings.Builder
				for i := range nums {
					fmt.Fprintf(&h, "%d %s ", nums[i], offs[i])
				}
				return h.String()
			}
			decLen := func() int { return len(head()) + body.Len() }
			ntext := fmt.Sprint(m)
			first := -1 // -1: the header's length
			firstText := ""
			want := append([]string(nil), wants...)
			allErr := func() {
				for i := range want {
					want[i] = "e"
				}
			}
			switch what {
			case "offset=len-1", "offset=len", "offset=len+1":
				delta := map[string]int{"offset=len-1": -1, "offset=len": 0, "offset=len+1": 1}[what]
				for it := 0; it < 4; it++ { // the offset's own digits are part of the length
					offs[k] = fmt.Sprint(decLen() + delta)
				}
				if delta > 0 {
					allErr() // "offset outside the object stream": the header is refused
				} else {
					// the header passes (the code compares with >), the member itself starts at or
					// behind the end of the data: an error for this member only
					want[k] = "e"
				}
			case "offset=2^31", "offset=2^62", "offset=2^63-1":
				offs[k] = big[map[string]int{"offset=2^31": 0, "offset=2^62": 1, "offset=2^63-1": 2}[what]]
				allErr()
			case "offset=-1":
				offs[k] = "-1"
				allErr()
			case "N=exact+1":
				ntext = fmt.Sprint(m + 1)
				allErr()
			case "N=2^31", "N=2^62", "N=2^63-1":
				ntext = big[map[string]int{"N=2^31": 0, "N=2^62": 1, "N=2^63-1": 2}[what]]
				allErr()
			case "First=len":
				first = decLen()
				allErr() // every member would start at or behind the end of the data
			case "First=len+1":
				first = decLen() + 1
				allErr()
			case "First=2^62":
				firstText = big[1]
				allErr()
			}
			h := head()
			if first < 0 {
				first = len(h)
			}
			if firstText == "" {
				firstText = fmt.Sprint(first)
			}
			plain := []byte(h + body.String())
			dict := fmt.Sprintf("<< /Type /ObjStm /N %s /First %s", ntext, firstText)
			data, infl := plain, "_"
			if r.Chance(1, 3) {
				data = writers.Deflate(plain)
				dict += " /Filter /FlateDecode"
				infl = inflateTable([]writers.InflatePair{{In: data}})
			}
			dict += " >>"
			// every index twice, out-of-range ones too: the first answer must be the later one
			var idxs []int
			for i := -1; i <= m; i++ {
				idxs = append(idxs, i)
			}
			hx.Shuffle(r, idxs)
			again := append([]int(nil), idxs...)
			hx.Shuffle(r, again)
			idxs = append(idxs, again...)
			kase := osmbCase{Osmb: what, Dict: dict, Data: hx.Hex(data), Idxs: idxs, Wants: want}
			runOsmb(c, kase, infl)
		}
	}
}

func runOsmb(c *hx.Ctx, k osmbCase, infl string) {
	data := unhex(k.Data)
	var answers []string
	if p := hx.Safe(func() {
		obj, err := core.NewParser(bytes.NewReader([]byte(k.Dict))).ParseObject()
		d, ok := obj.(core.Dict)
		if err != nil || !ok {
			return
		}
		os, err := core.NewObjectStream(&core.Stream{Dict: d, Data: data})
		for _, ix := range k.Idxs {
			if err != nil {
				answers = append(answers, "e")
				continue
			}
			o, num, e := os.GetObjectByIndex(ix)
			if e != nil {
				answers = append(answers, "e")
			} else {
				answers = append(answers, fmt.Sprintf("%d:%s", num, renderObj(o)))
			}
		}
	}); p != "" {
		c.Check("C04/panic-objstm", false, k, func() string { return p })
		return
	}
	if len(answers) != len(k.Idxs) {
		c.Check("C04/panic-objstm", false, k, func() string { return "harness: the dictionary text did not parse" })
		return
	}
	c.Count("osm-bound:" + k.Osmb)
	seen := map[int]string{}
	nontrivial := false
	for i, ix := range k.Idxs {
		want := "e"
		if ix >= 0 && ix < len(k.Wants) {
			want = k.Wants[ix]
		}
		if want != "e" {
			nontrivial = true
			c.Check("C04/objstm-member-not-as-written", answers[i] == want, k, func() string {
				return fmt.Sprintf("%s: GetObjectByIndex(%d) = %s, the stream holds %s", k.Osmb, ix, answers[i], want)
			})
		} else {
			c.Check("C04/objstm-bound-not-refused", answers[i] == "e", k, func() string {
				return fmt.Sprintf("%s: GetObjectByIndex(%d) = %s, an error is documented", k.Osmb, ix, answers[i])
			})
		}
		if prev, ok := seen[ix]; ok {
			c.Check("C04/objstm-answer-depends-on-earlier-calls", prev == answers[i], k, func() string {
				return fmt.Sprintf("%s: GetObjectByIndex(%d) = %s, earlier on the same object stream it was %s (indices %v)", k.Osmb, ix, answers[i], prev, k.Idxs)
			})
		}
		seen[ix] = answers[i]
	}
	if infl == "" {
		infl = "_"
		if strings.Contains(k.Dict, "FlateDecode") {
			infl = inflateTable([]writers.InflatePair{{In: data}})
		}
	}
	c.Op(fmt.Sprintf("c04.osm %s %s %s %s", infl, hx.HexS(k.Dict), hx.Hex(data), joinInts(k.Idxs)), strings.Join(answers, ","))
	c.Case("osmb"+k.Dict+k.Data+fmt.Sprint(k.Idxs), nontrivial)
}

func unhex(s string) []byte {
	if s == "-" {
		return nil
	}
	out := make([]byte, len(s)/2)
	for i := range out {
		fmt.Sscanf(s[2*i:2*i+2], "%02x", &out[i])
	}
	return out
}

// ---- deep resolution at its bounds (oracles only) ----------------------------------------

// deepCase: Kind "chain": objects 1 … L, object i = [ (i+1) 0 R ] and object L = [ V ];
// Rev2: a second revision replaces object L by [ V+1 ] (the deep value must show it).
// Kind "shared": Levels objects, object i = [ (i+1) 0 R (i+1) 0 R ], the last [ V ]: 2^Levels
// paths, Levels objects. Kind "cycle": 1 = << /Kids [ 2 0 R ] /V v >>, 2 = << /Parent 1 0 R /V v+1 >>.
type deepCase struct {
	Deep string `json:"deep"`
	L    int    `json:"l"`
	V    int    `json:"v"`
	Rev2 bool   `json:"rev2,omitempty"`
}

const (
	maxResolveDepth = 2000 // reader/reader.go (4d61f20): "references nested deeper than 2000 levels"
	resolverDepth   = 100  // resolver.NewResolver default (WithMaxDepth)
)

func buildDeep(k deepCase) []byte {
	p := writers.NewPDF("\n")
	entries := map[int]writers.XEntry{0: {Type: 0, F1: 0, F2: 65535}}
	put := func(n int, body string) { entries[n] = writers.XEntry{Type: 1, F1: p.Obj(n, 0, body)} }
	switch k.Deep {
	case "chain":
		for i := 1; i < k.L; i++ {
			put(i, fmt.Sprintf("[ %d 0 R ]", i+1))
		}
		put(k.L, fmt.Sprintf("[ %d ]", k.V))
	case "shared":
		for i := 1; i < k.L; i++ {
			put(i, fmt.Sprintf("[ %d 0 R %d 0 R ]", i+1, i+1))
		}
		put(k.L, fmt.Sprintf("[ %d ]", k.V))
	case "cycle":
		put(1, fmt.Sprintf("<< /Kids [ 2 0 R ] /V %d >>", k.V))
		put(2, fmt.Sprintf("<< /Parent 1 0 R /V %d >>", k.V+1))
	}
	prev := p.XrefTable(entries, fmt.Sprintf("/Root 1 0 R /Size %d", k.L+1), -1, " \n")
	if k.Rev2 {
		e2 := map[int]writers.XEntry{}
		e2[k.L] = writers.XEntry{Type: 1, F1: p.Obj(k.L, 0, fmt.Sprintf("[ %d ]", k.V+1))}
		p.XrefTable(e2, fmt.Sprintf("/Root 1 0 R /Size %d", k.L+1), prev, " \n")
	}
	return p.Buf.Bytes()
}

// innermost follows first elements down to the first non-array and counts the arrays.
func innermost(o core.Object) (core.Object, int) {
	n := 0
	for {
		a, ok := o.(core.Array)
		if !ok || len(a) == 0 {
			return o, n
		}
		o = a[0]
		n++
	}
}

func innermostLast(o core.Object) (core.Object, int) {
	n := 0
	for {
		a, ok := o.(core.Array)
		if !ok || len(a) == 0 {
			return o, n
		}
		o = a[len(a)-1]
		n++
	}
}

func runDeep(c *hx.Ctx, k deepCase) {
	data := buildDeep(k)
	path := filepath.Join(c.OutDir, "c04-deep.pdf")
	os.WriteFile(path, data, 0o644)
	defer os.Remove(path)
	leaf := k.V
	if k.Rev2 {
		leaf++
	}
	type result struct {
		obj core.Object
		err error
	}
	var viaReader, viaResolver, again result
	// one long-lived resolver through the package's own entry points (no Reset between
	// calls): the deep resolution of object 1 - refused beyond the limit and on a cycle -
	// and then objects of the same file, each also as the first lookup of a fresh resolver
	type later struct {
		name        string
		want        string // by the logical file; "" = only compared with the fresh resolver
		after, solo string
	}
	var laters []later
	firstLong := ""
	opened := false
	if !c.Guard("C04", k, 30, func() {
		rd, err := reader.Open(path)
		if err != nil {
			return
		}
		opened = true
		defer rd.Close()
		ref := core.IndirectRef{Number: 1}
		viaReader.obj, viaReader.err = rd.ResolveDeep(ref)
		res := resolver.NewResolver(rd)
		viaResolver.obj, viaResolver.err = res.ResolveReferenceDeep(ref)
		again.obj, again.err = rd.ResolveDeep(ref) // warm caches, a second call on the same reader
		long := resolver.NewResolver(rd)
		// (the value of a shared graph has 2^L paths: never rendered)
		if _, err := long.ResolveDeep(ref); err != nil {
			firstLong = "error: " + err.Error()
			if len(firstLong) > 160 {
				firstLong = firstLong[:60] + " … " + firstLong[len(firstLong)-90:]
			}
		} else {
			firstLong = "answered"
		}
		asked := map[string]bool{}
		ask := func(name, want string, f func(*resolver.ObjectResolver) (core.Object, error)) {
			if asked[name] {
				return
			}
			asked[name] = true
			l := later{name: name, want: want}
			l.after = full(f(long))
			l.solo = full(f(resolver.NewResolver(rd)))
			laters = append(laters, l)
		}
		stored := func(n int) string { // the newest value of object n as the file stores it
			switch {
			case k.Deep == "cycle" && n == 1:
				return fmt.Sprintf("{Kids:[2R],V:i%d}", k.V)
			case k.Deep == "cycle":
				return fmt.Sprintf("{Parent:1R,V:i%d}", k.V+1)
			case n == k.L:
				return fmt.Sprintf("[i%d]", leaf)
			case k.Deep == "shared":
				return fmt.Sprintf("[%dR,%dR]", n+1, n+1)
			}
			return fmt.Sprintf("[%dR]", n+1)
		}
		last := k.L
		for _, n := range []int{1, 2, (k.L + 1) / 2, last - 1, last} {
			if n < 1 || n > last {
				continue
			}
			n := n
			r := core.IndirectRef{Number: n}
			ask(fmt.Sprintf("Resolve(%d 0 R)", n), stored(n), func(x *resolver.ObjectResolver) (core.Object, error) { return x.Resolve(r) })
			ask(fmt.Sprintf("GetObjectResolved(%d)", n), stored(n), func(x *resolver.ObjectResolver) (core.Object, error) { return x.GetObjectResolved(n) })
		}
		if k.Deep != "cycle" {
			deepLeaf := fmt.Sprintf("[i%d]", leaf)
			lr := core.IndirectRef{Number: last}
			ask(fmt.Sprintf("ResolveDeep(%d 0 R)", last), deepLeaf, func(x *resolver.ObjectResolver) (core.Object, error) { return x.ResolveDeep(lr) })
			ask(fmt.Sprintf("ResolveReferenceDeep(%d 0 R)", last), deepLeaf, func(x *resolver.ObjectResolver) (core.Object, error) { return x.ResolveReferenceDeep(lr) })
			if last >= 2 {
				want := "[" + deepLeaf + "]"
				if k.Deep == "shared" {
					want = "[" + deepLeaf + "," + deepLeaf + "]"
				}
				pr := core.IndirectRef{Number: last - 1}
				ask(fmt.Sprintf("ResolveDeep(%d 0 R)", last-1), want, func(x *resolver.ObjectResolver) (core.Object, error) { return x.ResolveDeep(pr) })
			}
		}
		// the refused resolution once more, and the start of the refused path after it
		ask("ResolveDeep(1 0 R) again", "", func(x *resolver.ObjectResolver) (core.Object, error) {
			_, err := x.ResolveDeep(ref)
			if err != nil {
				return nil, err
			}
			return core.Int(0), nil // answered: the value itself is checked above, through the wrappers
		})
		ask("Resolve(1 0 R) at the end", stored(1), func(x *resolver.ObjectResolver) (core.Object, error) { return x.Resolve(ref) })
	}) {
		return
	}
	if !c.Check("C04/open", opened, k, func() string { return "reader.Open failed on a well-formed file" }) {
		return
	}
	c.Count(fmt.Sprintf("deep-%s-%d", k.Deep, k.L))
	// the same file against the model of ResolveDeep and of the resolver package (values
	// probed, not rendered: a shared graph has 2^L paths)
	// (the model parses an object from the bytes of the whole rest of the file: the long
	// chains are left to the thorough tier, 20000 objects to the oracles)
	if last := k.L; last <= 400 || last == 1000 || (c.Thorough() && last <= 3000) {
		runApiOn(c, k, data, "_", 0, "probe", []string{"D1", "y1", "D1", "p1", "s1", "z1",
			fmt.Sprintf("p%d", last), fmt.Sprintf("y%d", max(1, last-1)), "p1", "E1", "c", "q1", fmt.Sprintf("D%d", (last+1)/2), "R", "x1"})
		c.Count("deep-api-op")
	}
	same := (viaReader.err == nil) == (again.err == nil)
	c.Check("C04/answer-depends-on-earlier-lookups", same, k, func() string {
		return fmt.Sprintf("ResolveDeep(1 0 R) first err=%v, again on the same reader err=%v", viaReader.err, again.err)
	})
	for _, l := range laters {
		l := l
		c.Check("C04/answer-depends-on-earlier-lookups", l.after == l.solo, k, func() string {
			return fmt.Sprintf("one resolver: ResolveDeep(1 0 R) [= %s], …, then %s = %s, but %s as the first lookup of a fresh resolver on the same reader", firstLong, l.name, l.after, l.solo)
		})
		if l.want != "" {
			key := "C04/lookup-value-not-as-stored"
			if strings.Contains(l.name, "Deep") {
				key = "C04/deep-resolve-newest-revision"
			}
			c.Check(key, l.solo == l.want, k, func() string {
				return fmt.Sprintf("%s on a fresh resolver = %s, the file holds %s", l.name, l.solo, l.want)
			})
		}
	}
	nontrivial := false
	switch k.Deep {
	case "chain", "shared":
		// the deep value of object 1: L arrays inside each other around the newest leaf value
		check := func(name string, r result, levels int, limit string, within bool) {
			if within {
				nontrivial = true
				ok := r.err == nil
				if ok {
					in, n := innermost(r.obj)
					v, isInt := in.(core.Int)
					ok = n == levels && isInt && int(v) == leaf
					if k.Deep == "shared" && ok {
						// the other way down (last elements): the same depth, the same leaf
						// (the value has 2^L paths: it is walked, never rendered)
						in2, n2 := innermostLast(r.obj)
						v2, isInt2 := in2.(core.Int)
						a := r.obj.(core.Array)
						ok = n2 == levels && isInt2 && int(v2) == leaf && (levels < 2 || len(a) == 2)
					}
				}
				c.Check("C04/deep-resolve-newest-revision", ok, k, func() string {
					return fmt.Sprintf("%s of a %s of %d objects (within %s): err=%v, expected %d arrays around %d", name, k.Deep, k.L, limit, r.err, levels, leaf)
				})
			} else {
				c.Check("C04/deep-limit-not-refused", r.err != nil, k, func() string {
					return fmt.Sprintf("%s of a %s of %d objects answered, %s is documented", name, k.Deep, k.L, limit)
				})
			}
		}
		// a reference and the array it leads to are one level each: the leaf integer of a
		// chain of L objects stands at level 2L
		check("Reader.ResolveDeep", viaReader, k.L, fmt.Sprintf("maxResolveDepth=%d", maxResolveDepth), 2*k.L <= maxResolveDepth)
		check("resolver.ResolveReferenceDeep", viaResolver, k.L, fmt.Sprintf("maxDepth=%d", resolverDepth), 2*k.L < resolverDepth)
	case "cycle":
		// 4d61f20: "References that lead back to an object being resolved are now left as references"
		nontrivial = true
		want := fmt.Sprintf("{Kids:[{Parent:1R,V:i%d}],V:i%d}", k.V+1, k.V)
		got := full(viaReader.obj, viaReader.err)
		c.Check("C04/deep-resolve-newest-revision", got == want, k, func() string {
			return fmt.Sprintf("Reader.ResolveDeep(1 0 R) on page/parent = %s, documented %s", got, want)
		})
		// the resolver package documents "circular reference detected"
		c.Check("C04/deep-limit-not-refused", viaResolver.err != nil, k, func() string {
			return "resolver.ResolveReferenceDeep answered on a cyclic graph, an error is documented"
		})
	}
	c.Case(fmt.Sprintf("deep%+v", k), nontrivial)
}

func deepOps(c *hx.Ctx) {
	r := hx.NewRng(c.Seed ^ 0x64656570)
	for _, L := range []int{1, 2, 48, 49, 50, 51, 400, 999, 1000, 1001, 3000} {
		runDeep(c, deepCase{Deep: "chain", L: L, V: r.Range(1, 900), Rev2: r.Bool()})
	}
	for _, L := range []int{3, 12, 40, 49} {
		runDeep(c, deepCase{Deep: "shared", L: L, V: r.Range(1, 900), Rev2: r.Bool()})
	}
	runDeep(c, deepCase{Deep: "cycle", L: 2, V: r.Range(1, 900)})
	if c.Thorough() {
		for i := 0; i < 6; i++ {
			runDeep(c, deepCase{Deep: "chain", L: hx.Pick(r, []int{49, 50, 1000, 1001, 20000}), V: r.Range(1, 900), Rev2: r.Bool()})
			runDeep(c, deepCase{Deep: "shared", L: r.Range(2, 49), V: r.Range(1, 900), Rev2: r.Bool()})
		}
	}
}

func boundOps(c *hx.Ctx) {
	nestOps(c)
	osmBoundOps(c)
	deepOps(c)
}

// replayBounds re-runs a recorded case of this file.
func replayBounds(c *hx.Ctx, m map[string]interface{}) bool {
	switch {
	case m["nest"] != nil:
		var k nestCase
		hx.Remarshal(m, &k)
		r := hx.NewRng(1)
		runNest(c, k, nestSample(r, k.Nest))
	case m["osmb"] != nil:
		var k osmbCase
		hx.Remarshal(m, &k)
		runOsmb(c, k, "")
	case m["deep"] != nil:
		var k deepCase
		hx.Remarshal(m, &k)
		runDeep(c, k)
	default:
		return false
	}
	return true
}
