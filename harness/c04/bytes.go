package c04

// Correspondence for the byte-level model (Model/XrefFile.lean): the line scanner,
// FindXRef, ParseXRef on classic tables and cross-reference streams, ParseIndirectObject,
// and reader.Open + GetObject on the bytes of whole files.

import (
	"bytes"
	"fmt"
	"os"
	"path/filepath"
	"sort"
	"strings"

	"github.com/tsawler/tabula/core"
	"github.com/tsawler/tabula/reader"

	"verifharness/hx"
	"verifharness/writers"
)

// renderObj is the canonical rendering shared with Handlers/C04.lean (showObj).
func renderObj(o core.Object) string {
	switch v := o.(type) {
	case nil:
		return "nil"
	case core.Null:
		return "null"
	case core.Bool:
		if bool(v) {
			return "true"
		}
		return "false"
	case core.Int:
		return fmt.Sprintf("i%d", int64(v))
	case core.Real:
		return "real"
	case core.String:
		return "s" + hx.HexS(string(v))
	case core.Name:
		return "n" + hx.HexS(string(v))
	case core.Array:
		parts := make([]string, len(v))
		for i, e := range v {
			parts[i] = renderObj(e)
		}
		return "[" + strings.Join(parts, ",") + "]"
	case core.Dict:
		keys := make([]string, 0, len(v))
		for k := range v {
			keys = append(keys, k)
		}
		sort.Strings(keys)
		parts := make([]string, len(keys))
		for i, k := range keys {
			parts[i] = hx.HexS(k) + ":" + renderObj(v[k])
		}
		return "{" + strings.Join(parts, ",") + "}"
	case core.IndirectRef:
		return fmt.Sprintf("%d.%dR", v.Number, v.Generation)
	case *core.Stream:
		return fmt.Sprintf("S%d", len(v.Data))
	}
	return fmt.Sprintf("o(%T)", o)
}

func renderLookup(o core.Object, err error) string {
	if err != nil {
		return "e"
	}
	return renderObj(o)
}

func dumpXrefFull(t *core.XRefTable) string {
	nums := make([]int, 0, len(t.Entries))
	for n := range t.Entries {
		nums = append(nums, n)
	}
	sort.Ints(nums)
	out := make([]string, len(nums))
	for i, n := range nums {
		e := t.Entries[n]
		out[i] = fmt.Sprintf("%d:%d:%d:%d", n, int(e.Type), e.Offset, e.Generation)
	}
	return strings.Join(out, ",")
}

func inflateTable(pairs []writers.InflatePair) string {
	seen := map[string]bool{}
	var parts []string
	for _, p := range pairs {
		if seen[string(p.In)] {
			continue
		}
		seen[string(p.In)] = true
		out, ok := writers.Inflate(p.In)
		o := "!"
		if ok {
			o = hx.Hex(out)
		}
		parts = append(parts, hx.Hex(p.In)+">"+o)
	}
	if len(parts) == 0 {
		return "_"
	}
	return strings.Join(parts, ";")
}

// scanInflate finds every zlib stream between a `stream` keyword and the next `endstream`
// (with and without the end-of-line marker the writer puts in front of `endstream`) and
// records what the standard library makes of it.
func scanInflate(data []byte) []writers.InflatePair {
	var out []writers.InflatePair
	for i := 0; ; {
		j := bytes.Index(data[i:], []byte("stream"))
		if j < 0 {
			break
		}
		start := i + j + len("stream")
		i = start
		if start < len(data) && data[start] == '\r' {
			start++
		}
		if start < len(data) && data[start] == '\n' {
			start++
		}
		k := bytes.Index(data[start:], []byte("endstream"))
		if k < 0 {
			break
		}
		body := data[start : start+k]
		for _, cut := range []int{0, 1, 2} {
			if cut > len(body) {
				break
			}
			cand := body[:len(body)-cut]
			if len(cand) < 2 || cand[0] != 0x78 {
				continue
			}
			if plain, ok := writers.Inflate(cand); ok {
				out = append(out, writers.InflatePair{In: append([]byte(nil), cand...), Out: plain})
			}
		}
	}
	return out
}

func joinInts(ns []int) string {
	if len(ns) == 0 {
		return "-"
	}
	s := make([]string, len(ns))
	for i, n := range ns {
		s[i] = fmt.Sprint(n)
	}
	return strings.Join(s, ",")
}

// fileOp emits the whole-file op: the merged table as reader.Open built it and the
// answers the session gave (with its caches, in the order of the case) to the GetObject /
// Resolve lookups, against the cache-free byte-level model.
func fileOp(c *hx.Ctx, data []byte, infl string, xref string, nums []int, answers []string) {
	c.Op(fmt.Sprintf("c04.file %s %s %s", infl, hx.Hex(data), joinInts(nums)),
		fmt.Sprintf("xref=[%s] res=[%s]", xref, strings.Join(answers, ",")))
}

// ---- line scanner ------------------------------------------------------------------

func lineOps(c *hx.Ctx) {
	r := hx.NewRng(c.Seed ^ 0x11e5)
	emit := func(data []byte, bucket string) {
		lines, err := core.VerifScanLines(data)
		lens := make([]string, len(lines))
		for i, l := range lines {
			lens[i] = fmt.Sprint(len(l))
		}
		tl := 0
		if err != nil {
			tl = 1
		}
		c.Op("c04.lines "+hx.Hex(data), fmt.Sprintf("tl=%d lens=[%s]", tl, strings.Join(lens, ",")))
		c.Count("lines-" + bucket)
		c.Case("lines"+string(data), len(lines) > 0)
	}
	pieces := []string{"\n", "\r", "\r\n", "\n\r", "a", "xref", "0 1", " ", "\t", "trailer", "\r\r", "\n\n", "0000000000 65535 f "}
	for i := 0; i < c.N(400, 6000); i++ {
		var b strings.Builder
		for k, n := 0, r.Intn(9); k < n; k++ {
			b.WriteString(hx.Pick(r, pieces))
		}
		emit([]byte(b.String()), "small")
	}
	// the Scanner's 64 KiB buffer: a line and its end-of-line marker around the limit
	ends := []string{"\n", "\rx", "\r\n", "\r", ""}
	lens := []int{65533, 65534, 65535, 65536, 65537}
	if !c.Thorough() {
		lens = []int{65534, 65535, 65536}
	}
	for _, e := range ends {
		for _, n := range lens {
			for _, pre := range []string{"", "xref\n"} {
				emit([]byte(pre+strings.Repeat("y", n)+e+"z\n"), "limit")
			}
		}
	}
}

// ---- FindXRef ------------------------------------------------------------------------

func findOps(c *hx.Ctx) {
	r := hx.NewRng(c.Seed ^ 0xf19d)
	for i := 0; i < c.N(800, 12000); i++ {
		off := int64(r.U64() % uint64(hx.Pick(r, []int64{10, 100000, 1 << 40, 1<<63 - 1})))
		num := fmt.Sprint(off)
		eol := hx.Pick(r, []string{"\n", "\n", "\r\n", "\r"})
		conforming := true
		tail := "startxref" + eol + num + eol + "%%EOF" + hx.Pick(r, []string{eol, "", eol + eol})
		if r.Chance(2, 5) {
			conforming = false
			switch r.Intn(12) {
			case 0:
				tail = "startxref" + eol + hx.Pick(r, []string{"+", "-", " ", "\t", " ", "\u0085", " "}) + num + hx.Pick(r, []string{" ", "", " ", "　 "}) + eol + "%%EOF" + eol
			case 1:
				tail = "startxref " + num + eol + "%%EOF" + eol // number on the same line
			case 2:
				tail = "startxref" + eol + eol + num + eol + "%%EOF"
			case 3:
				tail = "startxref" + eol + num // no EOL, no %%EOF
			case 4:
				tail = "startxref"
			case 5:
				tail = "startxref" + eol + "12x" + eol + "%%EOF" + eol
			case 6:
				tail = "startxref" + eol + "99999999999999999999" + eol + "%%EOF" + eol
			case 7:
				tail = "startxref" + eol + "7" + eol + "%%EOF" + eol + "startxref" + eol + num + eol + "%%EOF" + eol
			case 8:
				tail = "startxref\r\n\r" + num + "\r%%EOF"
			case 9:
				tail = "startxre" + eol + num + eol
			case 10:
				tail = "startxrefstartxref" + eol + num + eol
			case 11:
				tail = "startxref" + eol + num + eol + "%%EOF" + eol + strings.Repeat(" ", r.Range(1000, 1030))
			}
		}
		pre := ""
		switch r.Intn(4) {
		case 0:
			pre = strings.Repeat("x", r.Intn(40))
		case 1:
			// an older startxref, sometimes cut by the 1024-byte window
			pre = "startxref\n5\n%%EOF\n" + strings.Repeat("p", r.Range(900, 1100))
		case 2:
			pre = strings.Repeat("q", r.Range(980, 1030))
		}
		data := []byte(pre + tail)
		out := "err"
		got, err := core.NewXRefParser(bytes.NewReader(data)).FindXRef()
		if err == nil {
			out = fmt.Sprintf("ok %d", got)
		}
		if conforming {
			c.Check("C04/startxref-roundtrip", out == fmt.Sprintf("ok %d", off), map[string]string{"data": hx.Hex(data)}, func() string {
				return fmt.Sprintf("FindXRef = %s on a file that ends with startxref %d", out, off)
			})
		}
		c.Op("c04.find "+hx.Hex(data), out)
		if conforming {
			c.Count("find-conforming")
		} else {
			c.Count("find-damaged")
		}
		c.Case("find"+string(data), out != "err")
	}
}

// ---- ParseXRef on one section ----------------------------------------------------------

type secEntry struct {
	typ int
	f1  int64
	f2  int64
}

func prevText(r *hx.Rng) (text string, want string) {
	switch r.Intn(9) {
	case 0, 1, 2:
		return "", "-"
	case 3, 4, 5:
		p := int64(r.U64() % 100000)
		return fmt.Sprintf(" /Prev %d", p), fmt.Sprint(p)
	case 6:
		return " /Prev -7", "-7"
	case 7:
		return hx.Pick(r, []string{" /Prev 3.0", " /Prev 4 0 R", " /Prev (5)", " /Prev null", " /Prev [6]"}), "bad"
	}
	return " /Prev 12 /Prev 13", "13"
}

func dumpSec(t *core.XRefTable) string {
	prev := "-"
	if p := t.Trailer.Get("Prev"); p != nil {
		if v, ok := p.(core.Int); ok {
			prev = fmt.Sprint(int64(v))
		} else {
			prev = "bad"
		}
	}
	return fmt.Sprintf("ok prev=%s [%s]", prev, dumpXrefFull(t))
}

// classicText renders a classic table the way ISO 32000-1 7.5.4 describes it, with the
// liberties writers take (end-of-line kinds, blank lines, spaces) and optional damage.
func classicText(r *hx.Rng, damage bool) (text string, want string, conforming bool) {
	eol := hx.Pick(r, []string{"\n", "\n", "\r\n", "\r"})
	eeol := hx.Pick(r, []string{" \n", " \r", "\r\n", " \n"})
	conforming = true
	var b strings.Builder
	b.WriteString("xref" + eol)
	nsub := r.Range(1, 3)
	table := map[int]secEntry{}
	first := r.Intn(5)
	for s := 0; s < nsub; s++ {
		count := r.Range(0, 4)
		fmt.Fprintf(&b, "%d %d%s", first, count, eol)
		for i := 0; i < count; i++ {
			e := secEntry{typ: r.Intn(2), f1: int64(r.U64() % uint64(hx.Pick(r, []int64{100, 100000, 10000000000}))), f2: int64(r.Intn(hx.Pick(r, []int{2, 65536, 100000})))}
			flag := "n"
			if e.typ == 0 {
				flag = "f"
			}
			fmt.Fprintf(&b, "%010d %05d %s%s", e.f1, e.f2, flag, eeol)
			table[first+i] = e
		}
		first += count + r.Intn(3)
		if r.Chance(1, 6) {
			first = r.Intn(4) // a later subsection may assign a number again
		}
	}
	ptext, pwant := prevText(r)
	tr := "<< /Size 9 /Root 1 0 R" + ptext + " >>"
	if r.Chance(1, 5) {
		tr = "<< /Size 9" + eol + "/Root 1 0 R" + ptext + eol + ">>"
	}
	b.WriteString("trailer" + eol + tr + eol + "startxref" + eol + "0" + eol + "%%EOF" + eol)
	text = b.String()
	nums := make([]int, 0, len(table))
	for n := range table {
		nums = append(nums, n)
	}
	sort.Ints(nums)
	parts := make([]string, len(nums))
	for i, n := range nums {
		parts[i] = fmt.Sprintf("%d:%d:%d:%d", n, table[n].typ, table[n].f1, table[n].f2)
	}
	want = fmt.Sprintf("ok prev=%s [%s]", pwant, strings.Join(parts, ","))
	if damage {
		conforming = false
		bs := []byte(text)
		switch r.Intn(10) {
		case 0: // one byte replaced
			bs[r.Intn(len(bs))] = hx.Pick(r, []byte{' ', '\n', '\r', 'x', '0', '-', '+', '>', '<', 0xc2, 0xa0, 0x85, 0, 'f', 'n'})
		case 1: // a byte removed
			i := r.Intn(len(bs))
			bs = append(bs[:i], bs[i+1:]...)
		case 2: // a byte inserted
			i := r.Intn(len(bs))
			bs = append(bs[:i], append([]byte{hx.Pick(r, []byte{' ', '\n', '\r', '1', 'x'})}, bs[i:]...)...)
		case 3: // cut short
			bs = bs[:r.Intn(len(bs))]
		case 4: // blank lines and spaces around the keyword lines
			text = strings.Replace(text, "xref"+eol, " xref \t"+eol+eol, 1)
			text = strings.Replace(text, "trailer"+eol, eol+" trailer "+eol, 1)
			bs = []byte(text)
		case 5: // Unicode white space around keyword and header lines
			text = strings.Replace(text, "xref"+eol, " xref "+eol, 1)
			text = strings.Replace(text, "trailer"+eol, "\u0085trailer　"+eol, 1)
			bs = []byte(text)
		case 6: // negative / signed subsection header
			text = strings.Replace(text, eol, eol+"-3 2"+eol+"0000000017 00000 n"+eeol+"0000000018 00001 n"+eeol, 1)
			bs = []byte(text)
		case 7: // no trailer keyword
			text = strings.Replace(text, "trailer", "trailor", 1)
			bs = []byte(text)
		case 8: // the trailer dictionary never closes, or is not a dictionary
			text = strings.Replace(text, tr, hx.Pick(r, []string{"<< /Size 9", "[ 1 2 ] >>", "<< /A << /B 1 >>" + eol + "/Prev 77 >>", "<< /A (x>>y) /Prev 5" + eol + ">>"}), 1)
			bs = []byte(text)
		case 9: // a count larger than the entries present
			text = strings.Replace(text, eol, eol+"7 3"+eol+"0000000017 00000 n"+eeol, 1)
			bs = []byte(text)
		}
		text = string(bs)
	}
	return text, want, conforming
}

// xrefStreamText renders a cross-reference stream object (unfiltered or ASCIIHex) with
// optional hostile dictionary values.
func xrefStreamText(r *hx.Rng, damage bool) (text string, want string, conforming bool) {
	eol := hx.Pick(r, []string{"\n", "\n", "\r\n"})
	w := [3]int{r.Intn(3), r.Range(1, 8), r.Intn(4)}
	if r.Chance(1, 8) {
		w = [3]int{hx.Pick(r, []int{1, 8}), 8, 8}
	}
	conforming = true
	if damage && r.Chance(1, 12) {
		// a field nine bytes wide, the records really written that wide: only the check of
		// /W stands between this and entries read from the wrong bytes
		w = [3]int{1, 9, hx.Pick(r, []int{0, 1})}
		if r.Bool() {
			w = [3]int{9, 2, 1}
		}
	}
	wide := w[0] > 8 || w[1] > 8
	table := map[int]secEntry{}
	var data []byte
	var idx []string
	first := r.Intn(6)
	be := func(v int64, wd int) {
		for k := wd - 1; k >= 0; k-- {
			data = append(data, byte(uint64(v)>>(8*uint(k))))
		}
	}
	lim := func(wd int) uint64 {
		if wd >= 8 {
			return 1 << 63
		}
		return uint64(1) << uint(8*wd)
	}
	for s, nsub := 0, r.Range(1, 3); s < nsub; s++ {
		count := r.Range(0, 4)
		idx = append(idx, fmt.Sprintf("%d %d", first, count))
		for i := 0; i < count; i++ {
			e := secEntry{typ: r.Intn(3), f1: int64(r.U64() % lim(w[1])), f2: int64(r.U64() % lim(w[2]))}
			if w[0] == 0 {
				e.typ = 1
			}
			if w[2] == 0 {
				e.f2 = 0
			}
			be(int64(e.typ), w[0])
			be(e.f1, w[1])
			be(e.f2, w[2])
			table[first+i] = e
		}
		first += count + r.Intn(3)
	}
	ptext, pwant := prevText(r)
	size := first + 1
	wtext := fmt.Sprintf("[%d %d %d]", w[0], w[1], w[2])
	itext := " /Index [" + strings.Join(idx, " ") + "]"
	stext := fmt.Sprintf("/Size %d", size)
	ttext := "/Type /XRef"
	ltext := fmt.Sprint(len(data))
	after := eol
	if wide {
		conforming = false
	} else if damage {
		conforming = false
		switch r.Intn(14) {
		case 0:
			wtext = hx.Pick(r, []string{"[1 2]", "[1 2 3 4]", "[0 0 0]", "[9 1 1]", "[-1 2 1]", "[1 2.0 1]", "7", "[1 (2) 1]"})
		case 1:
			itext = hx.Pick(r, []string{" /Index [0]", " /Index [0 1 2]", " /Index [-1 1]", " /Index [0 -1]", " /Index [0 99999]", " /Index 5", " /Index [0 1.0]", " /Index []", " /Index [9223372036854775807 2]"})
		case 2:
			itext = "" // default [0 Size]
			stext = fmt.Sprintf("/Size %d", hx.Pick(r, []int{0, 1, 2, len(table), 1000000, -1}))
		case 3:
			stext = hx.Pick(r, []string{"", "/Size 3.0", "/Size (3)", "/Size null"})
		case 4:
			ttext = hx.Pick(r, []string{"", "/Type /ObjStm", "/Type (XRef)", "/Type /Xref"})
		case 5:
			ltext = hx.Pick(r, []string{fmt.Sprint(len(data) + 1), fmt.Sprint(len(data) + 500), "-1", "5 0 R", "(3)", "0"})
			if len(data) > 0 && r.Bool() {
				ltext = fmt.Sprint(r.Intn(len(data)))
			}
		case 6:
			after = hx.Pick(r, []string{"", " ", "\r", "x\n"})
		case 7:
			if len(data) > 0 && w[0] > 0 {
				data[w[0]-1] = byte(r.Range(3, 255)) // entry type out of range
			} else {
				ttext = ""
			}
		case 8: // 8-byte fields with the top bit set: int64 wraps
			w = [3]int{1, 8, 8}
			wtext = "[1 8 8]"
			data = nil
			table = map[int]secEntry{}
			for i := 0; i < 2; i++ {
				e := secEntry{typ: r.Intn(3), f1: int64(r.U64() | 1<<63), f2: int64(r.U64())}
				be(int64(e.typ), 1)
				be(e.f1, 8)
				be(e.f2, 8)
				table[3+i] = e
			}
			itext = " /Index [3 2]"
			ltext = fmt.Sprint(len(data))
		case 9:
			data = append(data, r.Bytes(r.Range(1, 5))...) // trailing bytes are ignored
			ltext = fmt.Sprint(len(data))
			conforming = true
		case 10:
			if len(data) > 0 {
				data = data[:len(data)-1]
			}
			ltext = fmt.Sprint(len(data))
		default:
			conforming = true
		}
	}
	var b strings.Builder
	hdr := hx.Pick(r, []string{"7 0 obj" + eol, "7 0 obj" + eol, "7 0 obj ", "7 0 obj", "7  0\tobj" + eol})
	fmt.Fprintf(&b, "%s<< %s %s /W %s%s /Root 1 0 R%s /Length %s >>%sstream%s", hdr, ttext, stext, wtext, itext, ptext, ltext, eol, after)
	b.Write(data)
	fmt.Fprintf(&b, "%sendstream%sendobj%s", eol, eol, eol)
	text = b.String()
	if damage && r.Chance(1, 5) {
		bs := []byte(text)
		bs[r.Intn(len(bs))] = hx.Pick(r, []byte{' ', '\n', 'x', '0', '>', '<', '/', 0})
		text = string(bs)
		conforming = false
	}
	nums := make([]int, 0, len(table))
	for n := range table {
		nums = append(nums, n)
	}
	sort.Ints(nums)
	parts := make([]string, len(nums))
	for i, n := range nums {
		parts[i] = fmt.Sprintf("%d:%d:%d:%d", n, table[n].typ, table[n].f1, table[n].f2)
	}
	want = fmt.Sprintf("ok prev=%s [%s]", pwant, strings.Join(parts, ","))
	return text, want, conforming
}

func secOps(c *hx.Ctx) {
	r := hx.NewRng(c.Seed ^ 0x5ec5)
	for i := 0; i < c.N(2500, 40000); i++ {
		damage := r.Chance(2, 5)
		var text, want string
		var conforming bool
		kind := "classic"
		if r.Chance(1, 2) {
			kind = "stream"
			text, want, conforming = xrefStreamText(r, damage)
		} else {
			text, want, conforming = classicText(r, damage)
		}
		pre := hx.Pick(r, []string{"", "%PDF-1.7\n", "junk junk\r", "1 0 obj\n<< >>\nendobj\n"})
		data := []byte(pre + text)
		off := int64(len(pre))
		if r.Chance(1, 12) {
			off = hx.Pick(r, []int64{-1, off + 1, int64(len(data)), int64(len(data)) + 5, 0, off + 4})
			if off != int64(len(pre)) {
				conforming = false
			}
		}
		out := "err"
		var t *core.XRefTable
		var err error
		if p := hx.Safe(func() { t, err = core.NewXRefParser(bytes.NewReader(data)).ParseXRef(off) }); p != "" {
			c.Check("C04/panic-parse-xref", false, map[string]string{"data": hx.Hex(data)}, func() string { return p })
			continue
		}
		if err == nil {
			out = dumpSec(t)
		}
		if conforming {
			c.Check("C04/section-not-read-as-written-"+kind, out == want, map[string]interface{}{"data": hx.Hex(data), "off": off}, func() string {
				return fmt.Sprintf("ParseXRef(%d) = %s, the section was written as %s", off, out, want)
			})
			c.Count("sec-" + kind + "-conforming")
		} else {
			c.Count("sec-" + kind + "-damaged")
		}
		c.Op(fmt.Sprintf("c04.sec %d _ %s", off, hx.Hex(data)), out)
		c.Case("sec"+string(data)+fmt.Sprint(off), out != "err")
	}
}

// ---- ParseIndirectObject ------------------------------------------------------------

type lenResolver map[int]core.Object

// asked: the object numbers the parser handed to its resolver, in order (key -1)
var askedLog []int

func (l lenResolver) ResolveReference(ref core.IndirectRef) (core.Object, error) {
	askedLog = append(askedLog, ref.Number)
	if o, ok := l[ref.Number]; ok {
		return o, nil
	}
	return nil, fmt.Errorf("no object %d", ref.Number)
}

func genValue(r *hx.Rng, depth int) string {
	switch c := r.Intn(12); {
	case c < 3:
		return fmt.Sprint(r.Intn(2000) - 1000)
	case c < 4:
		return fmt.Sprintf("%d %d R", r.Intn(30), r.Intn(3))
	case c < 5:
		return hx.Pick(r, []string{"/Name", "/A#20B", "(str)", "(a(b)c)", "<48656c6c6f>", "true", "false", "null"})
	case c < 8 && depth < 3:
		parts := []string{"["}
		for i, n := 0, r.Intn(4); i < n; i++ {
			parts = append(parts, genValue(r, depth+1))
		}
		return strings.Join(append(parts, "]"), " ")
	case c < 11 && depth < 3:
		parts := []string{"<<"}
		for i, n := 0, r.Intn(4); i < n; i++ {
			parts = append(parts, fmt.Sprintf("/K%d", r.Intn(5)), genValue(r, depth+1))
		}
		return strings.Join(append(parts, ">>"), " ")
	}
	return fmt.Sprint(r.Intn(100))
}

func indOps(c *hx.Ctx) {
	r := hx.NewRng(c.Seed ^ 0x19d0)
	for i := 0; i < c.N(2000, 30000); i++ {
		eol := hx.Pick(r, []string{"\n", "\n", "\r\n", "\r", " "})
		num, gen := r.Intn(50), r.Intn(3)
		res := lenResolver{}
		var lens []string
		var text string
		if r.Chance(1, 2) {
			text = fmt.Sprintf("%d %d obj%s%s%sendobj%s", num, gen, eol, genValue(r, 0), eol, eol)
		} else {
			data := r.Bytes(r.Intn(40))
			if r.Chance(1, 3) {
				data = []byte(hx.Pick(r, []string{"endstream", "abc\nendstream\nendobj", "", "\r\n"}))
			}
			ltext := fmt.Sprint(len(data))
			switch r.Intn(8) {
			case 0:
				ltext = "9 0 R"
				res[9] = core.Int(len(data))
				lens = append(lens, fmt.Sprintf("9=%d", len(data)))
			case 1:
				ltext = "9 1 R"
				switch r.Intn(3) {
				case 0: // resolver fails
				case 1:
					res[9] = core.Name("x")
					lens = append(lens, "9=x")
				case 2:
					v := len(data) + r.Range(-3, 3)
					res[9] = core.Int(v)
					lens = append(lens, fmt.Sprintf("9=%d", v))
				}
			case 2:
				ltext = hx.Pick(r, []string{fmt.Sprint(len(data) + 1), fmt.Sprint(len(data) + 100000), "-1", "(3)", "3.0"})
				if len(data) > 0 {
					ltext = hx.Pick(r, []string{ltext, fmt.Sprint(len(data) - 1)})
				}
			}
			seol := hx.Pick(r, []string{"\n", "\n", "\r\n", "\r", "", " \n"})
			ltag := "/Length " + ltext
			if r.Chance(1, 15) {
				ltag = ""
			}
			dict := fmt.Sprintf("<< /K %s %s >>", genValue(r, 2), ltag)
			if r.Chance(1, 15) {
				dict = "[ 1 2 ]"
			}
			text = fmt.Sprintf("%d %d obj%s%s%sstream%s%s%sendstream%sendobj%s", num, gen, eol, dict, eol, seol, data, hx.Pick(r, []string{eol, "", "\n"}), eol, eol)
		}
		if r.Chance(1, 4) {
			bs := []byte(text)
			switch r.Intn(4) {
			case 0:
				bs[r.Intn(len(bs))] = hx.Pick(r, []byte{' ', '\n', 'x', '0', '>', '<', '/', '(', ')', '%', 0, 0xff})
			case 1:
				bs = bs[:r.Intn(len(bs))]
			case 2:
				text = strings.Replace(text, "endobj", hx.Pick(r, []string{"endob", "endobjx", "", "% endobj"}), 1)
				bs = []byte(text)
			case 3:
				text = strings.Replace(text, " obj", hx.Pick(r, []string{" objx", " ob", "obj", " % c\nobj", " R"}), 1)
				bs = []byte(text)
			}
			text = string(bs)
		}
		text += hx.Pick(r, []string{"", "xref\n", "9 0 obj\n"})
		out := "err"
		var ind *core.IndirectObject
		var err error
		askedLog = nil
		if p := hx.Safe(func() {
			ps := core.NewParser(bytes.NewReader([]byte(text)))
			ps.SetReferenceResolver(res)
			ind, err = ps.ParseIndirectObject()
		}); p != "" {
			c.Check("C04/panic-parse-indirect", false, map[string]string{"data": hx.HexS(text)}, func() string { return p })
			continue
		}
		if err == nil {
			if st, ok := ind.Object.(*core.Stream); ok {
				out = fmt.Sprintf("ok %d %d S%s%s", ind.Ref.Number, ind.Ref.Generation, renderObj(st.Dict), hx.Hex(st.Data))
				c.Count("ind-stream-ok")
			} else {
				out = fmt.Sprintf("ok %d %d %s", ind.Ref.Number, ind.Ref.Generation, renderObj(ind.Object))
				c.Count("ind-plain-ok")
			}
		} else {
			c.Count("ind-err")
		}
		l := "_"
		if len(lens) > 0 {
			l = strings.Join(lens, ";")
		}
		c.Op(fmt.Sprintf("c04.ind %s %s", l, hx.HexS(text)), out)
		// which object the parser asks its resolver for (at most one, whatever follows)
		ask := "-"
		if len(askedLog) > 0 {
			ask = fmt.Sprint(askedLog[0])
			c.Count("ind-asks-resolver")
		}
		c.Check("C04/parser-asks-resolver-more-than-once", len(askedLog) <= 1, map[string]string{"data": hx.HexS(text)}, func() string {
			return fmt.Sprintf("ParseIndirectObject called its resolver %d times: %v", len(askedLog), askedLog)
		})
		c.Op("c04.ask "+hx.HexS(text), ask)
		c.Case("ind"+text+l, out != "err")
	}
}

// ---- whole files with damaged bytes ----------------------------------------------------

// mutatedFiles builds revision histories without Flate (so that no zlib answer depends on
// damaged bytes), damages a few bytes and compares reader.Open + every GetObject with the
// byte-level model.
func mutatedFiles(c *hx.Ctx) {
	n := c.N(500, 8000)
	for i := 0; i < n; i++ {
		r := c.Rng.Fork(uint64(1_000_000 + i))
		h := genHistory(r)
		for k := range h.Revs {
			h.Revs[k].Flate = false
			h.Revs[k].BigPad = 0
		}
		b := build(h)
		data := append([]byte(nil), b.data...)
		nmut := r.Range(0, 3)
		for m := 0; m < nmut; m++ {
			pos := r.Intn(len(data))
			if r.Chance(1, 2) {
				// aim at the cross-reference sections, trailers and startxref
				if j := bytes.LastIndex(data[:pos+1], []byte(hx.Pick(r, []string{"xref", "trailer", "startxref", "/Prev", "/W", "/Index", "obj", "stream", "/N ", "/First"}))); j >= 0 {
					pos = j + r.Intn(12)
					if pos >= len(data) {
						pos = len(data) - 1
					}
				}
			}
			switch r.Intn(6) {
			case 0, 1, 2:
				data[pos] = hx.Pick(r, []byte{' ', '\n', '\r', 'x', '0', '1', '9', '-', '>', '<', '/', 'R', 'f', 'n', 0, 0xa0})
			case 3:
				data = append(data[:pos], data[pos+1:]...)
			case 4:
				data = append(data[:pos], append([]byte{hx.Pick(r, []byte{' ', '\n', '0', '%'})}, data[pos:]...)...)
			case 5:
				data[pos] = byte(r.Intn(256))
			}
		}
		path := filepath.Join(c.OutDir, "c04-m.pdf")
		os.WriteFile(path, data, 0o644)
		var nums []int
		for k := -1; k <= b.maxNum+1; k++ {
			nums = append(nums, k)
		}
		hx.Shuffle(r, nums)
		nums = append(nums, nums[:len(nums)/2]...) // again: the caches are warm now
		kcase := map[string]interface{}{"history": h, "mutated": hx.Hex(data)}
		var xref string
		var answers []string
		opened := false
		if !c.Guard("C04", kcase, 10, func() {
			rd, err := reader.Open(path)
			if err != nil {
				return
			}
			opened = true
			defer rd.Close()
			xref = dumpXrefFull(rd.XRefTable())
			for _, k := range nums {
				answers = append(answers, renderLookup(rd.GetObject(k)))
			}
		}) {
			os.Remove(path)
			continue
		}
		os.Remove(path)
		out := "open-err"
		if opened {
			out = fmt.Sprintf("xref=[%s] res=[%s]", xref, strings.Join(answers, ","))
			c.Count("mutated-opened")
		} else {
			c.Count("mutated-open-error")
		}
		c.Count(fmt.Sprintf("mutations=%d", nmut))
		c.Op(fmt.Sprintf("c04.file _ %s %s", hx.Hex(data), joinInts(nums)), out)
		c.Case("mut"+string(data), opened)
	}
}

// ---- core.ObjectStream as an object with state ----------------------------------------

// osmOps: one ObjectStream, a sequence of GetObjectByIndex calls on it (repeats, negative and
// out-of-range indices), on well-formed streams and on streams with a damaged header.
func osmOps(c *hx.Ctx) {
	r := hx.NewRng(c.Seed ^ 0x05e7)
	for i := 0; i < c.N(1500, 25000); i++ {
		n := r.Range(0, 5)
		var nums, offs []string
		var body strings.Builder
		for k := 0; k < n; k++ {
			nums = append(nums, fmt.Sprint(r.Range(1, 40)))
			offs = append(offs, fmt.Sprint(body.Len()))
			body.WriteString(genValue(r, 1))
			body.WriteString(hx.Pick(r, []string{" ", "\n", " "}))
		}
		ntext := fmt.Sprint(n)
		firstDelta := 0
		fault := "none"
		if r.Chance(2, 5) && n > 0 {
			k := r.Intn(n)
			fault = hx.Pick(r, []string{"offset-outside", "offset-negative", "number-not-int", "n-too-big", "n-smaller", "first-beyond", "first-short", "offsets-swapped", "offset-equal", "n-negative", "offset-real", "offset-at-end"})
			switch fault {
			case "offset-outside":
				offs[k] = "99999"
			case "offset-negative":
				offs[k] = "-1"
			case "number-not-int":
				nums[k] = hx.Pick(r, []string{"/X", "(1)", "1.5", "null"})
			case "n-too-big":
				ntext = fmt.Sprint(n + r.Range(1, 3))
			case "n-smaller":
				ntext = fmt.Sprint(n - 1)
			case "first-beyond":
				firstDelta = 100000
			case "first-short":
				firstDelta = -r.Range(1, 3)
			case "offsets-swapped":
				j := r.Intn(n)
				offs[k], offs[j] = offs[j], offs[k]
			case "offset-equal":
				offs[k] = offs[r.Intn(n)]
			case "n-negative":
				ntext = "-1"
			case "offset-real":
				offs[k] = "2.0"
			case "offset-at-end":
				offs[k] = fmt.Sprint(body.Len())
			}
		}
		var head strings.Builder
		for k := range nums {
			fmt.Fprintf(&head, "%s %s ", nums[k], offs[k])
		}
		plain := []byte(head.String() + body.String())
		first := head.Len() + firstDelta
		dict := fmt.Sprintf("<< /Type /ObjStm /N %s /First %d", ntext, first)
		if r.Chance(1, 25) {
			dict = hx.Pick(r, []string{"<< /Type /XRef /N 1 /First 4", "<< /N 1 /First 4", "<< /Type /ObjStm /First 4", "<< /Type /ObjStm /N 1", "<< /Type /ObjStm /N 1 /First 4 /Extends 9 0 R", "<< /Type /ObjStm /N 1.0 /First 4", "<< /Type /ObjStm /N 1 /First -4"})
			fault = "dict"
		}
		data := plain
		infl := "_"
		if r.Chance(1, 3) {
			data = writers.Deflate(plain)
			dict += " /Filter /FlateDecode"
			infl = inflateTable([]writers.InflatePair{{In: data}})
		}
		dict += " >>"
		var idxs []int
		for k, m := 0, r.Range(1, 8); k < m; k++ {
			if len(idxs) > 0 && r.Chance(1, 3) {
				idxs = append(idxs, hx.Pick(r, idxs))
			} else {
				idxs = append(idxs, r.Range(-1, n+1))
			}
		}
		out := "bad-dict"
		var answers []string
		if p := hx.Safe(func() {
			obj, err := core.NewParser(bytes.NewReader([]byte(dict))).ParseObject()
			d, ok := obj.(core.Dict)
			if err != nil || !ok {
				return
			}
			os, err := core.NewObjectStream(&core.Stream{Dict: d, Data: data})
			for _, ix := range idxs {
				if err != nil {
					answers = append(answers, "e")
					continue
				}
				o, num, e := os.GetObjectByIndex(ix)
				if e != nil {
					answers = append(answers, "e")
				} else {
					answers = append(answers, fmt.Sprintf("%d:%s", num, renderObj(o)))
				}
			}
			out = strings.Join(answers, ",")
		}); p != "" {
			c.Check("C04/panic-objstm", false, map[string]string{"dict": dict, "data": hx.Hex(data)}, func() string { return p })
			continue
		}
		// the same call must give the same answer wherever it stands in the sequence
		seen := map[int]string{}
		for k, ix := range idxs {
			if k < len(answers) {
				if prev, ok := seen[ix]; ok {
					c.Check("C04/objstm-answer-depends-on-earlier-calls", prev == answers[k], map[string]interface{}{"dict": dict, "data": hx.Hex(data), "idxs": idxs}, func() string {
						return fmt.Sprintf("GetObjectByIndex(%d) = %s, earlier on the same object stream it was %s (indices %v)", ix, answers[k], prev, idxs)
					})
				}
				seen[ix] = answers[k]
			}
		}
		c.Count("osm-fault=" + fault)
		c.Op(fmt.Sprintf("c04.osm %s %s %s %s", infl, hx.HexS(dict), hx.Hex(data), joinInts(idxs)), out)
		c.Case("osm"+dict+string(data)+fmt.Sprint(idxs), strings.Contains(out, ":"))
	}
}

func byteOps(c *hx.Ctx) {
	osmOps(c)
	lineOps(c)
	findOps(c)
	secOps(c)
	indOps(c)
	mutatedFiles(c)
	boundOps(c)
}
