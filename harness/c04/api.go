package c04

// Correspondence for the model of the whole public API on the cached reader
// (Model/XrefCached.lean, Model/XrefResolve.lean): every lookup sequence the harness runs is
// replayed by the model on the bytes of the file - GetObject with objCache / objStmCache /
// objNeed / stmNeed / reach, ClearCache, Resolve, ResolveDeep, and the resolver package on
// one long-lived resolver - and compared answer by answer at full depth.

import (
	"fmt"
	"os"
	"path/filepath"
	"sort"
	"strings"

	"github.com/tsawler/tabula/core"
	"github.com/tsawler/tabula/reader"
	"github.com/tsawler/tabula/resolver"

	"verifharness/hx"
	"verifharness/writers"
)

// renderDeep is the canonical rendering shared with Handlers/C04.lean (showD): like
// renderObj, and a stream shows its dictionary (a deep resolution rewrites it).
func renderDeep(o core.Object) string {
	switch v := o.(type) {
	case core.Array:
		parts := make([]string, len(v))
		for i, e := range v {
			parts[i] = renderDeep(e)
		}
		return "[" + strings.Join(parts, ",") + "]"
	case core.Dict:
		return renderDeepDict(v)
	case *core.Stream:
		return fmt.Sprintf("S%d", len(v.Data)) + renderDeepDict(v.Dict)
	}
	return renderObj(o)
}

func renderDeepDict(v core.Dict) string {
	keys := make([]string, 0, len(v))
	for k := range v {
		keys = append(keys, k)
	}
	sort.Strings(keys)
	parts := make([]string, len(keys))
	for i, k := range keys {
		parts[i] = hx.HexS(k) + ":" + renderDeep(v[k])
	}
	return "{" + strings.Join(parts, ",") + "}"
}

func renderDeepLookup(o core.Object, err error) string {
	if err != nil {
		return "e"
	}
	return renderDeep(o)
}

// probeDeep is the rendering of a value too large to render (probeD): the number of arrays
// along the first and along the last elements, and what stands at the end.
func probeDeep(o core.Object, err error) string {
	if err != nil {
		return "e"
	}
	leaf := func(o core.Object) string {
		switch v := o.(type) {
		case core.Int:
			return fmt.Sprintf("i%d", int64(v))
		case core.Array:
			if len(v) == 0 {
				return "[]"
			}
		case core.IndirectRef:
			return fmt.Sprintf("%d.%dR", v.Number, v.Generation)
		}
		return "o"
	}
	walk := func(last bool) string {
		n := 0
		cur := o
		for {
			a, ok := cur.(core.Array)
			if !ok || len(a) == 0 {
				return fmt.Sprintf("%d:%s", n, leaf(cur))
			}
			if last {
				cur = a[len(a)-1]
			} else {
				cur = a[0]
			}
			n++
		}
	}
	return "P" + walk(false) + "/" + walk(true)
}

func apiOp(c *hx.Ctx, data []byte, infl string, maxDepth int, mode string, ops []string, answers []string) {
	if len(ops) == 0 {
		return
	}
	md := maxDepth
	if md == 0 {
		md = resolverDepth
	}
	c.Op(fmt.Sprintf("c04.api %s %s %d %s %s", infl, hx.Hex(data), md, mode, strings.Join(ops, ",")), strings.Join(answers, ","))
}

// runApiOn runs a lookup sequence on one fresh reader (and one resolver) over the given
// file and emits the op for the model of the API; no oracle of its own.
func runApiOn(c *hx.Ctx, k interface{}, data []byte, infl string, maxDepth int, mode string, ops []string) {
	path := filepath.Join(c.OutDir, "c04-apion.pdf")
	os.WriteFile(path, data, 0o644)
	defer os.Remove(path)
	render := renderDeepLookup
	if mode == "probe" {
		render = probeDeep
	}
	var answers []string
	opened := false
	if !c.Guard("C04", k, 30, func() {
		s, err := openSessionD(path, maxDepth)
		if err != nil {
			return
		}
		opened = true
		defer s.rd.Close()
		for _, op := range ops {
			obj, err := s.doGraph(op)
			if kind, _ := parseOp(op); noAnswer(kind) {
				answers = append(answers, "-")
				continue
			}
			answers = append(answers, render(obj, err))
		}
	}) {
		return
	}
	if opened {
		apiOp(c, data, infl, maxDepth, mode, ops, answers)
	}
}

// ---- reference graphs of any shape ---------------------------------------------------------

// graphCase: objects 1 … N with the given bodies (PDF syntax), a classic table (or a
// cross-reference stream), optionally a second revision that replaces / deletes some; lookup
// sequence Ops on one reader and one resolver with depth limit MaxDepth.
type graphCase struct {
	Graph    []string `json:"graph"` // body of object i+1; "" = the number is never defined
	Rev2     []string `json:"rev2,omitempty"` // second revision: "" untouched, "-" deleted, else the new body
	Stream   bool     `json:"stream,omitempty"`
	Ops      []string `json:"ops"`
	MaxDepth int      `json:"max_depth,omitempty"`
	Probe    bool     `json:"probe,omitempty"`
}

func buildGraph(k graphCase) ([]byte, []writers.InflatePair) {
	p := writers.NewPDF("\n")
	p.Tr = &writers.Trace{}
	entries := map[int]writers.XEntry{0: {Type: 0, F1: 0, F2: 65535}}
	put := func(es map[int]writers.XEntry, n int, body string) {
		if strings.HasPrefix(body, "stream:") {
			// a stream object: "stream:<dict entries>|<data>"
			parts := strings.SplitN(body[len("stream:"):], "|", 2)
			text := fmt.Sprintf("<< %s /Length %d >>\nstream\n%s\nendstream", parts[0], len(parts[1]), parts[1])
			es[n] = writers.XEntry{Type: 1, F1: p.Obj(n, 0, text)}
			return
		}
		es[n] = writers.XEntry{Type: 1, F1: p.Obj(n, 0, body)}
	}
	for i, body := range k.Graph {
		if body != "" {
			put(entries, i+1, body)
		}
	}
	size := len(k.Graph) + 2
	var prev int64
	if k.Stream {
		prev = p.XrefStream(len(k.Graph)+1, entries, "/Root 1 0 R", -1, [3]int{1, 4, 2}, true, 0, size)
	} else {
		prev = p.XrefTable(entries, fmt.Sprintf("/Root 1 0 R /Size %d", size), -1, " \n")
	}
	if len(k.Rev2) > 0 {
		e2 := map[int]writers.XEntry{}
		for i, body := range k.Rev2 {
			switch body {
			case "":
			case "-":
				e2[i+1] = writers.XEntry{Type: 0, F1: 0, F2: 1}
			default:
				put(e2, i+1, body)
			}
		}
		p.XrefTable(e2, fmt.Sprintf("/Root 1 0 R /Size %d", size), prev, " \n")
	}
	return p.Buf.Bytes(), p.Tr.Inflate
}

// genGraphValue draws a body: integers, references to any of the n+2 first numbers (so
// cycles, self references, dangling references), with generation 0 or not, nested arrays and
// dictionaries up to the given depth.
func genGraphValue(r *hx.Rng, n, depth int) string {
	ref := func() string {
		g := 0
		if r.Chance(1, 8) {
			g = r.Range(1, 3)
		}
		return fmt.Sprintf("%d %d R", r.Range(1, n+2), g)
	}
	switch c := r.Intn(10); {
	case c < 4:
		return ref()
	case c < 8 && depth > 0:
		m := r.Range(0, 3)
		if r.Bool() {
			parts := []string{"["}
			for i := 0; i < m; i++ {
				parts = append(parts, genGraphValue(r, n, depth-1))
			}
			return strings.Join(append(parts, "]"), " ")
		}
		parts := []string{"<<"}
		keys := []string{"/B", "/A", "/Kids", "/Parent", "/C"}
		hx.Shuffle(r, keys)
		for i := 0; i < m; i++ {
			parts = append(parts, keys[i], genGraphValue(r, n, depth-1))
		}
		return strings.Join(append(parts, ">>"), " ")
	}
	return fmt.Sprint(r.Intn(1000))
}

func genGraph(r *hx.Rng) graphCase {
	n := r.Range(1, 7)
	k := graphCase{Stream: r.Chance(1, 4)}
	for i := 0; i < n; i++ {
		switch c := r.Intn(12); {
		case c == 0:
			k.Graph = append(k.Graph, "")
		case c == 1:
			k.Graph = append(k.Graph, "stream:/K "+genGraphValue(r, n, 1)+"|abc")
		case c < 5:
			k.Graph = append(k.Graph, genGraphValue(r, n, 0))
		default:
			k.Graph = append(k.Graph, "[ "+genGraphValue(r, n, 2)+" "+genGraphValue(r, n, 1)+" ]")
		}
	}
	if r.Chance(1, 3) {
		k.Rev2 = make([]string, n)
		for i := range k.Rev2 {
			switch c := r.Intn(6); {
			case c == 0:
				k.Rev2[i] = "-"
			case c == 1:
				k.Rev2[i] = genGraphValue(r, n, 2)
			}
		}
	}
	if r.Chance(1, 2) {
		k.MaxDepth = r.Range(1, 9)
	}
	kinds := []string{"g", "r", "D", "D", "E", "x", "y", "s", "p", "p", "q", "z", "t", "u", "w"}
	for i, m := 0, r.Range(3, 12); i < m; i++ {
		switch {
		case r.Chance(1, 10):
			k.Ops = append(k.Ops, "c")
		case r.Chance(1, 12):
			k.Ops = append(k.Ops, "R")
		case len(k.Ops) > 0 && r.Chance(1, 4):
			k.Ops = append(k.Ops, hx.Pick(r, k.Ops))
		default:
			op := fmt.Sprintf("%s%d", hx.Pick(r, kinds), r.Range(0, n+2))
			if r.Chance(1, 10) && strings.ContainsAny(op[:1], "rDspuy") {
				op += fmt.Sprintf(".%d", r.Range(1, 2))
			}
			k.Ops = append(k.Ops, op)
		}
	}
	return k
}

// doGraph is session.do with references that may carry a generation ("D5.1").
func (s *session) doGraph(op string) (core.Object, error) {
	if i := strings.IndexByte(op, '.'); i > 0 {
		var n, g int
		fmt.Sscanf(op[1:], "%d.%d", &n, &g)
		ref := core.IndirectRef{Number: n, Generation: g}
		switch op[0] {
		case 'r':
			return s.rd.Resolve(ref)
		case 'D':
			return s.rd.ResolveDeep(ref)
		case 's':
			return s.res.Resolve(ref)
		case 'p':
			return s.res.ResolveDeep(ref)
		case 'u':
			return s.res.ResolveReference(ref)
		case 'y':
			return s.res.ResolveReferenceDeep(ref)
		}
		return nil, fmt.Errorf("harness: unknown op %q", op)
	}
	return s.do(op)
}

func runGraph(c *hx.Ctx, k graphCase) {
	data, infl := buildGraph(k)
	path := filepath.Join(c.OutDir, "c04-graph.pdf")
	os.WriteFile(path, data, 0o644)
	defer os.Remove(path)
	render := renderDeepLookup
	mode := "full"
	if k.Probe {
		render, mode = probeDeep, "probe"
	}
	var answers []string
	alone := map[string]string{}
	again := map[string]string{} // the same lookup alone on another fresh reader and resolver
	opened := false
	if !c.Guard("C04", k, 30, func() {
		s, err := openSessionD(path, k.MaxDepth)
		if err != nil {
			return
		}
		opened = true
		defer s.rd.Close()
		for _, op := range k.Ops {
			obj, err := s.doGraph(op)
			if kind, _ := parseOp(op); noAnswer(kind) {
				answers = append(answers, "-")
				continue
			}
			answers = append(answers, render(obj, err))
		}
		for _, op := range k.Ops {
			if kind, _ := parseOp(op); noAnswer(kind) {
				continue
			}
			if _, done := alone[op]; done {
				continue
			}
			for _, m := range []map[string]string{alone, again} {
				f, err := openSessionD(path, k.MaxDepth)
				if err != nil {
					m[op] = "open-error"
					continue
				}
				m[op] = render(f.doGraph(op))
				f.rd.Close()
			}
		}
	}) {
		return
	}
	if !opened {
		c.Check("C04/open", false, k, func() string { return "reader.Open failed on a well-formed file" })
		return
	}
	apiOp(c, data, inflateTable(append(infl, scanInflate(data)...)), k.MaxDepth, mode, k.Ops, answers)
	nontrivial := false
	for i, op := range k.Ops {
		kind, _ := parseOp(op)
		if noAnswer(kind) {
			continue
		}
		i, op := i, op
		c.Count("graph-op=" + string(kind))
		if answers[i] != "e" {
			nontrivial = true
		}
		c.Check("C04/answer-depends-on-earlier-lookups", answers[i] == alone[op], k, func() string {
			return fmt.Sprintf("lookup #%d (%s) = %s after the earlier operations, but %s as the only lookup on a freshly opened reader (ops %v)", i+1, op, answers[i], alone[op], k.Ops)
		})
		c.Check("C04/same-lookup-differs-from-run-to-run", alone[op] == again[op], k, func() string {
			return fmt.Sprintf("%s as the only lookup on a freshly opened reader = %s, and on another freshly opened reader %s", op, alone[op], again[op])
		})
	}
	c.Case(fmt.Sprintf("graph%+v", k), nontrivial)
}

// depthEdge: the depth limit of the resolver package and a result it shares. Object 2 is
// `inner` arrays around an integer; object 1 refers to it twice - directly and from inside
// `extra` further arrays - as the values of a dictionary (Go ranges over it in map order) or
// as the elements of an array in either order. Where the reference stands too deep to be
// resolved there, the whole resolution must fail, whatever was resolved before it.
func depthEdge(c *hx.Ctx, inner, extra, maxDepth int, shape string) {
	deep := "7"
	for i := 0; i < inner; i++ {
		deep = "[ " + deep + " ]"
	}
	far := "2 0 R"
	for i := 0; i < extra; i++ {
		far = "[ " + far + " ]"
	}
	var top string
	switch shape {
	case "dict":
		top = "<< /A 2 0 R /B " + far + " >>"
	case "near-first":
		top = "[ 2 0 R " + far + " ]"
	default:
		top = "[ " + far + " 2 0 R ]"
	}
	k := graphCase{Graph: []string{top, deep}, Ops: []string{"p1", "p1", "q1", "t1", "y1", "x1", "p2", "p1", "D1"}, MaxDepth: maxDepth, Probe: true}
	c.Count("depth-edge-" + shape)
	// the levels the deeper of the two references needs: the reference to object 1, object
	// 1 itself, `extra` arrays, the reference, `inner` arrays, the integer
	levels := 2 + extra + 1 + inner + 1
	data, _ := buildGraph(k)
	path := filepath.Join(c.OutDir, "c04-edge.pdf")
	os.WriteFile(path, data, 0o644)
	defer os.Remove(path)
	limit := maxDepth
	if limit == 0 {
		limit = resolverDepth
	}
	okCount, errCount := 0, 0
	if !c.Guard("C04", k, 30, func() {
		rd, err := reader.Open(path)
		if err != nil {
			return
		}
		defer rd.Close()
		for i := 0; i < 24; i++ {
			var res *resolver.ObjectResolver
			if maxDepth > 0 {
				res = resolver.NewResolver(rd, resolver.WithMaxDepth(maxDepth))
			} else {
				res = resolver.NewResolver(rd)
			}
			if _, err := res.ResolveDeep(core.IndirectRef{Number: 1}); err != nil {
				errCount++
			} else {
				okCount++
			}
		}
	}) {
		return
	}
	c.Check("C04/same-lookup-differs-from-run-to-run", okCount == 0 || errCount == 0, k, func() string {
		return fmt.Sprintf("resolver.ResolveDeep(1 0 R) on fresh resolvers of one reader: answered %d times, refused %d times", okCount, errCount)
	})
	c.Check("C04/deep-limit-depends-on-earlier-resolutions", (errCount > 0) == (levels > limit) || okCount+errCount == 0, k, func() string {
		return fmt.Sprintf("resolver.ResolveDeep(1 0 R): the deeper reference to object 2 needs %d levels, the limit is %d, answered %d times, refused %d times", levels, limit, okCount, errCount)
	})
	runGraph(c, k)
}

func apiOps(c *hx.Ctx) {
	base := hx.NewRng(c.Seed ^ 0x61706921)
	n := c.N(500, 8000)
	for i := 0; i < n; i++ {
		r := base.Fork(uint64(i))
		k := genGraph(r)
		if k.MaxDepth != 0 {
			c.Count("graph-bounded-resolver")
		}
		if len(k.Rev2) > 0 {
			c.Count("graph-two-revisions")
		}
		runGraph(c, k)
	}
	for _, shape := range []string{"dict", "near-first", "far-first"} {
		for _, md := range []int{0, 12} {
			limit := md
			if limit == 0 {
				limit = resolverDepth
			}
			// the nearer reference always fits; the deeper one fits up to extra = 3
			for _, extra := range []int{0, 1, 3, 4, 6} {
				depthEdge(c, limit-7, extra, md, shape)
			}
		}
	}
}
